// C02 — a reply that arrives in time is never lost.
//
// The adversary answers every transmission it sees; the fake connection knows
// when the client's reader consumed each reply. A call whose reply was consumed
// well before its deadline must return exactly that reply: an error, a timeout
// or the reply to a later (re)transmission is a violation. The windows "reply
// arrives before the send call returns" and "between send and wait" are forced
// deterministically with a synchronous connection and the verif hook points.
package main

import (
	"context"
	"errors"
	"fmt"
	"io"
	"math/rand"
	"os"
	"runtime"
	"strings"
	"sync"
	"sync/atomic"
	"time"

	"github.com/IrineSistiana/mosdns/v5/pkg/pool"
	"github.com/IrineSistiana/mosdns/v5/pkg/upstream/transport"

	"verifharness/lib/dnsadv"
	"verifharness/lib/evid"
	"verifharness/lib/fakenet"
	"verifharness/lib/poolsan"
	"verifharness/lib/sched"
	"verifharness/lib/wire"
)

var (
	rep     *evid.Reporter
	caselog *evid.CaseLog
)

type cell struct {
	Transport string `json:"transport"` // tdc | pipeline | reuse
	Stream    bool   `json:"stream"`
	Mode      string `json:"mode"`  // sync | hold | async
	After     string `json:"after"` // open | eof | readerr
	Callers   int    `json:"callers"`
	Rep       int    `json:"rep"`
	Seed      int64  `json:"seed"`
}

func (c cell) key() string {
	fr := "dgram"
	if c.Stream {
		fr = "stream"
	}
	return fmt.Sprintf("%s-%s-%s-%s-n%d", c.Transport, fr, c.Mode, c.After, c.Callers)
}

type connState struct {
	dispatched atomic.Int64 // tdc.readloop.dispatched / reuse.readloop.idle count
	injected   atomic.Int64 // replies injected
	mu         sync.Mutex
	defr       wire.Deframer
	trans      map[int]int
	killAfter  int // inject EOF/err after this many replies (0 = never)
	killed     bool
}

type callRec struct {
	seq        int
	id         uint16
	mu         sync.Mutex
	consumedAt time.Duration // first consumed reply
	consumedTk string
	tokens     map[string]bool
	hold       bool // the adversary withholds the reply until told (wrap-around scenario)
	heldSeen   chan struct{}
	held       bool // caller was held at the written hook until the reader had dispatched
	syncOK     bool // sync handshake completed (reply consumed+dispatched before Write returned)
}

type run struct {
	cell  cell
	net   *fakenet.Net
	mu    sync.Mutex
	calls map[int]*callRec
	inj   map[int64]*injRec // per conn injection id is not global; key by conn ptr+id below
	injK  map[injKey]*injRec
	rng   *rand.Rand
	nrep  int
	heldQ []heldQuery
	// noStray: no unknown-ID replies (the wrap cell uses the whole 16-bit ID space)
	noStray bool
}

type heldQuery struct {
	c  *fakenet.Conn
	qi dnsadv.QueryInfo
}

type injKey struct {
	c  *fakenet.Conn
	id int64
}
type injRec struct {
	cl  *callRec
	tok string
}

func st(c *fakenet.Conn) *connState { return c.User.(*connState) }

func (r *run) newConn() *fakenet.Conn {
	c := r.net.NewConn(r.cell.Stream)
	if r.cell.Stream && r.cell.Seed%2 == 0 {
		c.Coalesce = true // one Read may return several replies at once, as TCP does
	}
	c.ErrWithData = r.cell.Stream // set before the connection is in use
	cs := &connState{trans: map[int]int{}}
	if r.cell.After != "open" {
		r.mu.Lock()
		cs.killAfter = 1 + r.rng.Intn(r.cell.Callers)
		if r.cell.Transport == "reuse" {
			cs.killAfter = 1 // one query at a time per connection
		}
		r.mu.Unlock()
	}
	c.User = cs
	c.OnWrite = r.onWrite
	c.OnRead = r.onRead
	return c
}

func (r *run) onRead(c *fakenet.Conn, injID int64, n int) {
	r.mu.Lock()
	ir := r.injK[injKey{c, injID}]
	r.mu.Unlock()
	if ir == nil {
		return
	}
	ir.cl.mu.Lock()
	if ir.cl.consumedTk == "" {
		ir.cl.consumedTk = ir.tok
		ir.cl.consumedAt = time.Since(r.net.Base)
	}
	ir.cl.mu.Unlock()
}

// settle waits until the reader has dispatched everything injected on c (or,
// if the connection was killed after the reply, until the client closed it).
func (r *run) settle(c *fakenet.Conn) bool {
	cs := st(c)
	deadline := time.Now().Add(200 * time.Millisecond)
	for time.Now().Before(deadline) {
		cs.mu.Lock()
		killed := cs.killed
		cs.mu.Unlock()
		if killed {
			if c.IsClosed() {
				for i := 0; i < 20; i++ {
					runtime.Gosched()
				}
				time.Sleep(100 * time.Microsecond)
				return true
			}
		} else if cs.dispatched.Load() >= cs.injected.Load() && c.Pending() == 0 {
			if r.cell.Transport == "reuse" {
				// the hand-off send follows the idle hook without a further hook
				for i := 0; i < 20; i++ {
					runtime.Gosched()
				}
				time.Sleep(50 * time.Microsecond)
			}
			return true
		}
		time.Sleep(10 * time.Microsecond)
	}
	return false
}

func (r *run) onWrite(c *fakenet.Conn, data []byte) error {
	cs := st(c)
	var frames [][]byte
	if c.Stream {
		cs.mu.Lock()
		frames = cs.defr.Feed(data)
		cs.mu.Unlock()
	} else {
		frames = [][]byte{data}
	}
	for _, f := range frames {
		qi, err := dnsadv.ParseQuery(f)
		if err != nil {
			continue
		}
		r.mu.Lock()
		cl := r.calls[qi.Seq]
		r.nrep++
		n := r.nrep
		pad := r.rng.Intn(300)
		r.mu.Unlock()
		if cl == nil {
			continue
		}
		if cl.hold {
			r.mu.Lock()
			r.heldQ = append(r.heldQ, heldQuery{c: c, qi: qi})
			r.mu.Unlock()
			select {
			case cl.heldSeen <- struct{}{}:
			default:
			}
			continue
		}
		cs.mu.Lock()
		if cs.killed {
			cs.mu.Unlock()
			continue
		}
		cs.trans[qi.Seq]++
		tok := fmt.Sprintf("r/c%d/q%d/t%d/n%d", c.ID, qi.Seq, cs.trans[qi.Seq], n)
		msg := dnsadv.Reply(qi.WireID, 0x8180, qi.QSect, tok, pad, byte(n))
		if c.Stream {
			msg = wire.Frame(msg)
		}
		cl.mu.Lock()
		cl.tokens[tok] = true
		cl.mu.Unlock()
		// register before injecting so that onRead finds it
		r.mu.Lock()
		cs.injected.Add(1)
		kill := cs.killAfter > 0 && int(cs.injected.Load()) >= cs.killAfter
		r.mu.Unlock()
		if !c.Stream && (r.cell.Seed+int64(n))%3 == 0 {
			// a datagram shorter than a DNS header right before the reply: must be
			// ignored without affecting the following reply
			c.Inject(make([]byte, 1+int(r.cell.Seed+int64(n))%11))
			rep.Count("runt_datagrams_injected_before_reply", 1)
		}
		if r.cell.Transport != "reuse" && !r.noStray && (r.cell.Seed+int64(n))%3 == 2 {
			// a well-formed reply whose ID matches no outstanding query (the late answer to
			// a query its caller has abandoned) right before the real reply: it must be
			// dropped without affecting the connection or the reply behind it
			sq := append(wire.EncodeName(fmt.Sprintf("stray%d.c02.test.", n)), 0, 1, 0, 1)
			stray := dnsadv.Reply(qi.WireID^0x8000, 0x8180, sq, fmt.Sprintf("stray/%d", n), 0, 0)
			if c.Stream {
				stray = wire.Frame(stray)
			}
			c.Inject(stray)
			rep.Count("unknown_id_replies_injected_before_reply", 1)
		}
		// a third of the kills deliver the error in the same Read call as the last
		// bytes of the reply (io.Reader allows n > 0 with err != nil; crypto/tls does
		// it for a close_notify that follows the data): the reply still arrived
		together := kill && c.Stream && (r.cell.Seed+int64(n))%3 == 1 // (datagram sockets never return data together with an error)
		var id int64
		if together {
			kerr := error(fakenet.ErrInjected)
			if r.cell.After == "eof" {
				kerr = io.EOF
			}
			id = c.InjectWithErr(msg, kerr)
			rep.Count("replies_delivered_together_with_the_read_error", 1)
		} else {
			id = c.Inject(msg)
		}
		r.mu.Lock()
		r.injK[injKey{c, id}] = &injRec{cl: cl, tok: tok}
		r.mu.Unlock()
		// onRead may have run before the registration: re-check
		if c.Consumed(id) {
			r.onRead(c, id, 0)
		}
		if kill {
			cs.killed = true
			if together {
				// already queued
			} else if r.cell.After == "eof" {
				c.InjectEOF()
			} else {
				c.InjectErr(fakenet.ErrInjected)
			}
		}
		cs.mu.Unlock()
		if r.cell.Mode == "sync" {
			ok := r.settle(c)
			cl.mu.Lock()
			cl.syncOK = ok
			cl.mu.Unlock()
		}
	}
	return nil
}

type exchanger func(ctx context.Context, q []byte) (*[]byte, error)

func (r *run) makeExchanger() (exchanger, func()) {
	stream := r.cell.Stream
	switch r.cell.Transport {
	case "tdc":
		c := r.newConn()
		dc := transport.NewDnsConn(transport.TraditionalDnsConnOpts{WithLengthHeader: stream, IdleTimeout: 10 * time.Second, MaxConcurrentQuery: 4096}, c)
		return func(ctx context.Context, q []byte) (*[]byte, error) {
			rx, closed := dc.ReserveNewQuery()
			if rx == nil {
				return nil, fmt.Errorf("reserve failed closed=%v", closed)
			}
			return rx.ExchangeReserved(ctx, q)
		}, func() { dc.Close() }
	case "pipeline":
		t := transport.NewPipelineTransport(transport.PipelineOpts{
			DialContext: func(ctx context.Context) (transport.DnsConn, error) {
				return transport.NewDnsConn(transport.TraditionalDnsConnOpts{WithLengthHeader: stream, IdleTimeout: 10 * time.Second, MaxConcurrentQuery: 4096}, r.newConn()), nil
			},
			MaxConcurrentQueryWhileDialing: 4096,
		})
		return t.ExchangeContext, func() { t.Close() }
	case "reuse":
		t := transport.NewReuseConnTransport(transport.ReuseConnOpts{
			DialContext: func(ctx context.Context) (transport.NetConn, error) { return r.newConn(), nil },
		})
		return t.ExchangeContext, func() { t.Close() }
	}
	panic("bad transport")
}

var seqCounter atomic.Int64

// holdHook is installed once; it consults the current run.
var curRun atomic.Pointer[run]

func holdHook(name string, arg any) {
	r := curRun.Load()
	if r == nil || r.cell.Mode != "hold" {
		return
	}
	c, ok := arg.(*fakenet.Conn)
	if !ok {
		return
	}
	r.settle(c)
}

func dispatchedHook(name string, arg any) {
	if c, ok := arg.(*fakenet.Conn); ok {
		if cs, ok := c.User.(*connState); ok {
			cs.dispatched.Add(1)
		}
	}
}

func runCell(cl cell) (violated bool) {
	caselog.Log(cl)
	r := &run{cell: cl, net: fakenet.NewNet(), calls: map[int]*callRec{}, injK: map[injKey]*injRec{}, rng: rand.New(rand.NewSource(cl.Seed))}
	curRun.Store(r)
	defer curRun.Store(nil)
	ex, closeFn := r.makeExchanger()
	defer closeFn()
	timeout := 1500 * time.Millisecond
	if !cl.Stream {
		timeout = 1800 * time.Millisecond // lets the 1 s resend expose a lost first reply quickly
	}
	var wg sync.WaitGroup
	var vmu sync.Mutex
	for w := 0; w < cl.Callers; w++ {
		wg.Add(1)
		go func(w int) {
			defer wg.Done()
			seq := int(seqCounter.Add(1))
			c := &callRec{seq: seq, id: uint16(seq*131 + w), tokens: map[string]bool{}}
			r.mu.Lock()
			r.calls[seq] = c
			r.mu.Unlock()
			q := dnsadv.Query(c.id, seq, uint32(cl.Seed), "c02", 1)
			ctx, cancel := context.WithTimeout(context.Background(), timeout)
			t0 := time.Since(r.net.Base)
			rb, err := ex(ctx, q)
			t1 := time.Since(r.net.Base)
			cancel()
			rep.Eval(1)
			c.mu.Lock()
			consumedTk, consumedAt, syncOK := c.consumedTk, c.consumedAt, c.syncOK
			c.mu.Unlock()
			wit := map[string]any{"cell": cl, "call_seq": seq, "consumed_token": consumedTk, "consumed_at_ms": float64(consumedAt) / 1e6,
				"call_start_ms": float64(t0) / 1e6, "call_return_ms": float64(t1) / 1e6, "deadline_ms": float64(t0+timeout) / 1e6}
			nontriv := false
			switch cl.Mode {
			case "sync":
				nontriv = syncOK
			case "hold":
				nontriv = consumedTk != "" && consumedAt < t1
			default:
				nontriv = cl.After != "open" && consumedTk != ""
			}
			if err != nil {
				wit["error"] = err.Error()
				// consumed comfortably before the deadline and before the call returned?
				if consumedTk != "" && consumedAt < t1 && consumedAt+200*time.Millisecond < t0+timeout {
					vmu.Lock()
					violated = true
					vmu.Unlock()
					kind := "reply-lost"
					if errors.Is(err, context.DeadlineExceeded) {
						kind = "reply-lost-timeout"
					}
					rep.Violation(kind+"-"+cl.key(), fmt.Sprintf("the reader consumed the reply (%s) at %.3f ms, %.0f ms before the deadline, but the call returned error %q", consumedTk, float64(consumedAt)/1e6, float64(t0+timeout-consumedAt)/1e6, err.Error()), wit)
				} else if cl.After == "open" {
					// fault-free cell: the adversary answers every transmission at once and never
					// breaks the connection, so the reply was available on the connection well
					// before the deadline. A client that closed the connection (or otherwise gave
					// up) before reading it lost a reply that had arrived in time.
					c.mu.Lock()
					ntok := len(c.tokens)
					c.mu.Unlock()
					if ntok > 0 {
						vmu.Lock()
						violated = true
						vmu.Unlock()
						wit["replies_sent_for_this_call"] = ntok
						rep.Violation("reply-available-but-never-read-"+cl.key(), fmt.Sprintf("fault-free connection: the server sent %d repl(y/ies) for this call at once, yet the call returned error %q without the reader ever taking them", ntok, err.Error()), wit)
					} else {
						rep.Count("calls_failed_before_reaching_the_server", 1)
					}
				} else {
					rep.Count("calls_failed_without_a_consumed_reply(legitimate)", 1)
				}
				return
			}
			defer pool.ReleaseBuf(rb)
			if !poolsan.Check(rb, "reply returned in "+cl.key()) {
				return
			}
			ri, perr := dnsadv.ParseReply(*rb)
			if perr != nil || ri.Seq != seq {
				rep.Violation("foreign-reply-"+cl.key(), fmt.Sprintf("call q%d got reply %q (%v)", seq, ri.Token, perr), wit)
				return
			}
			wit["returned_token"] = ri.Token
		if ri.ID != c.id {
			rep.Violation("id-not-restored-"+cl.Transport+"-"+cl.Mode+"-"+cl.After, fmt.Sprintf("call with caller ID %#04x got its reply back with ID %#04x", c.id, ri.ID), wit)
			return
		}
			if consumedTk != "" && ri.Token != consumedTk {
				vmu.Lock()
				violated = true
				vmu.Unlock()
				rep.Violation("lost-then-retransmitted-"+cl.key(), fmt.Sprintf("the reply to the first transmission (%s) was consumed by the reader but the call returned the reply to a later transmission (%s)", consumedTk, ri.Token), wit)
				return
			}
			rep.Count("calls_returned_first_consumed_reply", 1)
			if nontriv {
				rep.Nontrivial(fmt.Sprintf("%s|rep%d|w%d", cl.key(), cl.Rep, w))
				rep.Count("nontrivial:"+cl.Mode+"/"+cl.After, 1)
			}
		}(w)
	}
	wg.Wait()
	return violated
}

// runWrap: one query stays outstanding on a datagram connection while more than
// 65536 others pass (the 16-bit wire-ID counter wraps past the outstanding ID);
// then its reply arrives. The reply is consumed by the reader, so the call must
// return it.
func runWrap(seed int64, n int) {
	cl := cell{Transport: "tdc", Stream: false, Mode: "async", After: "open", Callers: 1, Rep: 0, Seed: seed}
	caselog.Log(map[string]any{"wrap": cl})
	r := &run{cell: cl, net: fakenet.NewNet(), calls: map[int]*callRec{}, injK: map[injKey]*injRec{}, rng: rand.New(rand.NewSource(seed)), noStray: true}
	curRun.Store(r)
	defer curRun.Store(nil)
	ex, closeFn := r.makeExchanger()
	defer closeFn()
	hseq := int(seqCounter.Add(1))
	hc := &callRec{seq: hseq, id: 0xBEEF, tokens: map[string]bool{}, hold: true, heldSeen: make(chan struct{}, 1)}
	r.mu.Lock()
	r.calls[hseq] = hc
	r.mu.Unlock()
	type res struct {
		rb  *[]byte
		err error
	}
	done := make(chan res, 1)
	hctx, hcancel := context.WithTimeout(context.Background(), 120*time.Second)
	defer hcancel()
	go func() {
		rb, err := ex(hctx, dnsadv.Query(hc.id, hseq, 1, "c02", 1))
		done <- res{rb, err}
	}()
	select {
	case <-hc.heldSeen:
	case <-time.After(5 * time.Second):
		rep.Inconclusive("wrap: held query never reached the adversary")
		return
	}
	var wg sync.WaitGroup
	var failed, passed atomic.Int64
	var stop atomic.Bool
	for w := 0; w < 4; w++ {
		wg.Add(1)
		go func() {
			defer wg.Done()
			for i := 0; i < n/4 && !stop.Load(); i++ {
				seq := int(seqCounter.Add(1))
				c := &callRec{seq: seq, id: uint16(seq), tokens: map[string]bool{}}
				r.mu.Lock()
				r.calls[seq] = c
				r.mu.Unlock()
				ctx, cancel := context.WithTimeout(context.Background(), 5*time.Second)
				rb, err := ex(ctx, dnsadv.Query(c.id, seq, 1, "c02", 1))
				cancel()
				if err != nil {
					failed.Add(1)
					c.mu.Lock()
					tk := c.consumedTk
					c.mu.Unlock()
					if tk != "" && !stop.Swap(true) {
						rep.Violation("reply-lost-past-wire-id-wrap", fmt.Sprintf("exchange #%d on one connection: the reader consumed its reply (%s) at once, seconds before the deadline, but the call returned error %q", i*4, tk, err.Error()),
							map[string]any{"scenario": "sequential exchanges on one datagram connection past 65536", "call_seq": seq, "exchanges_before": passed.Load()})
					}
				} else {
					passed.Add(1)
					pool.ReleaseBuf(rb)
				}
				r.mu.Lock()
				delete(r.calls, seq)
				r.mu.Unlock()
			}
		}()
	}
	wg.Wait()
	if stop.Load() {
		hcancel()
		<-done
		return
	}
	rep.Eval(1)
	// now the held query's reply arrives (to its first transmission and every resend)
	r.mu.Lock()
	hq := r.heldQ
	r.heldQ = nil
	hc.hold = false
	r.mu.Unlock()
	if len(hq) == 0 {
		rep.Inconclusive("wrap: no held transmission recorded")
		return
	}
	first := hq[0]
	tok := fmt.Sprintf("r/c%d/q%d/held", first.c.ID, hseq)
	msg := dnsadv.Reply(first.qi.WireID, 0x8180, first.qi.QSect, tok, 10, 1)
	id := first.c.Inject(msg)
	r.mu.Lock()
	r.injK[injKey{first.c, id}] = &injRec{cl: hc, tok: tok}
	r.mu.Unlock()
	if !first.c.WaitConsumed(id, 5*time.Second) {
		rep.Inconclusive("wrap: reader did not consume the held reply")
		return
	}
	consumedAt := time.Now()
	wit := map[string]any{"scenario": "wire-id wrap-around with one query outstanding", "exchanges_passed": n, "fast_calls_failed": failed.Load(), "held_wire_id": first.qi.WireID}
	select {
	case x := <-done:
		if x.err != nil {
			rep.Violation("reply-lost-after-wire-id-wrap", fmt.Sprintf("the reply to a query that stayed outstanding while %d others passed was consumed by the reader but the call failed: %v", n, x.err), wit)
			return
		}
		ri, perr := dnsadv.ParseReply(*x.rb)
		pool.ReleaseBuf(x.rb)
		if perr != nil || ri.Token != tok {
			rep.Violation("reply-lost-after-wire-id-wrap", fmt.Sprintf("held call returned %q instead of its consumed reply", ri.Token), wit)
			return
		}
		rep.Count("wrap_held_call_returned_its_reply", 1)
		rep.Nontrivial("wrap|held-survived")
		rep.Nontrivial(fmt.Sprintf("wrap|n%d", n))
	case <-time.After(3 * time.Second):
		wit["waited_ms_after_consumption"] = time.Since(consumedAt).Milliseconds()
		rep.Violation("reply-lost-after-wire-id-wrap", fmt.Sprintf("the reply to a query that stayed outstanding while %d others passed was consumed by the reader %d ms ago, the caller's deadline is far away, and the call has not returned", n, time.Since(consumedAt).Milliseconds()), wit)
		hcancel()
		<-done
	}
}

// runStaleIdle: non-pipelined transport with an idle timeout much shorter than
// the server's latency. Query B reuses the connection right after reply A was
// handed over; its reply comes after 150 ms, far inside the 6 s query timeout.
// SetReadDeadline is slow on this connection (the caller of it is "descheduled"
// for 10 ms), so a transport that re-arms the idle deadline after giving the
// connection back overwrites B's deadline, closes the healthy connection and
// re-sends B. Oracle (events only): B is written exactly once, returns the
// reply to that one transmission, and the connection is not closed.
func runStaleIdle(seed int64, rounds int) {
	caselog.Log(map[string]any{"stale_idle": seed})
	for round := 0; round < rounds; round++ {
		net := fakenet.NewNet()
		var mu sync.Mutex
		writes := map[int]int{}
		replyDelay := map[int]time.Duration{}
		t := transport.NewReuseConnTransport(transport.ReuseConnOpts{
			IdleTimeout: 40 * time.Millisecond,
			DialContext: func(ctx context.Context) (transport.NetConn, error) {
				c := net.NewConn(true)
				c.DelayReadDeadline = 10 * time.Millisecond
				var defr wire.Deframer
				c.OnWrite = func(c *fakenet.Conn, data []byte) error {
					for _, f := range defr.Feed(data) {
						qi, err := dnsadv.ParseQuery(f)
						if err != nil {
							continue
						}
						mu.Lock()
						writes[qi.Seq]++
						n := writes[qi.Seq]
						d := replyDelay[qi.Seq]
						mu.Unlock()
						msg := wire.Frame(dnsadv.Reply(qi.WireID, 0x8180, qi.QSect, fmt.Sprintf("r/c%d/q%d/t%d", c.ID, qi.Seq, n), 0, 0))
						if d == 0 {
							c.Inject(msg)
						} else {
							time.AfterFunc(d, func() { c.Inject(msg) })
						}
					}
					return nil
				}
				return c, nil
			},
		})
		call := func(delay time.Duration) (int, string, error) {
			seq := int(seqCounter.Add(1))
			mu.Lock()
			replyDelay[seq] = delay
			mu.Unlock()
			ctx, cancel := context.WithTimeout(context.Background(), 4*time.Second)
			defer cancel()
			rb, err := t.ExchangeContext(ctx, dnsadv.Query(uint16(seq), seq, 1, "c02", 1))
			if err != nil {
				return seq, "", err
			}
			defer pool.ReleaseBuf(rb)
			ri, _ := dnsadv.ParseReply(*rb)
			return seq, ri.Token, nil
		}
		_, _, errA := call(0)
		seqB, tokB, errB := call(150 * time.Millisecond)
		rep.Eval(2)
		mu.Lock()
		wB := writes[seqB]
		mu.Unlock()
		conns := net.Conns()
		wit := map[string]any{"scenario": "reuse transport, idle_timeout 40 ms, reply to the second query after 150 ms, SetReadDeadline takes 10 ms", "round": round, "writes_of_query_B": wB, "connections": len(conns), "token": tokB, "errA": fmt.Sprint(errA), "errB": fmt.Sprint(errB)}
		switch {
		case errA != nil:
			rep.Count("stale_idle_rounds_not_judged", 1)
		case errB != nil:
			rep.Violation("healthy-conn-closed-reply-in-time-reuse", fmt.Sprintf("the peer answered the query 150 ms after it was sent (deadline 4 s away) but the exchange failed: %v", errB), wit)
		case wB == 1 && len(conns) != 1:
			// B was written once, on a new connection: the 40 ms idle timeout of the first
			// connection ran out before B was sent (a descheduled caller on a loaded
			// machine) - legitimate, and not the window this scenario is after
			rep.Count("stale_idle_rounds_not_judged", 1)
		case wB != 1:
			rep.Violation("query-resent-although-reply-in-time-reuse", fmt.Sprintf("the peer answers every query within 150 ms on a healthy connection, yet the query was written %d times over %d connection(s): the transport closed the connection under the waiting query", wB, len(conns)), wit)
		default:
			rep.Count("stale_idle_rounds_ok", 1)
			rep.Nontrivial(fmt.Sprintf("stale-idle|%d", round))
		}
		t.Close()
	}
}

func main() {
	rep = evid.New("C02", "exploration")
	caselog = evid.OpenCaseLog()
	poolsan.Install(func(r poolsan.Report) {
		rep.Violation("poolsan-"+r.Kind, "buffer-pool sanitizer: "+r.Kind+": "+r.Info, map[string]any{"stack": r.Stack})
	})
	sched.On("tdc.readloop.dispatched", dispatchedHook)
	sched.On("reuse.readloop.idle", dispatchedHook)
	sched.On("tdc.exchange.written", holdHook)
	sched.On("reuse.exchange.written", holdHook)
	rep.SetRule("cells = transport{bare conn, pipeline, reuse} x framing x arrival mode{sync: reply consumed and dispatched before Write returns; hold: caller held at the 'written' hook until the reader dispatched; async} x {conn stays open, EOF after reply, read error after reply} x callers{1,2,8,32}, each repeated; one case = one call; non-trivial = the reply was provably consumed before the caller reached its wait (sync/hold handshake completed) or a close/EOF followed the consumed reply; distinct = cell x repetition x caller")
	rep.Assume("'received on its connection' = the client's reader goroutine took the bytes from the fake connection (recorded at Read return)")
	rep.Assume("only arrivals >= 200 ms before the deadline are judged; boundary races with the deadline are not generated")
	rep.Assume("staggered phase (idle/dial timeouts of 100-300 ms, several queries outstanding, answers staggered over <= 0.8 s, caller deadline 8 s): an answer counts as in time when the peer offered it <= 3 s after the query was written (documented reply-wait timeouts: 10 s pipelined, 6 s reuse) and >= 2 s before the caller's deadline on a connection the peer never broke; a connection the client closed under the query counts only if the read deadline that closed it was armed (for < 3 s) after the query had been written, so the legitimate idle-expiry race is never judged")
	rep.Assume("in fault-free cells (the adversary answers at once and never breaks the connection) the reply also counts as received when the client gave up the connection before its reader took the bytes: nothing but the client can have lost it")

	if rep.ReplayFile != "" {
		var c struct {
			Cell      cell      `json:"cell"`
			Staggered *stagCell `json:"staggered"`
		}
		if err := rep.LoadReplay(&c); err != nil {
			fmt.Println("cannot load replay:", err)
			os.Exit(3)
		}
		if c.Staggered != nil {
			for i := 0; i < 5; i++ {
				if runStagCell(*c.Staggered) {
					break
				}
			}
			rep.Finish()
		}
		for i := 0; i < 50; i++ {
			c.Cell.Rep = i
			c.Cell.Seed++
			if runCell(c.Cell) {
				break
			}
		}
		rep.Finish()
	}

	reps := rep.Pick(40, 400)
	rng := rand.New(rand.NewSource(rep.Seed))
	type tf struct {
		t      string
		stream bool
	}
	cells := 0
	for _, t := range []tf{{"tdc", true}, {"tdc", false}, {"pipeline", true}, {"pipeline", false}, {"reuse", true}} {
		for _, mode := range []string{"sync", "hold", "async"} {
			for _, after := range []string{"open", "eof", "readerr"} {
				for _, callers := range []int{1, 2, 8, 32} {
					if t.t == "reuse" && after != "open" && callers > 1 {
						// each reuse connection carries one query; kill-after-k is per connection
					}
					cells++
					n := reps
					if callers >= 8 {
						n = reps / 4
					}
					for i := 0; i < n; i++ {
						procs := []int{1, 2, 16}[rng.Intn(3)]
						runtime.GOMAXPROCS(procs)
						c := cell{Transport: t.t, Stream: t.stream, Mode: mode, After: after, Callers: callers, Rep: i, Seed: rng.Int63n(1 << 40)}
						if runCell(c) {
							break // this cell is decided; do not wait for more timeouts
						}
					}
				}
			}
		}
	}
	runtime.GOMAXPROCS(16)
	runWrap(rep.Seed, 66000)
	runStaleIdle(rep.Seed, rep.Pick(6, 40))
	runStaggered(rep.Seed, rep.Pick(2, 10))
	realUpstreamReplies(rep.Seed, rep.Pick(160, 1600))
	poolsan.Sweep()
	rep.Count("cells", int64(cells))
	for name, n := range sched.Counts() {
		rep.Count("hook:"+name, n)
	}
	if rep.Get("nontrivial:sync/open") == 0 || rep.Get("nontrivial:hold/open") == 0 {
		rep.Inconclusive("forced windows were never produced (sync/hold handshakes did not complete)")
	}
	if rep.WantSample() {
		rep.Sample(map[string]any{"cell": cell{Transport: "pipeline", Stream: true, Mode: "sync", After: "eof", Callers: 2}, "meaning": "2 callers on a pipelined stream conn; each Write returns only after the reader consumed+dispatched the reply; EOF injected after the k-th reply"})
		rep.Sample(map[string]any{"cell": cell{Transport: "reuse", Stream: true, Mode: "hold", After: "readerr", Callers: 1}, "meaning": "caller parked at reuse.exchange.written until reply consumed, read error seen and conn closed"})
	}
	_ = io.EOF
	_ = strings.Contains
	rep.Finish()
}
