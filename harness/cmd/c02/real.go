package main

// Real upstreams (upstream.NewUpstream, every scheme) against loopback servers
// that answer every query at once. The header of the reply is hostile-but-legal:
// any rcode, any of AA/RD/RA/AD/CD, never TC (a truncated reply is C17's
// business). Whatever the header says, the reply arrived in time and must be
// what the call returns — the code between NewUpstream and the transports
// (scheme wrappers, udp fallback logic) never sees the fake connections.

import (
	"bytes"
	"context"
	"crypto/tls"
	"encoding/binary"
	"fmt"
	"math/rand"
	"net"
	"strings"
	"sync"
	"sync/atomic"
	"time"

	"github.com/IrineSistiana/mosdns/v5/pkg/pool"
	"github.com/IrineSistiana/mosdns/v5/pkg/upstream"

	"verifharness/lib/dnsadv"
	"verifharness/lib/loopnet"
)

func realUpstreamReplies(seed int64, perProto int) {
	pki, err := loopnet.NewPKI([]net.IP{net.ParseIP("127.0.0.1")}, []string{"localhost"})
	if err != nil {
		rep.Inconclusive("real upstreams: pki: %v", err)
		return
	}
	var mu sync.Mutex
	sent := map[int]uint16{} // seq -> flags the server used
	sentMsg := map[int][]byte{}
	sentShape := map[int]string{}
	var answered atomic.Int64
	h := func(q []byte, proto string, connID int, reply func([]byte)) {
		qi, err := dnsadv.ParseQuery(q)
		if err != nil {
			return
		}
		// flags derive from the query's sequence number: QR=1, opcode 0, TC=0
		x := uint32(qi.Seq) * 2654435761
		flags := uint16(0x8000) | uint16(x>>3)&0x05B0 | uint16(x>>12)&0x000F // AA,RD,RA,AD,CD bits | rcode
		flags &^= 0x0200
		// shape of the reply: ordinary / header only (QDCOUNT=0, as FORMERR, NOTIMP and
		// REFUSED replies often are) / question echoed with its letters re-cased. The ID,
		// not the question, is what matches a reply to its query.
		var msg []byte
		shape := "ordinary"
		k := x >> 28 % 5
		if k == 1 && (proto == "tcp" || proto == "tls" || proto == "quic") {
			// length-prefixed streams: mosdns refuses frames of 12 bytes or fewer, and the
			// framing property (C16) is stated for lengths 13..65535 only
			k = 0
		}
		switch k {
		case 1:
			shape = "header-only"
			msg = make([]byte, 12)
			binary.BigEndian.PutUint16(msg, qi.WireID)
			binary.BigEndian.PutUint16(msg[2:], flags)
		case 2:
			shape = "question-re-cased"
			qs := append([]byte(nil), qi.QSect...)
			for i := 0; i < len(qs)-4; i++ {
				if c := qs[i]; c >= 'a' && c <= 'z' {
					qs[i] = c - 32
				} else if c >= 'A' && c <= 'Z' {
					qs[i] = c + 32
				}
			}
			msg = dnsadv.Reply(qi.WireID, flags, qs, fmt.Sprintf("c02real/%s/%d", proto, qi.Seq), int(x>>20)%300, byte(x))
		default:
			msg = dnsadv.Reply(qi.WireID, flags, qi.QSect, fmt.Sprintf("c02real/%s/%d", proto, qi.Seq), int(x>>20)%300, byte(x))
		}
		mu.Lock()
		_, again := sent[qi.Seq]
		sent[qi.Seq] = flags
		sentMsg[qi.Seq] = msg
		sentShape[qi.Seq] = shape
		mu.Unlock()
		if !again {
			answered.Add(1)
		}
		reply(msg)
	}
	type sv struct {
		name  string
		serve func() (*loopnet.Server, error)
		pipe  bool
	}
	svs := []sv{
		{"udp", func() (*loopnet.Server, error) { return loopnet.ServeUDP(h) }, false},
		{"tcp", func() (*loopnet.Server, error) { return loopnet.ServeTCP(h) }, false},
		{"tcp+pipeline", func() (*loopnet.Server, error) { return loopnet.ServeTCP(h) }, true},
		{"tls", func() (*loopnet.Server, error) { return loopnet.ServeTLS(pki, h) }, false},
		{"tls+pipeline", func() (*loopnet.Server, error) { return loopnet.ServeTLS(pki, h) }, true},
		{"https", func() (*loopnet.Server, error) { return loopnet.ServeDoH(pki, h) }, false},
		{"h3", func() (*loopnet.Server, error) { return loopnet.ServeDoH3(pki, h) }, false},
		{"quic", func() (*loopnet.Server, error) { return loopnet.ServeDoQ(pki, h) }, false},
	}
	var wg sync.WaitGroup
	for si, s := range svs {
		wg.Add(1)
		go func(si int, s sv) {
			defer wg.Done()
			srv, err := s.serve()
			if err != nil {
				rep.Inconclusive("real upstreams: cannot serve %s: %v", s.name, err)
				return
			}
			defer srv.Close()
			u, err := upstream.NewUpstream(srv.URL(s.pipe), upstream.Opt{TLSConfig: &tls.Config{RootCAs: pki.Pool}})
			if err != nil {
				rep.Inconclusive("real upstreams: NewUpstream(%s): %v", s.name, err)
				return
			}
			defer u.Close()
			caselog.Log(map[string]any{"real_upstream_replies": s.name, "n": perProto})
			rng := rand.New(rand.NewSource(seed + int64(si)))
			var cw sync.WaitGroup
			lanes := 4
			var stop atomic.Bool
			for l := 0; l < lanes; l++ {
				cw.Add(1)
				lrng := rand.New(rand.NewSource(rng.Int63()))
				go func() {
					defer cw.Done()
					for i := 0; i < perProto/lanes && !stop.Load(); i++ {
						seq := int(seqCounter.Add(1))
						id := uint16(lrng.Intn(65536))
						ctx, cancel := context.WithTimeout(context.Background(), 8*time.Second)
						t0 := time.Now()
						rb, err := u.ExchangeContext(ctx, dnsadv.Query(id, seq, 1, "c02", uint16(1+lrng.Intn(40))))
						cancel()
						rep.Eval(1)
						mu.Lock()
						fl, ok := sent[seq]
						mu.Unlock()
						wit := map[string]any{"scheme": s.name, "call_seq": seq, "server_replied": ok, "reply_flags": fmt.Sprintf("%#04x", fl), "rcode": fl & 0xF, "elapsed_ms": time.Since(t0).Milliseconds()}
						if err != nil {
							if ok {
								wit["error"] = err.Error()
								rep.Violation(fmt.Sprintf("reply-lost-real-%s-rcode%d", strings.ReplaceAll(s.name, "+", "_"), fl&0xF), fmt.Sprintf("the loopback %s server answered at once (flags %#04x, not truncated) but the call returned error %q after %d ms", s.name, fl, err.Error(), time.Since(t0).Milliseconds()), wit)
								stop.Store(true)
							} else {
								rep.Count("real_calls_failed_before_the_server_saw_them", 1)
							}
							continue
						}
						got := append([]byte(nil), *rb...)
						pool.ReleaseBuf(rb)
						mu.Lock()
						want := sentMsg[seq]
						shape := sentShape[seq]
						mu.Unlock()
						if len(got) < 12 || !bytes.Equal(got[2:], want[2:]) || binary.BigEndian.Uint16(got) != id {
							wit["returned_hex"] = fmt.Sprintf("%x", got[:min(len(got), 64)])
							rep.Violation("reply-altered-real-"+strings.ReplaceAll(s.name, "+", "_"), fmt.Sprintf("call q%d (caller id %#04x) returned a reply that is not the one the server sent with the caller's id restored", seq, id), wit)
							continue
						}
						rep.Count("real_replies_returned:"+s.name, 1)
						rep.Count("real_reply_shape:"+shape, 1)
						rep.Nontrivial(fmt.Sprintf("real|%s|flags%04x|%s", s.name, fl, shape))
					}
				}()
			}
			cw.Wait()
		}(si, s)
	}
	wg.Wait()
	rep.Count("real_queries_answered_by_loopback_servers", answered.Load())
}
