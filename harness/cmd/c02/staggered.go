package main

// Staggered replies under non-default transport timing options.
//
// The transports have timing options (IdleTimeout, DialTimeout) whose defaults
// are all >= the documented reply-wait timeouts (10 s pipelined connection, 6 s
// reuse connection). Here they are set far below them (100-300 ms) and the peer
// answers several outstanding queries in a staggered way: all queries of a cell
// are held until every one of them has been written (so that they really are
// outstanding together), then some are answered at once and the others after
// gaps of 0.5x / 1.5x / 2.5x the idle timeout (never later than 0.8 s after the
// barrier). The callers allow 8 s. The peer never breaks a connection.
//
// Oracle (events; times only gate what is judged, with margins of seconds):
// every call must return the reply to its FIRST transmission. An error, or the
// reply to a re-transmission, is a violation when
//   - the peer offered the first reply <= 3 s after that transmission was
//     written (reply-wait timeouts are 6 s / 10 s) and >= 2 s before the
//     caller's deadline, and
//   - either the client's reader consumed that reply, or the client itself had
//     closed the connection under the outstanding query on a read deadline of
//     < 3 s which it armed AFTER this query, or another still unanswered query
//     of the same connection, had been written (event order of the connection's
//     log; for the reuse transport, which arms before writing: the query was
//     written in the first half of that period). The second
//     clause keeps the legitimate idle-expiry race (a connection that idles out
//     just as a query is being put on it, or a caller descheduled between its
//     write and its arming of the reply-wait deadline) out of the verdict.

import (
	"bytes"
	"context"
	"fmt"
	"math/rand"
	"sync"
	"time"

	"github.com/IrineSistiana/mosdns/v5/pkg/pool"
	"github.com/IrineSistiana/mosdns/v5/pkg/upstream/transport"

	"verifharness/lib/dnsadv"
	"verifharness/lib/fakenet"
	"verifharness/lib/poolsan"
	"verifharness/lib/wire"
)

type stagCell struct {
	Transport string `json:"transport"` // tdc | pipeline | reuse
	Stream    bool   `json:"stream"`
	IdleMs    int    `json:"idle_timeout_ms"`
	DialMs    int    `json:"dial_timeout_ms"` // 0 = default
	DelaysMs  []int  `json:"reply_delays_ms_after_all_queries_were_written"`
	Seed      int64  `json:"seed"`
}

func (c stagCell) fam() string {
	fr := "dgram"
	if c.Stream {
		fr = "stream"
	}
	return c.Transport + "-" + fr
}

type stagTx struct {
	c        *fakenet.Conn
	n        int // transmission number of this call (1 = first)
	wSeq     int64
	wAt      time.Duration
	wid      uint16 // wire id and question of the transmission
	qs       []byte
	injected bool
	injAt    time.Duration
	closedAt bool // the client had closed the connection when the reply was offered
	consumed bool
	consAt   time.Duration
}

type stagCall struct {
	idx   int
	seq   int
	delay time.Duration
	tx    []*stagTx
}

type stagRun struct {
	cell      stagCell
	net       *fakenet.Net
	mu        sync.Mutex
	calls     map[int]*stagCall
	firstSeen int
	released  bool
	barrierOK bool
	inj       map[injKey]*stagTx
}

type stagConnState struct {
	mu   sync.Mutex
	defr wire.Deframer
}

func (r *stagRun) newConn() *fakenet.Conn {
	c := r.net.NewConnUser(r.cell.Stream, &stagConnState{})
	if r.cell.Stream && r.cell.Seed%2 == 0 {
		c.Coalesce = true
	}
	c.OnWrite = r.onWrite
	c.OnRead = r.onRead
	return c
}

func (r *stagRun) onRead(c *fakenet.Conn, injID int64, n int) {
	r.mu.Lock()
	if tx := r.inj[injKey{c, injID}]; tx != nil && !tx.consumed {
		tx.consumed = true
		tx.consAt = time.Since(r.net.Base)
	}
	r.mu.Unlock()
}

// offer makes the reply to one transmission readable (called from a timer).
func (r *stagRun) offer(cl *stagCall, tx *stagTx, wireID uint16, qsect []byte) {
	tok := fmt.Sprintf("s/c%d/q%d/t%d", tx.c.ID, cl.seq, tx.n)
	msg := dnsadv.Reply(wireID, 0x8180, qsect, tok, int(r.cell.Seed+int64(cl.seq))%200, byte(cl.seq))
	if tx.c.Stream {
		msg = wire.Frame(msg)
	}
	r.mu.Lock()
	tx.closedAt = tx.c.IsClosed()
	tx.injAt = time.Since(r.net.Base)
	tx.injected = true
	id := tx.c.Inject(msg)
	r.inj[injKey{tx.c, id}] = tx
	r.mu.Unlock()
	if tx.c.Consumed(id) {
		r.onRead(tx.c, id, 0)
	}
}

func (r *stagRun) release(ok bool) {
	// r.mu held
	if r.released {
		return
	}
	r.released = true
	r.barrierOK = ok
}

func (r *stagRun) onWrite(c *fakenet.Conn, data []byte) error {
	cs := c.User.(*stagConnState)
	var frames [][]byte
	if c.Stream {
		cs.mu.Lock()
		frames = cs.defr.Feed(data)
		cs.mu.Unlock()
	} else {
		frames = [][]byte{data}
	}
	// the log record of this very Write (queries are unique; a datagram resend
	// repeats the bytes: take the latest)
	var wSeq int64
	var wAt time.Duration
	ws := c.Writes()
	for i := len(ws) - 1; i >= 0; i-- {
		if bytes.Equal(ws[i].Data, data) {
			wSeq, wAt = ws[i].Seq, ws[i].At
			break
		}
	}
	for _, f := range frames {
		qi, err := dnsadv.ParseQuery(f)
		if err != nil {
			continue
		}
		r.mu.Lock()
		cl := r.calls[qi.Seq]
		if cl == nil {
			r.mu.Unlock()
			continue
		}
		tx := &stagTx{c: c, n: len(cl.tx) + 1, wSeq: wSeq, wAt: wAt, wid: qi.WireID, qs: qi.QSect}
		cl.tx = append(cl.tx, tx)
		type pend struct {
			cl *stagCall
			tx *stagTx
		}
		var fire []pend
		if tx.n == 1 {
			r.firstSeen++
			if r.firstSeen == len(r.cell.DelaysMs) && !r.released {
				// every query of the cell is outstanding now: start the staggered answers
				r.release(true)
				for _, x := range r.calls {
					if len(x.tx) > 0 {
						fire = append(fire, pend{x, x.tx[0]})
					}
				}
			}
		} else if r.released {
			fire = append(fire, pend{cl, tx})
		}
		if tx.n == 1 && r.released && len(fire) == 0 {
			// barrier was given up earlier (watchdog): answer on its own schedule
			fire = append(fire, pend{cl, tx})
		}
		r.mu.Unlock()
		for _, p := range fire {
			p := p
			if p.cl.delay == 0 {
				r.offer(p.cl, p.tx, p.tx.wid, p.tx.qs)
			} else {
				time.AfterFunc(p.cl.delay, func() { r.offer(p.cl, p.tx, p.tx.wid, p.tx.qs) })
			}
		}
	}
	return nil
}

const (
	stagCallerDeadline = 8 * time.Second
	stagOfferMargin    = 3 * time.Second // vs reply-wait timeouts of 6 s / 10 s
	stagDeadlineMargin = 2 * time.Second
)

func (r *stagRun) exchanger() (exchanger, func()) {
	idle := time.Duration(r.cell.IdleMs) * time.Millisecond
	dial := time.Duration(r.cell.DialMs) * time.Millisecond
	stream := r.cell.Stream
	switch r.cell.Transport {
	case "tdc":
		dc := transport.NewDnsConn(transport.TraditionalDnsConnOpts{WithLengthHeader: stream, IdleTimeout: idle, MaxConcurrentQuery: 4096}, r.newConn())
		return func(ctx context.Context, q []byte) (*[]byte, error) {
			rx, closed := dc.ReserveNewQuery()
			if rx == nil {
				return nil, fmt.Errorf("reserve failed closed=%v", closed)
			}
			return rx.ExchangeReserved(ctx, q)
		}, func() { dc.Close() }
	case "pipeline":
		t := transport.NewPipelineTransport(transport.PipelineOpts{
			DialContext: func(ctx context.Context) (transport.DnsConn, error) {
				return transport.NewDnsConn(transport.TraditionalDnsConnOpts{WithLengthHeader: stream, IdleTimeout: idle, MaxConcurrentQuery: 4096}, r.newConn()), nil
			},
			DialTimeout:                    dial,
			MaxConcurrentQueryWhileDialing: 4096,
		})
		return t.ExchangeContext, func() { t.Close() }
	case "reuse":
		t := transport.NewReuseConnTransport(transport.ReuseConnOpts{
			DialContext: func(ctx context.Context) (transport.NetConn, error) { return r.newConn(), nil },
			DialTimeout: dial,
			IdleTimeout: idle,
		})
		return t.ExchangeContext, func() { t.Close() }
	}
	panic("bad transport")
}

// lastReadDeadlineBeforeClose returns the read-affecting deadline call that was
// in force when the client closed c.
func lastReadDeadlineBeforeClose(c *fakenet.Conn) (fakenet.DeadlineRec, bool) {
	cseq := c.ClosedSeq()
	var d fakenet.DeadlineRec
	found := false
	for _, x := range c.Deadlines() {
		if x.Kind == "w" || x.Seq > cseq {
			continue
		}
		d, found = x, true
	}
	return d, found
}

func runStagCell(cell stagCell) (violated bool) {
	caselog.Log(map[string]any{"staggered": cell})
	r := &stagRun{cell: cell, net: fakenet.NewNet(), calls: map[int]*stagCall{}, inj: map[injKey]*stagTx{}}
	ex, closeFn := r.exchanger()
	defer closeFn()
	k := len(cell.DelaysMs)
	calls := make([]*stagCall, k)
	for i := range calls {
		calls[i] = &stagCall{idx: i, seq: int(seqCounter.Add(1)), delay: time.Duration(cell.DelaysMs[i]) * time.Millisecond}
		r.calls[calls[i].seq] = calls[i]
	}
	// watchdog: if some caller never gets its query out, answer the others anyway
	// (the cell is then not judged)
	wd := time.AfterFunc(2*time.Second, func() {
		type pend struct {
			cl *stagCall
			tx *stagTx
		}
		var fire []pend
		r.mu.Lock()
		if !r.released {
			r.release(false)
			for _, x := range r.calls {
				if len(x.tx) > 0 {
					fire = append(fire, pend{x, x.tx[0]})
				}
			}
		}
		r.mu.Unlock()
		for _, p := range fire {
			r.offer(p.cl, p.tx, p.tx.wid, p.tx.qs)
		}
	})
	defer wd.Stop()
	var wg sync.WaitGroup
	var vmu sync.Mutex
	idle := time.Duration(cell.IdleMs) * time.Millisecond
	// the largest gap between consecutive answers, in idle timeouts
	sorted := append([]int(nil), cell.DelaysMs...)
	for i := range sorted {
		for j := i + 1; j < len(sorted); j++ {
			if sorted[j] < sorted[i] {
				sorted[i], sorted[j] = sorted[j], sorted[i]
			}
		}
	}
	for _, cl := range calls {
		wg.Add(1)
		go func(cl *stagCall) {
			defer wg.Done()
			id := uint16(cl.seq*131 + cl.idx)
			q := dnsadv.Query(id, cl.seq, uint32(cell.Seed), "c02", 1)
			ctx, cancel := context.WithTimeout(context.Background(), stagCallerDeadline)
			t0 := time.Since(r.net.Base)
			rb, err := ex(ctx, q)
			t1 := time.Since(r.net.Base)
			cancel()
			rep.Eval(1)
			rep.Count("staggered_calls", 1)
			retTok, retTx := "", 0
			if err == nil {
				ri, perr := dnsadv.ParseReply(*rb)
				okbuf := poolsan.Check(rb, "reply returned in staggered "+cell.fam())
				pool.ReleaseBuf(rb)
				if !okbuf {
					return
				}
				if perr != nil || ri.Seq != cl.seq || ri.ID != id {
					rep.Violation("foreign-reply-staggered-"+cell.fam(), fmt.Sprintf("call q%d (id %#04x) got reply %q id %#04x (%v)", cl.seq, id, ri.Token, ri.ID, perr), map[string]any{"staggered": cell})
					return
				}
				retTok = ri.Token
				var cid, qn int
				fmt.Sscanf(retTok, "s/c%d/q%d/t%d", &cid, &qn, &retTx)
			}
			if err != nil || retTx != 1 {
				// the call is over before (or without) the answer to its first transmission:
				// let the peer make that answer, as scheduled, before judging
				for w := time.Now().Add(3 * time.Second); time.Now().Before(w); time.Sleep(5 * time.Millisecond) {
					r.mu.Lock()
					done := len(cl.tx) == 0 || cl.tx[0].injected
					r.mu.Unlock()
					if done {
						break
					}
				}
			}
			r.mu.Lock()
			barrierOK := r.barrierOK
			var first stagTx
			ntx := len(cl.tx)
			if ntx > 0 {
				first = *cl.tx[0]
			}
			// the returned answer (to a later transmission) was read before the first one:
			// timers fired out of order on a stalled machine, nothing was lost
			overtaken := err == nil && retTx >= 2 && retTx <= ntx && cl.tx[retTx-1].c == first.c && cl.tx[retTx-1].consumed && (!first.consumed || cl.tx[retTx-1].consAt <= first.consAt)
			r.mu.Unlock()
			if err == nil && retTx == 1 {
				rep.Count("staggered_calls_returned_first_reply", 1)
				if barrierOK && cl.delay > idle {
					// answered later than one idle timeout after the cell's first answer,
					// while other queries of the same cell had been answered before it
					rep.Count("staggered_replies_later_than_idle_timeout_returned", 1)
					rep.Nontrivial(fmt.Sprintf("staggered|%s|idle%d|dial%d|k%d|delay%dx%d", cell.fam(), cell.IdleMs, cell.DialMs, k, cl.delay*2/idle, cell.Seed%4))
				}
				return
			}
			wit := map[string]any{"staggered": cell, "call_index": cl.idx, "call_seq": cl.seq, "transmissions": ntx, "call_start_ms": ms(t0), "call_return_ms": ms(t1),
				"caller_deadline_ms": ms(t0 + stagCallerDeadline), "returned_token": retTok}
			if err != nil {
				wit["error"] = err.Error()
			}
			judged, why := false, ""
			switch {
			case ntx == 0:
				why = "the query never reached the peer"
			case !barrierOK:
				why = "not all queries of the cell were outstanding together"
			case !first.injected:
				why = "the call returned before the peer's scheduled answer"
			case first.injAt-first.wAt > stagOfferMargin || first.injAt+stagDeadlineMargin > t0+stagCallerDeadline:
				why = "the answer was offered too late to be judged (loaded machine)"
			case overtaken:
				why = "the answer to a datagram resend overtook the first answer (loaded machine)"
			case first.consumed && first.consAt < t1:
				judged = true
				wit["first_reply_consumed_ms"] = ms(first.consAt)
			case first.closedAt:
				d, ok := lastReadDeadlineBeforeClose(first.c)
				if !ok || d.In <= 0 || d.In >= stagOfferMargin {
					why = "the client closed the connection, but not on a short read deadline"
					break
				}
				wit["read_deadline_in_force_at_close"] = map[string]any{"armed_at_ms": ms(d.At), "armed_for_ms": ms(d.In), "event_seq": d.Seq}
				wit["first_transmission"] = map[string]any{"conn": first.c.ID, "written_at_ms": ms(first.wAt), "event_seq": first.wSeq, "reply_offered_at_ms": ms(first.injAt)}
				// was that deadline armed while some query of this connection had already
				// been written and was still unanswered (it never is answered then: the
				// connection was closed when the deadline ran out)?
				outstanding := d.Seq > first.wSeq
				r.mu.Lock()
				for _, x := range r.calls {
					for _, tx := range x.tx {
						if tx.c == first.c && tx.wSeq < d.Seq && !tx.consumed {
							outstanding = true
						}
					}
				}
				r.mu.Unlock()
				if outstanding || (cell.Transport == "reuse" && first.wAt < d.At+d.In/2) {
					judged = true
				} else {
					why = "the connection's deadline was armed before the query was written (idle-expiry race)"
				}
			default:
				why = "first reply neither consumed nor offered to a closed connection"
			}
			if !judged {
				rep.Count("staggered_calls_not_judged", 1)
				rep.SetAdd("staggered_not_judged_reasons", why)
				return
			}
			vmu.Lock()
			violated = true
			vmu.Unlock()
			what := fmt.Sprintf("idle timeout %d ms: the peer answered this query %.0f ms after it was written (reply-wait timeout >= 6 s, caller deadline %.0f ms later), staggered behind other answers on a healthy connection, ", cell.IdleMs, ms(first.injAt-first.wAt), ms(t0+stagCallerDeadline-first.injAt))
			if err != nil {
				rep.Violation("staggered-reply-in-time-lost-idle-timeout-"+cell.Transport, what+fmt.Sprintf("but the call failed after %.0f ms: %v", ms(t1-t0), err), wit)
			} else {
				rep.Violation("staggered-reply-in-time-lost-idle-timeout-"+cell.Transport, what+fmt.Sprintf("but the client gave the connection up and the call returned the answer to re-transmission %d (%s)", retTx, retTok), wit)
			}
		}(cl)
	}
	wg.Wait()
	return violated
}

func ms(d time.Duration) float64 { return float64(d) / 1e6 }

func genStagCell(rng *rand.Rand, tr string, stream bool, idleMs int, noneAtOnce bool) stagCell {
	k := 2 + rng.Intn(4)
	delays := make([]int, k)
	// half of the cells have no answer "at once": the first answer of the
	// connection already comes later than the idle timeout
	offset := 0
	if noneAtOnce {
		offset = idleMs * 3 / 2
	}
	cum, big := offset, offset > 0
	delays[0] = offset
	for i := 1; i < k; i++ {
		gap := []int{0, idleMs / 2, idleMs * 3 / 2, idleMs * 5 / 2}[rng.Intn(4)]
		if i == k-1 && !big && gap < idleMs*3/2 {
			gap = idleMs * 3 / 2
		}
		if cum+gap > 800 {
			gap = 0
		}
		if gap >= idleMs*3/2 {
			big = true
		}
		cum += gap
		delays[i] = cum
	}
	rng.Shuffle(k, func(i, j int) { delays[i], delays[j] = delays[j], delays[i] })
	dial := 0
	if tr != "tdc" && rng.Intn(2) == 0 {
		dial = idleMs
	}
	return stagCell{Transport: tr, Stream: stream, IdleMs: idleMs, DialMs: dial, DelaysMs: delays, Seed: rng.Int63n(1 << 40)}
}

// runStaggered runs the family; cells run concurrently (each has its own net).
func runStaggered(seed int64, perCombo int) {
	rng := rand.New(rand.NewSource(seed ^ 0x57a66e7))
	type tf struct {
		t      string
		stream bool
	}
	var cells []stagCell
	for i := 0; i < perCombo; i++ {
		for _, t := range []tf{{"tdc", true}, {"tdc", false}, {"pipeline", true}, {"pipeline", false}, {"reuse", true}} {
			for _, idle := range []int{100, 200, 300} {
				cells = append(cells, genStagCell(rng, t.t, t.stream, idle, i%2 == 1))
			}
		}
	}
	if rep.WantSample() && len(cells) > 0 {
		rep.Sample(map[string]any{"staggered": cells[0], "meaning": "all queries of the cell are held until each has been written on the connection; then each is answered reply_delays_ms later (0 = at once); every call (deadline 8 s) must return the answer to its first transmission"})
	}
	decided := map[string]bool{}
	var dmu sync.Mutex
	const batch = 30
	for lo := 0; lo < len(cells); lo += batch {
		hi := min(lo+batch, len(cells))
		var wg sync.WaitGroup
		for _, c := range cells[lo:hi] {
			dmu.Lock()
			skip := decided[c.fam()]
			dmu.Unlock()
			if skip {
				continue
			}
			wg.Add(1)
			go func(c stagCell) {
				defer wg.Done()
				if runStagCell(c) {
					dmu.Lock()
					decided[c.fam()] = true
					dmu.Unlock()
				}
			}(c)
		}
		wg.Wait()
	}
	rep.Count("staggered_cells", int64(len(cells)))
	if len(decided) == 0 && rep.Get("staggered_replies_later_than_idle_timeout_returned") == 0 {
		rep.Inconclusive("staggered phase: no answer later than the idle timeout was ever observed on a connection with several outstanding queries")
	}
}
