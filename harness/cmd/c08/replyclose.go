// Reply-then-close under hostile scheduling.
//
// Server behaviour "close right after a reply": every connection answers
// 1..MaxLife queries and sends its FIN right behind the last reply. The
// scheduling is made hostile with the only means a peer/kernel has: the Write
// that carries the last query returns late — only after the client's reader
// has consumed the complete reply (mode "consumed") or has, on top of that,
// seen the EOF and closed the connection (mode "closed"). The goroutine that
// runs the exchange therefore starts waiting when the reply AND the close are
// both already there.
//
// Oracle (decided on events only): a query whose complete reply was consumed by
// the client on a connection that carried it, before that Write even returned,
// WAS answered. The connection did not "fail before answering", so
//   - the call must not report a failure (live context, open transport), and
//   - the query must not be transmitted on a further connection afterwards.
package main

import (
	"fmt"
	"io"
	"math/rand"
	"runtime"
	"sync"
	"time"

	"verifharness/lib/dnsadv"
	"verifharness/lib/fakenet"
)

// replyCloseLate runs inside the client's Write (fakenet calls OnWrite before
// Write returns, outside the connection's lock).
func (w *world) replyCloseLate(c *fakenet.Conn, qi dnsadv.QueryInfo) {
	msg := w.answerMsg(c, qi)
	id := c.InjectWithErr(msg, io.EOF) // reply and FIN become readable in one step
	consumed := c.WaitConsumed(id, 3*time.Second) || c.Consumed(id)
	closed := false
	if consumed && w.late == "closed" {
		closed = c.WaitClosed(3 * time.Second)
	}
	w.mu.Lock()
	if consumed {
		if _, dup := w.delivered[qi.Seq]; !dup {
			w.delivered[qi.Seq] = c // the FIRST connection that answered it
		}
		w.lateStats["reply_consumed_before_write_returned"]++
		if closed {
			w.lateStats["conn_closed_by_client_before_write_returned"]++
		}
	} else {
		w.lateStats["handshake_incomplete(reply not consumed within watchdog)"]++
	}
	w.mu.Unlock()
	if consumed {
		// let whatever the client still does on its reader side (dispatch, close
		// notification) finish before the exchanging goroutine resumes; this only
		// shapes the schedule, no verdict depends on it
		for i := 0; i < 20; i++ {
			runtime.Gosched()
		}
		time.Sleep(200 * time.Microsecond)
	}
}

func scriptReplyClose(s scen) {
	caselog.Log(s)
	setup(s)
	w := newWorld(s.Stream)
	w.kind = s.Transport
	w.late = s.Late
	w.errWithData = s.Together
	w.delivered = map[int]*fakenet.Conn{}
	w.lateStats = map[string]int64{}
	lrng := rand.New(rand.NewSource(s.Seed))
	var lmu sync.Mutex
	w.lifeFn = func() int {
		lmu.Lock()
		defer lmu.Unlock()
		return 1 + lrng.Intn(s.MaxLife)
	}
	t := makeTransport(w, s)
	defer t.Close()
	var lives []string
	for i := 0; i < s.Len; i++ {
		r := doCall(w, t, 5*time.Second, nil)
		lives = append(lives, judgeReplyClose(w, s, r))
	}
	rep.Count("replyclose_scenarios", 1)
	w.mu.Lock()
	for k, v := range w.lateStats {
		rep.Count("replyclose:"+k, v)
	}
	w.mu.Unlock()
	if rep.WantSample() && s.MaxLife > 1 {
		rep.Sample(map[string]any{"scenario": s, "calls(outcome/conn the query was answered+closed on)": lives})
	}
}

// judgeReplyClose judges one call of a sequential reply-then-close stream and
// returns a short description of it.
func judgeReplyClose(w *world, s scen, cr callRes) string {
	w.mu.Lock()
	att := append([]*fakenet.Conn(nil), w.attempts[cr.seq]...)
	dc := w.delivered[cr.seq]
	w.mu.Unlock()
	if dc == nil {
		// answered on a connection that stays open (or never answered): the ordinary
		// table. The stream is sequential and every new connection answers at least
		// its first query, so a failure on a fresh connection is self-inflicted.
		judgeX(w, s, cr, true, -1, true)
		return "plain"
	}
	rep.Eval(1)
	ids := []int{}
	after := 0
	seen := false
	for _, c := range att {
		ids = append(ids, c.ID)
		if seen {
			after++
		}
		if c == dc {
			seen = true
		}
	}
	fresh := dc.Created >= cr.start
	kindOfConn := "reused"
	phrase := "already in use before the call"
	if fresh {
		kindOfConn = "opened-for-the-call"
		phrase = "opened for the call"
	}
	rep.Max("max_connections_one_query_was_sent_on", int64(len(att)))
	wit := map[string]any{"scenario": s, "call_seq": cr.seq, "answered_on_conn": dc.ID, "answering_conn_was": kindOfConn, "attempt_conns": ids, "transmissions_after_the_answer": after, "error": fmt.Sprint(cr.err)}
	rep.Count("replyclose_calls_answered_then_closed_before_write_returned:"+s.Transport+":"+kindOfConn, 1)
	rep.Nontrivial(fmt.Sprintf("%s|replyclose|%s|L%d|%s|seed%d|q%d", s.Transport, s.Late, s.L, kindOfConn, s.Seed, cr.seq))
	if len(att) > 4 {
		rep.Violation("query-sent-on-too-many-conns-"+s.Transport, fmt.Sprintf("one query was transmitted on %d connections (bound is 4)", len(att)), wit)
	}
	switch {
	case after > 0:
		rep.Violation("answered-query-transmitted-again-"+s.Transport, fmt.Sprintf("the server answered the query on a connection that was %s (the client consumed the whole reply before its Write returned) and closed right after the reply; the connection did not fail before answering, yet the query was transmitted on %d further connection(s) (call result: %v)", phrase, after, cr.err), wit)
		return "resent/c" + fmt.Sprint(dc.ID)
	case cr.err == nil:
		rep.Count("calls_ok", 1)
		return "ok/c" + fmt.Sprint(dc.ID)
	case cr.ctxErr != nil:
		rep.Count("calls_failed", 1)
		rep.Count("fail_legit:context_ended", 1)
		return "ctx"
	default:
		rep.Count("calls_failed", 1)
		rep.Violation("answered-query-reported-failed-"+s.Transport, fmt.Sprintf("the server answered the query on a connection that was %s (the client consumed the whole reply before its Write returned) and closed right after the reply; the call reported failure (%v) with a live context and an open transport although no attempt failed before answering", phrase, cr.err), wit)
		return "failed/c" + fmt.Sprint(dc.ID)
	}
}

// tl is one transport shape.
type tl struct {
	t      string
	stream bool
	L      int
}

func runReplyClose(rng *rand.Rand, tls []tl, procs []int) {
	for _, x := range tls {
		for _, late := range []string{"closed", "consumed"} {
			for _, maxLife := range []int{1, 3} {
				for r := 0; r < rep.Pick(2, 8); r++ {
					scriptReplyClose(scen{Transport: x.t, Stream: x.stream, L: x.L, Script: "replyclose", Late: late, MaxLife: maxLife, Together: x.stream && r%2 == 1,
						Len: 40, Conc: 1, Seed: rng.Int63n(1 << 40), Procs: procs[rng.Intn(3)], Perturb: rng.Intn(2) == 0})
				}
			}
		}
	}
	if rep.Violations() == 0 {
		for _, kind := range []string{"reuse", "pipeline"} {
			for _, k := range []string{"reused", "opened-for-the-call"} {
				if rep.Get("replyclose_calls_answered_then_closed_before_write_returned:"+kind+":"+k) == 0 {
					rep.Inconclusive("reply-then-close: no %s call was answered and closed on a %s connection before its Write returned", kind, k)
				}
			}
		}
	}
}
