// C08 — failures of reused connections are retried, fresh ones reported.
//
// The fake network logs, per connection, when it was created and every query
// token written on it. From that log the oracle derives, per call, the set of
// connections that carried its query ("attempts") and decides with the
// statement's own table whether a failure was legitimate.
package main

import (
	"context"
	"errors"
	"fmt"
	"math/rand"
	"os"
	"runtime"
	"sort"
	"sync"
	"sync/atomic"
	"time"

	"github.com/IrineSistiana/mosdns/v5/pkg/pool"
	"github.com/IrineSistiana/mosdns/v5/pkg/upstream/transport"

	"verifharness/lib/dnsadv"
	"verifharness/lib/evid"
	"verifharness/lib/fakenet"
	"verifharness/lib/poolsan"
	"verifharness/lib/sched"
	"verifharness/lib/wire"
)

var (
	rep     *evid.Reporter
	caselog *evid.CaseLog
	seqCtr  atomic.Int64
)

// connection behaviour, switchable at any time
const (
	good           = iota // answer every query
	eofOnQuery            // next query: EOF instead of a reply (then dead)
	errOnQuery            // next query: read error instead of a reply
	hold                  // keep queries unanswered until released
	replyThenClose        // answer the next query, then EOF right after the reply
	silent                // swallow queries, never answer, never close (dead peer without FIN)
)

type cstate struct {
	answered atomic.Int64
	mu       sync.Mutex
	mode     int
	defr     wire.Deframer
	seqs     map[int]bool
	held     []heldq
	dead     bool
	life     int // > 0: number of queries this connection answers; it closes right after the last reply
}

type heldq struct {
	qi dnsadv.QueryInfo
}

type world struct {
	net        *fakenet.Net
	stream     bool
	freshBad   atomic.Bool // new connections are born dying (EOF on first query)
	freshHold  atomic.Bool // connections created while set start in hold mode (warm-up)
	mu         sync.Mutex
	attempts   map[int][]*fakenet.Conn // seq -> conns that carried it (distinct, in order)
	starts     map[int]int64           // seq -> event counter at call start
	kind       string
	closeDelay time.Duration
	dialMu     sync.Mutex
	dialErrs   []error       // errors for the next dials (consumed in order)
	dialGate   chan struct{} // non-nil: dials with a pending error wait for it
	dialCount  atomic.Int64
	seen       map[int]chan struct{}
	nrep       int
	// reply-then-close scripts (replyclose.go)
	lifeFn      func() int            // life of each new connection (nil: unlimited)
	late        string                // "" | "consumed" | "closed": what a replyThenClose Write waits for before it returns
	errWithData bool                  // stream: the EOF comes with the reply's last byte
	delivered   map[int]*fakenet.Conn // seq -> conn on which the reply was consumed by the client BEFORE the query's Write returned
	lateStats   map[string]int64
}

func newWorld(stream bool) *world {
	return &world{net: fakenet.NewNet(), stream: stream, attempts: map[int][]*fakenet.Conn{}, seen: map[int]chan struct{}{}, starts: map[int]int64{}}
}

func st(c *fakenet.Conn) *cstate { return c.User.(*cstate) }

func (w *world) newConn() *fakenet.Conn {
	cs := &cstate{seqs: map[int]bool{}}
	if w.freshBad.Load() {
		cs.mode = eofOnQuery
	}
	if w.freshHold.Load() {
		cs.mode = hold
	}
	if w.lifeFn != nil {
		cs.life = w.lifeFn()
	}
	c := w.net.NewConnUser(w.stream, cs)
	c.CloseDelay = w.closeDelay
	c.ErrWithData = w.errWithData && w.stream
	c.OnWrite = w.onWrite
	c.OnWriteFail = w.onWriteFail
	return c
}

func (w *world) onWrite(c *fakenet.Conn, data []byte) error {
	cs := st(c)
	cs.mu.Lock()
	var frames [][]byte
	if w.stream {
		frames = cs.defr.Feed(data)
	} else {
		frames = [][]byte{data}
	}
	cs.mu.Unlock()
	for _, f := range frames {
		qi, err := dnsadv.ParseQuery(f)
		w.mu.Lock()
		_, known := w.starts[qi.Seq]
		w.mu.Unlock()
		if err != nil || qi.Seq < 0 || !known {
			rep.Violation("bytes-on-wire-are-no-callers-query-"+w.kind, fmt.Sprintf("the transport wrote a frame that is not the query of any caller (parse error %v, name %q): a retransmission sent corrupted bytes", err, qi.Name), map[string]any{"conn": c.ID, "frame_hex": fmt.Sprintf("%x", trunc(f, 64))})
			continue
		}
		cs.mu.Lock()
		first := !cs.seqs[qi.Seq]
		cs.seqs[qi.Seq] = true
		if cs.life > 0 && cs.mode == good && !cs.dead {
			cs.life--
			if cs.life == 0 {
				cs.mode = replyThenClose
			}
		}
		mode := cs.mode
		dead := cs.dead
		switch mode {
		case eofOnQuery, errOnQuery:
			cs.dead = true
		case replyThenClose:
			cs.dead = true
		case hold:
			cs.held = append(cs.held, heldq{qi})
		}
		cs.mu.Unlock()
		if first {
			w.mu.Lock()
			w.attempts[qi.Seq] = append(w.attempts[qi.Seq], c)
			if ch := w.seen[qi.Seq]; ch != nil {
				select {
				case <-ch:
				default:
					close(ch)
				}
			}
			w.mu.Unlock()
		}
		if dead {
			continue
		}
		switch mode {
		case good:
			w.answer(c, qi)
		case eofOnQuery:
			c.InjectEOF()
		case errOnQuery:
			c.InjectErr(fakenet.ErrInjected)
		case replyThenClose:
			if w.late != "" {
				w.replyCloseLate(c, qi)
			} else {
				w.answer(c, qi)
				c.InjectEOF()
			}
		}
	}
	return nil
}

// onWriteFail: the client tried to send on c and the write failed: that is an
// attempt on c although the adversary never saw the bytes.
func (w *world) onWriteFail(c *fakenet.Conn, data []byte, err error) {
	if w.stream {
		if len(data) < 2 {
			return
		}
		data = data[2:]
	}
	qi, perr := dnsadv.ParseQuery(data)
	if perr != nil || qi.Seq < 0 {
		return
	}
	cs := st(c)
	cs.mu.Lock()
	first := !cs.seqs[qi.Seq]
	cs.seqs[qi.Seq] = true
	cs.mu.Unlock()
	if first {
		w.mu.Lock()
		w.attempts[qi.Seq] = append(w.attempts[qi.Seq], c)
		start := w.starts[qi.Seq]
		w.mu.Unlock()
		rep.Count("attempts_that_failed_at_write", 1)
		if cs := c.ClosedSeq(); cs != 0 && start != 0 && cs < start {
			rep.Violation("attempt-on-conn-closed-before-call-"+w.kind, "a query was sent on a connection the transport itself had already closed before the call began (dead connection still in the pool; costs one of the bounded attempts)", map[string]any{"conn": c.ID, "closed_at_event": cs, "call_start_event": start, "call_seq": qi.Seq})
		}
	}
}

func (w *world) answer(c *fakenet.Conn, qi dnsadv.QueryInfo) {
	c.Inject(w.answerMsg(c, qi))
}

func (w *world) answerMsg(c *fakenet.Conn, qi dnsadv.QueryInfo) []byte {
	w.mu.Lock()
	w.nrep++
	n := w.nrep
	w.mu.Unlock()
	st(c).answered.Add(1)
	msg := dnsadv.Reply(qi.WireID, 0x8180, qi.QSect, fmt.Sprintf("r/c%d/q%d/n%d", c.ID, qi.Seq, n), 0, 0)
	if w.stream {
		msg = wire.Frame(msg)
	}
	return msg
}

func (w *world) setMode(c *fakenet.Conn, m int) {
	cs := st(c)
	cs.mu.Lock()
	cs.mode = m
	cs.mu.Unlock()
}

// releaseHeld answers held queries on c and switches it to good.
func (w *world) releaseHeld(c *fakenet.Conn) {
	cs := st(c)
	cs.mu.Lock()
	hs := cs.held
	cs.held = nil
	cs.mode = good
	cs.mu.Unlock()
	for _, h := range hs {
		w.answer(c, h.qi)
	}
}

// killHeld closes c while its held queries are in flight.
func (w *world) killHeld(c *fakenet.Conn, how int) {
	cs := st(c)
	cs.mu.Lock()
	cs.held = nil
	cs.dead = true
	cs.mu.Unlock()
	if how == 0 {
		c.InjectEOF()
	} else {
		c.InjectErr(fakenet.ErrInjected)
	}
}

func (w *world) liveConns() []*fakenet.Conn {
	var out []*fakenet.Conn
	for _, c := range w.net.Conns() {
		cs := st(c)
		cs.mu.Lock()
		dead := cs.dead
		cs.mu.Unlock()
		if !c.IsClosed() && !dead && !c.ReadErrSet() {
			out = append(out, c)
		}
	}
	return out
}

// ---------- transports ----------

type exch interface {
	ExchangeContext(ctx context.Context, m []byte) (*[]byte, error)
	Close() error
}

type scen struct {
	Transport string `json:"transport"` // pipeline | reuse
	Stream    bool   `json:"stream"`
	L         int    `json:"limit"`
	Script    string `json:"script"`
	Warm      int    `json:"warm"`
	Poison    int    `json:"poison"`
	How       string `json:"how"`
	Probes    int    `json:"probes"`
	FreshBad  bool   `json:"fresh_bad"`
	Len       int    `json:"len"`
	Conc      int    `json:"conc"`
	Seed      int64  `json:"seed"`
	Procs     int    `json:"gomaxprocs"`
	Perturb   bool   `json:"perturb"`
	CloseMs   int    `json:"close_delay_ms"`                // Close() of a connection takes this long (slow close)
	Late      string `json:"write_returns_after,omitempty"` // replyclose: the answered query's Write returns only after the client {consumed the reply, closed the connection}
	MaxLife   int    `json:"max_conn_life,omitempty"`       // replyclose: every connection answers 1..MaxLife queries and closes right after the last reply
	Together  bool   `json:"eof_with_data,omitempty"`       // replyclose: EOF delivered by the same Read as the reply's last byte
}

func (s scen) bound() int {
	if s.Transport == "reuse" {
		return 4
	}
	return 3
}

// dialFault returns the scripted error for this dial, if any.
func (w *world) dialFault(ctx context.Context) error {
	w.dialCount.Add(1)
	w.dialMu.Lock()
	var err error
	if len(w.dialErrs) > 0 {
		err = w.dialErrs[0]
		w.dialErrs = w.dialErrs[1:]
	}
	gate := w.dialGate
	w.dialMu.Unlock()
	if err != nil && gate != nil {
		select {
		case <-gate:
		case <-ctx.Done():
		}
	}
	return err
}

func makeTransport(w *world, s scen) exch {
	if s.Transport == "reuse" {
		return transport.NewReuseConnTransport(transport.ReuseConnOpts{
			DialContext: func(ctx context.Context) (transport.NetConn, error) {
				if err := w.dialFault(ctx); err != nil {
					return nil, err
				}
				return w.newConn(), nil
			},
			IdleTimeout: 30 * time.Second,
		})
	}
	return transport.NewPipelineTransport(transport.PipelineOpts{
		DialContext: func(ctx context.Context) (transport.DnsConn, error) {
			if err := w.dialFault(ctx); err != nil {
				return nil, err
			}
			return transport.NewDnsConn(transport.TraditionalDnsConnOpts{WithLengthHeader: w.stream, IdleTimeout: 30 * time.Second, MaxConcurrentQuery: s.L}, w.newConn()), nil
		},
		MaxConcurrentQueryWhileDialing: s.L,
	})
}

// goid returns the current goroutine's id (parsed from runtime.Stack); used only
// to attribute "pipeline.reserved" hook events to the call running on that goroutine.
func goid() int64 {
	var buf [64]byte
	n := runtime.Stack(buf[:], false)
	var id int64
	for _, ch := range buf[len("goroutine "):n] {
		if ch < '0' || ch > '9' {
			break
		}
		id = id*10 + int64(ch-'0')
	}
	return id
}

var hookAttempts sync.Map // goid -> *atomic.Int64 (attempts of the call currently running there)

func reservedHook(name string, arg any) {
	if v, ok := hookAttempts.Load(goid()); ok {
		v.(*atomic.Int64).Add(1)
	}
}

type callRes struct {
	end      int64
	hookAtt  int // attempts counted at the pipeline.reserved hook (pipelined transport only)
	seq      int
	start    int64 // event counter at call start
	err      error
	ctxErr   error
	closedTr bool
}

func doCall(w *world, t exch, timeout time.Duration, trClosed *atomic.Bool) callRes {
	seq := int(seqCtr.Add(1))
	w.mu.Lock()
	w.seen[seq] = make(chan struct{})
	w.mu.Unlock()
	cr := callRes{seq: seq, start: w.net.Seq.Add(1)}
	w.mu.Lock()
	w.starts[seq] = cr.start
	w.mu.Unlock()
	ctx, cancel := context.WithTimeout(context.Background(), timeout)
	defer cancel()
	var att atomic.Int64
	gid := goid()
	hookAttempts.Store(gid, &att)
	r, err := t.ExchangeContext(ctx, dnsadv.Query(uint16(seq*17), seq, 1, "c08", 1))
	hookAttempts.Delete(gid)
	cr.end = w.net.Seq.Add(1)
	cr.hookAtt = int(att.Load())
	cr.err = err
	cr.ctxErr = ctx.Err()
	cr.closedTr = trClosed != nil && trClosed.Load()
	if err == nil {
		ri, perr := dnsadv.ParseReply(*r)
		if perr != nil || ri.Seq != seq {
			rep.Violation("foreign-reply", fmt.Sprintf("call q%d got %q (%v)", seq, ri.Token, perr), nil)
		}
		poolsan.Check(r, "c08 reply")
		pool.ReleaseBuf(r)
	}
	return cr
}

// judge applies the statement's table to one finished call.
// deadAvail: number of dead (killed) reused connections the call can have met in
// this scenario, or -1 if unknown. A call may only exhaust its attempt bound if
// at least that many distinct dead connections exist.
func judge(w *world, s scen, cr callRes, serverWorksFresh bool, deadAvail int) {
	judgeX(w, s, cr, serverWorksFresh, deadAvail, s.Script != "stream")
}

// strictFresh: the script never damages a connection that was opened during a
// probe call, so a failure on such a connection is self-inflicted.
func judgeX(w *world, s scen, cr callRes, serverWorksFresh bool, deadAvail int, strictFresh bool) {
	rep.Eval(1)
	w.mu.Lock()
	att := append([]*fakenet.Conn(nil), w.attempts[cr.seq]...)
	w.mu.Unlock()
	fresh := false
	reused := 0
	ids := []int{}
	for _, c := range att {
		ids = append(ids, c.ID)
		if c.Created >= cr.start {
			fresh = true
		} else {
			reused++
		}
	}
	nAtt := len(att)
	if cr.hookAtt > nAtt {
		// attempts that ended before anything was written (reservation on a connection
		// that closed meanwhile) are only visible at the hook
		nAtt = cr.hookAtt
		rep.Count("attempts_seen_only_at_hook(no write)", int64(cr.hookAtt-len(att)))
	}
	wit := map[string]any{"scenario": s, "call_seq": cr.seq, "attempt_conns": ids, "attempts_with_a_write": len(att), "attempts_at_hook": cr.hookAtt, "attempt_on_fresh_conn": fresh, "error": fmt.Sprint(cr.err)}
	rep.Max("max_connections_one_query_was_sent_on", int64(len(att)))
	if cr.hookAtt > 4 {
		rep.Violation("too-many-attempts-"+s.Transport, fmt.Sprintf("one call made %d attempts (bound is 4)", cr.hookAtt), wit)
	}
	if len(att) > 4 {
		rep.Violation("query-sent-on-too-many-conns-"+s.Transport, fmt.Sprintf("one query was transmitted on %d connections (bound is 4)", len(att)), wit)
	}
	if cr.err == nil {
		rep.Count("calls_ok", 1)
		if reused > 0 {
			rep.Count("calls_ok_after_retry_on_dead_reused_conn", 1)
			rep.Nontrivial(fmt.Sprintf("%s|%s|L%d|%s|att%d|fresh%v|seed%d|q%d", s.Transport, s.Script, s.L, s.How, len(att), fresh, s.Seed, cr.seq))
		}
		return
	}
	rep.Count("calls_failed", 1)
	rep.SetAdd("errors", s.Transport+": "+cr.err.Error())
	switch {
	case cr.ctxErr != nil:
		rep.Count("fail_legit:context_ended", 1)
	case cr.closedTr:
		rep.Count("fail_legit:transport_closed", 1)
	case fresh && serverWorksFresh && strictFresh:
		rep.Violation("fresh-connection-works-but-call-failed-"+s.Transport, fmt.Sprintf("the call opened a fresh connection to a server that answers every query on fresh connections, and still reported failure (%v)", cr.err), wit)
	case fresh:
		rep.Count("fail_legit:fresh_connection_failed", 1)
		rep.Nontrivial(fmt.Sprintf("%s|%s|fresh-fail|att%d|seed%d|q%d", s.Transport, s.Script, len(att), s.Seed, cr.seq))
		if serverWorksFresh {
			// a fresh connection failed although the script says fresh connections work:
			// only possible if the fresh conn was killed by a concurrent script step
			rep.Count("fail_on_fresh_conn_while_server_good(concurrent kill)", 1)
		}
	case (cr.hookAtt > len(att) || len(att) == 0) && deadConnCreatedDuring(w, cr):
		// an attempt ended before anything was written and a connection was opened
		// while the call ran: the write-less attempt may have been on that fresh
		// connection (e.g. the server closed it before first use). Not decidable
		// from the log -> not judged.
		rep.Count("fail_not_judged:writeless_attempt_and_conn_opened_during_call", 1)
	case nAtt >= s.bound() && deadAvail >= 0 && deadAvail < s.bound() && serverWorksFresh:
		rep.Violation("attempts-wasted-on-same-dead-conn-"+s.Transport, fmt.Sprintf("call failed (%v) after %d attempts although only %d reused connection(s) were dead and a fresh connection works: the retries did not move to another connection", cr.err, nAtt, deadAvail), wit)
	case nAtt >= s.bound():
		rep.Count("fail_legit:bound_reached", 1)
		rep.Nontrivial(fmt.Sprintf("%s|%s|bound|att%d|seed%d|q%d", s.Transport, s.Script, len(att), s.Seed, cr.seq))
	default:
		key := "reused-conn-failure-not-retried-" + s.Transport
		if nAtt == 0 {
			key = "failed-without-any-attempt-" + s.Transport
		}
		rep.Violation(key, fmt.Sprintf("call failed (%v) after %d attempt(s), all on connections that existed before the call, with a live context and an open transport, although a fresh connection works", cr.err, nAtt), wit)
	}
}

// deadConnCreatedDuring: a connection opened while the call ran was killed by
// the script (only possible in scripts that let fresh connections die).
func deadConnCreatedDuring(w *world, cr callRes) bool {
	for _, c := range w.net.Conns() {
		if c.Created >= cr.start && c.Created <= cr.end {
			cs := st(c)
			cs.mu.Lock()
			dead := cs.dead || cs.mode == eofOnQuery || cs.mode == errOnQuery
			cs.mu.Unlock()
			if dead || c.IsClosed() && c.ReadErrSet() {
				return true
			}
		}
	}
	return false
}

func trunc(b []byte, n int) []byte {
	if len(b) > n {
		return b[:n]
	}
	return b
}

func setup(s scen) {
	if s.Procs > 0 {
		runtime.GOMAXPROCS(s.Procs)
	}
	if s.Perturb {
		sched.Perturb(s.Seed, 0.3, 300*time.Microsecond)
	} else {
		sched.NoPerturb()
	}
}

// warm opens ceil(n/L) connections by holding n concurrent queries, then answers them.
func warm(w *world, t exch, s scen, n int) bool {
	if n == 0 {
		return true
	}
	w.freshBad.Store(false)
	w.freshHold.Store(true) // connections created from now on start in hold mode
	var wg sync.WaitGroup
	res := make([]callRes, n)
	for i := 0; i < n; i++ {
		wg.Add(1)
		go func(i int) {
			defer wg.Done()
			res[i] = doCall(w, t, 10*time.Second, nil)
		}(i)
	}
	deadline := time.Now().Add(5 * time.Second)
	for time.Now().Before(deadline) {
		held := 0
		for _, c := range w.net.Conns() {
			st(c).mu.Lock()
			held += len(st(c).held)
			st(c).mu.Unlock()
		}
		if held >= n {
			break
		}
		time.Sleep(100 * time.Microsecond)
	}
	w.freshHold.Store(false)
	for _, c := range w.net.Conns() {
		w.releaseHeld(c)
	}
	wg.Wait()
	for _, r := range res {
		if r.err != nil {
			return false
		}
	}
	return true
}

// scriptPool: warm a pool, poison k live connections, then probe.
func scriptPool(s scen) {
	caselog.Log(s)
	setup(s)
	w := newWorld(s.Stream)
	w.kind = s.Transport
	w.closeDelay = time.Duration(s.CloseMs) * time.Millisecond
	t := makeTransport(w, s)
	defer t.Close()
	if !warm(w, t, s, s.Warm) {
		rep.Inconclusive("pool %+v: warm-up calls failed", s)
		return
	}
	time.Sleep(time.Millisecond)
	live := w.liveConns()
	rng := rand.New(rand.NewSource(s.Seed))
	rng.Shuffle(len(live), func(i, j int) { live[i], live[j] = live[j], live[i] })
	k := s.Poison
	if k > len(live) {
		k = len(live)
	}
	for _, c := range live[:k] {
		switch s.How {
		case "failwrite":
			if s.Seed%2 == 0 {
				c.FailNextWrite(fakenet.ErrInjected)
			} else {
				c.FailWritesFromNow(fakenet.ErrInjected) // sends fail persistently
			}
			st(c).mu.Lock()
			st(c).dead = true // nothing will be answered on it any more
			st(c).mu.Unlock()
		case "eof-on-query":
			w.setMode(c, eofOnQuery)
		case "err-on-query":
			w.setMode(c, errOnQuery)
		case "closed-while-idle":
			st(c).mu.Lock()
			st(c).dead = true
			st(c).mu.Unlock()
			c.InjectEOF()
			if !c.WaitClosed(3 * time.Second) {
				rep.Inconclusive("pool %+v: idle connection with EOF not closed by the client", s)
			}
		}
	}
	rep.Count("pool_scenarios", 1)
	rep.Count("connections_poisoned", int64(k))
	w.freshBad.Store(s.FreshBad)
	var wg sync.WaitGroup
	res := make([]callRes, s.Probes)
	for i := range res {
		wg.Add(1)
		go func(i int) {
			defer wg.Done()
			res[i] = doCall(w, t, 5*time.Second, nil)
		}(i)
	}
	wg.Wait()
	for _, r := range res {
		judge(w, s, r, !s.FreshBad, k)
		if s.How == "closed-while-idle" && r.err == nil {
			w.mu.Lock()
			n := len(w.attempts[r.seq])
			w.mu.Unlock()
			if n == 1 {
				rep.Count("calls_not_costing_an_attempt_on_conn_closed_while_idle", 1)
			}
		}
		if s.FreshBad && r.err == nil && k == len(live) {
			rep.Violation("success-from-dead-server", "call succeeded although every connection it could use was scripted to die", map[string]any{"scenario": s})
		}
	}
	if rep.WantSample() && k > 0 {
		w.mu.Lock()
		var att [][]int
		for _, r := range res {
			ids := []int{}
			for _, c := range w.attempts[r.seq] {
				ids = append(ids, c.ID)
			}
			att = append(att, ids)
		}
		w.mu.Unlock()
		rep.Sample(map[string]any{"scenario": s, "live_before_poison": len(live), "probe_attempt_conns": att})
	}
}

// scriptStream: a long stream of calls while the server kills connections at random moments.
func scriptStream(s scen) {
	caselog.Log(s)
	setup(s)
	w := newWorld(s.Stream)
	w.kind = s.Transport
	w.closeDelay = time.Duration(s.CloseMs) * time.Millisecond
	t := makeTransport(w, s)
	defer t.Close()
	var wg sync.WaitGroup
	per := s.Len / s.Conc
	var mu sync.Mutex
	for c := 0; c < s.Conc; c++ {
		wg.Add(1)
		crng := rand.New(rand.NewSource(s.Seed*131 + int64(c)))
		go func() {
			defer wg.Done()
			for i := 0; i < per; i++ {
				// between calls the "server" may sabotage an existing connection
				if crng.Intn(100) < 35 {
					mu.Lock()
					// only connections that already served a query ("already in use or idle");
					// brand-new connections always work in this script
					var live []*fakenet.Conn
					for _, c := range w.liveConns() {
						if st(c).answered.Load() > 0 {
							live = append(live, c)
						}
					}
					if len(live) > 0 {
						c := live[crng.Intn(len(live))]
						switch crng.Intn(5) {
						case 0:
							c.FailNextWrite(fakenet.ErrInjected)
							st(c).mu.Lock()
							st(c).dead = true
							st(c).mu.Unlock()
						case 1:
							w.setMode(c, eofOnQuery)
						case 2:
							w.setMode(c, errOnQuery)
						case 3:
							w.setMode(c, replyThenClose)
						case 4:
							st(c).mu.Lock()
							st(c).dead = true
							st(c).mu.Unlock()
							c.InjectEOF()
						}
						rep.Count("stream_sabotage_steps", 1)
					}
					mu.Unlock()
				}
				r := doCall(w, t, 5*time.Second, nil)
				judge(w, s, r, true, -1)
			}
		}()
	}
	wg.Wait()
	rep.Count("stream_scenarios", 1)
}

// scriptInflight: pipeline connection closed with k queries in flight.
func scriptInflight(s scen) {
	caselog.Log(s)
	setup(s)
	w := newWorld(s.Stream)
	w.kind = s.Transport
	w.closeDelay = time.Duration(s.CloseMs) * time.Millisecond
	t := makeTransport(w, s)
	defer t.Close()
	// one warm connection so that the in-flight queries ride a REUSED connection
	if !warm(w, t, s, 1) {
		rep.Inconclusive("inflight %+v: warm-up failed", s)
		return
	}
	live := w.liveConns()
	if len(live) != 1 {
		rep.Inconclusive("inflight %+v: expected one warm connection, have %d", s, len(live))
		return
	}
	c0 := live[0]
	w.setMode(c0, hold)
	k := s.Probes
	var wg sync.WaitGroup
	res := make([]callRes, k)
	for i := range res {
		wg.Add(1)
		go func(i int) {
			defer wg.Done()
			res[i] = doCall(w, t, 5*time.Second, nil)
		}(i)
	}
	// wait until c0 holds min(k, L) queries (the rest dial new connections and are answered there)
	want := k
	if want > s.L {
		want = s.L
	}
	deadline := time.Now().Add(3 * time.Second)
	for time.Now().Before(deadline) {
		st(c0).mu.Lock()
		n := len(st(c0).held)
		st(c0).mu.Unlock()
		if n >= want {
			break
		}
		time.Sleep(100 * time.Microsecond)
	}
	st(c0).mu.Lock()
	inflight := len(st(c0).held)
	st(c0).mu.Unlock()
	w.killHeld(c0, int(s.Seed%2))
	wg.Wait()
	rep.Count("inflight_scenarios", 1)
	rep.Max("max_queries_in_flight_on_killed_conn", int64(inflight))
	for _, r := range res {
		judge(w, s, r, true, 1)
		if r.err != nil && r.ctxErr == nil {
			// in this script a fresh connection always works and only ONE reused connection dies:
			// every call must succeed
			rep.Violation("inflight-query-not-retried-"+s.Transport, fmt.Sprintf("a query in flight on a reused connection that the peer closed failed (%v) instead of being retried on a fresh connection", r.err), map[string]any{"scenario": s, "in_flight": inflight})
		}
	}
}

// scriptDialFail: m callers are queued on ONE pipelined connection that is still
// dialing; that dial then fails with a scripted error. Only the caller the
// connection was opened for may report the failure; the joiners (for whom it
// was an already existing connection) must be retried on a fresh connection,
// which works.
func scriptDialFail(s scen) {
	caselog.Log(s)
	setup(s)
	w := newWorld(s.Stream)
	w.kind = s.Transport
	var derr error
	switch s.How {
	case "refused":
		derr = errors.New("harness: connection refused")
	case "deadline":
		derr = context.DeadlineExceeded // what a dialer returns when its own dial timeout fires
	case "canceled":
		derr = context.Canceled
	case "wrapped-deadline":
		derr = fmt.Errorf("dial tcp: %w", context.DeadlineExceeded)
	}
	w.dialErrs = []error{derr}
	w.dialGate = make(chan struct{})
	t := makeTransport(w, s)
	defer t.Close()
	pt := t.(*transport.PipelineTransport)
	m := s.Probes
	var wg sync.WaitGroup
	res := make([]callRes, m)
	for i := range res {
		wg.Add(1)
		go func(i int) {
			defer wg.Done()
			res[i] = doCall(w, t, 8*time.Second, nil)
		}(i)
	}
	// wait until all m are queued on the one dialing connection
	deadline := time.Now().Add(3 * time.Second)
	queued := false
	for time.Now().Before(deadline) {
		_, cs := pt.VerifSnapshot()
		if len(cs) == 1 && cs[0].Dialing && cs[0].LazyReserved == m {
			queued = true
			break
		}
		time.Sleep(100 * time.Microsecond)
	}
	close(w.dialGate)
	wg.Wait()
	if !queued {
		rep.Count("dialfail_scenarios_not_judged(callers not queued on one dial)", 1)
		return
	}
	rep.Count("dialfail_scenarios", 1)
	failed := 0
	var errs []string
	for _, r := range res {
		rep.Eval(1)
		if r.err != nil {
			failed++
			errs = append(errs, r.err.Error())
		} else {
			rep.Count("calls_ok", 1)
		}
	}
	wit := map[string]any{"scenario": s, "callers": m, "failed": failed, "errors": errs, "dials": w.dialCount.Load()}
	if failed > 1 {
		rep.Violation("joiner-of-failed-dial-not-retried-"+s.How, fmt.Sprintf("%d of %d calls queued on a connection whose dial failed (%v) reported failure; only the one call the connection was opened for may, the others must be retried on a fresh connection (which works)", failed, m, derr), wit)
	} else {
		rep.Nontrivial(fmt.Sprintf("dialfail|%s|L%d|m%d|failed%d", s.How, s.L, m, failed))
		rep.Count("dialfail_joiners_retried_ok", int64(m-1))
	}
}

// scriptSilentReused: a reused connection whose peer has gone silent (no FIN, no
// RST: queries are swallowed). The attempt on it ends by the transport's own
// reply timeout; the query must then be retried on a fresh connection, which
// works. Costs the reply timeout in wall time, so these run concurrently with
// everything else.
func scriptSilentReused(s scen) {
	caselog.Log(s)
	w := newWorld(s.Stream)
	w.kind = s.Transport
	t := makeTransport(w, s)
	defer t.Close()
	if !warm(w, t, s, 1) {
		rep.Inconclusive("silent-reused %+v: warm-up failed", s)
		return
	}
	live := w.liveConns()
	if len(live) != 1 {
		rep.Inconclusive("silent-reused %+v: expected one warm connection, have %d", s, len(live))
		return
	}
	w.setMode(live[0], silent)
	r := doCall(w, t, 40*time.Second, nil)
	rep.Count("silent_reused_scenarios", 1)
	judgeX(w, s, r, true, 1, true)
	if r.err != nil && r.ctxErr == nil {
		rep.Violation("silent-reused-conn-not-retried-"+s.Transport, fmt.Sprintf("a query sent on a reused connection whose peer went silent failed (%v) instead of being retried on a fresh connection after the reply timeout", r.err), map[string]any{"scenario": s})
	}
}

func main() {
	rep = evid.New("C08", "fault_enumeration")
	caselog = evid.OpenCaseLog()
	poolsan.Install(func(r poolsan.Report) {
		rep.Violation("poolsan-"+r.Kind, "buffer-pool sanitizer: "+r.Kind+": "+r.Info, map[string]any{"stack": r.Stack})
	})
	rep.SetRule("enumerated kill scripts: pool(warm n conns, poison k of them by {failing next write, EOF/read error instead of the next reply, close while idle}, then m concurrent probe calls, fresh connections good or also dying), in-flight(close a reused pipelined conn with k queries in flight), stream(long sequential/concurrent call streams with random sabotage between calls), reply-then-close(sequential streams against a server whose connections answer 1..k queries and close right behind the last reply, the Write of that query returning only after the client consumed the reply / closed the connection: an answered query must neither fail nor be transmitted again); one case = one judged call; non-trivial = a call that met at least one dead reused connection and was judged (retried to success, failed on fresh, or reached the bound); distinct by scenario+call")
	rep.Assume("attempts are counted by connection from the harness write log (UDP resends on one socket are one attempt)")
	rep.Assume("'connection opened for the call' is approximated by 'connection created after the call started' (never stricter than mosdns' own isNewConn)")
	rep.Assume("retry bound taken from the pinned implementation: 3 attempts pipelined, 4 non-pipelined; the statement's global bound 4 is checked separately")

	sched.On("pipeline.reserved", reservedHook)
	if rep.ReplayFile != "" {
		var c struct {
			Scenario scen `json:"scenario"`
		}
		if err := rep.LoadReplay(&c); err != nil {
			fmt.Println("cannot load replay:", err)
			os.Exit(3)
		}
		for i := 0; i < 10; i++ {
			switch c.Scenario.Script {
			case "stream":
				scriptStream(c.Scenario)
			case "inflight":
				scriptInflight(c.Scenario)
			case "dialfail":
				scriptDialFail(c.Scenario)
			case "replyclose":
				scriptReplyClose(c.Scenario)
			default:
				scriptPool(c.Scenario)
			}
		}
		rep.Finish()
	}

	rng := rand.New(rand.NewSource(rep.Seed))
	procs := []int{1, 2, 16}
	tls := []tl{{"reuse", true, 1}, {"pipeline", true, 1}, {"pipeline", true, 2}, {"pipeline", false, 2}, {"pipeline", true, 8}}
	var silentWg sync.WaitGroup
	for _, x := range tls {
		for r := 0; r < rep.Pick(1, 3); r++ {
			silentWg.Add(1)
			sc := scen{Transport: x.t, Stream: x.stream, L: x.L, Script: "silent-reused", Seed: rng.Int63n(1 << 40)}
			go func() { defer silentWg.Done(); scriptSilentReused(sc) }()
		}
	}
	maxWarm := rep.Pick(5, 6)
	// pool scripts: enumerated completely over the listed dimensions
	n := 0
	for _, x := range tls {
		for warmN := 1; warmN <= maxWarm; warmN++ {
			for poison := 0; poison <= warmN; poison++ {
				for _, how := range []string{"failwrite", "eof-on-query", "err-on-query", "closed-while-idle"} {
					for _, probes := range []int{1, 2, 4} {
						if !rep.Thorough() && (probes == 2 && warmN > 3) {
							continue
						}
						for _, fb := range []bool{false, true} {
							if fb && (how != "eof-on-query" || probes != 1) {
								continue
							}
							n++
							scriptPool(scen{Transport: x.t, Stream: x.stream, L: x.L, Script: "pool", Warm: warmN * x.L, Poison: poison, How: how, Probes: probes, FreshBad: fb,
								Seed: rng.Int63n(1 << 40), Procs: procs[rng.Intn(3)], Perturb: rng.Intn(2) == 0, CloseMs: []int{0, 0, 2, 20}[rng.Intn(4)]})
						}
					}
				}
			}
		}
	}
	for _, x := range tls {
		if x.t != "pipeline" {
			continue
		}
		for k := 1; k <= x.L+2; k++ {
			for r := 0; r < rep.Pick(3, 20); r++ {
				scriptInflight(scen{Transport: x.t, Stream: x.stream, L: x.L, Script: "inflight", Probes: k, Seed: rng.Int63n(1 << 40), Procs: procs[rng.Intn(3)], Perturb: rng.Intn(2) == 0, CloseMs: []int{0, 2, 20}[r%3]})
			}
		}
	}
	for _, how := range []string{"refused", "deadline", "canceled", "wrapped-deadline"} {
		for _, m := range []int{2, 3, 8} {
			for r := 0; r < rep.Pick(2, 10); r++ {
				scriptDialFail(scen{Transport: "pipeline", Stream: r%2 == 0, L: 8, Script: "dialfail", How: how, Probes: m, Seed: rng.Int63n(1 << 40), Procs: procs[rng.Intn(3)], Perturb: rng.Intn(2) == 0})
			}
		}
	}
	for _, x := range tls {
		for _, conc := range []int{1, 2, 4} {
			for r := 0; r < rep.Pick(2, 12); r++ {
				scriptStream(scen{Transport: x.t, Stream: x.stream, L: x.L, Script: "stream", Len: 200, Conc: conc, Seed: rng.Int63n(1 << 40), Procs: procs[rng.Intn(3)], Perturb: rng.Intn(2) == 0, CloseMs: []int{0, 2}[r%2]})
			}
		}
	}
	runReplyClose(rng, tls, procs)
	silentWg.Wait()
	rep.Exhaustive(true)
	rep.Extra("enumerated_space", "pool scripts: 5 transport shapes x warm 1..N conns x poison 0..warm x 4 kill kinds x probe counts {1,2,4} (+ dying fresh connections); in-flight: k=1..L+2; streams sampled; reply-then-close: 5 transport shapes x write returns after {reply consumed, conn closed} x conn life {1, 1..3} x EOF {after, together with} the reply, 40 calls each, repeated")
	rep.Count("pool_scripts_enumerated", int64(n))
	runtime.GOMAXPROCS(16)
	sched.NoPerturb()
	for name, c := range sched.Counts() {
		rep.Count("hook:"+name, c)
	}
	if rep.Get("calls_ok_after_retry_on_dead_reused_conn") == 0 && rep.Violations() == 0 {
		rep.Inconclusive("no call ever met a dead reused connection")
	}
	_ = errors.Is
	_ = sort.Ints
	rep.Finish()
}
