package main

// Concurrent histories against pkg/cache (primary) and pkg/concurrent_lru +
// pkg/lru (secondary), recorded at the client boundary.

import (
	"fmt"
	"hash/fnv"
	"math/rand"
	"runtime"
	"sync"
	"sync/atomic"
	"time"

	"github.com/IrineSistiana/mosdns/v5/pkg/cache"
	"github.com/IrineSistiana/mosdns/v5/pkg/concurrent_lru"
)

// hkey is the harness key type: the harness decides what Sum() returns, so it
// can force shard collisions and full hash collisions.
type hkey struct {
	ID int32
	S  uint64
}

func (k hkey) Sum() uint64 { return k.S }

// val is self-describing: unique id, the key it was stored under, and the
// expiry it was stored with.
type val struct {
	ID  int64
	Key int32
	Exp int64
}

// histDesc is everything needed to re-execute one history.
type histDesc struct {
	Workload    string `json:"workload"` // cache | lru
	N           int    `json:"n"`
	Seed        int64  `json:"seed"`
	Size        int    `json:"size"` // cache: Opts.Size
	Procs       int    `json:"gomaxprocs"`
	Goroutines  int    `json:"goroutines"`
	Ops         int    `json:"ops_per_goroutine"`
	Keys        int    `json:"keys"`
	Pattern     string `json:"key_pattern"` // same-shard | same-sum | spread | mixed | high
	GCMicros    int    `json:"gc_interval_us"`
	Flavour     string `json:"flavour"` // mixed | flush-heavy | expiry-edge | evict
	Shards      int    `json:"lru_shards,omitempty"`
	MaxPerShard int    `json:"lru_max_per_shard,omitempty"`
}

func (d histDesc) class() string {
	if d.Workload == "lru" {
		return fmt.Sprintf("lru/shards%d/max%d/%s/%s/p%d", d.Shards, d.MaxPerShard, d.Pattern, d.Flavour, d.Procs)
	}
	return fmt.Sprintf("cache/size%d/%s/%s/p%d", d.Size, d.Pattern, d.Flavour, d.Procs)
}

func makeKeys(d histDesc) []hkey {
	ks := make([]hkey, d.Keys)
	r := rand.New(rand.NewSource(d.Seed ^ 0x5eed))
	c := uint64(r.Intn(64))
	for i := range ks {
		var s uint64
		switch d.Pattern {
		case "same-shard": // distinct sums, one shard of the 64
			s = c + 64*uint64(i+1)*uint64(1+r.Intn(1000))
		case "same-sum": // full hash collision
			s = c + 64*977
		case "spread":
			s = uint64(i)*7 + c
		case "high": // sums near 2^64, same residue mod 64
			s = ^uint64(0) - 63 + c - 64*uint64(i)
		default: // mixed: half collide in one shard, the rest anywhere
			if i%2 == 0 {
				s = c + 64*uint64(i+1)
			} else {
				s = r.Uint64()
			}
		}
		ks[i] = hkey{ID: int32(i), S: s}
	}
	return ks
}

// effective documented bound for a configured size
func capBound(size int) int {
	if size < 1024 {
		return 1024
	}
	return size
}

func sizeClass(size int) string {
	switch {
	case size <= 0:
		return "le0"
	case size < 64:
		return "1-63"
	default:
		return "ge64"
	}
}

type history struct {
	Desc     histDesc
	Ops      []opRec
	MaxLen   int
	LenSamp  int
	Bound    int
	RangeN   int
	RangeBad string
	EvictBad string
	GCEmpty  bool
	Refilled bool
	LenOver  *opRec
}

type store interface {
	get(k hkey) (val, int64, bool) // value, returned expiry (ns on harness clock), ok
	put(k hkey, v val)
	flush()
	length() int
	rangeAll(f func(k hkey, v val, exp int64)) bool // false if unsupported
	del(k hkey) bool
	clean(pred func(k hkey) bool) bool
	close()
}

type cacheStore struct{ c *cache.Cache[hkey, val] }

func (s cacheStore) get(k hkey) (val, int64, bool) {
	v, exp, ok := s.c.Get(k)
	if !ok {
		return v, 0, false
	}
	return v, int64(exp.Sub(base)), true
}
func (s cacheStore) put(k hkey, v val) { s.c.Store(k, v, base.Add(time.Duration(v.Exp))) }
func (s cacheStore) flush()            { s.c.Flush() }
func (s cacheStore) length() int       { return s.c.Len() }
func (s cacheStore) rangeAll(f func(k hkey, v val, exp int64)) bool {
	_ = s.c.Range(func(k hkey, v val, exp time.Time) error {
		f(k, v, int64(exp.Sub(base)))
		return nil
	})
	return true
}
func (s cacheStore) del(hkey) bool              { return false }
func (s cacheStore) clean(func(hkey) bool) bool { return false }
func (s cacheStore) close()                     { s.c.Close() }

type lruStore struct {
	l *concurrent_lru.ShardedLRU[hkey, val]
}

func (s lruStore) get(k hkey) (val, int64, bool) {
	v, ok := s.l.Get(k)
	return v, v.Exp, ok
}
func (s lruStore) put(k hkey, v val)                    { s.l.Add(k, v) }
func (s lruStore) flush()                               { s.l.Flush() }
func (s lruStore) length() int                          { return s.l.Len() }
func (s lruStore) rangeAll(func(hkey, val, int64)) bool { return false }
func (s lruStore) del(k hkey) bool                      { s.l.Del(k); return true }
func (s lruStore) clean(pred func(k hkey) bool) bool {
	s.l.Clean(func(k hkey, v val) bool { return pred(k) })
	return true
}
func (s lruStore) close() {}

func now() int64 { return int64(time.Since(base)) }

// runHistory executes one history and returns the merged record.
func runHistory(d histDesc) *history {
	keys := makeKeys(d)
	h := &history{Desc: d}
	var st store
	var evictBad atomic.Value
	if d.Workload == "lru" {
		h.Bound = d.Shards * d.MaxPerShard
		st = lruStore{concurrent_lru.NewShardedLRU[hkey, val](d.Shards, d.MaxPerShard, func(k hkey, v val) {
			if v.Key != k.ID { // runs under the shard lock: atomics only
				evictBad.Store(fmt.Sprintf("onEvict(key %d) handed value v%d stored under key %d", k.ID, v.ID, v.Key))
			}
		})}
	} else {
		h.Bound = capBound(d.Size)
		st = cacheStore{cache.New[hkey, val](cache.Opts{Size: d.Size, CleanerInterval: time.Duration(d.GCMicros) * time.Microsecond})}
	}
	defer st.close()
	prefilled := d.Workload == "cache" && d.Flavour == "evict"
	if prefilled {
		// fill the store to the brim with long-lived filler keys over all shards, so that
		// the history's stores into its one hot shard run against a full store
		far := now() + int64(time.Hour)
		for i := 0; i < 2*h.Bound; i++ {
			id := int32(1<<20 + i)
			st.put(hkey{ID: id, S: uint64(i)}, val{ID: int64(id), Key: id, Exp: far})
		}
	}

	per := make([][]opRec, d.Goroutines)
	start := make(chan struct{})
	var wg sync.WaitGroup
	for g := 0; g < d.Goroutines; g++ {
		wg.Add(1)
		go func(g int) {
			defer wg.Done()
			per[g] = worker(d, g, keys, st, start)
		}(g)
	}

	// Len sampler + concurrent Range, as the dump does
	var stop atomic.Bool
	var maxLen, lenSamples, rangeCalls atomic.Int64
	var rangeBad atomic.Value
	var lenOver atomic.Value
	var bg sync.WaitGroup
	bg.Add(1)
	go func() {
		defer bg.Done()
		<-start
		for i := 0; !stop.Load(); i++ {
			c := now()
			n := st.length()
			r := now()
			lenSamples.Add(1)
			if int64(n) > maxLen.Load() {
				maxLen.Store(int64(n))
			}
			if n > h.Bound && lenOver.Load() == nil {
				lenOver.Store(&opRec{G: -1, Kind: opLen, K: "len", Key: -1, N: n, Call: c, Ret: r})
			}
			if i%4 == 3 {
				time.Sleep(30 * time.Microsecond)
			} else {
				runtime.Gosched()
			}
		}
	}()
	bg.Add(1)
	go func() {
		defer bg.Done()
		<-start
		for !stop.Load() {
			n := 0
			ok := st.rangeAll(func(k hkey, v val, exp int64) {
				n++
				if v.Key != k.ID || v.Exp != exp {
					rangeBad.Store(fmt.Sprintf("Range yielded key %d with value v%d (stored under key %d, exp %d) and expiry %d", k.ID, v.ID, v.Key, v.Exp, exp))
				}
			})
			if !ok {
				return
			}
			rangeCalls.Add(1)
			if n > h.Bound && lenOver.Load() == nil {
				lenOver.Store(&opRec{G: -2, Kind: opRange, K: "range", Key: -1, N: n, Call: now(), Ret: now()})
			}
			time.Sleep(time.Duration(100+rangeCalls.Load()%7*40) * time.Microsecond)
		}
	}()

	close(start)
	done := make(chan struct{})
	go func() { wg.Wait(); close(done) }()
	select {
	case <-done:
	case <-time.After(600 * time.Second):
		rep.Inconclusive("watchdog: history %s #%d did not finish within 600 s", d.Workload, d.N)
		rep.Finish()
	}
	stop.Store(true)
	bg.Wait()

	n := st.length()
	if int64(n) > maxLen.Load() {
		maxLen.Store(int64(n))
	}
	if n > h.Bound && lenOver.Load() == nil {
		lenOver.Store(&opRec{G: -1, Kind: opLen, K: "len", Key: -1, N: n, Call: now(), Ret: now()})
	}
	for _, p := range per {
		h.Ops = append(h.Ops, p...)
	}
	h.MaxLen = int(maxLen.Load())
	h.LenSamp = int(lenSamples.Load()) + 1
	h.RangeN = int(rangeCalls.Load())
	if s, ok := rangeBad.Load().(string); ok {
		h.RangeBad = s
	}
	if s, ok := evictBad.Load().(string); ok {
		h.EvictBad = s
	}
	if o, ok := lenOver.Load().(*opRec); ok {
		h.LenOver = o
	}
	// the bound must survive a Flush: after a history that flushed, refill beyond the
	// bound with distinct long-lived keys over all shards and look at Len() and Range
	if d.Workload == "cache" && d.N%3 == 1 {
		flushed := false
		for i := range h.Ops {
			if h.Ops[i].Kind == opFlush {
				flushed = true
				break
			}
		}
		if flushed {
			h.Refilled = true
			t0 := time.Now()
			defer func() { rep.Count("wall_ms_refill_after_flush", time.Since(t0).Milliseconds()) }()
			far := now() + int64(time.Hour)
			for i := 0; i < h.Bound+h.Bound/4+64; i++ {
				id := int32(1<<22 + i)
				st.put(hkey{ID: id, S: uint64(i) * 0x9E3779B97F4A7C15}, val{ID: int64(id), Key: id, Exp: far})
				if i%64 == 63 || (i > h.Bound && i%8 == 0) {
					if n := st.length(); n > h.MaxLen {
						h.MaxLen = n
					}
				}
			}
			cnt := 0
			st.rangeAll(func(hkey, val, int64) { cnt++ })
			if cnt > h.MaxLen {
				h.MaxLen = cnt
			}
			if h.MaxLen > h.Bound && h.LenOver == nil {
				h.LenOver = &opRec{G: -3, Kind: opLen, K: "len/range after refilling a flushed store", Key: -1, N: h.MaxLen, Call: now(), Ret: now()}
			}
		}
	}
	// every entry of a cache history expires within a few ms: watch the sweeper empty the store
	if d.Workload == "cache" && d.N%4 == 0 && !prefilled && !h.Refilled {
		dl := time.Now().Add(150 * time.Millisecond)
		for time.Now().Before(dl) {
			if st.length() == 0 {
				h.GCEmpty = true
				break
			}
			time.Sleep(500 * time.Microsecond)
		}
	}
	return h
}

func worker(d histDesc, g int, keys []hkey, st store, start chan struct{}) []opRec {
	r := rand.New(rand.NewSource(d.Seed*131 + int64(g)))
	ops := make([]opRec, 0, d.Ops)
	var seq int64
	isLRU := d.Workload == "lru"
	// op mix (per mille)
	pGet, pStore, pFlush, pLen, pPause := 430, 330, 25, 25, 120
	switch d.Flavour {
	case "flush-heavy":
		pGet, pStore, pFlush, pLen, pPause = 440, 320, 80, 20, 90
	case "expiry-edge":
		pGet, pStore, pFlush, pLen, pPause = 480, 280, 5, 15, 200
	case "evict":
		pGet, pStore, pFlush, pLen, pPause = 380, 500, 5, 15, 60
	}
	<-start
	for i := 0; i < d.Ops; i++ {
		x := r.Intn(1000)
		ki := r.Intn(len(keys))
		if r.Intn(3) == 0 {
			ki = r.Intn(1 + len(keys)/4) // hot keys
		}
		k := keys[ki]
		switch {
		case x < pGet:
			o := opRec{G: g, Kind: opGet, K: "get", Key: ki}
			o.Call = now()
			v, exp, ok := st.get(k)
			o.Ret = now()
			if ok {
				o.Hit, o.ID, o.Exp = true, v.ID, exp
				if v.Key != k.ID {
					o.Bad = fmt.Sprintf("value v%d was stored under key %d, not %d", v.ID, v.Key, k.ID)
				} else if v.Exp != exp {
					o.Bad = fmt.Sprintf("value v%d was stored with expiry %d, came back with %d", v.ID, v.Exp, exp)
				}
			}
			ops = append(ops, o)
		case x < pGet+pStore:
			seq++
			o := opRec{G: g, Kind: opStore, K: "store", Key: ki, ID: int64(g+1)<<32 | seq}
			if isLRU {
				o.Exp = noExpiry
			} else {
				var delta time.Duration
				switch y := r.Intn(10); {
				case y < 3: // anywhere in +-5 ms
					delta = time.Duration(r.Intn(10_000_000)-5_000_000) * time.Nanosecond
				case y < 7: // short positive lifetimes: expire while being read
					delta = time.Duration(20_000+r.Intn(1_500_000)) * time.Nanosecond
				default:
					delta = time.Duration(r.Intn(400_000)-50_000) * time.Nanosecond
				}
				if d.Flavour == "expiry-edge" {
					delta = time.Duration(r.Intn(300_000)-20_000) * time.Nanosecond
				}
				if d.Flavour == "evict" {
					delta = time.Duration(1_000_000+r.Intn(4_000_000)) * time.Nanosecond
				}
				o.Exp = now() + int64(delta)
			}
			v := val{ID: o.ID, Key: k.ID, Exp: o.Exp}
			o.Call = now()
			st.put(k, v)
			o.Ret = now()
			ops = append(ops, o)
			if d.Flavour == "evict" { // the storing goroutine looks at Len() itself
				l := opRec{G: g, Kind: opLen, K: "len", Key: -1}
				l.Call = now()
				l.N = st.length()
				l.Ret = now()
				ops = append(ops, l)
			}
		case x < pGet+pStore+pFlush:
			o := opRec{G: g, Kind: opFlush, K: "flush", Key: -1}
			if isLRU && r.Intn(3) > 0 {
				if r.Intn(2) == 0 {
					o.Kind, o.K, o.Key = opDel, "del", ki
					o.Call = now()
					st.del(k)
					o.Ret = now()
				} else {
					// Clean removes every key with index%3 == m
					m := r.Intn(3)
					o.Kind, o.K, o.N = opClean, "clean", m
					o.Call = now()
					st.clean(func(k hkey) bool { return int(k.ID)%3 == m })
					o.Ret = now()
				}
			} else {
				o.Call = now()
				st.flush()
				o.Ret = now()
			}
			ops = append(ops, o)
		case x < pGet+pStore+pFlush+pLen:
			o := opRec{G: g, Kind: opLen, K: "len", Key: -1}
			o.Call = now()
			o.N = st.length()
			o.Ret = now()
			ops = append(ops, o)
		case x < pGet+pStore+pFlush+pLen+pPause:
			if r.Intn(4) == 0 {
				runtime.Gosched()
			} else {
				time.Sleep(time.Duration(20+r.Intn(280)) * time.Microsecond)
			}
		default:
			// back-to-back store+get of the same key: the tightest window
			seq++
			o := opRec{G: g, Kind: opStore, K: "store", Key: ki, ID: int64(g+1)<<32 | seq, Exp: noExpiry}
			if !isLRU {
				o.Exp = now() + int64(30_000+r.Intn(200_000))
			}
			o.Call = now()
			st.put(k, val{ID: o.ID, Key: k.ID, Exp: o.Exp})
			o.Ret = now()
			ops = append(ops, o)
			q := opRec{G: g, Kind: opGet, K: "get", Key: ki, B2B: true}
			q.Call = now()
			v, exp, ok := st.get(k)
			q.Ret = now()
			if ok {
				q.Hit, q.ID, q.Exp = true, v.ID, exp
				if v.Key != k.ID {
					q.Bad = fmt.Sprintf("value v%d was stored under key %d, not %d", v.ID, v.Key, k.ID)
				} else if v.Exp != exp {
					q.Bad = fmt.Sprintf("value v%d was stored with expiry %d, came back with %d", v.ID, v.Exp, exp)
				}
			}
			ops = append(ops, q)
		}
	}
	return ops
}

// partition returns, per key index, the ops on that key plus every whole-store
// delete (Flush; Clean where the predicate covers the key).
func partition(h *history) map[int][]opRec {
	parts := map[int][]opRec{}
	var global []opRec
	for _, o := range h.Ops {
		switch o.Kind {
		case opGet, opStore, opDel:
			parts[o.Key] = append(parts[o.Key], o)
		case opFlush, opClean:
			global = append(global, o)
		}
	}
	for k := range parts {
		for _, o := range global {
			if o.Kind == opClean && k%3 != o.N {
				continue
			}
			parts[k] = append(parts[k], o)
		}
	}
	return parts
}

type histStats struct {
	gets, hits, misses, stores, flushes, dels, cleans, lens int
	getsOverlapMut                                          int // lookups overlapping a store/flush of the same key by another goroutine
	hitsNearExpiry                                          int // hit returned within 100 us of the value's expiry
	missAfterExpiry                                         int // miss where the newest completed store had expired before the call
	missAfterStore                                          int // miss on a key that had a completed store
	b2b, b2bHit                                             int // lookups right after the goroutine's own store of the key / of those, hits
	fp                                                      uint64
}

func analyse(h *history, parts map[int][]opRec) histStats {
	var s histStats
	f := fnv.New64a()
	for k := 0; k < h.Desc.Keys; k++ {
		ops := parts[k]
		fmt.Fprintf(f, "|k%d", k)
		var lastStore *opRec
		for i := range ops {
			o := &ops[i]
			switch o.Kind {
			case opGet:
				s.gets++
				if o.B2B {
					s.b2b++
					if o.Hit {
						s.b2bHit++
					}
				}
				if o.Hit {
					s.hits++
					f.Write([]byte{'h'})
					if o.Exp != noExpiry && o.Exp-o.Ret < 100_000 {
						s.hitsNearExpiry++
					}
				} else {
					s.misses++
					f.Write([]byte{'m'})
					if lastStore != nil {
						s.missAfterStore++
						if lastStore.Ret < o.Call && lastStore.Exp < o.Call {
							s.missAfterExpiry++
						}
					}
				}
				for j := range ops {
					x := &ops[j]
					if x.G != o.G && (x.Kind == opStore || x.Kind == opFlush || x.Kind == opDel || x.Kind == opClean) && x.Call <= o.Ret && o.Call <= x.Ret {
						s.getsOverlapMut++
						break
					}
				}
			case opStore:
				s.stores++
				f.Write([]byte{'s'})
				if lastStore == nil || o.Ret > lastStore.Ret {
					lastStore = o
				}
			case opFlush:
				f.Write([]byte{'f'})
			case opDel:
				s.dels++
				f.Write([]byte{'d'})
			case opClean:
				f.Write([]byte{'c'})
			}
		}
	}
	for _, o := range h.Ops {
		switch o.Kind {
		case opFlush:
			s.flushes++
		case opClean:
			s.cleans++
		case opLen:
			s.lens++
		}
	}
	fmt.Fprintf(f, "|%s", h.Desc.class())
	s.fp = f.Sum64()
	return s
}
