// C11 — the cache store is safe, exact and bounded under concurrency.
//
// Many short concurrent histories of Get/Store/Flush/Len/Range (with the
// expiry sweeper running every millisecond or faster) are executed against the
// real pkg/cache over keys whose Sum() the harness controls (shard collisions,
// full hash collisions, sums near 2^64), for every configured size of the
// design's list. Each history is recorded at the client boundary with
// call/return stamps from one monotonic clock and a unique value per Store and
// then decided offline, per key, against a nondeterministic "may-forget"
// register: by porcupine, or - fast path, because porcupine's search is
// exponential in the operations in flight - by a constructed linearisation that
// is validated through the same model and cross-checked by porcupine on a
// sample (certify.go); and, independently, by direct checks that classify a
// bad lookup as foreign / expired / overwritten / flushed. Len() is sampled
// throughout and at the end of every history, and a capacity-pressure workload
// stores several times more live keys than the documented bound
// max(size, 1024). pkg/concurrent_lru + pkg/lru get the same treatment as a
// secondary workload. The program is built with -race; the driver turns race
// reports whose stacks lie in the anchored files into violations.
package main

import (
	"fmt"
	"math/rand"
	"os"
	"runtime"
	"runtime/debug"
	"runtime/pprof"
	"sort"
	"strings"
	"sync"
	"time"

	"verifharness/lib/evid"
)

var (
	rep     *evid.Reporter
	caselog *evid.CaseLog
	base    = time.Now() // the one monotonic clock
	ncpu    = runtime.NumCPU()

	checkSem = make(chan struct{}, runtime.NumCPU())
)

var sizes = []int{-5, 0, 1, 63, 64, 65, 100, 1023, 1024, 1100, 4096}

type sizeStat struct {
	Bound      int `json:"bound"`
	Histories  int `json:"histories"`
	CapCases   int `json:"capacity_cases"`
	MaxLen     int `json:"max_len_observed"`
	MaxRange   int `json:"max_entries_in_one_range"`
	LenSamples int `json:"len_samples"`
	KeysStored int `json:"max_distinct_keys_offered"`
}

var (
	statMu    sync.Mutex
	sizeStats = map[int]*sizeStat{}
	lruStats  = map[string]*sizeStat{}
	hitsByPat = map[string]int{}
	storesPat = map[string]int{}
	b2bPat    = map[string][2]int{}
)

func sstat(size int) *sizeStat {
	s := sizeStats[size]
	if s == nil {
		s = &sizeStat{Bound: capBound(size)}
		sizeStats[size] = s
	}
	return s
}

func lstat(shards, max int) *sizeStat {
	k := fmt.Sprintf("sharded_lru_%dx%d", shards, max)
	s := lruStats[k]
	if s == nil {
		s = &sizeStat{Bound: shards * max}
		lruStats[k] = s
	}
	return s
}

func genHistories(rng *rand.Rand, n int, workload string) []histDesc {
	out := make([]histDesc, 0, n)
	patterns := []string{"same-shard", "same-sum", "spread", "mixed", "high"}
	flavours := []string{"mixed", "mixed", "flush-heavy", "expiry-edge", "evict"}
	procs := []int{1, 2, 4, 16, 16, 16}
	gcs := []int{1000, 1000, 200, 5000}
	for i := 0; i < n; i++ {
		d := histDesc{
			Workload:   workload,
			N:          i,
			Seed:       rng.Int63n(1 << 40),
			Size:       sizes[i%len(sizes)],
			Procs:      procs[rng.Intn(len(procs))],
			Goroutines: 8 + rng.Intn(9),
			Ops:        100 + rng.Intn(201),
			Keys:       4 + rng.Intn(13),
			Pattern:    patterns[(i/len(sizes))%len(patterns)],
			Flavour:    flavours[rng.Intn(len(flavours))],
			GCMicros:   gcs[rng.Intn(len(gcs))],
		}
		if d.Flavour == "expiry-edge" {
			d.Keys = 4 + rng.Intn(5)
		}
		if d.Flavour == "evict" {
			// more live keys in one shard than any per-shard maximum of the small sizes
			d.Keys = 24 + rng.Intn(25)
			d.Pattern = []string{"same-shard", "same-sum", "high"}[rng.Intn(3)]
		}
		if d.Keys < d.Goroutines/2 {
			d.Keys = d.Goroutines / 2 // bounds how many goroutines sit on one key at a time (checker cost is exponential in that)
		}
		// keep the per-key partitions small (the checker is super-linear in their
		// length): many short histories rather than long ones
		if m := 500 * d.Keys / d.Goroutines; d.Ops > m {
			d.Ops = m
			if d.Ops < 100 {
				d.Ops = 100
			}
		}
		if workload == "lru" {
			d.Size = 0
			d.GCMicros = 0
			d.Shards = []int{1, 4, 64}[i%3]
			d.MaxPerShard = []int{1, 2, 3, 16}[(i/3)%4]
			if d.Flavour == "expiry-edge" {
				d.Flavour = "mixed"
			}
		}
		out = append(out, d)
	}
	return out
}

func genCapacity(rng *rand.Rand, thorough bool) []capDesc {
	var out []capDesc
	dists := []string{"uniform", "one-shard", "same-sum", "few-shards", "high"}
	n := 0
	for _, size := range sizes {
		for di, dist := range dists {
			if !thorough && di >= 2 && (size+di)%2 == 0 && dist != "uniform" {
				continue // quick: thin out the secondary distributions
			}
			reps := 1
			if thorough {
				reps = 3
			}
			for r := 0; r < reps; r++ {
				b := capBound(size)
				d := capDesc{
					Workload: "capacity", N: n, Seed: rng.Int63n(1 << 40), Size: size, Dist: dist,
					Goroutines: []int{4, 8, 16}[rng.Intn(3)],
					Keys:       2*b + 700 + rng.Intn(300),
					Procs:      []int{2, 16, 16}[rng.Intn(3)],
					Expiry:     []string{"far", "far", "mixed"}[rng.Intn(3)],
					GCMicros:   []int{1000, 300}[rng.Intn(2)],
				}
				if dist == "same-sum" {
					d.Keys = b + 300 + rng.Intn(100) // one Go map bucket chain: keep it affordable
				}
				if thorough && dist == "uniform" {
					d.Keys = 3*b + 1000
				}
				if dist == "uniform" {
					d.Expiry = []string{"far", "mixed"}[r%2]
				}
				// every size gets the bound checked after a Flush as well
				switch {
				case dist == "uniform" && r == 0:
					d.Flush = "first"
				case dist == "one-shard" && r == 0:
					d.Flush = "mid"
					d.Keys = 3*b + 900 // more than the bound remains to be stored after the last flush
				case r > 0 || di >= 2:
					d.Flush = []string{"", "first", "mid"}[rng.Intn(3)]
					if d.Flush == "mid" && dist != "same-sum" {
						d.Keys = 3*b + 900
					}
				}
				n++
				out = append(out, d)
			}
		}
	}
	// full-store storms: every size, writers >= 16, 1-4 hot shards (and one run over all residues)
	for _, size := range sizes {
		hots := []int{1, 3}
		if thorough {
			hots = []int{1, 2, 3, 4, 8, 64, 1, 2}
		}
		for hi, h := range hots {
			d := capDesc{Workload: "capacity-storm", N: n, Seed: rng.Int63n(1 << 40), Size: size, Dist: fmt.Sprintf("storm-%d-hot-shards", h),
				Goroutines: []int{16, 24, 32}[rng.Intn(3)], Keys: 250, Procs: 16, Expiry: "far", GCMicros: 1000, Shards: h}
			if hi%3 == 2 {
				d.Procs = 4
			}
			if hi%2 == 1 {
				d.Flush = "mid"
			}
			if thorough {
				d.Keys = 600
			}
			n++
			out = append(out, d)
		}
	}
	for _, sh := range []int{1, 4, 64} {
		for _, mx := range []int{1, 2, 16, 100} {
			for _, dist := range []string{"uniform", "one-shard"} {
				out = append(out, capDesc{Workload: "lru-capacity", N: n, Seed: rng.Int63n(1 << 40), Dist: dist,
					Goroutines: 8, Keys: 3*sh*mx + 200, Procs: 16, Shards: sh, MaxPerShard: mx})
				n++
			}
		}
	}
	return out
}

// judgeHistory runs the offline oracles over one recorded history.
func judgeHistory(h *history) (found bool) {
	d := h.Desc
	prefix := ""
	if d.Workload == "lru" {
		prefix = "lru-"
	}
	keys := makeKeys(d)
	parts := partition(h)
	for k := range parts {
		p := parts[k]
		sort.SliceStable(p, func(i, j int) bool { return p[i].Call < p[j].Call })
	}
	st := analyse(h, parts)

	ks := make([]int, 0, len(parts))
	for k := range parts {
		ks = append(ks, k)
	}
	sort.Ints(ks)
	verdicts := make([]keyVerdict, len(ks))
	var cwg sync.WaitGroup
	for i, k := range ks {
		cwg.Add(1)
		go func(i, k int) { // partitions of all histories of a batch share the cores
			defer cwg.Done()
			checkSem <- struct{}{}
			t0 := time.Now()
			verdicts[i] = checkKey(parts[k], checkerTimeout, os.Getenv("C11_PORCUPINE_ONLY") != "")
			us := time.Since(t0).Microseconds()
			<-checkSem
			rep.Count("checker_cpu_ms_total", us/1000)
			rep.Max("checker_ms_slowest_partition", us/1000)
			if us > 1_500_000 && os.Getenv("C11_DEBUG") != "" {
				nf, nm, nh, ns := 0, 0, 0, 0
				for _, o := range parts[k] {
					switch {
					case o.Kind == opFlush:
						nf++
					case o.Kind == opGet && o.Hit:
						nh++
					case o.Kind == opGet:
						nm++
					case o.Kind == opStore:
						ns++
					}
				}
				fmt.Printf("SLOW %dms ops=%d flush=%d miss=%d hit=%d store=%d %+v\n", us/1000, len(parts[k]), nf, nm, nh, ns, d)
			}
		}(i, k)
	}
	cwg.Wait()
	for i, k := range ks {
		v := verdicts[i]
		rep.Count("porcupine_partitions", 1)
		rep.Count(map[string]string{
			"ok": "porcupine_ok", "illegal": "porcupine_illegal", "unknown": "porcupine_unknown_timeout",
			"skipped":                    "violating_partitions_beyond_witness_budget_not_rechecked",
			"ok-certified":               "partitions_ok_by_validated_witness_linearization",
			"ok-certified-and-porcupine": "partitions_ok_by_witness_and_by_porcupine",
			"disagree":                   "oracle_disagreements",
		}[v.Result], 1)
		rep.Count("partition_ops_total", int64(len(parts[k])))
		rep.Max("partition_ops_max", int64(len(parts[k])))
		witness := func() map[string]any {
			ops := parts[k]
			if len(ops) > 1500 {
				ops = ops[:1500]
			}
			return map[string]any{"desc": d, "key_index": k, "key_sum": keys[k].S, "verdict": v, "key_history_by_call_time": ops,
				"clock": "ns since harness start (one monotonic clock); a Get hit is legal iff its value is the current one in some linearisation and exp_ns >= call_ns"}
		}
		if v.Class != "" || v.Result == "illegal" {
			rep.Count("violating_partitions", 1)
		}
		switch {
		case v.Result == "disagree":
			rep.Inconclusive("oracle disagreement (harness bug): a validated witness linearisation exists but porcupine says illegal; history %s #%d key %d", d.Workload, d.N, k)
		case v.Class != "" && v.Result == "ok":
			rep.Inconclusive("oracle disagreement (harness bug): direct check says %s, porcupine says ok; history %s #%d key %d", v.Class, d.Workload, d.N, k)
		case v.Class != "":
			found = true
			what := fmt.Sprintf("%s history #%d (size %d, %s keys, GOMAXPROCS %d): lookup of key %d by goroutine %d at [%d,%d] ns returned v%d: %s",
				d.Workload, d.N, d.Size, d.Pattern, d.Procs, k, v.BadOp.G, v.BadOp.Call, v.BadOp.Ret, v.BadOp.ID, explain(v))
			rep.Violation(prefix+"get-"+v.Class, what, witness())
		case v.Result == "illegal":
			found = true
			what := fmt.Sprintf("%s history #%d (size %d, %s keys, GOMAXPROCS %d): the %d operations on key %d have no linearisation in the may-forget model (longest partial linearisation: %d ops)",
				d.Workload, d.N, d.Size, d.Pattern, d.Procs, len(parts[k]), k, len(v.Linear))
			rep.Violation(prefix+"get-not-linearizable", what, witness())
		case v.Result == "unknown" && v.Class == "":
			// no witness linearisation could be built, the direct checks found nothing wrong,
			// and porcupine ran out of time (loaded machine): recorded, never a verdict
			rep.Count("partitions_undecided_checker_timeout", 1)
			rep.SetAdd("undecided_partitions", fmt.Sprintf("%s#%d/key%d/%dops", d.Workload, d.N, k, len(parts[k])))
		}
	}
	if h.RangeBad != "" {
		found = true
		rep.Violation("range-foreign-value", h.RangeBad, map[string]any{"desc": d})
	}
	if h.EvictBad != "" {
		found = true
		rep.Violation("lru-evict-foreign-value", h.EvictBad, map[string]any{"desc": d})
	}
	// Len observed by the workers themselves
	over := h.LenOver
	for i := range h.Ops {
		o := &h.Ops[i]
		if o.Kind == opLen {
			if o.N > h.MaxLen {
				h.MaxLen = o.N
			}
			if o.N > h.Bound && over == nil {
				over = o
			}
		}
	}
	if over != nil {
		found = true
		reportCapacity(d.Workload, d.Size, h.Bound, over.N, map[string]any{"desc": d, "observation": over})
	}

	rep.Eval(1)
	rep.Count(prefix+"histories", 1)
	rep.Count(prefix+"ops_recorded", int64(len(h.Ops)))
	rep.Count(prefix+"gets", int64(st.gets))
	rep.Count(prefix+"get_hits", int64(st.hits))
	rep.Count(prefix+"get_misses", int64(st.misses))
	rep.Count(prefix+"get_miss_after_completed_store", int64(st.missAfterStore))
	rep.Count(prefix+"stores", int64(st.stores))
	rep.Count(prefix+"flushes", int64(st.flushes))
	rep.Count(prefix+"gets_overlapping_store_or_flush_of_same_key", int64(st.getsOverlapMut))
	rep.Count(prefix+"len_samples", int64(h.LenSamp+st.lens))
	rep.Count(prefix+"range_calls_concurrent", int64(h.RangeN))
	if d.Workload == "lru" {
		rep.Count("lru-dels", int64(st.dels))
		rep.Count("lru-cleans", int64(st.cleans))
	} else {
		rep.Count("hits_within_100us_of_expiry", int64(st.hitsNearExpiry))
		rep.Count("misses_on_expired_value", int64(st.missAfterExpiry))
		if d.N%4 == 0 && d.Flavour != "evict" {
			rep.Count("sweeper_probe_histories", 1)
			if h.GCEmpty {
				rep.Count("sweeper_emptied_store_after_history", 1)
			}
		}
	}
	if d.Workload == "cache" && d.Flavour == "evict" {
		rep.Count("histories_on_prefilled_store", 1)
	}
	if h.Refilled {
		rep.Count("histories_refilled_beyond_bound_after_flush", 1)
		rep.SetAdd("sizes_refilled_after_flush_in_history", fmt.Sprint(d.Size))
	}
	rep.SetAdd("config_classes", d.class())
	if st.hits > 0 && st.missAfterStore > 0 && st.getsOverlapMut > 0 {
		rep.Nontrivial(fmt.Sprintf("%x", st.fp))
		rep.Count(prefix+"histories_nontrivial", 1)
	}
	statMu.Lock()
	hitsByPat[d.Workload+"/"+d.Pattern] += st.hits
	storesPat[d.Workload+"/"+d.Pattern] += st.stores
	bb := b2bPat[d.Workload+"/"+d.Pattern]
	b2bPat[d.Workload+"/"+d.Pattern] = [2]int{bb[0] + st.b2b, bb[1] + st.b2bHit}
	ss := lstat(d.Shards, d.MaxPerShard)
	if d.Workload == "cache" {
		ss = sstat(d.Size)
	}
	ss.Histories++
	ss.LenSamples += h.LenSamp + st.lens
	if h.MaxLen > ss.MaxLen {
		ss.MaxLen = h.MaxLen
	}
	statMu.Unlock()
	if rep.WantSample() && d.N < 3 {
		ops := append([]opRec(nil), h.Ops...)
		sort.SliceStable(ops, func(i, j int) bool { return ops[i].Call < ops[j].Call })
		if len(ops) > 25 {
			ops = ops[:25]
		}
		rep.Sample(map[string]any{"desc": d, "ops_total": len(h.Ops), "hits": st.hits, "misses": st.misses,
			"gets_overlapping_mutator": st.getsOverlapMut, "max_len": h.MaxLen, "first_ops_by_call_time": ops})
	}
	return found
}

func explain(v keyVerdict) string {
	switch v.Class {
	case "foreign-value":
		if v.BadOp.Bad != "" {
			return v.BadOp.Bad
		}
		if v.Stored != nil {
			return fmt.Sprintf("stored with expiry %d ns but returned with expiry %d ns", v.Stored.Exp, v.BadOp.Exp)
		}
		return "a value never stored under this key before the lookup returned"
	case "expired-value":
		return fmt.Sprintf("its expiry (%d ns) lies %d ns before the lookup began", v.Stored.Exp, v.BadOp.Call-v.Stored.Exp)
	default:
		return fmt.Sprintf("stored at [%d,%d] ns, but a %s at [%d,%d] ns by goroutine %d came strictly after that store and returned %d ns before the lookup began",
			v.Stored.Call, v.Stored.Ret, v.Because.Kind, v.Because.Call, v.Because.Ret, v.Because.G, v.BadOp.Call-v.Because.Ret)
	}
}

func reportCapacity(workload string, size, bound, seen int, w map[string]any) {
	if workload == "lru" || workload == "lru-capacity" {
		rep.Violation("lru-capacity-exceeded", fmt.Sprintf("sharded LRU held %d entries, shards x maxSize = %d", seen, bound), w)
		return
	}
	rep.Violation("capacity-exceeded-size-"+sizeClass(size),
		fmt.Sprintf("cache.New(Opts{Size: %d}) held %d entries; bound max(size, documented minimum 1024) = %d", size, seen, bound), w)
}

func judgeCapacity(r capResult) (found bool) {
	d := r.Desc
	rep.Eval(1)
	rep.Count("capacity_cases", 1)
	rep.Count("capacity_len_samples", int64(r.LenSamples))
	rep.Count("capacity_range_calls", int64(r.Ranges))
	rep.Count("capacity_gets", int64(r.Gets))
	rep.Count("capacity_get_hits", int64(r.Hits))
	if r.Flushes > 0 {
		rep.Count("capacity_cases_with_flush", 1)
		rep.Count("capacity_flushes", int64(r.Flushes))
		if r.AfterFlush > r.Bound || d.Flush == "first" || d.Workload == "capacity-storm" {
			rep.Count("capacity_cases_refilled_beyond_bound_after_flush", 1)
		}
	}
	seen := r.MaxLen
	if r.MaxRange > seen {
		seen = r.MaxRange
	}
	if seen > r.Bound {
		found = true
		reportCapacity(d.Workload, d.Size, r.Bound, seen, map[string]any{"desc": d, "result": r})
	}
	if r.Foreign != "" {
		found = true
		rep.Violation("capacity-foreign-value", r.Foreign, map[string]any{"desc": d, "result": r})
	}
	if d.Workload == "capacity-storm" {
		rep.Max("storm_len_after_prefill_max", int64(r.Prefill))
		if r.Prefill*64 >= r.Bound*63 && r.MaxLen > 0 { // the store really was full when the writers started
			rep.Nontrivial(fmt.Sprintf("storm/%d/%s/%d/%d/%d", d.Size, d.Dist, d.Goroutines, d.N, r.MaxLen))
			rep.Count("storm_cases_store_full", 1)
		}
	} else if d.Keys > r.Bound && r.MaxLen > 0 {
		rep.Nontrivial(fmt.Sprintf("cap/%s/%d/%s/%d/%d/%d/%d", d.Workload, d.Size, d.Dist, d.Shards, d.MaxPerShard, d.N, r.MaxLen))
		rep.Count("capacity_cases_nontrivial", 1)
	}
	rep.SetAdd("config_classes", fmt.Sprintf("%s/size%d/%s/%s/lru%dx%d/flush-%s", d.Workload, d.Size, d.Dist, d.Expiry, d.Shards, d.MaxPerShard, d.Flush))
	statMu.Lock()
	ss := lstat(d.Shards, d.MaxPerShard)
	if d.Workload == "capacity" || d.Workload == "capacity-storm" {
		ss = sstat(d.Size)
	}
	ss.CapCases++
	ss.LenSamples += r.LenSamples
	if r.MaxLen > ss.MaxLen {
		ss.MaxLen = r.MaxLen
	}
	if r.MaxRange > ss.MaxRange {
		ss.MaxRange = r.MaxRange
	}
	if d.Keys > ss.KeysStored {
		ss.KeysStored = d.Keys
	}
	statMu.Unlock()
	if rep.WantSample() && (d.N == 0 || d.N == 7) {
		rep.Sample(r)
	}
	return found
}

// raceLogBytes returns the size of the race detector's log for this process
// (GORACE log_path=<p> writes <p>.<pid>); -1 if it cannot be known.
func raceLogBytes() int64 {
	for _, f := range strings.Fields(os.Getenv("GORACE")) {
		if p, ok := strings.CutPrefix(f, "log_path="); ok {
			fi, err := os.Stat(fmt.Sprintf("%s.%d", p, os.Getpid()))
			if err != nil {
				return 0
			}
			return fi.Size()
		}
	}
	return -1
}

// Every racy access costs the detector milliseconds (it restores both stacks
// before it de-duplicates), so a tree with a race in a hot path would turn the
// run into hours. Once the detector has reported during a workload - which the
// driver already counts as a violation - the rest of that workload is cut
// short and the run is marked as not fully explored.
func cutShort(workload string, logBefore int64, done, total int) bool {
	if logBefore < 0 || os.Getenv("C11_NO_CUT") != "" {
		return false
	}
	if now := raceLogBytes(); now > logBefore && done < total {
		rep.Extra("cut_short_"+workload, fmt.Sprintf("race detector reported during this workload (log grew %d -> %d bytes); stopped after %d of %d cases", logBefore, now, done, total))
		rep.Count("cases_skipped_after_race_report", int64(total-done))
		return true
	}
	return false
}

// execute runs the histories one after the other (each owns the machine and
// its GOMAXPROCS setting) and judges them in parallel, batch by batch.
func execute(hs []histDesc) {
	const batch = 128
	if len(hs) == 0 {
		return
	}
	logBefore := raceLogBytes()
	cut := false
	for lo := 0; lo < len(hs) && !cut; lo += batch {
		hi := lo + batch
		if hi > len(hs) {
			hi = len(hs)
		}
		recs := make([]*history, 0, hi-lo)
		t0 := time.Now()
		for i, d := range hs[lo:hi] {
			caselog.Log(d)
			runtime.GOMAXPROCS(d.Procs)
			recs = append(recs, runHistory(d))
			if lo+i+1 >= 12 && cutShort(hs[0].Workload+"_histories", logBefore, lo+i+1, len(hs)) {
				cut = true
				break
			}
		}
		runtime.GOMAXPROCS(ncpu)
		rep.Count("wall_ms_executing_histories", time.Since(t0).Milliseconds())
		t0 = time.Now()
		var wg sync.WaitGroup
		for _, h := range recs {
			wg.Add(1)
			go func(h *history) {
				defer wg.Done()
				judgeHistory(h)
			}(h)
		}
		wg.Wait()
		rep.Count("wall_ms_checking_histories", time.Since(t0).Milliseconds())
		if n := rep.Get("violating_partitions"); n >= 20 && hi < len(hs) && os.Getenv("C11_NO_CUT") == "" {
			// decided: every further illegal partition costs the checker an exhaustive search
			rep.Extra("stopped_"+hs[0].Workload+"_histories", fmt.Sprintf("%d violating key partitions after %d of %d histories; rest not executed", n, hi, len(hs)))
			break
		}
	}
}

func main() {
	rep = evid.New("C11", "exploration")
	caselog = evid.OpenCaseLog()
	runtime.GOMAXPROCS(ncpu)
	debug.SetGCPercent(400) // the offline checker allocates heavily; under -race the collector is the bottleneck
	rep.SetRule("case = one short concurrent history (8-16 goroutines x 100-300 seeded ops Get/Store/Flush/Len (LRU: also Del/Clean) plus a Len sampler and a concurrent Range, sweeper every 0.2-5 ms, expiries within +-5 ms of now, 4-48 keys whose Sum() collides per shard / fully / near 2^64, sizes -5,0,1,63,64,65,100,1023,1024,1100,4096, GOMAXPROCS 1/2/4/16) against pkg/cache or the sharded LRU, or one capacity-pressure run (2-3x more live keys than max(size,1024)); a history is non-trivial if it has at least one hit, one miss on a key with a completed store, and one lookup overlapping a store/flush of the same key by another goroutine; a capacity case if more distinct keys were offered than the bound; distinct = per-key sequence of observed outcomes (hit/miss/store/flush order) x configuration")
	rep.Assume("call/return stamps and expiry times come from the same process-wide monotonic clock that time.Now() carries; a lookup is judged against its call stamp (taken before the call), so every outcome consistent with some instant inside the call is accepted")
	rep.Assume("Flush (and LRU Clean) are copied into every key partition as a per-key delete somewhere inside their call interval: no cross-key atomicity is demanded")
	rep.Assume("the model lets the store forget any value at any time (eviction, sweeps): only wrong hits are violations, never misses")
	rep.Assume("a key partition is accepted either by porcupine (Ok) or by an explicitly constructed linearisation that was validated by replaying it through the same model step function and checking the real-time order; a seeded sample of the latter is also given to porcupine; 'illegal' only comes from porcupine or from the direct checks")
	rep.Assume("documented API behaviour: a Store whose expiry lies before its own return stamp may be a no-op (cache.go: 'If expirationTime is before time.Now(), Store is an noop') and then does not count as an overwrite")
	rep.Assume("memory races are decided by the Go race detector (driver post-processes its log); this program only produces the concurrent accesses")

	if pf := os.Getenv("C11_PROF"); pf != "" {
		if f, err := os.Create(pf); err == nil {
			_ = pprof.StartCPUProfile(f)
			defer pprof.StopCPUProfile()
			stopProf = pprof.StopCPUProfile
		}
	}
	if err := checkerSelfTest(); err != nil {
		rep.Inconclusive("checker self-test failed (harness bug): %v", err)
		rep.Finish()
	}
	rep.Count("checker_selftest_histories_ok", 13)

	if rep.ReplayFile != "" {
		replay()
		rep.Finish()
	}

	rng := rand.New(rand.NewSource(rep.Seed))
	nCache := rep.Pick(600, 6000)
	nLRU := rep.Pick(150, 1200)
	hs := genHistories(rng, nCache, "cache")
	ls := genHistories(rng, nLRU, "lru")
	cs := genCapacity(rng, rep.Thorough())

	// capacity first: it is cheap and schedule-independent
	t0 := time.Now()
	logBefore := raceLogBytes()
	capCut := false
	for i, d := range cs {
		if capCut && d.Dist != "uniform" {
			continue
		}
		if !capCut && cutShort("capacity", logBefore, i, len(cs)) {
			capCut = true // keep only the uniform-distribution cases from here on
		}
		caselog.Log(d)
		runtime.GOMAXPROCS(d.Procs)
		var r capResult
		if d.Workload == "capacity-storm" {
			r = runStorm(d)
			rep.Count("storm_cases", 1)
		} else {
			r = runCapacity(d)
		}
		runtime.GOMAXPROCS(ncpu)
		judgeCapacity(r)
	}
	rep.Count("wall_ms_capacity_cases", time.Since(t0).Milliseconds())
	execute(hs)
	execute(ls)

	// what the monitors saw
	st := map[string]any{}
	szs := make([]int, 0, len(sizeStats))
	for s := range sizeStats {
		szs = append(szs, s)
	}
	sort.Ints(szs)
	for _, s := range szs {
		st[fmt.Sprintf("size_%d", s)] = sizeStats[s]
	}
	for k, v := range lruStats {
		st[k] = v
	}
	rep.Extra("len_by_configured_size", st)
	rep.Extra("hits_by_key_pattern", hitsByPat)
	b2bOut := map[string]string{}
	for p, bb := range b2bPat {
		b2bOut[p] = fmt.Sprintf("%d of %d", bb[1], bb[0])
		if bb[0] >= 200 && bb[1]*20 < bb[0] {
			rep.Inconclusive("key pattern %s: only %d of %d lookups issued right after the goroutine's own store hit - the store hardly ever returns anything, exactness is not exercised", p, bb[1], bb[0])
		}
	}
	rep.Extra("hits_of_lookups_right_after_own_store_by_key_pattern", b2bOut)
	for p, n := range storesPat {
		if n > 0 && hitsByPat[p] == 0 {
			rep.Inconclusive("no lookup ever hit for key pattern %s (%d stores): exactness was not exercised there", p, n)
		}
	}
	if rep.Get("cases_skipped_after_race_report") > 0 {
		rep.Inconclusive("%d cases were skipped after the race detector reported (see cut_short_*): exploration incomplete; set C11_NO_CUT=1 to run everything regardless of cost", rep.Get("cases_skipped_after_race_report"))
	}
	if rep.Get("gets_overlapping_store_or_flush_of_same_key") == 0 || rep.Get("get_hits") == 0 || rep.Get("flushes") == 0 {
		rep.Inconclusive("no concurrent lookup/mutation pairs or no hits observed")
	}
	if rep.Get("hits_within_100us_of_expiry") == 0 || rep.Get("misses_on_expired_value") == 0 {
		rep.Inconclusive("expiry edge never observed (no hit close to expiry / no miss on an expired value)")
	}
	if rep.Get("sweeper_emptied_store_after_history") == 0 {
		rep.Inconclusive("the expiry sweeper was never observed to remove entries")
	}
	if rep.Get("porcupine_ok")+rep.Get("porcupine_illegal")+rep.Get("partitions_ok_by_witness_and_by_porcupine") == 0 {
		rep.Inconclusive("no partition was decided by the checker")
	}
	stopProf()
	rep.Finish()
}

var stopProf = func() {}

func replay() {
	var c struct {
		Desc struct {
			Workload string `json:"workload"`
		} `json:"desc"`
	}
	if err := rep.LoadReplay(&c); err != nil || c.Desc.Workload == "" {
		// race-detector witnesses are written by the driver and carry no case:
		// re-run the quick workload, the race report re-appears in the driver
		fmt.Println("replay file has no case descriptor (race-detector witness?): re-running the quick workload")
		rng := rand.New(rand.NewSource(rep.Seed))
		execute(genHistories(rng, 200, "cache"))
		execute(genHistories(rng, 50, "lru"))
		return
	}
	switch c.Desc.Workload {
	case "capacity", "lru-capacity", "capacity-storm":
		var w struct {
			Desc capDesc `json:"desc"`
		}
		if err := rep.LoadReplay(&w); err != nil {
			fmt.Println("cannot load replay:", err)
			os.Exit(3)
		}
		for i := 0; i < 10; i++ {
			runtime.GOMAXPROCS(w.Desc.Procs)
			var r capResult
			if w.Desc.Workload == "capacity-storm" {
				r = runStorm(w.Desc)
			} else {
				r = runCapacity(w.Desc)
			}
			runtime.GOMAXPROCS(ncpu)
			if judgeCapacity(r) {
				break
			}
		}
	default:
		var w struct {
			Desc histDesc `json:"desc"`
		}
		if err := rep.LoadReplay(&w); err != nil {
			fmt.Println("cannot load replay:", err)
			os.Exit(3)
		}
		for i := 0; i < 300; i++ { // schedule dependent: same script, many schedules
			runtime.GOMAXPROCS(w.Desc.Procs)
			h := runHistory(w.Desc)
			runtime.GOMAXPROCS(ncpu)
			if judgeHistory(h) {
				break
			}
		}
	}
}
