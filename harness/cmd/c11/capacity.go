package main

// Capacity pressure: many more distinct live keys than the documented bound,
// stored concurrently, with Len() sampled all the time and Range counting.

import (
	"fmt"
	"math/rand"
	"runtime"
	"sync"
	"sync/atomic"
	"time"

	"github.com/IrineSistiana/mosdns/v5/pkg/cache"
	"github.com/IrineSistiana/mosdns/v5/pkg/concurrent_lru"
)

type capDesc struct {
	Workload    string `json:"workload"` // capacity | lru-capacity | capacity-storm (Shards = number of hot shards, Keys = stores per writer)
	N           int    `json:"n"`
	Seed        int64  `json:"seed"`
	Size        int    `json:"size"`
	Dist        string `json:"sum_distribution"` // uniform | one-shard | same-sum | few-shards | high
	Goroutines  int    `json:"goroutines"`
	Keys        int    `json:"distinct_keys"`
	Procs       int    `json:"gomaxprocs"`
	Expiry      string `json:"expiry"` // far | mixed
	GCMicros    int    `json:"gc_interval_us"`
	Shards      int    `json:"lru_shards,omitempty"`
	MaxPerShard int    `json:"lru_max_per_shard,omitempty"`
	// Flush: "" none; "first" = store a little, Flush, store a little, Flush, then the
	// pressure phase; "mid" = Flush (twice) while the writers are half way through
	Flush string `json:"flush,omitempty"`
}

type capResult struct {
	Desc       capDesc `json:"desc"`
	Bound      int     `json:"bound"`
	MaxLen     int     `json:"max_len_observed"`
	MaxRange   int     `json:"max_entries_seen_by_one_range"`
	FinalLen   int     `json:"final_len"`
	LenSamples int     `json:"len_samples"`
	Ranges     int     `json:"range_calls"`
	Stored     int     `json:"stores_done_when_exceeded,omitempty"`
	Gets       int     `json:"gets"`
	Hits       int     `json:"hits"`
	Foreign    string  `json:"foreign,omitempty"`
	Prefill    int     `json:"len_after_prefill,omitempty"`
	Flushes    int     `json:"flushes,omitempty"`
	AfterFlush int     `json:"stores_after_last_flush,omitempty"`
}

func capKey(i int, d capDesc, c uint64) hkey {
	var s uint64
	switch d.Dist {
	case "one-shard":
		s = c + 64*uint64(i)
	case "same-sum":
		s = c
	case "few-shards":
		s = uint64(i%3) + 64*uint64(i)
	case "high":
		s = ^uint64(0) - uint64(i)
	default:
		s = uint64(i)*0x9E3779B97F4A7C15 + c
		if i%2 == 0 {
			s = uint64(i) + c
		}
	}
	return hkey{ID: int32(i), S: s}
}

func runCapacity(d capDesc) capResult {
	res := capResult{Desc: d}
	var st store
	if d.Workload == "lru-capacity" {
		res.Bound = d.Shards * d.MaxPerShard
		st = lruStore{concurrent_lru.NewShardedLRU[hkey, val](d.Shards, d.MaxPerShard, nil)}
	} else {
		res.Bound = capBound(d.Size)
		st = cacheStore{cache.New[hkey, val](cache.Opts{Size: d.Size, CleanerInterval: time.Duration(d.GCMicros) * time.Microsecond})}
	}
	defer st.close()
	c := uint64(rand.New(rand.NewSource(d.Seed)).Intn(64))

	var stop atomic.Bool
	var maxLen, maxRange, lenSamples, ranges, stored, storedAtExceed atomic.Int64
	var flushes, storedAtFlush atomic.Int64
	if d.Flush == "first" {
		for round := 0; round < 2; round++ {
			for i := 0; i < 200; i++ {
				id := int32(1<<26 + round*1000 + i)
				st.put(hkey{ID: id, S: uint64(i)}, val{ID: int64(id), Key: id, Exp: now() + int64(time.Hour)})
			}
			st.flush()
			flushes.Add(1)
		}
	}
	var gets, hits atomic.Int64
	var foreign atomic.Value
	seeLen := func(n int, m *atomic.Int64) {
		if int64(n) > m.Load() {
			m.Store(int64(n)) // single writer per counter
		}
		if n > res.Bound {
			storedAtExceed.CompareAndSwap(0, stored.Load())
		}
	}
	start := make(chan struct{})
	var bg sync.WaitGroup
	var maxLens [3]atomic.Int64
	bg.Add(1 + len(maxLens))
	for si := range maxLens {
		go func(m *atomic.Int64) {
			defer bg.Done()
			<-start
			for i := 0; !stop.Load(); i++ {
				seeLen(st.length(), m)
				lenSamples.Add(1)
				if i%8 == 7 {
					time.Sleep(20 * time.Microsecond)
				} else {
					runtime.Gosched()
				}
			}
		}(&maxLens[si])
	}
	go func() {
		defer bg.Done()
		<-start
		for !stop.Load() {
			n := 0
			ok := st.rangeAll(func(k hkey, v val, exp int64) {
				n++
				if v.Key != k.ID || v.Exp != exp {
					foreign.Store(fmt.Sprintf("Range yielded key %d with value v%d stored under key %d", k.ID, v.ID, v.Key))
				}
			})
			if !ok {
				return
			}
			ranges.Add(1)
			seeLen(n, &maxRange)
			time.Sleep(300 * time.Microsecond)
		}
	}()
	var wg sync.WaitGroup
	for g := 0; g < d.Goroutines; g++ {
		wg.Add(1)
		go func(g int) {
			defer wg.Done()
			r := rand.New(rand.NewSource(d.Seed*977 + int64(g)))
			<-start
			var seq int64
			for i := g; i < d.Keys; i += d.Goroutines {
				k := capKey(i, d, c)
				seq++
				exp := now() + int64(time.Hour)
				if d.Workload == "lru-capacity" {
					exp = noExpiry
				} else if d.Expiry == "mixed" && r.Intn(3) == 0 {
					exp = now() + int64(200_000+r.Intn(3_000_000))
				}
				st.put(k, val{ID: int64(g+1)<<32 | seq, Key: k.ID, Exp: exp})
				stored.Add(1)
				if r.Intn(4) == 0 { // look at a key this goroutine stored earlier
					j := g + d.Goroutines*r.Intn(1+(i-g)/d.Goroutines)
					kj := capKey(j, d, c)
					v, e, ok := st.get(kj)
					gets.Add(1)
					if ok {
						hits.Add(1)
						if v.Key != kj.ID || v.Exp != e {
							foreign.Store(fmt.Sprintf("Get(key %d) returned value v%d stored under key %d", kj.ID, v.ID, v.Key))
						}
					}
				}
				if r.Intn(16) == 0 { // overwrite an existing key: must not grow the store
					seq++
					st.put(k, val{ID: int64(g+1)<<32 | seq, Key: k.ID, Exp: exp})
				}
				if r.Intn(64) == 0 {
					runtime.Gosched()
				}
			}
		}(g)
	}
	if d.Flush == "mid" {
		wg.Add(1)
		go func() {
			defer wg.Done()
			<-start
			for _, at := range []int64{int64(d.Keys) / 3, int64(d.Keys) / 2} {
				for stored.Load() < at {
					runtime.Gosched()
				}
				st.flush()
				flushes.Add(1)
				storedAtFlush.Store(stored.Load())
			}
		}()
	}
	close(start)
	done := make(chan struct{})
	go func() { wg.Wait(); close(done) }()
	select {
	case <-done:
	case <-time.After(600 * time.Second):
		rep.Inconclusive("watchdog: capacity case #%d (size %d) did not finish within 600 s", d.N, d.Size)
		rep.Finish()
	}
	stop.Store(true)
	bg.Wait()
	res.FinalLen = st.length()
	if res.FinalLen > res.Bound {
		storedAtExceed.CompareAndSwap(0, stored.Load())
	}
	for i := range maxLens {
		if n := maxLens[i].Load(); n > maxLen.Load() {
			maxLen.Store(n)
		}
	}
	res.MaxLen = int(maxLen.Load())
	if res.FinalLen > res.MaxLen {
		res.MaxLen = res.FinalLen
	}
	n := 0
	if st.rangeAll(func(hkey, val, int64) { n++ }) {
		ranges.Add(1)
		if int64(n) > maxRange.Load() {
			maxRange.Store(int64(n))
		}
	}
	res.MaxRange = int(maxRange.Load())
	res.LenSamples = int(lenSamples.Load()) + 1
	res.Ranges = int(ranges.Load())
	res.Stored = int(storedAtExceed.Load())
	res.Gets, res.Hits = int(gets.Load()), int(hits.Load())
	res.Flushes = int(flushes.Load())
	res.AfterFlush = int(stored.Load() - storedAtFlush.Load())
	if s, ok := foreign.Load().(string); ok {
		res.Foreign = s
	}
	return res
}

// runStorm: the store is first filled to the brim (every shard at its share),
// then many writers store distinct NEW keys whose Sum() lands in a few shards
// only, so that stores into the same full shard overlap all the time. Each
// writer reads Len() right after each of its own stores, and samplers read it
// flat out. Any decision about eviction that is not atomic with the insert
// (check-then-act) shows up as Len() > bound.
func runStorm(d capDesc) capResult {
	res := capResult{Desc: d, Bound: capBound(d.Size)}
	c := cache.New[hkey, val](cache.Opts{Size: d.Size, CleanerInterval: time.Duration(d.GCMicros) * time.Microsecond})
	defer c.Close()
	far := base.Add(time.Duration(now()) + time.Hour)
	farNs := int64(far.Sub(base))
	next := int32(0)
	put := func(sum uint64) {
		next++
		c.Store(hkey{ID: next, S: sum}, val{ID: int64(next), Key: next, Exp: farNs}, far)
	}
	// prefill sequentially: 3x the bound over all residues fills every shard
	for i := 0; i < 3*res.Bound; i++ {
		put(uint64(i))
	}
	res.FinalLen = c.Len() // reported as "prefill" below
	prefill := res.FinalLen
	r0 := rand.New(rand.NewSource(d.Seed))
	hot := make([]uint64, d.Shards) // here: number of hot shards
	for i := range hot {
		hot[i] = uint64(r0.Intn(64))
	}

	var stop atomic.Bool
	var lenSamples, stored, storedAtExceed atomic.Int64
	maxLens := make([]atomic.Int64, d.Goroutines+3)
	var flusherMax atomic.Int64
	see := func(n int, m *atomic.Int64) {
		if int64(n) > m.Load() {
			m.Store(int64(n))
		}
		if n > res.Bound {
			storedAtExceed.CompareAndSwap(0, stored.Load()+1)
		}
	}
	start := make(chan struct{})
	var bg, wg sync.WaitGroup
	for s := 0; s < 3; s++ {
		bg.Add(1)
		go func(m *atomic.Int64) {
			defer bg.Done()
			<-start
			for !stop.Load() {
				see(c.Len(), m)
				lenSamples.Add(1)
			}
		}(&maxLens[d.Goroutines+s])
	}
	for g := 0; g < d.Goroutines; g++ {
		wg.Add(1)
		go func(g int) {
			defer wg.Done()
			r := rand.New(rand.NewSource(d.Seed*31 + int64(g)))
			<-start
			for i := 0; i < d.Keys; i++ {
				id := int32(1<<24) + int32(g)<<16 + int32(i)
				k := hkey{ID: id, S: hot[r.Intn(len(hot))] + 64*uint64(id)}
				c.Store(k, val{ID: int64(id), Key: id, Exp: farNs}, far)
				stored.Add(1)
				see(c.Len(), &maxLens[g]) // the storing goroutine looks itself
				lenSamples.Add(1)
			}
		}(g)
	}
	var flushes, storedAtFlush atomic.Int64
	if d.Flush == "mid" {
		// Flush in the middle of the storm, then refill all shards while the writers go on
		wg.Add(1)
		go func() {
			defer wg.Done()
			<-start
			total := int64(d.Goroutines * d.Keys)
			for stored.Load() < total/3 {
				runtime.Gosched()
			}
			c.Flush()
			flushes.Add(1)
			storedAtFlush.Store(stored.Load())
			for i := 0; i < 3*res.Bound; i++ {
				id := int32(1<<27) + int32(i)
				c.Store(hkey{ID: id, S: uint64(i)}, val{ID: int64(id), Key: id, Exp: farNs}, far)
				if i%8 == 0 {
					see(c.Len(), &flusherMax)
				}
			}
		}()
	}
	close(start)
	done := make(chan struct{})
	go func() { wg.Wait(); close(done) }()
	select {
	case <-done:
	case <-time.After(600 * time.Second):
		rep.Inconclusive("watchdog: storm case #%d (size %d) did not finish within 600 s", d.N, d.Size)
		rep.Finish()
	}
	stop.Store(true)
	bg.Wait()
	res.FinalLen = c.Len()
	if res.FinalLen > res.Bound {
		storedAtExceed.CompareAndSwap(0, stored.Load())
	}
	res.MaxLen = res.FinalLen
	if n := int(flusherMax.Load()); n > res.MaxLen {
		res.MaxLen = n
	}
	res.Flushes = int(flushes.Load())
	res.AfterFlush = int(stored.Load() - storedAtFlush.Load())
	for i := range maxLens {
		if n := int(maxLens[i].Load()); n > res.MaxLen {
			res.MaxLen = n
		}
	}
	n := 0
	_ = c.Range(func(hkey, val, time.Time) error { n++; return nil })
	res.MaxRange = n
	res.Ranges = 1
	res.LenSamples = int(lenSamples.Load()) + 1
	res.Stored = int(storedAtExceed.Load())
	res.Prefill = prefill
	return res
}
