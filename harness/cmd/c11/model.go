package main

// Offline oracle: per-key linearisability against a nondeterministic
// "may-forget" register (porcupine), plus direct, independently coded checks
// that classify a bad lookup (foreign / expired / overwritten / flushed).

import (
	"fmt"
	"math"
	"sort"
	"strings"
	"sync/atomic"
	"time"

	"github.com/anishathalye/porcupine"
)

type opKind uint8

const (
	opGet   opKind = iota // lookup
	opStore               // Store / Add
	opFlush               // Flush (copied into every key partition as a per-key delete)
	opDel                 // Del(key) (LRU only)
	opClean               // Clean(pred) hitting this key (LRU only) = per-key delete
	opLen
	opRange
)

func (k opKind) String() string {
	switch k {
	case opGet:
		return "get"
	case opStore:
		return "store"
	case opFlush:
		return "flush"
	case opDel:
		return "del"
	case opClean:
		return "clean"
	case opLen:
		return "len"
	case opRange:
		return "range"
	}
	return "?"
}

const noExpiry = math.MaxInt64

// opRec is one recorded client-boundary operation. Call/Ret are nanoseconds
// on the single monotonic harness clock (time.Since(base)).
type opRec struct {
	G    int    `json:"g"`
	Kind opKind `json:"-"`
	K    string `json:"op"`
	Key  int    `json:"key"` // key index, -1 for whole-store operations
	ID   int64  `json:"id,omitempty"`
	Exp  int64  `json:"exp_ns,omitempty"` // expiry of the stored value (Store) / of the returned value (Get hit)
	Hit  bool   `json:"hit,omitempty"`
	N    int    `json:"n,omitempty"` // Len result / entries seen by Range
	Call int64  `json:"call_ns"`
	Ret  int64  `json:"ret_ns"`
	Bad  string `json:"bad,omitempty"` // direct observation at return time (foreign value etc.)
	B2B  bool   `json:"-"`             // lookup issued by the same goroutine right after its own store of this key
}

type mIn struct {
	Kind opKind
	ID   int64
	Exp  int64
	Call int64
	Ret  int64
}
type mOut struct {
	Hit bool
	ID  int64
}
type mState struct {
	ID  int64 // 0 = nothing stored
	Exp int64
}

// mayForget: state in {none, v}. Store(v,exp) -> {v, none}; Get -> v legal iff
// state = v and exp(v) >= call time of the Get; Get -> miss always legal and
// leaves none; Flush / Del / Clean -> none.
// One documented extra: "If expirationTime is before time.Now(), Store is an
// noop" - a Store whose expiry lies before its own return stamp may therefore
// also leave the state unchanged.
var mayForgetND = porcupine.NondeterministicModel{
	Init: func() []interface{} { return []interface{}{mState{}} },
	Step: func(state, input, output interface{}) []interface{} {
		s := state.(mState)
		in := input.(mIn)
		switch in.Kind {
		case opStore:
			if in.Exp < in.Ret && s.ID != 0 {
				return []interface{}{mState{ID: in.ID, Exp: in.Exp}, mState{}, s}
			}
			return []interface{}{mState{ID: in.ID, Exp: in.Exp}, mState{}}
		case opFlush, opDel, opClean:
			return []interface{}{mState{}}
		case opGet:
			out := output.(mOut)
			if !out.Hit {
				return []interface{}{mState{}}
			}
			if s.ID == out.ID && s.ID != 0 && s.Exp >= in.Call {
				return []interface{}{s}
			}
			return nil
		}
		return nil
	},
	Equal: func(a, b interface{}) bool { return a.(mState) == b.(mState) },
	Hash: func(a interface{}) uint64 {
		s := a.(mState)
		return uint64(s.ID)*0x9E3779B97F4A7C15 ^ uint64(s.Exp)
	},
	DescribeOperation: func(input, output interface{}) string {
		in := input.(mIn)
		if in.Kind == opGet {
			out := output.(mOut)
			if out.Hit {
				return fmt.Sprintf("get@%d -> v%d", in.Call, out.ID)
			}
			return "get -> miss"
		}
		if in.Kind == opStore {
			return fmt.Sprintf("store v%d exp=%d", in.ID, in.Exp)
		}
		return in.Kind.String()
	},
}

var mayForget = mayForgetND.ToModel()

const checkerTimeout = 300 * time.Second

type keyVerdict struct {
	Result  string  `json:"porcupine"`           // ok | illegal | unknown
	Class   string  `json:"class,omitempty"`     // direct classification of the first bad lookup
	BadOp   *opRec  `json:"bad_op,omitempty"`    // the lookup that cannot be explained
	Because *opRec  `json:"because,omitempty"`   // the store/flush that definitely preceded it
	Stored  *opRec  `json:"stored_by,omitempty"` // the store that produced the returned value
	Linear  []opRec `json:"longest_partial_linearization,omitempty"`
	Stuck   []opRec `json:"not_linearizable_after_that,omitempty"`
}

func toPorcupine(ops []opRec) []porcupine.Operation {
	h := make([]porcupine.Operation, len(ops))
	for i, o := range ops {
		h[i] = porcupine.Operation{
			ClientId: o.G,
			Input:    mIn{Kind: o.Kind, ID: o.ID, Exp: o.Exp, Call: o.Call, Ret: o.Ret},
			Output:   mOut{Hit: o.Hit, ID: o.ID},
			Call:     o.Call,
			Return:   o.Ret,
		}
	}
	return h
}

// directCheck is coded independently of porcupine: it finds lookups that are
// wrong by the letter of the property (sufficient conditions only).
func directCheck(ops []opRec) (class string, bad, because, stored *opRec) {
	stores := map[int64]int{}
	for i := range ops {
		if ops[i].Kind == opStore {
			stores[ops[i].ID] = i
		}
	}
	for i := range ops {
		g := &ops[i]
		if g.Kind != opGet || !g.Hit {
			continue
		}
		if g.Bad != "" {
			return "foreign-value", g, nil, nil
		}
		si, ok := stores[g.ID]
		if !ok || ops[si].Call > g.Ret {
			return "foreign-value", g, nil, nil // never stored under this key (before the lookup returned)
		}
		s := &ops[si]
		if s.Exp != g.Exp {
			return "foreign-value", g, nil, s // value came back with another expiry than it was stored with
		}
		if s.Exp < g.Call {
			return "expired-value", g, nil, s
		}
		for j := range ops {
			x := &ops[j]
			if j == si || x.Call <= s.Ret || x.Ret >= g.Call {
				continue
			}
			switch x.Kind {
			case opStore:
				if x.Exp < x.Ret {
					continue // documented no-op: an already expired value does not overwrite
				}
				return "stale-overwritten", g, x, s
			case opFlush:
				return "stale-flushed", g, x, s
			case opDel, opClean:
				return "stale-deleted", g, x, s
			}
		}
	}
	return "", nil, nil, nil
}

// witnessBudget limits the expensive parts (cross-validation of an already
// classified violation, extraction of partial linearisations) to the first few
// violating partitions of a run; the verdict never depends on it.
var witnessBudget atomic.Int64
var fallbackSpent atomic.Int64

// checkKey decides one key partition (ops on that key + whole-store deletes).
func checkKey(ops []opRec, timeout time.Duration, porcupineOnly bool) keyVerdict {
	if less := func(i, j int) bool { return ops[i].Call < ops[j].Call }; !sort.SliceIsSorted(ops, less) {
		sort.SliceStable(ops, less)
	}
	var v keyVerdict
	v.Class, v.BadOp, v.Because, v.Stored = directCheck(ops)
	h := toPorcupine(ops)
	if v.Class != "" {
		// already decided by the letter of the property; porcupine (which has to
		// exhaust the search space to say "illegal") only cross-checks the first few
		if witnessBudget.Add(-1) < 0 {
			v.Result = "skipped"
			return v
		}
		timeout = 15 * time.Second
	} else if !porcupineOnly && certify(ops) {
		v.Result = "ok-certified"
		// seeded sample: let porcupine confirm what the witness linearisation says
		if len(ops) > 0 && len(ops) <= 500 && (ops[0].Call/64)%6 == 0 {
			switch porcupine.CheckOperationsTimeout(mayForget, h, 20*time.Second) {
			case porcupine.Ok:
				v.Result = "ok-certified-and-porcupine"
			case porcupine.Illegal:
				v.Result = "disagree"
			}
		}
		return v
	}
	if v.Class == "" {
		// fallback: no witness linearisation. Generous bound, but the sum over a run is
		// bounded too so that a loaded machine cannot push the run past the driver's watchdog
		if fallbackSpent.Load() > int64(150*time.Second) {
			timeout = 10 * time.Second
		}
		t0 := time.Now()
		defer func() { fallbackSpent.Add(int64(time.Since(t0))) }()
	}
	switch porcupine.CheckOperationsTimeout(mayForget, h, timeout) {
	case porcupine.Ok:
		v.Result = "ok"
	case porcupine.Unknown:
		v.Result = "unknown"
	case porcupine.Illegal:
		v.Result = "illegal"
		if v.Class == "" && witnessBudget.Add(-1) < 0 {
			return v
		}
		_, info := porcupine.CheckOperationsVerbose(mayForget, h, 15*time.Second)
		parts := info.PartialLinearizations()
		if len(parts) > 0 {
			var best []int
			for _, p := range parts[0] {
				if len(p) > len(best) {
					best = p
				}
			}
			in := map[int]bool{}
			for _, id := range best {
				in[id] = true
				if len(v.Linear) < 400 {
					v.Linear = append(v.Linear, ops[id])
				}
			}
			for i := range ops {
				if !in[i] && len(v.Stuck) < 12 {
					v.Stuck = append(v.Stuck, ops[i])
				}
			}
		}
	}
	return v
}

// checkerSelfTest feeds hand-written histories with known verdicts through
// both oracles; a disagreement means the harness (not mosdns) is broken.
func checkerSelfTest() error {
	st := func(id, exp, c, r int64) opRec { return opRec{Kind: opStore, ID: id, Exp: exp, Call: c, Ret: r} }
	hit := func(id, exp, c, r int64) opRec {
		return opRec{Kind: opGet, ID: id, Exp: exp, Hit: true, Call: c, Ret: r, G: 1}
	}
	miss := func(c, r int64) opRec { return opRec{Kind: opGet, Call: c, Ret: r, G: 1} }
	fl := func(c, r int64) opRec { return opRec{Kind: opFlush, Call: c, Ret: r, G: 2} }
	cases := []struct {
		name  string
		ops   []opRec
		want  string
		class string
	}{
		{"hit", []opRec{st(1, 100, 1, 2), hit(1, 100, 3, 4)}, "ok", ""},
		{"forget", []opRec{st(1, 100, 1, 2), miss(3, 4), st(2, 100, 5, 6), hit(2, 100, 7, 8), miss(9, 10)}, "ok", ""},
		{"concurrent-overwrite", []opRec{st(1, 100, 1, 2), st(2, 100, 3, 8), hit(1, 100, 4, 5), hit(2, 100, 6, 7)}, "ok", ""},
		{"expiry-boundary", []opRec{st(1, 10, 1, 2), hit(1, 10, 10, 12)}, "ok", ""},
		{"expired", []opRec{st(1, 10, 1, 2), hit(1, 10, 11, 12)}, "illegal", "expired-value"},
		{"overwritten", []opRec{st(1, 100, 1, 2), st(2, 100, 3, 4), hit(1, 100, 5, 6)}, "illegal", "stale-overwritten"},
		{"flushed", []opRec{st(1, 100, 1, 2), fl(3, 4), hit(1, 100, 5, 6)}, "illegal", "stale-flushed"},
		{"flush-concurrent", []opRec{st(1, 100, 1, 2), fl(3, 7), hit(1, 100, 5, 6)}, "ok", ""},
		{"noop-store", []opRec{st(1, 100, 1, 2), st(2, 3, 4, 5), hit(1, 100, 6, 7)}, "ok", ""},
		{"noop-store-boundary", []opRec{st(1, 100, 1, 2), st(2, 5, 4, 5), hit(1, 100, 6, 7)}, "illegal", "stale-overwritten"},
		{"never-stored", []opRec{hit(9, 100, 5, 6)}, "illegal", "foreign-value"},
		{"resurrected", []opRec{st(1, 100, 1, 2), miss(3, 4), hit(1, 100, 5, 6)}, "illegal", ""},
		{"chain", []opRec{st(1, 100, 1, 2), st(2, 100, 1, 6), hit(2, 100, 3, 4), hit(1, 100, 7, 8), hit(2, 100, 9, 10)}, "illegal", ""},
	}
	witnessBudget.Store(1 << 30)
	defer witnessBudget.Store(4)
	for _, c := range cases {
		v := checkKey(append([]opRec(nil), c.ops...), 10*time.Second, true)
		if v.Result != c.want || v.Class != c.class {
			return fmt.Errorf("self-test %q: got porcupine=%s class=%q, want %s/%q", c.name, v.Result, v.Class, c.want, c.class)
		}
		w := checkKey(append([]opRec(nil), c.ops...), 10*time.Second, false)
		if strings.HasPrefix(w.Result, "ok") != (c.want == "ok") || w.Class != c.class {
			return fmt.Errorf("self-test %q (fast path): got %s class=%q, want %s/%q", c.name, w.Result, w.Class, c.want, c.class)
		}
		if c.want == "ok" && !certify(c.ops) {
			return fmt.Errorf("self-test %q: no witness linearisation constructed for a legal history", c.name)
		}
		if c.want != "ok" && certify(c.ops) {
			return fmt.Errorf("self-test %q: witness linearisation validated for an illegal history", c.name)
		}
	}
	// the validator must reject wrong orders on its own
	two := []opRec{st(1, 100, 1, 2), hit(1, 100, 3, 4)}
	if validateLinearization(two, []int{1, 0}) || !validateLinearization(two, []int{0, 1}) || validateLinearization(two, []int{0, 0}) {
		return fmt.Errorf("self-test: linearisation validator accepts a wrong order")
	}
	return nil
}
