package main

// Fast path for the common (legal) case. porcupine's depth-first search is
// exponential in the number of operations in flight on one key; with 16
// goroutines and a loaded machine single partitions took a minute. For a
// register with unique values a linearisation can be *constructed* directly
// (every value's store and its hits form a zone that no overwriter may enter).
// The constructed order is then *validated* by replaying it through the very
// same model Step function and by checking the real-time order - so an "ok"
// from here is backed by an explicit witness linearisation. Whenever the
// construction or the validation fails, porcupine decides; "illegal" only ever
// comes from porcupine or from the direct letter-of-the-property checks. A
// seeded sample of the certified partitions is cross-checked with porcupine.

import (
	"math"
	"sort"
)

// validateLinearization: order is a permutation of ops' indexes.
func validateLinearization(ops []opRec, order []int) bool {
	if len(order) != len(ops) {
		return false
	}
	seen := make([]bool, len(ops))
	maxCall := int64(math.MinInt64)
	states := mayForgetND.Init()
	for _, i := range order {
		if i < 0 || i >= len(ops) || seen[i] {
			return false
		}
		seen[i] = true
		o := &ops[i]
		if o.Ret < maxCall { // an operation ordered earlier was invoked after this one had returned
			return false
		}
		if o.Call > maxCall {
			maxCall = o.Call
		}
		in := mIn{Kind: o.Kind, ID: o.ID, Exp: o.Exp, Call: o.Call, Ret: o.Ret}
		out := mOut{Hit: o.Hit, ID: o.ID}
		var next []interface{}
		for _, s := range states {
			for _, t := range mayForgetND.Step(s, in, out) {
				dup := false
				for _, u := range next {
					if u.(mState) == t.(mState) {
						dup = true
						break
					}
				}
				if !dup {
					next = append(next, t)
				}
			}
		}
		if len(next) == 0 {
			return false
		}
		states = next
	}
	return true
}

type zone struct {
	a, b    int64 // store point, last hit point
	store   int
	maxCall int64
}

// constructLinearization returns a candidate order or nil.
func constructLinearization(ops []opRec) []int {
	n := len(ops)
	storeIdx := make(map[int64]int, n/2)
	for i := range ops {
		if ops[i].Kind == opStore {
			storeIdx[ops[i].ID] = i
		}
	}
	zoneOf := map[int]*zone{}
	for i := range ops {
		o := &ops[i]
		if o.Kind != opGet || !o.Hit {
			continue
		}
		si, ok := storeIdx[o.ID]
		if !ok {
			return nil
		}
		z := zoneOf[si]
		if z == nil {
			z = &zone{a: ops[si].Ret, store: si, maxCall: math.MinInt64}
			zoneOf[si] = z
		}
		if o.Ret < z.a {
			z.a = o.Ret
		}
		if o.Call > z.maxCall {
			z.maxCall = o.Call
		}
	}
	zones := make([]*zone, 0, len(zoneOf))
	for _, z := range zoneOf {
		if z.a < ops[z.store].Call {
			return nil
		}
		z.b = z.a
		if z.maxCall > z.b {
			z.b = z.maxCall
		}
		zones = append(zones, z)
	}
	sort.Slice(zones, func(i, j int) bool { return zones[i].a < zones[j].a })
	for i := 1; i < len(zones); i++ {
		if zones[i-1].b >= zones[i].a {
			return nil
		}
	}
	type place struct {
		p    int64
		rank int8
		idx  int
	}
	pl := make([]place, n)
	for i := range ops {
		o := &ops[i]
		switch {
		case o.Kind == opGet && o.Hit:
			z := zoneOf[storeIdx[o.ID]]
			p := z.a
			if o.Call > p {
				p = o.Call
			}
			pl[i] = place{p, 2, i}
		case o.Kind == opStore && zoneOf[i] != nil:
			pl[i] = place{zoneOf[i].a, 1, i}
		case o.Kind == opStore && o.Exp < o.Ret:
			pl[i] = place{o.Call, 0, i} // may have been the documented no-op: harmless anywhere
		default: // overwriter: needs a point outside every zone
			t := o.Call
			k := sort.Search(len(zones), func(j int) bool { return zones[j].b >= t })
			rank := int8(0)
			if k < len(zones) && zones[k].a < t { // a < t <= b
				z := zones[k]
				if t < z.b {
					t = z.b
				}
				if t > o.Ret {
					return nil
				}
				rank = 3
			}
			pl[i] = place{t, rank, i}
		}
	}
	sort.Slice(pl, func(i, j int) bool {
		if pl[i].p != pl[j].p {
			return pl[i].p < pl[j].p
		}
		if pl[i].rank != pl[j].rank {
			return pl[i].rank < pl[j].rank
		}
		return pl[i].idx < pl[j].idx
	})
	order := make([]int, n)
	for i := range pl {
		order[i] = pl[i].idx
	}
	return order
}

// certify reports whether a witness linearisation was found and validated.
func certify(ops []opRec) bool {
	order := constructLinearization(ops)
	return order != nil && validateLinearization(ops, order)
}
