// C18 — upstreams connect to exactly the address the user configured.
//
// Process layout
//
//	parent (this program, untraced)
//	  - generates the seed-determined list of STRUCTURED cases (gen.go)
//	  - hosts every harness server: per-case loopback listeners (UDP, TCP, TLS,
//	    DoH/h2, DoQ, DoH3), a per-case SOCKS5 proxy, a per-case bootstrap DNS
//	    server, and the CA that issues leaves with exactly the expected SAN
//	  - starts  strace -f … <self> -child …  and hands cases to it over a unix socket
//	  - afterwards parses the syscall trace and judges every case
//	child (child.go, traced)
//	  - nothing but upstream.NewUpstream / ExchangeContext / Close, 16 cases at a time,
//	    every case with its own Opt.SoMark so that each traced socket names its case
//
// Monitors: (1) syscall trace: every sockaddr passed to connect/sendto/sendmsg on
// a socket of case N; (2) SOCKS5 CONNECT destination; (3) what arrives at the
// loopback listeners; (4) names asked at the bootstrap server; (5) ClientHello
// SNI, and for IP literals certificate verification against a leaf whose only SAN
// is the URL host. Oracle: expectation derived from the structured case, never
// from re-parsing the string; outcome must be "rejected by NewUpstream" or "every
// observation equals the expectation".
//
// Interpretation notes
//   - dial_addr overrides the host and, if it carries one, the port; a port-less
//     dial_addr leaves the port written in the URL in force; SNI / HTTP Host always
//     follow the URL host.
//   - bare IPv6 followed by ":port" is ambiguous text (it may itself be a longer
//     IPv6 literal, or no literal at all): every reading is accepted, only foreign
//     kernel / proxy destinations are flagged and TLS names are not judged.
//   - listeners are exclusive: cases that may legitimately contact the same
//     loopback address never overlap. If a case nevertheless sends a connection to
//     a wrong loopback address (reported as dest-*), TLS names of that case and of
//     the case owning that address are not judged (they would only mirror the
//     misdirected connection).
//   - "accepted but never dialed" is decided on events: the exchange error is not a
//     timeout / refusal and the trace holds no connection attempt of that case.
//   - option dimension (fwd.go): upstreams are also configured on one real forward
//     plugin (2-4 per plugin, every option present on some positions and absent on
//     others, per upstream or plugin-global) and every member is judged on its own
//     expectation; an option a scheme is documented to ignore (socks5 on udp / quic /
//     h3, including the TCP retry of a udp upstream after a truncated reply) must
//     not move any connection: the configured proxy listens as a decoy. Sockets of
//     members that inherit the plugin-global so_mark carry groupMarkBase+group and
//     are resolved to the member that may contact the destination.
//   - server-behaviour dimension (hostile.go): the configured destination may answer
//     whatever it likes - redirects, Alt-Svc, 421, closed connections, refused
//     handshakes, other ALPN offers, QUIC Retry. The user's address is not altered
//     by that: every later connection / TLS name / HTTP authority / path of the
//     upstream is judged on the same expectation as the first, a decoy stands where
//     the server points, and a TLS based scheme never speaks plain text.
package main

import (
	"encoding/json"
	"errors"
	"fmt"
	"net"
	"net/netip"
	"os"
	"os/exec"
	"path/filepath"
	"sort"
	"strconv"
	"strings"
	"sync"
	"syscall"
	"time"

	"github.com/miekg/dns"

	"verifharness/lib/evid"
)

var rep *evid.Reporter

const childWorkers = 16

// ---------------------------------------------------------------------------
// parent: job scheduling + per-case resources
// ---------------------------------------------------------------------------

type parent struct {
	ca    *authority
	cases []*Case

	mu       sync.Mutex
	cond     *sync.Cond
	pending  [][]*Case       // scheduling units: single cases and sibling groups
	busy     map[string]bool // listen addresses in use by a running case
	running  map[int]*caseRes
	finished map[int]*caseRes
	results  map[int]*Result
	handed   int
	drains   int
	groups   map[int]*groupRes // forward groups: shared (plugin-global) servers
}

// lockKeys: every loopback address the case may legitimately contact. Cases
// sharing one (only [::1]:port can be shared; IPv4 loopback addresses are unique
// per case) never run at the same time, so that no case can reach a listener
// that belongs to another one.
func lockKeys(c *Case, e Expect) []string {
	if c.Via == "socks5" {
		return nil
	}
	var ks []string
	for _, d := range e.Dests {
		if d.Addr().IsLoopback() {
			ks = append(ks, d.String())
		}
	}
	return ks
}

// unitKeys: lock keys of a scheduling unit (a single case or a sibling group).
func unitKeys(u []*Case) []string {
	var ks []string
	seen := map[string]bool{}
	for _, c := range u {
		for _, k := range lockKeys(c, c.expect()) {
			if !seen[k] {
				seen[k] = true
				ks = append(ks, k)
			}
		}
	}
	return ks
}

// nextSet picks the first pending unit whose listen addresses are free, opens
// its servers and returns the jobs; nil when everything has been handed out.
func (p *parent) nextSet() *JobSet {
	p.mu.Lock()
	var unit []*Case
	for unit == nil {
		if len(p.pending) == 0 {
			p.mu.Unlock()
			return nil
		}
		for i, cand := range p.pending {
			ks := unitKeys(cand)
			free := true
			for _, k := range ks {
				if p.busy[k] {
					free = false
				}
			}
			if free {
				unit = cand
				for _, k := range ks {
					p.busy[k] = true
				}
				p.pending = append(p.pending[:i:i], p.pending[i+1:]...)
				break
			}
		}
		if unit == nil {
			p.cond.Wait()
		}
	}
	p.handed += len(unit)
	p.mu.Unlock()

	set := &JobSet{SharedTLS: unit[0].GroupKind == "shared-tlsconfig"}
	var owner *caseRes
	var grp *groupRes
	if unit[0].GroupKind == "forward" {
		grp = newGroupRes(unit[0].Group, unit[0])
		set.Forward = &FwdGlobal{Socks5: grp.socksAddr, Bootstrap: grp.bootAddr, BootVer: unit[0].GlobalBootVer, SoMark: groupMarkBase + unit[0].Group}
		p.mu.Lock()
		p.groups[unit[0].Group] = grp
		p.mu.Unlock()
	}
	for _, c := range unit {
		e := c.expect()
		cr := &caseRes{c: c, exp: e, ca: p.ca, grp: grp}
		if grp != nil {
			grp.members = append(grp.members, cr)
		}
		if c.GroupKind == "same-host" {
			// one bootstrap server for the whole group
			if owner == nil {
				owner = cr
			} else {
				cr.bootOwner = owner
			}
		}
		cr.open()
		p.mu.Lock()
		p.running[c.ID] = cr
		p.mu.Unlock()
		to := 300
		if e.Reachable {
			to = 1500
		}
		job := Job{ID: c.ID, Addr: c.Addr, DialAddr: c.DialAddr, Socks5: cr.socksAddr,
			Bootstrap: cr.bootAddr, BootVer: c.BootVer, TimeoutMS: to, SoMark: c.ID + 1, Exchanges: c.Exchanges}
		if c.Socks5Opt != "" {
			fwdJob(&job, c, cr)
		}
		set.Jobs = append(set.Jobs, job)
	}
	return set
}

// finish closes the servers of a finished unit and releases its addresses.
func (p *parent) finish(results []Result) {
	var unit []*Case
	drain := false
	for i := range results {
		res := &results[i]
		p.mu.Lock()
		cr := p.running[res.ID]
		delete(p.running, res.ID)
		p.mu.Unlock()
		if cr == nil {
			continue
		}
		cr.close()
		unit = append(unit, cr.c)
		p.mu.Lock()
		p.results[res.ID] = res
		p.finished[res.ID] = cr
		p.mu.Unlock()
		// a DoH / DoH3 request that was still in flight when the case ended keeps
		// running for up to 6 s after Close (mosdns detaches it from the caller's
		// context); a refused / failed one is over
		inFlight := strings.Contains(res.ExchErr, "context deadline exceeded") || strings.Contains(res.ExchErr, "context canceled")
		if (cr.c.Scheme == "https" || cr.c.Scheme == "h3") && !cr.c.AmbigPort && res.NewErr == "" && !res.ReplyOK && inFlight {
			drain = true
		}
	}
	if len(unit) > 0 && unit[0].GroupKind == "forward" {
		p.mu.Lock()
		g := p.groups[unit[0].Group]
		p.mu.Unlock()
		if g != nil {
			g.close()
		}
	}
	keys := unitKeys(unit)
	release := func() {
		p.mu.Lock()
		for _, k := range keys {
			delete(p.busy, k)
		}
		p.cond.Broadcast()
		p.mu.Unlock()
	}
	// Drain: the shared [::1]:port of such a case is handed to the next case only
	// after those 6 s. (Not needed for soundness - foreign connections are
	// recognised by their source port - but it keeps other cases' listeners clean.
	// Ambiguous-literal urls, whose DoH transport redials in a loop, run at the very
	// end of the schedule among themselves and their names are never judged.)
	if drain && len(keys) > 0 {
		p.mu.Lock()
		p.drains++
		n := p.drains
		p.mu.Unlock()
		if n <= 4 { // bounded: a tree that breaks every DoH case must not stretch the run
			time.AfterFunc(6500*time.Millisecond, release)
			return
		}
	}
	release()
}

func (p *parent) serve(conn net.Conn) {
	defer conn.Close()
	dec := json.NewDecoder(conn)
	enc := json.NewEncoder(conn)
	for {
		var rq Req
		if err := dec.Decode(&rq); err != nil {
			return
		}
		if len(rq.Res) > 0 {
			p.finish(rq.Res)
		}
		set := p.nextSet()
		if set == nil {
			_ = enc.Encode(JobSet{Done: true})
			return
		}
		if err := enc.Encode(set); err != nil {
			return
		}
	}
}

// runTraced executes all cases in a traced child and returns the trace.
func (p *parent) runTraced(tmp string, deadline time.Duration) (*traceResult, string, error) {
	strace, err := exec.LookPath("strace")
	if err != nil {
		return nil, "", fmt.Errorf("strace not found: %w", err)
	}
	self, err := os.Executable()
	if err != nil {
		return nil, "", err
	}
	caFile := filepath.Join(tmp, "ca.pem")
	if err := os.WriteFile(caFile, p.ca.pem, 0o644); err != nil {
		return nil, "", err
	}
	sockPath := filepath.Join(tmp, "rpc.sock")
	ln, err := net.Listen("unix", sockPath)
	if err != nil {
		return nil, "", err
	}
	defer ln.Close()
	go func() {
		for {
			c, err := ln.Accept()
			if err != nil {
				return
			}
			go p.serve(c)
		}
	}()
	logPath := filepath.Join(tmp, "strace.log")
	errPath := filepath.Join(tmp, "child.stderr")
	errFile, err := os.Create(errPath)
	if err != nil {
		return nil, "", err
	}
	defer errFile.Close()
	args := []string{"-f", "-qq", "-s", "48", "-e", "signal=none",
		"-e", "trace=socket,setsockopt,getsockname,connect,sendto,sendmsg,sendmmsg,write",
		"--seccomp-bpf", "-o", logPath,
		self, "-child", "-sock", sockPath, "-ca", caFile, "-workers", strconv.Itoa(childWorkers)}
	cmd := exec.Command(strace, args...)
	// the forward plugin builds its own tls.Config without RootCAs: the harness CA
	// is made the child's only system root
	cmd.Env = append(os.Environ(), "SSL_CERT_FILE="+caFile, "SSL_CERT_DIR="+filepath.Join(tmp, "no-such-dir"))
	cmd.Stdout = errFile
	cmd.Stderr = errFile
	cmd.SysProcAttr = &syscall.SysProcAttr{Pdeathsig: syscall.SIGKILL, Setpgid: true}
	if err := cmd.Start(); err != nil {
		return nil, "", err
	}
	waitC := make(chan error, 1)
	go func() { waitC <- cmd.Wait() }()
	var werr error
	select {
	case werr = <-waitC:
	case <-time.After(deadline):
		_ = syscall.Kill(-cmd.Process.Pid, syscall.SIGKILL)
		<-waitC
		werr = errors.New("watchdog: traced child did not finish")
	}
	_ = errFile.Sync()
	stderrTxt := ""
	if b, err := os.ReadFile(errPath); err == nil {
		// the markers go to the same file; keep only what is not a marker
		var keep []string
		for _, l := range strings.Split(string(b), "\n") {
			if l == "" || strings.HasPrefix(l, "CASE ") {
				continue
			}
			keep = append(keep, l)
		}
		if len(keep) > 60 {
			keep = keep[len(keep)-60:]
		}
		stderrTxt = strings.Join(keep, "\n")
	}
	tr, perr := parseTrace(logPath)
	if perr != nil {
		return nil, stderrTxt, perr
	}
	return tr, stderrTxt, werr
}

// ---------------------------------------------------------------------------
// oracle
// ---------------------------------------------------------------------------

type witness struct {
	Case     *Case          `json:"case"`
	Expected map[string]any `json:"expected"`
	Result   *Result        `json:"result"`
	Observed *Obs           `json:"observed_by_harness_servers"`
	Trace    []destEvent    `json:"trace_destinations"`
	Problems []string       `json:"problems,omitempty"`
	// Siblings: the whole group in creation order when the case is a member of one
	// (replay re-creates all of them)
	Siblings []*Case `json:"sibling_group,omitempty"`
}

func expSummary(c *Case, e Expect, cr *caseRes) map[string]any {
	m := map[string]any{"net_port": e.NetPort, "sni": e.SNI, "http_path": e.HTTPPath}
	if e.NetIsName {
		m["net_host"] = e.NetName
	} else {
		var s []string
		for _, a := range e.NetIPs {
			s = append(s, a.String())
		}
		m["net_host"] = strings.Join(s, " | ")
	}
	var d []string
	for _, x := range e.Dests {
		d = append(d, x.String())
	}
	m["kernel_destinations"] = d
	if cr != nil {
		if cr.socksAddr != "" {
			m["socks5_proxy"] = cr.socksAddr
		}
		m["bootstrap_server"] = cr.bootAddr
		if cr.listening && c.Via != "socks5" {
			m["harness_listening_at"] = e.Listen.String()
		}
		if cr.listenErr != "" {
			m["listen_error"] = cr.listenErr
		}
	}
	var ips []string
	for _, a := range e.CertIPs {
		ips = append(ips, a.String())
	}
	m["leaf_san_ip"] = ips
	m["leaf_san_dns"] = e.CertNames
	return m
}

func sameHost(observed string, c *Case) bool {
	if c.HostKind == "hostname" {
		return strings.EqualFold(strings.TrimSuffix(observed, "."), c.Host)
	}
	o, err := netip.ParseAddr(observed)
	if err != nil {
		return false
	}
	want := netip.MustParseAddr(c.Host)
	if o.Unmap() == want.Unmap() {
		return true
	}
	if c.AmbigPort {
		if w2, err := netip.ParseAddr(c.HostText + ":" + strconv.Itoa(c.Port)); err == nil && o == w2 {
			return true
		}
	}
	return false
}

func benignDialError(s string) bool {
	for _, sub := range []string{"context deadline exceeded", "i/o timeout", "connection refused",
		"network is unreachable", "no route to host", "timeout", "context canceled", "connection reset"} {
		if strings.Contains(s, sub) {
			return true
		}
	}
	return false
}

func nameMismatchError(s string) bool {
	if !strings.Contains(s, "x509:") {
		return false
	}
	for _, sub := range []string{"certificate is valid for", "not valid for any names", "doesn't contain any IP SANs",
		"cannot validate certificate for", "certificate is not valid"} {
		if strings.Contains(s, sub) {
			return true
		}
	}
	return false
}

type problem struct {
	class string // violation class
	form  string // form part of the key
	text  string
}

// judge compares everything observed for one accepted case with the expectation.
func judge(c *Case, e Expect, res *Result, cr *caseRes, evs []destEvent, own map[string]bool) (probs []problem, matched int) {
	o := &cr.obs
	add := func(class, form, format string, a ...any) {
		probs = append(probs, problem{class, form, fmt.Sprintf(format, a...)})
	}
	sniForm := c.hostKey() // the TLS name / HTTP Host depend on the URL host only

	// (1) syscall trace
	var socksAP, bootAP netip.AddrPort
	if cr.socksAddr != "" {
		socksAP, _ = netip.ParseAddrPort(cr.socksAddr)
	}
	if cr.bootAddr != "" {
		bootAP, _ = netip.ParseAddrPort(cr.bootAddr)
	}
	seenBad := map[string]bool{}
	for _, ev := range evs {
		if ev.Dest == socksAP && c.Via == "socks5" {
			rep.Count("trace_dest_is_case_socks5_proxy", 1)
			matched++
			continue
		}
		if ev.Dest == bootAP {
			continue
		}
		if c.socksIgnored() && socksAP.IsValid() && ev.Dest == socksAP {
			// the option is documented as not implemented for this scheme: no
			// connection of the upstream may be moved to the proxy
			if !seenBad[ev.Dest.String()] {
				seenBad[ev.Dest.String()] = true
				add("dest-redirected-to-ignored-socks5", c.formKey(), "%s(%s socket of this upstream) went to the socks5 proxy %s (%s); socks5 is documented as not implemented for %s upstreams, the configured destination is %v",
					ev.Syscall, ev.Sock, ev.Dest, socksOrigin(c), schemeWords(c.Scheme), e.Dests)
			}
			continue
		}
		ok := false
		for _, d := range e.Dests {
			if d == ev.Dest {
				ok = true
			}
		}
		if c.Via == "socks5" {
			// with a proxy configured nothing but the proxy may be dialed
			if !seenBad[ev.Dest.String()] {
				seenBad[ev.Dest.String()] = true
				add("dest-bypasses-socks5", c.formKey(), "%s(%s socket of this case) went to %s although the SOCKS5 proxy %s is configured",
					ev.Syscall, ev.Sock, ev.Dest, cr.socksAddr)
			}
			continue
		}
		if ok {
			matched++
			rep.Count("trace_dest_equals_expected", 1)
			continue
		}
		if seenBad[ev.Dest.String()] {
			continue
		}
		seenBad[ev.Dest.String()] = true
		hostOK, portOK := false, false
		for _, d := range e.Dests {
			if d.Addr() == ev.Dest.Addr() {
				hostOK = true
			}
			if d.Port() == ev.Dest.Port() {
				portOK = true
			}
		}
		class := "dest-host-port-altered"
		switch {
		case len(e.Dests) == 0:
			class = "dest-unexpected"
		case hostOK && !portOK:
			class = "dest-port-altered"
		case !hostOK && portOK:
			class = "dest-host-altered"
		}
		add(class, c.formKey(), "%s(%s socket) went to %s, configured destination is %v",
			ev.Syscall, ev.Sock, ev.Dest, e.Dests)
	}

	// (2) SOCKS5 CONNECT destination
	for _, so := range o.Socks {
		if c.Via != "socks5" {
			// a request at the decoy proxy of a scheme that ignores socks5
			if own["STREAM/"+strconv.Itoa(so.RemotePort)] {
				add("dest-redirected-to-ignored-socks5", c.formKey(), "the socks5 proxy %s (%s) received CONNECT %q port %d from this upstream's source port %d; socks5 is documented as not implemented for %s upstreams",
					cr.socksAddr, socksOrigin(c), so.Host, so.Port, so.RemotePort, schemeWords(c.Scheme))
			} else {
				rep.Count("decoy_proxy_requests_of_foreign_origin_ignored", 1)
			}
			continue
		}
		hostOK, portOK := false, false
		if e.NetIsName {
			hostOK = so.Atyp == "domain" && strings.EqualFold(so.Host, e.NetName)
			portOK = so.Port == e.NetPort || (e.AltPort != 0 && so.Port == e.AltPort)
		} else if a, err := netip.ParseAddr(so.Host); err == nil && so.Atyp != "domain" {
			for _, d := range e.Lit {
				if d.Addr() == a.Unmap() {
					hostOK = true
					if int(d.Port()) == so.Port {
						portOK = true
					}
				}
			}
			if hostOK && !portOK {
				// right host: the port must belong to the same reading
				for _, d := range e.Lit {
					if d.Addr() != a.Unmap() && int(d.Port()) == so.Port {
						hostOK = false
					}
				}
			}
		} else if c.AmbigPort && c.DialKind == "none" && so.Atyp == "domain" &&
			so.Host == c.HostText+":"+strconv.Itoa(c.Port) && so.Port == defaultPort(c.Scheme) {
			// third reading of an ambiguous literal: a name
			rep.Count("socks5_connect_ambiguous_literal_as_name", 1)
			continue
		}
		switch {
		case hostOK && portOK:
			matched++
			rep.Count("socks5_connect_equals_expected", 1)
		case !hostOK:
			add("dest-host-altered", c.formKey(), "SOCKS5 CONNECT asked for %s %q port %d, configured %s port %d", so.Atyp, so.Host, so.Port, expHost(e), e.NetPort)
		default:
			add("dest-port-altered", c.formKey(), "SOCKS5 CONNECT asked for %q port %d, configured port %d", so.Host, so.Port, e.NetPort)
		}
	}

	// (4) bootstrap questions (siblings naming the same host share one server)
	boot := o.Boot
	if cr.bootOwner != nil {
		boot = cr.bootOwner.obs.Boot
	}
	for _, b := range boot {
		switch {
		case e.NetIsName:
			if strings.EqualFold(b.Name, dns.Fqdn(e.NetName)) {
				rep.Count("bootstrap_question_equals_expected", 1)
				if c.Via != "socks5" {
					matched++
				}
			} else {
				add("dest-host-altered", c.formKey(), "bootstrap server was asked for %q, configured host is %q", b.Name, e.NetName)
			}
		case c.AmbigPort:
			rep.Count("bootstrap_question_ambiguous_literal", 1)
		default:
			add("dest-host-altered", c.formKey(), "bootstrap server was asked for %q although the configured destination is the IP literal %s", b.Name, expHost(e))
		}
	}

	// (6) the endpoint a hostile server pointed at (phase 3) must not have been contacted
	judgeDecoy(c, cr, own, add)

	// (5) TLS server name, (3) HTTP - judged per connection, and only on
	// connections whose source port belongs to a socket the trace attributes to
	// this case (the proxy's port is private to the case). Whatever else arrives
	// at the listener (a late reconnect of the address' previous user, another
	// case's misdirected connection) is counted and ignored.
	if len(foreignDests(c, e, cr, evs)) > 0 {
		// this case's own connections went somewhere else (reported above as
		// dest-*): what it negotiated there says nothing about names
		rep.Count("cases_names_not_judged_own_connection_misdirected", 1)
		return finishJudge(c, e, res, probs, matched)
	}
	if skipNames[c.ID] {
		// a sibling on the same forward plugin sent its connections somewhere else
		// (reported on that sibling): what arrives here may be the sibling's
		rep.Count("cases_names_not_judged_sibling_misdirected", 1)
		return finishJudge(c, e, res, probs, matched)
	}
	if c.AmbigPort {
		// the written host itself is open to several readings: names are not judged
		rep.Count("ambiguous_literal_cases_tls_names_not_judged", 1)
		return finishJudge(c, e, res, probs, matched)
	}
	mism := ""
	if nameMismatchError(res.ExchErr) && (cr.listening || c.Via == "socks5") {
		mism = "client: " + res.ExchErr
	}
	okHandshakes := 0
	for _, co := range o.Conns {
		sock := "STREAM/"
		if co.Proto == "quic" {
			sock = "DGRAM/"
		}
		if co.Via != "socks5" && !own[sock+strconv.Itoa(co.RemotePort)] {
			rep.Count("foreign_connections_ignored", 1)
			continue
		}
		rep.Count("own_connections_judged", 1)
		rep.Count("own_connections_judged_"+co.Proto+"_"+co.Via, 1)
		if co.Cleartext != "" {
			add("tls-dropped", sniForm, "the connection from this case's source port %d to the configured destination did not start with a TLS record but with a plain-text HTTP request (%s); the configured scheme is %s", co.RemotePort, co.Cleartext, schemeWords(c.Scheme))
			continue
		}
		rep.Count("own_tls_connections_opened_with_a_tls_record", boolN(tlsBased(c.Scheme) && co.Proto == "tcp" && co.HelloSeen))
		if co.HelloSeen {
			if strings.EqualFold(co.SNI, e.SNI) {
				rep.Count("clienthello_sni_equals_expected", 1)
			} else {
				add("sni-altered", sniForm, "ClientHello (from this case's source port %d) carried SNI %q, URL host is %q (expected SNI %q)", co.RemotePort, co.SNI, c.HostText, e.SNI)
			}
		}
		if strings.Contains(co.HandshakeErr, "bad certificate") && mism == "" {
			mism = fmt.Sprintf("server saw on the connection from this case's source port %d: %s", co.RemotePort, co.HandshakeErr)
		}
		if co.HandshakeOK {
			okHandshakes++
		}
		for _, h := range co.HTTP {
			hh, hp := hostOnly(h.Host)
			hostOK := sameHost(hh, c)
			portOK := false
			if hp == "" {
				portOK = c.Port == 0 || c.Port == 443
			} else if n, err := strconv.Atoi(hp); err == nil {
				portOK = n == c.Port || (c.Port == 0 && n == 443)
			}
			if hostOK && portOK {
				rep.Count("http_host_equals_expected", 1)
			} else {
				add("http-host-altered", sniForm, "HTTP Host/:authority was %q, URL host is %q port %d", h.Host, c.HostText, c.Port)
			}
			if h.Path == e.HTTPPath {
				rep.Count("http_path_equals_expected", 1)
			} else {
				add("http-path-altered", sniForm, "HTTP path was %q, written path is %q", h.Path, c.Path)
			}
			if !strings.EqualFold(h.SNI, e.SNI) {
				add("sni-altered", sniForm, "HTTP request arrived on a TLS session with SNI %q, expected %q", h.SNI, e.SNI)
			}
		}
	}
	if mism != "" {
		add("sni-altered", sniForm, "certificate whose only SAN is the URL host %q was refused: the server name used for verification differs from the URL host (%s)", c.HostText, mism)
	}
	if tlsBased(c.Scheme) && okHandshakes > 0 && mism == "" {
		if c.HostKind == "hostname" {
			rep.Count("handshake_ok_dns_san_only", 1)
		} else {
			rep.Count("handshake_ok_ip_san_only", 1)
		}
	}

	return finishJudge(c, e, res, probs, matched)
}

// skipNames: members of forward groups in which some member's connections went to
// a foreign destination.
var skipNames = map[int]bool{}

func schemeWords(s string) string {
	if s == "" {
		return "udp (no scheme written)"
	}
	return s
}

func socksOrigin(c *Case) string {
	if c.Socks5Opt == "global" {
		return "plugin-global socks5 option"
	}
	return "socks5 option of this upstream"
}

// foreignDests lists the kernel-level destinations of a case that are neither
// its expected destination nor its own proxy / bootstrap server.
func foreignDests(c *Case, e Expect, cr *caseRes, evs []destEvent) []netip.AddrPort {
	var socksAP, bootAP netip.AddrPort
	if cr.socksAddr != "" {
		socksAP, _ = netip.ParseAddrPort(cr.socksAddr)
	}
	if cr.bootAddr != "" {
		bootAP, _ = netip.ParseAddrPort(cr.bootAddr)
	}
	var out []netip.AddrPort
next:
	for _, ev := range evs {
		if ev.Dest == bootAP || (c.Via == "socks5" && ev.Dest == socksAP) {
			continue
		}
		if c.Via != "socks5" {
			for _, d := range e.Dests {
				if d == ev.Dest {
					continue next
				}
			}
		}
		out = append(out, ev.Dest)
	}
	return out
}

// localTarget maps a destination to the loopback listener address it can reach
// (the kernel delivers connections to the unspecified address locally).
func localTarget(d netip.AddrPort) (netip.AddrPort, bool) {
	a := d.Addr()
	switch {
	case a.IsLoopback():
		return d, true
	case a == netip.IPv6Unspecified():
		return netip.AddrPortFrom(netip.IPv6Loopback(), d.Port()), true
	case a == netip.IPv4Unspecified():
		return netip.AddrPortFrom(netip.AddrFrom4([4]byte{127, 0, 0, 1}), d.Port()), true
	}
	return d, false
}

// finishJudge: accepted, but the address could never be dialed?
func finishJudge(c *Case, e Expect, res *Result, probs []problem, matched int) ([]problem, int) {
	if matched == 0 && len(probs) == 0 {
		switch {
		case c.AmbigPort:
			rep.Count("ambiguous_literal_accepted_without_observation", 1)
		case res.ExchErr != "" && !benignDialError(res.ExchErr):
			probs = append(probs, problem{"accepted-but-never-dialed", c.formKey(),
				fmt.Sprintf("NewUpstream accepted %q (dial_addr %q) but the exchange failed with %q without any connection attempt to %v", c.Addr, c.DialAddr, res.ExchErr, e.Dests)})
		default:
			rep.Count("accepted_without_any_observation", 1)
		}
	}
	return probs, matched
}

func expHost(e Expect) string {
	if e.NetIsName {
		return e.NetName
	}
	var s []string
	for _, a := range e.NetIPs {
		s = append(s, a.String())
	}
	return strings.Join(s, "|")
}

// ---------------------------------------------------------------------------

func main() {
	if len(os.Args) > 1 && os.Args[1] == "-child" {
		childMain(os.Args[2:])
		return
	}
	rep = evid.New("C18", "exploration")
	rep.SetRule("cases = seed-determined list over {udp,tcp,tcp+pipeline,tls,tls+pipeline,https,h3,quic,no scheme} x 16 host forms " +
		"(IPv4 loopback/doc, bracketed IPv6 compressed/full/zero-run at start/end/v4-mapped/upper-case, bare IPv6, hostname) x " +
		"{no port,1,53,443,853,65535,random} x {no dial_addr, IP, IP:port, bare IPv6, [IPv6]:port, host, host:port} x {path,none} x {direct, SOCKS5, bootstrap v4/v6}; " +
		"scheme x host form cycled systematically, rest drawn from the PRNG; every 7th case carries a port that cannot be honoured " +
		"(65536, 65589, 66389, 70000, 99999, 2^32+53, 2^64+53, empty, non-numeric in the url or dial_addr, negative in dial_addr) and must be rejected; every 11th slot is a sibling group of 2-3 upstreams created in sequence " +
		"(one shared *tls.Config without ServerName and different url hosts / same host name + same bootstrap server and different scheme or port), each member judged on its own expectation. A case is non-trivial when " +
		"it must be rejected and NewUpstream's verdict was observed, or when NewUpstream accepted it and at least one " +
		"destination it produced was positively observed (traced sockaddr on a socket carrying the case's SO_MARK, SOCKS5 CONNECT, bootstrap question) and compared; " +
		"distinct = distinct (addr, dial_addr, proxy/bootstrap mode, option set, position) inputs. " +
		"Phase 2 (option dimension, appended): forward groups = 2-4 upstreams configured on ONE real forward plugin (fastforward.NewForward) and queried through it by tag, " +
		"written scheme x {enable_pipeline, enable_http3, idle_timeout set / unset, also where the scheme ignores them or where they replace the +pipeline / h3 alias} x " +
		"{dial_addr none / 6 forms} x {socks5 none / per-upstream / plugin-global} x {bootstrap none / per-upstream / plugin-global} x {bootstrap_version per-upstream / inherited} x " +
		"{so_mark per-upstream / plugin-global}; one focus option per group follows a non-constant presence pattern over the positions (every order), the rest is drawn per member; " +
		"option singles = the same option variety through upstream.NewUpstream, half of them with a socks5 proxy on a scheme documented to ignore it (udp incl. truncated reply -> TCP retry, quic, h3): " +
		"the proxy is a listening decoy and no traced connect() / CONNECT request of the upstream may reach it. "+
		"Phase 3 (server-behaviour dimension, appended): single upstreams of every scheme (2 of 3 https / h3) x {IPv4 / IPv6 loopback literal, host name via bootstrap} x {port, none} x {dial_addr none / IP / IP:port} x {direct, SOCKS5}, "+
		"4 exchanges in sequence against a harness server that plays one behaviour, cycled per scheme: redirect {301,302,303,307,308} x {other host, other host + other port, IP literal of a decoy listener, same host other port, http:// same authority, http:// decoy, relative path, scheme-relative}, "+
		"Alt-Svc advertising h3 / h2 at another port / the decoy, 421 / 503+Retry-After, connection closed after each reply / without reply / after the handshake / every other TLS handshake refused, other ALPN offers, QUIC Retry; "+
		"a decoy (TCP+TLS, QUIC) listens where the server points. Such a case is non-trivial when the behaviour was actually played and the case's destinations were positively observed; every connection, ClientHello and request that follows is judged like the first, "+
		"nothing from the case's sockets may reach the decoy, and no connection of a TLS based scheme may start in plain text. "+
		"Phase 4 (history dimension, appended; in-process, listeners as observers): host-name upstreams {tls,tls+pipeline,https,quic,h3} x {url host, dial_addr host, dial_addr host:port} x bootstrap_version {0,4,6 (AAAA, v4-mapped)} x served ttl, "+
		"whose bootstrap server answers successive resolutions with 4 different loopback addresses (same port, listener on each); 3 refreshes are made due through the bootstrap.tryupdate schedule point; "+
		"queries that start after the bootstrap server sent a refresh answer must settle (3 consecutive connection-producing queries out of at most 24) on the newest address handed out, SNI unchanged; a step is non-trivial when connections were observed at the newest address after a refresh")
	rep.Assume("strace reports the sockaddr arguments of connect/sendto/sendmsg/sendmmsg faithfully; SO_MARK set through Opt.SoMark labels every socket mosdns opens for a case")
	rep.Assume("Go's crypto/tls and net/http, quic-go, x/net/proxy and miekg/dns behave as documented (harness servers are built on them)")
	rep.Assume("a context of 300 ms (unreachable destinations) / 1.5 s (loopback) only bounds how long a case is watched; no verdict depends on elapsed time")

	var cases []*Case
	var refreshCases []*RefreshCase
	if rep.ReplayFile != "" {
		var rw struct {
			Refresh *RefreshCase `json:"refresh_case"`
		}
		if err := rep.LoadReplay(&rw); err == nil && rw.Refresh != nil {
			// a case of the refresh phase: nothing else is re-executed
			outs := runRefreshPhase([]*RefreshCase{rw.Refresh})
			reportRefreshPhase([]*RefreshCase{rw.Refresh}, outs, true)
			rep.Finish()
		}
		var w struct {
			Case     *Case   `json:"case"`
			Siblings []*Case `json:"sibling_group"`
		}
		if err := rep.LoadReplay(&w); err != nil || w.Case == nil {
			rep.Inconclusive("cannot load replay file: %v", err)
			rep.Finish()
		}
		if len(w.Siblings) > 0 {
			for k, m := range w.Siblings {
				m.ID, m.Group = k, 0
			}
			cases = w.Siblings
		} else {
			w.Case.ID = 0
			cases = []*Case{w.Case}
		}
	} else {
		cases = genCases(rep.Seed, rep.Pick(1600, 30000))
		cases = append(cases, genOptionPhase(rep.Seed, len(cases), rep.Pick(120, 2400), rep.Pick(60, 1200))...)
		cases = append(cases, genHostilePhase(rep.Seed, len(cases), rep.Pick(180, 3600))...)
		refreshCases = genRefreshCases(rep.Seed, rep.Thorough())
	}

	tmp := os.Getenv("VERIF_TMP")
	if tmp == "" {
		d, err := os.MkdirTemp("", "verif-c18-")
		if err != nil {
			rep.Inconclusive("tmp dir: %v", err)
			rep.Finish()
		}
		tmp = d
		defer os.RemoveAll(d)
	}
	// unix socket paths are limited to ~100 bytes
	if len(tmp) > 60 {
		d, err := os.MkdirTemp("", "vc18-")
		if err == nil {
			tmp = d
			defer os.RemoveAll(d)
		}
	}

	ca, err := newAuthority()
	if err != nil {
		rep.Inconclusive("harness CA: %v", err)
		rep.Finish()
	}
	// schedule: cases whose DoH transport is known to keep redialing after Close
	// (https / h3 with an ambiguous bare-IPv6:port url) go last, so that their
	// late connections cannot meet any other case's listener
	var first, last [][]*Case
	for i := 0; i < len(cases); {
		c := cases[i]
		unit := []*Case{c}
		if c.GroupKind != "" {
			for j := i + 1; j < len(cases) && cases[j].GroupKind == c.GroupKind && cases[j].Group == c.Group; j++ {
				unit = append(unit, cases[j])
			}
		}
		i += len(unit)
		if (c.Scheme == "https" || c.Scheme == "h3") && c.AmbigPort && len(lockKeys(c, c.expect())) > 0 {
			last = append(last, unit)
		} else {
			first = append(first, unit)
		}
	}
	p := &parent{ca: ca, cases: cases, pending: append(first, last...), busy: map[string]bool{},
		running: map[int]*caseRes{}, finished: map[int]*caseRes{}, results: map[int]*Result{}, groups: map[int]*groupRes{}}
	p.cond = sync.NewCond(&p.mu)

	// phase 4 (bootstrap refresh history) runs in this process, beside the traced child
	refreshDone := make(chan []*refreshOutcome, 1)
	if len(refreshCases) > 0 {
		go func() { refreshDone <- runRefreshPhase(refreshCases) }()
	}
	tr, childErrTxt, runErr := p.runTraced(tmp, time.Duration(rep.Pick(8, 40))*time.Minute)
	if tmp != os.Getenv("VERIF_TMP") {
		os.RemoveAll(tmp)
	}
	if runErr != nil {
		rep.Inconclusive("traced child: %v; stderr tail: %s", runErr, childErrTxt)
	}
	if tr == nil {
		rep.Finish()
	}

	evaluate(p, tr)
	if len(refreshCases) > 0 {
		reportRefreshPhase(refreshCases, <-refreshDone, false)
	}
	rep.Finish()
}

func evaluate(p *parent, tr *traceResult) {
	cases := p.cases
	allCases = cases
	rep.Count("shared_loopback_ports_drained_6s_after_unfinished_doh", int64(p.drains))
	rep.Count("strace_lines", int64(tr.Lines))
	rep.Count("strace_sockets_created", int64(tr.Sockets))
	rep.Count("strace_so_mark_labels", int64(tr.Marks))
	rep.Count("strace_local_ports_of_case_sockets", int64(tr.LocalSeen))
	rep.Count("strace_inet_destinations", int64(len(tr.Events)))
	rep.Count("strace_non_inet_destinations_ignored", int64(tr.NonInet))
	for k, v := range tr.BySyscall {
		rep.Count("strace_dest_via_"+k, int64(v))
	}
	rep.Count("strace_case_begin_markers", int64(len(tr.Begins)))
	rep.Count("strace_case_end_markers", int64(len(tr.Ends)))
	if len(tr.ParseErrs) > 0 {
		rep.Inconclusive("%d trace lines with an inet sockaddr could not be parsed, e.g. %s", len(tr.ParseErrs), tr.ParseErrs[0])
	}

	// attribute trace events
	byCase := map[int][]destEvent{}
	bootAddrs := map[netip.AddrPort]int{}
	socksAddrs := map[netip.AddrPort]int{}
	for id, cr := range p.finished {
		if ap, err := netip.ParseAddrPort(cr.bootAddr); err == nil {
			bootAddrs[ap] = id
		}
		if ap, err := netip.ParseAddrPort(cr.socksAddr); err == nil {
			socksAddrs[ap] = id
		}
	}
	var unattributed []destEvent
	for _, ev := range tr.Events {
		if _, ok := bootAddrs[ev.Dest]; ok {
			rep.Count("trace_dest_is_bootstrap_server", 1)
			continue
		}
		if ev.Mark > 0 && ev.Mark-1 < len(cases) {
			byCase[ev.Mark-1] = append(byCase[ev.Mark-1], ev)
			rep.Count("trace_dest_attributed_by_so_mark", 1)
			rep.SetAdd("socket_kinds", ev.Syscall+"/"+ev.Sock)
			continue
		}
		if ev.Mark >= groupMarkBase {
			// a socket carrying the plugin-global so_mark of a forward group
			if id, ok := resolveGroupMark(p, ev.Mark-groupMarkBase, ev.Dest, ev.Sock); ok {
				byCase[id] = append(byCase[id], ev)
				rep.Count("trace_dest_attributed_by_plugin_global_so_mark", 1)
				continue
			}
		}
		if id, ok := socksAddrs[ev.Dest]; ok {
			byCase[id] = append(byCase[id], ev)
			continue
		}
		unattributed = append(unattributed, ev)
	}
	if len(unattributed) > 0 {
		n := len(unattributed)
		if n > 5 {
			unattributed = unattributed[:5]
		}
		b, _ := json.Marshal(unattributed)
		rep.Extra("unattributed_destinations", json.RawMessage(b))
		rep.Inconclusive("%d traced destinations on sockets without a case label (first: %s -> %s, cases active then: %v)", n, unattributed[0].Syscall, unattributed[0].Dest, unattributed[0].Window)
	}

	extraProbs := preJudge(p, tr)

	// loopback addresses that received a misdirected connection of some case
	polluted := map[netip.AddrPort]bool{}
	for _, c := range cases {
		res, cr := p.results[c.ID], p.finished[c.ID]
		if res == nil || cr == nil || res.NewErr != "" {
			continue
		}
		fd := foreignDests(c, cr.exp, cr, byCase[c.ID])
		for _, d := range fd {
			if t, ok := localTarget(d); ok {
				polluted[t] = true
			}
		}
		if len(fd) > 0 && c.GroupKind == "forward" {
			for _, m := range cases {
				if m.GroupKind == "forward" && m.Group == c.Group && m.ID != c.ID {
					skipNames[m.ID] = true
				}
			}
		}
	}
	rep.Count("loopback_addresses_hit_by_misdirected_connections", int64(len(polluted)))
	// connections of OTHER cases that arrived at a case's listen address while its
	// listeners could exist - e.g. a DoH request keeps running (and redialing) for
	// up to 6 s after Close and then meets the next case listening on [::1]:853
	byTarget := map[netip.AddrPort][]destEvent{}
	for _, ev := range tr.Events {
		if t, ok := localTarget(ev.Dest); ok {
			byTarget[t] = append(byTarget[t], ev)
		}
	}
	visited := map[int]bool{}
	for _, c := range cases {
		cr := p.finished[c.ID]
		if cr == nil || c.Via == "socks5" || !cr.exp.Reachable {
			continue
		}
		open, okO := tr.Open[c.ID]
		shut, okS := tr.Shut[c.ID]
		if !okO || !okS {
			continue
		}
		for _, ev := range byTarget[cr.exp.Listen] {
			if ev.Mark != markOf(c) && ev.Line >= open && ev.Line <= shut {
				visited[c.ID] = true
				if ev.Mark > 0 && ev.Mark-1 < len(cases) {
					v := cases[ev.Mark-1]
					late := ev.Line > tr.Ends[v.ID] && tr.Ends[v.ID] > 0
					rep.SetAdd("visitors", fmt.Sprintf("%q dial_addr %q -> %s (after its own END marker: %v)", v.Addr, v.DialAddr, ev.Dest, late))
				}
				break
			}
		}
	}
	rep.Count("cases_visited_by_another_cases_connection", int64(len(visited)))

	accepted, rejected, nontrivial := 0, 0, 0
	sampled := map[string]bool{}
	for _, c := range cases {
		res := p.results[c.ID]
		cr := p.finished[c.ID]
		if res == nil || cr == nil {
			rep.Count("cases_not_executed", 1)
			continue
		}
		rep.Eval(1)
		e := cr.exp
		sn := schemeName(c.Scheme)
		if _, ok := tr.Begins[c.ID]; !ok {
			rep.Count("cases_without_trace_marker", 1)
		}
		if res.Hang != "" {
			rep.Count("cases_hung", 1)
			rep.Inconclusive("case %d (%q): %s", c.ID, c.Addr, res.Hang)
			continue
		}
		if cr.listenErr != "" {
			rep.Count("harness_listen_failures", 1)
			rep.SetAdd("listen_errors", cr.listenErr)
		}
		if c.unhonourable() {
			// the only allowed outcome is rejection by NewUpstream
			what := c.BadWhere + "-" + c.BadKind
			if res.NewErr != "" {
				rejected++
				rep.Count("unhonourable_address_rejected", 1)
				rep.SetAdd("unhonourable_classes_rejected", sn+" "+what+" "+c.hostKey())
				rep.Nontrivial(c.Addr + "|" + c.DialAddr + "|" + c.Via + "|" + strconv.Itoa(c.BootVer))
				nontrivial++
				if !sampled["unhonourable"] && rep.WantSample() {
					sampled["unhonourable"] = true
					rep.Sample(witness{Case: c, Expected: map[string]any{"must_be_rejected": true}, Result: res, Observed: &cr.obs})
				}
				continue
			}
			accepted++
			rep.Count("unhonourable_address_accepted", 1)
			evs := byCase[c.ID]
			var went []string
			for _, ev := range evs {
				if s := fmt.Sprintf("%s(%s) -> %s", ev.Syscall, ev.Sock, ev.Dest); len(went) < 6 && !containsStr(went, s) {
					went = append(went, s)
				}
			}
			for _, so := range cr.obs.Socks {
				if s := fmt.Sprintf("SOCKS5 CONNECT %s port %d", so.Host, so.Port); len(went) < 6 && !containsStr(went, s) {
					went = append(went, s)
				}
			}
			if len(evs) > 12 {
				evs = evs[:12]
			}
			w := witness{Case: c, Expected: map[string]any{"must_be_rejected": true, "bootstrap_server": cr.bootAddr, "socks5_proxy": cr.socksAddr},
				Result: res, Observed: &cr.obs, Trace: evs,
				Problems: []string{fmt.Sprintf("port %q written in %s cannot be honoured, yet NewUpstream accepted the address; traffic went to %v", c.BadPort, c.BadWhere, went)}}
			rep.Violation("accepted-although-unhonourable-"+sn+"-"+what,
				fmt.Sprintf("addr %q dial_addr %q: the port %q (%s) cannot be honoured but NewUpstream accepted the address; observed destinations: %v (exchange: ok=%v err=%q)",
					c.Addr, c.DialAddr, c.BadPort, c.BadWhere, went, res.ReplyOK, res.ExchErr), w)
			continue
		}
		if res.NewErr != "" {
			rejected++
			rep.Count("rejected_by_NewUpstream", 1)
			rep.SetAdd("rejected_forms", sn+" "+c.hostKey()+" dial="+c.DialKind)
			continue
		}
		accepted++
		rep.Count("accepted_"+sn, 1)
		o := &cr.obs
		rep.Count("listener_udp_datagrams", int64(o.UDPDatagrams))
		rep.Count("listener_tcp_accepts", int64(o.TCPAccepts))
		rep.Count("listener_dns_queries_of_case", int64(o.DNSQueries))
		rep.Count("listener_tls_clienthellos", int64(len(o.TLSHellos)))
		rep.Count("listener_quic_clienthellos", int64(len(o.QUICHellos)))
		rep.Count("listener_handshakes_ok", int64(o.HandshakesOK))
		rep.Count("listener_http_requests", int64(len(o.HTTP)))
		rep.Count("socks5_connects", int64(len(o.Socks)))
		rep.Count("bootstrap_questions", int64(len(o.Boot)))
		if res.ReplyOK {
			rep.Count("exchanges_answered", 1)
		}
		if n := int64(len(o.TLSHellos) + len(o.QUICHellos) + len(o.Socks) + o.TCPAccepts); c.AmbigPort {
			rep.Max("max_connections_seen_in_one_ambiguous_literal_case", n)
		} else {
			rep.Max("max_connections_seen_in_one_unambiguous_case", n)
		}
		if e.Reachable && cr.listening && !res.ReplyOK && c.Srv != "" {
			rep.Count("hostile_cases_never_answered_by_design_or_refusal", 1)
		} else if e.Reachable && cr.listening && !res.ReplyOK {
			rep.Count("reachable_but_unanswered", 1)
			rep.SetAdd("reachable_unanswered_errors", trunc(res.ExchErr, 90))
			rep.SetAdd("reachable_unanswered_cases", fmt.Sprintf("%s dial=%q via=%s tc=%v: %s", c.Addr, c.DialAddr, c.Via, c.TC, trunc(res.ExchErr, 60)))
		}
		probs, matched := judge(c, e, res, cr, byCase[c.ID], tr.Own[markOf(c)])
		probs = append(probs, extraProbs[c.ID]...)
		optionEvidence(c, res, cr, len(probs) == 0 && matched > 0)
		hostileEvidence(c, res, cr, len(probs) == 0 && matched > 0)
		evs := byCase[c.ID]
		if len(evs) > 12 {
			evs = evs[:12]
		}
		w := witness{Case: c, Expected: expSummary(c, e, cr), Result: res, Observed: o, Trace: evs}
		if c.GroupKind != "" {
			for _, m := range cases {
				if m.GroupKind == c.GroupKind && m.Group == c.Group {
					w.Siblings = append(w.Siblings, m)
				}
			}
			if c.Order > 0 {
				rep.Count("sibling_"+c.GroupKind+"_later_members_judged", 1)
			}
		}
		if len(probs) > 0 {
			for _, pr := range probs {
				w.Problems = append(w.Problems, pr.class+": "+pr.text)
			}
			seen := map[string]bool{}
			for _, pr := range probs {
				key := pr.class + "-" + sn + "-" + pr.form + c.siblingSuffix()
				if c.GroupKind == "forward" || pr.class == "dest-redirected-to-ignored-socks5" {
					// the failing dimension is the option set / the position on the
					// plugin, not the written form of the address
					key = pr.class + "-" + sn + c.siblingSuffix()
					if c.GroupKind == "forward" && pr.class != "dest-redirected-to-ignored-socks5" {
						key = pr.class + c.siblingSuffix()
					}
				}
				what := fmt.Sprintf("addr %q dial_addr %q: %s", c.Addr, c.DialAddr, pr.text)
				if c.Srv != "" {
					// the failing dimension is what the server did, not the written form
					key = pr.class + "-" + sn + "-server-" + c.Srv
					what = fmt.Sprintf("addr %q dial_addr %q, %d exchanges against a server playing %q (%v): %s", c.Addr, c.DialAddr, c.Exchanges, c.srvFP(), hostileSamples(cr), pr.text)
				}
				if seen[key] {
					continue
				}
				seen[key] = true
				rep.Violation(key, what, w)
			}
			continue
		}
		if matched > 0 {
			nontrivial++
			rep.Nontrivial(c.Addr + "|" + c.DialAddr + "|" + c.Via + "|" + strconv.Itoa(c.BootVer) + "|" + c.optFP() + "|" + c.Focus + "#" + strconv.Itoa(c.Order) + c.srvFP())
			rep.SetAdd("classes_observed", c.classFP())
			rep.SetAdd("scheme_x_hostform_observed", sn+" "+c.HostClass)
			k := sn + "/" + c.Via
			if c.Srv != "" {
				k = "server/" + c.Srv
			}
			if !sampled[k] && (res.ReplyOK || len(sampled) < 3) && rep.WantSample() {
				sampled[k] = true
				rep.Sample(w)
			}
		}
	}
	rep.Count("cases_accepted", int64(accepted))
	rep.Count("cases_rejected", int64(rejected))
	rep.Count("cases_nontrivial", int64(nontrivial))

	// a monitor that saw nothing decides nothing
	if rep.ReplayFile == "" {
		need := []string{"strace_inet_destinations", "trace_dest_attributed_by_so_mark", "socks5_connects", "bootstrap_questions",
			"listener_udp_datagrams", "listener_tcp_accepts", "listener_tls_clienthellos", "listener_quic_clienthellos",
			"listener_http_requests", "own_connections_judged", "sibling_shared-tlsconfig_later_members_judged",
			"sibling_forward_later_members_judged", "forward_members_observed", "forward_members_option_absent_after_sibling_with_option",
			"forward_members_inheriting_plugin_global_option_observed", "option_singles_observed",
			"ignored_socks5_upstreams_observed_going_direct", "ignored_socks5_udp_tcp_fallback_observed_direct",
			"alias_through_option_upstreams_observed", "trace_dest_attributed_by_plugin_global_so_mark", "bootstrap_questions_at_plugin_global_server", "sibling_same-host_later_members_judged", "unhonourable_address_rejected", "handshake_ok_ip_san_only", "handshake_ok_dns_san_only", "clienthello_sni_equals_expected",
			"hostile_cases_observed_redirect", "hostile_cases_observed_alt-svc", "hostile_cases_observed_misdirected", "hostile_cases_observed_conn-close",
			"hostile_cases_observed_alpn", "hostile_cases_observed_quic-retry", "hostile_arrivals_after_first_hostile_act_judged",
			"hostile_cases_with_reconnect_observed", "hostile_decoy_listeners_open", "own_tls_connections_opened_with_a_tls_record"}
		sort.Strings(need)
		for _, k := range need {
			if rep.Get(k) == 0 {
				rep.Inconclusive("monitor counter %s is zero", k)
			}
		}
		if len(tr.Begins) != int(rep.Get("cases_not_executed"))*0+len(p.results) {
			rep.Inconclusive("trace has %d BEGIN markers for %d executed cases", len(tr.Begins), len(p.results))
		}
		if nontrivial*3 < len(cases) {
			rep.Inconclusive("only %d of %d cases were accepted and observed", nontrivial, len(cases))
		}
		if n := rep.Get("accepted_without_any_observation"); n*20 > int64(accepted) {
			rep.Inconclusive("%d accepted cases produced no observation at all", n)
		}
		if n := rep.Get("cases_not_executed"); n > 0 {
			rep.Inconclusive("%d cases were not executed", n)
		}
		if n := rep.Get("harness_listen_failures"); n*10 > int64(len(cases)) {
			rep.Inconclusive("%d harness listeners could not be opened", n)
		}
	} else if len(p.results) == 0 {
		rep.Inconclusive("replayed case was not executed")
	}
}

func boolN(b bool) int64 {
	if b {
		return 1
	}
	return 0
}

func hostileSamples(cr *caseRes) []string {
	if cr == nil || cr.obs.Hostile == nil {
		return nil
	}
	s := cr.obs.Hostile.Samples
	if len(s) > 2 {
		s = s[:2]
	}
	return s
}

func containsStr(l []string, s string) bool {
	for _, x := range l {
		if x == s {
			return true
		}
	}
	return false
}

func trunc(s string, n int) string {
	if len(s) > n {
		return s[:n]
	}
	return s
}
