//go:build verif

package main

import (
	"sync"
	"sync/atomic"
	"time"

	"github.com/IrineSistiana/mosdns/v5/pkg/verifhook"
)

// "The refresh interval has elapsed": armRefresh raises a generation counter;
// the next tryUpdate of every Bootstrap object that has not yet refreshed in
// this generation finds its nextUpdate in the past (one shot per object and
// generation, so ordinary dials do not refresh).
var (
	refreshGen  atomic.Int64
	refreshSeen sync.Map // *time.Time -> generation already served
)

func armRefresh() { refreshGen.Add(1) }

func installRefreshHook() bool {
	verifhook.Set(func(name string, arg any) {
		if name != "bootstrap.tryupdate" {
			return
		}
		p, ok := arg.(*time.Time)
		if !ok || p == nil {
			return
		}
		g := refreshGen.Load()
		last, _ := refreshSeen.Load(p)
		if l, _ := last.(int64); l < g {
			refreshSeen.Store(p, g)
			*p = time.Time{} // the code holds the `updating` flag here
		}
	})
	return true
}
