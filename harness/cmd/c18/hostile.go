package main

// Server-behaviour dimension ("phase 3").
//
// Phases 1 and 2 vary what the USER writes; the servers they talk to are well
// behaved. Phase 3 keeps the configuration simple (every scheme, IP literal or
// host name, with / without port, dial_addr, bootstrap, SOCKS5) and varies what
// the SERVER at the configured destination does, over several exchanges made in
// sequence on the one upstream. Nothing a server says or does may move the
// upstream's connections, TLS server names or HTTP authorities away from what the
// user wrote:
//
//   redirect     https / h3: the DoH request is answered 301/302/303/307/308 with a
//                Location naming another host (same port / another port), an IP
//                literal where a decoy listens, the same host on another port, the
//                same authority or the decoy under http://, a relative path, or a
//                scheme-relative reference; whoever comes back under another name is
//                served normally
//   alt-svc      https / h3: every 200 answer advertises another endpoint
//                (Alt-Svc: h3 / h2 on another port / at the decoy)
//   misdirected  https / h3: the first requests are refused with 421 Misdirected
//                Request or 503 + Retry-After, later ones are answered
//   conn-close   every stream scheme: the server closes the connection after each
//                reply, without a reply, right after the handshake, or refuses every
//                other TLS handshake, so that the upstream has to reconnect
//                (udp: the TCP side of the truncated-reply retry closes)
//   alpn         https: the TLS server offers only http/1.1, only h2, or no ALPN;
//                h3 / quic: it offers only another protocol (handshake fails, the
//                upstream redials)
//   quic-retry   h3 / quic: the server demands address validation (Retry packet)
//
// A decoy listener (TCP+TLS and QUIC, certificate valid for the "other" names)
// stands where the redirect / Alt-Svc points and records every connection, TLS
// server name and HTTP authority it receives. The oracle is the unchanged one of
// phase 1 - every traced destination, every ClientHello SNI, every HTTP
// Host/:authority and path of every connection of the case, first or follow-up,
// equals the expectation derived from the structured case - plus: nothing from
// the case's sockets arrives at the decoy, and no connection of a TLS based
// scheme starts in plain text.
//
// Not reachable here: bootstrap answers that change between lookups (the
// resolver re-asks no earlier than 5 minutes after a successful lookup).

import (
	"bufio"
	"bytes"
	"context"
	"crypto/tls"
	"encoding/base64"
	"fmt"
	"io"
	"math/rand"
	"net"
	"net/http"
	"net/netip"
	"strconv"
	"strings"
	"time"

	"github.com/quic-go/quic-go"
	"github.com/quic-go/quic-go/http3"
	"golang.org/x/net/http2"
)

const hostileExchanges = 4

var redirectStatuses = []int{307, 301, 308, 302, 303}

var redirectTargets = []string{"other-host", "other-host-other-port", "decoy-ip", "same-host-other-port",
	"http-same-authority", "http-decoy-ip", "relative-path", "scheme-relative"}

type srvSpec struct {
	class, variant string
	status         int
}

// srvSpecs: every behaviour a server of that scheme can play.
func srvSpecs(scheme string) []srvSpec {
	var s []srvSpec
	switch scheme {
	case "https", "h3":
		for _, t := range redirectTargets {
			s = append(s, srvSpec{"redirect", t, 0}) // the status rotates independently
		}
		s = append(s, srvSpec{"alt-svc", "h3-other-port", 0}, srvSpec{"alt-svc", "h3-other-host", 0}, srvSpec{"alt-svc", "h2-other-host", 0},
			srvSpec{"misdirected", "421", 421}, srvSpec{"misdirected", "503-retry-after", 503},
			srvSpec{"conn-close", "reply-then-close", 0}, srvSpec{"conn-close", "close-without-reply", 0})
		if scheme == "https" {
			s = append(s, srvSpec{"alpn", "http/1.1-only", 0}, srvSpec{"alpn", "no-alpn", 0}, srvSpec{"alpn", "h2-only", 0},
				srvSpec{"conn-close", "close-after-handshake", 0}, srvSpec{"conn-close", "handshake-refused", 0})
		} else {
			s = append(s, srvSpec{"alpn", "other-alpn-only", 0}, srvSpec{"quic-retry", "retry", 0})
		}
	case "tls", "tls+pipeline":
		s = append(s, srvSpec{"conn-close", "reply-then-close", 0}, srvSpec{"conn-close", "close-without-reply", 0},
			srvSpec{"conn-close", "close-after-handshake", 0}, srvSpec{"conn-close", "handshake-refused", 0})
	case "quic":
		s = append(s, srvSpec{"conn-close", "reply-then-close", 0}, srvSpec{"conn-close", "close-without-reply", 0},
			srvSpec{"conn-close", "close-after-handshake", 0}, srvSpec{"alpn", "other-alpn-only", 0}, srvSpec{"quic-retry", "retry", 0})
	default: // tcp, tcp+pipeline, udp (TCP retry after a truncated reply)
		s = append(s, srvSpec{"conn-close", "reply-then-close", 0}, srvSpec{"conn-close", "close-without-reply", 0})
	}
	return s
}

func (c *Case) srvFP() string {
	if c.Srv == "" {
		return ""
	}
	s := c.Srv + "/" + c.SrvVariant
	if c.Srv == "redirect" {
		s += "/" + strconv.Itoa(c.SrvStatus)
	}
	return s
}

// genHostilePhase appends the phase-3 cases. Two of three are https / h3 upstreams
// (alternating), the third cycles through the stream schemes; per scheme the
// behaviours are cycled systematically (seed-dependent start), the redirect status
// rotates on its own so that target x status pairs differ between rounds; host form,
// port, dial_addr, proxy and bootstrap are drawn from the PRNG among the forms the
// harness can listen at.
func genHostilePhase(seed int64, first, n int) []*Case {
	r := rand.New(rand.NewSource(seed*104729 + 18))
	httpSchemes := []string{"https", "h3"}
	streamSchemes := []string{"tls", "tcp", "quic", "tls+pipeline", "udp", "tcp+pipeline", "quic", "tls"}
	cursor := map[string]int{}
	for _, s := range append(append([]string{}, httpSchemes...), streamSchemes...) {
		if _, ok := cursor[s]; !ok {
			cursor[s] = r.Intn(len(srvSpecs(s)))
		}
	}
	statusCur := r.Intn(len(redirectStatuses))
	hosts := []string{"v4-loopback", "hostname", "hostname", "hostname-mixedcase", "b6-mapped-loopback", "b6-loopback", "v4-loopback", "hostname"}
	var out []*Case
	for i := 0; i < n; i++ {
		id := first + i
		var scheme string
		if i%3 != 2 {
			scheme = httpSchemes[(i-i/3)%2]
		} else {
			scheme = streamSchemes[(i/3)%len(streamSchemes)]
		}
		specs := srvSpecs(scheme)
		sp := specs[cursor[scheme]%len(specs)]
		cursor[scheme]++
		if sp.class == "redirect" {
			sp.status = redirectStatuses[statusCur%len(redirectStatuses)]
			statusCur++
		}
		c := &Case{}
		for try := 0; ; try++ {
			*c = Case{ID: id, Scheme: scheme, Srv: sp.class, SrvVariant: sp.variant, SrvStatus: sp.status, Exchanges: hostileExchanges}
			c.HostClass = hosts[r.Intn(len(hosts))]
			if tlsBased(scheme) && r.Intn(4) == 0 {
				c.HostClass = "hostname" // TLS names are visible with host names only
			}
			c.PortClass = []string{"none", "random", "random", "443", "853"}[r.Intn(5)]
			c.DialKind = []string{"none", "none", "ip", "ip-port"}[r.Intn(4)]
			if try >= 8 {
				c.HostClass, c.DialKind = "v4-loopback", "none"
			}
			if c.HostClass == "b6-loopback" {
				c.PortClass = "random"
			}
			if !tlsBased(scheme) && strings.HasPrefix(c.HostClass, "hostname") && c.DialKind == "none" {
				c.HostClass = "v4-loopback" // udp / tcp need an IP at the network layer
			}
			fill(r, c)
			if scheme == "udp" {
				c.TC = true // the behaviour is played on the TCP retry
			}
			if e := c.expect(); e.Reachable {
				break
			}
		}
		out = append(out, c)
	}
	return out
}

// ---------------------------------------------------------------------------
// what the hostile servers record
// ---------------------------------------------------------------------------

type decoyObs struct {
	Proto      string `json:"proto"` // tcp | quic
	RemotePort int    `json:"remote_port"`
	SNI        string `json:"sni,omitempty"`
	Host       string `json:"http_host,omitempty"`
	Path       string `json:"http_path,omitempty"`
	Cleartext  bool   `json:"cleartext,omitempty"`
	DNSQuery   bool   `json:"carried_the_dns_query,omitempty"`
}

type hostileObs struct {
	Played  int      `json:"hostile_acts_played"`
	Samples []string `json:"played_samples,omitempty"`
	// FollowUps: connections / ClientHellos / requests that arrived at the case's
	// own servers after the first hostile act (all of them are judged)
	FollowUps int        `json:"arrivals_after_first_hostile_act"`
	DecoyAddr string     `json:"decoy_listener,omitempty"`
	DecoyErr  string     `json:"decoy_listen_error,omitempty"`
	Decoy     []decoyObs `json:"decoy_listener_saw,omitempty"`
}

func (cr *caseRes) played(what string) {
	cr.note(func(o *Obs) {
		if o.Hostile == nil {
			return
		}
		o.Hostile.Played++
		if len(o.Hostile.Samples) < 4 {
			o.Hostile.Samples = append(o.Hostile.Samples, what)
		}
	})
}

func (cr *caseRes) arrival() {
	cr.note(func(o *Obs) {
		if o.Hostile != nil && o.Hostile.Played > 0 {
			o.Hostile.FollowUps++
		}
	})
}

func (cr *caseRes) nextSeq(p *int) int {
	cr.mu.Lock()
	defer cr.mu.Unlock()
	n := *p
	*p = n + 1
	return n
}

func (cr *caseRes) demandRetry(net.Addr) bool {
	cr.played("QUIC Retry demanded (address validation)")
	return true
}

// decoyAddr: where the "other endpoint" of a case listens - a loopback address
// and a port no part of the case's configuration names.
func decoyAddr(c *Case) netip.AddrPort {
	e := c.expect()
	port := casePort(c.ID, 1)
	for port == e.NetPort || port == c.Port || port == c.DialPort || port == e.AltPort {
		port++
	}
	return netip.AddrPortFrom(loop4(c.ID, 3), uint16(port))
}

func movedHost(c *Case) string { return fmt.Sprintf("moved-c%d.elsewhere.test", c.ID) }

// ---------------------------------------------------------------------------
// plain text where TLS is due
// ---------------------------------------------------------------------------

type sniffedConn struct {
	net.Conn
	r *bufio.Reader
}

func (s *sniffedConn) Read(p []byte) (int, error) { return s.r.Read(p) }

// sniffCleartext looks at the first byte of a connection that has to start with
// a TLS record. If it starts like an HTTP/1 request (or the HTTP/2 preface) the
// request line and Host header are returned.
func sniffCleartext(c net.Conn) (net.Conn, string) {
	br := bufio.NewReaderSize(c, 4096)
	sc := &sniffedConn{Conn: c, r: br}
	b, err := br.Peek(1)
	if err != nil || b[0] < 'A' || b[0] > 'Z' {
		return sc, ""
	}
	var lines []string
	for len(lines) < 12 {
		l, err := br.ReadString('\n')
		l = strings.TrimRight(l, "\r\n")
		if l == "" {
			break
		}
		if len(lines) == 0 || strings.HasPrefix(strings.ToLower(l), "host:") {
			if len(l) > 160 {
				l = l[:160]
			}
			lines = append(lines, l)
		}
		if err != nil {
			break
		}
	}
	if len(lines) == 0 {
		lines = []string{"(plain text, unreadable)"}
	}
	return sc, strings.Join(lines, " | ")
}

// ---------------------------------------------------------------------------
// TLS level
// ---------------------------------------------------------------------------

// hostileTLS adjusts the TLS server config of one accepted connection; refuse:
// the handshake is to be aborted after the ClientHello.
func (cr *caseRes) hostileTLS(cfg *tls.Config, co *connObs) (refuse bool) {
	c := cr.c
	switch {
	case c.Srv == "alpn" && c.Scheme == "https":
		switch c.SrvVariant {
		case "http/1.1-only":
			cfg.NextProtos = []string{"http/1.1"}
		case "no-alpn":
			cfg.NextProtos = nil
		case "h2-only":
			cfg.NextProtos = []string{"h2"}
		}
		cr.played(fmt.Sprintf("TLS server offers ALPN %v", cfg.NextProtos))
	case c.Srv == "conn-close" && c.SrvVariant == "handshake-refused":
		return co.Seq%2 == 0
	}
	return false
}

// ---------------------------------------------------------------------------
// HTTP level
// ---------------------------------------------------------------------------

type connTag struct {
	seq   int
	reqs  int
	close func()
}

type connTagKey struct{}

func (cr *caseRes) tagTCPConn(ctx context.Context, c net.Conn) context.Context {
	return context.WithValue(ctx, connTagKey{}, &connTag{seq: cr.nextSeq(&cr.seqHTTP), close: func() { _ = c.Close() }})
}

func (cr *caseRes) tagQUICConn(ctx context.Context, c quic.Connection) context.Context {
	return context.WithValue(ctx, connTagKey{}, &connTag{seq: cr.nextSeq(&cr.seqQUIC), close: func() { _ = c.CloseWithError(quic.ApplicationErrorCode(0x100), "") }})
}

// firstHop: the request is the one the configuration describes (authority, path
// and TLS name as written) - not one that follows something the server said.
func (cr *caseRes) firstHop(r *http.Request) bool {
	c, e := cr.c, cr.exp
	hh, hp := hostOnly(r.Host)
	if !sameHost(hh, c) || r.URL.Path != e.HTTPPath {
		return false
	}
	if hp == "" {
		if c.Port != 0 && c.Port != 443 {
			return false
		}
	} else if n, err := strconv.Atoi(hp); err != nil || !(n == c.Port || (c.Port == 0 && n == 443)) {
		return false
	}
	return r.TLS == nil || strings.EqualFold(r.TLS.ServerName, e.SNI)
}

func (cr *caseRes) urlAuthorityHost() string {
	c := cr.c
	if c.HostKind == "ipv6" {
		return "[" + c.HostText + "]"
	}
	return c.HostText
}

func (cr *caseRes) redirectLocation(r *http.Request) string {
	c := cr.c
	d := decoyAddr(c)
	dport := strconv.Itoa(int(d.Port()))
	q := ""
	if r.URL.RawQuery != "" {
		q = "?" + r.URL.RawQuery
	}
	path := r.URL.Path
	portSfx := ""
	if c.Port != 0 {
		portSfx = ":" + strconv.Itoa(c.Port)
	}
	switch c.SrvVariant {
	case "other-host":
		return "https://" + movedHost(c) + portSfx + path + q
	case "other-host-other-port":
		return "https://" + movedHost(c) + ":" + dport + path + q
	case "decoy-ip":
		return "https://" + d.String() + path + q
	case "same-host-other-port":
		return "https://" + cr.urlAuthorityHost() + ":" + dport + path + q
	case "http-same-authority":
		return "http://" + r.Host + path + q
	case "http-decoy-ip":
		return "http://" + d.String() + path + q
	case "relative-path":
		return fmt.Sprintf("/moved/c%d", c.ID) + q
	default: // scheme-relative
		return "//" + movedHost(c) + ":" + dport + path + q
	}
}

func altSvcValue(c *Case) string {
	d := decoyAddr(c)
	port := strconv.Itoa(int(d.Port()))
	vals := map[string]string{
		"h3-other-port": `h3=":` + port + `"; ma=86400; persist=1`,
		"h3-other-host": `h3="` + d.String() + `"; ma=86400; persist=1`,
		"h2-other-host": `h2="` + d.String() + `"; ma=86400; persist=1`,
	}
	out := vals[c.SrvVariant]
	for _, k := range []string{"h3-other-port", "h3-other-host", "h2-other-host"} {
		if k != c.SrvVariant {
			out += ", " + vals[k]
		}
	}
	return out
}

// hostileHTTP plays the case's behaviour on one request; true: the request has
// been answered (or its connection torn down).
func (cr *caseRes) hostileHTTP(w http.ResponseWriter, r *http.Request) bool {
	c := cr.c
	if c.Srv == "" {
		return false
	}
	cr.arrival()
	tag, _ := r.Context().Value(connTagKey{}).(*connTag)
	nreq := 0
	if tag != nil {
		cr.mu.Lock()
		nreq = tag.reqs
		tag.reqs++
		cr.mu.Unlock()
	}
	first := cr.firstHop(r)
	switch c.Srv {
	case "redirect":
		if !first {
			return false
		}
		loc := cr.redirectLocation(r)
		w.Header().Set("Location", loc)
		w.WriteHeader(c.SrvStatus)
		cr.played(fmt.Sprintf("%s %d Location: %s", r.Proto, c.SrvStatus, trunc(loc, 120)))
		return true
	case "alt-svc":
		v := altSvcValue(c)
		w.Header().Set("Alt-Svc", v)
		cr.played("200 with Alt-Svc: " + v)
		return false
	case "misdirected":
		cr.mu.Lock()
		n := cr.obs.Hostile.Played
		cr.mu.Unlock()
		if !first || n >= 2 {
			return false
		}
		if c.SrvStatus == 503 {
			w.Header().Set("Retry-After", "0")
			w.Header().Set("Alt-Svc", altSvcValue(c))
		}
		w.WriteHeader(c.SrvStatus)
		cr.played(fmt.Sprintf("%s %d", r.Proto, c.SrvStatus))
		return true
	case "conn-close":
		if tag == nil {
			return false
		}
		quicConn := r.ProtoMajor == 3
		switch {
		case c.SrvVariant == "close-without-reply" && tag.seq%2 == 0,
			c.SrvVariant == "reply-then-close" && quicConn && nreq > 0:
			cr.played(fmt.Sprintf("%s connection #%d torn down on its request #%d, without reply", r.Proto, tag.seq, nreq))
			tag.close()
			return true
		case c.SrvVariant == "reply-then-close" && !quicConn:
			// HTTP/1: the connection is closed after the reply; h2: GOAWAY
			w.Header().Set("Connection", "close")
			cr.played(fmt.Sprintf("%s connection #%d: reply with Connection: close / GOAWAY", r.Proto, tag.seq))
		}
	}
	return false
}

// listenH3Hostile: the DoH3 listener of a phase-3 case (own quic.Transport, so
// that Retry and the ALPN offer can be controlled).
func (cr *caseRes) listenH3Hostile(pc *net.UDPConn) error {
	tr := &quic.Transport{Conn: pc}
	if cr.c.Srv == "quic-retry" {
		tr.VerifySourceAddress = cr.demandRetry
	}
	var tlsCfg *tls.Config
	if cr.c.Srv == "alpn" {
		tlsCfg = cr.quicTLS("h3-29")
	} else {
		tlsCfg = http3.ConfigureTLSConfig(cr.quicTLS())
	}
	ln, err := tr.ListenEarly(tlsCfg, &quic.Config{MaxIdleTimeout: 5 * time.Second})
	if err != nil {
		pc.Close()
		return err
	}
	srv := &http3.Server{Handler: cr.httpHandler("quic"), ConnContext: cr.tagQUICConn}
	go func() { _ = srv.ServeListener(ln) }()
	cr.closers = append(cr.closers, func() { _ = srv.Close(); _ = ln.Close(); _ = tr.Close(); pc.Close() })
	return nil
}

// ---------------------------------------------------------------------------
// the decoy: the endpoint a redirect / Alt-Svc points at
// ---------------------------------------------------------------------------

func (cr *caseRes) noteDecoy(d decoyObs) {
	cr.note(func(o *Obs) {
		if o.Hostile != nil && len(o.Hostile.Decoy) < 32 {
			o.Hostile.Decoy = append(o.Hostile.Decoy, d)
		}
	})
}

func dnsFromRequest(r *http.Request) []byte {
	if r.Method == http.MethodPost {
		q, _ := io.ReadAll(io.LimitReader(r.Body, 65535))
		return q
	}
	q, _ := base64.RawURLEncoding.DecodeString(r.URL.Query().Get("dns"))
	return q
}

func (cr *caseRes) decoyHandler(proto string, sniOf func(r *http.Request) string, clear bool) http.Handler {
	return http.HandlerFunc(func(w http.ResponseWriter, r *http.Request) {
		port := 0
		if ap, err := netip.ParseAddrPort(r.RemoteAddr); err == nil {
			port = int(ap.Port())
		}
		q := dnsFromRequest(r)
		cr.noteDecoy(decoyObs{Proto: proto, RemotePort: port, SNI: sniOf(r), Host: r.Host, Path: r.URL.Path, Cleartext: clear, DNSQuery: len(q) >= 12})
		if len(q) < 12 {
			http.Error(w, "bad query", http.StatusBadRequest)
			return
		}
		a := append([]byte(nil), q...)
		a[2] |= 0x80
		a[3] |= 0x80
		w.Header().Set("Content-Type", "application/dns-message")
		_, _ = w.Write(a)
	})
}

func (cr *caseRes) openDecoy() {
	c := cr.c
	d := decoyAddr(c)
	ho := cr.obs.Hostile
	ho.DecoyAddr = d.String()
	// valid for the names a redirect can carry and for the URL host itself, so
	// that whoever comes here completes the handshake and shows its request
	ips := append([]netip.Addr{d.Addr()}, cr.exp.CertIPs...)
	names := append([]string{movedHost(c)}, cr.exp.CertNames...)
	leaf, err := cr.ca.leaf(ips, names)
	if err != nil {
		ho.DecoyErr = err.Error()
		return
	}
	base := &tls.Config{Certificates: []tls.Certificate{leaf}, MinVersion: tls.VersionTLS12}
	tlsSNI := func(r *http.Request) string {
		if r.TLS != nil {
			return r.TLS.ServerName
		}
		return ""
	}

	ln, err := net.Listen("tcp", d.String())
	if err != nil {
		ho.DecoyErr = err.Error()
		return
	}
	cr.closers = append(cr.closers, func() { ln.Close() })
	go func() {
		for {
			conn, err := ln.Accept()
			if err != nil {
				return
			}
			cr.goHandle(conn, cr.serveDecoyTCP(base, tlsSNI))
		}
	}()

	pc, err := net.ListenUDP("udp", net.UDPAddrFromAddrPort(d))
	if err != nil {
		ho.DecoyErr = err.Error()
		return
	}
	qcfg := base.Clone()
	qcfg.MinVersion = tls.VersionTLS13
	qcfg.GetConfigForClient = func(h *tls.ClientHelloInfo) (*tls.Config, error) {
		port := 0
		if h.Conn != nil {
			port = addrPort(h.Conn.RemoteAddr())
		}
		cr.noteDecoy(decoyObs{Proto: "quic", RemotePort: port, SNI: h.ServerName})
		return nil, nil
	}
	srv := &http3.Server{TLSConfig: http3.ConfigureTLSConfig(qcfg), Handler: cr.decoyHandler("quic", tlsSNI, false),
		QUICConfig: &quic.Config{MaxIdleTimeout: 5 * time.Second}}
	go func() { _ = srv.Serve(pc) }()
	cr.closers = append(cr.closers, func() { _ = srv.Close(); pc.Close() })
}

func (cr *caseRes) serveDecoyTCP(base *tls.Config, tlsSNI func(*http.Request) string) func(net.Conn) {
	return func(conn net.Conn) {
		port := addrPort(conn.RemoteAddr())
		br := bufio.NewReaderSize(conn, 4096)
		b, err := br.Peek(1)
		if err != nil {
			cr.noteDecoy(decoyObs{Proto: "tcp", RemotePort: port})
			return
		}
		if b[0] >= 'A' && b[0] <= 'Z' {
			// plain-text HTTP/1
			req, err := http.ReadRequest(br)
			if err != nil {
				cr.noteDecoy(decoyObs{Proto: "tcp", RemotePort: port, Cleartext: true})
				return
			}
			req.RemoteAddr = conn.RemoteAddr().String()
			rw := &plainResponse{h: http.Header{}}
			cr.decoyHandler("tcp", tlsSNI, true).ServeHTTP(rw, req)
			_ = rw.writeTo(conn)
			return
		}
		cfg := base.Clone()
		cfg.NextProtos = []string{"h2", "http/1.1"}
		sni := ""
		cfg.GetConfigForClient = func(h *tls.ClientHelloInfo) (*tls.Config, error) {
			sni = h.ServerName
			return nil, nil
		}
		tc := tls.Server(&sniffedConn{Conn: conn, r: br}, cfg)
		ctx, cancel := context.WithTimeout(context.Background(), 4*time.Second)
		err = tc.HandshakeContext(ctx)
		cancel()
		if err != nil {
			cr.noteDecoy(decoyObs{Proto: "tcp", RemotePort: port, SNI: sni})
			return
		}
		h := cr.decoyHandler("tcp", tlsSNI, false)
		if tc.ConnectionState().NegotiatedProtocol == "h2" {
			(&http2.Server{}).ServeConn(tc, &http2.ServeConnOpts{Handler: h})
			return
		}
		tbr := bufio.NewReader(tc)
		for {
			req, err := http.ReadRequest(tbr)
			if err != nil {
				cr.noteDecoy(decoyObs{Proto: "tcp", RemotePort: port, SNI: sni})
				return
			}
			req.RemoteAddr = conn.RemoteAddr().String()
			st := tc.ConnectionState()
			req.TLS = &st
			rw := &plainResponse{h: http.Header{}}
			h.ServeHTTP(rw, req)
			if rw.writeTo(tc) != nil {
				return
			}
		}
	}
}

// plainResponse: a minimal http.ResponseWriter for hand-served HTTP/1 requests.
type plainResponse struct {
	h      http.Header
	status int
	body   bytes.Buffer
}

func (p *plainResponse) Header() http.Header         { return p.h }
func (p *plainResponse) WriteHeader(s int)           { p.status = s }
func (p *plainResponse) Write(b []byte) (int, error) { return p.body.Write(b) }
func (p *plainResponse) writeTo(w io.Writer) error {
	if p.status == 0 {
		p.status = 200
	}
	resp := &http.Response{StatusCode: p.status, ProtoMajor: 1, ProtoMinor: 1, Header: p.h,
		Body: io.NopCloser(bytes.NewReader(p.body.Bytes())), ContentLength: int64(p.body.Len())}
	return resp.Write(w)
}

// ---------------------------------------------------------------------------
// oracle + evidence
// ---------------------------------------------------------------------------

// judgeDecoy: whatever arrived at the decoy from a socket of this case.
func judgeDecoy(c *Case, cr *caseRes, own map[string]bool, add func(class, form, format string, a ...any)) {
	ho := cr.obs.Hostile
	if ho == nil {
		return
	}
	seen := map[string]bool{}
	for _, d := range ho.Decoy {
		sock := "STREAM/"
		if d.Proto == "quic" {
			sock = "DGRAM/"
		}
		if !own[sock+strconv.Itoa(d.RemotePort)] {
			rep.Count("hostile_decoy_arrivals_of_foreign_origin_ignored", 1)
			continue
		}
		rep.Count("hostile_decoy_arrivals_from_own_sockets", 1)
		k := fmt.Sprintf("%s|%s|%s|%v", d.Proto, d.SNI, d.Host, d.Cleartext)
		if seen[k] {
			continue
		}
		seen[k] = true
		how := "over TLS"
		if d.Cleartext {
			how = "in PLAIN TEXT"
		}
		add("dest-moved-by-server", c.hostKey(), "the endpoint %s the server pointed at (%s) received a %s connection from this upstream's source port %d (%s, SNI %q, HTTP authority %q, path %q, carried the DNS query: %v); the configured destination is %v",
			ho.DecoyAddr, c.srvFP(), d.Proto, d.RemotePort, how, d.SNI, d.Host, d.Path, d.DNSQuery, cr.exp.Dests)
	}
}

// hostileEvidence counts what phase 3 positively observed (ok: accepted, no
// problem, at least one destination matched).
func hostileEvidence(c *Case, res *Result, cr *caseRes, ok bool) {
	ho := cr.obs.Hostile
	if c.Srv == "" || ho == nil {
		return
	}
	sn := schemeName(c.Scheme)
	rep.Count("hostile_cases_executed", 1)
	rep.Count("hostile_acts_played", int64(ho.Played))
	if ho.DecoyAddr != "" && ho.DecoyErr == "" {
		rep.Count("hostile_decoy_listeners_open", 1)
	} else if ho.DecoyErr != "" {
		rep.Count("hostile_decoy_listen_failures", 1)
	}
	if !ok || ho.Played == 0 {
		if ho.Played == 0 {
			rep.Count("hostile_cases_behaviour_not_played", 1)
			rep.SetAdd("hostile_not_played", fmt.Sprintf("%s %s via=%s: %s", sn, c.srvFP(), c.Via, trunc(res.ExchErr, 70)))
		}
		return
	}
	rep.Count("hostile_cases_observed", 1)
	rep.Count("hostile_cases_observed_"+c.Srv, 1)
	rep.Count("hostile_arrivals_after_first_hostile_act_judged", int64(ho.FollowUps))
	rep.SetAdd("hostile_classes_observed", sn+" "+c.srvFP()+" via="+c.Via)
	rep.SetAdd("hostile_behaviour_x_hostform_observed", sn+" "+c.Srv+" "+c.hostKey()+" dial="+c.DialKind)
	conns := len(cr.obs.TLSHellos) + len(cr.obs.QUICHellos)
	if !tlsBased(c.Scheme) {
		conns = cr.obs.TCPAccepts
	}
	if conns >= 2 {
		rep.Count("hostile_cases_with_reconnect_observed", 1)
		rep.Count("hostile_cases_with_reconnect_observed_"+sn, 1)
	}
	rep.Max("hostile_max_connections_in_one_case", int64(conns))
	answered := 0
	for _, x := range res.Exch {
		if x == "ok" {
			answered++
		}
	}
	rep.Count("hostile_exchanges_made", int64(len(res.Exch)))
	rep.Count("hostile_exchanges_answered", int64(answered))
}
