package main

import (
	"bytes"
	"context"
	"crypto/tls"
	"crypto/x509"
	"encoding/json"
	"flag"
	"fmt"
	"net"
	"os"
	"strings"
	"sync"
	"syscall"
	"time"

	"github.com/IrineSistiana/mosdns/v5/pkg/pool"
	"github.com/IrineSistiana/mosdns/v5/pkg/upstream"
)

// ---- RPC between the traced workload child and the (untraced) parent ----

type Job struct {
	Done      bool   `json:"done,omitempty"`
	ID        int    `json:"id"`
	Addr      string `json:"addr"`
	DialAddr  string `json:"dial_addr"`
	Socks5    string `json:"socks5"`
	Bootstrap string `json:"bootstrap"`
	BootVer   int    `json:"boot_ver"`
	TimeoutMS int    `json:"timeout_ms"`

	// option dimension (fwd.go)
	SoMark         int    `json:"so_mark"`
	Tag            string `json:"tag,omitempty"`
	EnablePipeline bool   `json:"enable_pipeline,omitempty"`
	EnableHTTP3    bool   `json:"enable_http3,omitempty"`
	IdleTimeout    int    `json:"idle_timeout,omitempty"`

	// server-behaviour dimension (hostile.go): exchanges made in sequence on the
	// one upstream (0 = one)
	Exchanges int `json:"exchanges,omitempty"`
}

type Result struct {
	ID      int    `json:"id"`
	NewErr  string `json:"new_err,omitempty"`  // upstream.NewUpstream rejected the address
	ExchErr string `json:"exch_err,omitempty"` // ExchangeContext error text
	ReplyOK bool   `json:"reply_ok,omitempty"` // a reply to our question came back
	Hang    string `json:"hang,omitempty"`
	// Exch: outcome of every exchange when the case makes several ("ok" or the
	// error text); ExchErr then holds all error texts joined, ReplyOK = any answered
	Exch []string `json:"exchanges,omitempty"`
}

// JobSet is one scheduling unit: a single case, or a sibling group whose
// members are created in the given order before any of them is used.
type JobSet struct {
	Done      bool  `json:"done,omitempty"`
	Jobs      []Job `json:"jobs,omitempty"`
	SharedTLS bool  `json:"shared_tls,omitempty"` // all members are built from one *tls.Config
	// Forward: the members are the upstreams of one forward plugin with these
	// plugin-global options
	Forward *FwdGlobal `json:"forward,omitempty"`
}

type Req struct {
	Op  string   `json:"op"` // next
	Res []Result `json:"res,omitempty"`
}

// childMain is the workload: it runs inside `strace -f`, contains no harness
// server, and does nothing but pull cases from the parent and push them through
// upstream.NewUpstream / ExchangeContext / Close. Every socket mosdns opens for
// case N carries SO_MARK N+1 (Opt.SoMark), which is how the parent attributes
// the traced connect()/sendmsg() calls to cases even though 16 run at once.
func childMain(args []string) {
	fs := flag.NewFlagSet("c18-child", flag.ExitOnError)
	sock := fs.String("sock", "", "unix socket of the parent")
	caFile := fs.String("ca", "", "harness CA (PEM)")
	workers := fs.Int("workers", 16, "parallel cases")
	_ = fs.Parse(args)

	pem, err := os.ReadFile(*caFile)
	if err != nil {
		fmt.Fprintln(os.Stderr, "child: read ca:", err)
		os.Exit(4)
	}
	roots := x509.NewCertPool()
	if !roots.AppendCertsFromPEM(pem) {
		fmt.Fprintln(os.Stderr, "child: bad ca")
		os.Exit(4)
	}

	var wg sync.WaitGroup
	for w := 0; w < *workers; w++ {
		wg.Add(1)
		go func(w int) {
			defer wg.Done()
			conn, err := net.Dial("unix", *sock)
			if err != nil {
				fmt.Fprintln(os.Stderr, "child: dial parent:", err)
				os.Exit(4)
			}
			defer conn.Close()
			enc := json.NewEncoder(conn)
			dec := json.NewDecoder(conn)
			var last []Result
			for {
				// the parent closes the previous case's listeners and opens the next
				// one's while this request is pending: the marker bounds that moment
				marker(fmt.Sprintf("WORKER %d NEXT\n", w))
				if err := enc.Encode(Req{Op: "next", Res: last}); err != nil {
					fmt.Fprintln(os.Stderr, "child: rpc write:", err)
					os.Exit(4)
				}
				var set JobSet
				if err := dec.Decode(&set); err != nil {
					fmt.Fprintln(os.Stderr, "child: rpc read:", err)
					os.Exit(4)
				}
				if set.Done {
					return
				}
				last = runSet(&set, roots, w)
			}
		}(w)
	}
	wg.Wait()
}

func marker(s string) {
	b := []byte(s)
	for len(b) > 0 {
		n, err := syscall.Write(2, b)
		if err != nil || n <= 0 {
			return
		}
		b = b[n:]
	}
}

func buildQuery(id int) []byte {
	var b bytes.Buffer
	qid := uint16(0x4000 | (id*7+1)&0x3fff)
	b.Write([]byte{byte(qid >> 8), byte(qid), 0x01, 0x00, 0, 1, 0, 0, 0, 0, 0, 0})
	for _, l := range []string{fmt.Sprintf("c%d", id), "q", "test"} {
		b.WriteByte(byte(len(l)))
		b.WriteString(l)
	}
	b.Write([]byte{0, 0, 1, 0, 1})
	return b.Bytes()
}

// runSet: create every member in order, then one exchange each, then close.
func runSet(set *JobSet, roots *x509.CertPool, w int) []Result {
	out := make([]Result, len(set.Jobs))
	for i := range out {
		out[i].ID = set.Jobs[i].ID
	}
	done := make(chan struct{})
	res := make([]Result, len(set.Jobs))
	go func() {
		defer close(done)
		if set.Forward != nil {
			runForwardSet(set, res, w)
			return
		}
		var shared *tls.Config
		if set.SharedTLS {
			shared = &tls.Config{RootCAs: roots} // ServerName deliberately left empty
		}
		ups := make([]upstream.Upstream, len(set.Jobs))
		for i := range set.Jobs {
			job := &set.Jobs[i]
			res[i].ID = job.ID
			marker(fmt.Sprintf("CASE %d BEGIN W%d\n", job.ID, w))
			cfg := shared
			if cfg == nil {
				cfg = &tls.Config{RootCAs: roots}
			}
			u, err := upstream.NewUpstream(job.Addr, optOf(job, cfg))
			if err != nil {
				res[i].NewErr = err.Error()
				continue
			}
			ups[i] = u
		}
		for i, u := range ups {
			if u == nil {
				continue
			}
			job := &set.Jobs[i]
			q := buildQuery(job.ID)
			n := job.Exchanges
			if n < 1 {
				n = 1
			}
			var errs []string
			for k := 0; k < n; k++ {
				ctx, cancel := context.WithTimeout(context.Background(), time.Duration(job.TimeoutMS)*time.Millisecond)
				r, err := u.ExchangeContext(ctx, q)
				cancel()
				out := "ok"
				if err != nil {
					out = err.Error()
				} else if r != nil {
					m := *r
					if len(m) >= len(q) && m[0] == q[0] && m[1] == q[1] && m[2]&0x80 != 0 && bytes.Equal(m[12:len(q)], q[12:]) {
						res[i].ReplyOK = true
					} else {
						out = fmt.Sprintf("unexpected reply % x", m)
					}
					pool.ReleaseBuf(r)
				}
				if out != "ok" {
					errs = append(errs, out)
				}
				if n > 1 {
					res[i].Exch = append(res[i].Exch, out)
				}
			}
			if n == 1 && len(errs) == 1 {
				res[i].ExchErr = errs[0]
			} else if len(errs) > 0 {
				res[i].ExchErr = strings.Join(errs, " || ")
			}
		}
		for _, u := range ups {
			if u != nil {
				_ = u.Close()
			}
		}
		for i := range set.Jobs {
			marker(fmt.Sprintf("CASE %d END W%d\n", set.Jobs[i].ID, w))
		}
	}()
	select {
	case <-done:
		return res
	case <-time.After(45 * time.Second):
		// watchdog only: a stuck NewUpstream/Exchange/Close is C07's business
		for i := range out {
			out[i].Hang = "case did not finish within 45s"
		}
		return out
	}
}
