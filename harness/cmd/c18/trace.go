package main

import (
	"bufio"
	"net/netip"
	"os"
	"regexp"
	"strconv"
	"strings"
)

// destEvent is one kernel-level destination taken from the syscall trace.
type destEvent struct {
	Line    int            `json:"line"`
	Syscall string         `json:"syscall"`
	FD      int            `json:"fd"`
	Mark    int            `json:"so_mark"` // SO_MARK of the socket (case id + 1), 0 = unmarked
	Sock    string         `json:"sock"`    // STREAM | DGRAM | ?
	Dest    netip.AddrPort `json:"dest"`    // v4-mapped addresses unmapped
	Raw     string         `json:"raw"`
	Window  []int          `json:"-"` // cases between their BEGIN and END markers at this point
}

type traceResult struct {
	Lines  int
	Events []destEvent
	Begins map[int]int // case -> line of BEGIN marker
	Ends   map[int]int
	// Open[id] .. Shut[id]: trace lines between which the harness listeners of a
	// case can exist (from the worker's request that fetched the case to the
	// BEGIN marker of the worker's following case, or the end of the trace)
	Open map[int]int
	Shut map[int]int
	// Own[mark]["STREAM/port"]: local ports (getsockname) of the sockets carrying
	// that SO_MARK - the source ports of the case's own connections
	Own       map[int]map[string]bool
	LocalSeen int
	BySyscall map[string]int
	Marks     int // setsockopt(SO_MARK) calls seen
	Sockets   int
	NonInet   int // destinations of other families (AF_UNIX, AF_NETLINK ...) ignored
	ParseErrs []string
}

var (
	reEntry   = regexp.MustCompile(`^(\d+)\s+([a-z0-9_]+)\((.*)$`)
	reResumed = regexp.MustCompile(`^(\d+)\s+<\.\.\. ([a-z0-9_]+) resumed>(.*)$`)
	reRet     = regexp.MustCompile(`\)\s+= (-?\d+)`)
	reFD      = regexp.MustCompile(`^(\d+)[,<]`)
	reSock    = regexp.MustCompile(`^AF_([A-Z0-9_]+), SOCK_([A-Z]+)`)
	reMark    = regexp.MustCompile(`^(\d+), SOL_SOCKET, SO_MARK, \[(\d+)\]`)
	reV4      = regexp.MustCompile(`sa_family=AF_INET, sin_port=htons\((\d+)\), sin_addr=inet_addr\("([^"]+)"\)`)
	reV6      = regexp.MustCompile(`sa_family=AF_INET6, sin6_port=htons\((\d+)\),[^}]*?inet_pton\(AF_INET6, "([^"]+)"`)
	reFam     = regexp.MustCompile(`sa_family=AF_([A-Z0-9_]+)`)
	reMarker  = regexp.MustCompile(`^2, "CASE (\d+) (BEGIN|END) W(\d+)\\n"`)
	reNext    = regexp.MustCompile(`^2, "WORKER (\d+) NEXT\\n"`)
)

// parseTrace reads an `strace -f -o` log. It keeps a model of the traced
// process' descriptor table restricted to what matters here: socket() results
// reset a descriptor, setsockopt(SO_MARK) labels it, and every sockaddr passed
// to connect / sendto / sendmsg / sendmmsg becomes a destination event carrying
// the label of its descriptor.
func parseTrace(path string) (*traceResult, error) {
	f, err := os.Open(path)
	if err != nil {
		return nil, err
	}
	defer f.Close()
	tr := &traceResult{Begins: map[int]int{}, Ends: map[int]int{}, BySyscall: map[string]int{}, Open: map[int]int{}, Shut: map[int]int{}, Own: map[int]map[string]bool{}}
	lastNext := map[string]int{} // worker -> line of its last NEXT marker
	lastCase := map[string]int{} // worker -> case it ran last
	type fdInfo struct {
		mark int
		typ  string
	}
	fds := map[int]*fdInfo{}
	pendingGSN := map[string]int{} // tid -> fd of an unfinished getsockname()
	local := func(fd int, rest string) {
		fi := fds[fd]
		if fi == nil || fi.mark == 0 {
			return
		}
		var port string
		if m := reV4.FindStringSubmatch(rest); m != nil {
			port = m[1]
		} else if m := reV6.FindStringSubmatch(rest); m != nil {
			port = m[1]
		} else {
			return
		}
		if tr.Own[fi.mark] == nil {
			tr.Own[fi.mark] = map[string]bool{}
		}
		tr.Own[fi.mark][fi.typ+"/"+port] = true
		tr.LocalSeen++
	}
	pendingSock := map[string]string{} // tid -> sock type of an unfinished socket()
	active := map[int]bool{}
	sc := bufio.NewScanner(f)
	sc.Buffer(make([]byte, 1<<20), 1<<24)
	for sc.Scan() {
		tr.Lines++
		line := sc.Text()
		if m := reResumed.FindStringSubmatch(line); m != nil {
			if m[2] == "getsockname" {
				if fd, ok := pendingGSN[m[1]]; ok {
					delete(pendingGSN, m[1])
					local(fd, m[3])
				}
			}
			if m[2] == "socket" {
				typ, ok := pendingSock[m[1]]
				delete(pendingSock, m[1])
				if r := reRet.FindStringSubmatch(m[3]); ok && r != nil {
					if fd, _ := strconv.Atoi(r[1]); fd >= 0 {
						fds[fd] = &fdInfo{typ: typ}
						tr.Sockets++
					}
				}
			}
			continue
		}
		m := reEntry.FindStringSubmatch(line)
		if m == nil {
			continue
		}
		tid, name, args := m[1], m[2], m[3]
		switch name {
		case "socket":
			typ := "?"
			if s := reSock.FindStringSubmatch(args); s != nil {
				typ = s[2]
			}
			if strings.Contains(args, "<unfinished") {
				pendingSock[tid] = typ
				continue
			}
			if r := reRet.FindStringSubmatch(args); r != nil {
				if fd, _ := strconv.Atoi(r[1]); fd >= 0 {
					fds[fd] = &fdInfo{typ: typ}
					tr.Sockets++
				}
			}
		case "getsockname":
			fdm := reFD.FindStringSubmatch(args)
			if fdm == nil {
				continue
			}
			fd, _ := strconv.Atoi(fdm[1])
			if strings.Contains(args, "<unfinished") {
				pendingGSN[tid] = fd
				continue
			}
			local(fd, args)
		case "setsockopt":
			if s := reMark.FindStringSubmatch(args); s != nil {
				fd, _ := strconv.Atoi(s[1])
				mk, _ := strconv.Atoi(s[2])
				fi := fds[fd]
				if fi == nil {
					fi = &fdInfo{typ: "?"}
					fds[fd] = fi
				}
				fi.mark = mk
				tr.Marks++
			}
		case "write":
			if s := reNext.FindStringSubmatch(args); s != nil {
				lastNext[s[1]] = tr.Lines
			}
			if s := reMarker.FindStringSubmatch(args); s != nil {
				id, _ := strconv.Atoi(s[1])
				if s[2] == "BEGIN" {
					tr.Begins[id] = tr.Lines
					active[id] = true
					tr.Open[id] = lastNext[s[3]]
					if prev, ok := lastCase[s[3]]; ok {
						tr.Shut[prev] = tr.Lines
					}
					lastCase[s[3]] = id
				} else {
					tr.Ends[id] = tr.Lines
					delete(active, id)
				}
			}
		case "connect", "sendto", "sendmsg", "sendmmsg":
			fdm := reFD.FindStringSubmatch(args)
			if fdm == nil {
				continue
			}
			fd, _ := strconv.Atoi(fdm[1])
			var found []netip.AddrPort
			for _, s := range reV4.FindAllStringSubmatch(args, -1) {
				a, err := netip.ParseAddr(s[2])
				p, _ := strconv.Atoi(s[1])
				if err != nil {
					tr.ParseErrs = append(tr.ParseErrs, line)
					continue
				}
				found = append(found, netip.AddrPortFrom(a, uint16(p)))
			}
			for _, s := range reV6.FindAllStringSubmatch(args, -1) {
				a, err := netip.ParseAddr(s[2])
				p, _ := strconv.Atoi(s[1])
				if err != nil {
					tr.ParseErrs = append(tr.ParseErrs, line)
					continue
				}
				found = append(found, netip.AddrPortFrom(a.Unmap().WithZone(""), uint16(p)))
			}
			if len(found) == 0 {
				if fm := reFam.FindStringSubmatch(args); fm != nil {
					if fm[1] == "INET" || fm[1] == "INET6" {
						tr.ParseErrs = append(tr.ParseErrs, line)
					} else {
						tr.NonInet++
					}
				}
				continue
			}
			fi := fds[fd]
			if fi == nil {
				fi = &fdInfo{typ: "?"}
			}
			var win []int
			if fi.mark == 0 {
				for id := range active {
					win = append(win, id)
				}
			}
			raw := line
			if len(raw) > 300 {
				raw = raw[:300]
			}
			for _, d := range found {
				tr.BySyscall[name]++
				tr.Events = append(tr.Events, destEvent{Line: tr.Lines, Syscall: name, FD: fd, Mark: fi.mark, Sock: fi.typ, Dest: d, Raw: raw, Window: win})
			}
		}
	}
	for id := range tr.Begins {
		if _, ok := tr.Shut[id]; !ok {
			tr.Shut[id] = tr.Lines + 1
		}
	}
	return tr, sc.Err()
}
