//go:build !verif

package main

func armRefresh()              {}
func installRefreshHook() bool { return false }
