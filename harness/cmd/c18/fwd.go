package main

// Option dimension ("phase 2").
//
// Phase 1 (gen.go) hands every address form to upstream.NewUpstream with a fixed
// option set. Phase 2 varies the OPTIONS and the way they reach NewUpstream:
//
//   - forward groups: 2..4 upstreams are configured on ONE real forward plugin
//     (fastforward.NewForward, the code that turns the user's YAML into upstream.Opt)
//     and queried through it by tag. Every option - dial_addr, socks5, bootstrap,
//     bootstrap_version, so_mark, enable_pipeline, enable_http3, idle_timeout - is
//     present on some positions and absent on others (one "focus" option per group
//     follows a non-constant presence pattern over the positions, the others are
//     drawn per member), and socks5 / bootstrap / bootstrap_version / so_mark are
//     given per upstream or plugin-global. Every member keeps its own expectation,
//     its own listeners, its own proxy / bootstrap server (or the group's global
//     ones): whatever one member's configuration does to another member's
//     connections shows up as a foreign destination of that member.
//   - option singles: one upstream through upstream.NewUpstream with the same option
//     variety (alias schemes expressed through enable_pipeline / enable_http3,
//     options the scheme is documented to ignore).
//
// Options a scheme is documented to ignore must not move any of its connections:
// socks5 on udp / quic / h3 ("not implemented for udp based protocols") - the
// configured proxy is a listening decoy; a traced connect() to it, or a CONNECT
// request arriving there from one of the member's sockets, is a violation. That
// includes the TCP retry of a udp upstream after a truncated reply.

import (
	"context"
	"crypto/tls"
	"crypto/x509"
	"fmt"
	"math/rand"
	"net"
	"net/netip"
	"strconv"
	"strings"
	"sync"
	"time"

	"github.com/IrineSistiana/mosdns/v5/pkg/pool"
	"github.com/IrineSistiana/mosdns/v5/pkg/query_context"
	"github.com/IrineSistiana/mosdns/v5/pkg/upstream"
	fastforward "github.com/IrineSistiana/mosdns/v5/plugin/executable/forward"
	"github.com/IrineSistiana/mosdns/v5/plugin/executable/sequence"
	"github.com/miekg/dns"
	"go.uber.org/zap"
	"go.uber.org/zap/zaptest/observer"
)

// sockets of members that inherit the plugin-global so_mark carry this + group id
const groupMarkBase = 1 << 20

var fwdFocus = []string{"dial_addr", "socks5", "bootstrap", "so_mark", "enable_pipeline", "dial_addr", "enable_http3", "socks5", "idle_timeout", "bootstrap_version"}

// written schemes of phase 2 (aliases can additionally arise from the options)
var fwdWritten = []string{"", "udp", "udp", "tcp", "tcp", "tcp+pipeline", "tls", "tls", "tls+pipeline", "https", "https", "h3", "quic"}

var fwdHostClasses = []string{"v4-loopback", "v4-loopback", "v4-loopback", "v4-doc", "b6-loopback", "b6-mapped-loopback", "b6-mid",
	"hostname", "hostname", "hostname", "hostname-mixedcase", "hostname-mixedcase"}

func effectiveScheme(written string, pipeline, http3 bool) string {
	switch {
	case written == "tcp" && pipeline:
		return "tcp+pipeline"
	case written == "tls" && pipeline:
		return "tls+pipeline"
	case written == "https" && http3:
		return "h3"
	}
	return written
}

// markOf: the SO_MARK the sockets of a case carry.
func markOf(c *Case) int {
	if c.MarkOpt == "global" {
		return groupMarkBase + c.Group
	}
	return c.ID + 1
}

func (c *Case) socksConfigured() bool {
	if c.Socks5Opt == "" {
		return c.Via == "socks5"
	}
	return c.Socks5Opt != "none"
}

// socksIgnored: a proxy is configured on a scheme that is documented not to use it.
func (c *Case) socksIgnored() bool { return c.socksConfigured() && c.Via != "socks5" }

func (c *Case) optFP() string {
	if c.Socks5Opt == "" {
		return ""
	}
	return fmt.Sprintf("w=%s ep=%v eh=%v idle=%v socks=%s boot=%s bver-inh=%v mark=%s", c.writtenScheme(), c.EnablePipeline, c.EnableHTTP3,
		c.IdleTimeout != 0, c.Socks5Opt, c.BootOpt, c.BootVerInherit, c.MarkOpt)
}

// genOptCase draws one phase-2 upstream. focus/present: the option whose presence
// is dictated by the group's pattern ("" = none dictated).
func genOptCase(r *rand.Rand, c *Case, focus string, present bool) {
	pick := func(name string, pct int) bool {
		if focus == name {
			return present
		}
		return r.Intn(100) < pct
	}
	w := fwdWritten[r.Intn(len(fwdWritten))]
	c.EnablePipeline = pick("enable_pipeline", 30)
	c.EnableHTTP3 = pick("enable_http3", 30)
	c.Scheme = effectiveScheme(w, c.EnablePipeline, c.EnableHTTP3)
	c.BaseViaOpt = c.Scheme != w

	c.HostClass = fwdHostClasses[r.Intn(len(fwdHostClasses))]
	c.PortClass = []string{"none", "random", "random", "53", "853", "443"}[r.Intn(6)]
	if c.HostClass == "b6-loopback" {
		c.PortClass = "random"
	}
	c.DialKind = "none"
	if pick("dial_addr", 45) {
		kinds := []string{"ip", "ip-port", "ip-port", "ipv6-bare", "ipv6-bracket-port"}
		if tlsBased(c.Scheme) {
			kinds = append(kinds, "host", "host-port")
		}
		c.DialKind = kinds[r.Intn(len(kinds))]
	}
	hostIsName := strings.HasPrefix(c.HostClass, "hostname")
	dialIsName := c.DialKind == "host" || c.DialKind == "host-port"
	if !tlsBased(c.Scheme) && hostIsName && c.DialKind == "none" {
		// udp / tcp need an IP at the network layer
		c.HostClass, hostIsName = "v4-loopback", false
	}
	netName := dialIsName || (hostIsName && c.DialKind == "none")

	// bootstrap
	switch {
	case focus == "bootstrap":
		if present {
			c.BootOpt = "own"
		} else {
			c.BootOpt = "none"
			// nothing may need resolving then
			if dialIsName {
				c.DialKind = "ip-port"
			} else if netName {
				c.DialKind = "ip"
			}
			netName = false
		}
	case c.GlobalBoot:
		c.BootOpt = "global"
		if r.Intn(100) < 30 {
			c.BootOpt = "own"
		}
	default:
		c.BootOpt = "own"
		if !netName && r.Intn(100) < 40 {
			c.BootOpt = "none"
		}
	}
	ownVer := 4
	if r.Intn(3) == 0 {
		ownVer = 6
	}
	c.BootVerInherit = !pick("bootstrap_version", 50)

	// socks5
	switch {
	case focus == "socks5":
		c.Socks5Opt = "none"
		if present {
			c.Socks5Opt = "own"
		}
	case c.GlobalSocks5:
		c.Socks5Opt = "global"
		if r.Intn(100) < 35 {
			c.Socks5Opt = "own"
		}
	default:
		c.Socks5Opt = "none"
		if r.Intn(100) < 35 {
			c.Socks5Opt = "own"
		}
	}
	// so_mark
	c.MarkOpt = "own"
	if c.GroupKind == "forward" && !pick("so_mark", 80) {
		c.MarkOpt = "global"
	}
	if pick("idle_timeout", 30) {
		c.IdleTimeout = 1 + r.Intn(60)
	}

	fill(r, c)

	c.Via = "direct"
	if c.Socks5Opt != "none" && tcpBased(c.Scheme) {
		c.Via = "socks5"
	}
	c.BootVer = ownVer
	if c.BootVerInherit {
		c.BootVer = 4
		if c.GlobalBootVer == 6 {
			c.BootVer = 6
		}
	}
	c.BootIP = ""
	if netName {
		c.BootIP = loop4(c.ID, 2).String()
		if c.BootVer == 6 {
			c.BootIP = "::1"
		}
	}
	c.TC = (c.Scheme == "" || c.Scheme == "udp") && r.Intn(2) == 0
	c.render()
}

// destSet: everything a case is expected to reach at the network layer.
func destSet(c *Case) []string {
	e := c.expect()
	var out []string
	for _, d := range e.Dests {
		out = append(out, d.String())
	}
	for _, d := range e.Lit {
		out = append(out, d.String())
	}
	if e.NetIsName {
		out = append(out, strings.ToLower(e.NetName)+":"+strconv.Itoa(e.NetPort))
	}
	return out
}

// genOptionPhase appends the phase-2 cases: groups forward groups, then singles
// single upstreams. IDs continue at first.
func genOptionPhase(seed int64, first, groups, singles int) []*Case {
	r := rand.New(rand.NewSource(seed*7919 + 18))
	var out []*Case
	id := first
	rot := r.Intn(len(fwdFocus))
	for gi := 0; gi < groups; gi++ {
		size := 2 + r.Intn(3)
		focus := fwdFocus[(gi+rot)%len(fwdFocus)]
		mask := 1 + r.Intn(1<<size-2) // neither "nowhere" nor "everywhere"
		pattern := ""
		for k := 0; k < size; k++ {
			if mask>>k&1 == 1 {
				pattern += "+"
			} else {
				pattern += "-"
			}
		}
		gSocks := focus != "socks5" && r.Intn(2) == 0
		gBoot := focus != "bootstrap" && r.Intn(2) == 0
		gVer := []int{0, 4, 6}[r.Intn(3)]
		used := map[string]bool{}
		gid := id
		for k := 0; k < size; k++ {
			var c *Case
			for try := 0; try < 64; try++ {
				c = &Case{ID: id, GroupKind: "forward", Group: gid, Order: k, GroupSize: size,
					GlobalSocks5: gSocks, GlobalBoot: gBoot, GlobalBootVer: gVer, Focus: focus + ":" + pattern}
				genOptCase(r, c, focus, mask>>k&1 == 1)
				clash := false
				for _, d := range destSet(c) {
					if used[d] {
						clash = true
					}
				}
				if !clash {
					break
				}
			}
			for _, d := range destSet(c) {
				used[d] = true
			}
			out = append(out, c)
			id++
		}
	}
	for i := 0; i < singles; i++ {
		c := &Case{ID: id}
		focus, present := "", false
		if i%2 == 0 {
			// half of the singles: a proxy on a scheme that ignores it
			focus, present = "socks5", true
		}
		for try := 0; try < 64; try++ {
			*c = Case{ID: id}
			genOptCase(r, c, focus, present)
			if focus == "" || c.socksIgnored() {
				break
			}
		}
		out = append(out, c)
		id++
	}
	return out
}

// ---------------------------------------------------------------------------
// parent side: the plugin-global proxy / bootstrap server of a forward group
// ---------------------------------------------------------------------------

type straySocks struct {
	RemotePort int      `json:"remote_port"`
	Req        socksObs `json:"request"`
}

type groupRes struct {
	id      int
	host    *caseRes // tracker + closers of the shared servers
	members []*caseRes

	socksAddr string
	bootAddr  string

	mu    sync.Mutex
	stray []straySocks // CONNECT requests that fit no member
	boot  []bootObs    // every question the global bootstrap server received
}

func newGroupRes(id int, first *Case) *groupRes {
	g := &groupRes{id: id, host: &caseRes{c: &Case{ID: -1}, conns: map[net.Conn]struct{}{}}}
	if first.GlobalSocks5 {
		if ln, err := net.Listen("tcp", "127.0.0.1:0"); err == nil {
			g.socksAddr = ln.Addr().String()
			g.host.closers = append(g.host.closers, func() { ln.Close() })
			go func() {
				for {
					c, err := ln.Accept()
					if err != nil {
						return
					}
					g.host.goHandle(c, g.serveSocks)
				}
			}()
		}
	}
	if first.GlobalBoot {
		if pc, err := net.ListenUDP("udp", &net.UDPAddr{IP: net.IPv4(127, 0, 0, 1)}); err == nil {
			g.bootAddr = pc.LocalAddr().String()
			g.host.closers = append(g.host.closers, func() { pc.Close() })
			go g.serveBoot(pc)
		}
	}
	return g
}

func socksMatch(e Expect, so socksObs) (hostOK, portOK bool) {
	if e.NetIsName {
		return so.Atyp == "domain" && strings.EqualFold(so.Host, e.NetName), so.Port == e.NetPort
	}
	a, err := netip.ParseAddr(so.Host)
	if err != nil || so.Atyp == "domain" {
		return false, false
	}
	for _, d := range e.Lit {
		if d.Addr() == a.Unmap() {
			hostOK = true
			if int(d.Port()) == so.Port {
				portOK = true
			}
		}
	}
	return
}

// serveSocks: the plugin-global proxy. The member that is played is the one whose
// configured destination the CONNECT request names.
func (g *groupRes) serveSocks(c net.Conn) {
	so, ok := readSocksRequest(c)
	if !ok {
		return
	}
	so.RemotePort = addrPort(c.RemoteAddr())
	var m *caseRes
	for pass := 0; pass < 3 && m == nil; pass++ {
		for _, cr := range g.members {
			if cr.c.Socks5Opt != "global" {
				continue
			}
			h, p := socksMatch(cr.exp, so)
			switch {
			case pass == 0 && cr.c.Via == "socks5" && h && p,
				pass == 1 && cr.c.Via == "socks5" && h,
				pass == 2 && h && p:
				m = cr
			}
			if m != nil {
				break
			}
		}
	}
	if m == nil {
		g.mu.Lock()
		if len(g.stray) < 64 {
			g.stray = append(g.stray, straySocks{RemotePort: so.RemotePort, Req: so})
		}
		g.mu.Unlock()
		_, _ = c.Write([]byte{5, 4, 0, 1, 0, 0, 0, 0, 0, 0}) // host unreachable
		return
	}
	m.note(func(o *Obs) { o.Socks = append(o.Socks, so) })
	if _, err := c.Write([]byte{5, 0, 0, 1, 0, 0, 0, 0, 0, 0}); err != nil {
		return
	}
	m.serveTCPConn(c, m.newConn("tcp", so.RemotePort, "socks5"))
}

// serveBoot: the plugin-global bootstrap server hands every member that uses it
// the member's own address.
func (g *groupRes) serveBoot(pc *net.UDPConn) {
	buf := make([]byte, 4096)
	for {
		n, from, err := pc.ReadFromUDPAddrPort(buf)
		if err != nil {
			return
		}
		q := new(dns.Msg)
		if err := q.Unpack(buf[:n]); err != nil || len(q.Question) != 1 {
			continue
		}
		qq := q.Question[0]
		g.mu.Lock()
		if len(g.boot) < 64 {
			g.boot = append(g.boot, bootObs{Name: qq.Name, Qtype: qq.Qtype})
		}
		g.mu.Unlock()
		r := new(dns.Msg)
		r.SetReply(q)
		for _, cr := range g.members {
			if cr.c.BootIP == "" || !cr.exp.NetIsName || !strings.EqualFold(dns.Fqdn(cr.exp.NetName), qq.Name) {
				continue
			}
			hand := netip.MustParseAddr(cr.c.BootIP)
			hdr := dns.RR_Header{Name: qq.Name, Class: dns.ClassINET, Ttl: 300}
			switch {
			case qq.Qtype == dns.TypeA && hand.Is4():
				hdr.Rrtype = dns.TypeA
				r.Answer = append(r.Answer, &dns.A{Hdr: hdr, A: net.IP(hand.AsSlice())})
			case qq.Qtype == dns.TypeAAAA && hand.Is6():
				hdr.Rrtype = dns.TypeAAAA
				r.Answer = append(r.Answer, &dns.AAAA{Hdr: hdr, AAAA: net.IP(hand.AsSlice())})
			}
			break
		}
		if b, err := r.Pack(); err == nil {
			_, _ = pc.WriteToUDPAddrPort(b, from)
		}
	}
}

func (g *groupRes) close() { g.host.close() }

// fwdJob fills the option part of a job from the structured case.
func fwdJob(job *Job, c *Case, cr *caseRes) {
	job.Tag = "m" + strconv.Itoa(c.ID)
	job.EnablePipeline, job.EnableHTTP3, job.IdleTimeout = c.EnablePipeline, c.EnableHTTP3, c.IdleTimeout
	job.SoMark = c.ID + 1
	if c.MarkOpt == "global" {
		job.SoMark = 0
	}
	if c.Socks5Opt == "global" {
		job.Socks5 = ""
	}
	if c.BootOpt == "global" {
		job.Bootstrap = ""
	}
	if c.BootVerInherit {
		job.BootVer = 0
	}
}

// ---------------------------------------------------------------------------
// oracle helpers
// ---------------------------------------------------------------------------

// preJudge distributes what the shared servers of forward groups saw to the
// members and moves bootstrap questions to the member whose host they name.
// It returns additional problems per case id.
func preJudge(p *parent, tr *traceResult) map[int][]problem {
	extra := map[int][]problem{}
	groups := map[int][]*caseRes{}
	var order []int
	for _, c := range p.cases {
		if c.GroupKind != "forward" {
			continue
		}
		if cr := p.finished[c.ID]; cr != nil {
			if _, ok := groups[c.Group]; !ok {
				order = append(order, c.Group)
			}
			groups[c.Group] = append(groups[c.Group], cr)
		}
	}
	for _, gid := range order {
		members := groups[gid]
		rep.Count("forward_groups_executed", 1)
		byName := func(name string) *caseRes {
			for _, m := range members {
				if m.exp.NetIsName && strings.EqualFold(dns.Fqdn(m.exp.NetName), name) {
					return m
				}
			}
			return nil
		}
		where := func(m *caseRes) string {
			switch m.c.BootOpt {
			case "global":
				return "the plugin-global bootstrap server " + m.bootAddr
			case "none":
				return "no bootstrap server"
			}
			return "its own bootstrap server " + m.bootAddr
		}
		// own bootstrap servers: a question naming a sibling's host belongs to the sibling
		for _, k := range members {
			if k.c.BootOpt != "own" {
				continue
			}
			var keep []bootObs
			for _, b := range k.obs.Boot {
				if m := byName(b.Name); m != nil && m != k {
					extra[m.c.ID] = append(extra[m.c.ID], problem{"bootstrap-server-altered", m.c.formKey(),
						fmt.Sprintf("the host %q of upstream #%d was asked at %s, the bootstrap server of upstream #%d (%q); upstream #%d is configured with %s",
							b.Name, m.c.Order, k.bootAddr, k.c.Order, k.c.Addr, m.c.Order, where(m))})
					rep.Count("bootstrap_questions_at_a_siblings_server", 1)
					continue
				}
				keep = append(keep, b)
			}
			k.obs.Boot = keep
		}
		g := p.groups[gid]
		if g == nil {
			continue
		}
		g.mu.Lock()
		boot, stray := g.boot, g.stray
		g.mu.Unlock()
		for _, b := range boot {
			m := byName(b.Name)
			switch {
			case m != nil && m.c.BootOpt == "global":
				m.obs.Boot = append(m.obs.Boot, b)
				rep.Count("bootstrap_questions_at_plugin_global_server", 1)
			case m != nil:
				extra[m.c.ID] = append(extra[m.c.ID], problem{"bootstrap-server-altered", m.c.formKey(),
					fmt.Sprintf("the host %q of upstream #%d was asked at the plugin-global bootstrap server %s; the upstream is configured with %s",
						b.Name, m.c.Order, g.bootAddr, where(m))})
			default:
				// a name no member wrote: blame the first member that uses the server
				for _, x := range members {
					if x.c.BootOpt == "global" {
						extra[x.c.ID] = append(extra[x.c.ID], problem{"dest-host-altered", x.c.formKey(),
							fmt.Sprintf("the plugin-global bootstrap server was asked for %q, which is no upstream's host", b.Name)})
						break
					}
				}
			}
		}
		// CONNECT requests at the global proxy that name nobody's destination are
		// attributed through the source port
		for _, s := range stray {
			var owner *caseRes
			for _, m := range members {
				if tr.Own[markOf(m.c)]["STREAM/"+strconv.Itoa(s.RemotePort)] {
					owner = m
					break
				}
			}
			if owner == nil {
				rep.Count("global_socks5_stray_connects_of_unknown_origin_ignored", 1)
				continue
			}
			owner.obs.Socks = append(owner.obs.Socks, s.Req)
			rep.Count("global_socks5_stray_connects_attributed_by_source_port", 1)
		}
	}
	return extra
}

// resolveGroupMark: which member a traced destination on a socket carrying the
// plugin-global so_mark belongs to. Members that inherit the mark are the
// candidates; among several the one that may legitimately contact the destination.
func resolveGroupMark(p *parent, gid int, dest netip.AddrPort, sock string) (int, bool) {
	var cand, all []*caseRes
	for id := gid; id < gid+4 && id < len(p.cases); id++ {
		c := p.cases[id]
		if c.GroupKind != "forward" || c.Group != gid {
			break
		}
		cr := p.finished[id]
		if cr == nil {
			continue
		}
		all = append(all, cr)
		if c.MarkOpt == "global" {
			cand = append(cand, cr)
		}
	}
	if len(cand) == 0 {
		cand = all
	}
	if len(cand) == 0 {
		return 0, false
	}
	for _, cr := range cand {
		if cr.c.Via == "socks5" {
			if ap, err := netip.ParseAddrPort(cr.socksAddr); err == nil && ap == dest {
				return cr.c.ID, true
			}
			continue
		}
		for _, d := range cr.exp.Dests {
			if d == dest {
				return cr.c.ID, true
			}
		}
	}
	// nobody's legitimate destination: a member whose scheme opens sockets of that
	// type - first those whose (ignored) proxy it is
	for _, cr := range cand {
		s := cr.c.Scheme
		if ap, err := netip.ParseAddrPort(cr.socksAddr); err == nil && ap == dest && sock == "STREAM" && (s == "" || s == "udp") {
			return cr.c.ID, true
		}
	}
	for _, cr := range cand {
		s := cr.c.Scheme
		udpBoth := s == "" || s == "udp"
		if (sock == "STREAM" && (tcpBased(s) || udpBoth)) || (sock == "DGRAM" && (udpBoth || s == "quic" || s == "h3")) {
			return cr.c.ID, true
		}
	}
	return cand[0].c.ID, true
}

// ---------------------------------------------------------------------------
// child side: one forward plugin over all members of the set
// ---------------------------------------------------------------------------

type FwdGlobal struct {
	Socks5    string `json:"socks5,omitempty"`
	Bootstrap string `json:"bootstrap,omitempty"`
	BootVer   int    `json:"bootstrap_version,omitempty"`
	SoMark    int    `json:"so_mark,omitempty"`
}

func runForwardSet(set *JobSet, res []Result, w int) {
	args := &fastforward.Args{
		Socks5:       set.Forward.Socks5,
		SoMark:       set.Forward.SoMark,
		Bootstrap:    set.Forward.Bootstrap,
		BootstrapVer: set.Forward.BootVer,
	}
	for i := range set.Jobs {
		job := &set.Jobs[i]
		res[i].ID = job.ID
		marker(fmt.Sprintf("CASE %d BEGIN W%d\n", job.ID, w))
		args.Upstreams = append(args.Upstreams, fastforward.UpstreamConfig{
			Tag:            job.Tag,
			Addr:           job.Addr,
			DialAddr:       job.DialAddr,
			IdleTimeout:    job.IdleTimeout,
			EnablePipeline: job.EnablePipeline,
			EnableHTTP3:    job.EnableHTTP3,
			Socks5:         job.Socks5,
			SoMark:         job.SoMark,
			Bootstrap:      job.Bootstrap,
			BootstrapVer:   job.BootVer,
		})
	}
	core, logs := observer.New(zap.WarnLevel)
	f, err := fastforward.NewForward(args, fastforward.Opts{Logger: zap.New(core)})
	if err != nil {
		for i := range res {
			res[i].NewErr = err.Error()
		}
	} else {
		for i := range set.Jobs {
			job := &set.Jobs[i]
			ex, err := f.QuickConfigureExec(job.Tag)
			if err != nil {
				res[i].ExchErr = "QuickConfigureExec: " + err.Error()
				continue
			}
			q := new(dns.Msg)
			q.SetQuestion(fmt.Sprintf("c%d.q.test.", job.ID), dns.TypeA)
			qCtx := query_context.NewContext(q)
			ctx, cancel := context.WithTimeout(context.Background(), time.Duration(job.TimeoutMS)*time.Millisecond)
			err = ex.(sequence.Executable).Exec(ctx, qCtx)
			cancel()
			if err != nil {
				res[i].ExchErr = err.Error()
				// the plugin only logs what the upstream said
				for _, e := range logs.All() {
					m := e.ContextMap()
					if e.Message == "upstream error" && m["upstream"] == job.Tag {
						res[i].ExchErr = fmt.Sprint(m["error"])
					}
				}
			} else if r := qCtx.R(); r != nil && r.Response && len(r.Question) == 1 && r.Question[0] == q.Question[0] {
				res[i].ReplyOK = true
			} else {
				res[i].ExchErr = fmt.Sprintf("unexpected reply %v", r)
			}
		}
		_ = f.Close()
	}
	for i := range set.Jobs {
		marker(fmt.Sprintf("CASE %d END W%d\n", set.Jobs[i].ID, w))
	}
}

// optOf: the Opt of a directly created upstream.
func optOf(job *Job, cfg *tls.Config) upstream.Opt {
	return upstream.Opt{
		DialAddr:       job.DialAddr,
		Socks5:         job.Socks5,
		Bootstrap:      job.Bootstrap,
		BootstrapVer:   job.BootVer,
		SoMark:         job.SoMark,
		TLSConfig:      cfg,
		EnablePipeline: job.EnablePipeline,
		EnableHTTP3:    job.EnableHTTP3,
		IdleTimeout:    time.Duration(job.IdleTimeout) * time.Second,
	}
}

var _ = pool.ReleaseBuf
var _ *x509.CertPool

// allCases: the case list (set by evaluate) - optionEvidence looks at siblings.
var allCases []*Case

// optionEvidence counts what the option dimension positively observed (ok: the
// case was accepted, produced no problem and at least one destination matched).
func optionEvidence(c *Case, res *Result, cr *caseRes, ok bool) {
	if c.Socks5Opt != "" && cr.exp.NetIsName {
		rep.Count(fmt.Sprintf("option_phase_named_destinations_boot=%s_via=%s_observed=%v", c.BootOpt, c.Via, ok), 1)
	}
	if c.Socks5Opt == "" || !ok {
		return
	}
	sn := schemeName(c.Scheme)
	rep.SetAdd("option_classes_observed", sn+" "+c.optFP()+" dial="+c.DialKind)
	if c.BaseViaOpt {
		rep.Count("alias_through_option_upstreams_observed", 1)
	}
	if (c.EnablePipeline && !strings.HasSuffix(c.Scheme, "+pipeline")) || (c.EnableHTTP3 && c.Scheme != "h3") {
		rep.Count("upstreams_with_a_flag_their_scheme_ignores_observed", 1)
		rep.SetAdd("ignored_flag_classes_observed", fmt.Sprintf("%s ep=%v eh=%v", sn, c.EnablePipeline, c.EnableHTTP3))
	}
	if c.socksIgnored() {
		rep.Count("ignored_socks5_upstreams_observed_going_direct", 1)
		rep.SetAdd("ignored_socks5_classes_observed", sn+" socks5="+c.Socks5Opt+" tc="+strconv.FormatBool(c.TC)+" "+c.GroupKind)
		if c.TC && cr.obs.TCPAccepts > 0 && res.ReplyOK {
			rep.Count("ignored_socks5_udp_tcp_fallback_observed_direct", 1)
		}
	}
	if c.GroupKind != "forward" {
		rep.Count("option_singles_observed", 1)
		return
	}
	rep.Count("forward_members_observed", 1)
	rep.SetAdd("forward_focus_patterns_observed", fmt.Sprintf("%s size=%d", c.Focus, c.GroupSize))
	if c.Socks5Opt == "global" || c.BootOpt == "global" || c.MarkOpt == "global" || c.BootVerInherit {
		rep.Count("forward_members_inheriting_plugin_global_option_observed", 1)
	}
	has := func(m *Case, opt string) bool {
		switch opt {
		case "dial_addr":
			return m.DialKind != "none"
		case "socks5":
			return m.Socks5Opt == "own"
		case "bootstrap":
			return m.BootOpt == "own"
		case "so_mark":
			return m.MarkOpt == "own"
		case "bootstrap_version":
			return !m.BootVerInherit
		case "enable_pipeline":
			return m.EnablePipeline
		case "enable_http3":
			return m.EnableHTTP3
		case "idle_timeout":
			return m.IdleTimeout != 0
		}
		return false
	}
	after, before := false, false
	for _, opt := range []string{"dial_addr", "socks5", "bootstrap", "so_mark", "bootstrap_version", "enable_pipeline", "enable_http3", "idle_timeout"} {
		for id := c.Group; id < c.Group+c.GroupSize && id < len(allCases); id++ {
			m := allCases[id]
			if m.GroupKind != "forward" || m.Group != c.Group || m.ID == c.ID {
				continue
			}
			if has(m, opt) && !has(c, opt) {
				if m.Order < c.Order {
					after = true
					rep.SetAdd("forward_option_absent_after_present_observed", opt+" on "+sn)
				} else {
					before = true
					rep.SetAdd("forward_option_absent_before_present_observed", opt+" on "+sn)
				}
			}
		}
	}
	if after {
		rep.Count("forward_members_option_absent_after_sibling_with_option", 1)
	}
	if before {
		rep.Count("forward_members_option_absent_before_sibling_with_option", 1)
	}
}
