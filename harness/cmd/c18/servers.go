package main

import (
	"context"
	"crypto/ecdsa"
	"crypto/elliptic"
	crand "crypto/rand"
	"crypto/tls"
	"crypto/x509"
	"crypto/x509/pkix"
	"encoding/base64"
	"encoding/binary"
	"encoding/pem"
	"errors"
	"fmt"
	"io"
	"math/big"
	"net"
	"net/http"
	"net/netip"
	"strings"
	"sync"
	"time"

	"github.com/miekg/dns"
	"github.com/quic-go/quic-go"
	"github.com/quic-go/quic-go/http3"
)

// ---------------------------------------------------------------------------
// harness CA: leaves carry exactly the SANs the oracle expects, nothing else
// ---------------------------------------------------------------------------

type authority struct {
	cert    *x509.Certificate
	key     *ecdsa.PrivateKey
	pem     []byte
	leafKey *ecdsa.PrivateKey
	mu      sync.Mutex
	serial  int64
}

func newAuthority() (*authority, error) {
	key, err := ecdsa.GenerateKey(elliptic.P256(), crand.Reader)
	if err != nil {
		return nil, err
	}
	tpl := &x509.Certificate{
		SerialNumber:          big.NewInt(1),
		Subject:               pkix.Name{CommonName: "c18 harness CA"},
		NotBefore:             time.Now().Add(-time.Hour),
		NotAfter:              time.Now().Add(48 * time.Hour),
		IsCA:                  true,
		BasicConstraintsValid: true,
		KeyUsage:              x509.KeyUsageCertSign | x509.KeyUsageDigitalSignature,
	}
	der, err := x509.CreateCertificate(crand.Reader, tpl, tpl, &key.PublicKey, key)
	if err != nil {
		return nil, err
	}
	cert, err := x509.ParseCertificate(der)
	if err != nil {
		return nil, err
	}
	lk, err := ecdsa.GenerateKey(elliptic.P256(), crand.Reader)
	if err != nil {
		return nil, err
	}
	return &authority{cert: cert, key: key, leafKey: lk, serial: 1,
		pem: pem.EncodeToMemory(&pem.Block{Type: "CERTIFICATE", Bytes: der})}, nil
}

func (a *authority) leaf(ips []netip.Addr, names []string) (tls.Certificate, error) {
	a.mu.Lock()
	a.serial++
	sn := a.serial
	a.mu.Unlock()
	tpl := &x509.Certificate{
		SerialNumber: big.NewInt(sn),
		Subject:      pkix.Name{CommonName: "c18 leaf"},
		NotBefore:    time.Now().Add(-time.Hour),
		NotAfter:     time.Now().Add(24 * time.Hour),
		KeyUsage:     x509.KeyUsageDigitalSignature,
		ExtKeyUsage:  []x509.ExtKeyUsage{x509.ExtKeyUsageServerAuth},
		DNSNames:     names,
	}
	for _, ip := range ips {
		tpl.IPAddresses = append(tpl.IPAddresses, net.IP(ip.AsSlice()))
	}
	der, err := x509.CreateCertificate(crand.Reader, tpl, a.cert, &a.leafKey.PublicKey, a.key)
	if err != nil {
		return tls.Certificate{}, err
	}
	return tls.Certificate{Certificate: [][]byte{der}, PrivateKey: a.leafKey}, nil
}

// ---------------------------------------------------------------------------
// per-case observations
// ---------------------------------------------------------------------------

type httpObs struct {
	Host  string `json:"host"`
	Path  string `json:"path"`
	SNI   string `json:"sni"`
	Proto string `json:"proto"`
	Via   string `json:"via"` // tcp | socks5 | quic
}

type socksObs struct {
	Atyp       string `json:"atyp"` // ipv4 | domain | ipv6
	Host       string `json:"host"`
	Port       int    `json:"port"`
	RemotePort int    `json:"remote_port,omitempty"` // source port of the connection that carried the request
}

type bootObs struct {
	Name  string `json:"name"`
	Qtype uint16 `json:"qtype"`
}

// connObs is what the harness saw on ONE incoming connection. RemotePort is the
// client's source port: the oracle judges a connection only if that port belongs
// to a socket the trace attributes to this very case.
type connObs struct {
	Proto        string    `json:"proto"` // tcp | quic
	RemotePort   int       `json:"remote_port"`
	Via          string    `json:"via"` // direct | socks5
	HelloSeen    bool      `json:"hello_seen,omitempty"`
	SNI          string    `json:"sni,omitempty"`
	HandshakeOK  bool      `json:"handshake_ok,omitempty"`
	HandshakeErr string    `json:"handshake_err,omitempty"`
	HTTP         []httpObs `json:"http,omitempty"`
	// Seq: order of arrival among the connection records of the case.
	// Cleartext: the connection of a TLS based scheme did not start with a TLS
	// record but with this plain-text HTTP request line / Host header.
	Seq       int    `json:"seq"`
	Cleartext string `json:"cleartext,omitempty"`
}

type Obs struct {
	Conns []*connObs `json:"connections,omitempty"`
	// Hostile: what the server-behaviour dimension played and saw (hostile.go)
	Hostile *hostileObs `json:"server_behaviour,omitempty"`

	UDPDatagrams  int        `json:"udp_datagrams,omitempty"`
	TCPAccepts    int        `json:"tcp_accepts,omitempty"`
	LocalAddrs    []string   `json:"local_addrs,omitempty"` // local address of accepted connections / bound sockets hit
	DNSQueries    int        `json:"dns_queries,omitempty"` // well-formed queries carrying this case's question
	TLSHellos     []string   `json:"tls_hellos,omitempty"`  // SNI of every ClientHello (TLS over TCP)
	QUICHellos    []string   `json:"quic_hellos,omitempty"` // SNI of every ClientHello (QUIC)
	HandshakesOK  int        `json:"handshakes_ok,omitempty"`
	HandshakeErrs []string   `json:"handshake_errs,omitempty"`
	QUICConns     int        `json:"quic_conns,omitempty"`
	HTTP          []httpObs  `json:"http,omitempty"`
	Socks         []socksObs `json:"socks,omitempty"`
	Boot          []bootObs  `json:"boot,omitempty"`
}

// caseRes holds everything the parent opened for one running case.
type caseRes struct {
	c   *Case
	exp Expect
	ca  *authority

	mu  sync.Mutex
	obs Obs

	closers []func()
	wg      sync.WaitGroup
	cmu     sync.Mutex
	conns   map[net.Conn]struct{}
	closed  bool

	bootOwner  *caseRes  // sibling whose bootstrap server this case shares (nil: own server)
	grp        *groupRes // forward group: owner of the plugin-global proxy / bootstrap server
	socksAddr  string
	bootAddr   string
	listenErr  string
	listening  bool
	tlsCfg     *tls.Config
	httpFeed   *feedListener
	httpServer *http.Server
	httpDone   sync.Map // net.Conn -> chan struct{} closed when the HTTP server is done with it

	// server-behaviour dimension (hostile.go)
	seqHTTP, seqQUIC int // connections handed to the HTTP server / accepted QUIC connections so far
}

func (cr *caseRes) note(f func(o *Obs)) {
	cr.mu.Lock()
	f(&cr.obs)
	cr.mu.Unlock()
}

func addrPort(a net.Addr) int {
	switch x := a.(type) {
	case *net.TCPAddr:
		return x.Port
	case *net.UDPAddr:
		return x.Port
	case nil:
		return 0
	}
	if ap, err := netip.ParseAddrPort(a.String()); err == nil {
		return int(ap.Port())
	}
	return 0
}

// connOf returns the record of the connection (proto, remote port), creating it.
func (cr *caseRes) connOf(proto string, port int, via string) *connObs {
	cr.mu.Lock()
	defer cr.mu.Unlock()
	for i := len(cr.obs.Conns) - 1; i >= 0; i-- {
		if co := cr.obs.Conns[i]; co.Proto == proto && co.RemotePort == port && co.Via == via {
			return co
		}
	}
	co := &connObs{Proto: proto, RemotePort: port, Via: via, Seq: len(cr.obs.Conns)}
	if len(cr.obs.Conns) < 4096 {
		cr.obs.Conns = append(cr.obs.Conns, co)
	}
	return co
}

// newConn always starts a fresh record (a new TCP connection, even if the
// kernel reused the source port of an earlier one).
func (cr *caseRes) newConn(proto string, port int, via string) *connObs {
	co := &connObs{Proto: proto, RemotePort: port, Via: via}
	cr.mu.Lock()
	co.Seq = len(cr.obs.Conns)
	if len(cr.obs.Conns) < 4096 {
		cr.obs.Conns = append(cr.obs.Conns, co)
	}
	cr.mu.Unlock()
	return co
}

func (cr *caseRes) track(c net.Conn) bool {
	cr.cmu.Lock()
	defer cr.cmu.Unlock()
	if cr.closed {
		c.Close()
		return false
	}
	cr.conns[c] = struct{}{}
	return true
}

func (cr *caseRes) untrack(c net.Conn) {
	cr.cmu.Lock()
	delete(cr.conns, c)
	cr.cmu.Unlock()
	c.Close()
}

func (cr *caseRes) goHandle(c net.Conn, f func(net.Conn)) {
	if !cr.track(c) {
		return
	}
	cr.wg.Add(1)
	go func() {
		defer cr.wg.Done()
		defer cr.untrack(c)
		_ = c.SetDeadline(time.Now().Add(5 * time.Second))
		f(c)
	}()
}

// open starts whatever the case needs: bootstrap server, SOCKS5 proxy, and the
// listeners at the address where - according to the structured case - the
// connection has to arrive (only if that is a loopback address).
func (cr *caseRes) open() {
	c := cr.c
	cr.conns = map[net.Conn]struct{}{}
	if tlsBased(c.Scheme) {
		leaf, err := cr.ca.leaf(cr.exp.CertIPs, cr.exp.CertNames)
		if err == nil {
			cr.tlsCfg = &tls.Config{Certificates: []tls.Certificate{leaf}, MinVersion: tls.VersionTLS12}
		} else {
			cr.listenErr = "leaf: " + err.Error()
		}
	}
	if c.Scheme == "https" {
		cr.httpFeed = newFeedListener()
		cr.httpServer = &http.Server{Handler: cr.httpHandler("tcp"), ReadHeaderTimeout: 5 * time.Second}
		if c.Srv != "" {
			cr.httpServer.ConnContext = cr.tagTCPConn
		}
		cr.httpServer.ConnState = func(c net.Conn, st http.ConnState) {
			if st == http.StateClosed || st == http.StateHijacked {
				if ch, ok := cr.httpDone.LoadAndDelete(c); ok {
					close(ch.(chan struct{}))
				}
			}
		}
		srv, feed := cr.httpServer, cr.httpFeed
		go func() { _ = srv.Serve(feed) }()
		cr.closers = append(cr.closers, func() { _ = srv.Close(); feed.Close() })
	}
	switch c.BootOpt {
	case "none":
	case "global":
		cr.bootAddr = cr.grp.bootAddr
	default:
		cr.openBootstrap()
	}
	switch {
	case c.Socks5Opt == "global":
		cr.socksAddr = cr.grp.socksAddr
		if c.Via == "socks5" {
			cr.listening = cr.socksAddr != ""
		}
	case c.Via == "socks5" || c.Socks5Opt == "own":
		// also for schemes that are documented to ignore the option: the proxy is
		// then a decoy that records whatever reaches it
		cr.openSocks()
	}
	if c.Srv != "" {
		cr.obs.Hostile = &hostileObs{}
		if c.Scheme == "https" || c.Scheme == "h3" {
			cr.openDecoy()
		}
	}
	if c.Via == "socks5" {
		return
	}
	if !cr.exp.Reachable {
		return
	}
	la := cr.exp.Listen
	var err error
	switch c.Scheme {
	case "", "udp":
		err = cr.listenUDP(la)
		if err == nil && c.TC {
			err = cr.listenTCP(la)
		}
	case "tcp", "tcp+pipeline", "tls", "tls+pipeline", "https":
		err = cr.listenTCP(la)
	case "quic":
		err = cr.listenDoQ(la)
	case "h3":
		err = cr.listenH3(la)
	}
	if err != nil {
		cr.listenErr = err.Error()
	} else {
		cr.listening = true
	}
}

// close tears everything down and waits (bounded) for in-flight handlers so that
// their observations (handshake results, alerts) are recorded.
func (cr *caseRes) close() {
	for _, f := range cr.closers {
		f()
	}
	done := make(chan struct{})
	go func() { cr.wg.Wait(); close(done) }()
	select {
	case <-done:
	case <-time.After(300 * time.Millisecond):
	}
	cr.cmu.Lock()
	cr.closed = true
	for c := range cr.conns {
		c.Close()
	}
	cr.cmu.Unlock()
	select {
	case <-done:
	case <-time.After(2 * time.Second):
	}
}

// ---------------------------------------------------------------------------
// DNS helpers (harness side; replies are the query with QR|RA set)
// ---------------------------------------------------------------------------

func (cr *caseRes) answer(q []byte, truncated bool) []byte {
	if len(q) < 12 {
		return nil
	}
	want := buildQuery(cr.c.ID)
	// (a query that went through the forward plugin carries an OPT record behind the question)
	if len(q) >= len(want) && string(q[12:len(want)]) == string(want[12:]) {
		cr.note(func(o *Obs) { o.DNSQueries++ })
	}
	r := append([]byte(nil), q...)
	r[2] |= 0x80
	r[3] |= 0x80
	if truncated {
		r[2] |= 0x02
	}
	return r
}

func (cr *caseRes) serveStreamDNS(c net.Conn, co *connObs) {
	for n := 0; ; n++ {
		var h [2]byte
		if _, err := io.ReadFull(c, h[:]); err != nil {
			return
		}
		n := int(binary.BigEndian.Uint16(h[:]))
		buf := make([]byte, n)
		if _, err := io.ReadFull(c, buf); err != nil {
			return
		}
		if cr.c.Srv == "conn-close" && cr.c.SrvVariant == "close-without-reply" && co.Seq%2 == 0 {
			cr.played(fmt.Sprintf("connection #%d closed after reading a query, without reply", co.Seq))
			return
		}
		r := cr.answer(buf, false)
		if r == nil {
			return
		}
		out := make([]byte, 2+len(r))
		binary.BigEndian.PutUint16(out, uint16(len(r)))
		copy(out[2:], r)
		if _, err := c.Write(out); err != nil {
			return
		}
		if cr.c.Srv == "conn-close" && cr.c.SrvVariant == "reply-then-close" {
			cr.played(fmt.Sprintf("connection #%d closed right after its first reply", co.Seq))
			return
		}
	}
}

// ---------------------------------------------------------------------------
// listeners
// ---------------------------------------------------------------------------

func (cr *caseRes) listenUDP(la netip.AddrPort) error {
	pc, err := net.ListenUDP("udp", net.UDPAddrFromAddrPort(la))
	if err != nil {
		return err
	}
	cr.closers = append(cr.closers, func() { pc.Close() })
	go func() {
		buf := make([]byte, 4096)
		for {
			n, from, err := pc.ReadFromUDPAddrPort(buf)
			if err != nil {
				return
			}
			cr.note(func(o *Obs) {
				o.UDPDatagrams++
				if len(o.LocalAddrs) < 4 {
					o.LocalAddrs = append(o.LocalAddrs, "udp:"+la.String())
				}
			})
			if r := cr.answer(buf[:n], cr.c.TC); r != nil {
				_, _ = pc.WriteToUDPAddrPort(r, from)
			}
		}
	}()
	return nil
}

func (cr *caseRes) listenTCP(la netip.AddrPort) error {
	ln, err := net.Listen("tcp", la.String())
	if err != nil {
		return err
	}
	cr.closers = append(cr.closers, func() { ln.Close() })
	go func() {
		for {
			c, err := ln.Accept()
			if err != nil {
				return
			}
			cr.note(func(o *Obs) {
				o.TCPAccepts++
				if len(o.LocalAddrs) < 4 {
					o.LocalAddrs = append(o.LocalAddrs, "tcp:"+c.LocalAddr().String())
				}
			})
			cr.arrival()
			co := cr.newConn("tcp", addrPort(c.RemoteAddr()), "direct")
			cr.goHandle(c, func(c net.Conn) { cr.serveTCPConn(c, co) })
		}
	}()
	return nil
}

// serveTCPConn plays the configured scheme on an accepted (or proxied) stream.
func (cr *caseRes) serveTCPConn(c net.Conn, co *connObs) {
	switch cr.c.Scheme {
	case "", "udp", "tcp", "tcp+pipeline":
		cr.serveStreamDNS(c, co)
	case "tls", "tls+pipeline", "https":
		if cr.tlsCfg == nil {
			return
		}
		// a TLS based upstream must open with a TLS record; a plain-text HTTP
		// request here is recorded (and never served)
		c, clear := sniffCleartext(c)
		if clear != "" {
			cr.note(func(o *Obs) { co.Cleartext = clear })
			return
		}
		cfg := cr.tlsCfg.Clone()
		if cr.c.Scheme == "https" {
			cfg.NextProtos = []string{"h2", "http/1.1"}
		}
		refuse := cr.hostileTLS(cfg, co)
		cfg.GetConfigForClient = func(h *tls.ClientHelloInfo) (*tls.Config, error) {
			cr.note(func(o *Obs) {
				o.TLSHellos = append(o.TLSHellos, h.ServerName)
				co.HelloSeen, co.SNI = true, h.ServerName
			})
			if refuse {
				cr.played(fmt.Sprintf("TLS handshake of connection #%d refused after the ClientHello", co.Seq))
				return nil, errors.New("c18: handshake refused by the hostile server")
			}
			return nil, nil
		}
		tc := tls.Server(c, cfg)
		ctx, cancel := context.WithTimeout(context.Background(), 4*time.Second)
		err := tc.HandshakeContext(ctx)
		cancel()
		if err != nil {
			cr.note(func(o *Obs) {
				o.HandshakeErrs = append(o.HandshakeErrs, err.Error())
				co.HandshakeErr = err.Error()
			})
			return
		}
		cr.note(func(o *Obs) { o.HandshakesOK++; co.HandshakeOK = true })
		if cr.c.Srv == "conn-close" && cr.c.SrvVariant == "close-after-handshake" && co.Seq%2 == 0 {
			cr.played(fmt.Sprintf("connection #%d closed right after the TLS handshake", co.Seq))
			return
		}
		if cr.c.Scheme == "https" {
			// hand the established TLS connection to the HTTP server and wait
			// until it is done with it
			// (it must receive the *tls.Conn itself to recognise TLS / h2)
			done := make(chan struct{})
			cr.httpDone.Store(net.Conn(tc), done)
			defer cr.httpDone.Delete(net.Conn(tc))
			if !cr.httpFeed.feed(tc) {
				return
			}
			select {
			case <-done:
			case <-time.After(5 * time.Second):
			}
			return
		}
		cr.serveStreamDNS(tc, co)
	}
}

func (cr *caseRes) httpHandler(via string) http.Handler {
	return http.HandlerFunc(func(w http.ResponseWriter, r *http.Request) {
		ho := httpObs{Host: r.Host, Path: r.URL.Path, Proto: r.Proto, Via: via}
		if r.TLS != nil {
			ho.SNI = r.TLS.ServerName
		}
		proto, cvia := "tcp", "direct"
		if via == "quic" {
			proto = "quic"
		} else if cr.c.Via == "socks5" {
			cvia = "socks5"
		}
		port := 0
		if ap, err := netip.ParseAddrPort(r.RemoteAddr); err == nil {
			port = int(ap.Port())
		}
		co := cr.connOf(proto, port, cvia)
		cr.note(func(o *Obs) {
			o.HTTP = append(o.HTTP, ho)
			if len(co.HTTP) < 8 {
				co.HTTP = append(co.HTTP, ho)
			}
			if via == "quic" {
				co.HandshakeOK = true
			}
		})
		if cr.hostileHTTP(w, r) {
			return
		}
		var q []byte
		if r.Method == http.MethodPost {
			q, _ = io.ReadAll(io.LimitReader(r.Body, 65535))
		} else {
			q, _ = base64.RawURLEncoding.DecodeString(r.URL.Query().Get("dns"))
		}
		// DoH queries carry ID 0; compare the question only
		a := cr.answer(q, false)
		if a == nil {
			http.Error(w, "bad query", http.StatusBadRequest)
			return
		}
		w.Header().Set("Content-Type", "application/dns-message")
		_, _ = w.Write(a)
	})
}

func (cr *caseRes) quicTLS(alpn ...string) *tls.Config {
	cfg := cr.tlsCfg.Clone()
	cfg.NextProtos = alpn
	cfg.MinVersion = tls.VersionTLS13
	cfg.GetConfigForClient = func(h *tls.ClientHelloInfo) (*tls.Config, error) {
		port := 0
		if h.Conn != nil {
			port = addrPort(h.Conn.RemoteAddr())
		}
		cr.arrival()
		co := cr.connOf("quic", port, "direct")
		cr.note(func(o *Obs) {
			o.QUICHellos = append(o.QUICHellos, h.ServerName)
			co.HelloSeen, co.SNI = true, h.ServerName
		})
		if cr.c.Srv == "alpn" {
			cr.played(fmt.Sprintf("QUIC server offers only ALPN %v", alpn))
		}
		return nil, nil
	}
	return cfg
}

func (cr *caseRes) listenDoQ(la netip.AddrPort) error {
	if cr.tlsCfg == nil {
		return errors.New("no tls config")
	}
	pc, err := net.ListenUDP("udp", net.UDPAddrFromAddrPort(la))
	if err != nil {
		return err
	}
	tr := &quic.Transport{Conn: pc}
	alpn := "doq"
	if cr.c.Srv == "alpn" {
		alpn = "doq-i03"
	}
	if cr.c.Srv == "quic-retry" {
		tr.VerifySourceAddress = cr.demandRetry
	}
	ln, err := tr.Listen(cr.quicTLS(alpn), &quic.Config{MaxIdleTimeout: 5 * time.Second})
	if err != nil {
		pc.Close()
		return err
	}
	ctx, cancel := context.WithCancel(context.Background())
	cr.closers = append(cr.closers, func() { cancel(); ln.Close(); tr.Close(); pc.Close() })
	go func() {
		for {
			conn, err := ln.Accept(ctx)
			if err != nil {
				return
			}
			qco := cr.connOf("quic", addrPort(conn.RemoteAddr()), "direct")
			cr.note(func(o *Obs) {
				qco.HandshakeOK = true
				o.QUICConns++
				o.HandshakesOK++
				if len(o.LocalAddrs) < 4 {
					o.LocalAddrs = append(o.LocalAddrs, "quic:"+conn.LocalAddr().String())
				}
			})
			seq := cr.nextSeq(&cr.seqQUIC)
			if cr.c.Srv == "conn-close" && cr.c.SrvVariant == "close-after-handshake" && seq%2 == 0 {
				cr.played(fmt.Sprintf("QUIC connection #%d closed right after the handshake", seq))
				_ = conn.CloseWithError(0, "")
				continue
			}
			go func() {
				for n := 0; ; n++ {
					st, err := conn.AcceptStream(ctx)
					if err != nil {
						return
					}
					cr.arrival()
					if cr.c.Srv == "conn-close" && ((cr.c.SrvVariant == "close-without-reply" && seq%2 == 0) || (cr.c.SrvVariant == "reply-then-close" && n > 0)) {
						cr.played(fmt.Sprintf("QUIC connection #%d closed on its query #%d, without reply", seq, n))
						_ = conn.CloseWithError(2, "")
						return
					}
					go func() {
						defer st.Close()
						_ = st.SetDeadline(time.Now().Add(4 * time.Second))
						var h [2]byte
						if _, err := io.ReadFull(st, h[:]); err != nil {
							return
						}
						buf := make([]byte, int(binary.BigEndian.Uint16(h[:])))
						if _, err := io.ReadFull(st, buf); err != nil {
							return
						}
						r := cr.answer(buf, false)
						if r == nil {
							return
						}
						out := make([]byte, 2+len(r))
						binary.BigEndian.PutUint16(out, uint16(len(r)))
						copy(out[2:], r)
						_, _ = st.Write(out)
					}()
				}
			}()
		}
	}()
	return nil
}

func (cr *caseRes) listenH3(la netip.AddrPort) error {
	if cr.tlsCfg == nil {
		return errors.New("no tls config")
	}
	pc, err := net.ListenUDP("udp", net.UDPAddrFromAddrPort(la))
	if err != nil {
		return err
	}
	if cr.c.Srv != "" {
		return cr.listenH3Hostile(pc)
	}
	srv := &http3.Server{
		TLSConfig:  http3.ConfigureTLSConfig(cr.quicTLS()),
		Handler:    cr.httpHandler("quic"),
		QUICConfig: &quic.Config{MaxIdleTimeout: 5 * time.Second},
	}
	go func() { _ = srv.Serve(pc) }()
	cr.closers = append(cr.closers, func() { _ = srv.Close(); pc.Close() })
	return nil
}

// ---------------------------------------------------------------------------
// SOCKS5 proxy (RFC 1928, no auth, CONNECT): records the requested destination
// and then plays the destination itself.
// ---------------------------------------------------------------------------

func (cr *caseRes) openSocks() {
	ln, err := net.Listen("tcp", "127.0.0.1:0")
	if err != nil {
		cr.listenErr = "socks: " + err.Error()
		return
	}
	cr.socksAddr = ln.Addr().String()
	if cr.c.Via == "socks5" {
		cr.listening = true
	}
	cr.closers = append(cr.closers, func() { ln.Close() })
	go func() {
		for {
			c, err := ln.Accept()
			if err != nil {
				return
			}
			cr.goHandle(c, cr.serveSocks)
		}
	}()
}

func (cr *caseRes) serveSocks(c net.Conn) {
	so, ok := readSocksRequest(c)
	if !ok {
		return
	}
	so.RemotePort = addrPort(c.RemoteAddr())
	cr.note(func(o *Obs) { o.Socks = append(o.Socks, so) })
	if _, err := c.Write([]byte{5, 0, 0, 1, 0, 0, 0, 0, 0, 0}); err != nil {
		return
	}
	cr.arrival()
	cr.serveTCPConn(c, cr.newConn("tcp", addrPort(c.RemoteAddr()), "socks5"))
}

// readSocksRequest performs the method negotiation and reads the CONNECT request.
func readSocksRequest(c net.Conn) (so socksObs, ok bool) {
	var h [2]byte
	if _, err := io.ReadFull(c, h[:]); err != nil || h[0] != 5 {
		return
	}
	methods := make([]byte, int(h[1]))
	if _, err := io.ReadFull(c, methods); err != nil {
		return
	}
	if _, err := c.Write([]byte{5, 0}); err != nil {
		return
	}
	var rq [4]byte
	if _, err := io.ReadFull(c, rq[:]); err != nil || rq[0] != 5 || rq[1] != 1 {
		return
	}
	switch rq[3] {
	case 1:
		var a [4]byte
		if _, err := io.ReadFull(c, a[:]); err != nil {
			return
		}
		so.Atyp, so.Host = "ipv4", netip.AddrFrom4(a).String()
	case 4:
		var a [16]byte
		if _, err := io.ReadFull(c, a[:]); err != nil {
			return
		}
		so.Atyp, so.Host = "ipv6", netip.AddrFrom16(a).String()
	case 3:
		var l [1]byte
		if _, err := io.ReadFull(c, l[:]); err != nil {
			return
		}
		name := make([]byte, int(l[0]))
		if _, err := io.ReadFull(c, name); err != nil {
			return
		}
		so.Atyp, so.Host = "domain", string(name)
	default:
		return
	}
	var p [2]byte
	if _, err := io.ReadFull(c, p[:]); err != nil {
		return
	}
	so.Port = int(binary.BigEndian.Uint16(p[:]))
	return so, true
}

// ---------------------------------------------------------------------------
// bootstrap DNS server: records the name asked, hands out the case's loopback
// address (or an empty answer if the case involves no hostname).
// ---------------------------------------------------------------------------

func (cr *caseRes) openBootstrap() {
	if cr.bootOwner != nil {
		cr.bootAddr = cr.bootOwner.bootAddr
		return
	}
	pc, err := net.ListenUDP("udp", &net.UDPAddr{IP: net.IPv4(127, 0, 0, 1)})
	if err != nil {
		cr.listenErr = "bootstrap: " + err.Error()
		return
	}
	cr.bootAddr = pc.LocalAddr().String()
	cr.closers = append(cr.closers, func() { pc.Close() })
	var hand netip.Addr
	if cr.c.BootIP != "" {
		hand = netip.MustParseAddr(cr.c.BootIP)
	}
	go func() {
		buf := make([]byte, 4096)
		for {
			n, from, err := pc.ReadFromUDPAddrPort(buf)
			if err != nil {
				return
			}
			q := new(dns.Msg)
			if err := q.Unpack(buf[:n]); err != nil || len(q.Question) != 1 {
				continue
			}
			qq := q.Question[0]
			cr.note(func(o *Obs) {
				if len(o.Boot) < 16 {
					o.Boot = append(o.Boot, bootObs{Name: qq.Name, Qtype: qq.Qtype})
				}
			})
			r := new(dns.Msg)
			r.SetReply(q)
			if hand.IsValid() {
				hdr := dns.RR_Header{Name: qq.Name, Class: dns.ClassINET, Ttl: 300}
				switch {
				case qq.Qtype == dns.TypeA && hand.Is4():
					hdr.Rrtype = dns.TypeA
					r.Answer = append(r.Answer, &dns.A{Hdr: hdr, A: net.IP(hand.AsSlice())})
				case qq.Qtype == dns.TypeAAAA && hand.Is6():
					hdr.Rrtype = dns.TypeAAAA
					r.Answer = append(r.Answer, &dns.AAAA{Hdr: hdr, AAAA: net.IP(hand.AsSlice())})
				}
			}
			if b, err := r.Pack(); err == nil {
				_, _ = pc.WriteToUDPAddrPort(b, from)
			}
		}
	}()
}

// ---------------------------------------------------------------------------
// a net.Listener fed with already accepted connections
// ---------------------------------------------------------------------------

type feedListener struct {
	ch   chan net.Conn
	done chan struct{}
	once sync.Once
}

func newFeedListener() *feedListener {
	return &feedListener{ch: make(chan net.Conn), done: make(chan struct{})}
}

func (l *feedListener) feed(c net.Conn) bool {
	select {
	case l.ch <- c:
		return true
	case <-l.done:
		return false
	}
}

func (l *feedListener) Accept() (net.Conn, error) {
	select {
	case c := <-l.ch:
		return c, nil
	case <-l.done:
		return nil, net.ErrClosed
	}
}
func (l *feedListener) Close() error   { l.once.Do(func() { close(l.done) }); return nil }
func (l *feedListener) Addr() net.Addr { return &net.TCPAddr{IP: net.IPv4(127, 0, 0, 1)} }

// ---------------------------------------------------------------------------

func hostOnly(hostport string) (host string, port string) {
	if h, p, err := net.SplitHostPort(hostport); err == nil {
		return h, p
	}
	h := hostport
	if strings.HasPrefix(h, "[") && strings.HasSuffix(h, "]") {
		h = h[1 : len(h)-1]
	}
	return h, ""
}

var _ = fmt.Sprint
