// Phase 4 (history dimension): a host-name upstream whose `bootstrap` record is
// REFRESHED with another address.
//
// The phase runs in the parent process (no trace needed: the observation channel
// is "which loopback listener accepted the connection / received the QUIC
// Initial"). For one case there are 4 loopback addresses A0..A3 with listeners
// on the same port and a bootstrap server that answers its i-th distinct
// question with A_min(i,3). Sequence: queries until connections arrive at A0,
// then for k = 1..3: make the refresh due (schedule point bootstrap.tryupdate,
// exactly as if the refresh interval had elapsed), query until the bootstrap
// server has answered the refresh question, then keep querying (every query
// needs a new connection: the listeners close / refuse every connection after
// recording it).
//
// Oracle (events only): the refresh is asynchronous, so dials that started
// before or raced with the refresh answer may still use the previous address.
// Judged are only queries that START after the bootstrap server sent its
// answer: within a bound of 24 such queries there must be 3 consecutive
// connection-producing queries whose connections ALL arrived at the newest
// address the bootstrap server handed out. Never reaching that is a violation
// (the upstream no longer connects to the host the user wrote); no connection at
// all / no refresh question is inconclusive.
package main

import (
	"context"
	"crypto/tls"
	"encoding/hex"
	"errors"
	"fmt"
	"math/rand"
	"net"
	"net/netip"
	"strconv"
	"strings"
	"sync"
	"time"

	"github.com/IrineSistiana/mosdns/v5/pkg/pool"
	"github.com/IrineSistiana/mosdns/v5/pkg/upstream"
	"github.com/miekg/dns"
)

type RefreshCase struct {
	N        int    `json:"n"`
	Scheme   string `json:"scheme"`
	Host     string `json:"url_host"`
	DialKind string `json:"dial_kind"` // none | host | host:port
	DialHost string `json:"dial_host,omitempty"`
	BootVer  int    `json:"bootstrap_version"`
	TTL      uint32 `json:"ttl_served"`
	Net2     int    `json:"net2"` // addresses are 127.3.<net2>.<10+4*slot+i>
	Slot     int    `json:"slot"`
}

func (c *RefreshCase) addrs() []netip.Addr {
	var out []netip.Addr
	for i := 0; i < 4; i++ {
		out = append(out, netip.AddrFrom4([4]byte{127, 3, byte(c.Net2), byte(10 + 4*c.Slot + i)}))
	}
	return out
}

func (c *RefreshCase) resolvedName() string {
	if c.DialKind == "none" {
		return c.Host
	}
	return c.DialHost
}

type refreshEvent struct {
	Kind string `json:"kind"` // boot-answer | conn
	Addr string `json:"addr"` // answered address / listener address
	SNI  string `json:"sni,omitempty"`
	Q    int    `json:"during_query"`
	Name string `json:"name,omitempty"`
}

type refreshStep struct {
	K          int    `json:"refresh"`
	Newest     string `json:"newest_answer"`
	AskedAfter int    `json:"queries_until_refresh_question"`
	Judged     int    `json:"queries_judged"`
	Stale      int    `json:"judged_connections_elsewhere"`
	Fresh      int    `json:"judged_connections_at_newest"`
	Converged  bool   `json:"converged"`
}

type refreshOutcome struct {
	Case     *RefreshCase   `json:"refresh_case"`
	Addrs    []string       `json:"addresses"`
	Port     int            `json:"port"`
	Addr     string         `json:"addr"`
	DialAddr string         `json:"dial_addr"`
	Steps    []refreshStep  `json:"steps"`
	Events   []refreshEvent `json:"events"`
	Problems []problem      `json:"-"`
	ProbTxt  []string       `json:"problems,omitempty"`
	Inconcl  string         `json:"inconclusive,omitempty"`
	NewErr   string         `json:"new_error,omitempty"`
}

func genRefreshCases(seed int64, thorough bool) []*RefreshCase {
	rng := rand.New(rand.NewSource(seed ^ 0x5eed18))
	// (tcp:// host names are rejected by NewUpstream - "addr must be an ip address")
	schemes := []string{"tls", "https", "quic", "h3", "tls+pipeline"}
	dialKinds := []string{"none", "host", "host:port"}
	var out []*RefreshCase
	net2 := 1 + rng.Intn(250)
	per := 2
	if thorough {
		per = 6
	}
	off := rng.Intn(6)
	for si, s := range schemes {
		for j := 0; j < per; j++ {
			v := (off + si + j*5) % 6 // (dial kind, bootstrap version) combination
			c := &RefreshCase{N: len(out), Scheme: s, DialKind: dialKinds[v%3], BootVer: []int{0, 4, 6}[rng.Intn(2)], Net2: net2, Slot: len(out)}
			if v >= 3 {
				c.BootVer = 6
			}
			c.Host = fmt.Sprintf("r%d-%s.up.test", len(out), strings.ReplaceAll(s, "+", "-"))
			if c.DialKind != "none" {
				c.DialHost = fmt.Sprintf("d%d.dial.test", len(out))
			}
			c.TTL = []uint32{0, 1, 60, 299, 300, 301, 900, 86400}[rng.Intn(8)]
			out = append(out, c)
		}
	}
	return out
}

type refreshEnv struct {
	c      *RefreshCase
	mu     sync.Mutex
	events []refreshEvent
	curQ   int
	// bootstrap server
	answers  int // distinct questions answered
	answered map[string]netip.Addr
	newest   netip.Addr
	closers  []func()
	dcids    map[string]bool
}

func (e *refreshEnv) log(ev refreshEvent) {
	e.mu.Lock()
	ev.Q = e.curQ
	if len(e.events) < 400 {
		e.events = append(e.events, ev)
	}
	e.mu.Unlock()
}

func (e *refreshEnv) close() {
	for _, f := range e.closers {
		f()
	}
}

// openListeners: same port on all 4 addresses (TCP and UDP).
func (e *refreshEnv) openListeners(addrs []netip.Addr) (int, error) {
	var lastErr error
	for try := 0; try < 20; try++ {
		var tcps []*net.TCPListener
		var udps []*net.UDPConn
		port := 0
		ok := true
		for _, a := range addrs {
			tl, err := net.ListenTCP("tcp4", net.TCPAddrFromAddrPort(netip.AddrPortFrom(a, uint16(port))))
			if err != nil {
				ok, lastErr = false, err
				break
			}
			tcps = append(tcps, tl)
			port = tl.Addr().(*net.TCPAddr).Port
			ul, err := net.ListenUDP("udp4", net.UDPAddrFromAddrPort(netip.AddrPortFrom(a, uint16(port))))
			if err != nil {
				ok, lastErr = false, err
				break
			}
			udps = append(udps, ul)
		}
		if !ok {
			for _, l := range tcps {
				l.Close()
			}
			for _, l := range udps {
				l.Close()
			}
			continue
		}
		for i := range addrs {
			a, tl, ul := addrs[i], tcps[i], udps[i]
			e.closers = append(e.closers, func() { tl.Close(); ul.Close() })
			go e.serveTCP(a, tl)
			go e.serveUDP(a, ul)
		}
		return port, nil
	}
	return 0, lastErr
}

func (e *refreshEnv) serveTCP(a netip.Addr, l *net.TCPListener) {
	for {
		c, err := l.Accept()
		if err != nil {
			return
		}
		go func() {
			defer c.Close()
			_ = c.SetDeadline(time.Now().Add(3 * time.Second))
			ev := refreshEvent{Kind: "conn", Addr: a.String()}
			switch e.c.Scheme {
			case "tls", "tls+pipeline", "https":
				// record the ClientHello's server name, then refuse the handshake
				seen := false
				cfg := &tls.Config{GetConfigForClient: func(h *tls.ClientHelloInfo) (*tls.Config, error) {
					seen = true
					ev.SNI = h.ServerName
					return nil, errors.New("c18 refresh phase: handshake refused")
				}}
				_ = tls.Server(c, cfg).Handshake()
				if !seen {
					ev.SNI = "<no ClientHello>"
				}
			}
			e.log(ev)
		}()
	}
}

// serveUDP: every QUIC Initial with a destination connection id not seen before
// is a new dial; it is answered with a Version Negotiation packet that offers no
// usable version, so that the dial fails at once and the next query dials again.
func (e *refreshEnv) serveUDP(a netip.Addr, l *net.UDPConn) {
	buf := make([]byte, 2048)
	for {
		n, from, err := l.ReadFromUDPAddrPort(buf)
		if err != nil {
			return
		}
		p := buf[:n]
		if n < 7 || p[0]&0x80 == 0 {
			continue
		}
		dl := int(p[5])
		if 6+dl+1 > n {
			continue
		}
		dcid := p[6 : 6+dl]
		sl := int(p[6+dl])
		if 7+dl+sl > n {
			continue
		}
		scid := p[7+dl : 7+dl+sl]
		key := hex.EncodeToString(dcid)
		e.mu.Lock()
		fresh := !e.dcids[key]
		e.dcids[key] = true
		e.mu.Unlock()
		if fresh {
			e.log(refreshEvent{Kind: "conn", Addr: a.String()})
		}
		vn := []byte{0x80 | 0x2a, 0, 0, 0, 0, byte(sl)}
		vn = append(vn, scid...)
		vn = append(vn, byte(dl))
		vn = append(vn, dcid...)
		vn = append(vn, 0x1a, 0x2a, 0x3a, 0x4a)
		_, _ = l.WriteToUDPAddrPort(vn, from)
	}
}

func (e *refreshEnv) openBootstrap(addrs []netip.Addr) (string, error) {
	pc, err := net.ListenUDP("udp", &net.UDPAddr{IP: net.IPv4(127, 0, 0, 1)})
	if err != nil {
		return "", err
	}
	e.closers = append(e.closers, func() { pc.Close() })
	go func() {
		buf := make([]byte, 4096)
		for {
			n, from, err := pc.ReadFromUDPAddrPort(buf)
			if err != nil {
				return
			}
			q := new(dns.Msg)
			if err := q.Unpack(buf[:n]); err != nil || len(q.Question) != 1 {
				continue
			}
			qq := q.Question[0]
			// a retransmitted question (same socket, same id) gets the same answer
			key := from.String() + "/" + strconv.Itoa(int(q.Id))
			e.mu.Lock()
			hand, dup := e.answered[key]
			if !dup {
				i := e.answers
				if i >= len(addrs) {
					i = len(addrs) - 1
				}
				hand = addrs[i]
				e.answered[key] = hand
			}
			e.mu.Unlock()
			r := new(dns.Msg)
			r.SetReply(q)
			hdr := dns.RR_Header{Name: qq.Name, Class: dns.ClassINET, Ttl: e.c.TTL}
			switch qq.Qtype {
			case dns.TypeA:
				hdr.Rrtype = dns.TypeA
				r.Answer = append(r.Answer, &dns.A{Hdr: hdr, A: net.IP(hand.AsSlice())})
			case dns.TypeAAAA:
				hdr.Rrtype = dns.TypeAAAA
				m := netip.AddrFrom16(hand.As16()) // ::ffff:127.x.y.z
				r.Answer = append(r.Answer, &dns.AAAA{Hdr: hdr, AAAA: net.IP(m.AsSlice())})
			default:
				continue
			}
			b, err := r.Pack()
			if err != nil {
				continue
			}
			_, _ = pc.WriteToUDPAddrPort(b, from)
			if !dup {
				// logged AFTER the answer left: queries started later are judged on it
				e.mu.Lock()
				e.answers++
				e.newest = hand
				e.mu.Unlock()
				e.log(refreshEvent{Kind: "boot-answer", Addr: hand.String(), Name: qq.Name + " " + dns.TypeToString[qq.Qtype]})
			}
		}
	}()
	return pc.LocalAddr().String(), nil
}

func (e *refreshEnv) state() (answers int, newest netip.Addr) {
	e.mu.Lock()
	defer e.mu.Unlock()
	return e.answers, e.newest
}

// connsOfQuery: listener addresses of the connections recorded during query q.
func (e *refreshEnv) connsOfQuery(q int) (at []string, snis []string) {
	e.mu.Lock()
	defer e.mu.Unlock()
	for _, ev := range e.events {
		if ev.Kind == "conn" && ev.Q == q {
			at = append(at, ev.Addr)
			snis = append(snis, ev.SNI)
		}
	}
	return
}

func runRefreshCase(c *RefreshCase) *refreshOutcome {
	out := &refreshOutcome{Case: c}
	addrs := c.addrs()
	for _, a := range addrs {
		out.Addrs = append(out.Addrs, a.String())
	}
	env := &refreshEnv{c: c, answered: map[string]netip.Addr{}, dcids: map[string]bool{}}
	defer env.close()
	port, err := env.openListeners(addrs)
	if err != nil {
		out.Inconcl = "listeners: " + err.Error()
		return out
	}
	out.Port = port
	boot, err := env.openBootstrap(addrs)
	if err != nil {
		out.Inconcl = "bootstrap server: " + err.Error()
		return out
	}
	scheme := c.Scheme
	opt := upstream.Opt{Bootstrap: boot, BootstrapVer: c.BootVer, TLSConfig: &tls.Config{InsecureSkipVerify: true}}
	if scheme == "h3" {
		scheme = "https"
		opt.EnableHTTP3 = true
	}
	switch c.DialKind {
	case "none":
		out.Addr = fmt.Sprintf("%s://%s:%d", scheme, c.Host, port)
	case "host":
		out.Addr = fmt.Sprintf("%s://%s:%d", scheme, c.Host, port)
		opt.DialAddr = c.DialHost
	case "host:port":
		out.Addr = fmt.Sprintf("%s://%s", scheme, c.Host)
		opt.DialAddr = fmt.Sprintf("%s:%d", c.DialHost, port)
	}
	if scheme == "https" {
		out.Addr += "/dns-query"
	}
	out.DialAddr = opt.DialAddr
	u, err := upstream.NewUpstream(out.Addr, opt)
	if err != nil {
		out.NewErr = err.Error()
		return out // rejection at creation is an allowed outcome
	}
	defer u.Close()

	qn := 0
	query := func() int {
		env.mu.Lock()
		env.curQ++
		qn = env.curQ
		env.mu.Unlock()
		ctx, cancel := context.WithTimeout(context.Background(), 500*time.Millisecond)
		r, err := u.ExchangeContext(ctx, buildQuery(7000+c.N))
		cancel()
		if err == nil && r != nil {
			pool.ReleaseBuf(r)
		}
		// let the listener goroutines record what this query opened
		time.Sleep(15 * time.Millisecond)
		return qn
	}
	add := func(class, format string, a ...any) {
		out.Problems = append(out.Problems, problem{class, c.Scheme, fmt.Sprintf(format, a...)})
	}
	isTLS := c.Scheme == "tls" || c.Scheme == "tls+pipeline" || c.Scheme == "https"

	for k := 0; k <= 3; k++ {
		st := refreshStep{K: k}
		before, _ := env.state()
		if k > 0 {
			armRefresh()
		}
		// queries until the bootstrap server has answered the (re)resolution
		asked := false
		for i := 0; i < 30 && !asked; i++ {
			query()
			st.AskedAfter++
			for w := 0; w < 20; w++ {
				if n, _ := env.state(); n > before {
					asked = true
					break
				}
				if i < 3 {
					break
				}
				time.Sleep(10 * time.Millisecond)
			}
		}
		if !asked {
			out.Steps = append(out.Steps, st)
			out.Inconcl = fmt.Sprintf("refresh %d: the bootstrap server received no question within 30 queries although the refresh was made due", k)
			break
		}
		time.Sleep(30 * time.Millisecond) // settle: the answer has to be stored
		// judged queries: all of them START after the answer was sent
		streak, sawConn := 0, 0
		var lastStale string
		for i := 0; i < 24 && streak < 3; i++ {
			_, newest := env.state() // a further (unrequested) refresh moves the target
			q := query()
			at, snis := env.connsOfQuery(q)
			_, newest2 := env.state()
			if newest2 != newest {
				streak = 0
				continue
			}
			st.Newest = newest.String()
			st.Judged++
			if len(at) == 0 {
				continue
			}
			sawConn++
			clean := true
			for j, x := range at {
				if x == newest.String() {
					st.Fresh++
				} else {
					st.Stale++
					clean = false
					lastStale = x
				}
				if isTLS && !strings.EqualFold(snis[j], c.Host) {
					add("sni-altered-after-bootstrap-refresh", "after refresh %d a ClientHello arriving at %s:%d carried SNI %q, URL host is %q", k, x, port, snis[j], c.Host)
				}
			}
			if clean {
				streak++
			} else {
				streak = 0
			}
			time.Sleep(time.Duration(5*i) * time.Millisecond)
		}
		st.Converged = streak >= 3
		out.Steps = append(out.Steps, st)
		if sawConn == 0 {
			out.Inconcl = fmt.Sprintf("refresh %d: no connection reached any of the 4 listeners in %d judged queries", k, st.Judged)
			break
		}
		if !st.Converged {
			class := "dest-stale-after-bootstrap-refresh"
			if k == 0 {
				class = "dest-host-altered-first-resolution"
			}
			add(class, "the bootstrap server answered %q with %s (resolution #%d, newest answer); %d queries started after that answer opened %d connections at %s:%d and %d elsewhere (last: %s:%d) - the upstream never settled on the address its host name now resolves to",
				dns.Fqdn(c.resolvedName()), st.Newest, k, st.Judged, st.Fresh, st.Newest, port, st.Stale, lastStale, port)
			break
		}
	}
	env.mu.Lock()
	out.Events = append(out.Events, env.events...)
	env.mu.Unlock()
	if len(out.Events) > 80 {
		out.Events = out.Events[len(out.Events)-80:]
	}
	for _, p := range out.Problems {
		out.ProbTxt = append(out.ProbTxt, p.class+": "+p.text)
	}
	return out
}

// runRefreshPhase executes the cases one after the other (the "refresh is due"
// switch is process wide) and returns the outcomes; reporting happens later on
// the main goroutine.
func runRefreshPhase(cases []*RefreshCase) []*refreshOutcome {
	if !installRefreshHook() {
		return nil
	}
	var outs []*refreshOutcome
	for _, c := range cases {
		done := make(chan *refreshOutcome, 1)
		go func() { done <- runRefreshCase(c) }()
		select {
		case o := <-done:
			outs = append(outs, o)
		case <-time.After(60 * time.Second):
			outs = append(outs, &refreshOutcome{Case: c, Inconcl: "refresh case did not finish within 60 s (watchdog)"})
		}
	}
	return outs
}

func reportRefreshPhase(cases []*RefreshCase, outs []*refreshOutcome, replay bool) {
	if outs == nil {
		rep.Inconclusive("refresh phase: schedule point hook not available (program built without -tags verif)")
		return
	}
	sampled := false
	seenKey := map[string]bool{}
	for _, o := range outs {
		c := o.Case
		rep.Eval(1)
		rep.Count("refresh_cases_run", 1)
		fp := fmt.Sprintf("refresh %s dial=%s bootver=%d ttl=%d", c.Scheme, c.DialKind, c.BootVer, c.TTL)
		for _, st := range o.Steps {
			if st.K > 0 && st.Converged {
				rep.Count("refresh_steps_judged_converged_on_newest_address", 1)
				rep.Count("refresh_steps_converged_"+c.Scheme, 1)
			}
			if st.K > 0 {
				rep.Count("refresh_connections_judged_at_newest", int64(st.Fresh))
				rep.Count("refresh_connections_judged_elsewhere_while_settling", int64(st.Stale))
				rep.Max("refresh_max_queries_until_refresh_question", int64(st.AskedAfter))
				rep.Max("refresh_max_judged_queries_in_one_step", int64(st.Judged))
			}
		}
		if len(o.Problems) > 0 {
			for _, p := range o.Problems {
				key := p.class + "-" + schemeName(c.Scheme)
				if seenKey[key] {
					continue
				}
				seenKey[key] = true
				rep.Violation(key, fmt.Sprintf("addr %q dial_addr %q bootstrap_version %d (record ttl %d): %s", o.Addr, o.DialAddr, c.BootVer, c.TTL, p.text), o)
			}
			continue
		}
		if o.NewErr != "" {
			rep.Count("refresh_cases_rejected_by_NewUpstream", 1)
			continue
		}
		if o.Inconcl != "" {
			rep.Count("refresh_cases_inconclusive", 1)
			rep.Inconclusive("refresh phase, %s (%q dial_addr %q): %s", fp, o.Addr, o.DialAddr, o.Inconcl)
			continue
		}
		rep.Nontrivial(fp + "|" + o.Addr)
		rep.SetAdd("refresh_classes_observed", fmt.Sprintf("%s dial=%s bootver=%d", c.Scheme, c.DialKind, c.BootVer))
		if !sampled && rep.WantSample() {
			sampled = true
			rep.Sample(o)
		}
	}
	if !replay && rep.Get("refresh_steps_judged_converged_on_newest_address") == 0 && rep.Violations() == 0 {
		rep.Inconclusive("monitor counter refresh_steps_judged_converged_on_newest_address is zero")
	}
}
