package main

import (
	"fmt"
	"math/rand"
	"net/netip"
	"strconv"
	"strings"
)

// Case is the STRUCTURED description of one upstream configuration. The address
// strings handed to mosdns (Addr, DialAddr) are rendered from it; the oracle
// derives its expectation from the structured members only and never re-parses
// the rendered strings.
type Case struct {
	ID     int    `json:"id"`
	Scheme string `json:"scheme"` // "" = no scheme written

	HostClass string `json:"host_class"` // fine-grained generator class (evidence)
	HostKind  string `json:"host_kind"`  // ipv4 | ipv6 | hostname
	Host      string `json:"host"`       // canonical IP text, or the hostname as written
	HostText  string `json:"host_text"`  // exactly as written, without brackets
	Bracket   bool   `json:"bracket"`

	Port      int    `json:"port"` // 0 = not written
	PortClass string `json:"port_class"`
	// AmbigPort: bare (unbracketed) IPv6 followed by ":port" - the written text
	// is itself a valid IPv6 address; both readings are accepted by the oracle.
	AmbigPort bool `json:"ambiguous_port,omitempty"`

	// Unhonourable: the address carries a port that no upstream can honour
	// (outside 1..65535, empty, not a number). BadPort is the port text exactly
	// as written, BadWhere says where ("url" | "dialaddr"), BadKind names the
	// class. Such a case MUST be rejected by NewUpstream.
	BadPort  string `json:"bad_port,omitempty"`
	BadWhere string `json:"bad_where,omitempty"`
	BadKind  string `json:"bad_kind,omitempty"`

	DialKind string `json:"dial_kind"` // none | ip | ip-port | ipv6-bare | ipv6-bracket-port | host | host-port
	DialHost string `json:"dial_host,omitempty"`
	DialIsIP bool   `json:"dial_is_ip,omitempty"`
	DialPort int    `json:"dial_port,omitempty"`
	DialAddr string `json:"dial_addr,omitempty"` // Opt.DialAddr exactly as written

	Path string `json:"path,omitempty"`

	Via     string `json:"via"`               // direct | socks5
	BootVer int    `json:"boot_ver"`          // bootstrap server is always configured: 4 / 6
	BootIP  string `json:"boot_ip,omitempty"` // the address the harness bootstrap server hands out ("" = empty answer)
	TC      bool   `json:"tc,omitempty"`      // udp: first answer truncated -> TCP fallback dial

	Addr string `json:"addr"` // address string handed to upstream.NewUpstream

	// Siblings: upstreams created in sequence in one process from shared inputs.
	//   shared-tlsconfig: all members are built from ONE *tls.Config (ServerName
	//                     empty) and have different URL hosts;
	//   same-host:        all members name the same host and use the same bootstrap
	//                     server, but differ in scheme / port.
	// Every member keeps its own expectation. Group = id of the first member,
	// Order = position in creation order.
	//   forward:          all members are the upstreams of ONE forward plugin
	//                     (fastforward.NewForward), in this order; see fwd.go.
	GroupKind string `json:"group_kind,omitempty"`
	Group     int    `json:"group,omitempty"`
	Order     int    `json:"order,omitempty"`
	GroupSize int    `json:"group_size,omitempty"`

	// ---- option dimension (fwd.go); zero values = the phase-1 behaviour ----
	// Scheme is always the EFFECTIVE scheme. BaseViaOpt: the helper alias is not
	// written into the url ("tcp://", "tls://", "https://") but expressed through
	// enable_pipeline / enable_http3.
	BaseViaOpt     bool `json:"alias_via_option,omitempty"`
	EnablePipeline bool `json:"enable_pipeline,omitempty"` // as configured (may be one the scheme ignores)
	EnableHTTP3    bool `json:"enable_http3,omitempty"`    // as configured (may be one the scheme ignores)
	IdleTimeout    int  `json:"idle_timeout,omitempty"`    // seconds, as configured
	// Socks5Opt: "" = phase-1 (own proxy iff Via == socks5) | none | own | global.
	// Via is "socks5" only if a proxy is configured AND the scheme is documented to
	// honour it (tcp, tls, https); for udp, quic and h3 the option is documented as
	// not implemented: the proxy is then a decoy that must not receive anything.
	Socks5Opt string `json:"socks5_opt,omitempty"`
	BootOpt   string `json:"bootstrap_opt,omitempty"` // "" = own | own | global | none
	// BootVerInherit: bootstrap_version is not written on the upstream, the
	// plugin-global one (GlobalBootVer) is in force (BootVer holds the effective one)
	BootVerInherit bool   `json:"bootstrap_version_inherited,omitempty"`
	MarkOpt        string `json:"so_mark_opt,omitempty"` // "" = own | own | global
	// plugin-global options of the forward group this member belongs to
	GlobalSocks5  bool   `json:"global_socks5,omitempty"`
	GlobalBoot    bool   `json:"global_bootstrap,omitempty"`
	GlobalBootVer int    `json:"global_bootstrap_version,omitempty"`
	Focus         string `json:"focus,omitempty"` // the option whose presence pattern the group varies, e.g. "dial_addr:+-+"

	// ---- server-behaviour dimension (hostile.go); zero values = a well-behaved server ----
	// Srv is the class of behaviour the harness server at the configured destination
	// plays (redirect | alt-svc | misdirected | conn-close | alpn | quic-retry),
	// SrvVariant the concrete one (redirect target, closing point, ALPN offer ...),
	// SrvStatus the HTTP status of a redirect / refusal. Exchanges: how many
	// exchanges are made in sequence on the one upstream (0 = one).
	Srv        string `json:"server_behaviour,omitempty"`
	SrvVariant string `json:"server_variant,omitempty"`
	SrvStatus  int    `json:"server_status,omitempty"`
	Exchanges  int    `json:"exchanges,omitempty"`
}

// siblingSuffix goes into the violation keys of group members (the first member
// can be affected by what a later one does to the shared input, too).
func (c *Case) siblingSuffix() string {
	if c.GroupKind == "" {
		return ""
	}
	if c.GroupKind == "same-host" {
		return "-sibling-same-host"
	}
	if c.GroupKind == "forward" {
		return "-forward-plugin-member"
	}
	return "-" + []string{"first", "second", "third"}[c.Order] + "-upstream-shared-tlsconfig"
}

var schemes = []string{"", "udp", "tcp", "tcp+pipeline", "tls", "tls+pipeline", "https", "h3", "quic"}

var hostClasses = []string{
	"v4-loopback", "v4-doc",
	"b6-loopback", "b6-loopback-full", "b6-mid", "b6-mid-full", "b6-zero-end", "b6-zero-start",
	"b6-mapped-loopback", "b6-variety",
	"bare6-loopback", "bare6-mid", "bare6-zero-end", "bare6-full",
	"hostname", "hostname-mixedcase",
}

var portClasses = []string{"none", "random", "53", "853", "none", "1", "65535", "443", "random"}

var dialKinds = []string{"ip", "ip-port", "ipv6-bare", "ipv6-bracket-port", "host", "host-port"}

// ports that cannot be honoured (the url parser itself refuses signs, so those
// are only written into dial_addr)
var badPorts = []struct {
	text, kind string
	dialOnly   bool
}{
	{"65536", "port-above-65535", false},
	{"65589", "port-above-65535", false},
	{"66389", "port-above-65535", false},
	{"65979", "port-above-65535", false},
	{"70000", "port-above-65535", false},
	{"99999", "port-above-65535", false},
	{"131125", "port-above-65535", false},
	{"4294967349", "port-above-65535", false},
	{"4294968149", "port-above-65535", false},
	{"18446744073709551669", "port-above-65535", false},
	{"", "port-empty", false},
	{"5x", "port-non-numeric", false},
	{"dns", "port-non-numeric", false},
	{"-1", "port-negative", true},
	{"-65483", "port-negative", true},
}

func schemeName(s string) string {
	if s == "" {
		return "none"
	}
	return s
}

func defaultPort(scheme string) int {
	switch scheme {
	case "", "udp", "tcp", "tcp+pipeline":
		return 53
	case "tls", "tls+pipeline", "quic":
		return 853
	default: // https, h3
		return 443
	}
}

func tcpBased(scheme string) bool {
	switch scheme {
	case "tcp", "tcp+pipeline", "tls", "tls+pipeline", "https":
		return true
	}
	return false
}

func tlsBased(scheme string) bool {
	switch scheme {
	case "tls", "tls+pipeline", "https", "h3", "quic":
		return true
	}
	return false
}

// loop4 returns a loopback IPv4 address unique to (case id, k): 127.a.b.c with
// a>=10 so that it never collides with 127.0.0.1 style listeners of other programs.
func loop4(id, k int) netip.Addr {
	n := id*4 + k + 1
	c := 1 + n%250
	b := 1 + (n/250)%250
	a := 10 + (n/62500)%100
	return netip.AddrFrom4([4]byte{127, byte(a), byte(b), byte(c)})
}

func docV4(r *rand.Rand) netip.Addr {
	if r.Intn(2) == 0 {
		return netip.AddrFrom4([4]byte{198, 51, 100, byte(1 + r.Intn(254))})
	}
	return netip.AddrFrom4([4]byte{203, 0, 113, byte(1 + r.Intn(254))})
}

func hextet(r *rand.Rand) uint16 { return uint16(1 + r.Intn(0xfffe)) }

func v6(h [8]uint16) netip.Addr {
	var b [16]byte
	for i, x := range h {
		b[2*i] = byte(x >> 8)
		b[2*i+1] = byte(x)
	}
	return netip.AddrFrom16(b)
}

func v6full(a netip.Addr) string {
	b := a.As16()
	p := make([]string, 8)
	for i := range p {
		p[i] = fmt.Sprintf("%04x", uint16(b[2*i])<<8|uint16(b[2*i+1]))
	}
	return strings.Join(p, ":")
}

func v6nolead(a netip.Addr) string {
	b := a.As16()
	p := make([]string, 8)
	for i := range p {
		p[i] = fmt.Sprintf("%x", uint16(b[2*i])<<8|uint16(b[2*i+1]))
	}
	return strings.Join(p, ":")
}

var loop6 = netip.MustParseAddr("::1")

func docMid(r *rand.Rand) netip.Addr {
	return v6([8]uint16{0x2001, 0xdb8, hextet(r), 0, 0, 0, 0, hextet(r)})
}
func docEnd(r *rand.Rand) netip.Addr {
	return v6([8]uint16{0x2001, 0xdb8, hextet(r), hextet(r), 0, 0, 0, 0})
}
func zeroStart(r *rand.Rand) netip.Addr {
	return v6([8]uint16{0, 0, 0, 0, 0, 0, hextet(r), hextet(r)})
}
func docNoZero(r *rand.Rand) netip.Addr {
	return v6([8]uint16{0x2001, 0xdb8, hextet(r), hextet(r), hextet(r), hextet(r), hextet(r), hextet(r)})
}

func hostLabel(r *rand.Rand, id int, zone string) string {
	return fmt.Sprintf("c%d-%04x.%s.test", id, r.Intn(0x10000), zone)
}

func mixCase(r *rand.Rand, s string) string {
	b := []byte(s)
	for i, ch := range b {
		if ch >= 'a' && ch <= 'z' && r.Intn(2) == 0 {
			b[i] = ch - 32
		}
	}
	return string(b)
}

// casePort: a port below the ephemeral range and above the well known ones that
// no other case within 10000 consecutive ids uses (k = 0 url, 1 dial_addr), so
// that "random port" cases never share a [::1]:port with anybody.
func casePort(id, k int) int {
	return 10000 + (id*2+k)%20000
}

// genCases builds the seed-determined case list. Scheme x host class x port
// class are cycled systematically (every combination of scheme and host class
// appears within the first 9*16 cases, first without a port); dial_addr, path,
// proxy / bootstrap and the concrete addresses are drawn from the PRNG.
func genCases(seed int64, n int) []*Case {
	r := rand.New(rand.NewSource(seed))
	layer := len(schemes) * len(hostClasses)
	out := make([]*Case, 0, n)
	// seed-dependent rotation so that different seeds do not start identically
	rotS, rotH, rotP := r.Intn(len(schemes)), r.Intn(len(hostClasses)), r.Intn(len(portClasses)-1)
	tlsSchemes := []string{"tls", "tls+pipeline", "quic", "https", "h3"}
	for i := 0; len(out) < n; i++ {
		// every 11th slot beyond the systematic layers is a sibling group
		if i >= 2*layer && i%11 == 10 && len(out)+3 <= n {
			first := len(out)
			size := 2 + r.Intn(2)
			if (i/11)%2 == 0 {
				// ONE shared *tls.Config, different url hosts. The first member is a
				// tls / quic upstream in 3 of 4 groups (those set ServerName themselves).
				for k := 0; k < size; k++ {
					c := &Case{ID: len(out), GroupKind: "shared-tlsconfig", Group: first, Order: k, GroupSize: size}
					c.Scheme = tlsSchemes[r.Intn(len(tlsSchemes))]
					if k == 0 && r.Intn(4) > 0 {
						c.Scheme = tlsSchemes[r.Intn(3)]
					}
					c.HostClass = []string{"hostname", "hostname-mixedcase", "v4-loopback", "b6-mapped-loopback", "hostname", "b6-loopback"}[r.Intn(6)]
					c.PortClass = []string{"none", "random", "random"}[r.Intn(3)]
					if c.HostClass == "b6-loopback" {
						c.PortClass = "random"
					}
					c.DialKind = "none"
					if r.Intn(4) == 0 {
						c.DialKind = "ip-port"
					}
					fill(r, c)
					out = append(out, c)
				}
			} else {
				// same host name, same bootstrap server, different scheme / port
				host := hostLabel(r, first, "provider")
				ver, ip := 4, loop4(first, 2).String()
				if r.Intn(4) == 0 {
					ver, ip = 6, "::1"
				}
				used := map[int]bool{}
				for k := 0; k < size; k++ {
					c := &Case{ID: len(out), GroupKind: "same-host", Group: first, Order: k, GroupSize: size}
					c.Scheme = tlsSchemes[r.Intn(len(tlsSchemes))]
					c.HostClass, c.DialKind = "hostname", "none"
					c.PortClass = []string{"none", "random", "853", "443"}[r.Intn(4)]
					fill(r, c)
					eff := c.Port
					if eff == 0 {
						eff = defaultPort(c.Scheme)
					}
					if used[eff] { // members must differ in port
						c.Port, c.PortClass = casePort(c.ID, 0), "random"
						eff = c.Port
					}
					used[eff] = true
					c.HostText, c.Host = host, host
					c.Via, c.BootVer, c.BootIP = "direct", ver, ip
					c.render()
					out = append(out, c)
				}
			}
			continue
		}
		c := &Case{ID: len(out)}
		c.Scheme = schemes[(i+rotS)%len(schemes)]
		c.HostClass = hostClasses[(i/len(schemes)+rotH)%len(hostClasses)]
		if i < layer {
			c.PortClass = "none"
		} else {
			c.PortClass = portClasses[(i/layer+rotP)%len(portClasses)]
		}
		if i < 2*layer || r.Intn(100) < 45 {
			c.DialKind = "none"
		} else {
			c.DialKind = dialKinds[r.Intn(len(dialKinds))]
		}
		// every 7th case beyond the two systematic layers (7 is coprime to the
		// scheme / host class cycle, so every scheme x host form gets its turn)
		// carries a port that cannot be honoured
		if i >= 2*layer && i%7 == 6 {
			bp := badPorts[r.Intn(len(badPorts))]
			c.BadPort, c.BadKind = bp.text, bp.kind
			if bp.dialOnly || r.Intn(2) == 0 {
				c.BadWhere = "dialaddr"
			} else {
				c.BadWhere = "url"
			}
		}
		fill(r, c)
		out = append(out, c)
	}
	return out
}

func fill(r *rand.Rand, c *Case) {
	id := c.ID
	// ---- URL host ----
	var a netip.Addr
	switch c.HostClass {
	case "v4-loopback":
		a = loop4(id, 0)
		c.HostKind, c.HostText = "ipv4", a.String()
	case "v4-doc":
		a = docV4(r)
		c.HostKind, c.HostText = "ipv4", a.String()
	case "b6-loopback":
		a, c.Bracket = loop6, true
		c.HostKind, c.HostText = "ipv6", "::1"
	case "b6-loopback-full":
		a, c.Bracket = loop6, true
		c.HostKind = "ipv6"
		if r.Intn(2) == 0 {
			c.HostText = v6full(a)
		} else {
			c.HostText = v6nolead(a)
		}
	case "b6-mid":
		a, c.Bracket = docMid(r), true
		c.HostKind, c.HostText = "ipv6", a.String()
	case "b6-mid-full":
		a, c.Bracket = docMid(r), true
		c.HostKind, c.HostText = "ipv6", v6full(a)
	case "b6-zero-end":
		a, c.Bracket = docEnd(r), true
		c.HostKind, c.HostText = "ipv6", a.String()
	case "b6-zero-start":
		a, c.Bracket = zeroStart(r), true
		c.HostKind, c.HostText = "ipv6", a.String()
	case "b6-mapped-loopback":
		l := loop4(id, 0)
		a, c.Bracket = netip.AddrFrom16(l.As16()), true
		c.HostKind, c.HostText = "ipv6", "::ffff:"+l.String()
	case "b6-variety":
		c.Bracket, c.HostKind = true, "ipv6"
		switch r.Intn(4) {
		case 0:
			a = docNoZero(r)
			c.HostText = a.String()
		case 1:
			a = docMid(r)
			c.HostText = strings.ToUpper(a.String())
		case 2:
			a = docEnd(r)
			c.HostText = v6nolead(a)
		default:
			d := docV4(r)
			a = netip.AddrFrom16(d.As16())
			c.HostText = "::ffff:" + d.String()
		}
	case "bare6-loopback":
		a = loop6
		c.HostKind, c.HostText = "ipv6", "::1"
	case "bare6-mid":
		a = docMid(r)
		c.HostKind, c.HostText = "ipv6", a.String()
	case "bare6-zero-end":
		a = docEnd(r)
		c.HostKind, c.HostText = "ipv6", a.String()
	case "bare6-full":
		if r.Intn(2) == 0 {
			a = loop6
		} else {
			a = docMid(r)
		}
		c.HostKind, c.HostText = "ipv6", v6full(a)
	case "hostname":
		c.HostKind, c.HostText = "hostname", hostLabel(r, id, "dns")
	case "hostname-mixedcase":
		c.HostKind, c.HostText = "hostname", mixCase(r, hostLabel(r, id, "dns"))
	default:
		panic("host class " + c.HostClass)
	}
	if c.HostKind == "hostname" {
		c.Host = c.HostText
	} else {
		c.Host = a.String()
	}

	// ---- port ----
	if c.BadPort != "" || c.BadKind != "" {
		if c.BadWhere == "url" && c.HostKind == "ipv6" && !c.Bracket {
			// bare IPv6 + ":text" is ambiguous text, not a port: put the bad port into dial_addr
			c.BadWhere = "dialaddr"
		}
		if c.BadWhere == "url" {
			c.PortClass = "none"
		} else {
			// keep the rest of the configuration acceptable, so that the bad
			// port is the only reason to refuse: no hostname dial_addr where the
			// scheme demands an IP, no ambiguous url text
			kinds := []string{"ip-port", "ipv6-bracket-port", "host-port"}
			if !tlsBased(c.Scheme) {
				kinds = kinds[:2]
			}
			c.DialKind = kinds[r.Intn(len(kinds))]
			if c.HostKind == "ipv6" && !c.Bracket {
				c.PortClass = "none"
			}
		}
	}
	switch c.PortClass {
	case "none":
	case "random":
		c.Port = casePort(id, 0)
	default:
		c.Port, _ = strconv.Atoi(c.PortClass)
	}
	if c.Port != 0 && c.HostKind == "ipv6" && !c.Bracket {
		c.AmbigPort = true
	}

	// ---- dial_addr ----
	dport := func() int {
		switch r.Intn(5) {
		case 0:
			return 53
		case 1:
			return 853
		case 2:
			return 443
		default:
			return casePort(id, 1)
		}
	}
	dportText := func() string {
		if c.BadWhere == "dialaddr" {
			return c.BadPort // DialPort stays 0: there is no port that could be expected
		}
		c.DialPort = dport()
		return strconv.Itoa(c.DialPort)
	}
	switch c.DialKind {
	case "none":
	case "ip", "ip-port":
		var d netip.Addr
		if r.Intn(3) > 0 {
			d = loop4(id, 1)
		} else {
			d = docV4(r)
		}
		c.DialHost, c.DialIsIP, c.DialAddr = d.String(), true, d.String()
		if c.DialKind == "ip-port" {
			c.DialAddr += ":" + dportText()
		}
	case "ipv6-bare", "ipv6-bracket-port":
		var d netip.Addr
		var txt string
		switch r.Intn(5) {
		case 0, 1:
			d, txt = loop6, "::1"
		case 2:
			d = docMid(r)
			txt = d.String()
		case 3:
			d = docEnd(r)
			txt = d.String()
		default:
			d = docMid(r)
			txt = v6full(d)
		}
		c.DialHost, c.DialIsIP = d.String(), true
		if c.DialKind == "ipv6-bare" {
			c.DialAddr = txt
		} else {
			c.DialAddr = "[" + txt + "]:" + dportText()
		}
	case "host", "host-port":
		h := hostLabel(r, id, "dial")
		c.DialHost, c.DialAddr = h, h
		if c.DialKind == "host-port" {
			c.DialAddr += ":" + dportText()
		}
	default:
		panic("dial kind " + c.DialKind)
	}

	// ---- path ----
	switch r.Intn(4) {
	case 0:
		c.Path = "/dns-query"
	case 1:
		c.Path = fmt.Sprintf("/p%d/q", r.Intn(1000))
	}

	// ---- how the network layer is reached ----
	netIsName := c.HostKind == "hostname"
	if c.DialKind != "none" {
		netIsName = !c.DialIsIP
	}
	c.Via = "direct"
	if tcpBased(c.Scheme) {
		p := 15
		if netIsName {
			p = 30
		}
		if r.Intn(100) < p {
			c.Via = "socks5"
		}
	}
	// a bootstrap server is configured whenever any hostname is involved, so that
	// no resolution ever reaches the system resolver and every name asked is seen
	// (also for IP-literal cases: if mosdns mistakes a mangled literal for a name,
	// the question arrives at the harness instead of the system resolver; without
	// a hostname in the case the server answers with an empty answer section)
	if r.Intn(4) == 0 {
		c.BootVer = 6
	} else {
		c.BootVer = 4
	}
	if c.HostKind == "hostname" || (c.DialKind != "none" && !c.DialIsIP) {
		if c.BootVer == 6 {
			c.BootIP = "::1"
		} else {
			c.BootIP = loop4(id, 2).String()
		}
	}
	if c.Scheme == "" || c.Scheme == "udp" {
		c.TC = r.Intn(3) == 0
	}

	c.render()
}

// writtenScheme: the scheme as it appears in the url.
func (c *Case) writtenScheme() string {
	if c.BaseViaOpt {
		switch c.Scheme {
		case "tcp+pipeline":
			return "tcp"
		case "tls+pipeline":
			return "tls"
		case "h3":
			return "https"
		}
	}
	return c.Scheme
}

// render writes the address string from the structured members.
func (c *Case) render() {
	var sb strings.Builder
	if ws := c.writtenScheme(); ws != "" {
		sb.WriteString(ws)
		sb.WriteString("://")
	}
	if c.Bracket {
		sb.WriteString("[" + c.HostText + "]")
	} else {
		sb.WriteString(c.HostText)
	}
	if c.Port != 0 {
		sb.WriteString(":" + strconv.Itoa(c.Port))
	} else if c.BadWhere == "url" {
		sb.WriteString(":" + c.BadPort)
	}
	sb.WriteString(c.Path)
	c.Addr = sb.String()
}

// ---------------------------------------------------------------------------
// expectation, derived from the structured case
// ---------------------------------------------------------------------------

type Expect struct {
	NetIsName bool
	NetName   string           // hostname handed to the resolver / proxy (when NetIsName)
	NetIPs    []netip.Addr     // literal destination(s) (when !NetIsName); 2 entries only for AmbigPort
	Lit       []netip.AddrPort // allowed literal (ip, port) destinations (when !NetIsName), unmapped
	Dests     []netip.AddrPort // allowed kernel-level destinations of a directly dialed case (after bootstrap)
	NetPort   int
	AltPort   int // second accepted port (only for AmbigPort with a port-less dial_addr), 0 if none

	SNI       string       // expected ClientHello server name ("" for IP literals: Go sends none)
	CertIPs   []netip.Addr // IP SANs of the harness leaf (exactly the URL host)
	CertNames []string     // DNS SANs of the harness leaf
	HTTPPath  string

	Reachable bool           // the harness can listen where the connection must arrive
	Listen    netip.AddrPort // where (valid if Reachable && Via != socks5)
}

// expect derives what must be observed from the structured case.
//
// Bare IPv6 followed by ":port" (AmbigPort) is inherently ambiguous: the text may
// be read as (address, port), as one longer IPv6 address without a port, or - if
// it is not a valid literal at all - as a name. The oracle accepts every one of
// these readings and only insists that no *other* destination is contacted.
func (c *Case) expect() Expect {
	var e Expect
	def := defaultPort(c.Scheme)

	// URL host readings
	type reading struct {
		ip   netip.Addr
		port int
	}
	var urlReadings []reading
	if c.HostKind != "hostname" {
		ip := netip.MustParseAddr(c.Host)
		urlReadings = append(urlReadings, reading{ip, c.Port})
		if c.AmbigPort {
			if ip2, err := netip.ParseAddr(c.HostText + ":" + strconv.Itoa(c.Port)); err == nil {
				urlReadings = append(urlReadings, reading{ip2, 0})
			}
		}
	}
	orDef := func(p int) int {
		if p == 0 {
			return def
		}
		return p
	}

	// network-layer host and port
	switch {
	case c.DialKind == "none":
		if c.HostKind == "hostname" {
			e.NetIsName, e.NetName = true, c.Host
			e.NetPort = orDef(c.Port)
		} else {
			for _, rd := range urlReadings {
				e.NetIPs = append(e.NetIPs, rd.ip)
				e.Lit = append(e.Lit, netip.AddrPortFrom(rd.ip.Unmap(), uint16(orDef(rd.port))))
			}
			e.NetPort = orDef(c.Port)
		}
	default:
		// dial_addr overrides the host and, if it carries one, the port; a
		// port-less dial_addr leaves the port written in the URL in force
		if c.DialPort != 0 {
			e.NetPort = c.DialPort
		} else {
			e.NetPort = orDef(c.Port)
			if c.AmbigPort {
				e.AltPort = def
			}
		}
		if c.DialIsIP {
			ip := netip.MustParseAddr(c.DialHost)
			e.NetIPs = []netip.Addr{ip}
			e.Lit = append(e.Lit, netip.AddrPortFrom(ip.Unmap(), uint16(e.NetPort)))
			if e.AltPort != 0 && e.AltPort != e.NetPort {
				e.Lit = append(e.Lit, netip.AddrPortFrom(ip.Unmap(), uint16(e.AltPort)))
			}
		} else {
			e.NetIsName, e.NetName = true, c.DialHost
		}
	}

	// kernel-level destinations
	if c.Via != "socks5" {
		if e.NetIsName {
			if c.BootIP != "" {
				b := netip.MustParseAddr(c.BootIP)
				e.Dests = append(e.Dests, netip.AddrPortFrom(b, uint16(e.NetPort)))
				if e.AltPort != 0 && e.AltPort != e.NetPort {
					e.Dests = append(e.Dests, netip.AddrPortFrom(b, uint16(e.AltPort)))
				}
				if len(e.Dests) == 1 {
					e.Reachable = true
					e.Listen = e.Dests[0]
				}
			}
		} else {
			e.Dests = e.Lit
			if len(e.Dests) == 1 && e.Dests[0].Addr().IsLoopback() {
				e.Reachable = true
				e.Listen = e.Dests[0]
			}
		}
	} else {
		e.Reachable = true // the harness proxy itself plays the destination
	}

	// TLS name / HTTP
	if c.HostKind == "hostname" {
		e.SNI = strings.ToLower(c.Host)
		e.CertNames = []string{strings.ToLower(c.Host)}
	} else {
		for _, rd := range urlReadings {
			e.CertIPs = append(e.CertIPs, rd.ip)
		}
	}
	e.HTTPPath = c.Path
	if e.HTTPPath == "" {
		e.HTTPPath = "/"
	}
	if c.unhonourable() {
		// nothing may be contacted at all: the only allowed outcome is rejection
		e.Lit, e.Dests, e.Reachable = nil, nil, false
	}
	return e
}

func (c *Case) unhonourable() bool { return c.BadWhere != "" }

// hostKey is the coarse written form used in violation keys.
func (c *Case) hostKey() string {
	var k string
	switch {
	case c.HostKind == "ipv4":
		k = "ipv4"
	case c.HostKind == "hostname":
		k = "hostname"
	case c.Bracket:
		k = "bracketed-ipv6"
	default:
		k = "bare-ipv6"
	}
	switch {
	case c.Port == 0:
		k += "-no-port"
	case c.AmbigPort:
		k += "-ambiguous-port"
	default:
		k += "-port"
	}
	return k
}

// formKey names what decides the network destination: the dial_addr form if one
// is configured, else the URL host form.
func (c *Case) formKey() string {
	if c.DialKind == "none" {
		return c.hostKey()
	}
	switch {
	case c.DialPort != 0:
		return "dialaddr-with-port"
	case c.Port != 0:
		return "dialaddr-without-port-url-with-port"
	default:
		return "dialaddr-without-port-url-without-port"
	}
}

func (c *Case) classFP() string {
	if c.Srv != "" {
		return strings.Join([]string{schemeName(c.Scheme), c.HostClass, c.PortClass, c.DialKind, c.Via, "server=" + c.srvFP()}, "|")
	}
	return strings.Join([]string{schemeName(c.Scheme), c.HostClass, c.PortClass, c.DialKind, c.Via, c.GroupKind, fmt.Sprint(c.Order),
		fmt.Sprint(c.BootVer), fmt.Sprint(c.Path != ""), fmt.Sprint(c.TC), c.optFP()}, "|")
}
