// C16 — stream framing is exact in both directions.
//
// Oracle: lib/wire's independent framer (2-byte big-endian length + exact body)
// parses everything mosdns writes and produces everything mosdns reads; message
// content is PRNG(seed, length) so that shifts, mix-ups and wrong sizes are
// visible; lib/poolsan checks every buffer mosdns hands out.
//
// Workloads: (1) round trips through WriteRawMsgToTCP / WriteMsgToTCP /
// PackTCPBuffer and ReadRawMsgFromTCP / ReadMsgFromTCP under chunking readers
// for the lengths of the tier; (2) refusal of > 65535 byte messages by every
// writer with nothing written; (3) malformed streams (length <= 12, short
// body, EOF/read error at every offset, generated garbage): error, never a
// panic or a buffer of another size; (4) concurrent writers on one serialised
// stream; (5) many concurrent callers on TraditionalDnsConn / PipelineTransport
// / ReuseConnTransport over lib/fakenet: the serialised write log must deframe
// into intact queries, replies come back exact through chunked reads;
// (6) server.ServeTCP (plain, TLS) and server.ServeDoQ on real loopback
// listeners with hundreds of pipelined queries answered concurrently after
// random delays with 13 B..60 KiB replies: the client-side deframer must see
// only intact frames with the ID-derived content; (7) mosdns' DoQ client
// connection against a harness QUIC peer; (8) message CONTENT classes (every
// record kind mosdns relays, escapes, base64/hex/base32 fields of every padding
// class, bitmaps, SVCB parameters, OPT options, unknown types; parsed from text
// or relayed from the wire; compression on/off): several consecutive messages
// per stream through PackTCPBuffer, WriteMsgToTCP and the reply path of the
// three servers (content.go); (9) read errors striking in the MIDDLE of a frame
// on the upstream connections while other queries stand at every point of
// their exchange: every buffer handed out afterwards must be a frame the peer
// sent and every frame the reader accepts must end where a peer frame ends
// (midframe.go).
package main

import (
	"encoding/hex"
	"encoding/json"
	"fmt"
	"math/rand"
	"os"
	"runtime"
	"sync"
	"time"

	"verifharness/lib/evid"
	"verifharness/lib/poolsan"
)

var (
	rep     *evid.Reporter
	caselog *evid.CaseLog
)

var (
	phaseT     = map[string]float64{}
	phaseStart time.Time
	phaseName  string
)

func phase(name string) {
	now := time.Now()
	if phaseName != "" {
		phaseT[phaseName] += now.Sub(phaseStart).Seconds()
	}
	phaseName, phaseStart = name, now
	rep.Extra("phase_seconds", phaseT)
}

var (
	sampleMu sync.Mutex
	sampleN  = map[string]int{}
)

// sampleKind keeps at most max samples of one kind so that the evidence shows
// one written-out case of every workload.
func sampleKind(kind string, max int, v any) {
	sampleMu.Lock()
	ok := sampleN[kind] < max
	if ok {
		sampleN[kind]++
	}
	sampleMu.Unlock()
	if ok {
		rep.Sample(v)
	}
}

func replay() {
	var raw json.RawMessage
	if err := rep.LoadReplay(&raw); err != nil {
		fmt.Println("cannot load replay:", err)
		os.Exit(3)
	}
	// the case is either the descriptor itself or wrapped in {"case": ...} / {"cfg": ...}
	var wrap struct {
		Kind string          `json:"kind"`
		Case json.RawMessage `json:"case"`
		Cfg  json.RawMessage `json:"cfg"`
	}
	_ = json.Unmarshal(raw, &wrap)
	for depth := 0; wrap.Kind == "" && depth < 3; depth++ {
		switch {
		case wrap.Case != nil:
			raw = wrap.Case
		case wrap.Cfg != nil:
			raw = wrap.Cfg
		default:
			fmt.Println("replay file carries no case descriptor (crash witnesses: see the 'case' member)")
			os.Exit(3)
		}
		wrap.Kind, wrap.Case, wrap.Cfg = "", nil, nil
		_ = json.Unmarshal(raw, &wrap)
	}
	switch wrap.Kind {
	case "roundtrip":
		var c rtCase
		_ = json.Unmarshal(raw, &c)
		roundTrip(c)
	case "refuse":
		var c refuseCase
		_ = json.Unmarshal(raw, &c)
		if len(c.Fn) > 10 && c.Fn[:10] == "transport-" {
			transportRefuseOne(c, c.Fn[10:])
		} else {
			refuseOne(c)
		}
	case "garbage":
		var c garbageCase
		_ = json.Unmarshal(raw, &c)
		s, err := hex.DecodeString(c.StreamHex)
		if err != nil {
			fmt.Println("bad stream hex:", err)
			os.Exit(3)
		}
		runGarbage(c, s)
	case "concurrent-writers":
		var c cwCase
		_ = json.Unmarshal(raw, &c)
		for i := 0; i < 10; i++ {
			runConcurrentWriters(c)
		}
	case "transport":
		var c trCfg
		_ = json.Unmarshal(raw, &c)
		for i := 0; i < 10; i++ {
			runTransportBatch(c)
		}
	case "transport-runt":
		var c runtCfg
		_ = json.Unmarshal(raw, &c)
		for i := 0; i < 5; i++ {
			runRuntBatch(c)
		}
	case "server":
		var c srvCfg
		_ = json.Unmarshal(raw, &c)
		for i := 0; i < 5; i++ {
			runServerBatch(c)
		}
	case "content":
		var c contentCase
		_ = json.Unmarshal(raw, &c)
		if c.Path == "pure" || len(c.Path) < 8 {
			runContentPure(c)
		} else {
			runContentServer(c, c.Path[7:], 2)
		}
	case "midframe":
		var c mfCfg
		_ = json.Unmarshal(raw, &c)
		for i := 0; i < 3; i++ {
			mfStop.Store(false)
			runMidframe(c)
		}
	case "doq-client":
		var c qcCfg
		_ = json.Unmarshal(raw, &c)
		for i := 0; i < 3; i++ {
			runQuicClientBatch(c)
		}
	default:
		fmt.Println("unknown case kind", wrap.Kind)
		os.Exit(3)
	}
	rep.Finish()
}

func main() {
	poolsan.Install(func(r poolsan.Report) {
		rep.Violation("poolsan-"+r.Kind, "buffer-pool sanitizer: "+r.Kind+": "+r.Info, map[string]any{"stack": r.Stack})
	})
	rep = evid.New("C16", "exploration")
	caselog = evid.OpenCaseLog()
	runtime.GOMAXPROCS(16)
	rep.SetRule("cases: (a) per message length n (quick: 13..80, the power-of-two/MSS/limit neighbourhoods, 65533..65535 and seeded random lengths; thorough: every n in 13..65535) one write+read round trip per function (WriteRawMsgToTCP, WriteMsgToTCP, PackTCPBuffer, ReadRawMsgFromTCP, ReadMsgFromTCP) and per chunking class, content PRNG(seed,n); (b) over-long messages per writer; (c) malformed streams (every announced length 0..12, EOF/read error at each offset of multi-frame streams, generated garbage); (d) batches of concurrent writers/callers on one serialised stream; (e) pipelined queries against ServeTCP/TLS/DoQ on loopback; (f) per content class (17 classes of record kinds x parsed/relayed x compression on/off) streams of 3..8 consecutive generated messages through PackTCPBuffer / WriteMsgToTCP / ReadMsgFromTCP and as replies of the tcp, tls and doq servers; (g) per upstream transport x standing point of the other queries (queued, written-unarmed, written, none) x read error kind (expired deadline, injected timeout, temporary, i/o; alone or with the last bytes) x cut offset inside a realistic reply frame (quick: 16 offsets per combination incl. 0,1,2 and the last byte; thorough: every offset) one scenario. Non-trivial = a case whose outcome was checked against the independent framer: distinct fingerprints are function x length x chunking class, refusal function x length, malformed stream hash x reader x chunking x end error, batch configuration, server protocol x reply size x framing mode x delay class of every reply verified intact, content class x origin x compression x stream (all frames verified), and mid-frame scenario x outcome (error seen by the reader, connection closed or framing preserved)")
	rep.Assume("lib/wire Frame/Deframer (20 lines, unit-tested) is the reference for RFC 1035 4.2.2 framing")
	rep.Assume("a connection serialises concurrent Write calls and never splits or merges them with other calls' bytes (fakenet log order; kernel TCP / crypto/tls / quic-go stream semantics)")
	rep.Assume("messages of 13, 14, 15, 16 and 18 bytes cannot be produced from a dns.Msg; those lengths are covered by the raw functions and by handler-framed server replies only")
	rep.Assume("content classes: miekg/dns Msg.Pack() of the very message is the reference for the BODY of its frame; where frames begin and end, and that a frame is one whole message, is judged by lib/wire (Deframer, Parse)")
	rep.Assume("mid-frame read errors: mosdns' schedule points tdc.readloop.read / reuse.readloop.read are reached exactly when the connection's reader has accepted a whole frame; the fakenet peer knows where the frames it sent end")
	rep.Assume("an announced length of exactly 12 may be rejected or accepted (it is neither in 13..65535 nor less than a header)")

	if rep.ReplayFile != "" {
		replay()
	}

	rng := rand.New(rand.NewSource(rep.Seed))
	seed := rng.Uint64()

	// (e') slow-reader client on plain TCP, concurrently with the other phases
	// (it spends 3 s per round not reading)
	slowDone := make(chan struct{})
	slowSeeds := []uint64{rng.Uint64(), rng.Uint64(), rng.Uint64()}
	go func() {
		defer close(slowDone)
		for i := 0; i < rep.Pick(1, 3); i++ {
			big := []int{96, 64, 160}[i]
			runServerBatch(srvCfg{Kind: "server", Proto: "tcp", Conns: 1, Queries: big + 40, Window: big + 40, Burst: 4, Seed: slowSeeds[i], Slow: big, PauseMs: 3000})
		}
	}()

	// (a) round trips
	phase("roundtrips")
	var lengths []int
	if rep.Thorough() {
		for n := 13; n <= 65535; n++ {
			lengths = append(lengths, n)
		}
		rng.Shuffle(len(lengths), func(i, j int) { lengths[i], lengths[j] = lengths[j], lengths[i] })
	} else {
		lengths = quickLengths(rng, 900)
	}
	if rep.Thorough() {
		// every length with the chunkings that matter per length; the full class
		// list on the quick length set
		runRoundTrips(lengths, seed, []string{"byte1", "splits", "rand", "rand-eoflast", "full"})
		runRoundTrips(quickLengths(rng, 1500), seed^0x51, allClasses)
	} else {
		runRoundTrips(lengths, seed, allClasses)
	}

	// (a') message content classes: several consecutive messages per stream
	phase("content_classes")
	runContentPhase(seed)

	// (b) over-long messages
	phase("refusals")
	runRefusals(rng)
	runTransportRefusals()

	// (c) malformed streams
	phase("malformed")
	runSmallLengths(rng)
	runPrefixes(rng)
	runGarbageStreams(rng, rep.Pick(2000, 20000))
	reportGarbageStats()

	// (d) concurrency on one serialised stream
	phase("concurrent_writers")
	for i := 0; i < rep.Pick(6, 32); i++ {
		runConcurrentWriters(cwCase{Kind: "concurrent-writers", Writers: []int{2, 8, 32, 64}[i%4], Per: rep.Pick(60, 100), Seed: rng.Uint64()})
	}
	phase("transports")
	trn := 0
	for round := 0; round < rep.Pick(1, 6); round++ {
		for _, tname := range []string{"tdc", "pipeline", "reuse"} {
			for _, callers := range []int{1, 8, 64, 256} {
				cfg := trCfg{Kind: "transport", Transport: tname, Callers: callers, PerCaller: rep.Pick(16, 30), QBig: []int{0, 3, 15}[rng.Intn(3)], Chunk: trn % 3, Procs: []int{16, 16, 4, 2}[rng.Intn(4)], Seed: rng.Uint64()}
				if callers == 1 {
					cfg.PerCaller *= 8
				}
				if callers == 256 {
					cfg.PerCaller /= 2
				}
				trn++
				runTransportBatch(cfg)
			}
		}
	}

	// (d') runt frames from the peer of a pipelined connection
	phase("runt_frames")
	bodies := []string{"zeros", "pattern", "points-past-next-header"}
	for round := 0; round < rep.Pick(1, 8); round++ {
		for _, tname := range []string{"tdc", "pipeline"} {
			for L := 0; L <= 12; L++ {
				runRuntBatch(runtCfg{Kind: "transport-runt", Transport: tname, Callers: 16 + rng.Intn(24), L: L, Body: bodies[(L+round)%3], Before: rng.Intn(4), Chunk: rng.Intn(3), Seed: rng.Uint64()})
			}
			for _, L := range []int{2, 2, 4, 0} {
				runRuntBatch(runtCfg{Kind: "transport-runt", Transport: tname, Callers: 20 + rng.Intn(20), L: L, Body: []string{"points-past-next-header", "zeros"}[L/3%2], Before: rng.Intn(3), Chunk: 0, Seed: rng.Uint64()})
			}
		}
	}

	// (d'') read errors in the middle of a frame on the upstream connections
	phase("midframe_read_errors")
	runMidframePhase(seed)

	// (e) servers on loopback
	phase("servers")
	total := rep.Pick(12000, 200000)
	type plan struct {
		proto              string
		share              int // per mille of total
		conns, win, burst  int
		procs              int
		maxQueriesPerBatch int
	}
	plans := []plan{
		{"tcp", 450, 2, 600, 24, 16, 40000},
		{"tcp", 80, 1, 200, 8, 2, 20000},
		{"tls", 400, 2, 500, 24, 16, 40000},
		{"doq", 70, 1, 48, 12, 16, 4000},
	}
	for _, p := range plans {
		left := total * p.share / 1000
		for left > 0 {
			q := left
			if q > p.maxQueriesPerBatch {
				q = p.maxQueriesPerBatch
			}
			left -= q
			runServerBatch(srvCfg{Kind: "server", Proto: p.proto, Conns: p.conns, Queries: q / p.conns, Window: p.win, Burst: p.burst, Procs: p.procs, Seed: rng.Uint64()})
		}
	}

	phase("slow_reader_wait")
	<-slowDone
	phase("doq_client")
	// (f) mosdns' DoQ client connection against a harness QUIC peer
	runQuicClientBatch(qcCfg{Kind: "doq-client", Queries: rep.Pick(150, 3000), Workers: 24, Seed: rng.Uint64()})

	phase("end")
	poolsan.Sweep()
	rep.Count("poolsan_gets", poolsan.Gets.Load())
	rep.Count("poolsan_releases", poolsan.Releases.Load())
	rep.Count("poolsan_quarantine_evictions_checked", poolsan.Evicted.Load())
	if rep.Get("reader_frames_verified") == 0 || rep.Get("writer_frames_verified") == 0 {
		rep.Inconclusive("no round trip was verified")
	}
	if rep.Get("server_replies_verified_tcp") == 0 || rep.Get("server_replies_verified_tls") == 0 || rep.Get("server_replies_verified_doq") == 0 {
		rep.Inconclusive("a server workload verified no reply (tcp=%d tls=%d doq=%d)", rep.Get("server_replies_verified_tcp"), rep.Get("server_replies_verified_tls"), rep.Get("server_replies_verified_doq"))
	}
	if rep.Get("server_max_handlers_in_flight_tcp") < 2 || rep.Get("server_max_handlers_in_flight_tls") < 2 {
		rep.Inconclusive("the server workloads produced no concurrent replies")
	}
	if rep.Get("server_slow_reader_replies_verified") == 0 {
		rep.Inconclusive("the slow-reader phase verified no reply")
	}
	if rep.Get("runt_frames_injected") == 0 || rep.Get("runt_connections_closed_by_transport") == 0 || rep.Get("runt_exchanges_failed") == 0 {
		rep.Inconclusive("the runt-frame workload observed no failing connection")
	}
	if rep.Get("transport_query_frames_verified") == 0 || rep.Get("transport_replies_verified") == 0 {
		rep.Inconclusive("the transport workload verified nothing")
	}
	if !contentFailed.Load() && (rep.Get("content_messages_verified_pure") == 0 || rep.Get("content_messages_Len_estimate_not_packed_size") == 0 || rep.Get("content_messages_verified_server_tcp") == 0) {
		rep.Inconclusive("the content-class workload verified nothing (pure=%d, size-estimate-differs=%d, server tcp=%d)", rep.Get("content_messages_verified_pure"), rep.Get("content_messages_Len_estimate_not_packed_size"), rep.Get("content_messages_verified_server_tcp"))
	}
	if !mfStop.Load() && (rep.Get("midframe_read_errors_struck") == 0 || rep.Get("midframe_buffers_verified_to_be_peer_frames") == 0) {
		rep.Inconclusive("the mid-frame read error workload observed nothing (errors struck=%d, buffers verified=%d)", rep.Get("midframe_read_errors_struck"), rep.Get("midframe_buffers_verified_to_be_peer_frames"))
	}
	if rep.Get("malformed_rejected_length_le_12") == 0 || rep.Get("malformed_rejected_short_body") == 0 {
		rep.Inconclusive("no malformed stream was rejected")
	}
	rep.Finish()
}
