package main

import (
	"bytes"
	"context"
	"encoding/binary"
	"fmt"
	"sync"
	"sync/atomic"
	"time"

	"github.com/IrineSistiana/mosdns/v5/pkg/pool"

	"verifharness/lib/fakenet"
	"verifharness/lib/poolsan"
	"verifharness/lib/wire"
)

// runtCfg: a pipelined TraditionalDnsConn / PipelineTransport whose peer sends a
// runt frame (announced length 0..12 followed by that many bytes) before /
// between valid replies. A length below a DNS header must yield an error: the
// connection fails, and nothing framed after the runt may be delivered; every
// buffer an exchange returns must be exactly one frame the peer sent for it.
type runtCfg struct {
	Kind      string `json:"kind"` // "transport-runt"
	Transport string `json:"transport"`
	Callers   int    `json:"callers"` // queries in flight when the runt arrives
	L         int    `json:"runt_length"`
	Body      string `json:"runt_body"` // zeros | pattern | points-past-next-header
	Before    int    `json:"valid_replies_before_runt"`
	Chunk     int    `json:"chunking"`
	Seed      uint64 `json:"seed"`
}

type runtBatch struct {
	cfg  runtCfg
	tb   *trBatch
	mu   sync.Mutex
	got  map[uint64]uint16 // seq -> wire id, queries seen on the first connection
	pre  map[uint64][]byte // replies framed before the runt (ID = wire id)
	post map[uint64][]byte // replies framed after the runt
	oth  map[uint64][]byte // replies on later connections (retries)
	done bool
	c1   *fakenet.Conn
}

func (rb *runtBatch) reply(wid uint16, seq uint64, kind uint64, n int) []byte {
	return trMessage(wid, seq, rb.cfg.Seed^kind, n)
}

// fire injects, as one unit: Before valid replies, the runt, the remaining replies.
func (rb *runtBatch) fire() {
	cfg := rb.cfg
	rb.mu.Lock()
	if rb.done {
		rb.mu.Unlock()
		return
	}
	rb.done = true
	var seqs []uint64
	for s := range rb.got {
		seqs = append(seqs, s)
	}
	// deterministic order: by wire id
	for i := range seqs {
		for j := i + 1; j < len(seqs); j++ {
			if rb.got[seqs[j]] < rb.got[seqs[i]] {
				seqs[i], seqs[j] = seqs[j], seqs[i]
			}
		}
	}
	r := xrng{s: cfg.Seed ^ 0x7e57}
	var stream []byte
	nb := cfg.Before
	if nb > len(seqs) {
		nb = len(seqs)
	}
	// "points-past-next-header": the first reply after the runt has a length
	// equal to the wire id of a query still in flight
	firstPostLen := 0
	if cfg.Body == "points-past-next-header" && len(seqs) > nb {
		for _, s := range seqs[nb:] {
			if w := int(rb.got[s]); w >= 13 {
				firstPostLen = w
				break
			}
		}
		if firstPostLen == 0 {
			firstPostLen = 13 + r.intn(40)
		}
	}
	for i, s := range seqs {
		wid := rb.got[s]
		n := 13 + r.intn(200)
		if r.intn(5) == 0 {
			n = 13 + r.intn(3000)
		}
		if i < nb {
			m := rb.reply(wid, s, 0x11, n)
			rb.pre[s] = m
			stream = append(stream, wire.Frame(m)...)
			continue
		}
		if i == nb {
			body := make([]byte, cfg.L)
			switch cfg.Body {
			case "pattern":
				fillPattern(body, cfg.Seed^0x99)
			case "points-past-next-header":
				if firstPostLen > 0 {
					n = firstPostLen
				}
				if cfg.L >= 2 {
					binary.BigEndian.PutUint16(body, uint16(n+2))
				}
			}
			stream = append(stream, byte(cfg.L>>8), byte(cfg.L))
			stream = append(stream, body...)
		}
		m := rb.reply(wid, s, 0x22, n)
		rb.post[s] = m
		stream = append(stream, wire.Frame(m)...)
	}
	if len(seqs) <= nb { // runt after the last valid reply
		stream = append(stream, byte(cfg.L>>8), byte(cfg.L))
		stream = append(stream, make([]byte, cfg.L)...)
	}
	c := rb.c1
	rb.mu.Unlock()
	c.Inject(stream)
}

func (rb *runtBatch) onWrite(c *fakenet.Conn, a *trAdv, data []byte) {
	a.mu.Lock()
	frames := a.defr.Feed(data)
	a.mu.Unlock()
	for _, f := range frames {
		if len(f) < 13 {
			continue
		}
		wid := binary.BigEndian.Uint16(f)
		seq := binary.BigEndian.Uint64(f[2:])
		if seq&^0xffff != 1<<56|1<<40 || int(seq&0xffff) >= rb.cfg.Callers {
			continue // not a query of this batch (only possible if the write stream is mis-framed)
		}
		rb.mu.Lock()
		if rb.c1 == nil {
			rb.c1 = c
		}
		first := rb.c1 == c
		if first && !rb.done {
			rb.got[seq] = wid
			full := len(rb.got) >= rb.cfg.Callers
			rb.mu.Unlock()
			if full {
				rb.fire()
			}
			continue
		}
		var m []byte
		if !first {
			// a retry on a fresh connection is answered normally
			m = rb.reply(wid, seq, 0x33, 13+int(mix(seq)%300))
			rb.oth[seq] = m
		}
		rb.mu.Unlock()
		if m != nil {
			c.Inject(wire.Frame(m))
		}
	}
}

func runRuntBatch(cfg runtCfg) {
	caselog.Log(cfg)
	ctx, cancel := context.WithTimeout(context.Background(), 30*time.Second)
	defer cancel()
	tb := &trBatch{cfg: trCfg{Kind: "transport", Transport: cfg.Transport, Callers: cfg.Callers, Chunk: cfg.Chunk, Seed: cfg.Seed}, net: fakenet.NewNet(), calls: map[uint64]*trCall{}, cancel: cancel}
	rb := &runtBatch{cfg: cfg, tb: tb, got: map[uint64]uint16{}, pre: map[uint64][]byte{}, post: map[uint64][]byte{}, oth: map[uint64][]byte{}}
	tb.runt = rb
	tr := tb.makeTransport()
	tname := cfg.Transport
	var wg sync.WaitGroup
	var okPre, okPost, okOther, errs atomic.Int64
	for w := 0; w < cfg.Callers; w++ {
		wg.Add(1)
		go func(w int) {
			defer wg.Done()
			seq := uint64(w) | 1<<56 | 1<<40
			id := uint16(mix(cfg.Seed ^ seq))
			q := trMessage(id, seq, cfg.Seed, 13+int(mix(seq^cfg.Seed)%120))
			cctx, ccancel := context.WithTimeout(ctx, 3*time.Second)
			defer ccancel()
			var r *[]byte
			var err error
			if guarded("transport-"+tname, cfg, func() { r, err = tr.exchange(cctx, q) }) {
				return
			}
			rep.Eval(1)
			if err != nil {
				errs.Add(1)
				return
			}
			if !poolsan.Check(r, "reply returned by "+tname) {
				return
			}
			defer pool.ReleaseBuf(r)
			rb.mu.Lock()
			cands := map[string][]byte{"pre": rb.pre[seq], "post": rb.post[seq], "other": rb.oth[seq]}
			rb.mu.Unlock()
			which := ""
			for k, m := range cands {
				if m != nil && len(*r) == len(m) && bytes.Equal((*r)[2:], m[2:]) && binary.BigEndian.Uint16(*r) == id {
					which = k
				}
			}
			wit := map[string]any{"cfg": cfg, "seq": seq, "returned_head": hexHead(*r, 40)}
			switch which {
			case "pre":
				okPre.Add(1)
			case "other":
				okOther.Add(1)
			case "post":
				okPost.Add(1)
				if cfg.L < 12 {
					rep.Violation(tname+"-runt-frame-not-an-error", fmt.Sprintf("the peer sent a frame announcing %d bytes (< 12) on a pipelined connection; the connection did not fail: a reply framed after it was delivered", cfg.L), wit)
				}
			default:
				sizes := []int{}
				for _, m := range cands {
					if m != nil {
						sizes = append(sizes, len(m))
					}
				}
				rep.Violation(tname+"-reply-not-a-frame-the-peer-sent", fmt.Sprintf("after a runt frame (announced %d) the exchange returned %d bytes that are not a frame the peer sent for it (frames sent for it: %v bytes)", cfg.L, len(*r), sizes), wit)
			}
		}(w)
	}
	stopHook := make(chan struct{})
	// fallback: fire with whatever arrived (e.g. queries spread over connections)
	go func() {
		select {
		case <-time.After(1500 * time.Millisecond):
			rb.mu.Lock()
			ready := rb.c1 != nil
			rb.mu.Unlock()
			if ready {
				rb.fire()
			}
		case <-stopHook:
		}
	}()
	wg.Wait()
	close(stopHook)
	closed := false
	rb.mu.Lock()
	c1, fired := rb.c1, rb.done
	rb.mu.Unlock()
	if c1 != nil && fired {
		closed = c1.WaitClosed(2 * time.Second)
	}
	tr.close()
	if !fired {
		rep.Inconclusive("runt batch %+v: the runt frame was never injected", cfg)
	}
	rep.Count("runt_exchanges_failed", errs.Load())
	rep.Count("runt_replies_before_runt_delivered", okPre.Load())
	rep.Count("runt_replies_on_retry_connection_delivered", okOther.Load())
	if fired {
		rep.Count("runt_frames_injected", 1)
		rep.SetAdd("runt_lengths", fmt.Sprint(cfg.L))
	}
	if closed {
		rep.Count("runt_connections_closed_by_transport", 1)
	}
	if fired && (errs.Load() > 0 || okOther.Load() > 0) && closed {
		rep.Nontrivial(fmt.Sprintf("runt|%s|L%d|%s|b%d|c%d|k%d", tname, cfg.L, cfg.Body, cfg.Before, cfg.Callers, cfg.Chunk))
	}
	sampleKind("runt", 1, map[string]any{"runt_batch": cfg, "exchanges_failed": errs.Load(), "delivered_before_runt": okPre.Load(), "delivered_after_runt": okPost.Load(), "delivered_on_retry_connection": okOther.Load(), "connection_closed": closed})
}
