package main

import (
	"bytes"
	"context"
	"crypto/tls"
	"encoding/binary"
	"fmt"
	"io"
	"sync"
	"sync/atomic"
	"time"

	"github.com/IrineSistiana/mosdns/v5/pkg/pool"
	"github.com/IrineSistiana/mosdns/v5/pkg/upstream/transport"
	"github.com/IrineSistiana/mosdns/v5/pkg/utils"
	"github.com/quic-go/quic-go"

	"verifharness/lib/poolsan"
	"verifharness/lib/wire"
)

// qcCfg: mosdns' DoQ client connection (QuicDnsConn) against a harness QUIC
// peer that deframes every stream with the independent framer.
type qcCfg struct {
	Kind    string `json:"kind"` // "doq-client"
	Queries int    `json:"queries"`
	Workers int    `json:"workers"`
	Seed    uint64 `json:"seed"`
}

func runQuicClientBatch(cfg qcCfg) {
	caselog.Log(cfg)
	cert, err := utils.GenerateCertificate("c16.test")
	if err != nil {
		rep.Inconclusive("certificate: %v", err)
		return
	}
	ln, err := quic.ListenAddr("127.0.0.1:0", &tls.Config{Certificates: []tls.Certificate{cert}, NextProtos: []string{"doq"}}, &quic.Config{MaxIdleTimeout: 60 * time.Second, MaxIncomingStreams: 64})
	if err != nil {
		rep.Inconclusive("quic listen: %v", err)
		return
	}
	defer ln.Close()
	ctx, cancel := context.WithTimeout(context.Background(), 120*time.Second)
	defer cancel()

	var mu sync.Mutex
	issued := map[uint64]int{} // seq -> query length
	seen := map[uint64]bool{}
	var swg sync.WaitGroup
	var qframes, empty, resets atomic.Int64
	var violated atomic.Bool
	srvDone := make(chan struct{})
	go func() { // harness peer
		defer close(srvDone)
		sc, err := ln.Accept(ctx)
		if err != nil {
			return
		}
		for {
			st, err := sc.AcceptStream(ctx)
			if err != nil {
				break
			}
			swg.Add(1)
			go func() {
				defer swg.Done()
				st.SetReadDeadline(time.Now().Add(30 * time.Second))
				data, rerr := io.ReadAll(st)
				if len(data) == 0 {
					empty.Add(1)
					st.CancelWrite(0)
					return
				}
				var d wire.Deframer
				frames := d.Feed(data)
				bad := ""
				var seq uint64
				if rerr != nil {
					// reset / timed out before FIN: not a delivered message
					resets.Add(1)
					st.CancelWrite(0)
					return
				}
				switch {
				case len(frames) != 1 || len(d.Rest()) != 0:
					bad = fmt.Sprintf("%d bytes up to FIN: %d frame(s) and %d trailing byte(s)", len(data), len(frames), len(d.Rest()))
				case len(frames[0]) < 13:
					bad = fmt.Sprintf("frame of %d bytes", len(frames[0]))
				default:
					f := frames[0]
					seq = binary.BigEndian.Uint64(f[2:])
					mu.Lock()
					n, ok := issued[seq]
					dup := seen[seq]
					seen[seq] = true
					mu.Unlock()
					switch {
					case !ok:
						bad = "frame carries the tag of no query issued"
					case dup:
						bad = "query seen on two streams"
					case n != len(f):
						bad = fmt.Sprintf("query was %d bytes, frame is %d", n, len(f))
					default:
						want := trMessage(0, seq, cfg.Seed, n)
						if !bytes.Equal(f[2:], want[2:]) {
							bad = fmt.Sprintf("frame differs from the query at offset %d", firstDiff(f[2:], want[2:])+2)
						}
					}
				}
				if bad != "" {
					violated.Store(true)
					rep.Violation("doq-client-query-misframed", "a DoQ stream written by QuicDnsConn does not carry exactly one intact query frame: "+bad, map[string]any{"cfg": cfg, "data_head": hexHead(data, 48)})
					st.CancelWrite(1)
					return
				}
				qframes.Add(1)
				reply := trMessage(0, seq, cfg.Seed^0xa5a5, trReplySize(cfg.Seed, seq))
				r := xrng{s: cfg.Seed ^ seq}
				if writeChunked(st, wire.Frame(reply), &r) == nil {
					st.Close()
				}
			}()
		}
	}()

	qc, err := quic.DialAddr(ctx, ln.Addr().String(), &tls.Config{InsecureSkipVerify: true, ServerName: "c16.test", NextProtos: []string{"doq"}}, &quic.Config{MaxIdleTimeout: 60 * time.Second})
	if err != nil {
		rep.Inconclusive("quic dial: %v", err)
		return
	}
	dc := transport.NewQuicDnsConn(qc)
	exchange := func(q []byte) (*[]byte, error) {
		for {
			rx, closed := dc.ReserveNewQuery()
			if closed {
				return nil, fmt.Errorf("connection closed")
			}
			if rx != nil {
				return rx.ExchangeReserved(ctx, q)
			}
			select {
			case <-ctx.Done():
				return nil, ctx.Err()
			case <-time.After(200 * time.Microsecond):
			}
		}
	}
	var okN, errN atomic.Int64
	seqs := make(chan int)
	var wg sync.WaitGroup
	for w := 0; w < cfg.Workers; w++ {
		wg.Add(1)
		go func() {
			defer wg.Done()
			for i := range seqs {
				seq := uint64(i) | 1<<56
				n := trQuerySize(cfg.Seed, seq, 8)
				oversize := i%37 == 36
				if oversize {
					n = 65536 + int(mix(seq)%70000)
				}
				id := uint16(mix(cfg.Seed ^ seq))
				q := trMessage(id, seq, cfg.Seed, n)
				if !oversize {
					mu.Lock()
					issued[seq] = n
					mu.Unlock()
				}
				var r *[]byte
				var err error
				if guarded("QuicDnsConn", cfg, func() { r, err = exchange(q) }) {
					return
				}
				rep.Eval(1)
				if oversize {
					// whatever reached the peer is judged there (nothing may: the tag is not issued)
					if err == nil {
						rep.Violation("doq-client-oversize-not-refused", fmt.Sprintf("ExchangeReserved accepted a %d byte query", n), cfg)
						pool.ReleaseBuf(r)
					} else {
						rep.Count("oversize_refused", 1)
						rep.Nontrivial(fmt.Sprintf("refuse|doq-client|%d", n))
					}
					continue
				}
				if err != nil {
					errN.Add(1)
					rep.SetAdd("transport_errors", "doq-client: "+trimErr(err))
					continue
				}
				okN.Add(1)
				if !poolsan.Check(r, "reply returned by QuicDnsConn") {
					continue
				}
				want := trMessage(id, seq, cfg.Seed^0xa5a5, trReplySize(cfg.Seed, seq))
				if len(*r) != len(want) {
					rep.Violation("doq-client-reply-buffer-wrong-size", fmt.Sprintf("peer framed a %d byte reply, caller got a %d byte buffer", len(want), len(*r)), cfg)
				} else if !bytes.Equal(*r, want) {
					rep.Violation("doq-client-reply-content-differs", fmt.Sprintf("%d byte reply differs at offset %d", len(want), firstDiff(*r, want)), cfg)
				} else {
					rep.Count("doq_client_replies_verified", 1)
					rep.Nontrivial(fmt.Sprintf("qc|q%d|r%d", n, len(want)))
				}
				pool.ReleaseBuf(r)
			}
		}()
	}
	for i := 0; i < cfg.Queries; i++ {
		seqs <- i
	}
	close(seqs)
	wg.Wait()
	dc.Close()
	<-srvDone
	swg.Wait()
	rep.Count("doq_client_query_frames_verified", qframes.Load())
	rep.Count("doq_client_streams_without_data", empty.Load())
	rep.Count("doq_client_streams_reset_before_fin", resets.Load())
	if okN.Load() == 0 && !violated.Load() {
		rep.Inconclusive("doq client batch: no exchange succeeded (%d errors)", errN.Load())
	}
}
