package main

// Message CONTENT classes for the write side.
//
// The other phases frame PRNG bytes and NULL records, for which every size
// estimate a writer may rely on is exact. Here the messages carry every kind of
// record mosdns relays (addresses, names with and without compression, TXT
// with escapes and many strings, DNSSEC material with base64/hex/base32 fields
// of every padding class, NSEC/NSEC3 bitmaps, SVCB/HTTPS parameters, OPT with
// options, RFC 3597 unknown types, owner names with escapes, ...), built from
// zone-file text ("parsed") or taken from the wire like a relayed upstream
// reply ("relayed"), with compression on and off. SEVERAL consecutive messages
// go onto ONE stream through PackTCPBuffer, WriteMsgToTCP and the reply path of
// ServeTCP (plain, TLS) / ServeDoQ; the independent deframer must see exactly
// one frame per message -- <len><exactly len bytes>, no byte between frames --
// and reading the stream back must return the messages one by one.

import (
	"bytes"
	"context"
	"crypto/tls"
	"encoding/base32"
	"encoding/base64"
	"encoding/binary"
	"errors"
	"fmt"
	"io"
	"net"
	"reflect"
	"strings"
	"sync"
	"sync/atomic"
	"time"

	"github.com/IrineSistiana/mosdns/v5/pkg/dnsutils"
	"github.com/IrineSistiana/mosdns/v5/pkg/pool"
	"github.com/IrineSistiana/mosdns/v5/pkg/server"
	"github.com/miekg/dns"
	"github.com/quic-go/quic-go"

	"verifharness/lib/poolsan"
	"verifharness/lib/wire"
)

type contentCase struct {
	Kind     string `json:"kind"` // "content"
	Path     string `json:"path"` // pure | server-tcp | server-tls | server-doq
	Class    string `json:"content_class"`
	Origin   string `json:"origin"` // parsed (zone-file text) | relayed (unpacked from the wire first)
	Compress bool   `json:"compress"`
	Msgs     int    `json:"messages_on_the_stream"`
	Seed     uint64 `json:"seed"`
}

var contentClasses = []string{
	"addr", "names", "txt-plain", "txt-escapes", "txt-multi", "rrsig", "dnskey", "ds",
	"nsec", "nsec3", "svcb", "opt", "rfc3597", "name-escapes", "b64hex", "misc", "mixed",
}

// ---- generators (zone-file text -> dns.NewRR; OPT is built as a struct) ----

type cgen struct {
	r    xrng
	zone string
}

func (g *cgen) pick(ss ...string) string { return ss[g.r.intn(len(ss))] }

func (g *cgen) label() string {
	const alpha = "abcdefghijklmnopqrstuvwxyz0123456789-_ABCXYZ"
	n := 1 + g.r.intn(12)
	if g.r.intn(12) == 0 {
		n = 63
	}
	var sb strings.Builder
	for i := 0; i < n; i++ {
		sb.WriteByte(alpha[g.r.intn(len(alpha))])
	}
	return sb.String()
}

// escLabel: a label with presentation-format escapes.
func (g *cgen) escLabel() string {
	var sb strings.Builder
	n := 1 + g.r.intn(10)
	for i := 0; i < n; i++ {
		switch g.r.intn(8) {
		case 0:
			sb.WriteString(`\.`)
		case 1:
			sb.WriteString(fmt.Sprintf(`\%03d`, g.r.intn(256)))
		case 2:
			sb.WriteString(`\\`)
		case 3:
			sb.WriteString(g.pick(`\"`, `\@`, `\;`, `\(`, `\)`, `\032`, `\000`, `\255`))
		default:
			sb.WriteByte(byte('a' + g.r.intn(26)))
		}
	}
	return sb.String()
}

// owner: names under a few zones so that compression has something to do.
func (g *cgen) owner() string {
	switch g.r.intn(6) {
	case 0:
		return g.zone
	case 1:
		return "www." + g.zone
	case 2:
		return "*." + g.zone
	case 3:
		return g.label() + "." + g.label() + "." + g.zone
	default:
		return g.label() + "." + g.zone
	}
}

func (g *cgen) escOwner() string {
	return g.escLabel() + "." + g.pick("", g.escLabel()+".") + g.zone
}

func (g *cgen) bytesN(n int) []byte { return pattern(g.r.next(), n) }

func (g *cgen) b64(n int) string { return base64.StdEncoding.EncodeToString(g.bytesN(n)) }
func (g *cgen) hex(n int) string { return fmt.Sprintf("%X", g.bytesN(n)) }

// size classes for binary fields: the real-world sizes plus every residue mod 3
// (base64 padding) and mod 2.
func (g *cgen) blobLen(real ...int) int {
	switch g.r.intn(3) {
	case 0:
		return real[g.r.intn(len(real))]
	case 1:
		return 1 + g.r.intn(12)
	}
	return 1 + g.r.intn(300)
}

func (g *cgen) ttl() int { return []int{0, 1, 60, 300, 3600, 86400, 2147483647}[g.r.intn(7)] }

// txtString renders raw bytes as a quoted character-string with escapes.
func (g *cgen) txtString(raw []byte, escapeAll bool) string {
	var sb strings.Builder
	sb.WriteByte('"')
	for _, c := range raw {
		switch {
		case c == '"' || c == '\\':
			sb.WriteByte('\\')
			sb.WriteByte(c)
		case c < 0x20 || c > 0x7e || escapeAll:
			sb.WriteString(fmt.Sprintf(`\%03d`, c))
		default:
			sb.WriteByte(c)
		}
	}
	sb.WriteByte('"')
	return sb.String()
}

func (g *cgen) typeList() string {
	all := []string{"A", "NS", "SOA", "MX", "TXT", "AAAA", "SRV", "DS", "RRSIG", "NSEC", "DNSKEY", "NSEC3PARAM", "TLSA", "CDS", "CDNSKEY", "SVCB", "HTTPS", "CAA", "TYPE1234", "TYPE32769", "TYPE65280"} // ascending type codes
	var out []string
	for _, t := range all {
		if g.r.intn(3) == 0 {
			out = append(out, t)
		}
	}
	if len(out) == 0 {
		out = []string{"A"}
	}
	return strings.Join(out, " ")
}

var b32hex = base32.HexEncoding.WithPadding(base32.NoPadding)

// rrTexts returns the records of one content class in zone-file text.
func (g *cgen) rrTexts(class string) []string {
	o := g.owner()
	hd := func(owner, typ string) string { return fmt.Sprintf("%s %d IN %s ", owner, g.ttl(), typ) }
	var out []string
	add := func(s string) { out = append(out, s) }
	switch class {
	case "addr":
		for i := 1 + g.r.intn(6); i > 0; i-- {
			if g.r.intn(2) == 0 {
				add(hd(o, "A") + fmt.Sprintf("%d.%d.%d.%d", g.r.intn(256), g.r.intn(256), g.r.intn(256), g.r.intn(256)))
			} else {
				add(hd(o, "AAAA") + fmt.Sprintf("2001:db8:%x::%x", g.r.intn(65536), g.r.intn(65536)))
			}
		}
	case "names":
		add(hd(o, "CNAME") + g.owner())
		add(hd(g.zone, "NS") + "ns1." + g.zone)
		add(hd(g.zone, "MX") + fmt.Sprintf("%d mail.%s", g.r.intn(100), g.zone))
		add(hd(g.zone, "SOA") + fmt.Sprintf("ns1.%s hostmaster.%s %d 7200 3600 1209600 300", g.zone, g.zone, g.r.intn(1<<31)))
		add(hd("_dns._tcp."+g.zone, "SRV") + fmt.Sprintf("%d %d %d %s", g.r.intn(10), g.r.intn(10), g.r.intn(65536), g.owner()))
		add(hd("4.3.2.1.in-addr.arpa.", "PTR") + g.owner())
		add(hd(g.label()+"."+g.zone, "DNAME") + g.label() + ".example.net.")
	case "txt-plain":
		add(hd(o, "TXT") + `"v=spf1 include:_spf.` + g.zone + ` ~all"`)
		add(hd(o, "TXT") + g.txtString([]byte(g.label()+"="+g.label()), false))
		add(hd(o, "SPF") + `"v=spf1 -all"`)
	case "txt-escapes":
		for i := 1 + g.r.intn(3); i > 0; i-- {
			raw := g.bytesN(1 + g.r.intn(60))
			if g.r.intn(2) == 0 {
				// text with a few special characters
				raw = []byte(g.label() + `"` + g.label() + `\` + g.label() + "\x00" + g.label() + "\xff;")
			}
			add(hd(o, "TXT") + g.txtString(raw, g.r.intn(3) == 0))
		}
	case "txt-multi":
		var ss []string
		for i := 1 + g.r.intn(10); i > 0; i-- {
			n := []int{0, 1, 255, 254, g.r.intn(256), g.r.intn(40)}[g.r.intn(6)]
			raw := g.bytesN(n)
			if g.r.intn(2) == 0 {
				for j := range raw {
					raw[j] = byte('a' + int(raw[j])%26)
				}
			}
			ss = append(ss, g.txtString(raw, false))
		}
		add(hd(o, "TXT") + strings.Join(ss, " "))
	case "rrsig":
		cov := g.pick("A", "AAAA", "NS", "SOA", "DNSKEY", "NSEC", "TXT", "TYPE65280")
		alg := []int{5, 8, 10, 13, 14, 15, 16}[g.r.intn(7)]
		add(hd(o, "A") + "192.0.2.1")
		add(hd(o, "RRSIG") + fmt.Sprintf("%s %d %d %d 20300101000000 20200101000000 %d %s %s", cov, alg, 1+g.r.intn(4), g.ttl(), g.r.intn(65536), g.zone, g.b64(g.blobLen(64, 96, 114, 128, 256))))
		if g.r.intn(2) == 0 {
			add(hd(o, "SIG") + fmt.Sprintf("%s %d %d %d 20300101000000 20200101000000 %d %s %s", "A", alg, 2, 300, g.r.intn(65536), g.zone, g.b64(g.blobLen(64, 128))))
		}
	case "dnskey":
		alg := []int{8, 13, 14, 15, 16}[g.r.intn(5)]
		add(hd(g.zone, "DNSKEY") + fmt.Sprintf("%d 3 %d %s", []int{256, 257}[g.r.intn(2)], alg, g.b64(g.blobLen(32, 57, 64, 96, 132, 260))))
		add(hd(g.zone, "CDNSKEY") + fmt.Sprintf("257 3 %d %s", alg, g.b64(g.blobLen(32, 64))))
		add(hd(g.zone, "KEY") + fmt.Sprintf("256 3 %d %s", alg, g.b64(g.blobLen(64, 130))))
	case "ds":
		add(hd(g.zone, "DS") + fmt.Sprintf("%d %d %d %s", g.r.intn(65536), 13, []int{1, 2, 4}[g.r.intn(3)], g.hex(g.blobLen(20, 32, 48))))
		add(hd(g.zone, "CDS") + fmt.Sprintf("%d 8 2 %s", g.r.intn(65536), g.hex(g.blobLen(32))))
		add(hd(g.zone, "DLV") + fmt.Sprintf("%d 8 1 %s", g.r.intn(65536), g.hex(20)))
		add(hd(g.zone, "TA") + fmt.Sprintf("%d 8 1 %s", g.r.intn(65536), g.hex(g.blobLen(20))))
	case "nsec":
		add(hd(o, "NSEC") + g.owner() + " " + g.typeList())
		add(hd(o, "CSYNC") + fmt.Sprintf("%d 3 %s", g.r.intn(1<<31), g.typeList()))
	case "nsec3":
		salt := "-"
		if g.r.intn(4) != 0 {
			salt = g.hex(1 + g.r.intn(16))
		}
		hash := b32hex.EncodeToString(g.bytesN([]int{20, 20, 20, 32, 1 + g.r.intn(40)}[g.r.intn(5)]))
		add(hd(strings.ToLower(b32hex.EncodeToString(g.bytesN(20)))+"."+g.zone, "NSEC3") + fmt.Sprintf("1 %d %d %s %s %s", g.r.intn(2), g.r.intn(200), salt, hash, g.typeList()))
		add(hd(g.zone, "NSEC3PARAM") + fmt.Sprintf("1 0 %d %s", g.r.intn(200), salt))
	case "svcb":
		typ := g.pick("HTTPS", "SVCB")
		var ps []string
		if g.r.intn(2) == 0 {
			ps = append(ps, g.pick(`alpn="h2"`, `alpn="h2,h3"`, `alpn="h3,h2,http/1.1"`))
		}
		if g.r.intn(3) == 0 {
			ps = append(ps, "no-default-alpn")
			if len(ps) == 1 {
				ps = append([]string{`alpn="h3"`}, ps...)
			}
		}
		if g.r.intn(2) == 0 {
			ps = append(ps, fmt.Sprintf("port=%d", g.r.intn(65536)))
		}
		if g.r.intn(2) == 0 {
			ps = append(ps, g.pick(`ipv4hint="192.0.2.1"`, `ipv4hint="192.0.2.1,192.0.2.2,198.51.100.7"`))
		}
		if g.r.intn(2) == 0 {
			ps = append(ps, `ech="`+g.b64(g.blobLen(64, 71))+`"`)
		}
		if g.r.intn(2) == 0 {
			ps = append(ps, g.pick(`ipv6hint="2001:db8::1"`, `ipv6hint="2001:db8::1,2001:db8::53"`))
		}
		if g.r.intn(3) == 0 {
			ps = append(ps, `dohpath="/dns-query{?dns}"`)
		}
		if g.r.intn(2) == 0 {
			ps = append(ps, fmt.Sprintf(`key%d=%s`, 65280+g.r.intn(200), g.txtString(g.bytesN(g.r.intn(20)), false)))
		}
		add(hd(o, typ) + fmt.Sprintf("%d %s %s", 1+g.r.intn(5), g.pick(".", g.owner()), strings.Join(ps, " ")))
		add(hd(o, typ) + "0 " + g.owner())
	case "rfc3597":
		n := g.r.intn(40)
		rd := fmt.Sprintf(`\# %d %s`, n, g.hex(n))
		if n == 0 {
			rd = `\# 0`
		}
		add(hd(o, fmt.Sprintf("TYPE%d", 65280+g.r.intn(250))) + rd)
		add(fmt.Sprintf("%s %d CLASS%d TYPE%d ", o, g.ttl(), 2+g.r.intn(250), 1000+g.r.intn(5000)) + rd)
		add(fmt.Sprintf("%s %d CH TXT ", "version.bind.", 0) + `"mosdns"`)
	case "name-escapes":
		e := g.escOwner()
		add(hd(e, "A") + "192.0.2.9")
		add(hd(e, "CNAME") + g.escOwner())
		add(hd(g.owner(), "MX") + "10 " + g.escOwner())
		add(hd(strings.ToUpper(g.owner()), "NS") + g.escLabel() + "." + strings.ToUpper(g.zone))
		// a name close to the 255 byte limit
		long := strings.Repeat(strings.Repeat("x", 61)+".", 3) + strings.Repeat("y", 40) + "." + g.zone
		add(hd(long, "AAAA") + "::1")
		add(hd(g.owner(), "RRSIG") + fmt.Sprintf("A 13 2 300 20300101000000 20200101000000 7 %s %s", e, g.b64(64)))
	case "b64hex":
		add(hd("_443._tcp."+g.zone, "TLSA") + fmt.Sprintf("%d %d %d %s", g.r.intn(4), g.r.intn(2), g.r.intn(3), g.hex(g.blobLen(32, 64))))
		add(hd(o, "SSHFP") + fmt.Sprintf("%d %d %s", 1+g.r.intn(4), 1+g.r.intn(2), g.hex(g.blobLen(20, 32))))
		add(hd(o, "OPENPGPKEY") + g.b64(g.blobLen(100, 271)))
		add(hd(o, "SMIMEA") + fmt.Sprintf("3 0 1 %s", g.hex(g.blobLen(32))))
		add(hd(o, "CERT") + fmt.Sprintf("PKIX %d 8 %s", g.r.intn(65536), g.b64(g.blobLen(64, 200))))
		add(hd(o, "DHCID") + g.b64(g.blobLen(35)))
		add(hd(g.zone, "ZONEMD") + fmt.Sprintf("%d 1 1 %s", g.r.intn(1<<31), g.hex(48)))
		add(hd(o, "HIP") + fmt.Sprintf("2 %s %s %s", g.hex(16), g.b64(g.blobLen(64, 130)), g.owner()))
	case "misc":
		add(hd(g.zone, "CAA") + fmt.Sprintf(`%d %s "%s"`, []int{0, 128}[g.r.intn(2)], g.pick("issue", "issuewild", "iodef"), g.pick("letsencrypt.org", "ca.example.net; account=230123", `mailto:security@example.com`)))
		add(hd(o, "LOC") + "52 22 23.000 N 4 53 32.000 E -2.00m 0.00m 10000m 10m")
		add(hd(o, "HINFO") + g.txtString(g.bytesN(g.r.intn(20)), false) + " " + g.txtString([]byte("Linux"), false))
		add(hd("_ftp._tcp."+g.zone, "URI") + fmt.Sprintf(`10 1 "ftp://%s/public\"x\"/\000"`, g.owner()))
		add(hd(o, "NAPTR") + fmt.Sprintf(`%d 10 "u" "E2U+sip" "!^.*$!sip:info@%s!" .`, g.r.intn(100), g.zone))
		add(hd(o, "RP") + "admin." + g.zone + " " + g.owner())
		add(hd(o, "AFSDB") + "1 " + g.owner())
		add(hd(o, "EUI48") + "00-00-5e-00-53-2a")
		add(hd(o, "EUI64") + "00-00-5e-ef-10-00-00-2a")
		add(hd(o, "APL") + "1:192.0.2.0/24 !2:2001:db8::/32")
		add(hd(o, "L32") + "10 10.1.2.0")
		add(hd(o, "NID") + "10 0014:4fff:ff20:ee64")
		add(hd(o, "AVC") + g.txtString(g.bytesN(g.r.intn(30)), false))
		add(hd(o, "X25") + "311061700956")
		add(hd(o, "GPOS") + "-32.6882 116.8652 10.0")
		add(hd(o, "KX") + "10 " + g.owner())
		add(hd(o, "NULL") + fmt.Sprintf(`\# %d %s`, 7, g.hex(7)))
	}
	return out
}

func (g *cgen) opt() *dns.OPT {
	o := &dns.OPT{Hdr: dns.RR_Header{Name: ".", Rrtype: dns.TypeOPT}}
	o.SetUDPSize([]uint16{512, 1232, 4096, 65535}[g.r.intn(4)])
	if g.r.intn(2) == 0 {
		o.SetDo()
	}
	for i := g.r.intn(5); i > 0; i-- {
		switch g.r.intn(7) {
		case 0:
			o.Option = append(o.Option, &dns.EDNS0_SUBNET{Code: dns.EDNS0SUBNET, Family: 1, SourceNetmask: uint8(8 * (1 + g.r.intn(4))), Address: net.IPv4(byte(1+g.r.intn(200)), 0, 0, 0).To4()})
		case 1:
			o.Option = append(o.Option, &dns.EDNS0_SUBNET{Code: dns.EDNS0SUBNET, Family: 2, SourceNetmask: 56, Address: net.ParseIP("2001:db8:aa::")})
		case 2:
			o.Option = append(o.Option, &dns.EDNS0_COOKIE{Code: dns.EDNS0COOKIE, Cookie: fmt.Sprintf("%x", g.bytesN([]int{8, 16, 24, 40}[g.r.intn(4)]))})
		case 3:
			o.Option = append(o.Option, &dns.EDNS0_PADDING{Padding: make([]byte, g.r.intn(468))})
		case 4:
			o.Option = append(o.Option, &dns.EDNS0_NSID{Code: dns.EDNS0NSID, Nsid: fmt.Sprintf("%x", g.bytesN(g.r.intn(20)))})
		case 5:
			o.Option = append(o.Option, &dns.EDNS0_LOCAL{Code: uint16(65001 + g.r.intn(500)), Data: g.bytesN(g.r.intn(50))})
		case 6:
			o.Option = append(o.Option, &dns.EDNS0_EDE{InfoCode: uint16(g.r.intn(25)), ExtraText: g.label() + " " + g.label()})
		}
	}
	return o
}

var contentRejected atomic.Int64

// contentFailed: a content-class case has produced a verdict (the "observed
// nothing" guard at the end of the run then does not apply).
var contentFailed atomic.Bool

func contentViolation(key, what string, wit any) {
	contentFailed.Store(true)
	rep.Violation(key, what, wit)
}

// message builds one message of a content class. Records dns.NewRR does not
// accept are skipped (counted: a generator bug, never a verdict).
func (g *cgen) message(class string, compress bool) (*dns.Msg, []string) {
	m := new(dns.Msg)
	m.Response = true
	m.RecursionDesired = g.r.intn(2) == 0
	m.RecursionAvailable = true
	m.AuthenticatedData = g.r.intn(4) == 0
	m.CheckingDisabled = g.r.intn(8) == 0
	m.Authoritative = g.r.intn(4) == 0
	m.Rcode = []int{0, 0, 0, 3, 2}[g.r.intn(5)]
	m.Compress = compress
	qn := g.owner()
	if class == "name-escapes" {
		qn = g.escOwner()
	}
	m.Question = []dns.Question{{Name: qn, Qtype: []uint16{1, 28, 16, 46, 48, 65, 255, 65280}[g.r.intn(8)], Qclass: 1}}
	var texts []string
	classes := []string{class}
	if class == "mixed" {
		classes = nil
		for i := 2 + g.r.intn(4); i > 0; i-- {
			classes = append(classes, contentClasses[g.r.intn(len(contentClasses)-1)])
		}
	}
	for _, cl := range classes {
		if cl == "opt" {
			// a plain answer plus the OPT record at the end of the additional section
			texts = append(texts, g.rrTexts("addr")...)
			continue
		}
		texts = append(texts, g.rrTexts(cl)...)
	}
	var used []string
	for _, t := range texts {
		rr, err := dns.NewRR(t)
		if err != nil || rr == nil {
			contentRejected.Add(1)
			rep.SetAdd("content_generator_text_rejected", trimStr(t, 80))
			continue
		}
		used = append(used, t)
		switch g.r.intn(6) {
		case 0:
			m.Ns = append(m.Ns, rr)
		case 1:
			m.Extra = append(m.Extra, rr)
		default:
			m.Answer = append(m.Answer, rr)
		}
	}
	withOPT := class == "opt" || g.r.intn(3) == 0
	if withOPT {
		o := g.opt()
		m.Extra = append(m.Extra, o)
		used = append(used, trimStr(strings.ReplaceAll(o.String(), "\n", " | "), 200))
	}
	return m, used
}

// ---- one prepared message ----

type contentMsg struct {
	m      *dns.Msg
	want   []byte // reference packing (ID as in m)
	texts  []string
	estLen int // dns.Msg.Len(), only for the evidence
}

func rrTypesOf(m *dns.Msg) []string {
	seen := map[uint16]bool{}
	var out []string
	for _, sec := range [][]dns.RR{m.Answer, m.Ns, m.Extra} {
		for _, rr := range sec {
			t := rr.Header().Rrtype
			if !seen[t] {
				seen[t] = true
				out = append(out, dns.Type(t).String())
			}
		}
	}
	return out
}

// prepare builds the messages of one stream. ok is false when the class yields
// nothing packable for this seed (generator problem: counted, no verdict).
func prepareContent(c contentCase) []contentMsg {
	g := &cgen{r: xrng{s: c.Seed}}
	var out []contentMsg
	for i := 0; i < c.Msgs; i++ {
		g.zone = g.pick("example.com.", "example.org.", "sub.zone.example.", "xn--bcher-kva.example.", "c16.test.")
		m, texts := g.message(c.Class, c.Compress)
		m.Id = uint16(0x4000 + i)
		ref, err := m.Copy().Pack()
		if err != nil {
			contentRejected.Add(1)
			rep.SetAdd("content_generator_unpackable", c.Class+": "+trimErr(err))
			continue
		}
		if c.Origin == "relayed" {
			// what mosdns holds when it relays an upstream reply: the unpacked wire
			u := new(dns.Msg)
			if err := u.Unpack(ref); err != nil {
				contentRejected.Add(1)
				rep.SetAdd("content_generator_unpackable", c.Class+" (unpack): "+trimErr(err))
				continue
			}
			u.Compress = c.Compress
			m = u
			if ref, err = m.Copy().Pack(); err != nil {
				contentRejected.Add(1)
				continue
			}
		}
		if len(ref) > 65535 {
			continue
		}
		out = append(out, contentMsg{m: m, want: ref, texts: texts, estLen: m.Len()})
	}
	return out
}

func withID(w []byte, id uint16) []byte {
	b := append([]byte(nil), w...)
	binary.BigEndian.PutUint16(b, id)
	return b
}

// contentWitness names the failing message.
func contentWitness(c contentCase, msgs []contentMsg, i int, extra map[string]any) map[string]any {
	w := map[string]any{"case": c}
	if i >= 0 && i < len(msgs) {
		w["message_index"] = i
		w["message_records"] = msgs[i].texts
		w["message_packed_len"] = len(msgs[i].want)
		w["message_Len_estimate"] = msgs[i].estLen
		w["message_rr_types"] = rrTypesOf(msgs[i].m)
	}
	for k, v := range extra {
		w[k] = v
	}
	return w
}

// verifyContentStream: the stream a writer produced for msgs must deframe into
// exactly these messages. It returns the index of the first bad message, or -1.
func verifyContentStream(fn string, c contentCase, stream []byte, msgs []contentMsg) bool {
	var d wire.Deframer
	frames := d.Feed(stream)
	total := 0
	for _, cm := range msgs {
		total += 2 + len(cm.want)
	}
	for i, cm := range msgs {
		if i >= len(frames) {
			break
		}
		f := frames[i]
		if bytes.Equal(f, cm.want) {
			// the frame is one whole DNS message for the independent parser too
			pm, err := wire.Parse(f)
			if err != nil || pm.Len != len(f) || int(pm.AN) != len(cm.m.Answer) || int(pm.NS) != len(cm.m.Ns) || int(pm.AR) != len(cm.m.Extra) || pm.ID != cm.m.Id {
				contentViolation(fn+"-content-frame-not-one-message", fmt.Sprintf("%s, message %d of the stream (%s, %v): the frame of %d bytes is not exactly one DNS message with the records written (independent parser: err=%v)", fn, i, c.Class, rrTypesOf(cm.m), len(f), err), contentWitness(c, msgs, i, nil))
				return false
			}
			continue
		}
		what := fmt.Sprintf("%s, message %d of %d on one stream (class %s, records %v, %s, compress=%v): the message packs to %d bytes (dns.Msg.Len() says %d), the independent deframer got a frame of %d bytes at this position (first difference at body offset %d)", fn, i, len(msgs), c.Class, rrTypesOf(cm.m), c.Origin, c.Compress, len(cm.want), cm.estLen, len(f), firstDiff(f, cm.want))
		if i > 0 {
			what += fmt.Sprintf("; the %d message(s) before it were intact, so the bytes written for message %d do not end where its frame ends", i, i-1)
		}
		contentViolation(fn+"-content-misframed", what, contentWitness(c, msgs, i, map[string]any{"stream_len": len(stream), "frames_total_len": total, "frame_head": hexHead(f, 48), "want_head": hexHead(cm.want, 48)}))
		return false
	}
	if len(frames) != len(msgs) || len(d.Rest()) != 0 || len(stream) != total {
		contentViolation(fn+"-content-misframed", fmt.Sprintf("%s wrote %d messages (class %s) as %d bytes; their frames are %d bytes; the independent deframer saw %d frame(s) and %d trailing byte(s)", fn, len(msgs), c.Class, len(stream), total, len(frames), len(d.Rest())), contentWitness(c, msgs, len(frames)-1, map[string]any{"stream_len": len(stream), "frames_total_len": total}))
		return false
	}
	return true
}

func contentFingerprint(c contentCase, msgs []contentMsg, path string) {
	over := 0
	for _, cm := range msgs {
		for _, t := range rrTypesOf(cm.m) {
			rep.SetAdd("content_rr_types", t)
		}
		if cm.estLen != len(cm.want) {
			over++
			for _, t := range rrTypesOf(cm.m) {
				if t != "A" && t != "AAAA" && t != "OPT" {
					rep.SetAdd("content_rr_types_in_messages_whose_Len_estimate_is_not_the_packed_size", t)
				}
			}
		}
	}
	rep.Count("content_messages_verified_"+path, int64(len(msgs)))
	if path == "pure" {
		rep.Count("content_messages_Len_estimate_exact", int64(len(msgs)-over))
		rep.Count("content_messages_Len_estimate_not_packed_size", int64(over))
	}
	rep.Nontrivial(fmt.Sprintf("content|%s|%s|%s|c%v|n%d|est%d|%x", path, c.Class, c.Origin, c.Compress, len(msgs), over, c.Seed&0xffff))
}

// runContentPure: PackTCPBuffer and WriteMsgToTCP, several messages per stream,
// then the stream is read back through the chunking readers.
func runContentPure(c contentCase) {
	caselog.Log(c)
	msgs := prepareContent(c)
	if len(msgs) < 2 {
		return
	}
	// PackTCPBuffer: the buffers are concatenated exactly as ServeTCP writes them
	var stream []byte
	ok := true
	for i, cm := range msgs {
		var bp *[]byte
		var err error
		if guarded("PackTCPBuffer", c, func() { bp, err = pool.PackTCPBuffer(cm.m) }) {
			return
		}
		rep.Eval(1)
		if err != nil || bp == nil {
			contentViolation("PackTCPBuffer-refused-valid-length", fmt.Sprintf("PackTCPBuffer refused a message that packs to %d bytes (class %s): %v", len(cm.want), c.Class, err), contentWitness(c, msgs, i, nil))
			return
		}
		if !poolsan.Check(bp, "PackTCPBuffer result") {
			return
		}
		if len(*bp) != 2+len(cm.want) {
			contentViolation("PackTCPBuffer-content-misframed", fmt.Sprintf("PackTCPBuffer returned %d bytes for message %d (class %s, records %v), which packs to %d bytes: the frame is 2+%d; dns.Msg.Len() says %d; length field %d", len(*bp), i, c.Class, rrTypesOf(cm.m), len(cm.want), len(cm.want), cm.estLen, binary.BigEndian.Uint16(*bp)), contentWitness(c, msgs, i, map[string]any{"buffer_head": hexHead(*bp, 48)}))
			ok = false
		}
		stream = append(stream, *bp...)
		pool.ReleaseBuf(bp)
		if !ok {
			return
		}
	}
	if !verifyContentStream("PackTCPBuffer", c, stream, msgs) {
		return
	}
	rep.Count("writer_frames_verified", int64(len(msgs)))

	rec := &recWriter{}
	for i, cm := range msgs {
		var n int
		var err error
		before := len(rec.buf)
		if guarded("WriteMsgToTCP", c, func() { n, err = dnsutils.WriteMsgToTCP(rec, cm.m) }) {
			return
		}
		rep.Eval(1)
		if err != nil {
			contentViolation("WriteMsgToTCP-refused-valid-length", fmt.Sprintf("WriteMsgToTCP refused a message that packs to %d bytes (class %s): %v", len(cm.want), c.Class, err), contentWitness(c, msgs, i, nil))
			return
		}
		if wrote := len(rec.buf) - before; wrote != 2+len(cm.want) || n != wrote {
			contentViolation("WriteMsgToTCP-content-misframed", fmt.Sprintf("WriteMsgToTCP put %d bytes on the stream (returned n=%d) for message %d (class %s, records %v), which packs to %d bytes: the frame is 2+%d; dns.Msg.Len() says %d", wrote, n, i, c.Class, rrTypesOf(cm.m), len(cm.want), len(cm.want), cm.estLen), contentWitness(c, msgs, i, map[string]any{"written_head": hexHead(rec.buf[before:], 48)}))
			return
		}
	}
	if !verifyContentStream("WriteMsgToTCP", c, rec.buf, msgs) {
		return
	}
	rep.Count("writer_frames_verified", int64(len(msgs)))

	// read the stream mosdns wrote back, message by message
	for _, class := range []string{"full", "splits", "rand"} {
		r := newChunkReader(rec.buf, class, len(msgs[0].want), c.Seed^0x31)
		for i, cm := range msgs {
			var got *dns.Msg
			var n int
			var err error
			if guarded("ReadMsgFromTCP", c, func() { got, n, err = dnsutils.ReadMsgFromTCP(r) }) {
				return
			}
			rep.Eval(1)
			ref := new(dns.Msg)
			if uerr := ref.Unpack(cm.want); uerr != nil {
				// the library cannot decode its own packing of these records: not a
				// framing matter, but the whole frame must have been consumed so that
				// the next message is read intact
				rep.Count("content_messages_not_decodable_by_the_library", 1)
				if err == nil || n != 2+len(cm.want) {
					contentViolation("ReadMsgFromTCP-content-roundtrip", fmt.Sprintf("message %d (class %s, chunking %s): a frame whose body the library cannot decode returned err=%v n=%d (frame 2+%d)", i, c.Class, class, err, n, len(cm.want)), contentWitness(c, msgs, i, nil))
					return
				}
				continue
			}
			if err != nil {
				contentViolation("ReadMsgFromTCP-content-roundtrip", fmt.Sprintf("message %d of a stream written by WriteMsgToTCP (class %s) cannot be read back (chunking %s): %s", i, c.Class, class, trimErr(err)), contentWitness(c, msgs, i, nil))
				return
			}
			if n != 2+len(cm.want) || !reflect.DeepEqual(got, ref) {
				contentViolation("ReadMsgFromTCP-content-roundtrip", fmt.Sprintf("message %d (class %s, chunking %s) read back from the stream differs from the message written (n=%d, frame 2+%d)", i, c.Class, class, n, len(cm.want)), contentWitness(c, msgs, i, map[string]any{"got": trimStr(got.String(), 600)}))
				return
			}
		}
		rep.Count("reader_frames_verified", int64(len(msgs)))
	}
	contentFingerprint(c, msgs, "pure")
	if c.Class == "rrsig" {
		sampleKind("content-"+c.Class, 1, map[string]any{"content_stream": c, "first_message_records": msgs[0].texts, "packed_len": len(msgs[0].want), "Len_estimate": msgs[0].estLen, "stream_len": len(rec.buf)})
	}
}

// ---- the same messages as replies of the real servers ----

type contentHandler struct {
	c        contentCase
	msgs     []contentMsg
	returned atomic.Int64
	bad      atomic.Int64
}

func (h *contentHandler) Handle(ctx context.Context, q *dns.Msg, meta server.QueryMeta, pack func(m *dns.Msg) (*[]byte, error)) *[]byte {
	defer h.returned.Add(1)
	var i, round int
	if len(q.Question) != 1 {
		h.bad.Add(1)
		return nil
	}
	if _, err := fmt.Sscanf(q.Question[0].Name, "m%d.r%d.content.c16.", &i, &round); err != nil || i < 0 || i >= len(h.msgs) {
		h.bad.Add(1)
		return nil
	}
	r := h.msgs[i].m.Copy()
	r.Id = q.Id
	// replies of one connection are produced concurrently
	if (i+round)%3 == 0 {
		time.Sleep(time.Duration(mix(uint64(i*31+round))%2000) * time.Microsecond)
	}
	bp, err := pack(r)
	if err != nil {
		contentViolation("server-pack-refused-valid-length", fmt.Sprintf("the server's pack function refused a reply that packs to %d bytes (class %s): %v", len(h.msgs[i].want), h.c.Class, err), contentWitness(h.c, h.msgs, i, nil))
		return nil
	}
	return bp
}

func contentQuery(id uint16, i, round int) []byte {
	return wire.NewBuilder(id, 0x0100).Question(wire.EncodeName(fmt.Sprintf("m%d.r%d.content.c16.", i, round)), 16, 1).Bytes()
}

// runContentServer: every prepared message is requested `rounds` times on one
// connection (TCP/TLS: pipelined; DoQ: one stream each).
func runContentServer(c contentCase, proto string, rounds int) {
	caselog.Log(c)
	msgs := prepareContent(c)
	if len(msgs) < 2 {
		return
	}
	h := &contentHandler{c: c, msgs: msgs}
	b, err := startServerWith(srvCfg{Kind: "server", Proto: proto, Conns: 1, Seed: c.Seed}, h)
	if err != nil {
		rep.Inconclusive("cannot start %s server: %v", proto, err)
		return
	}
	defer b.stop()
	total := len(msgs) * rounds
	key := "server-" + proto + "-content-reply-misframed"
	verified := 0
	if proto == "doq" {
		verified = runContentDoQ(c, b, msgs, rounds, key)
	} else {
		verified = runContentStream(c, b, h, msgs, rounds, key, proto)
	}
	rep.Eval(verified)
	if verified == total {
		contentFingerprint(c, msgs, "server_"+proto)
		rep.Count("server_replies_verified_"+proto, int64(verified))
	}
	if h.bad.Load() > 0 {
		rep.Inconclusive("content server batch %+v: the handler saw %d queries it could not map", c, h.bad.Load())
	}
}

func runContentStream(c contentCase, b *srvBatch, h *contentHandler, msgs []contentMsg, rounds int, key, proto string) int {
	raw, err := net.DialTimeout("tcp", b.addr, 5*time.Second)
	if err != nil {
		rep.Inconclusive("dial %s: %v", b.addr, err)
		return 0
	}
	var conn net.Conn = raw
	if proto == "tls" {
		conn = tls.Client(raw, b.tlsConf)
	}
	defer conn.Close()
	total := len(msgs) * rounds
	type out struct{ i, round int }
	var mu sync.Mutex
	outstanding := map[uint16]out{}
	window := make(chan struct{}, 24)
	stopW := make(chan struct{})
	var sent atomic.Int64
	var wg sync.WaitGroup
	wg.Add(1)
	go func() {
		defer wg.Done()
		id := uint16(c.Seed)
		for round := 0; round < rounds; round++ {
			for i := range msgs {
				select {
				case window <- struct{}{}:
				case <-stopW:
					return
				}
				id++
				mu.Lock()
				outstanding[id] = out{i, round}
				mu.Unlock()
				if _, err := conn.Write(wire.Frame(contentQuery(id, i, round))); err != nil {
					return
				}
				sent.Add(1)
			}
		}
	}()
	defer func() { close(stopW); conn.Close(); wg.Wait() }()

	var d wire.Deframer
	buf := make([]byte, 70000)
	received := 0
	silent := 0
	for received < total {
		conn.SetReadDeadline(time.Now().Add(5 * time.Second))
		n, err := conn.Read(buf)
		for _, f := range d.Feed(buf[:n]) {
			what := ""
			idx := -1
			if len(f) < 2 {
				what = fmt.Sprintf("a frame of %d bytes", len(f))
			} else {
				id := binary.BigEndian.Uint16(f)
				mu.Lock()
				o, ok := outstanding[id]
				delete(outstanding, id)
				mu.Unlock()
				if !ok {
					what = fmt.Sprintf("a frame of %d bytes that starts with ID %#04x, which is not outstanding", len(f), id)
				} else if want := withID(msgs[o.i].want, id); !bytes.Equal(f, want) {
					idx = o.i
					what = fmt.Sprintf("the reply carrying message %d (records %v, packs to %d bytes, dns.Msg.Len() %d) as a frame of %d bytes, first difference at offset %d", o.i, rrTypesOf(msgs[o.i].m), len(want), msgs[o.i].estLen, len(f), firstDiff(f, want))
				}
			}
			if what != "" {
				contentViolation(key, fmt.Sprintf("%s server, replies of class %s pipelined on one connection: after %d intact replies the independent deframer got %s", proto, c.Class, received, what), contentWitness(c, msgs, idx, map[string]any{"frame_head": hexHead(f, 48), "replies_intact_before": received}))
				return received
			}
			received++
			silent = 0
			<-window
		}
		if err != nil && received < total {
			var ne net.Error
			timeout := errors.As(err, &ne) && ne.Timeout()
			if timeout {
				silent++
			}
			allReturned := h.returned.Load() >= sent.Load()
			switch {
			case len(d.Rest()) != 0 && (!timeout || (allReturned && silent >= 2)):
				// closed by the server, or silent for 10 s after every handler had
				// returned its reply: nothing more will be written
				contentViolation(key, fmt.Sprintf("%s server, replies of class %s: the connection ended/went silent (%v) after %d of %d replies inside a frame: %d bytes of an announced %s received, although every handler had returned its reply", proto, c.Class, err, received, total, len(d.Rest()), announced(d.Rest())), contentWitness(c, msgs, -1, map[string]any{"rest_head": hexHead(d.Rest(), 48), "replies_intact_before": received}))
				return received
			case timeout && silent < 6:
				continue
			default:
				rep.Inconclusive("content server batch %+v: stream stalled (%v) after %d of %d replies", c, err, received, total)
				return received
			}
		}
	}
	return received
}

func runContentDoQ(c contentCase, b *srvBatch, msgs []contentMsg, rounds int, key string) int {
	ctx, cancel := context.WithTimeout(context.Background(), 60*time.Second)
	defer cancel()
	conn, err := quic.DialAddr(ctx, b.addr, b.tlsConf, &quic.Config{MaxIdleTimeout: 60 * time.Second})
	if err != nil {
		rep.Inconclusive("quic dial %s: %v", b.addr, err)
		return 0
	}
	defer conn.CloseWithError(0, "")
	type job struct{ i, round int }
	jobs := make(chan job)
	var verified atomic.Int64
	var failed atomic.Bool
	var wg sync.WaitGroup
	for w := 0; w < 8; w++ {
		wg.Add(1)
		go func() {
			defer wg.Done()
			for j := range jobs {
				if failed.Load() {
					continue
				}
				st, err := conn.OpenStreamSync(ctx)
				if err != nil {
					rep.Inconclusive("quic open stream: %v", err)
					failed.Store(true)
					continue
				}
				id := uint16(j.i*7 + j.round)
				if _, err := st.Write(wire.Frame(contentQuery(id, j.i, j.round))); err != nil {
					rep.Inconclusive("quic stream write: %v", err)
					failed.Store(true)
					continue
				}
				st.Close()
				st.SetReadDeadline(time.Now().Add(30 * time.Second))
				data, rerr := io.ReadAll(st)
				var d wire.Deframer
				frames := d.Feed(data)
				want := withID(msgs[j.i].want, id)
				if len(frames) == 1 && len(d.Rest()) == 0 && bytes.Equal(frames[0], want) {
					verified.Add(1)
					continue
				}
				var ne net.Error
				if len(data) == 0 || (rerr != nil && errors.As(rerr, &ne) && ne.Timeout()) {
					rep.Inconclusive("doq content stream for message %d returned %d bytes and %v", j.i, len(data), rerr)
					failed.Store(true)
					continue
				}
				contentViolation(key, fmt.Sprintf("doq server, reply carrying message %d (class %s, records %v, packs to %d bytes, dns.Msg.Len() %d): the stream carried %d bytes: %d frame(s) and %d trailing byte(s); expected exactly one frame of 2+%d bytes", j.i, c.Class, rrTypesOf(msgs[j.i].m), len(want), msgs[j.i].estLen, len(data), len(frames), len(d.Rest()), len(want)), contentWitness(c, msgs, j.i, map[string]any{"data_head": hexHead(data, 48)}))
				failed.Store(true)
			}
		}()
	}
	for round := 0; round < rounds; round++ {
		for i := range msgs {
			jobs <- job{i, round}
		}
	}
	close(jobs)
	wg.Wait()
	return int(verified.Load())
}

// runContentPhase: the seed-determined case list of the content dimension.
func runContentPhase(seed uint64) {
	r := xrng{s: seed ^ 0xc0a7e47}
	var cases []contentCase
	per := rep.Pick(12, 80)
	for _, class := range contentClasses {
		for k := 0; k < per; k++ {
			cases = append(cases, contentCase{Kind: "content", Path: "pure", Class: class, Origin: []string{"parsed", "relayed"}[k%2], Compress: k/2%2 == 0, Msgs: 3 + r.intn(6), Seed: r.next()})
		}
	}
	ch := make(chan contentCase, 64)
	var wg sync.WaitGroup
	for w := 0; w < 16; w++ {
		wg.Add(1)
		go func() {
			defer wg.Done()
			for c := range ch {
				runContentPure(c)
			}
		}()
	}
	for _, c := range cases {
		ch <- c
	}
	close(ch)
	wg.Wait()

	// servers: every class on every protocol
	protos := []string{"tcp", "tls", "doq"}
	n := 0
	var swg sync.WaitGroup
	sem := make(chan struct{}, 6)
	for round := 0; round < rep.Pick(1, 4); round++ {
		for _, class := range contentClasses {
			for _, proto := range protos {
				c := contentCase{Kind: "content", Path: "server-" + proto, Class: class, Origin: []string{"relayed", "parsed"}[n%2], Compress: n%4 < 3, Msgs: 4 + r.intn(5), Seed: r.next()}
				n++
				swg.Add(1)
				sem <- struct{}{}
				go func() {
					defer swg.Done()
					defer func() { <-sem }()
					runContentServer(c, c.Path[7:], 2)
				}()
			}
		}
	}
	swg.Wait()
	rep.Count("content_generator_records_rejected", contentRejected.Load())
}
