package main

import (
	"bytes"
	"context"
	"crypto/tls"
	"encoding/binary"
	"errors"
	"fmt"
	"io"
	"net"
	"runtime"
	"sort"
	"sync"
	"sync/atomic"
	"time"

	"github.com/IrineSistiana/mosdns/v5/pkg/pool"
	"github.com/IrineSistiana/mosdns/v5/pkg/server"
	"github.com/IrineSistiana/mosdns/v5/pkg/utils"
	"github.com/miekg/dns"
	"github.com/quic-go/quic-go"

	"verifharness/lib/wire"
)

// srvCfg: one batch of pipelined queries against mosdns' stream servers on a
// real loopback listener.
type srvCfg struct {
	Kind    string `json:"kind"`  // "server"
	Proto   string `json:"proto"` // tcp | tls | doq
	Conns   int    `json:"connections"`
	Queries int    `json:"queries_per_connection"`
	Window  int    `json:"pipelined_window"`
	Burst   int    `json:"burst"`
	Procs   int    `json:"gomaxprocs"`
	Seed    uint64 `json:"seed"`
	// slow-reader phase (plain TCP): the first Slow queries get 30..60 KiB
	// replies, the client does not read for PauseMs (socket buffers 16 KiB on
	// both sides), then reads everything and pipelines the remaining queries
	Slow    int `json:"slow_reader_big_replies,omitempty"`
	PauseMs int `json:"slow_reader_pause_ms,omitempty"`
}

// smallBufListener gives accepted connections a small send buffer so that the
// slow-reader phase does not depend on the host's tcp_wmem autotuning.
type smallBufListener struct{ net.Listener }

func (l smallBufListener) Accept() (net.Conn, error) {
	c, err := l.Listener.Accept()
	if tc, ok := c.(*net.TCPConn); err == nil && ok {
		tc.SetWriteBuffer(16 * 1024)
	}
	return c, err
}

type qParams struct {
	n     int  // reply size
	raw   bool // handler frames the payload itself (all sizes) instead of packMsgPayload
	delay int
	pad   int // bytes of NULL data in the query's additional section (0: none)
	echo  bool
}

func srvParams(seed uint64, conn, seq int) qParams {
	r := mix(seed ^ uint64(conn)<<40 ^ uint64(seq)*0x9e3779b1)
	var p qParams
	if conn >= 1000 && seq < conn/1000 {
		// slow-reader connection: large replies, written at once
		p.n = 30000 + int((r>>8)%31440)
		p.raw = (r>>32)%8 == 0
		p.echo = (r>>36)%2 == 0
		return p
	}
	switch r % 10 {
	case 0, 1, 2, 3:
		p.n = 13 + int((r>>8)%88)
	case 4, 5, 6:
		p.n = 100 + int((r>>8)%1400)
	case 7, 8:
		p.n = 1500 + int((r>>8)%14500)
	default:
		p.n = 16000 + int((r>>8)%45440) // up to 60 KiB
	}
	p.raw = (r>>32)%8 == 0 || p.n < 23
	p.echo = (r>>36)%2 == 0
	p.delay = int((r >> 40) % 8)
	switch (r >> 44) % 100 {
	case 0:
		p.pad = 8000 + int((r>>52)%52000)
	case 1, 2, 3, 4, 5, 6, 7, 8, 9:
		p.pad = 500 + int((r>>52)%7500)
	default:
		if (r>>44)%100 < 40 {
			p.pad = 1 + int((r>>52)%500)
		}
	}
	return p
}

func srvQName(seed uint64, conn, seq int) string {
	return fmt.Sprintf("q%d.k%d.s%x.c16.", seq, conn, uint32(seed))
}

func srvQuery(seed uint64, conn, seq int) []byte {
	p := srvParams(seed, conn, seq)
	b := wire.NewBuilder(uint16(seq), 0x0100).Question(wire.EncodeName(srvQName(seed, conn, seq)), 16, 1)
	if p.pad > 0 {
		b.RR(2, []byte{0}, 10, 1, 0, pattern(seed^uint64(seq)<<16^uint64(conn), p.pad))
	}
	return b.Bytes()
}

// srvReplySpec: the reply for (conn, seq) in message mode.
func srvReplySpec(seed uint64, conn, seq int, p qParams) msgSpec {
	s := msgSpec{ID: uint16(seq), Qtype: 16, TTL: uint32(seq)*2654435761 + uint32(conn), HasRR: true}
	name := srvQName(seed, conn, seq)
	qw := wire.EncodeName(name)
	L := p.n - 23
	if p.echo && p.n >= 27+len(qw) {
		s.QWire, s.QName = qw, name
		L = p.n - 27 - len(qw)
	}
	s.Data = pattern(seed^0xbeef^uint64(seq)<<20^uint64(conn), L)
	return s
}

func srvExpected(seed uint64, conn, seq int) []byte {
	p := srvParams(seed, conn, seq)
	if p.raw {
		b := make([]byte, p.n)
		binary.BigEndian.PutUint16(b, uint16(seq))
		fillPattern(b[2:], seed^0xface^uint64(seq)<<20^uint64(conn))
		return b
	}
	return srvReplySpec(seed, conn, seq, p).wire()
}

type gate struct {
	mu sync.Mutex
	ch chan struct{}
	n  int
	k  int
}

func (g *gate) wait(max time.Duration) {
	g.mu.Lock()
	ch := g.ch
	g.n++
	if g.n >= g.k {
		close(ch)
		g.ch = make(chan struct{})
		g.n = 0
		g.mu.Unlock()
		return
	}
	g.mu.Unlock()
	t := time.NewTimer(max)
	select {
	case <-ch:
	case <-t.C:
	}
	t.Stop()
}

type srvHandler struct {
	cfg      srvCfg
	g, big   *gate
	inflight atomic.Int64
	maxIn    atomic.Int64
	handled  atomic.Int64
	returned atomic.Int64
	bad      atomic.Int64
	packErr  atomic.Int64
	badOnce  sync.Once
}

func (h *srvHandler) badQuery(q *dns.Msg, why string) {
	h.bad.Add(1)
	h.badOnce.Do(func() {
		rep.Violation("server-"+h.cfg.Proto+"-query-misread", "the server handed the handler a query the client never framed: "+why, map[string]any{"cfg": h.cfg, "query": trimStr(q.String(), 600)})
	})
}

func trimStr(s string, n int) string {
	if len(s) > n {
		return s[:n] + "..."
	}
	return s
}

func (h *srvHandler) Handle(ctx context.Context, q *dns.Msg, meta server.QueryMeta, pack func(m *dns.Msg) (*[]byte, error)) *[]byte {
	h.handled.Add(1)
	defer h.returned.Add(1)
	in := h.inflight.Add(1)
	defer h.inflight.Add(-1)
	for {
		m := h.maxIn.Load()
		if in <= m || h.maxIn.CompareAndSwap(m, in) {
			break
		}
	}
	if len(q.Question) != 1 {
		h.badQuery(q, "no question")
		return nil
	}
	var seq, conn int
	var sd uint32
	if _, err := fmt.Sscanf(q.Question[0].Name, "q%d.k%d.s%x.c16.", &seq, &conn, &sd); err != nil || sd != uint32(h.cfg.Seed) {
		h.badQuery(q, "question name is not one the client sent")
		return nil
	}
	seed := h.cfg.Seed
	p := srvParams(seed, conn, seq)
	if q.Id != uint16(seq) || q.Question[0].Qtype != 16 || q.Response {
		h.badQuery(q, "header/question differ from what was sent")
		return nil
	}
	if p.pad > 0 {
		ok := false
		if len(q.Extra) == 1 {
			if rr, isNull := q.Extra[0].(*dns.NULL); isNull && rr.Data == string(pattern(seed^uint64(seq)<<16^uint64(conn), p.pad)) {
				ok = true
			}
		}
		if !ok {
			h.badQuery(q, fmt.Sprintf("the %d byte additional record differs from what was sent", p.pad))
			return nil
		}
	} else if len(q.Extra) != 0 {
		h.badQuery(q, "unexpected additional record")
		return nil
	}
	rep.Count("server_queries_verified_by_handler", 1)

	switch p.delay {
	case 0:
	case 1:
		for i := 0; i < 1+seq%7; i++ {
			runtime.Gosched()
		}
	case 2:
		time.Sleep(time.Duration(mix(uint64(seq))%500) * time.Microsecond)
	case 3:
		time.Sleep(time.Duration(mix(uint64(seq))%3000) * time.Microsecond)
	case 4:
		h.g.wait(4 * time.Millisecond)
	case 5:
		h.big.wait(60 * time.Millisecond)
	case 6:
		time.Sleep(time.Duration(mix(uint64(seq))%40000) * time.Microsecond)
	default:
		time.Sleep(time.Duration(mix(uint64(seq))%100000) * time.Microsecond)
	}

	if p.raw {
		want := srvExpected(seed, conn, seq)
		bp := pool.GetBuf(2 + len(want))
		copy(*bp, wire.Frame(want))
		return bp
	}
	bp, err := pack(srvReplySpec(seed, conn, seq, p).msg())
	if err != nil {
		h.packErr.Add(1)
		rep.Violation("server-pack-refused-valid-length", fmt.Sprintf("packMsgPayload refused a %d byte reply: %v", p.n, err), h.cfg)
		return nil
	}
	return bp
}

type srvBatch struct {
	cfg      srvCfg
	h        *srvHandler
	addr     string
	tlsConf  *tls.Config
	verified atomic.Int64
	stop     func()
}

func startServer(cfg srvCfg) (*srvBatch, error) {
	h := &srvHandler{cfg: cfg, g: &gate{ch: make(chan struct{}), k: cfg.Burst}, big: &gate{ch: make(chan struct{}), k: cfg.Window / 3}}
	b, err := startServerWith(cfg, h)
	if b != nil {
		b.h = h
	}
	return b, err
}

// startServerWith runs the real server of cfg.Proto on a loopback listener with
// the given handler.
func startServerWith(cfg srvCfg, handler server.Handler) (*srvBatch, error) {
	b := &srvBatch{cfg: cfg}
	switch cfg.Proto {
	case "tcp", "tls":
		l, err := net.Listen("tcp", "127.0.0.1:0")
		if err != nil {
			return nil, err
		}
		b.addr = l.Addr().String()
		if cfg.Proto == "tls" {
			cert, err := utils.GenerateCertificate("c16.test")
			if err != nil {
				l.Close()
				return nil, err
			}
			l = tls.NewListener(l, &tls.Config{Certificates: []tls.Certificate{cert}})
			b.tlsConf = &tls.Config{InsecureSkipVerify: true, ServerName: "c16.test"}
		} else if cfg.Slow > 0 {
			l = smallBufListener{l}
		}
		go server.ServeTCP(l, handler, server.TCPServerOpts{IdleTimeout: 60 * time.Second})
		b.stop = func() { l.Close() }
	case "doq":
		cert, err := utils.GenerateCertificate("c16.test")
		if err != nil {
			return nil, err
		}
		uc, err := net.ListenPacket("udp", "127.0.0.1:0")
		if err != nil {
			return nil, err
		}
		qt := &quic.Transport{Conn: uc}
		// the receive windows the quic_server plugin uses: large queries reach
		// the server's reader in small pieces
		ql, err := qt.Listen(&tls.Config{Certificates: []tls.Certificate{cert}, NextProtos: []string{"doq"}}, &quic.Config{
			MaxIdleTimeout:                 60 * time.Second,
			InitialStreamReceiveWindow:     4 * 1024,
			MaxStreamReceiveWindow:         4 * 1024,
			InitialConnectionReceiveWindow: 8 * 1024,
			MaxConnectionReceiveWindow:     16 * 1024,
			MaxIncomingUniStreams:          -1,
		})
		if err != nil {
			uc.Close()
			return nil, err
		}
		b.addr = uc.LocalAddr().String()
		b.tlsConf = &tls.Config{InsecureSkipVerify: true, ServerName: "c16.test", NextProtos: []string{"doq"}}
		go server.ServeDoQ(ql, handler, server.DoQServerOpts{IdleTimeout: 60 * time.Second})
		b.stop = func() { ql.Close(); qt.Close(); uc.Close() }
	default:
		return nil, errors.New("bad proto")
	}
	return b, nil
}

func (b *srvBatch) corrupt(key, what string, extra map[string]any) {
	w := map[string]any{"cfg": b.cfg}
	for k, v := range extra {
		w[k] = v
	}
	rep.Violation("server-"+b.cfg.Proto+"-"+key, what, w)
}

// frames to write: random splits so that the server's reader sees split
// headers, split bodies and coalesced frames (each TLS Write is one record).
func writeChunked(w io.Writer, data []byte, r *xrng) error {
	// at most four pieces: cuts inside the first length header, right after it,
	// one byte into the body, or anywhere
	var cuts []int
	if r.intn(2) == 0 {
		for i := r.intn(3) + 1; i > 0; i-- {
			switch r.intn(5) {
			case 0:
				cuts = append(cuts, 1)
			case 1:
				cuts = append(cuts, 2)
			case 2:
				cuts = append(cuts, 3)
			default:
				cuts = append(cuts, 1+r.intn(len(data)))
			}
		}
		sort.Ints(cuts)
	}
	off := 0
	for _, c := range append(cuts, len(data)) {
		if c <= off || c > len(data) {
			continue
		}
		if _, err := w.Write(data[off:c]); err != nil {
			return err
		}
		off = c
	}
	return nil
}

// runStreamConn pipelines cfg.Queries queries on one TCP/TLS connection.
func (b *srvBatch) runStreamConn(ci int) {
	cfg := b.cfg
	raw, err := net.DialTimeout("tcp", b.addr, 5*time.Second)
	if err != nil {
		rep.Inconclusive("dial %s: %v", b.addr, err)
		return
	}
	pc := ci // connection number as the handler sees it (selects the reply parameters)
	if tc, ok := raw.(*net.TCPConn); ok {
		tc.SetNoDelay(true)
		if cfg.Slow > 0 {
			tc.SetReadBuffer(16 * 1024)
			pc = cfg.Slow*1000 + ci
		}
	}
	resume := make(chan struct{})
	var c net.Conn = raw
	if cfg.Proto == "tls" {
		c = tls.Client(raw, b.tlsConf)
	}
	defer c.Close()

	var mu sync.Mutex
	outstanding := map[uint16]int{}
	window := make(chan struct{}, cfg.Window)
	stopW := make(chan struct{})
	var wwg sync.WaitGroup
	wwg.Add(1)
	go func() { // writer
		defer wwg.Done()
		r := xrng{s: cfg.Seed ^ uint64(ci)<<32 ^ 0x1234}
		var pend []byte
		for seq := 0; seq < cfg.Queries; seq++ {
			if cfg.Slow > 0 && seq == cfg.Slow {
				select {
				case <-resume:
				case <-stopW:
					return
				}
			}
			select {
			case window <- struct{}{}:
			case <-stopW:
				return
			}
			mu.Lock()
			outstanding[uint16(seq)] = seq
			mu.Unlock()
			pend = append(pend, wire.Frame(srvQuery(cfg.Seed, pc, seq))...)
			if r.intn(4) == 0 && seq+1 < cfg.Queries && len(window) < cap(window) {
				continue // coalesce with the next frame
			}
			if err := writeChunked(c, pend, &r); err != nil {
				return
			}
			pend = pend[:0]
		}
	}()

	var d wire.Deframer
	rr := xrng{s: cfg.Seed ^ uint64(ci)<<32 ^ 0x9999}
	buf := make([]byte, 70000)
	received := 0
	fail := false
	if cfg.Slow > 0 {
		// the client is busy with something else while the replies pile up
		time.Sleep(time.Duration(cfg.PauseMs) * time.Millisecond)
		pending := 0
		for seq := 0; seq < cfg.Slow; seq++ {
			pending += 2 + srvParams(cfg.Seed, pc, seq).n
		}
		rep.Count("server_slow_reader_bytes_pending_during_pause", int64(pending))
		rep.Count("server_slow_reader_handlers_returned_during_pause", b.h.returned.Load())
		close(resume)
	}
	for received < cfg.Queries && !fail {
		k := len(buf)
		switch rr.intn(4) {
		case 0:
			k = 1 + rr.intn(4)
		case 1:
			k = 1 + rr.intn(600)
		}
		c.SetReadDeadline(time.Now().Add(20 * time.Second))
		n, err := c.Read(buf[:k])
		for _, f := range d.Feed(buf[:n]) {
			what := ""
			seq := -1
			if len(f) < 2 {
				what = fmt.Sprintf("frame of %d bytes", len(f))
			} else {
				mu.Lock()
				s, ok := outstanding[binary.BigEndian.Uint16(f)]
				if ok {
					delete(outstanding, binary.BigEndian.Uint16(f))
				}
				mu.Unlock()
				if !ok {
					what = fmt.Sprintf("frame of %d bytes starts with ID %#04x, which is not outstanding", len(f), binary.BigEndian.Uint16(f))
				} else {
					seq = s
					want := srvExpected(cfg.Seed, pc, seq)
					if len(f) != len(want) {
						what = fmt.Sprintf("reply to query %d is %d bytes, the frame carries %d", seq, len(want), len(f))
					} else if !bytes.Equal(f, want) {
						what = fmt.Sprintf("reply to query %d (%d bytes) differs at offset %d", seq, len(want), firstDiff(f, want))
					}
				}
			}
			if what != "" {
				b.corrupt("reply-frame-corrupt", fmt.Sprintf("frame %d on a connection with up to %d pipelined queries is not one intact reply: %s", received, cfg.Window, what), map[string]any{"conn": ci, "frame_head": hexHead(f, 48), "max_handlers_in_flight": b.h.maxIn.Load()})
				fail = true
				break
			}
			received++
			b.verified.Add(1)
			p := srvParams(cfg.Seed, pc, seq)
			rep.Nontrivial(fmt.Sprintf("srv|%s|n%d|raw%v|d%d|slow%v", cfg.Proto, p.n, p.raw, p.delay, cfg.Slow > 0))
			if cfg.Slow > 0 {
				rep.Count("server_slow_reader_replies_verified", 1)
			}
			<-window
		}
		if err != nil && !fail && received < cfg.Queries {
			// the stream stopped
			var ne net.Error
			timeout := errors.As(err, &ne) && ne.Timeout()
			allReturned := b.h.returned.Load() >= int64(cfg.Conns*cfg.Queries)
			switch {
			case len(d.Rest()) != 0 && (!timeout || allReturned):
				// closed by the server, or silent for 20 s after every handler of the
				// batch had returned its reply: nothing more will be written
				b.corrupt("partial-frame-at-end", fmt.Sprintf("the connection ended/went silent (%v) inside a frame: %d bytes of an announced %s received, %d of %d replies intact before", err, len(d.Rest()), announced(d.Rest()), received, cfg.Queries), map[string]any{"conn": ci, "rest_head": hexHead(d.Rest(), 48)})
			case b.h.bad.Load() == 0:
				rep.Inconclusive("server batch %+v conn %d: stream ended (%v) after %d of %d replies (%d bytes of a frame pending, %d handlers returned)", cfg, ci, err, received, cfg.Queries, len(d.Rest()), b.h.returned.Load())
			}
			fail = true
		}
	}
	close(stopW)
	c.Close()
	wwg.Wait()
}

func announced(rest []byte) string {
	if len(rest) < 2 {
		return "header"
	}
	return fmt.Sprintf("%d byte body", binary.BigEndian.Uint16(rest))
}

// runDoQConn: one QUIC connection, one query per stream, cfg.Window streams in parallel.
func (b *srvBatch) runDoQConn(ci int) {
	cfg := b.cfg
	ctx, cancel := context.WithTimeout(context.Background(), 120*time.Second)
	defer cancel()
	conn, err := quic.DialAddr(ctx, b.addr, b.tlsConf, &quic.Config{MaxIdleTimeout: 60 * time.Second})
	if err != nil {
		rep.Inconclusive("quic dial %s: %v", b.addr, err)
		return
	}
	defer conn.CloseWithError(0, "")
	seqs := make(chan int)
	var wg sync.WaitGroup
	var failed atomic.Bool
	for w := 0; w < cfg.Window; w++ {
		wg.Add(1)
		go func(w int) {
			defer wg.Done()
			r := xrng{s: cfg.Seed ^ uint64(ci)<<32 ^ uint64(w)}
			for seq := range seqs {
				if failed.Load() {
					continue
				}
				st, err := conn.OpenStreamSync(ctx)
				if err != nil {
					rep.Inconclusive("quic open stream: %v", err)
					failed.Store(true)
					continue
				}
				if err := writeChunked(st, wire.Frame(srvQuery(cfg.Seed, ci, seq)), &r); err != nil {
					rep.Inconclusive("quic stream write: %v", err)
					failed.Store(true)
					continue
				}
				st.Close()
				st.SetReadDeadline(time.Now().Add(30 * time.Second))
				data, err := io.ReadAll(st)
				var d wire.Deframer
				frames := d.Feed(data)
				want := srvExpected(cfg.Seed, ci, seq)
				if len(frames) == 1 && len(d.Rest()) == 0 && bytes.Equal(frames[0], want) {
					b.verified.Add(1)
					p := srvParams(cfg.Seed, ci, seq)
					rep.Nontrivial(fmt.Sprintf("srv|doq|n%d|raw%v|d%d", p.n, p.raw, p.delay))
					continue
				}
				var ne net.Error
				if len(data) == 0 || (err != nil && errors.As(err, &ne) && ne.Timeout()) {
					if b.h.bad.Load() == 0 {
						rep.Inconclusive("doq stream for query %d returned %d bytes and %v", seq, len(data), err)
					}
					failed.Store(true)
					continue
				}
				what := fmt.Sprintf("stream for query %d carried %d bytes: %d frame(s), %d trailing byte(s), read error %v; expected one frame of %d bytes", seq, len(data), len(frames), len(d.Rest()), err, len(want))
				if len(frames) >= 1 {
					what += fmt.Sprintf("; first frame %d bytes, first difference at %d", len(frames[0]), firstDiff(frames[0], want))
				}
				b.corrupt("reply-frame-corrupt", what, map[string]any{"conn": ci, "data_head": hexHead(data, 48)})
				failed.Store(true)
			}
		}(w)
	}
	for seq := 0; seq < cfg.Queries; seq++ {
		seqs <- seq
	}
	close(seqs)
	wg.Wait()
}

func runServerBatch(cfg srvCfg) {
	caselog.Log(cfg)
	if cfg.Procs > 0 {
		runtime.GOMAXPROCS(cfg.Procs)
		defer runtime.GOMAXPROCS(16)
	}
	b, err := startServer(cfg)
	if err != nil {
		rep.Inconclusive("cannot start %s server: %v", cfg.Proto, err)
		return
	}
	var wg sync.WaitGroup
	for ci := 0; ci < cfg.Conns; ci++ {
		wg.Add(1)
		go func(ci int) {
			defer wg.Done()
			if cfg.Proto == "doq" {
				b.runDoQConn(ci)
			} else {
				b.runStreamConn(ci)
			}
		}(ci)
	}
	wg.Wait()
	b.stop()
	rep.Eval(int(b.verified.Load()))
	rep.Count("server_replies_verified_"+cfg.Proto, b.verified.Load())
	rep.Max("server_max_handlers_in_flight_"+cfg.Proto, b.h.maxIn.Load())
	if b.h.bad.Load() > 0 {
		rep.Count("server_queries_misread", b.h.bad.Load())
	}
	{
		sampleKind(fmt.Sprintf("server-%s-slow%v", cfg.Proto, cfg.Slow > 0), 1, map[string]any{"server_batch": cfg, "replies_verified_intact": b.verified.Load(), "handler_calls": b.h.handled.Load(), "max_handlers_in_flight": b.h.maxIn.Load()})
	}
}
