package main

import (
	"bytes"
	"context"
	"encoding/binary"
	"fmt"
	"runtime"
	"sync"
	"sync/atomic"
	"time"

	"github.com/IrineSistiana/mosdns/v5/pkg/pool"
	"github.com/IrineSistiana/mosdns/v5/pkg/upstream/transport"

	"verifharness/lib/fakenet"
	"verifharness/lib/poolsan"
	"verifharness/lib/wire"
)

// trCfg is one batch of concurrent callers on mosdns' stream transports over
// an in-memory connection.
type trCfg struct {
	Kind      string `json:"kind"` // "transport"
	Transport string `json:"transport"`
	Callers   int    `json:"callers"`
	PerCaller int    `json:"per_caller"`
	QBig      int    `json:"big_query_pct"` // percentage of queries > 1500 bytes
	Chunk     int    `json:"chunking"`      // 0 none, 1 one byte (replies <= 1500 bytes), 2 random
	Procs     int    `json:"gomaxprocs"`
	Seed      uint64 `json:"seed"`
}

type trCall struct {
	seq uint64
	id  uint16
	n   int
}

type trBatch struct {
	cfg       trCfg
	net       *fakenet.Net
	mu        sync.Mutex
	calls     map[uint64]*trCall
	advs      []*trAdv
	runt      *runtBatch   // set: the runt-frame responder answers instead
	partial   atomic.Int64 // Write calls that were not whole frames
	stalled   atomic.Bool
	cancel    context.CancelFunc
	okN, errN atomic.Int64
}

type trAdv struct {
	b     *trBatch
	c     *fakenet.Conn
	mu    sync.Mutex
	defr  wire.Deframer
	injMu sync.Mutex
	rng   xrng
}

func trQuerySize(seed, seq uint64, bigPct int) int {
	r := mix(seed ^ seq*0x51ed27)
	switch {
	case int(r%100) < bigPct:
		switch (r >> 8) % 5 {
		case 0:
			return 65535
		case 1:
			return 65534 - int((r>>16)%3)
		default:
			return 1500 + int((r>>16)%64000)
		}
	case (r>>8)%4 == 0:
		return 13 + int((r>>16)%8)
	default:
		return 13 + int((r>>16)%500)
	}
}

func trReplySize(seed, seq uint64) int {
	r := mix(seed ^ seq*0x7f4a7c15 ^ 0xfeed)
	switch r % 10 {
	case 0:
		return 13 + int((r>>8)%61428) // up to 60 KiB
	case 1, 2:
		return 13 + int((r>>8)%5000)
	case 3:
		return 13 + int((r>>8)%4)
	default:
		return 13 + int((r>>8)%300)
	}
}

// message layout: id(2) seq(8) PRNG(seed^seq, n-10)
func trMessage(id uint16, seq, seed uint64, n int) []byte {
	b := make([]byte, n)
	binary.BigEndian.PutUint16(b, id)
	binary.BigEndian.PutUint64(b[2:], seq)
	fillPattern(b[10:], seed^seq)
	return b
}

func (cfg trCfg) replySize(seq uint64) int {
	n := trReplySize(cfg.Seed, seq)
	if cfg.Chunk == 1 && n > 1500 {
		n = 13 + n%1488
	}
	return n
}

func (b *trBatch) newConn() *fakenet.Conn {
	c := b.net.NewConn(true)
	a := &trAdv{b: b, c: c, rng: xrng{s: b.cfg.Seed + uint64(c.ID)}}
	switch b.cfg.Chunk {
	case 1:
		c.MaxRead = 1
	case 2:
		cr := xrng{s: b.cfg.Seed ^ uint64(c.ID)<<8}
		c.ChunkFn = func(avail int) int { // called under the connection's lock
			switch cr.intn(4) {
			case 0:
				return 1
			case 1:
				return 1 + cr.intn(3)
			case 2:
				return 1 + cr.intn(200)
			}
			return 1 + cr.intn(9000)
		}
	}
	c.OnWrite = a.onWrite
	b.mu.Lock()
	b.advs = append(b.advs, a)
	b.mu.Unlock()
	return c
}

// onWrite is the responder. It only needs to keep the callers going; the
// verdict about the query stream is taken from the connection's write log.
func (a *trAdv) onWrite(c *fakenet.Conn, data []byte) error {
	if a.b.runt != nil {
		a.b.runt.onWrite(c, a, data)
		return nil
	}
	a.mu.Lock()
	frames := a.defr.Feed(data)
	rest := len(a.defr.Rest())
	a.mu.Unlock()
	if rest != 0 {
		// a Write that is not a whole number of frames; with one caller this is
		// legal on a stream, with many the write log decides. Stop the batch
		// early instead of waiting for callers that can no longer be answered.
		if a.b.partial.Add(1) == 1 && a.b.cfg.Callers > 1 {
			a.b.cancel()
		}
	}
	for _, f := range frames {
		if len(f) < 13 {
			continue
		}
		seq := binary.BigEndian.Uint64(f[2:])
		a.b.mu.Lock()
		cl := a.b.calls[seq]
		a.b.mu.Unlock()
		if cl == nil {
			continue
		}
		reply := trMessage(binary.BigEndian.Uint16(f), seq, a.b.cfg.Seed^0xa5a5, a.b.cfg.replySize(seq))
		framed := wire.Frame(reply)
		a.injMu.Lock()
		pieces := 1 + a.rng.intn(3)
		for len(framed) > 0 {
			k := len(framed)
			if pieces > 1 {
				k = 1 + a.rng.intn(len(framed))
				pieces--
			}
			c.Inject(framed[:k])
			framed = framed[k:]
		}
		a.injMu.Unlock()
	}
	return nil
}

type trExchanger interface {
	exchange(ctx context.Context, q []byte) (*[]byte, error)
	close()
}

type tdcX struct{ dc *transport.TraditionalDnsConn }

func (x tdcX) exchange(ctx context.Context, q []byte) (*[]byte, error) {
	for {
		rx, closed := x.dc.ReserveNewQuery()
		if closed {
			return nil, transport.ErrTDCClosed
		}
		if rx == nil {
			select {
			case <-ctx.Done():
				return nil, ctx.Err()
			default:
			}
			runtime.Gosched()
			continue
		}
		return rx.ExchangeReserved(ctx, q)
	}
}
func (x tdcX) close() { x.dc.Close() }

type ctxX struct {
	t interface {
		ExchangeContext(ctx context.Context, m []byte) (*[]byte, error)
		Close() error
	}
}

func (x ctxX) exchange(ctx context.Context, q []byte) (*[]byte, error) {
	return x.t.ExchangeContext(ctx, q)
}
func (x ctxX) close() { x.t.Close() }

func (b *trBatch) makeTransport() trExchanger {
	switch b.cfg.Transport {
	case "tdc":
		return tdcX{transport.NewDnsConn(transport.TraditionalDnsConnOpts{WithLengthHeader: true, IdleTimeout: 20 * time.Second, MaxConcurrentQuery: 2*b.cfg.Callers + 2}, b.newConn())}
	case "pipeline":
		return ctxX{transport.NewPipelineTransport(transport.PipelineOpts{
			DialContext: func(ctx context.Context) (transport.DnsConn, error) {
				return transport.NewDnsConn(transport.TraditionalDnsConnOpts{WithLengthHeader: true, IdleTimeout: 20 * time.Second, MaxConcurrentQuery: 64}, b.newConn()), nil
			},
			MaxConcurrentQueryWhileDialing: 64,
		})}
	case "reuse":
		return ctxX{transport.NewReuseConnTransport(transport.ReuseConnOpts{
			DialContext: func(ctx context.Context) (transport.NetConn, error) { return b.newConn(), nil },
			IdleTimeout: 20 * time.Second,
		})}
	}
	panic("bad transport " + b.cfg.Transport)
}

func runTransportBatch(cfg trCfg) {
	caselog.Log(cfg)
	if cfg.Procs > 0 {
		runtime.GOMAXPROCS(cfg.Procs)
		defer runtime.GOMAXPROCS(16)
	}
	ctx, cancel := context.WithTimeout(context.Background(), 120*time.Second)
	defer cancel()
	b := &trBatch{cfg: cfg, net: fakenet.NewNet(), calls: map[uint64]*trCall{}, cancel: cancel}
	tr := b.makeTransport()
	tname := cfg.Transport
	var wg sync.WaitGroup
	start := make(chan struct{})
	for w := 0; w < cfg.Callers; w++ {
		wg.Add(1)
		go func(w int) {
			defer wg.Done()
			<-start
			for i := 0; i < cfg.PerCaller; i++ {
				seq := uint64(w)<<24 | uint64(i) | 1<<56
				cl := &trCall{seq: seq, id: uint16(mix(cfg.Seed ^ seq)), n: trQuerySize(cfg.Seed, seq, cfg.QBig)}
				q := trMessage(cl.id, seq, cfg.Seed, cl.n)
				b.mu.Lock()
				b.calls[seq] = cl
				b.mu.Unlock()
				cctx, ccancel := context.WithTimeout(ctx, 8*time.Second)
				r, err := tr.exchange(cctx, q)
				callTimedOut := cctx.Err() != nil
				ccancel()
				rep.Eval(1)
				if err != nil {
					b.errN.Add(1)
					rep.SetAdd("transport_errors", tname+": "+trimErr(err))
					if !callTimedOut && b.anyConnClosed() {
						// the peer answers every intact query with an intact frame and never
						// closes or fails: a transport that gives up its connection here
						// rejected a valid frame
						rep.Violation(tname+"-intact-reply-rejected", fmt.Sprintf("the peer sent only intact frames, yet the exchange failed (%s) and the transport closed its connection", trimErr(err)), map[string]any{"cfg": cfg, "seq": seq, "reply_len": cfg.replySize(seq)})
					}
					if callTimedOut {
						// the peer could not answer (it answers every intact query frame at
						// once): stop the batch, the write log decides
						b.stalled.Store(true)
						cancel()
						return
					}
					continue
				}
				b.okN.Add(1)
				wit := map[string]any{"cfg": cfg, "seq": seq}
				if !poolsan.Check(r, "reply returned by "+tname) {
					continue
				}
				want := trMessage(cl.id, seq, cfg.Seed^0xa5a5, cfg.replySize(seq))
				if len(*r) != len(want) {
					rep.Violation(tname+"-reply-buffer-wrong-size", fmt.Sprintf("peer framed a %d byte reply, caller got a %d byte buffer", len(want), len(*r)), wit)
				} else if !bytes.Equal(*r, want) {
					rep.Violation(tname+"-reply-content-differs", fmt.Sprintf("%d byte reply differs from what the peer framed at offset %d", len(want), firstDiff(*r, want)), wit)
				} else {
					rep.Count("transport_replies_verified", 1)
				}
				pool.ReleaseBuf(r)
			}
		}(w)
	}
	close(start)
	wg.Wait()
	tr.close()
	b.mu.Lock()
	advs := append([]*trAdv(nil), b.advs...)
	b.mu.Unlock()

	// verdict on the query direction: the concatenation of the Write calls of
	// every connection, in the order the connection serialised them.
	frames, writes := 0, 0
	clean := true
	for _, a := range advs {
		ws := a.c.Writes()
		writes += len(ws)
		n, ok := b.verifyWriteLog(a, ws)
		frames += n
		clean = clean && ok
	}
	if b.stalled.Load() && clean {
		rep.Inconclusive("transport batch %+v: a call got no reply within 8 s although every write log deframes cleanly", cfg)
	}
	rep.Count("transport_query_frames_verified", int64(frames))
	rep.Count("transport_write_calls", int64(writes))
	rep.Count("transport_calls_ok", b.okN.Load())
	rep.Count("transport_calls_err", b.errN.Load())
	rep.Count("transport_connections", int64(len(advs)))
	if b.partial.Load() > 0 {
		rep.Count("transport_write_calls_not_whole_frames", b.partial.Load())
	}
	if frames > 0 && b.okN.Load() > 0 {
		rep.Nontrivial(fmt.Sprintf("tr|%s|c%d|p%d|q%d|k%d|g%d|%x", tname, cfg.Callers, cfg.PerCaller, cfg.QBig, cfg.Chunk, cfg.Procs, cfg.Seed))
	}
	if cfg.Callers >= 64 {
		sampleKind("transport", 1, map[string]any{"transport_batch": cfg, "query_frames_verified": frames, "write_calls": writes, "replies_ok": b.okN.Load(), "errors": b.errN.Load(), "connections": len(advs)})
	}
}

// verifyWriteLog deframes one connection's serialised write stream.
func (b *trBatch) verifyWriteLog(a *trAdv, ws []fakenet.WriteRec) (int, bool) {
	cfg := b.cfg
	tname := cfg.Transport
	var stream []byte
	for _, w := range ws {
		stream = append(stream, w.Data...)
	}
	frames := 0
	seen := map[uint64]bool{} // per connection: a retry on another connection is legitimate
	var d wire.Deframer
	for i, f := range d.Feed(stream) {
		bad := ""
		var cl *trCall
		if len(f) < 13 {
			bad = fmt.Sprintf("frame of %d bytes", len(f))
		} else {
			cl = b.calls[binary.BigEndian.Uint64(f[2:])]
			switch {
			case cl == nil:
				bad = "frame carries the tag of no query issued"
			case cl.n != len(f):
				bad = fmt.Sprintf("query was %d bytes, frame is %d", cl.n, len(f))
			case seen[cl.seq]:
				bad = "query framed twice on one stream connection"
			default:
				want := trMessage(0, cl.seq, cfg.Seed, cl.n)
				if !bytes.Equal(f[2:], want[2:]) {
					bad = fmt.Sprintf("frame differs from the query at offset %d", firstDiff(f[2:], want[2:])+2)
				}
			}
		}
		if bad != "" {
			rep.Violation(tname+"-query-stream-misframed", fmt.Sprintf("%d concurrent callers: frame %d in the serialised write stream of connection %d is not an intact query (%s); %d Write calls", cfg.Callers, i, a.c.ID, bad, len(ws)), map[string]any{"cfg": cfg, "frame_head": hexHead(f, 40), "first_writes": writeSizes(ws, 12)})
			return frames, false
		}
		seen[cl.seq] = true
		frames++
	}
	if len(d.Rest()) != 0 {
		rep.Violation(tname+"-query-stream-misframed", fmt.Sprintf("write stream of connection %d ends inside a frame (%d stray bytes) after all callers returned", a.c.ID, len(d.Rest())), map[string]any{"cfg": cfg, "first_writes": writeSizes(ws, 12)})
		return frames, false
	}
	return frames, true
}

func writeSizes(ws []fakenet.WriteRec, n int) []int {
	var out []int
	for i, w := range ws {
		if i >= n {
			break
		}
		out = append(out, len(w.Data))
	}
	return out
}

func (b *trBatch) anyConnClosed() bool {
	b.mu.Lock()
	defer b.mu.Unlock()
	for _, a := range b.advs {
		if a.c.IsClosed() {
			return true
		}
	}
	return false
}

func (b *trBatch) bytesWritten() int {
	b.mu.Lock()
	advs := append([]*trAdv(nil), b.advs...)
	b.mu.Unlock()
	n := 0
	for _, a := range advs {
		for _, w := range a.c.Writes() {
			n += len(w.Data)
		}
	}
	return n
}

// ---- over-long queries must be refused with nothing written ----

func runTransportRefusals() {
	for _, tname := range []string{"tdc", "pipeline", "reuse"} {
		for _, n := range []int{65536, 65537, 65536 + 13, 65536 + 300, 131072 + 40, 1 << 18} {
			c := refuseCase{Kind: "refuse", Fn: "transport-" + tname, N: n}
			caselog.Log(c)
			transportRefuseOne(c, tname)
		}
	}
}

func transportRefuseOne(c refuseCase, tname string) {
	cfg := trCfg{Kind: "transport", Transport: tname, Callers: 1, Seed: uint64(c.N)}
	ctx, cancel := context.WithTimeout(context.Background(), 6*time.Second)
	defer cancel()
	b := &trBatch{cfg: cfg, net: fakenet.NewNet(), calls: map[uint64]*trCall{}, cancel: cancel}
	tr := b.makeTransport()
	defer tr.close()
	// a valid exchange first, so that a connection exists and works
	seq := uint64(1)<<56 | 7
	b.calls[seq] = &trCall{seq: seq, n: 40}
	if r, err := tr.exchange(ctx, trMessage(0x1111, seq, cfg.Seed, 40)); err == nil {
		pool.ReleaseBuf(r)
	}
	before := b.bytesWritten()
	big := trMessage(0x2222, uint64(1)<<56|9, cfg.Seed, c.N)
	var r *[]byte
	var err error
	if guarded("transport-"+tname, c, func() { r, err = tr.exchange(ctx, big) }) {
		return
	}
	rep.Eval(1)
	wrote := b.bytesWritten() - before
	if r != nil {
		pool.ReleaseBuf(r)
	}
	if err != nil && wrote == 0 {
		rep.Count("oversize_refused", 1)
		rep.Nontrivial(fmt.Sprintf("refuse|%s|%d", c.Fn, c.N))
		return
	}
	rep.Violation("transport-"+tname+"-oversize-not-refused", fmt.Sprintf("%s exchange with a %d byte query (> 65535): err=%v, %d bytes reached the connection", tname, c.N, err, wrote), c)
}
