package main

// Read-side faults in the MIDDLE of a frame.
//
// A stream connection of mosdns' upstream transports (TraditionalDnsConn,
// PipelineTransport, ReuseConnTransport) reads replies that arrive in pieces.
// Here a read error strikes after the peer has delivered `cut` bytes of a
// frame -- inside the length prefix, right after it, anywhere in the body, or
// (cut 0) exactly between two frames -- while other queries of the connection
// stand at a chosen point of their exchange (in the queue but not written yet,
// written but the read deadline not re-armed yet, written and waiting, or
// none). The error is transient: afterwards the peer sends the rest of the
// frame, further (late/surplus) replies and the replies to everything it is
// asked. Error kinds: the read deadline mosdns itself armed expires (real
// timer), an injected timeout error, a temporary error, a plain I/O error, each
// also delivered together with the last bytes read (n > 0, err != nil).
//
// Oracle (C16: "... a short read ... yields an error, never ... a buffer of
// another size"): whatever the connection does after the error -- close, or go
// on -- every buffer an exchange hands out must be, apart from the message ID,
// byte-identical to one whole frame the peer sent. Replies are realistic DNS
// messages (many small 16-bit fields), so a reader that resumes inside a frame
// finds plausible "length prefixes" there.

import (
	"context"
	"encoding/binary"
	"errors"
	"fmt"
	"os"
	"sync"
	"sync/atomic"
	"time"

	"github.com/IrineSistiana/mosdns/v5/pkg/pool"
	"github.com/IrineSistiana/mosdns/v5/pkg/upstream/transport"

	"verifharness/lib/fakenet"
	"verifharness/lib/poolsan"
	"verifharness/lib/sched"
	"verifharness/lib/wire"
)

type mfCfg struct {
	Kind      string `json:"kind"` // "midframe"
	Transport string `json:"transport"`
	// where the other queries of the connection stand when the error strikes:
	// queued (in the queue, not written) | unarmed (written, read deadline not
	// re-armed) | written (written and waiting) | none
	Gate     string `json:"other_queries_stand"`
	Queued   int    `json:"other_queries"`
	Err      string `json:"read_error"` // deadline | timeout | temporary | io
	WithData bool   `json:"error_returned_with_last_bytes"`
	Split    string `json:"split_frame"` // surplus (a second reply to an answered query) | reply (to a waiting query)
	Cut      int    `json:"bytes_of_frame_delivered_before_error"`
	Shape    int    `json:"reply_shape"`
	Seed     uint64 `json:"seed"`
}

type tempErr struct{}

func (tempErr) Error() string   { return "c16: resource temporarily unavailable" }
func (tempErr) Timeout() bool   { return false }
func (tempErr) Temporary() bool { return true }

var errTemporary error = tempErr{}

func mfErrOf(kind string) error {
	switch kind {
	case "timeout":
		return fakenet.ErrTimeout
	case "temporary":
		return errTemporary
	}
	return fakenet.ErrInjected
}

// mfReply builds a realistic reply. Question name carries seq and variant, so
// that every frame the peer sends is unique.
func mfReply(wid uint16, seq uint64, variant, shape int, seed uint64) []byte {
	r := xrng{s: seed ^ seq*0x9e3779b1 ^ uint64(variant)<<40 ^ uint64(shape)<<48}
	qname := wire.EncodeName(fmt.Sprintf("s%x.v%d.mf.c16.", seq, variant))
	ptr := []byte{0xc0, 0x0c}
	ttl := func() uint32 { return []uint32{17, 60, 300, 3600, 7200, 86400}[r.intn(6)] + uint32(r.intn(5)) }
	v4 := func() []byte {
		return []byte{byte(1 + r.intn(223)), byte(r.intn(256)), byte(r.intn(4)), byte(r.intn(256))}
	}
	v6 := func() []byte {
		b := make([]byte, 16)
		copy(b, []byte{0x20, 0x01, 0x0d, 0xb8, 0, byte(r.intn(20))})
		b[15] = byte(1 + r.intn(200))
		if r.intn(2) == 0 {
			b[13] = byte(r.intn(4))
		}
		return b
	}
	flags := uint16(0x8180)
	qtype := uint16(1)
	switch shape % 6 {
	case 1, 2:
		qtype = 28
	case 3:
		qtype = 16
	case 4:
		flags = 0x8183
	}
	b := wire.NewBuilder(wid, flags).Question(qname, qtype, 1)
	switch shape % 6 {
	case 0:
		for i := 1 + r.intn(4); i > 0; i-- {
			b.RR(0, ptr, 1, 1, ttl(), v4())
		}
	case 1:
		for i := 1 + r.intn(4); i > 0; i-- {
			b.RR(0, ptr, 28, 1, ttl(), v6())
		}
	case 2:
		target := wire.EncodeName(fmt.Sprintf("edge%d.cdn.example.net.", r.intn(100)))
		b.RR(0, ptr, 5, 1, ttl(), target)
		for i := 1 + r.intn(3); i > 0; i-- {
			b.RR(0, target, 28, 1, ttl(), v6())
		}
	case 3:
		b.RR(0, ptr, 16, 1, ttl(), wire.TXTRdata("v=spf1 include:_spf.example.com ~all"))
		b.RR(0, ptr, 16, 1, ttl(), wire.TXTRdata(fmt.Sprintf("site-verification=%x", r.next())))
	case 4:
		soa := append(wire.EncodeName("ns1.c16."), wire.EncodeName("hostmaster.c16.")...)
		soa = binary.BigEndian.AppendUint32(soa, 2024010100+uint32(r.intn(99)))
		for _, v := range []uint32{7200, 3600, 1209600, 300} {
			soa = binary.BigEndian.AppendUint32(soa, v)
		}
		b.RR(1, wire.EncodeName("c16."), 6, 1, ttl(), soa)
	case 5:
		b.RR(0, ptr, 1, 1, ttl(), v4())
		b.RR(0, ptr, 28, 1, ttl(), v6())
		b.RR(1, wire.EncodeName("c16."), 2, 1, ttl(), wire.EncodeName("ns1.c16."))
		b.RR(2, wire.EncodeName("ns1.c16."), 28, 1, ttl(), v6())
		b.OPT(1232, 0, 0, r.intn(2) == 0, 0, nil)
	}
	return b.Bytes()
}

// mfFrameLen: the length of the frame that is split in scenario (shape, seed).
func mfFrameLen(cfg mfCfg) int {
	seq, variant := mfSeq(0), 1
	if cfg.Split == "reply" {
		seq, variant = mfSeq(1), 0
	}
	return 2 + len(mfReply(0, seq, variant, cfg.Shape, cfg.Seed))
}

func mfSeq(i int) uint64 { return uint64(i) | 1<<56 | 2<<40 }

// ---- connection wrapper: makes injected errors one-shot, reports events ----

type faultConn struct {
	*fakenet.Conn
	mu        sync.Mutex
	oneShot   error
	fired     chan struct{} // a Read returned the one-shot error
	firedOnce sync.Once
	tmo       chan struct{} // a Read ended because the deadline mosdns armed has passed
	tmoOnce   sync.Once
	closedCh  chan struct{}

	// framing monitor: where the frames the peer sent end in this connection's
	// byte stream, and how far the reader has consumed it
	sc       *mfScenario
	consumed atomic.Int64
	bmu      sync.Mutex
	injTotal int64
	bounds   map[int64]bool
	struckAt atomic.Int64 // stream offset at which the read error struck (-1: not yet)
}

// inject makes b readable; endsFrame: its last byte is the last byte of a frame.
func (f *faultConn) inject(b []byte, endsFrame bool, withErr error) int64 {
	f.bmu.Lock()
	defer f.bmu.Unlock()
	f.injTotal += int64(len(b))
	if endsFrame {
		f.bounds[f.injTotal] = true
	}
	if withErr != nil {
		return f.Conn.InjectWithErr(b, withErr)
	}
	return f.Conn.Inject(b)
}

// injectFrames makes whole frames readable.
func (f *faultConn) injectFrames(frames ...[]byte) {
	f.bmu.Lock()
	defer f.bmu.Unlock()
	var all []byte
	for _, fr := range frames {
		f.injTotal += int64(len(fr))
		f.bounds[f.injTotal] = true
		all = append(all, fr...)
	}
	f.Conn.Inject(all)
}

// frameRead runs at mosdns' schedule point "a whole frame has been read from
// the connection": the reader must stand at the end of a frame the peer sent.
func (f *faultConn) frameRead() {
	pos := f.consumed.Load()
	f.bmu.Lock()
	ok := f.bounds[pos]
	f.bmu.Unlock()
	if ok {
		rep.Count("midframe_frames_read_at_peer_frame_boundaries", 1)
		return
	}
	sc := f.sc
	cfg := sc.cfg
	sc.mu.Lock()
	flen := sc.flen
	sc.mu.Unlock()
	rep.Violation(cfg.Transport+"-reader-lost-framing-after-read-error", fmt.Sprintf("%s connection: a %s read error struck after the peer had delivered %d of the %d bytes of a frame (%s) while %d other queries stood at '%s'; afterwards the connection's reader accepted a \"frame\" that ends at stream offset %d, which is not the end of any frame the peer sent (the error struck at stream offset %d): it went on reading in the middle of the frame, taking message bytes for a length prefix", cfg.Transport, cfg.Err, cfg.Cut, flen, mfCutClass(cfg.Cut, flen), cfg.Queued, cfg.Gate, pos, f.struckAt.Load()), map[string]any{"cfg": cfg, "cut_class": mfCutClass(cfg.Cut, flen), "reader_offset": pos, "error_offset": f.struckAt.Load()})
	mfStop.Store(true)
}

func (f *faultConn) Read(p []byte) (int, error) {
	n, err := f.Conn.Read(p)
	f.consumed.Add(int64(n))
	if err != nil {
		f.mu.Lock()
		one := f.oneShot
		f.mu.Unlock()
		switch {
		case one != nil && err == one:
			f.Conn.InjectErr(nil) // transient: the next Read works again
			f.firedOnce.Do(func() { f.struckAt.Store(f.consumed.Load()); close(f.fired) })
		case errors.Is(err, os.ErrDeadlineExceeded):
			f.tmoOnce.Do(func() { f.struckAt.Store(f.consumed.Load()); close(f.tmo) })
		}
	}
	return n, err
}

func (f *faultConn) arm(e error) {
	f.mu.Lock()
	f.oneShot = e
	f.mu.Unlock()
}

// ---- gates at mosdns' schedule points ----

type mfGate struct {
	point   string
	active  atomic.Bool
	ch      chan struct{}
	arrived chan struct{}
}

var (
	mfGates    sync.Map // *faultConn -> *mfGate
	mfHookOnce sync.Once
	mfStop     atomic.Bool
)

func mfInstallHooks() {
	mfHookOnce.Do(func() {
		h := func(name string, arg any) {
			v, ok := mfGates.Load(arg)
			if !ok {
				return
			}
			g := v.(*mfGate)
			if g.point != name || !g.active.Load() {
				return
			}
			select {
			case g.arrived <- struct{}{}:
			default:
			}
			t := time.NewTimer(20 * time.Second) // never blocks forever
			select {
			case <-g.ch:
			case <-t.C:
			}
			t.Stop()
		}
		sched.On("tdc.exchange.queued", h)
		sched.On("tdc.exchange.written", h)
		fr := func(name string, arg any) {
			if fc, ok := arg.(*faultConn); ok {
				fc.frameRead()
			}
		}
		sched.On("tdc.readloop.read", fr)
		sched.On("reuse.readloop.read", fr)
	})
}

// ---- the peer ----

type mfHeld struct {
	c   *fakenet.Conn
	wid uint16
	seq uint64
}

type mfScenario struct {
	cfg     mfCfg
	net     *fakenet.Net
	mu      sync.Mutex
	conns   []*faultConn
	byConn  map[*fakenet.Conn]*faultConn
	defr    map[*fakenet.Conn]*wire.Deframer
	sent    map[string]bool // body[2:] of every frame the peer framed
	c1      *faultConn
	q0wid   uint16
	hold    bool
	held    []mfHeld
	seen    chan struct{} // one token per query frame seen on c1 while holding
	variant map[uint64]int
	flen    int // length of the split frame
}

func (sc *mfScenario) dial() *faultConn {
	c := sc.net.NewConn(true)
	c.ErrWithData = sc.cfg.WithData
	fc := &faultConn{Conn: c, fired: make(chan struct{}), tmo: make(chan struct{}), closedCh: make(chan struct{}), sc: sc, bounds: map[int64]bool{}}
	fc.struckAt.Store(-1)
	c.OnClose = func(*fakenet.Conn) { close(fc.closedCh) }
	c.OnWrite = sc.onWrite
	cr := xrng{s: sc.cfg.Seed ^ uint64(c.ID)<<8}
	if sc.cfg.Seed&1 == 0 {
		c.ChunkFn = func(avail int) int { return 1 + cr.intn(40) } // called under the connection's lock
	}
	sc.mu.Lock()
	sc.conns = append(sc.conns, fc)
	sc.byConn[c] = fc
	sc.defr[c] = &wire.Deframer{}
	if sc.c1 == nil {
		sc.c1 = fc
		g := &mfGate{ch: make(chan struct{}), arrived: make(chan struct{}, 256)}
		switch sc.cfg.Gate {
		case "queued":
			g.point = "tdc.exchange.queued"
		case "unarmed":
			g.point = "tdc.exchange.written"
		}
		mfGates.Store(fc, g)
	}
	sc.mu.Unlock()
	return fc
}

func (sc *mfScenario) fcOf(c *fakenet.Conn) *faultConn {
	sc.mu.Lock()
	defer sc.mu.Unlock()
	return sc.byConn[c]
}

func (sc *mfScenario) gate() *mfGate {
	v, _ := mfGates.Load(sc.c1)
	return v.(*mfGate)
}

// frame builds (and records as sent) one reply frame.
func (sc *mfScenario) frame(wid uint16, seq uint64) []byte {
	sc.mu.Lock()
	v := sc.variant[seq]
	sc.variant[seq] = v + 1
	sc.mu.Unlock()
	shape := sc.cfg.Shape
	if v >= 2 {
		shape += v
	}
	m := mfReply(wid, seq, v, shape, sc.cfg.Seed)
	sc.mu.Lock()
	sc.sent[string(m[2:])] = true
	sc.mu.Unlock()
	return wire.Frame(m)
}

func (sc *mfScenario) onWrite(c *fakenet.Conn, data []byte) error {
	sc.mu.Lock()
	frames := sc.defr[c].Feed(data)
	sc.mu.Unlock()
	for _, f := range frames {
		if len(f) < 13 {
			continue
		}
		wid := binary.BigEndian.Uint16(f)
		seq := binary.BigEndian.Uint64(f[2:])
		if seq>>40 != 1<<16|2 {
			continue
		}
		sc.mu.Lock()
		first := sc.c1 != nil && sc.c1.Conn == c
		if seq == mfSeq(0) && first {
			sc.q0wid = wid
		}
		if sc.hold && first {
			sc.held = append(sc.held, mfHeld{c, wid, seq})
			sc.mu.Unlock()
			select {
			case sc.seen <- struct{}{}:
			default:
			}
			continue
		}
		fc := sc.byConn[c]
		sc.mu.Unlock()
		fc.injectFrames(sc.frame(wid, seq))
	}
	return nil
}

func (sc *mfScenario) makeTransport(idle time.Duration) trExchanger {
	switch sc.cfg.Transport {
	case "tdc":
		return tdcX{transport.NewDnsConn(transport.TraditionalDnsConnOpts{WithLengthHeader: true, IdleTimeout: idle, MaxConcurrentQuery: 128}, sc.dial())}
	case "pipeline":
		return ctxX{transport.NewPipelineTransport(transport.PipelineOpts{
			DialContext: func(ctx context.Context) (transport.DnsConn, error) {
				return transport.NewDnsConn(transport.TraditionalDnsConnOpts{WithLengthHeader: true, IdleTimeout: idle, MaxConcurrentQuery: 128}, sc.dial()), nil
			},
			MaxConcurrentQueryWhileDialing: 128,
		})}
	case "reuse":
		return ctxX{transport.NewReuseConnTransport(transport.ReuseConnOpts{
			DialContext: func(ctx context.Context) (transport.NetConn, error) { return sc.dial(), nil },
			IdleTimeout: idle,
		})}
	}
	panic("bad transport " + sc.cfg.Transport)
}

func mfCutClass(cut, flen int) string {
	switch {
	case cut == 0:
		return "between-frames"
	case cut == 1:
		return "inside-length-prefix"
	case cut == 2:
		return "after-length-prefix"
	case cut < 2+12:
		return "inside-dns-header"
	case cut >= flen-2:
		return "last-bytes"
	}
	return "inside-body"
}

type mfResult struct {
	ok, failed, bogus int
}

// check applies the oracle to one exchange result.
func (sc *mfScenario) check(tname string, i int, r *[]byte, err error, res *mfResult, mu *sync.Mutex) {
	rep.Eval(1)
	if err != nil {
		mu.Lock()
		res.failed++
		mu.Unlock()
		return
	}
	if !poolsan.Check(r, "reply returned by "+tname) {
		return
	}
	defer pool.ReleaseBuf(r)
	sc.mu.Lock()
	known := len(*r) >= 12 && sc.sent[string((*r)[2:])]
	sc.mu.Unlock()
	mu.Lock()
	defer mu.Unlock()
	if known {
		res.ok++
		return
	}
	res.bogus++
	cfg := sc.cfg
	flen := sc.flen
	what := fmt.Sprintf("%s connection: a %s read error struck after the peer had delivered %d of the %d bytes of a frame (%s) while %d other queries stood at '%s'; afterwards an exchange (query %d) returned a buffer of %d bytes that is not a frame the peer sent (the peer's frames are whole DNS replies of 40..200 bytes): the connection went on reading in the middle of the frame", tname, cfg.Err, cfg.Cut, flen, mfCutClass(cfg.Cut, flen), cfg.Queued, cfg.Gate, i, len(*r))
	rep.Violation(tname+"-buffer-not-a-frame-the-peer-sent-after-read-error", what, map[string]any{"cfg": cfg, "query_index": i, "returned_len": len(*r), "returned_head": hexHead(*r, 48), "cut_class": mfCutClass(cfg.Cut, flen)})
	mfStop.Store(true)
}

func runMidframe(cfg mfCfg) {
	if mfStop.Load() {
		return
	}
	caselog.Log(cfg)
	mfInstallHooks()
	sc := &mfScenario{cfg: cfg, net: fakenet.NewNet(), defr: map[*fakenet.Conn]*wire.Deframer{}, byConn: map[*fakenet.Conn]*faultConn{}, sent: map[string]bool{}, seen: make(chan struct{}, 1024), variant: map[uint64]int{}}
	idle := 60 * time.Second
	if cfg.Err == "deadline" {
		idle = 300 * time.Millisecond
	}
	tname := cfg.Transport
	tr := sc.makeTransport(idle)
	defer func() {
		tr.close()
		sc.mu.Lock()
		c1 := sc.c1
		sc.mu.Unlock()
		if c1 != nil {
			mfGates.Delete(c1)
		}
	}()
	ctx, cancel := context.WithTimeout(context.Background(), 60*time.Second)
	defer cancel()
	var res mfResult
	var rmu sync.Mutex

	query := func(i int) ([]byte, uint16) {
		id := uint16(mix(cfg.Seed ^ uint64(i)*77))
		return trMessage(id, mfSeq(i), cfg.Seed, 13+int(mix(cfg.Seed^uint64(i))%60)), id
	}
	exchange := func(i int, timeout time.Duration) {
		q, _ := query(i)
		cctx, ccancel := context.WithTimeout(ctx, timeout)
		defer ccancel()
		var r *[]byte
		var err error
		if guarded("transport-"+tname, cfg, func() { r, err = tr.exchange(cctx, q) }) {
			return
		}
		sc.check(tname, i, r, err, &res, &rmu)
	}

	// 1. warm-up: one answered query; the reader is back in Read (idle)
	if cfg.Err == "deadline" {
		// The reply must not overtake the exchange's own re-arming of the read
		// deadline (it would leave the 10 s waiting deadline in force on an idle
		// connection): the peer answers once the waiting deadline is armed.
		sc.mu.Lock()
		sc.hold = true
		sc.mu.Unlock()
		done := make(chan struct{})
		go func() { exchange(0, 20*time.Second); close(done) }()
		wd := time.NewTimer(10 * time.Second)
		select {
		case <-sc.seen:
		case <-wd.C:
		}
		wd.Stop()
		sc.mu.Lock()
		c := sc.c1
		sc.mu.Unlock()
		for t0 := time.Now(); c != nil && time.Since(t0) < 10*time.Second; time.Sleep(200 * time.Microsecond) {
			armed := false
			for _, d := range c.Deadlines() {
				if d.Kind != "w" && d.In > 5*time.Second {
					armed = true
				}
			}
			if armed {
				break
			}
		}
		sc.mu.Lock()
		sc.hold = false
		held := sc.held
		sc.held = nil
		sc.mu.Unlock()
		for _, h := range held {
			sc.fcOf(h.c).injectFrames(sc.frame(h.wid, h.seq))
		}
		<-done
	} else {
		exchange(0, 10*time.Second)
	}
	sc.mu.Lock()
	c1 := sc.c1
	sc.mu.Unlock()
	if c1 == nil || res.ok != 1 {
		rep.Count("midframe_warmup_failed", 1)
		return
	}
	if !c1.WaitReaderParked(10 * time.Second) {
		rep.Count("midframe_watchdog", 1)
		return
	}
	if in, ok := c1.ReadDeadlineIn(); cfg.Err == "deadline" && (!ok || in > 2*time.Second) {
		rep.Count("midframe_deadline_scenarios_skipped_idle_deadline_not_in_force", 1)
		return
	}
	gate := sc.gate()

	// the other queries
	var wg sync.WaitGroup
	launch := func() bool {
		if cfg.Queued == 0 {
			return true
		}
		sc.mu.Lock()
		sc.hold = true
		sc.mu.Unlock()
		gate.active.Store(gate.point != "")
		for i := 1; i <= cfg.Queued; i++ {
			wg.Add(1)
			go func(i int) {
				defer wg.Done()
				exchange(i, 4*time.Second)
			}(i)
		}
		// wait until every one stands at its point
		t := time.NewTimer(10 * time.Second)
		defer t.Stop()
		for n := 0; n < cfg.Queued; n++ {
			var ch chan struct{}
			if cfg.Gate == "queued" {
				ch = gate.arrived
			} else {
				ch = sc.seen // written (and, for "unarmed", parked right after the write)
			}
			select {
			case <-ch:
			case <-c1.closedCh:
				return true
			case <-t.C:
				return false
			}
		}
		if cfg.Gate == "unarmed" {
			for n := 0; n < cfg.Queued; n++ {
				select {
				case <-gate.arrived:
				case <-c1.closedCh:
					return true
				case <-t.C:
					return false
				}
			}
		}
		return true
	}

	// the frame that gets split
	var F []byte
	buildF := func() {
		if cfg.Split == "reply" {
			sc.mu.Lock()
			var h *mfHeld
			if len(sc.held) > 0 {
				h = &sc.held[0]
			}
			sc.mu.Unlock()
			if h != nil {
				F = sc.frame(h.wid, h.seq)
				sc.mu.Lock()
				sc.held = sc.held[1:]
				sc.mu.Unlock()
				return
			}
		}
		sc.mu.Lock()
		wid := sc.q0wid
		sc.mu.Unlock()
		F = sc.frame(wid, mfSeq(0)) // a second reply to the answered query
	}
	cut, pre := 0, 0
	partial := func() bool {
		buildF()
		sc.mu.Lock()
		sc.flen = len(F)
		sc.mu.Unlock()
		cut = cfg.Cut
		if cut > len(F)-1 {
			cut = len(F) - 1
		}
		pre = cut
		if cfg.WithData && cut > 0 && cfg.Err != "deadline" {
			pre = cut - 1 - int(mix(cfg.Seed^0xd)%3)
			if pre < 0 {
				pre = 0
			}
		}
		if pre > 0 {
			id := c1.inject(F[:pre], false, nil)
			if !c1.WaitConsumed(id, 10*time.Second) && !c1.IsClosed() {
				return false
			}
			if !c1.WaitReaderParked(10*time.Second) && !c1.IsClosed() {
				return false
			}
		}
		return true
	}

	okStanding := true
	if cfg.Gate == "written" || cfg.Gate == "unarmed" {
		okStanding = launch() && partial()
	} else {
		okStanding = partial() && launch()
	}
	release := func() {
		sc.mu.Lock()
		sc.hold = false
		held := sc.held
		sc.held = nil
		sc.mu.Unlock()
		close(gate.ch)
		for _, h := range held {
			sc.fcOf(h.c).injectFrames(sc.frame(h.wid, h.seq))
		}
	}
	if !okStanding {
		release()
		wg.Wait()
		rep.Count("midframe_watchdog", 1)
		rep.Inconclusive("midframe scenario %+v: the queries / the reader did not reach their positions within 10 s", cfg)
		return
	}

	// 2. the error strikes
	struck := false
	wd := time.NewTimer(20 * time.Second)
	if cfg.Err == "deadline" {
		select {
		case <-c1.tmo:
			struck = true
		case <-c1.closedCh:
		case <-wd.C:
		}
	} else {
		e := mfErrOf(cfg.Err)
		c1.arm(e)
		if pre < cut {
			c1.inject(F[pre:cut], false, e)
		} else {
			c1.InjectErr(e)
		}
		select {
		case <-c1.fired:
			struck = true
		case <-c1.closedCh:
		case <-wd.C:
		}
	}
	wd.Stop()
	if !struck && !c1.IsClosed() {
		release()
		wg.Wait()
		rep.Count("midframe_watchdog", 1)
		rep.Inconclusive("midframe scenario %+v: the reader did not see the read error within 20 s", cfg)
		return
	}

	// 3. the peer carries on: rest of the frame, two more surplus replies, then
	// everything it is asked
	sc.mu.Lock()
	q0wid := sc.q0wid
	sc.mu.Unlock()
	c1.inject(F[cut:], true, nil)
	c1.injectFrames(sc.frame(q0wid, mfSeq(0)), sc.frame(q0wid, mfSeq(0)))
	release()
	wg.Wait()
	closedAfter := c1.IsClosed()
	for i := 0; i < 2 && !mfStop.Load(); i++ {
		exchange(cfg.Queued+1+i, 2*time.Second)
	}

	flen := len(F)
	rep.Count("midframe_scenarios", 1)
	if struck {
		rep.Count("midframe_read_errors_struck", 1)
	}
	if closedAfter {
		rep.Count("midframe_connection_closed_after_error", 1)
	} else {
		rep.Count("midframe_connection_went_on_after_error", 1)
	}
	rep.Count("midframe_buffers_verified_to_be_peer_frames", int64(res.ok))
	rep.Count("midframe_exchanges_failed", int64(res.failed))
	rep.SetAdd("midframe_cut_classes", mfCutClass(cut, flen))
	rep.SetAdd("midframe_error_kinds", fmt.Sprintf("%s/with-data=%v", cfg.Err, cfg.WithData))
	rep.SetAdd("midframe_standing_points", cfg.Transport+"/"+cfg.Gate)
	if struck && res.bogus == 0 {
		rep.Nontrivial(fmt.Sprintf("mf|%s|%s|q%d|%s|d%v|%s|cut%d|%s|closed%v", tname, cfg.Gate, cfg.Queued, cfg.Err, cfg.WithData, cfg.Split, cut, mfCutClass(cut, flen), closedAfter))
	}
	if cfg.Gate == "queued" && cut > 2 {
		sampleKind("midframe", 1, map[string]any{"midframe_scenario": cfg, "frame_len": flen, "cut_class": mfCutClass(cut, flen), "error_seen_by_reader": struck, "connection_closed_afterwards": closedAfter, "buffers_verified": res.ok, "exchanges_failed": res.failed})
	}
}

// runMidframePhase: the seed-determined scenario list.
func runMidframePhase(seed uint64) {
	r := xrng{s: seed ^ 0x3fd}
	var list []mfCfg
	perCombo := rep.Pick(16, 0) // 0: every cut
	cutsFor := func(c mfCfg) []int {
		flen := mfFrameLen(c)
		var cuts []int
		if perCombo == 0 {
			for i := 0; i < flen; i++ {
				cuts = append(cuts, i)
			}
			return cuts
		}
		seen := map[int]bool{}
		for _, i := range []int{0, 1, 2, 3 + r.intn(11), flen - 1} {
			if !seen[i] {
				seen[i] = true
				cuts = append(cuts, i)
			}
		}
		for len(cuts) < perCombo {
			if i := 14 + r.intn(flen-15); !seen[i] {
				seen[i] = true
				cuts = append(cuts, i)
			}
		}
		return cuts
	}
	add := func(c mfCfg) {
		c.Kind = "midframe"
		for _, cut := range cutsFor(c) {
			c.Cut = cut
			c.Seed = r.next()
			list = append(list, c)
		}
	}
	for _, tname := range []string{"tdc", "pipeline"} {
		for _, gate := range []string{"queued", "unarmed", "written", "none"} {
			for _, ek := range []string{"timeout", "temporary", "io"} {
				for _, wd := range []bool{false, true} {
					c := mfCfg{Transport: tname, Gate: gate, Err: ek, WithData: wd, Split: "surplus", Shape: r.intn(6), Seed: r.next()}
					if gate != "none" {
						c.Queued = []int{1, 4, 16, 16}[r.intn(4)]
					}
					if (gate == "written" || gate == "unarmed") && r.intn(2) == 0 {
						c.Split = "reply"
					}
					add(c)
				}
			}
		}
	}
	for _, gate := range []string{"written", "none"} {
		for _, ek := range []string{"timeout", "temporary", "io"} {
			c := mfCfg{Transport: "reuse", Gate: gate, Err: ek, WithData: r.intn(2) == 0, Split: "surplus", Shape: r.intn(6), Seed: r.next()}
			if gate == "written" {
				c.Queued, c.Split = 1, "reply"
			}
			add(c)
		}
	}
	// the deadline mosdns armed itself expires in the middle of the frame (real timer, 300 ms idle timeout)
	for _, tname := range []string{"tdc", "pipeline"} {
		for _, gate := range []string{"queued", "none"} {
			c := mfCfg{Transport: tname, Gate: gate, Err: "deadline", Split: "surplus", Shape: r.intn(6), Seed: r.next()}
			if gate != "none" {
				c.Queued = 16
			}
			add(c)
		}
	}
	ch := make(chan mfCfg, 64)
	var wg sync.WaitGroup
	for w := 0; w < 24; w++ {
		wg.Add(1)
		go func() {
			defer wg.Done()
			for c := range ch {
				runMidframe(c)
			}
		}()
	}
	for _, c := range list {
		ch <- c
	}
	close(ch)
	wg.Wait()
}
