package main

import (
	"encoding/binary"
	"fmt"
	"io"
	"runtime/debug"
	"sort"
	"strings"
	"sync"

	"github.com/miekg/dns"

	"verifharness/lib/wire"
)

// ---- seeded content ----

const golden = 0x9E3779B97F4A7C15

func mix(x uint64) uint64 {
	x += golden
	x = (x ^ (x >> 30)) * 0xBF58476D1CE4E5B9
	x = (x ^ (x >> 27)) * 0x94D049BB133111EB
	return x ^ (x >> 31)
}

// fillPattern fills b with PRNG(seed, len(b)): two messages of different
// length or seed share no aligned run, so a shift, a mix-up between messages,
// an unfilled tail (0xA5 from the pool sanitizer) or a truncated copy is visible.
func fillPattern(b []byte, seed uint64) {
	s := mix(seed ^ uint64(len(b))*golden)
	i := 0
	for ; i+8 <= len(b); i += 8 {
		s += golden
		z := s
		z = (z ^ (z >> 30)) * 0xBF58476D1CE4E5B9
		z = (z ^ (z >> 27)) * 0x94D049BB133111EB
		binary.LittleEndian.PutUint64(b[i:], z^(z>>31))
	}
	if i < len(b) {
		z := mix(s + golden)
		for ; i < len(b); i++ {
			b[i] = byte(z)
			z >>= 8
		}
	}
}

func pattern(seed uint64, n int) []byte {
	b := make([]byte, n)
	fillPattern(b, seed)
	return b
}

// xrng is a tiny seeded generator for the bulk paths (chunk sizes); all seeds
// derive from the run seed.
type xrng struct{ s uint64 }

func (r *xrng) next() uint64 { r.s += golden; return mix(r.s) }
func (r *xrng) intn(n int) int {
	if n <= 1 {
		return 0
	}
	return int(r.next() % uint64(n))
}

func hexHead(b []byte, n int) string {
	if len(b) > n {
		return fmt.Sprintf("%x...(%d bytes)", b[:n], len(b))
	}
	return fmt.Sprintf("%x", b)
}

func firstDiff(a, b []byte) int {
	n := len(a)
	if len(b) < n {
		n = len(b)
	}
	for i := 0; i < n; i++ {
		if a[i] != b[i] {
			return i
		}
	}
	if len(a) != len(b) {
		return n
	}
	return -1
}

// ---- recording writer (serialises Write calls exactly as a socket does) ----

type recWriter struct {
	mu    sync.Mutex
	calls int
	buf   []byte
}

func (w *recWriter) Write(p []byte) (int, error) {
	w.mu.Lock()
	w.calls++
	w.buf = append(w.buf, p...)
	w.mu.Unlock()
	return len(p), nil
}

// ---- chunking reader ----

type chunkReader struct {
	data        []byte
	pos         int
	max         int   // max bytes per Read (0 = unlimited)
	bounds      []int // absolute offsets no single Read crosses
	bi          int
	rnd         *xrng // random chunk sizes
	endErr      error // returned once data is exhausted
	eofWithLast bool  // deliver endErr together with the last chunk (legal io.Reader behaviour)
	reads       int
}

func (r *chunkReader) Read(p []byte) (int, error) {
	r.reads++
	if len(p) == 0 {
		return 0, nil
	}
	rem := len(r.data) - r.pos
	if rem == 0 {
		return 0, r.endErr
	}
	n := len(p)
	if n > rem {
		n = rem
	}
	if r.max > 0 && n > r.max {
		n = r.max
	}
	for r.bi < len(r.bounds) && r.bounds[r.bi] <= r.pos {
		r.bi++
	}
	if r.bi < len(r.bounds) && r.pos+n > r.bounds[r.bi] {
		n = r.bounds[r.bi] - r.pos
	}
	if r.rnd != nil {
		var m int
		switch r.rnd.intn(4) {
		case 0:
			m = 1 + r.rnd.intn(2)
		case 1:
			m = 1 + r.rnd.intn(16)
		case 2:
			m = 1 + r.rnd.intn(300)
		default:
			m = 1 + r.rnd.intn(5000)
		}
		if n > m {
			n = m
		}
	}
	copy(p, r.data[r.pos:r.pos+n])
	r.pos += n
	if r.eofWithLast && r.pos == len(r.data) {
		return n, r.endErr
	}
	return n, nil
}

// chunk classes for a stream whose first frame carries an n-byte message.
var allClasses = []string{"full", "byte1", "hdrsplit", "body@1", "body@mid", "body@n-1", "splits", "mss1460", "rand", "rand-eoflast"}

func newChunkReader(stream []byte, class string, n int, cseed uint64) *chunkReader {
	r := &chunkReader{data: stream, endErr: io.EOF}
	switch class {
	case "full":
	case "byte1":
		r.max = 1
	case "hdrsplit":
		r.bounds = []int{1}
	case "body@1":
		r.bounds = []int{3}
	case "body@mid":
		r.bounds = []int{2 + n/2}
	case "body@n-1":
		r.bounds = []int{2 + n - 1}
	case "splits":
		// every boundary class at once: inside the header, after the first body
		// byte, mid body, before the last body byte, inside the next header
		r.bounds = []int{1, 3, 2 + n/2, 2 + n - 1, 2 + n + 1}
	case "mss1460":
		r.max = 1460
	case "rand":
		r.rnd = &xrng{s: cseed}
	case "rand-eoflast":
		r.rnd = &xrng{s: cseed}
		r.eofWithLast = true
	default:
		panic("bad chunk class " + class)
	}
	if len(r.bounds) > 1 {
		sort.Ints(r.bounds)
	}
	return r
}

// ---- panic attribution ----

// guarded runs f; a panic whose innermost non-runtime frame is mosdns code (or
// library code called by mosdns) is a violation, a panic in harness code is a
// harness bug (inconclusive).
func guarded(fn string, desc any, f func()) (panicked bool) {
	defer func() {
		if r := recover(); r != nil {
			panicked = true
			st := string(debug.Stack())
			owner := panicOwner(st)
			if owner == "harness" {
				rep.Inconclusive("harness panic while checking %s: %v\n%s", fn, r, st)
				return
			}
			rep.Violation("panic-"+fn, fmt.Sprintf("%s panicked: %v", fn, r), map[string]any{"case": desc, "panic": fmt.Sprint(r), "stack": st})
		}
	}()
	f()
	return false
}

func panicOwner(stack string) string {
	lines := strings.Split(stack, "\n")
	i := 0
	for ; i < len(lines); i++ {
		if strings.HasPrefix(lines[i], "panic(") {
			break
		}
	}
	for i++; i < len(lines); i++ {
		l := lines[i]
		if l == "" || l[0] == '\t' || l[0] == ' ' {
			continue
		}
		switch {
		case strings.HasPrefix(l, "verifharness/lib/poolsan"):
			continue
		case strings.Contains(l, "IrineSistiana/mosdns/v5/"):
			return "mosdns"
		case strings.HasPrefix(l, "main.") || strings.HasPrefix(l, "verifharness/"):
			return "harness"
		}
	}
	return "unknown"
}

// ---- real DNS messages of controlled size ----

type msgSpec struct {
	ID    uint16
	QWire []byte // nil: no question
	QName string
	Qtype uint16
	HasRR bool
	TTL   uint32
	Data  []byte
}

const flagsReply = 0x8180 // QR RD RA

// genName returns a name of exactly w wire bytes (w == 1 or 3..255).
func genName(w int, seed uint64) ([]byte, string) {
	if w == 1 {
		return []byte{0}, "."
	}
	const alpha = "abcdefghijklmnopqrstuvwxyz0123456789"
	r := xrng{s: seed}
	var out []byte
	var sb strings.Builder
	rem := w - 1
	for rem > 0 {
		l := rem - 1
		if l > 63 {
			l = 63
		}
		if rem-1-l == 1 {
			l--
		}
		out = append(out, byte(l))
		for i := 0; i < l; i++ {
			c := alpha[r.intn(len(alpha))]
			out = append(out, c)
			sb.WriteByte(c)
		}
		sb.WriteByte('.')
		rem -= 1 + l
	}
	out = append(out, 0)
	return out, sb.String()
}

// specForSize returns a message that packs to exactly n bytes without
// compression. n = 17 and every n >= 19 are representable (a 13..16 or 18
// byte message cannot be produced from a dns.Msg: header 12, question >= 5
// and != 6, record >= 11).
func specForSize(n int, seed uint64) (msgSpec, bool) {
	s := msgSpec{ID: uint16(mix(seed ^ 0x1d)), Qtype: uint16(1 + mix(seed^0x77)%60), TTL: uint32(mix(seed ^ 0x99))}
	if s.Qtype == 41 {
		s.Qtype = 16
	}
	var shapes []int
	if n == 17 || (n >= 19 && n <= 271) {
		shapes = append(shapes, 0) // question only
	}
	if n >= 23 {
		shapes = append(shapes, 1) // one NULL record, no question
	}
	if n >= 28 {
		shapes = append(shapes, 2) // question + NULL record
	}
	if len(shapes) == 0 {
		return s, false
	}
	switch shapes[int(mix(seed^0x5a)%uint64(len(shapes)))] {
	case 0:
		s.QWire, s.QName = genName(n-16, seed)
	case 1:
		s.HasRR = true
		s.Data = pattern(seed, n-23)
	case 2:
		maxW := n - 27
		if maxW > 255 {
			maxW = 255
		}
		w := 1
		if maxW >= 3 && mix(seed^0x33)%4 != 0 {
			w = 3 + int(mix(seed^0x44)%uint64(maxW-2))
		}
		s.QWire, s.QName = genName(w, seed)
		s.HasRR = true
		s.Data = pattern(seed, n-27-w)
	}
	return s, true
}

func (s msgSpec) wire() []byte {
	b := wire.NewBuilder(s.ID, flagsReply)
	if s.QWire != nil {
		b.Question(s.QWire, s.Qtype, 1)
	}
	if s.HasRR {
		b.RR(0, []byte{0}, 10, 1, s.TTL, s.Data)
	}
	return b.Bytes()
}

func (s msgSpec) msg() *dns.Msg {
	m := new(dns.Msg)
	m.Id = s.ID
	m.Response = true
	m.RecursionDesired = true
	m.RecursionAvailable = true
	if s.QWire != nil {
		m.Question = []dns.Question{{Name: s.QName, Qtype: s.Qtype, Qclass: 1}}
	}
	if s.HasRR {
		m.Answer = []dns.RR{&dns.NULL{Hdr: dns.RR_Header{Name: ".", Rrtype: dns.TypeNULL, Class: 1, Ttl: s.TTL}, Data: string(s.Data)}}
	}
	return m
}

// verify compares an unpacked message with the spec field by field.
func (s msgSpec) verify(m *dns.Msg) string {
	if m == nil {
		return "nil message"
	}
	if m.Id != s.ID {
		return fmt.Sprintf("id %#04x != %#04x", m.Id, s.ID)
	}
	if !m.Response || !m.RecursionDesired || !m.RecursionAvailable || m.Rcode != 0 || m.Opcode != 0 {
		return "header flags differ"
	}
	if (s.QWire != nil) != (len(m.Question) == 1) {
		return fmt.Sprintf("question count %d", len(m.Question))
	}
	if s.QWire != nil {
		q := m.Question[0]
		if q.Name != s.QName || q.Qtype != s.Qtype || q.Qclass != 1 {
			return "question differs"
		}
	}
	if len(m.Ns) != 0 || len(m.Extra) != 0 {
		return "unexpected records"
	}
	if s.HasRR != (len(m.Answer) == 1) {
		return fmt.Sprintf("answer count %d", len(m.Answer))
	}
	if s.HasRR {
		rr, ok := m.Answer[0].(*dns.NULL)
		if !ok {
			return fmt.Sprintf("answer is %T", m.Answer[0])
		}
		if rr.Hdr.Name != "." || rr.Hdr.Class != 1 || rr.Hdr.Ttl != s.TTL {
			return "answer header differs"
		}
		if rr.Data != string(s.Data) {
			return fmt.Sprintf("answer data differs at offset %d (len %d vs %d)", firstDiff([]byte(rr.Data), s.Data), len(rr.Data), len(s.Data))
		}
	}
	return ""
}
