package main

import (
	"bytes"
	"encoding/binary"
	"encoding/json"
	"errors"
	"fmt"
	"io"
	"math/rand"
	"sync"
	"sync/atomic"

	"github.com/IrineSistiana/mosdns/v5/pkg/dnsutils"
	"github.com/IrineSistiana/mosdns/v5/pkg/pool"
	"github.com/miekg/dns"

	"verifharness/lib/poolsan"
	"verifharness/lib/wire"
)

// rtCase is the replayable descriptor of one round-trip case (one length).
type rtCase struct {
	Kind    string   `json:"kind"` // "roundtrip"
	N       int      `json:"n"`
	Seed    uint64   `json:"seed"`
	Classes []string `json:"classes"`
}

// verifyFramed checks what a mosdns writer put on the stream with the
// independent deframer: exactly one frame, equal to want, nothing else.
func verifyFramed(fn string, written, want []byte, err error, desc any) bool {
	if err != nil {
		rep.Violation(fn+"-refused-valid-length", fmt.Sprintf("%s refused a %d byte message: %v", fn, len(want), err), desc)
		return false
	}
	var d wire.Deframer
	frames := d.Feed(written)
	if len(frames) == 1 && len(d.Rest()) == 0 && bytes.Equal(frames[0], want) {
		return true
	}
	what := fmt.Sprintf("%s wrote %d bytes for a %d byte message; independent deframer saw %d frame(s), %d trailing byte(s)", fn, len(written), len(want), len(frames), len(d.Rest()))
	if len(written) >= 2 {
		what += fmt.Sprintf("; length field %d", binary.BigEndian.Uint16(written))
	}
	if len(frames) >= 1 {
		what += fmt.Sprintf("; first frame len %d, first difference at body offset %d", len(frames[0]), firstDiff(frames[0], want))
	}
	rep.Violation(fn+"-misframed", what, map[string]any{"case": desc, "written_head": hexHead(written, 48), "want_head": hexHead(want, 48)})
	return false
}

// readRawSeq reads len(wants) messages from stream with ReadRawMsgFromTCP and
// then expects an error.
func readRawSeq(stream []byte, wants [][]byte, class string, cseed uint64, desc any) bool {
	const fn = "ReadRawMsgFromTCP"
	r := newChunkReader(stream, class, len(wants[0]), cseed)
	off := 0
	ok := true
	for i, want := range wants {
		var bp *[]byte
		var err error
		if guarded(fn, desc, func() { bp, err = dnsutils.ReadRawMsgFromTCP(r) }) {
			return false
		}
		rep.Eval(1)
		wit := map[string]any{"case": desc, "chunking": class, "frame_index": i, "want_len": len(want)}
		if err != nil {
			rep.Violation(fn+"-valid-frame-rejected", fmt.Sprintf("frame %d of %d bytes, chunking %s: error %v", i, len(want), class, err), wit)
			return false
		}
		if bp == nil {
			rep.Violation(fn+"-nil-buffer-no-error", "nil buffer and nil error", wit)
			return false
		}
		if !poolsan.Check(bp, fn+" result") {
			return false
		}
		if len(*bp) != len(want) {
			rep.Violation(fn+"-buffer-wrong-size", fmt.Sprintf("announced length %d, returned buffer has %d bytes (chunking %s)", len(want), len(*bp), class), wit)
			ok = false
		} else if !bytes.Equal(*bp, want) {
			rep.Violation(fn+"-content-differs", fmt.Sprintf("%d byte message read through chunking %s differs from what was framed at offset %d", len(want), class, firstDiff(*bp, want)), wit)
			ok = false
		}
		off += 2 + len(want)
		if r.pos != off {
			rep.Violation(fn+"-consumed-wrong-count", fmt.Sprintf("after frame %d the reader consumed %d stream bytes, the frames so far are %d bytes (chunking %s)", i, r.pos, off, class), wit)
			ok = false
		}
		pool.ReleaseBuf(bp)
		if !ok {
			return false
		}
	}
	var bp *[]byte
	var err error
	if guarded(fn, desc, func() { bp, err = dnsutils.ReadRawMsgFromTCP(r) }) {
		return false
	}
	if err == nil || bp != nil {
		rep.Violation(fn+"-no-error-at-eof", "read past the end of the stream returned no error", desc)
		if bp != nil {
			pool.ReleaseBuf(bp)
		}
		return false
	}
	return ok
}

func readMsgSeq(stream []byte, specs []msgSpec, wires [][]byte, class string, cseed uint64, desc any) bool {
	const fn = "ReadMsgFromTCP"
	r := newChunkReader(stream, class, len(wires[0]), cseed)
	off := 0
	for i, sp := range specs {
		var m *dns.Msg
		var n int
		var err error
		if guarded(fn, desc, func() { m, n, err = dnsutils.ReadMsgFromTCP(r) }) {
			return false
		}
		rep.Eval(1)
		wit := map[string]any{"case": desc, "chunking": class, "frame_index": i, "want_len": len(wires[i])}
		if err != nil {
			rep.Violation(fn+"-valid-frame-rejected", fmt.Sprintf("frame %d of %d bytes, chunking %s: error %v", i, len(wires[i]), class, trimErr(err)), wit)
			return false
		}
		off += 2 + len(wires[i])
		if n != 2+len(wires[i]) || r.pos != off {
			rep.Violation(fn+"-consumed-wrong-count", fmt.Sprintf("frame of %d+2 bytes: returned n=%d, reader consumed %d of expected %d (chunking %s)", len(wires[i]), n, r.pos, off, class), wit)
			return false
		}
		if d := sp.verify(m); d != "" {
			rep.Violation(fn+"-content-differs", fmt.Sprintf("%d byte message read through chunking %s: %s", len(wires[i]), class, d), wit)
			return false
		}
	}
	var m *dns.Msg
	var err error
	if guarded(fn, desc, func() { m, _, err = dnsutils.ReadMsgFromTCP(r) }) {
		return false
	}
	if err == nil || m != nil {
		rep.Violation(fn+"-no-error-at-eof", "read past the end of the stream returned no error", desc)
		return false
	}
	return true
}

func trimErr(err error) string {
	s := err.Error()
	if len(s) > 200 {
		s = s[:200] + "..."
	}
	return s
}

// roundTrip runs every writer and reader on one message length.
func roundTrip(c rtCase) {
	n := c.N
	seed := mix(c.Seed ^ uint64(n)<<20)
	msg := pattern(seed, n)

	// --- raw writer ---
	rec := &recWriter{}
	var werr error
	if guarded("WriteRawMsgToTCP", c, func() { _, werr = dnsutils.WriteRawMsgToTCP(rec, msg) }) {
		return
	}
	rep.Eval(1)
	wok := verifyFramed("WriteRawMsgToTCP", rec.buf, msg, werr, c)
	if wok {
		rep.Nontrivial(fmt.Sprintf("w|raw|%d", n))
		rep.Count("writer_frames_verified", 1)
		if rec.calls > 1 {
			rep.Count("writer_used_several_write_calls", 1)
		}
	}

	// --- raw reader: what mosdns wrote, followed by an oracle-framed second
	// message of another length (an over-read or a wrong buffer size shows in
	// the second frame and in the consumed count) ---
	n2 := 13 + int(mix(seed^0xabc)%61)
	if n2 == n {
		n2++
	}
	msg2 := pattern(seed^0x2222, n2)
	var stream []byte
	if wok {
		stream = append(stream, rec.buf...)
	} else {
		stream = append(stream, wire.Frame(msg)...)
	}
	stream = append(stream, wire.Frame(msg2)...)
	for _, class := range c.Classes {
		if readRawSeq(stream, [][]byte{msg, msg2}, class, seed^0x777, c) {
			rep.Nontrivial(fmt.Sprintf("r|raw|%d|%s", n, class))
			rep.Count("reader_frames_verified", 2)
			rep.SetAdd("chunk_classes", class)
		}
	}

	if n == 13 || n == 65535 {
		sampleKind("roundtrip", 1, map[string]any{"roundtrip": c, "content_head": hexHead(msg, 16), "written_head": hexHead(rec.buf, 8), "write_calls": rec.calls, "writer_ok": wok, "second_frame_len": n2})
	}

	// --- real DNS messages ---
	sp, ok := specForSize(n, seed)
	if !ok {
		return
	}
	want := sp.wire()
	if len(want) != n {
		rep.Inconclusive("harness: spec for size %d built %d bytes", n, len(want))
		return
	}
	m := sp.msg()

	var bp *[]byte
	var perr error
	if guarded("PackTCPBuffer", c, func() { bp, perr = pool.PackTCPBuffer(m) }) {
		return
	}
	rep.Eval(1)
	var packed []byte
	if perr == nil && bp != nil {
		if !poolsan.Check(bp, "PackTCPBuffer result") {
			return
		}
		packed = append(packed, *bp...)
		pool.ReleaseBuf(bp)
	}
	if verifyFramed("PackTCPBuffer", packed, want, perr, c) {
		rep.Nontrivial(fmt.Sprintf("w|pack|%d", n))
		rep.Count("writer_frames_verified", 1)
	}

	rec2 := &recWriter{}
	if guarded("WriteMsgToTCP", c, func() { _, werr = dnsutils.WriteMsgToTCP(rec2, m) }) {
		return
	}
	rep.Eval(1)
	mok := verifyFramed("WriteMsgToTCP", rec2.buf, want, werr, c)
	if mok {
		rep.Nontrivial(fmt.Sprintf("w|msg|%d", n))
		rep.Count("writer_frames_verified", 1)
	}

	n3 := 19 + int(mix(seed^0xdef)%200)
	if n3 == n {
		n3++
	}
	sp2, _ := specForSize(n3, seed^0x3333)
	w2 := sp2.wire()
	var mstream []byte
	if mok {
		mstream = append(mstream, rec2.buf...)
	} else {
		mstream = append(mstream, wire.Frame(want)...)
	}
	mstream = append(mstream, wire.Frame(w2)...)
	for _, class := range c.Classes {
		if (class == "byte1" || class == "rand-eoflast") && n > 4096 && n%16 != 0 {
			continue // ReadMsgFromTCP sits on ReadRawMsgFromTCP, which gets byte1 at every length
		}
		if readMsgSeq(mstream, []msgSpec{sp, sp2}, [][]byte{want, w2}, class, seed^0x888, c) {
			rep.Nontrivial(fmt.Sprintf("r|msg|%d|%s", n, class))
			rep.Count("reader_frames_verified", 2)
		}
	}
}

// quickLengths: the classes named in the design + seeded random lengths.
func quickLengths(rng *rand.Rand, random int) []int {
	seen := map[int]bool{}
	var out []int
	add := func(n int) {
		if n >= 13 && n <= 65535 && !seen[n] {
			seen[n] = true
			out = append(out, n)
		}
	}
	for n := 13; n <= 80; n++ {
		add(n)
	}
	for _, c := range []int{127, 128, 129, 255, 256, 257, 511, 512, 513, 1023, 1024, 1025, 1459, 1460, 1461, 2047, 2048, 2049, 4093, 4094, 4095, 4096, 4097, 8188, 8189, 8190, 8191, 8192, 8193, 16383, 16384, 16385, 32767, 32768, 32769, 65533, 65534, 65535} {
		add(c)
	}
	for len(out) < 120+random {
		switch rng.Intn(3) {
		case 0:
			add(13 + rng.Intn(2000))
		default:
			add(13 + rng.Intn(65523))
		}
	}
	return out
}

func runRoundTrips(lengths []int, seed uint64, classes []string) {
	caselog.Log(map[string]any{"phase": "roundtrip", "lengths": len(lengths), "seed": seed})
	ch := make(chan int, 256)
	var wg sync.WaitGroup
	for w := 0; w < 16; w++ {
		wg.Add(1)
		go func() {
			defer wg.Done()
			for n := range ch {
				roundTrip(rtCase{Kind: "roundtrip", N: n, Seed: seed, Classes: classes})
			}
		}()
	}
	for _, n := range lengths {
		ch <- n
	}
	close(ch)
	wg.Wait()
	rep.Count("roundtrip_lengths", int64(len(lengths)))
}

// ---- refusal of over-long messages ----

type refuseCase struct {
	Kind string `json:"kind"` // "refuse"
	Fn   string `json:"fn"`
	N    int    `json:"n"`
}

// bigMsg packs to exactly n bytes (n >= 12+23) using records of <= 60000 data bytes.
func bigMsg(n int, seed uint64) *dns.Msg {
	m := new(dns.Msg)
	m.Id = uint16(seed)
	m.Response = true
	rem := n - 12
	for rem > 0 {
		l := rem - 11
		if l > 60000 {
			l = 60000
			if rem-11-l < 11 && rem-11-l > 0 {
				l -= 11
			}
		}
		m.Answer = append(m.Answer, &dns.NULL{Hdr: dns.RR_Header{Name: ".", Rrtype: dns.TypeNULL, Class: 1, Ttl: 1}, Data: string(pattern(seed+uint64(rem), l))})
		rem -= 11 + l
	}
	return m
}

func runRefusals(rng *rand.Rand) {
	sizes := []int{65536, 65537, 65538, 65536 + 12, 65536 + 13, 65536 + 40, 65536 + 512, 70000, 98304, 131071, 131072, 131072 + 13, 131072 + 300, 196608 + 64, 1 << 20, 1<<20 + 17}
	for i := 0; i < rep.Pick(8, 64); i++ {
		sizes = append(sizes, 65536+rng.Intn(200000))
	}
	for _, n := range sizes {
		c := refuseCase{Kind: "refuse", Fn: "WriteRawMsgToTCP", N: n}
		caselog.Log(c)
		refuseOne(c)
		c.Fn = "PackTCPBuffer"
		caselog.Log(c)
		refuseOne(c)
		c.Fn = "WriteMsgToTCP"
		caselog.Log(c)
		refuseOne(c)
	}
}

func refuseOne(c refuseCase) {
	seed := uint64(c.N) * 7919
	switch c.Fn {
	case "WriteRawMsgToTCP":
		msg := pattern(seed, c.N)
		rec := &recWriter{}
		var err error
		if guarded(c.Fn, c, func() { _, err = dnsutils.WriteRawMsgToTCP(rec, msg) }) {
			return
		}
		rep.Eval(1)
		refusalVerdict(c, err, len(rec.buf), rec.buf)
	case "PackTCPBuffer":
		m := bigMsg(c.N, seed)
		if raw, err := m.Pack(); err != nil || len(raw) != c.N {
			rep.Inconclusive("harness: big message for %d packs to %d (%v)", c.N, len(raw), err)
			return
		}
		var bp *[]byte
		var err error
		if guarded(c.Fn, c, func() { bp, err = pool.PackTCPBuffer(m) }) {
			return
		}
		rep.Eval(1)
		var got []byte
		if bp != nil {
			got = append(got, *bp...)
			pool.ReleaseBuf(bp)
		}
		refusalVerdict(c, err, len(got), got)
	case "WriteMsgToTCP":
		m := bigMsg(c.N, seed)
		rec := &recWriter{}
		var err error
		if guarded(c.Fn, c, func() { _, err = dnsutils.WriteMsgToTCP(rec, m) }) {
			return
		}
		rep.Eval(1)
		refusalVerdict(c, err, len(rec.buf), rec.buf)
	}
}

func refusalVerdict(c refuseCase, err error, wrote int, data []byte) {
	if err != nil && wrote == 0 {
		rep.Count("oversize_refused", 1)
		rep.Nontrivial(fmt.Sprintf("refuse|%s|%d", c.Fn, c.N))
		sampleKind("refuse", 1, map[string]any{"refusal": c, "error": trimErr(err), "bytes_written": wrote})
		return
	}
	what := fmt.Sprintf("%s with a %d byte message (> 65535): err=%v, %d bytes produced", c.Fn, c.N, err, wrote)
	if wrote >= 2 {
		what += fmt.Sprintf(", length field says %d", binary.BigEndian.Uint16(data))
	}
	rep.Violation(c.Fn+"-oversize-not-refused", what, map[string]any{"case": c, "head": hexHead(data, 32)})
}

// ---- malformed streams ----

type garbageCase struct {
	Kind      string `json:"kind"` // "garbage"
	Fn        string `json:"fn"`   // ReadRawMsgFromTCP | ReadMsgFromTCP
	StreamHex string `json:"stream_hex"`
	Class     string `json:"chunking"`
	CSeed     uint64 `json:"chunk_seed"`
	EndErr    string `json:"end_err"` // eof | unexpected | injected
	EOFLast   bool   `json:"eof_with_last_chunk"`
	Origin    string `json:"origin"`
}

var errInjectedRead = errors.New("c16: injected read error")

var garbageStats struct {
	rejSmall, rejShort, rejHdr, rejEmpty, acc12, rej12, okFrames, unpackErr atomic.Int64
}

func endErrOf(s string) error {
	switch s {
	case "unexpected":
		return io.ErrUnexpectedEOF
	case "injected":
		return errInjectedRead
	}
	return io.EOF
}

// garbageWitness renders the full stream only when a violation is written.
type garbageWitness struct {
	c           garbageCase
	stream      []byte
	off, L, rem int
}

func (w garbageWitness) MarshalJSON() ([]byte, error) {
	c := w.c
	c.StreamHex = fmt.Sprintf("%x", w.stream)
	return json.Marshal(map[string]any{"case": c, "frame_offset": w.off, "announced": w.L, "remaining": w.rem})
}

// runGarbage feeds one arbitrary byte stream to a reader function until it
// reports an error and compares every step with the framing model.
func runGarbage(c garbageCase, stream []byte) {
	fn := c.Fn
	r := &chunkReader{data: stream, endErr: endErrOf(c.EndErr), eofWithLast: c.EOFLast}
	switch c.Class {
	case "byte1":
		r.max = 1
	case "rand":
		r.rnd = &xrng{s: c.CSeed}
	}
	off := 0
	for iter := 0; iter < 1<<20; iter++ {
		rem := len(stream) - off
		L := -1
		expectOK, either := false, false
		if rem >= 2 {
			L = int(binary.BigEndian.Uint16(stream[off:]))
			if rem >= 2+L {
				if L > 12 {
					expectOK = true
				} else if L == 12 {
					either = true // exactly a header: not in 13..65535 and not "less than a header"
				}
			}
		}
		wit := garbageWitness{c: c, stream: stream, off: off, L: L, rem: rem}
		var bp *[]byte
		var m *dns.Msg
		var n int
		var err error
		if fn == "ReadRawMsgFromTCP" {
			if guarded(fn, wit, func() { bp, err = dnsutils.ReadRawMsgFromTCP(r) }) {
				return
			}
		} else {
			if guarded(fn, wit, func() { m, n, err = dnsutils.ReadMsgFromTCP(r) }) {
				return
			}
		}
		rep.Eval(1)
		if err == nil {
			if !expectOK && !either {
				key, what := "-accepted-short-frame", fmt.Sprintf("announced %d bytes, only %d available, no error", L, rem-2)
				if L >= 0 && L < 12 && rem >= 2+L {
					key, what = "-accepted-length-below-header", fmt.Sprintf("announced length %d (< 12) was accepted", L)
				}
				if rem < 2 {
					key, what = "-accepted-short-frame", fmt.Sprintf("only %d byte(s) of header available, no error", rem)
				}
				rep.Violation(fn+key, what, wit)
				if bp != nil {
					pool.ReleaseBuf(bp)
				}
				return
			}
			if either {
				garbageStats.acc12.Add(1)
			}
			if fn == "ReadRawMsgFromTCP" {
				if bp == nil {
					rep.Violation(fn+"-nil-buffer-no-error", "nil buffer and nil error", wit)
					return
				}
				if !poolsan.Check(bp, fn+" result") {
					return
				}
				bad := ""
				if len(*bp) != L {
					bad = fmt.Sprintf("announced length %d, returned buffer has %d bytes", L, len(*bp))
					rep.Violation(fn+"-buffer-wrong-size", bad, wit)
				} else if !bytes.Equal(*bp, stream[off+2:off+2+L]) {
					bad = fmt.Sprintf("returned %d bytes differ from the frame body at offset %d", L, firstDiff(*bp, stream[off+2:off+2+L]))
					rep.Violation(fn+"-content-differs", bad, wit)
				}
				pool.ReleaseBuf(bp)
				if bad != "" {
					return
				}
			} else {
				if m == nil {
					rep.Violation(fn+"-nil-buffer-no-error", "nil message and nil error", wit)
					return
				}
				if n != L+2 {
					rep.Violation(fn+"-consumed-wrong-count", fmt.Sprintf("frame of %d+2 bytes, returned n=%d", L, n), wit)
					return
				}
				if m.Id != binary.BigEndian.Uint16(stream[off+2:]) {
					rep.Violation(fn+"-content-differs", "message ID differs from the first two body bytes", wit)
					return
				}
			}
			if r.pos != off+2+L {
				rep.Violation(fn+"-consumed-wrong-count", fmt.Sprintf("frame at %d of %d+2 bytes: reader position %d afterwards", off, L, r.pos), wit)
				return
			}
			garbageStats.okFrames.Add(1)
			off += 2 + L
			continue
		}
		// error
		if bp != nil {
			rep.Violation(fn+"-buffer-and-error", "a buffer was returned together with an error", wit)
			pool.ReleaseBuf(bp)
			return
		}
		if expectOK {
			if fn == "ReadMsgFromTCP" && r.pos == off+2+L && n == L+2 {
				garbageStats.unpackErr.Add(1) // whole frame consumed, content is not a DNS message
				off += 2 + L
				continue
			}
			rep.Violation(fn+"-valid-frame-rejected", fmt.Sprintf("complete frame of %d bytes at offset %d rejected: %s", L, off, trimErr(err)), wit)
			return
		}
		switch {
		case either:
			garbageStats.rej12.Add(1)
		case rem == 0:
			garbageStats.rejEmpty.Add(1)
		case rem < 2:
			garbageStats.rejHdr.Add(1)
		case L <= 12 && rem >= 2+L:
			garbageStats.rejSmall.Add(1)
		case L < 12:
			garbageStats.rejSmall.Add(1)
		default:
			garbageStats.rejShort.Add(1)
		}
		return
	}
}

func garbageVariants(fnIdx int, origin string, stream []byte, rng *rand.Rand, all bool) {
	fns := []string{"ReadRawMsgFromTCP", "ReadMsgFromTCP"}
	classes := []string{"full", "byte1", "rand"}
	ends := []string{"eof", "unexpected", "injected"}
	run := func(fn, class, end string, last bool) {
		c := garbageCase{Kind: "garbage", Fn: fn, Class: class, CSeed: rng.Uint64(), EndErr: end, EOFLast: last, Origin: origin}
		if len(stream) <= 1024 {
			c.StreamHex = fmt.Sprintf("%x", stream)
		} else {
			c.Origin = origin + " head=" + hexHead(stream, 64)
		}
		caselog.Log(c)
		runGarbage(c, stream)
		if len(stream) > 40 && len(stream) < 200 {
			sampleKind("malformed", 1, c)
		}
		rep.Nontrivial(fmt.Sprintf("g|%s|%s|%s|%v|%x", fn, class, end, last, mix(hashBytes(stream))))
	}
	if all {
		for _, fn := range fns {
			for _, class := range classes {
				run(fn, class, ends[rng.Intn(3)], rng.Intn(4) == 0)
			}
		}
		return
	}
	run(fns[fnIdx%2], classes[rng.Intn(3)], ends[rng.Intn(3)], rng.Intn(4) == 0)
}

func hashBytes(b []byte) uint64 {
	h := uint64(1469598103934665603)
	for _, c := range b {
		h = (h ^ uint64(c)) * 1099511628211
	}
	return h ^ uint64(len(b))
}

// runPrefixes: EOF (or a read error) at each offset of a multi-frame stream.
func runPrefixes(rng *rand.Rand) {
	sizeSets := [][]int{{13, 14, 40, 300}, {17, 64, 255, 256}, {29, 13, 1000}}
	if rep.Thorough() {
		sizeSets = append(sizeSets, []int{13, 5000, 33}, []int{4095, 4096, 13}, []int{300, 65535, 20})
	}
	for si, sizes := range sizeSets {
		var stream []byte
		for i, n := range sizes {
			sp, ok := specForSize(n, uint64(rng.Int63()))
			if ok && i%2 == 0 {
				stream = append(stream, wire.Frame(sp.wire())...)
			} else {
				stream = append(stream, wire.Frame(pattern(uint64(rng.Int63()), n))...)
			}
		}
		step := 1
		if len(stream) > 20000 {
			step = 7
		}
		for cut := 0; cut <= len(stream); cut += step {
			garbageVariants(cut, fmt.Sprintf("prefix set %d cut %d", si, cut), stream[:cut], rng, cut < 64 || cut%16 == 0)
			rep.Count("prefix_cuts", 1)
		}
	}
}

// runSmallLengths: announced length 0..12 with a full, a short and an over-long body.
func runSmallLengths(rng *rand.Rand) {
	for L := 0; L <= 12; L++ {
		for _, body := range []int{L, 0, L / 2, L + 30} {
			for _, lead := range []int{0, 1} {
				var stream []byte
				if lead == 1 {
					stream = append(stream, wire.Frame(pattern(uint64(L*100+body), 20+L))...)
				}
				stream = append(stream, byte(L>>8), byte(L))
				stream = append(stream, pattern(uint64(L)<<8|uint64(body), body)...)
				if body >= L {
					// a perfectly valid frame follows; it must not matter
					stream = append(stream, wire.Frame(pattern(uint64(L), 33))...)
				}
				garbageVariants(0, fmt.Sprintf("small length %d body %d lead %d", L, body, lead), stream, rng, true)
				rep.Count("small_length_streams", 1)
			}
		}
	}
}

func genGarbage(rng *rand.Rand) ([]byte, string) {
	var s []byte
	desc := ""
	valid := rng.Intn(5)
	for i := 0; i < valid; i++ {
		n := 13 + rng.Intn(300)
		if rng.Intn(10) == 0 {
			n = 13 + rng.Intn(6000)
		}
		if rng.Intn(2) == 0 {
			if sp, ok := specForSize(n, rng.Uint64()); ok {
				s = append(s, wire.Frame(sp.wire())...)
				desc += fmt.Sprintf("msg%d ", n)
				continue
			}
		}
		b := make([]byte, n)
		rng.Read(b)
		s = append(s, wire.Frame(b)...)
		desc += fmt.Sprintf("ok%d ", n)
	}
	switch k := rng.Intn(9); k {
	case 0: // small announced length
		L := rng.Intn(13)
		b := make([]byte, rng.Intn(40))
		rng.Read(b)
		s = append(s, 0, byte(L))
		s = append(s, b...)
		desc += fmt.Sprintf("small%d+%d", L, len(b))
	case 1: // big announced length, short body
		L := 13 + rng.Intn(65523)
		have := rng.Intn(L)
		if have > 3000 {
			have = rng.Intn(3000)
		}
		b := make([]byte, have)
		rng.Read(b)
		s = append(s, byte(L>>8), byte(L))
		s = append(s, b...)
		desc += fmt.Sprintf("short%d/%d", have, L)
	case 2: // body one byte short
		L := 13 + rng.Intn(2000)
		b := make([]byte, L-1)
		rng.Read(b)
		s = append(s, byte(L>>8), byte(L))
		s = append(s, b...)
		desc += fmt.Sprintf("short%d/%d", L-1, L)
	case 3: // pure random bytes
		b := make([]byte, rng.Intn(200))
		rng.Read(b)
		s = append(s, b...)
		desc += fmt.Sprintf("rand%d", len(b))
	case 4: // single byte
		s = append(s, byte(rng.Intn(256)))
		desc += "1byte"
	case 5: // constant fill
		c := []byte{0x00, 0xff, 0x0c, 0x0d}[rng.Intn(4)]
		n := rng.Intn(100)
		for i := 0; i < n; i++ {
			s = append(s, c)
		}
		desc += fmt.Sprintf("fill%02x*%d", c, n)
	case 6: // 0xFFFF length with a lot of data but not enough
		n := 60000 + rng.Intn(5535)
		b := make([]byte, n)
		rng.Read(b)
		s = append(s, 0xff, 0xff)
		s = append(s, b...)
		desc += fmt.Sprintf("short%d/65535", n)
	case 7: // long random stream: a chain of random "frames"
		b := make([]byte, 1000+rng.Intn(70000))
		rng.Read(b)
		// bias the chain: small length fields so that several frames are walked
		for i := 0; i+1 < len(b); i += 97 {
			b[i] = byte(rng.Intn(3))
		}
		s = append(s, b...)
		desc += fmt.Sprintf("chain%d", len(b))
	case 8: // nothing more: clean EOF after valid frames
		desc += "clean"
	}
	return s, desc
}

func runGarbageStreams(rng *rand.Rand, count int) {
	for i := 0; i < count; i++ {
		s, d := genGarbage(rng)
		garbageVariants(i, "gen "+d, s, rng, false)
		rep.Count("garbage_streams", 1)
	}
}

func reportGarbageStats() {
	rep.Count("malformed_rejected_length_le_12", garbageStats.rejSmall.Load())
	rep.Count("malformed_rejected_short_body", garbageStats.rejShort.Load())
	rep.Count("malformed_rejected_eof_inside_header", garbageStats.rejHdr.Load())
	rep.Count("malformed_rejected_eof_at_frame_boundary", garbageStats.rejEmpty.Load())
	rep.Count("malformed_length12_accepted", garbageStats.acc12.Load())
	rep.Count("malformed_length12_rejected", garbageStats.rej12.Load())
	rep.Count("malformed_streams_valid_frames_read_before_error", garbageStats.okFrames.Load())
	rep.Count("malformed_frames_not_dns_unpack_error", garbageStats.unpackErr.Load())
}

// ---- concurrent writers on one shared stream ----

type cwCase struct {
	Kind    string `json:"kind"` // "concurrent-writers"
	Writers int    `json:"writers"`
	Per     int    `json:"per"`
	Seed    uint64 `json:"seed"`
}

// runConcurrentWriters: many goroutines frame messages onto one connection (as
// ServeTCP's reply goroutines do); the connection serialises Write calls; the
// concatenation must parse into intact frames.
func runConcurrentWriters(c cwCase) {
	caselog.Log(c)
	rec := &recWriter{}
	type item struct {
		n   int
		msg bool
	}
	var mu sync.Mutex
	sent := map[uint64]item{}
	var wg sync.WaitGroup
	start := make(chan struct{})
	for w := 0; w < c.Writers; w++ {
		wg.Add(1)
		go func(w int) {
			defer wg.Done()
			r := xrng{s: c.Seed + uint64(w)*1000003}
			<-start
			for i := 0; i < c.Per; i++ {
				seq := uint64(w)<<32 | uint64(i)
				n := 13 + r.intn(80)
				switch r.intn(6) {
				case 0:
					n = 13 + r.intn(3000)
				case 1:
					n = 13 + r.intn(65523)
				}
				useMsg := r.intn(3) == 0 && n >= 31
				mu.Lock()
				sent[seq] = item{n, useMsg}
				mu.Unlock()
				var err error
				if useMsg {
					m := new(dns.Msg)
					m.Id = uint16(seq)
					m.Response = true
					d := make([]byte, n-23)
					binary.BigEndian.PutUint64(d, seq)
					fillPattern(d[8:], c.Seed^seq)
					m.Answer = []dns.RR{&dns.NULL{Hdr: dns.RR_Header{Name: ".", Rrtype: dns.TypeNULL, Class: 1, Ttl: uint32(seq)}, Data: string(d)}}
					if guarded("WriteMsgToTCP", c, func() { _, err = dnsutils.WriteMsgToTCP(rec, m) }) {
						return
					}
				} else {
					b := make([]byte, n)
					binary.BigEndian.PutUint64(b, seq)
					fillPattern(b[8:], c.Seed^seq)
					if guarded("WriteRawMsgToTCP", c, func() { _, err = dnsutils.WriteRawMsgToTCP(rec, b) }) {
						return
					}
				}
				rep.Eval(1)
				if err != nil {
					rep.Violation("concurrent-writer-refused-valid-length", fmt.Sprintf("writer refused a %d byte message: %v", n, err), c)
				}
			}
		}(w)
	}
	close(start)
	wg.Wait()
	var d wire.Deframer
	frames := d.Feed(rec.buf)
	good := 0
	for i, f := range frames {
		bad := ""
		var seq uint64
		if len(f) >= 31 && f[2]&0x80 != 0 {
			// message form: header(12) root(1) type class ttl rdlen (10) data
			seq = binary.BigEndian.Uint64(f[23:])
		} else if len(f) >= 13 {
			seq = binary.BigEndian.Uint64(f)
		}
		it, ok := sent[seq]
		switch {
		case len(f) < 13:
			bad = "frame shorter than 13 bytes"
		case !ok:
			bad = "frame does not start with the tag of any message written"
		case it.n != len(f):
			bad = fmt.Sprintf("message %#x was %d bytes, frame is %d", seq, it.n, len(f))
		case it.msg:
			d := make([]byte, len(f)-23)
			binary.BigEndian.PutUint64(d, seq)
			fillPattern(d[8:], c.Seed^seq)
			if !bytes.Equal(f, wire.NewBuilder(uint16(seq), 0x8000).RR(0, []byte{0}, 10, 1, uint32(seq), d).Bytes()) {
				bad = "frame content differs from the message written"
			}
		default:
			if !bytes.Equal(f[8:], pattern(c.Seed^seq, len(f)-8)) {
				bad = "frame content differs from the message written"
			}
		}
		if bad != "" {
			rep.Violation("concurrent-writers-stream-misframed", fmt.Sprintf("%d goroutines framing onto one connection: frame %d of the serialised stream is not an intact message (%s); the stream took %d Write calls for %d messages", c.Writers, i, bad, rec.calls, len(sent)), map[string]any{"case": c, "frame_head": hexHead(f, 40)})
			return
		}
		delete(sent, seq)
		good++
	}
	if len(d.Rest()) != 0 || len(sent) != 0 {
		rep.Violation("concurrent-writers-stream-misframed", fmt.Sprintf("serialised stream ends inside a frame (%d bytes left) or misses %d messages", len(d.Rest()), len(sent)), c)
		return
	}
	rep.Count("concurrent_writer_frames_verified", int64(good))
	rep.Max("concurrent_writers_max", int64(c.Writers))
	rep.Nontrivial(fmt.Sprintf("cw|%d|%d|%x", c.Writers, c.Per, c.Seed))
}
