// C04 — a cached answer is only served to the same question.
//
// Runtime monitor: the real cache plugin (plugin/executable/cache) is driven
// through cache.Exec — directly with a sequence.ChainWalker and inside a
// sequence built from rule text ("cache N" followed by a harness terminal
// plugin). Unique-value collision detection: pass 1 lets the terminal answer
// query i with a TXT marker i (stored by the cache), pass 2 replays every query
// and records which marker each cache hit carries. A hit carrying marker j != i
// where query j and query i differ in name, type, class or AD/CD/DO (of the
// message the plugin was given, qCtx.Q()) is a collision witness (A_j, B_i).
// Each family runs on two fresh caches, once in insertion order and once in
// reverse insertion order, so both store-then-lookup orders are observed.
// Queries with QR=1, opcode != QUERY or != 1 question must reach the terminal
// without a response both times and their answers must never be served.
package main

import (
	"bytes"
	"context"
	"encoding/hex"
	"fmt"
	"net"
	"os"
	"runtime"
	"runtime/debug"
	"runtime/pprof"
	"sort"
	"strconv"
	"strings"
	"sync"
	"sync/atomic"

	"github.com/IrineSistiana/mosdns/v5/coremain"
	"github.com/IrineSistiana/mosdns/v5/pkg/query_context"
	"github.com/IrineSistiana/mosdns/v5/plugin/executable/cache"
	"github.com/IrineSistiana/mosdns/v5/plugin/executable/sequence"
	"github.com/miekg/dns"
	"go.uber.org/zap"

	"verifharness/lib/evid"
	"verifharness/lib/wire"
)

var (
	rep     *evid.Reporter
	caselog *evid.CaseLog
	agg     = newAggregator()
)

// ---------------------------------------------------------------- query spec

// question is an additional question of a multi-question (bypass) message.
type question struct {
	Name  []byte
	Type  uint16
	Class uint16
}

// qspec describes one query handed to the cache plugin.
//
// Identity (what the property quantifies over): Name (wire bytes), Type, Class,
// AD, CD and QDO — the DO bit of the OPT record of qCtx.Q() itself.
// Noise (must not matter, sharing allowed): Shape (other records placed around
// the OPT in Q()'s additional section), ID, RD, ClientOPT (the client's OPT
// record, which query_context replaces and does not forward).
// Bypass kinds: "qr" (QR=1), "opcode" (Opcode != 0), "qd0", "qd2", "qd3".
type qspec struct {
	Name      []byte
	Type      uint16
	Class     uint16
	AD, CD    bool
	QDO       bool
	RD        bool
	ID        uint16
	ClientOPT uint8 // 0 none, 1 OPT, 2 OPT with DO
	Shape     uint8 // layout of Q()'s additional section, see extraShapes
	Kind      string
	Opcode    uint8
	Extra     []question
}

type questionJSON struct {
	Name    string `json:"name"`
	NameHex string `json:"name_wire_hex"`
	Type    uint16 `json:"type"`
	Class   uint16 `json:"class"`
}

type specJSON struct {
	Name      string         `json:"name"`
	NameHex   string         `json:"name_wire_hex"`
	Type      uint16         `json:"type"`
	Class     uint16         `json:"class"`
	AD        bool           `json:"ad"`
	CD        bool           `json:"cd"`
	QDO       bool           `json:"do_on_Q_opt"`
	RD        bool           `json:"rd"`
	ID        uint16         `json:"id"`
	ClientOPT uint8          `json:"client_opt"`
	Shape     uint8          `json:"q_extra_shape"`
	ShapeText string         `json:"q_extra_layout"`
	Kind      string         `json:"bypass_kind,omitempty"`
	Opcode    uint8          `json:"opcode,omitempty"`
	Extra     []questionJSON `json:"extra_questions,omitempty"`
	WireHex   string         `json:"client_query_wire_hex"`
	MiekgName string         `json:"name_as_seen_by_plugin,omitempty"`
}

func (s *qspec) toJSON() specJSON {
	j := specJSON{
		Name: wire.NameString(s.Name), NameHex: hex.EncodeToString(s.Name),
		Type: s.Type, Class: s.Class, AD: s.AD, CD: s.CD, QDO: s.QDO,
		RD: s.RD, ID: s.ID, ClientOPT: s.ClientOPT, Kind: s.Kind, Opcode: s.Opcode,
		Shape: s.Shape, ShapeText: extraShapes[int(s.Shape)%len(extraShapes)].text,
		WireHex: hex.EncodeToString(s.wire()),
	}
	for _, e := range s.Extra {
		j.Extra = append(j.Extra, questionJSON{Name: wire.NameString(e.Name), NameHex: hex.EncodeToString(e.Name), Type: e.Type, Class: e.Class})
	}
	m := new(dns.Msg)
	if err := m.Unpack(s.wire()); err == nil && len(m.Question) > 0 {
		j.MiekgName = m.Question[0].Name
	}
	return j
}

func (j *specJSON) toSpec() (qspec, error) {
	n, err := hex.DecodeString(j.NameHex)
	if err != nil {
		return qspec{}, err
	}
	s := qspec{Name: n, Type: j.Type, Class: j.Class, AD: j.AD, CD: j.CD, QDO: j.QDO, RD: j.RD, ID: j.ID,
		ClientOPT: j.ClientOPT, Kind: j.Kind, Opcode: j.Opcode, Shape: j.Shape}
	for _, e := range j.Extra {
		en, err := hex.DecodeString(e.NameHex)
		if err != nil {
			return qspec{}, err
		}
		s.Extra = append(s.Extra, question{Name: en, Type: e.Type, Class: e.Class})
	}
	return s, nil
}

func (s *qspec) flags() int {
	f := 0
	if s.AD {
		f |= 1
	}
	if s.CD {
		f |= 2
	}
	if s.QDO {
		f |= 4
	}
	return f
}

// wire builds the client query with the independent builder.
func (s *qspec) wire() []byte {
	var fl uint16
	if s.Kind == "qr" {
		fl |= 0x8000
	}
	fl |= uint16(s.Opcode&0xF) << 11
	if s.RD {
		fl |= 0x0100
	}
	if s.AD {
		fl |= 0x0020
	}
	if s.CD {
		fl |= 0x0010
	}
	b := wire.NewBuilder(s.ID, fl)
	if s.Kind != "qd0" {
		b.Question(s.Name, s.Type, s.Class)
	}
	for _, e := range s.Extra {
		b.Question(e.Name, e.Type, e.Class)
	}
	if s.ClientOPT > 0 {
		b.OPT(1232, 0, 0, s.ClientOPT == 2, 0, nil)
	}
	return b.Bytes()
}

// sameQuestion reports whether two specs ask the same question in the sense of
// the property (both must be ordinary queries).
func sameQuestion(a, b *qspec) bool {
	return a.Type == b.Type && a.Class == b.Class && a.AD == b.AD && a.CD == b.CD && a.QDO == b.QDO &&
		bytes.Equal(asciiLower(a.Name), asciiLower(b.Name)) // spellings of one name (RFC 4343) ask the same question
}

func (s *qspec) fingerprint(buf []byte, order int) []byte {
	buf = append(buf[:0], s.Name...)
	buf = append(buf, byte(s.Type>>8), byte(s.Type), byte(s.Class>>8), byte(s.Class), byte(s.flags()), byte(order))
	return buf
}

// ------------------------------------------------------------------ families

type family struct {
	Name  string
	Via   string // "direct" (cache.Exec with a ChainWalker) or "sequence" (rule text)
	Lazy  bool   // lazy_cache_ttl set (direct only)
	Seed  int64
	Gen   func(g *gen) []qspec
	Specs []qspec // replay: explicit list; otherwise generated on first use

	Idx          int    // position in the family list: selects the dump/load mode of the reload script
	ReloadMode   string // replay: mode of the reload script ("" = none)
	ReloadStored []int  // replay: indices stored before the dump

	Weight  int // rough size, for scheduling only
	once    sync.Once
	pending atomic.Int32
	sample  any
}

// ------------------------------------------------------------------- terminal

const markerPrefix = "c04-marker:"

// terminal is the harness plugin at the end of the chain. It runs on cache hits
// too; a hit is recognised by a response being already set.
type terminal struct {
	pass       int
	cur        int
	reached    int
	nilAtReach bool
}

func (t *terminal) Exec(_ context.Context, qCtx *query_context.Context) error {
	t.reached++
	if qCtx.R() != nil {
		return nil // answered before us (cache hit): leave it, like "matches: has_resp / accept"
	}
	t.nilAtReach = true
	if t.pass == 1 {
		qCtx.SetResponse(makeMarker(qCtx.Q(), t.cur))
	}
	return nil
}

func makeMarker(q *dns.Msg, i int) *dns.Msg {
	r := new(dns.Msg)
	r.Id = q.Id
	r.Response = true
	r.RecursionAvailable = true
	r.RecursionDesired = q.RecursionDesired
	if len(q.Question) > 0 {
		r.Question = append([]dns.Question(nil), q.Question...)
	}
	r.Answer = []dns.RR{&dns.TXT{
		Hdr: dns.RR_Header{Name: "marker.c04.", Rrtype: dns.TypeTXT, Class: dns.ClassINET, Ttl: 86400},
		Txt: []string{markerPrefix + strconv.Itoa(i)},
	}}
	return r
}

// markerOf returns the marker index carried by r, -1 if r is nil, -2 if r
// carries no parsable marker.
func markerOf(r *dns.Msg) int {
	if r == nil {
		return -1
	}
	for _, rr := range r.Answer {
		if t, ok := rr.(*dns.TXT); ok && len(t.Txt) == 1 && strings.HasPrefix(t.Txt[0], markerPrefix) {
			n, err := strconv.Atoi(t.Txt[0][len(markerPrefix):])
			if err == nil {
				return n
			}
		}
	}
	return -2
}

// ------------------------------------------------------------------ execution

type obs struct {
	reached    int
	nilAtReach bool
	marker     int
	err        error
	panicked   string
	stack      string
}

type runner struct {
	fam     *family
	specs   []qspec
	order   int // 0 insertion order, 1 reverse
	term    *terminal
	exec    func(ctx context.Context, qCtx *query_context.Context) error
	closeFn func()
	cov     *cover
}

func newRunner(fam *family, specs []qspec, order int) (*runner, error) {
	r := &runner{fam: fam, specs: specs, order: order, term: &terminal{}, cov: new(cover)}
	size := 4 * len(specs)
	if size < 1024 {
		size = 1024
	}
	switch fam.Via {
	case "sequence":
		m := coremain.NewTestMosdnsWithPlugins(map[string]any{"c04_terminal": r.term})
		seq, err := sequence.NewSequence(sequence.NewBQ(m, zap.NewNop()), []sequence.RuleArgs{
			{Exec: fmt.Sprintf("cache %d", size)},
			{Exec: "$c04_terminal"},
		})
		if err != nil {
			return nil, err
		}
		r.exec = seq.Exec
		r.closeFn = func() { _ = seq.Close() }
	default:
		args := &cache.Args{Size: size}
		if fam.Lazy {
			args.LazyCacheTTL = 86400
		}
		c := cache.NewCache(args, cache.Opts{})
		walker := sequence.NewChainWalker([]*sequence.ChainNode{{E: r.term}}, nil)
		r.exec = func(ctx context.Context, qCtx *query_context.Context) error { return c.Exec(ctx, qCtx, walker) }
		r.closeFn = func() { _ = c.Close() }
	}
	return r, nil
}

// build turns a spec into the query context the server would create for the
// client query, then applies the Q()-level DO bit.
func build(s *qspec) (*query_context.Context, error) {
	m := new(dns.Msg)
	if err := m.Unpack(s.wire()); err != nil {
		return nil, err
	}
	qCtx := query_context.NewContext(m)
	if s.QDO {
		qCtx.QOpt().SetDo()
	}
	if sh := extraShapes[int(s.Shape)%len(extraShapes)]; len(sh.before)+len(sh.after) > 0 {
		// other additional records around the OPT, put there the way a plugin in
		// front of the cache could (the server admits at most one from clients)
		q := qCtx.Q()
		oi := -1
		for i, rr := range q.Extra {
			if _, ok := rr.(*dns.OPT); ok {
				oi = i
			}
		}
		if oi < 0 {
			return nil, fmt.Errorf("Q() has no OPT")
		}
		ex := make([]dns.RR, 0, len(q.Extra)+len(sh.before)+len(sh.after))
		ex = append(ex, q.Extra[:oi]...)
		for _, k := range sh.before {
			ex = append(ex, extraRR(k))
		}
		ex = append(ex, q.Extra[oi])
		for _, k := range sh.after {
			ex = append(ex, extraRR(k))
		}
		ex = append(ex, q.Extra[oi+1:]...)
		q.Extra = ex
	}
	return qCtx, nil
}

// extraShapes are the layouts of Q()'s additional section: which records
// stand before and after the OPT (a = A, t = TXT, s = TSIG).
var extraShapes = []struct {
	text          string
	before, after string
}{
	{"[OPT]", "", ""},
	{"[OPT A]", "", "a"},
	{"[OPT TSIG]", "", "s"},
	{"[TXT OPT]", "t", ""},
	{"[A OPT TXT]", "a", "t"},
	{"[A TXT OPT A TSIG]", "at", "as"},
}

func extraRR(kind rune) dns.RR {
	switch kind {
	case 'a':
		return &dns.A{Hdr: dns.RR_Header{Name: "extra.c04.", Rrtype: dns.TypeA, Class: dns.ClassINET, Ttl: 60}, A: net.IPv4(192, 0, 2, 53)}
	case 't':
		return &dns.TXT{Hdr: dns.RR_Header{Name: "extra.c04.", Rrtype: dns.TypeTXT, Class: dns.ClassINET, Ttl: 60}, Txt: []string{"appended by a plugin"}}
	default:
		return &dns.TSIG{Hdr: dns.RR_Header{Name: "key.c04.", Rrtype: dns.TypeTSIG, Class: dns.ClassANY, Ttl: 0},
			Algorithm: dns.HmacSHA256, TimeSigned: 1700000000, Fudge: 300, MACSize: 4, MAC: "deadbeef", OrigId: 1}
	}
}

func (r *runner) one(ctx context.Context, qCtx *query_context.Context, i, pass int) (o obs) {
	t := r.term
	t.pass, t.cur, t.reached, t.nilAtReach = pass, i, 0, false
	defer func() {
		if p := recover(); p != nil {
			o.panicked = fmt.Sprint(p)
			o.stack = string(debug.Stack())
		}
	}()
	o.marker = -1
	o.err = r.exec(ctx, qCtx)
	o.reached, o.nilAtReach = t.reached, t.nilAtReach
	o.marker = markerOf(qCtx.R())
	return o
}

// checkRoundTrip makes sure the message given to the plugin is the question the
// oracle believes it is (trusted base: miekg Unpack/Pack of the client query).
func checkRoundTrip(s *qspec, qCtx *query_context.Context) string {
	b, err := qCtx.Q().Pack()
	if err != nil {
		return "pack: " + err.Error()
	}
	m, err := wire.Parse(b)
	if err != nil {
		return "parse: " + err.Error()
	}
	wantQD := 1 + len(s.Extra)
	if s.Kind == "qd0" {
		wantQD = len(s.Extra)
	}
	if len(m.Questions) != wantQD {
		return fmt.Sprintf("qdcount %d want %d", len(m.Questions), wantQD)
	}
	if s.Kind != "qd0" {
		q := m.Questions[0]
		if string(q.RawName) != string(s.Name) || q.Type != s.Type || q.Class != s.Class {
			return fmt.Sprintf("question %x/%d/%d want %x/%d/%d", q.RawName, q.Type, q.Class, s.Name, s.Type, s.Class)
		}
	}
	if m.AD() != s.AD || m.CD() != s.CD || m.QR() != (s.Kind == "qr") || m.Opcode() != int(s.Opcode) {
		return fmt.Sprintf("header flags %04x", m.Flags)
	}
	opts := m.OPTs()
	if len(opts) != 1 || opts[0].DO != s.QDO {
		return fmt.Sprintf("opt records %d / DO mismatch", len(opts))
	}
	sh := extraShapes[int(s.Shape)%len(extraShapes)]
	if m.CountNonOPT() != len(sh.before)+len(sh.after) {
		return fmt.Sprintf("%d non-OPT additional records, want layout %s", m.CountNonOPT(), sh.text)
	}
	for i, rr := range m.Extra { // the OPT stands where the layout says
		if rr.Type == 41 && i != len(sh.before) {
			return fmt.Sprintf("OPT at additional index %d, want layout %s", i, sh.text)
		}
	}
	return ""
}

type jobStats struct {
	execs, stores, earlyHits, hitsOwn, hitsForeign, misses2, shared int64
	bypassOK, notReached, roundtrip                                 int64
	normal                                                          int64
	missBy                                                          map[uint32]int64 // pass-2 misses by type<<16|class
}

func (r *runner) run() jobStats {
	defer r.closeFn()
	var st jobStats
	ctx := context.Background()
	n := len(r.specs)
	fp := make([]byte, 0, 300)
	for pass := 1; pass <= 2; pass++ {
		for k := 0; k < n; k++ {
			i := k
			if r.order == 1 {
				i = n - 1 - k
			}
			s := &r.specs[i]
			qCtx, err := build(s)
			if err != nil {
				rep.Inconclusive("family %s: cannot build query %d (%x): %v", r.fam.Name, i, s.wire(), err)
				continue
			}
			if pass == 1 && r.order == 0 {
				if why := checkRoundTrip(s, qCtx); why != "" {
					rep.Inconclusive("family %s: trusted base broken, Q() is not the intended question for query %d (%x): %s", r.fam.Name, i, s.wire(), why)
					continue
				}
				st.roundtrip++
			}
			o := r.one(ctx, qCtx, i, pass)
			st.execs++
			if o.panicked != "" {
				agg.direct("panic-"+keyKind(s), fmt.Sprintf("cache.Exec panicked on a message (%s): %s", kindText(s), o.panicked),
					r.caseFor([]int{i}), map[string]any{"panic": o.panicked, "stack": o.stack})
				continue
			}
			if o.err != nil {
				rep.Inconclusive("family %s: Exec returned an error the terminal never produces: %v", r.fam.Name, o.err)
				continue
			}
			fromCache := !(o.reached > 0 && o.nilAtReach)
			if o.marker == -2 {
				rep.Inconclusive("family %s: response without a marker for query %d", r.fam.Name, i)
				continue
			}
			if s.Kind != "" { // bypass rule
				switch {
				case o.reached == 0:
					agg.direct("bypass-"+keyKind(s)+"-not-forwarded",
						fmt.Sprintf("a %s message did not reach the next plugin (pass %d)", kindText(s), pass), r.caseFor([]int{i}), nil)
				case fromCache:
					idx := []int{i}
					if o.marker >= 0 && o.marker < n && o.marker != i {
						idx = []int{o.marker, i}
					}
					agg.direct("bypass-"+keyKind(s)+"-served-from-cache",
						fmt.Sprintf("a %s message was answered from the cache (marker %d, pass %d) instead of bypassing it", kindText(s), o.marker, pass), r.caseFor(idx), nil)
				default:
					st.bypassOK++
					rep.Nontrivial("bypass/" + s.Kind + "/" + string(s.fingerprint(fp, r.order)) + strconv.Itoa(pass) + strconv.Itoa(int(s.Opcode)) + strconv.Itoa(len(s.Extra)))
				}
				continue
			}
			st.normal++
			if o.reached == 0 {
				st.notReached++
			}
			if !fromCache {
				if pass == 1 {
					st.stores++
				} else {
					st.misses2++
					noteCached(s, false)
					if st.missBy == nil {
						st.missBy = map[uint32]int64{}
					}
					st.missBy[uint32(s.Type)<<16|uint32(s.Class)]++
				}
				continue
			}
			// answered from cache
			if pass == 1 {
				st.earlyHits++
			} else {
				noteCached(s, true)
			}
			m := o.marker
			if m < 0 || m >= n {
				rep.Inconclusive("family %s: query %d answered from cache with unknown marker %d", r.fam.Name, i, m)
				continue
			}
			if m == i {
				st.hitsOwn++
				r.cov.sawHit(s)
				rep.Nontrivial(string(s.fingerprint(fp, r.order)))
				continue
			}
			st.hitsForeign++
			a := &r.specs[m]
			switch {
			case a.Kind != "":
				agg.direct("bypass-"+keyKind(a)+"-answer-cached",
					fmt.Sprintf("the answer given to a %s message was stored and later served to an ordinary query", kindText(a)), r.caseFor([]int{m, i}), nil)
			case sameQuestion(a, s):
				st.shared++ // same question (differs only in ID / RD / client OPT): sharing allowed
				r.cov.sawHit(s)
				rep.Nontrivial(string(s.fingerprint(fp, r.order)))
			default:
				agg.collision(r, m, i, pass)
			}
		}
	}
	st.normal /= 2
	agg.merge(r.cov)
	return st
}

// keyKind is the bypass class used in finding keys.
func keyKind(s *qspec) string {
	switch s.Kind {
	case "qd0", "qd2", "qd3":
		return "qdcount"
	case "":
		return "query"
	}
	return s.Kind
}

func kindText(s *qspec) string {
	switch s.Kind {
	case "qr":
		return "QR=1"
	case "opcode":
		return fmt.Sprintf("opcode=%d", s.Opcode)
	case "qd0":
		return "zero-question"
	case "qd2":
		return "two-question"
	case "qd3":
		return "three-question"
	}
	return "ordinary query"
}

// replayCase is what a replay file carries: the queries (in insertion order)
// and how the cache was driven.
type replayCase struct {
	Key     string      `json:"key,omitempty"`
	Family  string      `json:"family"`
	Via     string      `json:"via"`
	Lazy    bool        `json:"lazy_cache"`
	Order   string      `json:"order_observed"`
	Queries []specJSON  `json:"queries"`
	Note    string      `json:"note,omitempty"`
	Detail  any         `json:"detail,omitempty"`
	Chain   *chainCase  `json:"chain,omitempty"`  // chain phase witness (chains.go)
	Multi   *mcCase     `json:"multi,omitempty"`  // multi-cache phase witness (multicache.go)
	Reload  *reloadInfo `json:"reload,omitempty"` // reload phase witness (reload.go)
}

func (r *runner) caseFor(idx []int) replayCase {
	c := replayCase{Family: r.fam.Name, Via: r.fam.Via, Lazy: r.fam.Lazy, Order: []string{"insertion", "reverse"}[r.order],
		Note: "replay runs these queries on fresh caches in both orders: pass 1 stores a unique marker per query, pass 2 replays them"}
	for _, i := range idx {
		c.Queries = append(c.Queries, r.specs[i].toJSON())
	}
	return c
}

// ---- which questions this tree caches at all ---------------------------------
//
// The statement is about entries that are shared; a tree may legitimately decide
// not to cache some kinds of question at all (meta types, class 0, ...). A miss
// is therefore only suspicious - "collisions could hide behind it" - when
// questions of its type and of its class are answered from the cache elsewhere
// in the run. asked/hit are counted per type and per class over the whole run;
// the vacuity guards are evaluated when all jobs are done.
var (
	typeAsked, typeHit   [65536]atomic.Int32
	classAsked, classHit [65536]atomic.Int32
)

func noteCached(s *qspec, hit bool) {
	typeAsked[s.Type].Add(1)
	classAsked[s.Class].Add(1)
	if hit {
		typeHit[s.Type].Add(1)
		classHit[s.Class].Add(1)
	}
}

// neverCached: no question of this type (or of this class) was answered from a
// cache anywhere in the run although at least four were asked again.
func neverCached(tc uint32) bool {
	t, c := tc>>16, tc&0xffff
	return (typeAsked[t].Load() >= 4 && typeHit[t].Load() == 0) || (classAsked[c].Load() >= 4 && classHit[c].Load() == 0)
}

// pendingGuard is one deferred vacuity guard: expected answers from a cache, and
// the misses among them by (type, class).
type pendingGuard struct {
	label  string
	tail   string
	normal int64
	misses map[uint32]int64
}

var (
	guardMu sync.Mutex
	guards  []pendingGuard
)

func deferGuard(label, tail string, normal int64, misses map[uint32]int64) {
	if len(misses) == 0 {
		return
	}
	guardMu.Lock()
	guards = append(guards, pendingGuard{label, tail, normal, misses})
	guardMu.Unlock()
}

// judgeGuards runs when every job is done. It returns the smallest hit ratio
// (permille) among the questions this tree caches.
func judgeGuards() (minRatio int64, uncachedQueries int64, uncachedCells int) {
	minRatio = 1000
	cells := map[uint32]bool{}
	for _, g := range guards {
		var unexplained, explained int64
		for tc, n := range g.misses {
			if neverCached(tc) {
				explained += n
				cells[tc] = true
			} else {
				unexplained += n
			}
		}
		uncachedQueries += explained
		den := g.normal - explained
		if den <= 0 {
			continue
		}
		ratio := (den - unexplained) * 1000 / den
		if ratio < minRatio {
			minRatio = ratio
		}
		if ratio < 990 {
			rep.Inconclusive("%s: only %d of %d ordinary queries of kinds this tree caches were answered from the cache (< 99%%)%s", g.label, den-unexplained, den, g.tail)
		}
	}
	return minRatio, uncachedQueries, len(cells)
}

// ----------------------------------------------------------------------- main

func main() {
	rep = evid.New("C04", "exploration")
	caselog = evid.OpenCaseLog()
	debug.SetGCPercent(400)                        // the live heap is the caches under test; plenty of memory, few cores to spare
	if p := os.Getenv("C04_CPUPROFILE"); p != "" { // development aid
		if f, err := os.Create(p); err == nil {
			_ = pprof.StartCPUProfile(f)
			defer pprof.StopCPUProfile()
		}
	}
	rep.SetRule("families of queries (all 65536 types; all 65536 classes; type x class x AD/CD/DO grids; single- and double-bit neighbours of random (type,class,flags) triples; random triples; names: every wire length 1..255, every single-byte and two-byte label, one-byte substitutions, case variants, label-boundary / escaped-dot variants, escape-alphabet enumeration, extra leading/trailing labels, name x type x class grids; AD/CD/DO x layouts of Q()'s additional section (other records before/after the OPT); bypass messages; every query of every family also gets a random such layout) are run through the real cache plugin on fresh caches sized 4x the family, once in insertion order and once in reverse: pass 1 stores a unique marker per query, pass 2 replays all queries. One case = (question, order); non-trivial = the query was answered from the cache in pass 2 and the marker it carried was compared with its own (bypass cases: the message reached the terminal with no response set); distinct = distinct (name, type, class, AD, CD, DO, order). Chain phase (chains.go): the real cache inside sequences built from rule text with name-rewriting wrappers in front of it and/or behind it (the real redirect plugin: alias->target, alias->intermediate->target across the cache; an in-place lower-casing wrapper), `matches: has_resp / exec: accept` behind the cache, a stub upstream that answers with a marker naming the question IT was asked, a post-processing plugin that can fail after the response was set (also inside a background refresh), and in some layouts a hosts-like plugin in front of everything that already set a response for the client's own question; seeded scripts of client queries (aliases, intermediates, targets, unrelated names, case variants, name lengths over all key-buffer size classes, 6 types, IN/CH, AD/CD/DO, injected failures after / without a response) and lazy_cache_ttl scripts (entries go stale, their background refreshes are parked at the upstream while same-key-length and other queries pass, then finish; half of them on a single P); one case = one client query; every served response is judged: question section == client question and marker issued by the upstream for the question the rewriters lead to (or by the plugin in front for the client's name / the name the cache sees), with the client's type, class, AD/CD/DO; non-trivial = served from the cache, distinct = (layout, lazy, asker role, who stored the entry incl. failed chains / background refresh, fresh|stale, flags, type, class, key length). Reload phase (reload.go): every family x order is run once more across a dump -> load round trip: a fresh cache stores a seeded half S of the family (stored responses carry AD/CD/AA bits and no OPT | OPT | OPT+DO unrelated to the query's, derived from the query ID), is dumped (dump_file at Close | GET /dump) and the dump is loaded into another cache (dump_file at start | POST /load_dump into an empty cache | into a cache already holding the answers of the queries not in S | two generations of dump_file | a real mosdns instance built from a config map with cache+sequence plugins, shut down and started again | that instance's /plugins/<tag>/dump and /load_dump), 6 modes spread over the families; then ALL queries of the family are asked on the loaded cache: a query answered from it must carry its own marker or that of a query with the same name, type, class and AD/CD/DO; bypass messages must still bypass; one case = (question, order), non-trivial = answered from a loaded cache and the marker compared, distinct = 'reload/' + (name, type, class, AD, CD, DO, order). Families added with it (names2.go): names of every presentation-format length class (the plugin sees names as miekg text: 1..1004 characters for <= 255 wire bytes; targets around 256, 512, 768, the maximum, random others; three label layouts; mixes of plain, 2-character and 4-character escapes) x all 8 flag combinations x 2 (type, class) cells, and long names differing in one byte anywhere / in their last label x 2 flag combinations." + multiRule)
	rep.Assume("reload phase: a stored answer that is not found after the round trip is not a violation (the statement does not promise complete dumps); a job losing more than 1% of them is reported inconclusive because collisions could hide behind the misses")
	rep.Assume("'query' = the message the cache plugin is given, qCtx.Q(): query_context does not forward the client's OPT/DO, so DO is varied on Q()'s own OPT; queries differing only in ID, RD, the client's OPT or the other records a plugin placed around Q()'s OPT may share an entry")
	rep.Assume("names are compared byte-exactly on the wire (case variants and escaped-dot variants are different questions: the cached response carries the stored question section)")
	rep.Assume("chain phase: a response is \"served\" when the sequence returns no error and a response is set (on an error the server answers SERVFAIL itself); the model of the rewriters (redirect: case-insensitive full match, class IN only; wrapper: lower-casing) decides which question the upstream has to be asked; nothing is demanded about CNAME records, TTLs or whether a failed chain's response is stored")
	rep.Assume("client queries are built with the independent wire builder, unpacked by miekg/dns as the server does, and Q() is packed again and compared with the intended question by the independent parser before use")

	var fams []*family
	replayKey := ""
	if rep.ReplayFile != "" {
		var c replayCase
		if err := rep.LoadReplay(&c); err != nil {
			fmt.Println("cannot load replay:", err)
			os.Exit(3)
		}
		if c.Chain != nil {
			replayChain(c.Chain, c.Key)
			rep.Finish()
		}
		if c.Multi != nil {
			replayMulti(c.Multi, c.Key)
			rep.Finish()
		}
		f := &family{Name: c.Family, Via: c.Via, Lazy: c.Lazy}
		for _, j := range c.Queries {
			s, err := j.toSpec()
			if err != nil {
				fmt.Println("bad replay file:", err)
				os.Exit(3)
			}
			f.Specs = append(f.Specs, s)
		}
		if c.Reload != nil {
			f.ReloadMode, f.ReloadStored = c.Reload.Mode, c.Reload.Stored
		}
		fams = []*family{f}
		replayKey = c.Key
	} else {
		fams = buildFamilies(rep.Thorough(), rep.Seed)
		runChains(rep.Thorough(), rep.Seed) // the cache inside realistic sequences (chains.go)
		runMulti(rep.Thorough(), rep.Seed)  // several caches on one path with rewriting / forking plugins between them (multicache.go)
	}

	type task struct {
		fam   *family
		order int
	}
	var mu sync.Mutex
	var total jobStats
	var totalReload reloadStats
	var jobs atomic.Int64
	famSizes := map[string]int{}
	runTask := func(t task) {
		t.fam.once.Do(func() {
			if t.fam.Specs == nil {
				t.fam.Specs = t.fam.Gen(newGen(t.fam.Seed))
			}
			if n := len(t.fam.Specs); n > 0 {
				t.fam.sample = map[string]any{"family": t.fam.Name, "via": t.fam.Via, "lazy_cache": t.fam.Lazy, "queries": n, "example_query": t.fam.Specs[n/3].toJSON()}
			}
			t.fam.pending.Store(2)
		})
		specs := t.fam.Specs
		caselog.Log(map[string]any{"family": t.fam.Name, "via": t.fam.Via, "seed": t.fam.Seed, "queries": len(specs), "order": t.order})
		defer func() {
			if t.fam.pending.Add(-1) == 0 {
				t.fam.Specs = nil // both orders done: release the list
			}
		}()
		r, err := newRunner(t.fam, specs, t.order)
		if err != nil {
			rep.Inconclusive("family %s: cannot build the cache under test: %v", t.fam.Name, err)
			return
		}
		st := r.run()
		// the same family and order once more, across a dump -> load round trip (reload.go)
		var rs reloadStats
		switch {
		case rep.ReplayFile == "":
			rs = r.runReload(reloadModeFor(t.fam.Idx, t.order), storedSubset(t.fam.Seed, t.order, len(specs)))
		case t.fam.ReloadMode != "":
			stored := make([]bool, len(specs))
			for _, i := range t.fam.ReloadStored {
				if i >= 0 && i < len(stored) {
					stored[i] = true
				}
			}
			rs = r.runReload(t.fam.ReloadMode, stored)
		}
		jobs.Add(1)
		mu.Lock()
		defer mu.Unlock()
		totalReload.add(rs)
		total.execs += st.execs
		total.stores += st.stores
		total.earlyHits += st.earlyHits
		total.hitsOwn += st.hitsOwn
		total.hitsForeign += st.hitsForeign
		total.misses2 += st.misses2
		total.shared += st.shared
		total.bypassOK += st.bypassOK
		total.notReached += st.notReached
		total.roundtrip += st.roundtrip
		total.normal += st.normal
		famSizes[t.fam.Name] = len(specs)
		if st.normal > 0 {
			// st.normal counts both passes; pass 2 asked half of them
			deferGuard(fmt.Sprintf("family %s (%s order), pass 2", t.fam.Name, []string{"insertion", "reverse"}[t.order]), ": collisions could hide behind misses", st.normal/2, st.missBy)
		}
	}
	// the first family (a handful of textbook questions) runs alone so that its
	// witnesses are the ones written out; the rest run in parallel, big ones first
	rest := fams
	if rep.ReplayFile == "" && len(fams) > 0 {
		runTask(task{fams[0], 0})
		runTask(task{fams[0], 1})
		rest = append([]*family(nil), fams[1:]...)
		sort.SliceStable(rest, func(i, j int) bool { return rest[i].Weight > rest[j].Weight })
	}
	tasks := make(chan task)
	var wg sync.WaitGroup
	workers := runtime.GOMAXPROCS(0)
	if workers > 16 {
		workers = 16
	}
	for w := 0; w < workers; w++ {
		wg.Add(1)
		go func() {
			defer wg.Done()
			for t := range tasks {
				runTask(t)
			}
		}()
	}
	for _, f := range rest {
		tasks <- task{f, 0}
		tasks <- task{f, 1}
	}
	close(tasks)
	wg.Wait()
	for i := 0; i < 8 && len(fams) > 0; i++ {
		if f := fams[i*len(fams)/8]; f.sample != nil {
			rep.Sample(f.sample)
		}
	}

	rep.Eval(int(total.execs / 2)) // one case = one message x order: stored (pass 1) and replayed (pass 2)
	rep.Count("families", int64(len(fams)))
	rep.Count("jobs_family_x_order", jobs.Load())
	rep.Count("exec_calls", total.execs)
	rep.Count("pass1_stored_fresh", total.stores)
	rep.Count("pass1_answered_from_cache", total.earlyHits)
	rep.Count("hits_with_own_marker", total.hitsOwn)
	rep.Count("hits_with_foreign_marker", total.hitsForeign)
	rep.Count("hits_shared_by_same_question", total.shared)
	rep.Count("pass2_misses", total.misses2)
	rep.Count("bypass_messages_forwarded_without_response", total.bypassOK)
	rep.Count("ordinary_queries_where_terminal_was_not_reached", total.notReached)
	rep.Count("Q_roundtrip_checked", total.roundtrip)
	minRatio, uncachedQ, uncachedCells := judgeGuards()
	rep.Count("min_hit_permille_among_cached_kinds", minRatio)
	rep.Count("queries_of_a_type_or_class_this_tree_never_caches", uncachedQ)
	rep.Count("type_class_cells_this_tree_never_caches", int64(uncachedCells))
	if total.normal > 0 && (total.hitsOwn+total.shared)*4 < total.normal/2*3 {
		rep.Inconclusive("only %d of %d replayed ordinary queries were answered from a cache (< 75%%): this tree caches too little of the space for the check to mean anything", total.hitsOwn+total.shared, total.normal/2)
	}
	names := make([]string, 0, len(famSizes))
	for k := range famSizes {
		names = append(names, k)
	}
	sort.Strings(names)
	fl := map[string]int{}
	for _, k := range names {
		fl[k] = famSizes[k]
	}
	if len(fl) <= 120 {
		rep.Extra("family_sizes", fl)
	}
	agg.coverage()
	if total.hitsOwn+total.shared == 0 && rep.ReplayFile == "" {
		rep.Inconclusive("no query was ever answered from the cache: the monitor observed nothing")
	}
	reloadEvidence(&totalReload, rep.ReplayFile != "")
	agg.finish(replayKey)
	aggReload.finish(replayKey)
	pprof.StopCPUProfile()
	rep.Finish()
}
