package main

import (
	"fmt"
	"math/rand"

	"verifharness/lib/wire"
)

// gen is the seeded generator of one family (every family has its own PRNG so
// that families can be generated and run in parallel deterministically).
type gen struct{ rng *rand.Rand }

func newGen(seed int64) *gen { return &gen{rng: rand.New(rand.NewSource(seed))} }

// q makes an ordinary query; ID, RD and the client's OPT record are noise.
func (g *gen) q(name []byte, t, c uint16, f int) qspec {
	r := g.rng.Uint32()
	sh := uint8(0) // half of the queries: OPT alone; the rest: another layout of Q()'s additional section
	if r>>3&1 != 0 {
		sh = uint8(1 + (r>>4)%uint32(len(extraShapes)-1))
	}
	return qspec{Name: name, Type: t, Class: c, AD: f&1 != 0, CD: f&2 != 0, QDO: f&4 != 0,
		RD: r&1 != 0, ID: uint16(r >> 16), ClientOPT: uint8((r >> 1) % 3), Shape: sh}
}

type cell struct {
	t, c uint16
	f    int
}

func (c cell) String() string { return fmt.Sprintf("type=%d,class=%d,flags=%d", c.t, c.c, c.f) }

func nm(labels ...string) []byte {
	var l [][]byte
	for _, s := range labels {
		l = append(l, []byte(s))
	}
	return wire.EncodeLabels(l)
}

func validLabels(labels [][]byte) bool {
	n := 1
	for _, l := range labels {
		if len(l) < 1 || len(l) > 63 {
			return false
		}
		n += 1 + len(l)
	}
	return n <= 255
}

func (g *gen) randLabel(n int, alphabet string) []byte {
	b := make([]byte, n)
	for i := range b {
		if alphabet == "" {
			b[i] = byte(g.rng.Intn(256))
		} else {
			b[i] = alphabet[g.rng.Intn(len(alphabet))]
		}
	}
	return b
}

const lower = "abcdefghijklmnopqrstuvwxyz"

// baseName is a seed-dependent ordinary name.
func (g *gen) baseName() []byte {
	n := 1 + g.rng.Intn(3)
	var l [][]byte
	for i := 0; i < n; i++ {
		l = append(l, g.randLabel(1+g.rng.Intn(10), lower))
	}
	l = append(l, []byte("test"))
	return wire.EncodeLabels(l)
}

var someClasses = []uint16{1, 3, 4, 255}

func (g *gen) randClass() uint16 {
	switch g.rng.Intn(4) {
	case 0:
		return uint16(g.rng.Intn(65536))
	case 1:
		return uint16(g.rng.Intn(300))
	default:
		return []uint16{1, 3, 4, 254, 255, 0}[g.rng.Intn(6)]
	}
}

func (g *gen) randType() uint16 {
	switch g.rng.Intn(3) {
	case 0:
		return uint16(g.rng.Intn(65536))
	case 1:
		return uint16(g.rng.Intn(300))
	default:
		return []uint16{1, 2, 5, 6, 12, 15, 16, 28, 33, 43, 46, 48, 64, 65, 255, 256, 257, 65535}[g.rng.Intn(18)]
	}
}

// structured4096 returns 4096 distinct 16-bit values: small values, every
// high-byte value with low byte 0 and 1, k*257, bit patterns and random fill.
func (g *gen) structured4096() []uint16 {
	seen := map[uint16]bool{}
	var out []uint16
	add := func(v uint16) {
		if !seen[v] && len(out) < 4096 {
			seen[v] = true
			out = append(out, v)
		}
	}
	for i := 0; i < 512; i++ {
		add(uint16(i))
	}
	for k := 0; k < 256; k++ {
		add(uint16(k << 8))
		add(uint16(k<<8 | 1))
		add(uint16(k * 257))
		add(uint16(k<<8 | 0xff))
	}
	for b := 0; b < 16; b++ {
		add(1 << b)
		add(1<<b - 1)
		add(1<<b + 1)
		add(^uint16(1 << b))
	}
	for len(out) < 4096 {
		add(uint16(g.rng.Intn(65536)))
	}
	return out
}

// ------------------------------------------------------------ type/class/flag

func genTypesAll(name func(*gen) []byte, c uint16, f int) func(*gen) []qspec {
	return func(g *gen) []qspec {
		n := name(g)
		out := make([]qspec, 0, 65536)
		for t := 0; t < 65536; t++ {
			out = append(out, g.q(n, uint16(t), c, f))
		}
		return out
	}
}

func genClassesAll(t uint16, f int) func(*gen) []qspec {
	return func(g *gen) []qspec {
		n := g.baseName()
		out := make([]qspec, 0, 65536)
		for c := 0; c < 65536; c++ {
			out = append(out, g.q(n, t, uint16(c), f))
		}
		return out
	}
}

// 8 flag combinations x 4 classes x 4096 types
func genGridTypes(g *gen) []qspec {
	n := g.baseName()
	ts := g.structured4096()
	out := make([]qspec, 0, 131072)
	for _, t := range ts {
		for _, c := range someClasses {
			for f := 0; f < 8; f++ {
				out = append(out, g.q(n, t, c, f))
			}
		}
	}
	return out
}

// 8 flag combinations x 4 types x 4096 classes
func genGridClasses(g *gen) []qspec {
	n := g.baseName()
	cs := g.structured4096()
	out := make([]qspec, 0, 131072)
	for _, c := range cs {
		for _, t := range []uint16{1, 28, 257, 255} {
			for f := 0; f < 8; f++ {
				out = append(out, g.q(n, t, c, f))
			}
		}
	}
	return out
}

func fromVec(v uint64) (t, c uint16, f int) {
	return uint16(v), uint16(v >> 16), int(v>>32) & 7
}

// random (type,class,flags) triples with all 35 single-bit neighbours
func genBitflip1(g *gen) []qspec {
	n := g.baseName()
	var out []qspec
	for b := 0; b < 3000; b++ {
		tt, cc, ff := g.randType(), g.randClass(), g.rng.Intn(8)
		v := uint64(tt) | uint64(cc)<<16 | uint64(ff)<<32
		out = append(out, g.q(n, tt, cc, ff))
		for bit := 0; bit < 35; bit++ {
			t, c, f := fromVec(v ^ 1<<bit)
			out = append(out, g.q(n, t, c, f))
		}
	}
	return out
}

// random triples with all 595 double-bit neighbours
func genBitflip2(g *gen) []qspec {
	n := g.baseName()
	var out []qspec
	for b := 0; b < 200; b++ {
		tt, cc, ff := g.randType(), g.randClass(), g.rng.Intn(8)
		v := uint64(tt) | uint64(cc)<<16 | uint64(ff)<<32
		out = append(out, g.q(n, tt, cc, ff))
		for b1 := 0; b1 < 35; b1++ {
			for b2 := b1 + 1; b2 < 35; b2++ {
				t, c, f := fromVec(v ^ 1<<b1 ^ 1<<b2)
				out = append(out, g.q(n, t, c, f))
			}
		}
	}
	return out
}

func genRandomTriples(g *gen) []qspec {
	names := [][]byte{g.baseName(), g.baseName()}
	seen := map[[2]uint64]bool{}
	out := make([]qspec, 0, 131072)
	for len(out) < 131072 {
		t, c, f := g.randType(), g.randClass(), g.rng.Intn(8)
		ni := 0
		if g.rng.Intn(8) == 0 {
			ni = 1
		}
		k := [2]uint64{uint64(t) | uint64(c)<<16 | uint64(f)<<32, uint64(ni)}
		if seen[k] {
			continue
		}
		seen[k] = true
		out = append(out, g.q(names[ni], t, c, f))
	}
	return out
}

// ---------------------------------------------------------------------- names

func namesToSpecs(g *gen, names [][]byte, c cell) []qspec {
	out := make([]qspec, 0, len(names))
	for _, n := range names {
		out = append(out, g.q(n, c.t, c.c, c.f))
	}
	return out
}

// splitLen cuts a content budget (wire length L minus the root byte) into label
// lengths; mode 0 = longest labels first, 1 = shortest labels, 2 = random.
func (g *gen) splitLen(L int, mode int) []int {
	rem := L - 1 // bytes available for length octets + label bytes
	var out []int
	for rem > 0 {
		if rem == 1 { // cannot hold a label: grow the previous one (caller guarantees L != 2)
			out[len(out)-1]++
			rem = 0
			break
		}
		max := rem - 1
		if max > 63 {
			max = 63
		}
		l := max
		switch mode {
		case 1:
			l = 1
		case 2:
			l = 1 + g.rng.Intn(max)
		}
		if rem-1-l == 1 { // would leave one byte that cannot hold a label
			if l > 1 {
				l--
			} else if l < max {
				l++
			}
		}
		out = append(out, l)
		rem -= 1 + l
	}
	return out
}

// every wire length 1..255 (2 is impossible), several label layouts and fillings
func genNameLengths(c cell) func(*gen) []qspec {
	return func(g *gen) []qspec {
		var names [][]byte
		names = append(names, []byte{0}) // root, wire length 1
		fills := []func(i, j int) byte{
			func(i, j int) byte { return lower[(i+j)%26] },
			func(i, j int) byte { return 'a' },
			func(i, j int) byte { return 0 },
			func(i, j int) byte { return 0xff },
			func(i, j int) byte { return '.' },
			func(i, j int) byte { return '\\' },
			func(i, j int) byte { return byte(g.rng.Intn(256)) },
			func(i, j int) byte { return lower[g.rng.Intn(26)] },
		}
		for L := 3; L <= 255; L++ {
			for mode := 0; mode < 3; mode++ {
				for fi, fill := range fills {
					if mode != 0 && fi >= 2 && fi < 6 {
						continue
					}
					lens := g.splitLen(L, mode)
					var labels [][]byte
					for i, n := range lens {
						l := make([]byte, n)
						for j := range l {
							l[j] = fill(i, j)
						}
						labels = append(labels, l)
					}
					if !validLabels(labels) {
						panic(fmt.Sprintf("harness: bad split %v for %d", lens, L))
					}
					w := wire.EncodeLabels(labels)
					if len(w) != L {
						panic(fmt.Sprintf("harness: length %d want %d (%v)", len(w), L, lens))
					}
					names = append(names, w)
				}
			}
		}
		return namesToSpecs(g, dedupNames(names), c)
	}
}

func dedupNames(in [][]byte) [][]byte {
	seen := map[string]bool{}
	var out [][]byte
	for _, n := range in {
		if !seen[string(n)] {
			seen[string(n)] = true
			out = append(out, n)
		}
	}
	return out
}

// every single-byte label value in several positions
func genNameLabelBytes(c cell) func(*gen) []qspec {
	return func(g *gen) []qspec {
		var names [][]byte
		for b := 0; b < 256; b++ {
			x := []byte{byte(b)}
			names = append(names,
				wire.EncodeLabels([][]byte{x}),
				wire.EncodeLabels([][]byte{x, []byte("test")}),
				wire.EncodeLabels([][]byte{[]byte("x"), x, []byte("test")}),
				wire.EncodeLabels([][]byte{{'x', byte(b)}, []byte("test")}),
				wire.EncodeLabels([][]byte{{byte(b), 'x'}, []byte("test")}),
				wire.EncodeLabels([][]byte{{'x', byte(b), 'y'}, []byte("test")}),
				wire.EncodeLabels([][]byte{x, x}),
				wire.EncodeLabels([][]byte{[]byte("test"), x}),
			)
		}
		return namesToSpecs(g, dedupNames(names), c)
	}
}

// all 65536 two-byte labels
func genNameTwoByteLabels(c cell) func(*gen) []qspec {
	return func(g *gen) []qspec {
		names := make([][]byte, 0, 65536)
		for v := 0; v < 65536; v++ {
			names = append(names, wire.EncodeLabels([][]byte{{byte(v >> 8), byte(v)}, []byte("t")}))
		}
		return namesToSpecs(g, names, c)
	}
}

// bases with every label byte replaced by every other value
func genNameOneByteDiff(c cell) func(*gen) []qspec {
	return func(g *gen) []qspec {
		bases := [][][]byte{
			{[]byte("www"), []byte("example"), []byte("com")},
			{[]byte("WwW"), []byte("a.b"), []byte("c\\d")},
			{g.randLabel(20, ""), g.randLabel(9, "")},
			{g.randLabel(63, lower)},
			{g.randLabel(1, lower), g.randLabel(1, lower), g.randLabel(1, lower), g.randLabel(1, lower)},
			{g.randLabel(30, lower), g.randLabel(30, lower), g.randLabel(30, lower)},
		}
		var names [][]byte
		for _, base := range bases {
			names = append(names, wire.EncodeLabels(base))
			for li, l := range base {
				for pos := range l {
					for v := 0; v < 256; v++ {
						if byte(v) == l[pos] {
							continue
						}
						mod := make([][]byte, len(base))
						copy(mod, base)
						nl := append([]byte(nil), l...)
						nl[pos] = byte(v)
						mod[li] = nl
						names = append(names, wire.EncodeLabels(mod))
					}
				}
			}
		}
		return namesToSpecs(g, dedupNames(names), c)
	}
}

// all 2^14 case variants of a 14-letter name
func genNameCase(c cell) func(*gen) []qspec {
	return func(g *gen) []qspec {
		l1, l2 := g.randLabel(7, lower), g.randLabel(7, lower)
		var names [][]byte
		for mask := 0; mask < 1<<14; mask++ {
			a, b := append([]byte(nil), l1...), append([]byte(nil), l2...)
			for i := 0; i < 7; i++ {
				if mask>>i&1 != 0 {
					a[i] -= 32
				}
				if mask>>(7+i)&1 != 0 {
					b[i] -= 32
				}
			}
			names = append(names, wire.EncodeLabels([][]byte{a, b, []byte("7-x")}))
		}
		return namesToSpecs(g, names, c)
	}
}

// same bytes, different label boundaries; a dot inside a label vs a boundary
func genNameBoundaries(c cell) func(*gen) []qspec {
	return func(g *gen) []qspec {
		var names [][]byte
		content := g.randLabel(12, lower)
		for mask := 0; mask < 1<<11; mask++ { // ab.c vs a.bc
			var labels [][]byte
			cur := []byte{content[0]}
			for i := 1; i < 12; i++ {
				if mask>>(i-1)&1 != 0 {
					labels = append(labels, cur)
					cur = nil
				}
				cur = append(cur, content[i])
			}
			labels = append(labels, cur, []byte("t"))
			names = append(names, wire.EncodeLabels(labels))
		}
		letters := g.randLabel(11, lower)
		for mask := 0; mask < 1<<10; mask++ { // a\.b.c vs a.b.c
			var labels [][]byte
			cur := []byte{letters[0]}
			for i := 1; i < 11; i++ {
				if mask>>(i-1)&1 != 0 {
					labels = append(labels, cur)
					cur = nil
				} else {
					cur = append(cur, '.')
				}
				cur = append(cur, letters[i])
			}
			labels = append(labels, cur, []byte("t"))
			names = append(names, wire.EncodeLabels(labels))
		}
		l7 := g.randLabel(7, lower)
		for code := 0; code < 729; code++ { // per gap: boundary / literal dot / nothing
			var labels [][]byte
			cur := []byte{l7[0]}
			x := code
			for i := 1; i < 7; i++ {
				switch x % 3 {
				case 0:
					labels = append(labels, cur)
					cur = nil
				case 1:
					cur = append(cur, '.')
				}
				x /= 3
				cur = append(cur, l7[i])
			}
			labels = append(labels, cur)
			names = append(names, wire.EncodeLabels(labels))
		}
		return namesToSpecs(g, dedupNames(names), c)
	}
}

// every name with <= 5 label bytes over {a . \ 0 NUL} in every label layout
func genNameEscapeAlphabet(c cell) func(*gen) []qspec {
	return func(g *gen) []qspec {
		alpha := []byte{'a', '.', '\\', '0', 0}
		var names [][]byte
		for n := 1; n <= 5; n++ {
			total := 1
			for i := 0; i < n; i++ {
				total *= len(alpha)
			}
			for code := 0; code < total; code++ {
				content := make([]byte, n)
				x := code
				for i := range content {
					content[i] = alpha[x%len(alpha)]
					x /= len(alpha)
				}
				for mask := 0; mask < 1<<(n-1); mask++ {
					var labels [][]byte
					cur := []byte{content[0]}
					for i := 1; i < n; i++ {
						if mask>>(i-1)&1 != 0 {
							labels = append(labels, cur)
							cur = nil
						}
						cur = append(cur, content[i])
					}
					labels = append(labels, cur)
					names = append(names, wire.EncodeLabels(labels))
				}
			}
		}
		return namesToSpecs(g, names, c)
	}
}

// names that are prefixes / suffixes of one another, extra leading / trailing labels
func genNameExtraLabel(c cell) func(*gen) []qspec {
	return func(g *gen) []qspec {
		var names [][]byte
		names = append(names, []byte{0})
		var base [][]byte
		for i := 0; i < 8; i++ {
			base = append(base, g.randLabel(1+g.rng.Intn(6), lower))
		}
		for i := 0; i < len(base); i++ {
			for j := i + 1; j <= len(base); j++ {
				names = append(names, wire.EncodeLabels(base[i:j]))
			}
		}
		for _, ch := range []byte{'a', '.', 0} {
			var chain [][]byte
			for n := 1; n <= 127; n++ {
				chain = append(chain, []byte{ch})
				names = append(names, wire.EncodeLabels(chain))
			}
			for n := 1; n <= 63; n++ { // "aa" vs "a.a"
				names = append(names, wire.EncodeLabels([][]byte{bytesRepeat(ch, n)}))
			}
		}
		for k := 0; k < 400; k++ {
			var x [][]byte
			for i, n := 0, 1+g.rng.Intn(4); i < n; i++ {
				x = append(x, g.randLabel(1+g.rng.Intn(8), lower))
			}
			ps := [][]byte{[]byte("a"), []byte("x"), x[0], x[len(x)-1], []byte("test"), {0}}
			names = append(names, wire.EncodeLabels(x))
			for _, p := range ps {
				names = append(names,
					wire.EncodeLabels(append([][]byte{p}, x...)),
					wire.EncodeLabels(append(append([][]byte{}, x...), p)),
					wire.EncodeLabels(append(append([][]byte{p}, x...), p)))
			}
		}
		return namesToSpecs(g, dedupNames(names), c)
	}
}

func bytesRepeat(b byte, n int) []byte {
	o := make([]byte, n)
	for i := range o {
		o[i] = b
	}
	return o
}

// 64 short tricky names x 32 types x 16 classes x 4 flag combinations: field
// boundaries of any concatenated key must not be confusable
func genNameTypeClassGrid(g *gen) []qspec {
	names := [][]byte{{0}}
	fixed := [][][]byte{
		{[]byte("a")}, {[]byte("A")}, {[]byte("aa")}, {[]byte("a"), []byte("a")}, {[]byte("a.a")},
		{[]byte("\\")}, {[]byte("0")}, {{0}}, {{1}}, {[]byte("a"), []byte("01")}, {{'a', 0}}, {{'a', 1}},
		{{0, 1}}, {{1, 0}}, {{1, 1}}, {{0, 0}}, {{0}, {1}}, {{1}, {0}}, {[]byte("001")}, {[]byte("\\001")},
		{[]byte(".")}, {[]byte("..")}, {[]byte("."), []byte(".")}, {[]byte("a.")}, {[]byte(".a")},
	}
	for _, f := range fixed {
		names = append(names, wire.EncodeLabels(f))
	}
	names = dedupNames(names)
	alpha := "aA.\\01\x00\x01"
	for len(names) < 64 {
		var l [][]byte
		for i, n := 0, 1+g.rng.Intn(3); i < n; i++ {
			l = append(l, g.randLabel(1+g.rng.Intn(3), alpha))
		}
		names = dedupNames(append(names, wire.EncodeLabels(l)))
	}
	types := []uint16{0, 1, 2, 5, 6, 12, 15, 16, 28, 33, 41, 46, 47, 48, 255, 256, 257, 258, 0x0201, 0x6100, 0x0061,
		0x6161, 0x2e2e, 0x5c5c, 0x3030, 0xff00, 0x00ff, 0xffff, 0x8000, 0x8001, 511, 512}
	classes := []uint16{0, 1, 2, 3, 4, 254, 255, 256, 257, 0x0103, 0x6161, 0x2e00, 0xff00, 0xffff, 0x8001, 0x0301}
	out := make([]qspec, 0, 131072)
	for _, n := range names {
		for _, t := range types {
			for _, c := range classes {
				for _, f := range []int{0, 1, 4, 7} {
					out = append(out, g.q(n, t, c, f))
				}
			}
		}
	}
	return out
}

// ----------------------------------------------------------- bypass / sharing

// questions asked both as ordinary queries and as messages that must bypass the
// cache: QR=1, every opcode 1..15, zero / two / three questions
func genBypass(g *gen) []qspec {
	var out []qspec
	for k := 0; k < 256; k++ {
		var n []byte
		switch k % 4 {
		case 0:
			n = nm("bypass", "test")
		case 1:
			n = g.baseName()
		case 2:
			n = []byte{0}
		default:
			n = wire.EncodeLabels([][]byte{g.randLabel(1+g.rng.Intn(5), ""), []byte("test")})
		}
		t, c, f := g.randType(), []uint16{1, 1, 3, 255}[g.rng.Intn(4)], g.rng.Intn(8)
		if k%4 == 0 {
			t = uint16(k/4 + 1) // distinct questions under the fixed name
		}
		out = append(out, g.q(n, t, c, f)) // the ordinary query
		s := g.q(n, t, c, f)
		s.Kind = "qr"
		out = append(out, s)
		for op := 1; op <= 15; op++ {
			s := g.q(n, t, c, f)
			s.Kind, s.Opcode = "opcode", uint8(op)
			out = append(out, s)
		}
		other := question{Name: g.baseName(), Type: g.randType(), Class: 1}
		same := question{Name: n, Type: t, Class: c}
		s = g.q(n, t, c, f)
		s.Kind, s.Extra = "qd2", []question{other}
		out = append(out, s)
		s = g.q(n, t, c, f)
		s.Kind, s.Extra = "qd2", []question{same}
		out = append(out, s)
		s = g.q(other.Name, other.Type, other.Class, f)
		s.Kind, s.Extra = "qd2", []question{same}
		out = append(out, s)
		s = g.q(n, t, c, f)
		s.Kind, s.Extra = "qd3", []question{same, other}
		out = append(out, s)
	}
	for k := 0; k < 16; k++ {
		s := g.q([]byte{0}, 0, 0, k%8)
		s.Kind = "qd0"
		out = append(out, s)
	}
	return out
}

// the same question asked with different ID / RD / client OPT (with and without
// DO): sharing is allowed, no finding may result
func genNoiseSharing(g *gen) []qspec {
	var out []qspec
	for k := 0; k < 4096; k++ {
		n := g.baseName()
		t, c, f := g.randType(), g.randClass(), g.rng.Intn(8)
		for v := 0; v < 6; v++ {
			s := g.q(n, t, c, f)
			s.ClientOPT = uint8(v % 3)
			s.RD = v >= 3
			out = append(out, s)
		}
	}
	return out
}

// the questions of the design's scratch evidence: A / CAA (257 = 256+1), IN / CH,
// with and without each flag, under one name
func genTextbook(g *gen) []qspec {
	n := nm("x", "test")
	var out []qspec
	for _, c := range []uint16{1, 3} {
		for _, t := range []uint16{1, 257, 28} {
			for _, f := range []int{0, 1, 2, 4, 7} {
				out = append(out, g.q(n, t, c, f))
			}
		}
	}
	out = append(out, g.q(nm("X", "test"), 1, 1, 0), g.q(nm("x.test"), 1, 1, 0), g.q(nm("x", "test", "test"), 1, 1, 0))
	return out
}

// every AD/CD/DO combination under every layout of Q()'s additional section, for
// many questions: the flags must separate entries wherever the OPT stands (same
// flags under different layouts are the same question and may share)
func genFlagsExtraShapes(g *gen) []qspec {
	var out []qspec
	for k := 0; k < 2048; k++ {
		n := g.baseName()
		t, c := g.randType(), g.randClass()
		for sh := range extraShapes {
			for f := 0; f < 8; f++ {
				s := g.q(n, t, c, f)
				s.Shape = uint8(sh)
				out = append(out, s)
			}
		}
	}
	return out
}

// ------------------------------------------------------------------ the list

func buildFamilies(thorough bool, seed int64) []*family {
	var fams []*family
	sel := newGen(seed ^ 0x5eed) // seed-dependent choices of cells
	weight := 1
	classic, later := 0, 1000 // families added after the first release are numbered from 1000 so that the old ones keep their seeds
	var addAt func(idx int, name string, gf func(*gen) []qspec)
	add := func(name string, gf func(*gen) []qspec) {
		addAt(classic, name, gf)
		classic++
	}
	addLater := func(name string, gf func(*gen) []qspec) {
		addAt(later, name, gf)
		later++
	}
	addAt = func(idx int, name string, gf func(*gen) []qspec) {
		via := "direct"
		if idx%2 == 1 {
			via = "sequence"
		}
		fams = append(fams, &family{Name: name, Via: via, Lazy: idx%4 == 2, Seed: seed*1000003 + int64(idx)*7919 + 1, Gen: gf, Weight: weight, Idx: idx})
	}
	base := func(g *gen) []byte { return g.baseName() }
	randCell := func() cell { return cell{sel.randType(), sel.randClass(), sel.rng.Intn(8)} }
	plain := cell{1, 1, 0}

	// --- quick and thorough
	add("textbook", genTextbook)
	weight = 2
	add("types-all/class=1,flags=0", genTypesAll(base, 1, 0))
	rc := randCell()
	add(fmt.Sprintf("types-all/class=%d,flags=%d", rc.c, rc.f), genTypesAll(base, rc.c, rc.f))
	add("classes-all/type=1,flags=0", genClassesAll(1, 0))
	rc = randCell()
	add(fmt.Sprintf("classes-all/type=%d,flags=%d", rc.t, rc.f), genClassesAll(rc.t, rc.f))
	add("grid/4096types-x-4classes-x-8flags", genGridTypes)
	add("grid/4096classes-x-4types-x-8flags", genGridClasses)
	add("bitflip1/3000bases-x-35neighbours", genBitflip1)
	add("bitflip2/200bases-x-595neighbours", genBitflip2)
	add("random-triples", genRandomTriples)
	weight = 1
	add("bypass/a", genBypass)
	add("bypass/b", genBypass)
	add("noise-sharing", genNoiseSharing)
	add("flags-x-extra-section-layouts", genFlagsExtraShapes)
	weight = 2
	add("name-x-type-x-class-grid", genNameTypeClassGrid)
	weight = 1
	nameFams := []struct {
		n string
		f func(cell) func(*gen) []qspec
	}{
		{"name-lengths", genNameLengths},
		{"name-label-bytes", genNameLabelBytes},
		{"name-two-byte-labels", genNameTwoByteLabels},
		{"name-one-byte-diff", genNameOneByteDiff},
		{"name-case", genNameCase},
		{"name-boundaries", genNameBoundaries},
		{"name-escape-alphabet", genNameEscapeAlphabet},
		{"name-extra-label", genNameExtraLabel},
	}
	for _, nf := range nameFams {
		add(nf.n+"/"+plain.String(), nf.f(plain))
	}
	for _, nf := range nameFams {
		if nf.n == "name-two-byte-labels" && !thorough {
			continue
		}
		c := randCell()
		add(nf.n+"/"+c.String(), nf.f(c))
	}
	// names over the presentation-format dimension x all flag combinations (names2.go);
	// three copies so that they pass through every dump/load mode (reload.go)
	presCells := func(g *gen) []cell { return []cell{{1, 1, 0}, {g.randType(), g.randClass(), 0}} }
	for _, k := range []string{"a", "b", "c"} {
		addLater("name-presentation-lengths-x-flags/"+k, genNamePresentationFlags(presCells, 40))
	}
	addLater("long-name-variants-x-flags", genLongNameVariants)
	if !thorough {
		return fams
	}

	// --- thorough only
	weight = 2
	for _, c := range someClasses {
		for f := 0; f < 8; f++ {
			if c == 1 && f == 0 {
				continue
			}
			add(fmt.Sprintf("types-all/class=%d,flags=%d", c, f), genTypesAll(base, c, f))
		}
	}
	add("types-all/root-name", genTypesAll(func(*gen) []byte { return []byte{0} }, 1, 0))
	add("types-all/255-byte-name", genTypesAll(func(g *gen) []byte {
		return wire.EncodeLabels([][]byte{g.randLabel(63, ""), g.randLabel(63, ""), g.randLabel(63, ""), g.randLabel(61, "")})
	}, 1, 0))
	for _, t := range []uint16{28, 257, 16, 255, 65535, 0} {
		for _, f := range []int{0, 7} {
			add(fmt.Sprintf("classes-all/type=%d,flags=%d", t, f), genClassesAll(t, f))
		}
	}
	for f := 1; f < 7; f++ {
		add(fmt.Sprintf("classes-all/type=1,flags=%d", f), genClassesAll(1, f))
	}
	for k := 0; k < 8; k++ {
		add(fmt.Sprintf("grid/4096types-x-4classes-x-8flags#%d", k), genGridTypes)
		add(fmt.Sprintf("grid/4096classes-x-4types-x-8flags#%d", k), genGridClasses)
		add(fmt.Sprintf("bitflip1/3000bases-x-35neighbours#%d", k), genBitflip1)
		add(fmt.Sprintf("bitflip2/200bases-x-595neighbours#%d", k), genBitflip2)
		add(fmt.Sprintf("name-x-type-x-class-grid#%d", k), genNameTypeClassGrid)
	}
	for k := 0; k < 20; k++ {
		add(fmt.Sprintf("random-triples#%d", k), genRandomTriples)
	}
	weight = 1
	for k := 0; k < 8; k++ {
		for _, nf := range nameFams {
			c := randCell()
			add(fmt.Sprintf("%s/%s#%d", nf.n, c.String(), k), nf.f(c))
		}
		add(fmt.Sprintf("bypass#%d", k), genBypass)
		add(fmt.Sprintf("noise-sharing#%d", k), genNoiseSharing)
		add(fmt.Sprintf("flags-x-extra-section-layouts#%d", k), genFlagsExtraShapes)
	}
	for k := 0; k < 12; k++ {
		addLater(fmt.Sprintf("name-presentation-lengths-x-flags#%d", k), genNamePresentationFlags(presCells, 200))
		addLater(fmt.Sprintf("long-name-variants-x-flags#%d", k), genLongNameVariants)
	}
	return fams
}
