package main

import (
	"bytes"
	"fmt"
	"math/bits"
	"sort"
	"strings"
	"sync"
)

// The aggregator turns collision witnesses into findings keyed by the COMPONENT
// of the question that failed to separate the two queries (class, not instance).

type witness struct {
	c      replayCase
	stored specJSON
	served specJSON
	pass   int
}

type bucket struct {
	tokens []string // e.g. ["type^hi","class"]
	count  int64
	wit    []witness
}

type directFinding struct {
	key   string
	what  string
	c     replayCase
	count int64
}

type aggregator struct {
	mu      sync.Mutex
	buckets map[string]*bucket
	direct_ map[string]*directFinding
	dorder  []string

	// prefix is put in front of every finding key and counter of this aggregator
	// ("" for the live-cache passes, "reload-" for the dump/load passes);
	// where is appended to "answered from cache" in the texts.
	prefix string
	where  string

	cov cover
}

// cover records what was actually observed being served from cache with the
// right marker (kept per runner, merged at the end of each job).
type cover struct {
	types   [65536 / 64]uint64
	classes [65536 / 64]uint64
	flags   [8]int64
	nameLen [256]int64
	labelBy [256]bool
	shapes  [8]int64 // hits per layout of Q()'s additional section x DO
	shapeDO [8]int64
}

func newAggregator() *aggregator {
	return &aggregator{buckets: map[string]*bucket{}, direct_: map[string]*directFinding{}}
}

func (c *cover) sawHit(s *qspec) {
	c.types[s.Type/64] |= uint64(1) << (s.Type % 64)
	c.classes[s.Class/64] |= uint64(1) << (s.Class % 64)
	c.flags[s.flags()]++
	c.shapes[s.Shape%8]++
	if s.QDO {
		c.shapeDO[s.Shape%8]++
	}
	if len(s.Name) < 256 {
		if c.nameLen[len(s.Name)] < 64 { // label bytes of the first names of each length
			for _, l := range labelsOf(s.Name) {
				for _, b := range l {
					c.labelBy[b] = true
				}
			}
		}
		c.nameLen[len(s.Name)]++
	}
}

func (a *aggregator) merge(c *cover) {
	a.mu.Lock()
	defer a.mu.Unlock()
	for i := range c.types {
		a.cov.types[i] |= c.types[i]
		a.cov.classes[i] |= c.classes[i]
	}
	for i := range c.flags {
		a.cov.flags[i] += c.flags[i]
		a.cov.shapes[i] += c.shapes[i]
		a.cov.shapeDO[i] += c.shapeDO[i]
	}
	for i := range c.nameLen {
		a.cov.nameLen[i] += c.nameLen[i]
		a.cov.labelBy[i] = a.cov.labelBy[i] || c.labelBy[i]
	}
}

func (a *aggregator) coverage() {
	a.mu.Lock()
	defer a.mu.Unlock()
	nt, nc := 0, 0
	for i := range a.cov.types {
		nt += bits.OnesCount64(a.cov.types[i])
		nc += bits.OnesCount64(a.cov.classes[i])
	}
	lay := map[string]any{}
	for i, sh := range extraShapes {
		lay[sh.text] = map[string]int64{"answered_from_cache": a.cov.shapes[i], "of_which_DO_set": a.cov.shapeDO[i]}
	}
	rep.Extra("Q_additional_section_layouts", lay)
	rep.Extra("distinct_types_answered_from_cache", nt)
	rep.Extra("distinct_classes_answered_from_cache", nc)
	fc := 0
	for _, n := range a.cov.flags {
		if n > 0 {
			fc++
		}
	}
	rep.Extra("distinct_AD_CD_DO_combinations_answered_from_cache", fc)
	nl, lb := 0, 0
	for _, n := range a.cov.nameLen {
		if n > 0 {
			nl++
		}
	}
	for _, b := range a.cov.labelBy {
		if b {
			lb++
		}
	}
	rep.Extra("distinct_name_wire_lengths_answered_from_cache", nl)
	rep.Extra("distinct_label_byte_values_answered_from_cache", lb)
}

// direct records a finding whose key is already a class (bypass rule, panic).
func (a *aggregator) direct(key, what string, c replayCase, detail any) {
	a.mu.Lock()
	defer a.mu.Unlock()
	if d := a.direct_[key]; d != nil {
		d.count++
		return
	}
	c.Detail = detail
	a.direct_[key] = &directFinding{key: key, what: what, c: c, count: 1}
	a.dorder = append(a.dorder, key)
}

func labelsOf(raw []byte) [][]byte {
	var out [][]byte
	for i := 0; i < len(raw); {
		l := int(raw[i])
		if l == 0 || i+1+l > len(raw) {
			break
		}
		out = append(out, raw[i+1:i+1+l])
		i += 1 + l
	}
	return out
}

func asciiLower(b []byte) []byte {
	o := make([]byte, len(b))
	for i, c := range b {
		if c >= 'A' && c <= 'Z' {
			c += 'a' - 'A'
		}
		o[i] = c
	}
	return o
}

func hasPrefixLabels(long, short [][]byte) bool {
	if len(short) >= len(long) {
		return false
	}
	for i := range short {
		if !bytes.Equal(long[i], short[i]) {
			return false
		}
	}
	return true
}

func hasSuffixLabels(long, short [][]byte) bool {
	if len(short) >= len(long) {
		return false
	}
	d := len(long) - len(short)
	for i := range short {
		if !bytes.Equal(long[d+i], short[i]) {
			return false
		}
	}
	return true
}

// nameDiffKind names the way two different wire names differ.
func nameDiffKind(x, y []byte) string {
	if len(x) == len(y) && bytes.Equal(asciiLower(x), asciiLower(y)) {
		return "name-case"
	}
	lx, ly := labelsOf(x), labelsOf(y)
	if bytes.Equal(bytes.Join(lx, []byte(".")), bytes.Join(ly, []byte("."))) {
		return "name-escaped-dot" // a\.b.c vs a.b.c: a dot inside a label vs a label boundary
	}
	if bytes.Equal(bytes.Join(lx, nil), bytes.Join(ly, nil)) {
		return "name-label-boundary" // ab.c vs a.bc
	}
	if hasPrefixLabels(lx, ly) || hasPrefixLabels(ly, lx) || hasSuffixLabels(lx, ly) || hasSuffixLabels(ly, lx) {
		return "name-extra-label"
	}
	if len(x) != len(y) {
		return "name-length"
	}
	return "name-bytes"
}

func numToken(name string, x, y uint16) string {
	if byte(x) == byte(y) {
		return name + "^hi" // differ only in the high byte
	}
	return name
}

// diffTokens lists the identity components in which two ordinary queries differ.
func diffTokens(a, b *qspec) []string {
	var t []string
	// Names that differ only in the case of ASCII letters are the SAME name in the DNS
	// (RFC 4343): a cache may keep them apart (the pinned tree does) or let them share an
	// entry; sharing is not a collision between different questions.
	if !bytes.Equal(a.Name, b.Name) && nameDiffKind(a.Name, b.Name) != "name-case" {
		t = append(t, nameDiffKind(a.Name, b.Name))
	}
	if a.Type != b.Type {
		t = append(t, numToken("type", a.Type, b.Type))
	}
	if a.Class != b.Class {
		t = append(t, numToken("class", a.Class, b.Class))
	}
	if a.AD != b.AD {
		t = append(t, "flag-AD")
	}
	if a.CD != b.CD {
		t = append(t, "flag-CD")
	}
	if a.QDO != b.QDO {
		t = append(t, "flag-DO")
	}
	return t
}

// collision records: query served (index i) was answered from cache with the
// marker stored for query stored (index m), and they ask different questions.
func (a *aggregator) collision(r *runner, m, i, pass int) {
	a.collisionCase(&r.specs[m], &r.specs[i], pass, func() (replayCase, string) {
		c := r.caseFor([]int{m, i})
		return c, fmt.Sprintf("pass %d, %s order: queries[1] was answered from the cache with the marker the terminal had given to queries[0]", pass, c.Order)
	})
}

// collisionCase is collision with the replay case and the observation text
// supplied by the caller (built only for the first witnesses of a class).
func (a *aggregator) collisionCase(st, sv *qspec, pass int, mk func() (replayCase, string)) {
	tok := diffTokens(st, sv)
	if len(tok) == 0 {
		rep.Count("hits_shared_between_spellings_of_one_name(same question, allowed)", 1)
		return
	}
	k := strings.Join(tok, "+")
	a.mu.Lock()
	defer a.mu.Unlock()
	b := a.buckets[k]
	if b == nil {
		b = &bucket{tokens: tok}
		a.buckets[k] = b
	}
	b.count++
	if len(b.wit) < 3 {
		c, observed := mk()
		c.Detail = map[string]any{
			"observed":   observed,
			"differ_in":  tok,
			"stored_for": describe(st.toJSON()),
			"served_to":  describe(sv.toJSON()),
		}
		b.wit = append(b.wit, witness{c: c, stored: st.toJSON(), served: sv.toJSON(), pass: pass})
	}
}

func describe(s specJSON) string {
	fl := ""
	if s.AD {
		fl += " AD"
	}
	if s.CD {
		fl += " CD"
	}
	if s.QDO {
		fl += " DO"
	}
	if fl == "" {
		fl = " no-flags"
	}
	n := s.MiekgName
	if n == "" {
		n = s.Name
	}
	if len(n) > 80 {
		n = n[:40] + "…" + n[len(n)-30:]
	}
	if s.Shape != 0 {
		fl += " Q.extra=" + strings.ReplaceAll(s.ShapeText, " ", ",")
	}
	return fmt.Sprintf("[%q type=%d class=%d%s]", n, s.Type, s.Class, fl)
}

// finish reports findings. Single-component buckets become
// collision-<component>; for type and class the key says -high-byte when every
// witness differs only in the high byte. A multi-component bucket is reported
// under its own key only when some of its components is not already reported
// on its own (then the single-component findings explain it).
func (a *aggregator) finish(replayKey string) {
	a.mu.Lock()
	defer a.mu.Unlock()
	report := func(key, what string, c replayCase) {
		key = a.prefix + key
		if replayKey != "" {
			key = replayKey
		}
		c.Key = key
		if a.where != "" {
			what = strings.Replace(what, "answered from cache", "answered from cache "+a.where, 1)
		}
		rep.Violation(key, what, c)
	}
	for _, k := range a.dorder {
		d := a.direct_[k]
		report(d.key, fmt.Sprintf("%s (%d observations)", d.what, d.count), d.c)
	}
	keys := make([]string, 0, len(a.buckets))
	for k := range a.buckets {
		keys = append(keys, k)
	}
	sort.Strings(keys)
	single := map[string]bool{} // tokens reported on their own
	// numeric components: "type" subsumes "type^hi"
	for _, comp := range []string{"type", "class"} {
		hi, all := a.buckets[comp+"^hi"], a.buckets[comp]
		switch {
		case all != nil:
			single[comp], single[comp+"^hi"] = true, true
			n := all.count
			w := all.wit[0]
			if hi != nil {
				n += hi.count
			}
			report("collision-"+comp, fmt.Sprintf("query %s was answered from cache with the answer stored for %s: the cache does not separate queries that differ only in %s (%d witnesses)", describe(w.served), describe(w.stored), comp, n), w.c)
		case hi != nil:
			single[comp+"^hi"] = true
			w := hi.wit[0]
			report("collision-"+comp+"-high-byte", fmt.Sprintf("query %s was answered from cache with the answer stored for %s: the cache does not separate queries whose %s differs only in the high byte (%d witnesses, all with equal low byte)", describe(w.served), describe(w.stored), comp, hi.count), w.c)
		}
	}
	var nameKinds []string
	for _, k := range keys {
		if b := a.buckets[k]; len(b.tokens) == 1 && strings.HasPrefix(k, "name-") {
			nameKinds = append(nameKinds, k)
		}
	}
	for _, k := range keys {
		b := a.buckets[k]
		if len(b.tokens) != 1 || strings.HasPrefix(k, "type") || strings.HasPrefix(k, "class") {
			continue
		}
		single[k] = true
		if strings.HasPrefix(k, "name-") && len(nameKinds) >= 3 {
			continue // reported once below
		}
		w := b.wit[0]
		report("collision-"+k, fmt.Sprintf("query %s was answered from cache with the answer stored for %s: they differ only in %s (%d witnesses)", describe(w.served), describe(w.stored), k, b.count), w.c)
	}
	if len(nameKinds) >= 3 { // names are confused in many ways: one finding, not one per way
		n := int64(0)
		for _, k := range nameKinds {
			n += a.buckets[k].count
		}
		w := a.buckets[nameKinds[0]].wit[0]
		report("collision-name", fmt.Sprintf("query %s was answered from cache with the answer stored for %s: the cache does not separate different names (%d witnesses; kinds of difference seen: %s)", describe(w.served), describe(w.stored), n, strings.Join(nameKinds, ", ")), w.c)
	}
	explained := int64(0)
	multi := map[string]*bucket{}
	var morder []string
	for _, k := range keys {
		b := a.buckets[k]
		if len(b.tokens) < 2 {
			continue
		}
		covered := true
		for _, t := range b.tokens {
			if !single[t] {
				covered = false
			}
		}
		if covered {
			explained += b.count
			continue
		}
		// key by the set of components (name / type / class / flag-X), not by their sub-kinds
		var parts []string
		for _, t := range b.tokens {
			p := strings.TrimSuffix(t, "^hi")
			if strings.HasPrefix(p, "name-") {
				p = "name"
			}
			parts = append(parts, p)
		}
		key := "collision-" + strings.Join(parts, "+")
		if m := multi[key]; m != nil {
			m.count += b.count
			continue
		}
		multi[key] = &bucket{tokens: parts, count: b.count, wit: b.wit}
		morder = append(morder, key)
	}
	for _, key := range morder {
		m := multi[key]
		w := m.wit[0]
		report(key, fmt.Sprintf("query %s was answered from cache with the answer stored for %s: they differ in %s together; not explained by the single-component findings of this run (%d witnesses)", describe(w.served), describe(w.stored), strings.Join(m.tokens, " and "), m.count), w.c)
	}
	rep.Count(a.prefix+"collisions_in_several_components_explained_by_single_component_findings", explained)
	total := int64(0)
	for _, b := range a.buckets {
		total += b.count
	}
	rep.Count(a.prefix+"collision_witnesses", total)
}
