package main

// Chain phase: the cache plugin embedded in realistic sequences.
//
// The families in main.go drive cache.Exec with nothing around it. Here the
// real cache sits inside sequences built from rule text, with name-rewriting
// wrappers in front of it and/or behind it (the real redirect plugin, and a
// harness wrapper that rewrites the question in place the same way), a stub
// upstream whose answer is a function of the question IT is asked, and a
// post-processing plugin that can fail after the response was set. Scripts of
// client queries (aliases, intermediate names, targets, unrelated names, mixed
// key lengths, case variants, types, classes, AD/CD/DO, injected downstream
// failures) are run through each sequence. Some scripts let entries go stale
// under lazy_cache_ttl, park the background refreshes at the upstream, run
// other queries in between and then let the refreshes finish.
//
// Some layouts put a plugin in front of everything that answers certain names
// itself and lets the sequence go on (hosts-like), so that rewriters and cache
// run with a response already set for the client's own question.
//
// Oracle, for every response that is served to a client (sequence returned no
// error and a response is set):
//   - its question section is exactly the client's question;
//   - the marker record it carries was issued by the upstream for the question
//     the upstream has to be asked for this client question (harness model of the
//     rewriters: a full-match table per redirect, lower-casing for the case
//     wrapper) with the client's type, class and AD/CD/DO — or by the plugin in
//     front for the client's own name / the name the cache sees for it.
//
// Nothing is required about CNAME records, TTLs, ids, hit ratios, or whether
// the response of a failed chain is stored.

import (
	"context"
	"errors"
	"fmt"
	"math/rand"
	"runtime"
	"sort"
	"strconv"
	"strings"
	"sync"
	"sync/atomic"
	"time"

	"github.com/IrineSistiana/mosdns/v5/coremain"
	"github.com/IrineSistiana/mosdns/v5/pkg/query_context"
	"github.com/IrineSistiana/mosdns/v5/plugin/executable/cache"
	"github.com/IrineSistiana/mosdns/v5/plugin/executable/redirect"
	"github.com/IrineSistiana/mosdns/v5/plugin/executable/sequence"
	_ "github.com/IrineSistiana/mosdns/v5/plugin/matcher/has_resp"
	"github.com/miekg/dns"
	"go.uber.org/zap"
	"go.uber.org/zap/zapcore"
)

// ------------------------------------------------------------------ case model

type chainQ struct {
	Name  string `json:"name"`
	Type  uint16 `json:"type"`
	Class uint16 `json:"class"`
	AD    bool   `json:"ad,omitempty"`
	CD    bool   `json:"cd,omitempty"`
	DO    bool   `json:"do,omitempty"`
}

func (q chainQ) String() string {
	fl := ""
	if q.AD {
		fl += " AD"
	}
	if q.CD {
		fl += " CD"
	}
	if q.DO {
		fl += " DO"
	}
	return fmt.Sprintf("[%q type=%d class=%d%s]", q.Name, q.Type, q.Class, fl)
}

func (q chainQ) flagsText() string {
	return strconv.Itoa(b2i(q.AD) | b2i(q.CD)<<1 | b2i(q.DO)<<2)
}

func b2i(b bool) int {
	if b {
		return 1
	}
	return 0
}

// chainStep is one step of a script.
//
//	ask         one client query; Fail "" | "after-response" (the plugin behind the
//	            upstream returns an error) | "no-response" (the upstream itself fails)
//	wait-stale  sleep until every entry stored so far with the short TTL has expired
//	ask-stale   a client query that is expected to be a lazy hit; the background
//	            refresh it starts is parked inside the upstream (Fail
//	            "after-response": that refresh fails behind the upstream)
//	release     let the parked refreshes finish and wait until they are done
type chainStep struct {
	Op   string  `json:"op"`
	Q    *chainQ `json:"q,omitempty"`
	Fail string  `json:"fail,omitempty"`
}

type rewriter struct {
	Kind  string   `json:"kind"` // "redirect" (real plugin) | "lowercase" (harness wrapper, in-place like redirect)
	Rules []string `json:"rules,omitempty"`
	table map[string]string
}

type chainCase struct {
	Layout   string      `json:"layout"`
	Rules    []string    `json:"sequence_rules"`
	Pre      []*rewriter `json:"rewriters_in_front_of_cache"`
	Post     []*rewriter `json:"rewriters_behind_cache"`
	Lazy     bool        `json:"lazy_cache_ttl_set"`
	Hosted   []string    `json:"names_answered_by_a_plugin_in_front_of_everything,omitempty"`
	ShortTTL []string    `json:"names_the_upstream_answers_with_ttl_1,omitempty"`
	Procs    int         `json:"gomaxprocs,omitempty"`
	Seed     int64       `json:"scenario_seed"`
	Steps    []chainStep `json:"script"`
	Witness  any         `json:"witness,omitempty"`
}

func (rw *rewriter) init() {
	rw.table = map[string]string{}
	for _, r := range rw.Rules {
		f := strings.Fields(r)
		rw.table[strings.ToLower(strings.TrimSuffix(f[0], "."))] = dns.Fqdn(f[1])
	}
}

// apply is the harness model of a rewriter: the name the next plugin sees.
func (rw *rewriter) apply(name string, class uint16) string {
	switch rw.Kind {
	case "redirect":
		if class != dns.ClassINET {
			return name
		}
		if t, ok := rw.table[strings.ToLower(strings.TrimSuffix(name, "."))]; ok {
			return t
		}
		return name
	case "lowercase":
		return strings.ToLower(name)
	}
	return name
}

func (c *chainCase) cacheName(q chainQ) string {
	n := q.Name
	for _, rw := range c.Pre {
		n = rw.apply(n, q.Class)
	}
	return n
}

func (c *chainCase) upName(q chainQ) string {
	n := c.cacheName(q)
	for _, rw := range c.Post {
		n = rw.apply(n, q.Class)
	}
	return n
}

func (c *chainCase) isTarget(name string) bool {
	for _, l := range [][]*rewriter{c.Pre, c.Post} {
		for _, rw := range l {
			for _, t := range rw.table {
				if t == name {
					return true
				}
			}
		}
	}
	return false
}

// role of a client question in this chain: alias (some rewriter changes it),
// target (a rule points to it), plain.
func (c *chainCase) role(q chainQ) string {
	switch {
	case c.cacheName(q) != q.Name && c.upName(q) != c.cacheName(q):
		return "alias-rewritten-on-both-sides"
	case c.cacheName(q) != q.Name:
		return "alias-rewritten-before-cache"
	case c.upName(q) != q.Name:
		return "alias-rewritten-behind-cache"
	case c.isTarget(q.Name):
		return "target"
	}
	return "plain"
}

func (c *chainCase) where() string {
	if len(c.Hosted) > 0 {
		return "response-set-in-front-of-" + strings.TrimPrefix(c.Layout, "hosts>")
	}
	switch {
	case len(c.Pre) > 0 && len(c.Post) > 0:
		return "rewriters-on-both-sides"
	case len(c.Pre) > 0:
		return "rewriter-before-cache"
	case len(c.Post) > 0:
		return "rewriter-behind-cache"
	}
	return "no-rewriter"
}

// ------------------------------------------------------------- harness plugins

type planKey struct{}

// plan travels in the context of a client query. The background refresh of the
// lazy cache runs with its own context and therefore has no plan.
type plan struct {
	fail  string
	asker chainQ
}

const chainMarker = "c04-chain:"

type upCall struct {
	Seq        int    `json:"seq"`
	Name       string `json:"asked_name"`
	Type       uint16 `json:"type"`
	Class      uint16 `json:"class"`
	Flags      string `json:"ad_cd_do_bits"`
	Txt        string `json:"marker"`
	Asker      string `json:"client_question,omitempty"`
	AskerRole  string `json:"-"`
	Failed     string `json:"downstream_failure,omitempty"`
	Background bool   `json:"background_refresh,omitempty"`
	Hosts      bool   `json:"answered_by_the_plugin_in_front,omitempty"`
}

type chainUp struct {
	cc *chainCase

	mu       sync.Mutex
	calls    []upCall
	short    map[string]bool
	armed    bool
	open     chan struct{}
	parked   chan int
	bgActive atomic.Int32
	bgDone   atomic.Int32
	bgFail   map[string]bool // upstream-side names whose next background refresh fails behind the upstream
	bgFailed atomic.Int32
}

func (u *chainUp) Exec(ctx context.Context, qCtx *query_context.Context) error {
	q := qCtx.Q()
	p, _ := ctx.Value(planKey{}).(*plan)
	if p != nil && p.fail == "no-response" {
		return errors.New("c04 chain: upstream failed (injected)")
	}
	if len(q.Question) != 1 {
		return errors.New("c04 chain: upstream got a message without exactly one question")
	}
	qq := q.Question[0]
	fl := b2i(q.AuthenticatedData) | b2i(q.CheckingDisabled)<<1
	if o := q.IsEdns0(); o != nil && o.Do() {
		fl |= 4
	}
	u.mu.Lock()
	seq := len(u.calls)
	call := upCall{Seq: seq, Name: qq.Name, Type: qq.Qtype, Class: qq.Qclass, Flags: strconv.Itoa(fl), Background: p == nil}
	call.Txt = fmt.Sprintf("%s%d:%s:%d:%d:%d", chainMarker, seq, qq.Name, qq.Qtype, qq.Qclass, fl)
	if p != nil {
		call.Asker, call.AskerRole, call.Failed = p.asker.String(), u.cc.role(p.asker), p.fail
	}
	u.calls = append(u.calls, call)
	ttl := uint32(300)
	if u.short[strings.ToLower(qq.Name)] {
		ttl = 1
	}
	park := p == nil && u.armed
	open := u.open
	u.mu.Unlock()

	if p == nil {
		u.bgActive.Add(1)
		defer func() { u.bgActive.Add(-1); u.bgDone.Add(1) }()
	}
	if park {
		u.parked <- seq
		<-open
	}
	r := new(dns.Msg)
	r.SetReply(q)
	r.RecursionAvailable = true
	r.Answer = []dns.RR{&dns.TXT{
		Hdr: dns.RR_Header{Name: qq.Name, Rrtype: dns.TypeTXT, Class: dns.ClassINET, Ttl: ttl},
		Txt: []string{call.Txt},
	}}
	qCtx.SetResponse(r)
	return nil
}

// chainHosts stands for a plugin in front of everything that answers some
// names itself (hosts, arbitrary, ...) and lets the sequence go on: the
// rewriters and the cache then run with a response already set for the
// client's own question.
type chainHosts struct {
	u      *chainUp
	hosted map[string]bool
}

func (h chainHosts) Exec(ctx context.Context, qCtx *query_context.Context) error {
	q := qCtx.Q()
	if len(q.Question) != 1 || !h.hosted[strings.ToLower(q.Question[0].Name)] {
		return nil
	}
	p, _ := ctx.Value(planKey{}).(*plan)
	qq := q.Question[0]
	fl := b2i(q.AuthenticatedData) | b2i(q.CheckingDisabled)<<1
	if o := q.IsEdns0(); o != nil && o.Do() {
		fl |= 4
	}
	u := h.u
	u.mu.Lock()
	seq := len(u.calls)
	call := upCall{Seq: seq, Name: qq.Name, Type: qq.Qtype, Class: qq.Qclass, Flags: strconv.Itoa(fl), Hosts: true, Background: p == nil}
	call.Txt = fmt.Sprintf("%s%d:hosts:%s:%d:%d:%d", chainMarker, seq, qq.Name, qq.Qtype, qq.Qclass, fl)
	if p != nil {
		call.Asker, call.AskerRole = p.asker.String(), u.cc.role(p.asker)
	}
	u.calls = append(u.calls, call)
	u.mu.Unlock()
	r := new(dns.Msg)
	r.SetReply(q)
	r.Answer = []dns.RR{&dns.TXT{
		Hdr: dns.RR_Header{Name: qq.Name, Rrtype: dns.TypeTXT, Class: dns.ClassINET, Ttl: 300},
		Txt: []string{call.Txt},
	}}
	qCtx.SetResponse(r)
	return nil
}

// chainPost stands for a post-processing plugin (ipset, nftset, ...) that can
// fail after the response has been set.
type chainPost struct{ u *chainUp }

func (cp chainPost) Exec(ctx context.Context, qCtx *query_context.Context) error {
	p, _ := ctx.Value(planKey{}).(*plan)
	if p != nil && p.fail == "after-response" && qCtx.R() != nil {
		return errors.New("c04 chain: post-processing failed (injected)")
	}
	if p == nil && qCtx.R() != nil && len(qCtx.Q().Question) == 1 { // background refresh
		n := strings.ToLower(qCtx.Q().Question[0].Name)
		cp.u.mu.Lock()
		fail := cp.u.bgFail[n]
		delete(cp.u.bgFail, n)
		cp.u.mu.Unlock()
		if fail {
			cp.u.bgFailed.Add(1)
			return errors.New("c04 chain: post-processing failed in a background refresh (injected)")
		}
	}
	return nil
}

// lowerWrap rewrites the query name to lower case for everything behind it and
// restores the client's spelling afterwards, in place, exactly the way
// redirect does it (query restored by defer, response question patched).
type lowerWrap struct{}

func (lowerWrap) Exec(ctx context.Context, qCtx *query_context.Context, next sequence.ChainWalker) error {
	q := qCtx.Q()
	if len(q.Question) != 1 {
		return next.ExecNext(ctx, qCtx)
	}
	org := q.Question[0].Name
	low := strings.ToLower(org)
	if low == org {
		return next.ExecNext(ctx, qCtx)
	}
	q.Question[0].Name = low
	defer func() { q.Question[0].Name = org }()
	err := next.ExecNext(ctx, qCtx)
	if r := qCtx.R(); r != nil {
		for i := range r.Question {
			if r.Question[i].Name == low {
				r.Question[i].Name = org
			}
		}
	}
	return err
}

// logCounter is a zap core that only counts messages.
type logCounter struct {
	mu sync.Mutex
	n  map[string]int
}

func (l *logCounter) Enabled(zapcore.Level) bool        { return true }
func (l *logCounter) With([]zapcore.Field) zapcore.Core { return l }
func (l *logCounter) Sync() error                       { return nil }
func (l *logCounter) Check(e zapcore.Entry, ce *zapcore.CheckedEntry) *zapcore.CheckedEntry {
	return ce.AddCore(e, l)
}
func (l *logCounter) Write(e zapcore.Entry, _ []zapcore.Field) error {
	l.mu.Lock()
	l.n[e.Message]++
	l.mu.Unlock()
	return nil
}
func (l *logCounter) count(msg string) int {
	l.mu.Lock()
	defer l.mu.Unlock()
	return l.n[msg]
}

// ------------------------------------------------------------------- execution

type chainStats struct {
	scenarios, asks, served, fromCache, errs, noResp          int64
	staleHits, parked, refreshSeenOwnKey, hitsStoredAfterFail int64
	releaseTimeouts, bgFailed                                 int64
}

var (
	chainTot  chainStats
	chainSeen = map[string]bool{} // hit classes
)

type chainFinding struct {
	key, what string
	witness   map[string]any
}

type chainRun struct {
	cc    *chainCase
	up    *chainUp
	logs  *logCounter
	seq   *sequence.Sequence
	cache *cache.Cache
	st    chainStats
	// lazy bookkeeping
	bgSeqFor       map[string]int // client question -> seq of its parked refresh
	pendingStale   int
	lastStoreShort time.Time
	findings       []chainFinding
	pc             int
}

func (c *chainCase) build() (*chainRun, error) {
	for _, l := range [][]*rewriter{c.Pre, c.Post} {
		for _, rw := range l {
			rw.init()
		}
	}
	r := &chainRun{cc: c, logs: &logCounter{n: map[string]int{}}, bgSeqFor: map[string]int{}}
	r.up = &chainUp{cc: c, short: map[string]bool{}, bgFail: map[string]bool{}, open: make(chan struct{}), parked: make(chan int, 64)}
	for _, n := range c.ShortTTL {
		r.up.short[strings.ToLower(n)] = true
	}
	args := &cache.Args{Size: 4096}
	if c.Lazy {
		args.LazyCacheTTL = 86400
	}
	r.cache = cache.NewCache(args, cache.Opts{Logger: zap.New(r.logs)})
	plugins := map[string]any{"c04_cache": r.cache, "c04_upstream": r.up, "c04_post": chainPost{r.up}}
	var rules []sequence.RuleArgs
	add := func(side string, l []*rewriter) error {
		for i, rw := range l {
			tag := fmt.Sprintf("c04_%s%d_%s", side, i, rw.Kind)
			switch rw.Kind {
			case "redirect":
				p, err := redirect.NewRedirect(&redirect.Args{Rules: rw.Rules})
				if err != nil {
					return err
				}
				plugins[tag] = p
			case "lowercase":
				plugins[tag] = lowerWrap{}
			default:
				return fmt.Errorf("unknown rewriter %q", rw.Kind)
			}
			rules = append(rules, sequence.RuleArgs{Exec: "$" + tag})
		}
		return nil
	}
	if len(c.Hosted) > 0 {
		h := chainHosts{u: r.up, hosted: map[string]bool{}}
		for _, n := range c.Hosted {
			h.hosted[strings.ToLower(n)] = true
		}
		plugins["c04_hosts"] = h
		rules = append(rules, sequence.RuleArgs{Exec: "$c04_hosts"})
	}
	if err := add("pre", c.Pre); err != nil {
		return nil, err
	}
	rules = append(rules, sequence.RuleArgs{Exec: "$c04_cache"}, sequence.RuleArgs{Matches: []string{"has_resp"}, Exec: "accept"})
	if err := add("post", c.Post); err != nil {
		return nil, err
	}
	rules = append(rules, sequence.RuleArgs{Exec: "$c04_upstream"}, sequence.RuleArgs{Exec: "$c04_post"})
	c.Rules = c.Rules[:0]
	for _, ra := range rules {
		s := "exec: " + ra.Exec
		if len(ra.Matches) > 0 {
			s = "matches: " + strings.Join(ra.Matches, ",") + "; " + s
		}
		c.Rules = append(c.Rules, s)
	}
	m := coremain.NewTestMosdnsWithPlugins(plugins)
	seq, err := sequence.NewSequence(sequence.NewBQ(m, zap.NewNop()), rules)
	if err != nil {
		return nil, err
	}
	r.seq = seq
	return r, nil
}

func (r *chainRun) close() {
	// let background refreshes run out before the cache goes away
	r.up.release()
	deadline := time.Now().Add(10 * time.Second)
	for r.up.bgActive.Load() > 0 && time.Now().Before(deadline) {
		time.Sleep(time.Millisecond)
	}
	_ = r.seq.Close()
	_ = r.cache.Close()
}

func (q chainQ) msg(id uint16) *query_context.Context {
	m := new(dns.Msg)
	m.Id = id
	m.RecursionDesired = true
	m.AuthenticatedData, m.CheckingDisabled = q.AD, q.CD
	m.Question = []dns.Question{{Name: q.Name, Qtype: q.Type, Qclass: q.Class}}
	qCtx := query_context.NewContext(m)
	if q.DO {
		qCtx.QOpt().SetDo()
	}
	return qCtx
}

// ask runs one client query through the sequence and judges what is served.
// It returns the seq of the marker that was served (-1 if nothing was served).
func (r *chainRun) ask(step int, st chainStep) (servedSeq int, stale bool) {
	q := *st.Q
	r.up.mu.Lock()
	callsBefore := len(r.up.calls)
	r.up.mu.Unlock()
	qCtx := q.msg(uint16(1000 + step))
	ctx := context.WithValue(context.Background(), planKey{}, &plan{fail: st.Fail, asker: q})
	err := r.seq.Exec(ctx, qCtx)
	r.st.asks++
	if err != nil {
		r.st.errs++ // the server answers SERVFAIL itself: nothing from the chain is served
		return -1, false
	}
	resp := qCtx.R()
	if resp == nil {
		r.st.noResp++
		return -1, false
	}
	r.st.served++
	wit := func(extra map[string]any) map[string]any {
		w := map[string]any{
			"step": step, "client_question": q.String(), "served_response": resp.String(),
			"question_the_cache_sees": r.cc.cacheName(q), "question_the_upstream_must_be_asked": r.cc.upName(q),
		}
		for k, v := range extra {
			w[k] = v
		}
		return w
	}
	// finding keys: one per mechanism class (plain chain / around a lazy
	// refresh); where the rewriters stand is part of the text
	where, keySuffix := r.cc.where(), ""
	if len(r.bgSeqFor) > 0 {
		keySuffix = ".around-lazy-refresh"
	}
	if len(resp.Question) != 1 || resp.Question[0].Name != q.Name || resp.Question[0].Qtype != q.Type || resp.Question[0].Qclass != q.Class {
		r.findings = append(r.findings, chainFinding{
			key:     "chain-foreign-question" + keySuffix,
			what:    fmt.Sprintf("layout %s (%s): client query %s (step %d, role %s) was served a response whose question section is %v", r.cc.Layout, where, q, step, r.cc.role(q), questionsText(resp)),
			witness: wit(r.sourceOf(resp)),
		})
		return -1, false
	}
	seq, txt, ttl := chainMarkerOf(resp)
	r.up.mu.Lock()
	var call *upCall
	if seq >= 0 && seq < len(r.up.calls) {
		c := r.up.calls[seq]
		call = &c
	}
	r.up.mu.Unlock()
	if call == nil || call.Txt != txt {
		rep.Inconclusive("chain %s: step %d served a response without a marker the upstream issued: %s", r.cc.Layout, step, strings.ReplaceAll(resp.String(), "\n", " | "))
		return -1, false
	}
	// (names compare case-insensitively: spellings of one name may share an entry)
	nameOK := strings.EqualFold(call.Name, r.cc.upName(q))
	wantText := fmt.Sprintf("the upstream has to be asked %q", r.cc.upName(q))
	if call.Hosts { // answered in front of the rewriters: for the client's name itself, or (stored) for the name the cache sees
		nameOK = strings.EqualFold(call.Name, q.Name) || strings.EqualFold(call.Name, r.cc.cacheName(q))
		wantText = fmt.Sprintf("the plugin in front answers %q (the cache sees %q)", q.Name, r.cc.cacheName(q))
	}
	if !nameOK || call.Type != q.Type || call.Class != q.Class || call.Flags != q.flagsText() {
		r.findings = append(r.findings, chainFinding{
			key:     "chain-foreign-answer" + keySuffix,
			what:    fmt.Sprintf("layout %s (%s): client query %s (step %d, role %s) was served the answer given to [%q type=%d class=%d flags=%s]; for this client question %s with flags %s", r.cc.Layout, where, q, step, r.cc.role(q), call.Name, call.Type, call.Class, call.Flags, wantText, q.flagsText()),
			witness: wit(map[string]any{"answer_came_from_call": call}),
		})
		return -1, false
	}
	if seq < callsBefore { // issued before this client query started: served from the cache
		r.st.fromCache++
		src := "stored-by-" + call.AskerRole
		if call.Background {
			src = "stored-by-background-refresh"
		}
		if call.Hosts {
			src += "-answered-in-front-of-the-rewriters"
		}
		if call.Failed != "" {
			src += "-whose-chain-failed-" + call.Failed
			r.st.hitsStoredAfterFail++
		}
		kind := "fresh"
		if r.cc.Lazy && ttl == 5 {
			kind, stale = "stale", true
		}
		fp := fmt.Sprintf("chain/%s/lazy=%v/%s-asker/%s/%s-hit", r.cc.Layout, r.cc.Lazy, r.cc.role(q), src, kind)
		chainSeen[fp] = true
		rep.Nontrivial(fp + "/" + q.flagsText() + "/" + strconv.Itoa(int(q.Type)) + "/" + strconv.Itoa(int(q.Class)) + "/len" + strconv.Itoa(len(r.cc.cacheName(q))))
	} else if r.up.short[strings.ToLower(call.Name)] {
		r.lastStoreShort = time.Now()
	}
	return seq, stale
}

func (r *chainRun) sourceOf(resp *dns.Msg) map[string]any {
	seq, txt, _ := chainMarkerOf(resp)
	r.up.mu.Lock()
	defer r.up.mu.Unlock()
	if seq >= 0 && seq < len(r.up.calls) && r.up.calls[seq].Txt == txt {
		return map[string]any{"answer_came_from_call": r.up.calls[seq]}
	}
	return nil
}

func questionsText(m *dns.Msg) string {
	var s []string
	for _, q := range m.Question {
		s = append(s, fmt.Sprintf("[%q type=%d class=%d]", q.Name, q.Qtype, q.Qclass))
	}
	return "{" + strings.Join(s, " ") + "}"
}

func chainMarkerOf(m *dns.Msg) (seq int, txt string, ttl uint32) {
	for _, rr := range m.Answer {
		if t, ok := rr.(*dns.TXT); ok && len(t.Txt) == 1 && strings.HasPrefix(t.Txt[0], chainMarker) {
			rest := t.Txt[0][len(chainMarker):]
			if i := strings.IndexByte(rest, ':'); i > 0 {
				if n, err := strconv.Atoi(rest[:i]); err == nil {
					return n, t.Txt[0], t.Hdr.Ttl
				}
			}
		}
	}
	return -1, "", 0
}

const chainWatchdog = 10 * time.Second

// advance executes the script from the current position. With stopAtWait it
// returns true in front of a wait-stale step (to be continued later, so that
// the waits of many scenarios overlap); otherwise it runs to the end.
func (r *chainRun) advance(stopAtWait bool) (waiting bool) {
	for ; r.pc < len(r.cc.Steps); r.pc++ {
		i, st := r.pc, r.cc.Steps[r.pc]
		switch st.Op {
		case "ask":
			seq, _ := r.ask(i, st)
			if want, ok := r.bgSeqFor[st.Q.String()]; ok && seq >= want && seq >= 0 {
				r.st.refreshSeenOwnKey++
				delete(r.bgSeqFor, st.Q.String())
			}
		case "wait-stale":
			if stopAtWait {
				return true
			}
			if d := time.Until(r.lastStoreShort.Add(1100 * time.Millisecond)); d > 0 {
				time.Sleep(d)
			}
		case "ask-stale":
			r.up.mu.Lock()
			r.up.armed = true
			if st.Fail == "after-response" { // the refresh this query starts fails behind the upstream
				r.up.bgFail[strings.ToLower(r.cc.upName(*st.Q))] = true
			}
			r.up.mu.Unlock()
			_, stale := r.ask(i, chainStep{Op: st.Op, Q: st.Q})
			if len(r.findings) > 0 {
				continue
			}
			if !stale {
				rep.Inconclusive("chain %s: step %d (%s) was expected to be a stale hit of the lazy cache and was not", r.cc.Layout, i, st.Q)
				r.pc = len(r.cc.Steps)
				return false
			}
			r.st.staleHits++
			select {
			case seq := <-r.up.parked:
				r.bgSeqFor[st.Q.String()] = seq
				r.st.parked++
				r.pendingStale++
			case <-time.After(chainWatchdog):
				rep.Inconclusive("chain %s: step %d (%s): the stale hit did not start a background refresh within %v", r.cc.Layout, i, st.Q, chainWatchdog)
				r.pc = len(r.cc.Steps)
				return false
			}
		case "release":
			r.up.release()
			// sequencing aid only: the refresh goroutine logs this after it stored
			deadline := time.Now().Add(3 * time.Second)
			for r.logs.count("lazy cache updated") < r.pendingStale && time.Now().Before(deadline) {
				time.Sleep(200 * time.Microsecond)
			}
			if r.logs.count("lazy cache updated") < r.pendingStale {
				r.st.releaseTimeouts++
			}
		}
	}
	if len(r.findings) == 0 && len(r.bgSeqFor) > 0 {
		// a refresh that was let go has not been seen under its own question yet:
		// keep asking (every ask is judged) until it shows up
		deadline := time.Now().Add(chainWatchdog)
		for len(r.bgSeqFor) > 0 && len(r.findings) == 0 && time.Now().Before(deadline) {
			for i, st := range r.cc.Steps {
				if st.Op != "ask-stale" {
					continue
				}
				want, ok := r.bgSeqFor[st.Q.String()]
				if !ok {
					continue
				}
				if seq, _ := r.ask(i, chainStep{Op: "ask", Q: st.Q}); seq >= want {
					r.st.refreshSeenOwnKey++
					delete(r.bgSeqFor, st.Q.String())
				}
			}
			time.Sleep(2 * time.Millisecond)
		}
		if len(r.bgSeqFor) > 0 && len(r.findings) == 0 {
			rep.Inconclusive("chain %s (scenario seed %d): %d background refreshes finished at the upstream but their answers never showed up under the questions that started them", r.cc.Layout, r.cc.Seed, len(r.bgSeqFor))
		}
	}
	return false
}

func (u *chainUp) release() {
	u.mu.Lock()
	u.armed = false
	close(u.open)
	u.open = make(chan struct{})
	u.mu.Unlock()
}

// ------------------------------------------------------------------ generation

type chainGen struct {
	rng  *rand.Rand
	used map[string]bool
}

const ldh = "abcdefghijklmnopqrstuvwxyz0123456789"

// name returns a fresh lower-case LDH name of exactly n text bytes (with the
// trailing dot), n >= 8.
func (g *chainGen) name(n int) string {
	for {
		rem := n - len(".c04.") // labels before the suffix
		var labels []string
		for rem > 0 {
			l := 1 + g.rng.Intn(20)
			if l > rem {
				l = rem
			}
			if rem-l == 1 { // would leave room for a dot only
				l = rem
			}
			if l > 63 {
				l = 63
			}
			b := make([]byte, l)
			for i := range b {
				b[i] = ldh[g.rng.Intn(len(ldh))]
			}
			if b[0] >= '0' && b[0] <= '9' {
				b[0] = 'x'
			}
			labels = append(labels, string(b))
			rem -= l + 1
		}
		s := strings.Join(labels, ".") + ".c04."
		if len(s) == n && !g.used[s] {
			g.used[s] = true
			return s
		}
		if len(s) != n { // the last label swallowed the separator: retry with another split
			continue
		}
	}
}

func (g *chainGen) mixCase(s string) string {
	b := []byte(s)
	changed := false
	for i := range b {
		if b[i] >= 'a' && b[i] <= 'z' && g.rng.Intn(3) == 0 {
			b[i] -= 'a' - 'A'
			changed = true
		}
	}
	if !changed {
		for i := range b {
			if b[i] >= 'a' && b[i] <= 'z' {
				b[i] -= 'a' - 'A'
				break
			}
		}
	}
	return string(b)
}

func (g *chainGen) someLen() int {
	// key length = 6 + len(name): cover the buffer size classes 16..31, 32..63, 64..127, 128..255
	switch g.rng.Intn(5) {
	case 0:
		return 8 + g.rng.Intn(10)
	case 1:
		return 18 + g.rng.Intn(8)
	case 2:
		return 26 + g.rng.Intn(32)
	case 3:
		return 58 + g.rng.Intn(64)
	}
	return 122 + g.rng.Intn(100)
}

var chainLayouts = []string{
	"redirect>cache",
	"cache>redirect",
	"redirect>cache>redirect",
	"lowercase>cache",
	"lowercase>cache>redirect",
	"cache",
	// a plugin in front of everything already set a response (not used for the lazy scripts)
	"hosts>redirect>cache",
	"hosts>lowercase>cache",
	"hosts>cache>redirect",
}

const chainLazyLayouts = 6

// group is a list of names n0 -> n1 -> ... -> nk the rewriters walk through
// (n0 is what the client asks, nk what the upstream is asked).
type chainUniverse struct {
	groups [][]string
	plains []string
}

func (g *chainGen) universe(c *chainCase, nGroups int) chainUniverse {
	var u chainUniverse
	pre, post := &rewriter{Kind: "redirect"}, &rewriter{Kind: "redirect"}
	base := strings.TrimPrefix(c.Layout, "hosts>")
	for i := 0; i < nGroups; i++ {
		a, m, t := g.name(g.someLen()), g.name(g.someLen()), g.name(g.someLen())
		switch base {
		case "redirect>cache":
			pre.Rules = append(pre.Rules, a+" "+t)
			u.groups = append(u.groups, []string{a, t})
		case "cache>redirect":
			post.Rules = append(post.Rules, a+" "+t)
			u.groups = append(u.groups, []string{a, t})
		case "redirect>cache>redirect":
			switch i % 3 {
			case 0:
				pre.Rules = append(pre.Rules, a+" "+m)
				post.Rules = append(post.Rules, m+" "+t)
				u.groups = append(u.groups, []string{a, m, t})
			case 1:
				pre.Rules = append(pre.Rules, a+" "+t)
				u.groups = append(u.groups, []string{a, t})
			default:
				post.Rules = append(post.Rules, a+" "+t)
				u.groups = append(u.groups, []string{a, t})
			}
		case "lowercase>cache":
			u.groups = append(u.groups, []string{g.mixCase(a), a})
		case "lowercase>cache>redirect":
			if i%2 == 0 {
				post.Rules = append(post.Rules, a+" "+t)
				u.groups = append(u.groups, []string{g.mixCase(a), a, t})
			} else {
				u.groups = append(u.groups, []string{g.mixCase(a), a})
			}
		default:
			u.groups = append(u.groups, []string{a})
		}
	}
	if strings.HasPrefix(base, "lowercase>") {
		c.Pre = append(c.Pre, &rewriter{Kind: "lowercase"})
	}
	if len(pre.Rules) > 0 {
		c.Pre = append(c.Pre, pre)
	}
	if len(post.Rules) > 0 {
		c.Post = append(c.Post, post)
	}
	for i := 0; i < 3; i++ {
		u.plains = append(u.plains, g.name(g.someLen()))
	}
	if base != c.Layout {
		for _, grp := range u.groups {
			c.Hosted = append(c.Hosted, strings.ToLower(grp[0]))
		}
		c.Hosted = append(c.Hosted, u.plains[0])
	}
	return u
}

func (g *chainGen) flags(q *chainQ) {
	if g.rng.Intn(3) == 0 {
		f := g.rng.Intn(8)
		q.AD, q.CD, q.DO = f&1 != 0, f&2 != 0, f&4 != 0
	}
}

var chainTypes = []uint16{dns.TypeA, dns.TypeAAAA, dns.TypeTXT, dns.TypeCAA, dns.TypeHTTPS, dns.TypeCNAME}

func (g *chainGen) fail() string {
	switch x := g.rng.Intn(10); {
	case x < 2:
		return "after-response"
	case x < 3:
		return "no-response"
	}
	return ""
}

// scriptScenario: structured openings for every group (alias first / target
// first / failure first) followed by a random tail over the whole universe.
func genScriptScenario(seed int64, layout string, lazy bool) *chainCase {
	g := &chainGen{rng: rand.New(rand.NewSource(seed)), used: map[string]bool{}}
	c := &chainCase{Layout: layout, Lazy: lazy, Seed: seed}
	u := g.universe(c, 3)
	ask := func(name string, tmpl chainQ, fail string) {
		q := tmpl
		q.Name = name
		c.Steps = append(c.Steps, chainStep{Op: "ask", Q: &q, Fail: fail})
	}
	for gi, grp := range u.groups {
		tmpl := chainQ{Type: chainTypes[g.rng.Intn(2)], Class: dns.ClassINET}
		g.flags(&tmpl)
		first, last := grp[0], grp[len(grp)-1]
		switch (gi + int(seed)) % 3 {
		case 0: // a failing alias query, the alias again, then everything behind it
			ask(first, tmpl, "after-response")
			ask(first, tmpl, "")
			for _, n := range grp[1:] {
				ask(n, tmpl, "")
			}
			ask(first, tmpl, "")
		case 1: // target first
			ask(last, tmpl, "")
			ask(first, tmpl, "")
			for k := len(grp) - 1; k >= 0; k-- {
				ask(grp[k], tmpl, "")
			}
		default: // alias, then a failing query for what is behind it
			ask(first, tmpl, "")
			for _, n := range grp[1:] {
				ask(n, tmpl, "after-response")
				ask(n, tmpl, "")
			}
			ask(first, tmpl, "no-response")
			ask(first, tmpl, "")
		}
	}
	var all []string
	for _, grp := range u.groups {
		all = append(all, grp...)
	}
	all = append(all, u.plains...)
	for k := 0; k < 36; k++ {
		q := chainQ{Name: all[g.rng.Intn(len(all))], Type: chainTypes[g.rng.Intn(len(chainTypes))], Class: dns.ClassINET}
		if g.rng.Intn(3) > 0 {
			q.Type = chainTypes[g.rng.Intn(2)]
		}
		if g.rng.Intn(8) == 0 {
			q.Class = dns.ClassCHAOS
		}
		if g.rng.Intn(7) == 0 {
			q.Name = g.mixCase(q.Name)
		}
		g.flags(&q)
		c.Steps = append(c.Steps, chainStep{Op: "ask", Q: &q, Fail: g.fail()})
	}
	return c
}

// sibling returns fresh names whose cache key has the same length as that of name.
func (g *chainGen) siblings(name string, n int) []string {
	var out []string
	for i := 0; i < n; i++ {
		out = append(out, g.name(len(name)))
	}
	return out
}

// lazyScenario: entries of several lengths go stale, their background
// refreshes are held at the upstream while other queries (same key length and
// other lengths, cached and not yet cached) pass through the same cache; then
// the refreshes finish and everything is asked again.
func genLazyScenario(seed int64, layout string, procs int) *chainCase {
	g := &chainGen{rng: rand.New(rand.NewSource(seed)), used: map[string]bool{}}
	c := &chainCase{Layout: layout, Lazy: true, Seed: seed, Procs: procs}
	u := g.universe(c, 3)
	for _, l := range [][]*rewriter{c.Pre, c.Post} {
		for _, rw := range l {
			rw.init()
		}
	}
	tmpl := chainQ{Type: dns.TypeA, Class: dns.ClassINET}
	g.flags(&tmpl)
	mk := func(name string) *chainQ { q := tmpl; q.Name = name; return &q }
	var slow []*chainQ
	for _, grp := range u.groups {
		slow = append(slow, mk(grp[0]))
	}
	slow = append(slow, mk(u.plains[0]))
	var same, mixed []*chainQ
	for _, s := range slow {
		c.ShortTTL = append(c.ShortTTL, c.upName(*s))
		for _, n := range g.siblings(c.cacheName(*s), 3) {
			same = append(same, mk(n))
		}
	}
	for i := 0; i < 4; i++ {
		mixed = append(mixed, mk(g.name(g.someLen())))
	}
	for _, grp := range u.groups { // what is behind the aliases is asked in between as well
		if len(grp) > 1 && g.rng.Intn(2) == 0 {
			q := mk(grp[len(grp)-1])
			q.Type = dns.TypeAAAA
			mixed = append(mixed, q)
		}
	}
	ask := func(q *chainQ) { c.Steps = append(c.Steps, chainStep{Op: "ask", Q: q}) }
	for _, s := range slow {
		ask(s)
	}
	for i, q := range same { // some of the others are cached beforehand, some are not
		if i%2 == 0 {
			ask(q)
		}
	}
	ask(mixed[0])
	c.Steps = append(c.Steps, chainStep{Op: "wait-stale"})
	for i, s := range slow {
		st := chainStep{Op: "ask-stale", Q: s}
		if (i+int(seed&1))%2 == 1 {
			st.Fail = "after-response"
		}
		c.Steps = append(c.Steps, st)
	}
	for _, q := range mixed {
		ask(q)
	}
	g.rng.Shuffle(len(same), func(i, j int) { same[i], same[j] = same[j], same[i] })
	for _, q := range same {
		ask(q)
	}
	c.Steps = append(c.Steps, chainStep{Op: "release"})
	for _, q := range same {
		ask(q)
	}
	for _, q := range mixed {
		ask(q)
	}
	for _, s := range slow {
		ask(s)
	}
	for _, q := range same {
		ask(q)
	}
	return c
}

// ----------------------------------------------------------------------- phase

func (st *chainStats) add(o chainStats) {
	st.scenarios += o.scenarios
	st.asks += o.asks
	st.served += o.served
	st.fromCache += o.fromCache
	st.errs += o.errs
	st.noResp += o.noResp
	st.staleHits += o.staleHits
	st.parked += o.parked
	st.refreshSeenOwnKey += o.refreshSeenOwnKey
	st.hitsStoredAfterFail += o.hitsStoredAfterFail
	st.releaseTimeouts += o.releaseTimeouts
	st.bgFailed += o.bgFailed
}

// startChainCase builds the sequence and runs the script up to its first
// wait-stale step (or to the end).
func startChainCase(c *chainCase) *chainRun {
	caselog.Log(map[string]any{"phase": "chains", "layout": c.Layout, "lazy": c.Lazy, "seed": c.Seed, "steps": len(c.Steps), "gomaxprocs": c.Procs})
	r, err := c.build()
	if err != nil {
		rep.Inconclusive("chain %s: cannot build the sequence under test: %v", c.Layout, err)
		return nil
	}
	r.st.scenarios++
	r.advance(true)
	return r
}

// finishChainCase runs the rest of the script and reports the findings (the
// first witness per key carries the whole script as the replay case).
func finishChainCase(r *chainRun, replayKey string) int {
	if r == nil {
		return 0
	}
	c := r.cc
	if r.pc < len(c.Steps) {
		caselog.Log(map[string]any{"phase": "chains", "layout": c.Layout, "lazy": c.Lazy, "seed": c.Seed, "continued_at_step": r.pc, "gomaxprocs": c.Procs})
		if c.Procs > 0 {
			old := runtime.GOMAXPROCS(c.Procs)
			defer runtime.GOMAXPROCS(old)
		}
		r.advance(false)
	}
	r.close()
	r.st.bgFailed = int64(r.up.bgFailed.Load())
	chainTot.add(r.st)
	seen := map[string]bool{}
	for _, f := range r.findings {
		if seen[f.key] {
			rep.Violation(pick(replayKey, f.key), f.what, nil) // counts only
			continue
		}
		seen[f.key] = true
		cc := *c
		r.up.mu.Lock()
		calls := append([]upCall(nil), r.up.calls...)
		r.up.mu.Unlock()
		if len(calls) > 40 {
			calls = calls[len(calls)-40:]
		}
		f.witness["answers_issued_so_far_last_40"] = calls
		cc.Witness = f.witness
		key := pick(replayKey, f.key)
		rep.Violation(key, f.what, replayCase{Key: key, Family: "chains/" + c.Layout, Via: "sequence", Lazy: c.Lazy, Chain: &cc,
			Note: "replay re-runs chain.script through the same sequence (chain.sequence_rules) and judges every served response: question section == client question, marker issued by the upstream for the question the rewriters lead to"})
	}
	return len(r.findings)
}

func runChainCase(c *chainCase, replayKey string) int {
	return finishChainCase(startChainCase(c), replayKey)
}

func pick(a, b string) string {
	if a != "" {
		return a
	}
	return b
}

// runChains is the chain phase of a normal run. It runs before the parallel
// families start so that nothing else uses the process while refreshes are
// parked (the lazy scenarios also run with a single P).
func runChains(thorough bool, seed int64) {
	rng := rand.New(rand.NewSource(seed*7907 + 0xc4a1))
	rounds := 2
	if thorough {
		rounds = 12
	}
	var lazy []*chainCase
	for k := 0; k < rounds; k++ {
		for li, layout := range chainLayouts[:chainLazyLayouts] {
			procs := 0
			if (li+k)%2 == 0 {
				procs = 1
			}
			lazy = append(lazy, genLazyScenario(rng.Int63(), layout, procs))
		}
	}
	var scripts []*chainCase
	for k := 0; k < rounds*2; k++ {
		for _, layout := range chainLayouts {
			scripts = append(scripts, genScriptScenario(rng.Int63(), layout, k%2 == 1))
		}
	}
	// the lazy scenarios are primed first; their entries age while the scripts
	// that do not wait are run
	var primed []*chainRun
	for _, c := range lazy {
		primed = append(primed, startChainCase(c))
	}
	for _, c := range scripts {
		runChainCase(c, "")
	}
	for _, r := range primed {
		finishChainCase(r, "")
	}
	chainEvidence()
}

func chainEvidence() {
	rep.Eval(int(chainTot.asks))
	rep.Count("chain_scenarios", chainTot.scenarios)
	rep.Count("chain_client_queries", chainTot.asks)
	rep.Count("chain_responses_served_and_judged", chainTot.served)
	rep.Count("chain_served_from_cache", chainTot.fromCache)
	rep.Count("chain_client_queries_ending_in_injected_error", chainTot.errs)
	rep.Count("chain_hits_on_entries_stored_by_a_query_whose_chain_failed", chainTot.hitsStoredAfterFail)
	rep.Count("chain_lazy_stale_hits", chainTot.staleHits)
	rep.Count("chain_lazy_refreshes_parked_at_upstream", chainTot.parked)
	rep.Count("chain_lazy_refreshes_seen_under_their_own_question", chainTot.refreshSeenOwnKey)
	rep.Count("chain_lazy_release_waits_timed_out", chainTot.releaseTimeouts)
	rep.Count("chain_lazy_refreshes_failed_behind_the_upstream", chainTot.bgFailed)
	cl := make([]string, 0, len(chainSeen))
	for k := range chainSeen {
		cl = append(cl, k)
	}
	sort.Strings(cl)
	rep.Extra("chain_hit_classes_observed", cl)
	if rep.ReplayFile == "" {
		if chainTot.fromCache == 0 || chainTot.parked == 0 {
			rep.Inconclusive("chain phase observed nothing: %d hits, %d parked refreshes", chainTot.fromCache, chainTot.parked)
		}
	}
}

// replayChain re-executes a chain witness (schedule dependent for the lazy
// scripts: repeated until it shows again).
func replayChain(c *chainCase, key string) {
	n := 1
	if c.Lazy {
		n = 8
	}
	for i := 0; i < n; i++ {
		cc := *c
		cc.Pre, cc.Post = cloneRewriters(c.Pre), cloneRewriters(c.Post)
		if runChainCase(&cc, key) > 0 {
			break
		}
	}
	chainEvidence()
}

func cloneRewriters(l []*rewriter) []*rewriter {
	var out []*rewriter
	for _, rw := range l {
		out = append(out, &rewriter{Kind: rw.Kind, Rules: append([]string(nil), rw.Rules...)})
	}
	return out
}
