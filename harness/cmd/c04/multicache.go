package main

// Multi-cache phase: SEVERAL cache plugins on one path of a sequence, with
// plugins between them that rewrite the question or copy the query context.
//
// The chain phase (chains.go) has exactly one cache per sequence. Here every
// sequence has two or three real cache plugins and, between them, the real
// dual_selector (prefer_ipv4 / prefer_ipv6: copies the context twice and
// rewrites the qtype of one copy for its reference query, both copies walk the
// rest of the sequence concurrently), the real redirect (rewrites the name in
// place) or both. The upstream stub answers with a marker naming the question
// IT was asked; the TTL it uses is a function of (name, type), so that the
// entries for one name expire at different times in the caches, and a name may
// have address records of none / one / both of the address types (which decides
// whether dual_selector passes the original answer or blocks it).
//
// Scripts: histories of several client queries for the same names with
// different qtypes, flags and classes, "wait-expiry" steps (entries issued with
// ttl 1 expire, the others stay), and for every query that makes dual_selector
// fork an ORDER in which the two forked walks finish behind the selector:
// reference-last, reference-first or free. The order is enforced with events
// (a harness plugin directly behind the selector reports when a walk has
// returned, i.e. after the caches behind it have stored; the upstream holds the
// other walk's answer until then), never with sleeps.
//
// Oracle, for every response served to a client (no error, response set):
//   - its question section is exactly the client's question;
//   - if it carries a marker, the marker was issued by the upstream for the name
//     the rewriters lead to, with the client's type, class and AD/CD/DO;
//   - a response without a marker is what dual_selector itself generates for a
//     query of the non-preferred address type; it is accepted only there.
//
// Nothing is required about TTLs, hit ratios, which cache answered, or whether
// dual_selector blocks or passes.

import (
	"context"
	"fmt"
	"math/rand"
	"sort"
	"strconv"
	"strings"
	"sync"
	"sync/atomic"
	"time"

	"github.com/IrineSistiana/mosdns/v5/coremain"
	"github.com/IrineSistiana/mosdns/v5/pkg/query_context"
	"github.com/IrineSistiana/mosdns/v5/plugin/executable/cache"
	_ "github.com/IrineSistiana/mosdns/v5/plugin/executable/dual_selector"
	"github.com/IrineSistiana/mosdns/v5/plugin/executable/redirect"
	"github.com/IrineSistiana/mosdns/v5/plugin/executable/sequence"
	"github.com/miekg/dns"
	"go.uber.org/zap"
)

const multiRule = " Multi-cache phase (multicache.go): sequences built from rule text with two or three real cache plugins on one path and, between them, the real dual_selector (prefer_ipv4 | prefer_ipv6: forks two copies of the query context, one with the qtype rewritten for its reference query), the real redirect (name rewritten in place) or both (8 layouts x {`matches: has_resp / exec: accept` behind every cache | only `matches: !has_resp` in front of the upstream}); a stub upstream answers with a marker naming the question IT was asked, with a ttl of 1 or 300 per (name, type) and address records of none / one / both address types per name; seeded scripts are histories of client queries for the same names with different qtypes (A, AAAA, TXT, ...), AD/CD/DO, IN/CH, through aliases and targets, with two wait-expiry steps (the ttl-1 entries expire in every cache, the others stay), and every query that makes dual_selector fork is run with an event-enforced order in which the two forked walks finish behind the selector (reference-last | reference-first | free); one case = one client query; every served response is judged: question section == client question, and the marker (if any) was issued by the upstream for the name the redirect leads to with the client's type, class and AD/CD/DO; a marker-less response is accepted only as dual_selector's own empty reply (no records besides redirect's CNAME) to the non-preferred address type; non-trivial = served from a cache, distinct = (layout, accept mode, qtype, who caused the stored answer: a client query's own walk | a dual_selector reference query, survived a wait-expiry step or not, flags, class)."

type mcStep struct {
	Op    string  `json:"op"` // "ask" | "wait-expiry"
	Q     *chainQ `json:"q,omitempty"`
	Order string  `json:"order_of_forked_walks,omitempty"` // "reference-last" | "reference-first" | "" (free)
}

type mcCase struct {
	Layout   string            `json:"layout"`
	Nodes    []string          `json:"plugins_in_order"`
	Accept   bool              `json:"accept_behind_every_cache"`
	Redirect []string          `json:"redirect_rules,omitempty"`
	Addr     map[string]string `json:"address_records_the_upstream_has_per_name,omitempty"` // "a" | "aaaa" | "both"
	ShortTTL []string          `json:"name/type_the_upstream_answers_with_ttl_1,omitempty"`
	Rules    []string          `json:"sequence_rules"`
	Seed     int64             `json:"scenario_seed"`
	Steps    []mcStep          `json:"script"`
	Witness  any               `json:"witness,omitempty"`
}

var multiLayouts = []string{
	"cache>prefer_ipv4>cache",
	"cache>prefer_ipv6>cache",
	"cache>redirect>cache",
	"cache>redirect>prefer_ipv4>cache",
	"cache>prefer_ipv6>redirect>cache",
	"cache>prefer_ipv4>cache>redirect>cache",
	"cache>cache>prefer_ipv6>cache",
	"redirect>cache>prefer_ipv4>cache",
}

// prefer returns the preferred address type of the layout's selector (0: none).
func (c *mcCase) prefer() uint16 {
	for _, n := range c.Nodes {
		switch n {
		case "prefer_ipv4":
			return dns.TypeA
		case "prefer_ipv6":
			return dns.TypeAAAA
		}
	}
	return 0
}

func otherAddrType(t uint16) uint16 {
	if t == dns.TypeA {
		return dns.TypeAAAA
	}
	return dns.TypeA
}

// forks: the selector forks two walks for this client query (unless it already
// knows that the name has the preferred type).
func (c *mcCase) forks(q chainQ) bool {
	p := c.prefer()
	return p != 0 && q.Type == otherAddrType(p)
}

type mcCall struct {
	Seq       int    `json:"seq"`
	Name      string `json:"asked_name"`
	Type      uint16 `json:"type"`
	Class     uint16 `json:"class"`
	Flags     string `json:"ad_cd_do_bits"`
	Txt       string `json:"marker"`
	TTL       uint32 `json:"ttl"`
	Step      int    `json:"during_step"`
	Client    string `json:"client_question_of_that_step"`
	Reference bool   `json:"reference_query_of_dual_selector,omitempty"`
	waits     int
}

type mcAsk struct {
	step   int
	q      chainQ
	order  string
	gated  bool
	done   map[uint16]chan struct{} // closed when the walk of that qtype has returned to the tap
	closed map[uint16]bool
	exits  []uint16
}

type mcFinding struct {
	key, what string
	witness   map[string]any
}

type mcStats struct {
	scenarios, asks, served, fromCache, errs, noResp      int64
	refCalls, hitsStoredByRef, hitsSurvivedWait           int64
	selectorEmpty, reissuedAfterWait, gateTimeouts        int64
	forkedRefLast, forkedRefFirst, forkedAsks, quietFails int64
}

type mcRun struct {
	cc    *mcCase
	seq   *sequence.Sequence
	cs    []*cache.Cache
	table *rewriter

	mu        sync.Mutex
	calls     []mcCall
	short     map[string]bool
	cur       *mcAsk
	waits     int
	lastShort time.Time
	tapActive atomic.Int32

	st       mcStats
	seen     map[string]bool
	fps      []string
	findings []mcFinding
	incon    []string
}

const mcMarker = "c04-multi:"

// ---- harness plugins

type mcTap struct{ r *mcRun }

func (t mcTap) Exec(ctx context.Context, qCtx *query_context.Context, next sequence.ChainWalker) error {
	var typ uint16
	if q := qCtx.Q(); len(q.Question) == 1 {
		typ = q.Question[0].Qtype
	}
	t.r.tapActive.Add(1)
	err := next.ExecNext(ctx, qCtx)
	r := t.r
	r.mu.Lock()
	if a := r.cur; a != nil {
		if ch, ok := a.done[typ]; ok && !a.closed[typ] {
			a.closed[typ] = true
			close(ch)
		}
		a.exits = append(a.exits, typ)
	}
	r.mu.Unlock()
	t.r.tapActive.Add(-1)
	return err
}

type mcUp struct{ r *mcRun }

func (u mcUp) Exec(_ context.Context, qCtx *query_context.Context) error {
	r := u.r
	q := qCtx.Q()
	if len(q.Question) != 1 {
		return fmt.Errorf("c04 multi: upstream got a message without exactly one question")
	}
	qq := q.Question[0]
	fl := b2i(q.AuthenticatedData) | b2i(q.CheckingDisabled)<<1
	if o := q.IsEdns0(); o != nil && o.Do() {
		fl |= 4
	}
	r.mu.Lock()
	a := r.cur
	seq := len(r.calls)
	ttl := uint32(300)
	if r.short[strings.ToLower(qq.Name)+"/"+strconv.Itoa(int(qq.Qtype))] {
		ttl = 1
	}
	call := mcCall{Seq: seq, Name: qq.Name, Type: qq.Qtype, Class: qq.Qclass, Flags: strconv.Itoa(fl), TTL: ttl, waits: r.waits}
	call.Txt = fmt.Sprintf("%s%d:%s:%d:%d:%d", mcMarker, seq, qq.Name, qq.Qtype, qq.Qclass, fl)
	var wait chan struct{}
	if a != nil {
		call.Step, call.Client = a.step, a.q.String()
		call.Reference = a.gated && qq.Qtype != a.q.Type
		if a.gated {
			switch {
			case a.order == "reference-last" && call.Reference:
				wait = a.done[a.q.Type]
			case a.order == "reference-first" && !call.Reference:
				wait = a.done[otherAddrType(a.q.Type)]
			}
		}
	}
	r.calls = append(r.calls, call)
	addr := r.cc.Addr[strings.ToLower(qq.Name)]
	r.mu.Unlock()

	if wait != nil { // sequencing only: hold this answer until the other walk has returned
		select {
		case <-wait:
		case <-time.After(3 * time.Second):
			atomic.AddInt64(&r.st.gateTimeouts, 1)
		}
	}
	m := new(dns.Msg)
	m.SetReply(q)
	m.RecursionAvailable = true
	m.Answer = []dns.RR{&dns.TXT{
		Hdr: dns.RR_Header{Name: qq.Name, Rrtype: dns.TypeTXT, Class: dns.ClassINET, Ttl: ttl},
		Txt: []string{call.Txt},
	}}
	switch {
	case qq.Qtype == dns.TypeA && (addr == "a" || addr == "both"):
		m.Answer = append(m.Answer, &dns.A{Hdr: dns.RR_Header{Name: qq.Name, Rrtype: dns.TypeA, Class: dns.ClassINET, Ttl: ttl}, A: []byte{192, 0, 2, byte(seq)}})
	case qq.Qtype == dns.TypeAAAA && (addr == "aaaa" || addr == "both"):
		ip := make([]byte, 16)
		ip[0], ip[1], ip[2], ip[3], ip[15] = 0x20, 0x01, 0x0d, 0xb8, byte(seq)
		m.Answer = append(m.Answer, &dns.AAAA{Hdr: dns.RR_Header{Name: qq.Name, Rrtype: dns.TypeAAAA, Class: dns.ClassINET, Ttl: ttl}, AAAA: ip})
	}
	if ttl == 1 {
		r.mu.Lock()
		r.lastShort = time.Now()
		r.mu.Unlock()
	}
	qCtx.SetResponse(m)
	return nil
}

// ---- build / run

func (c *mcCase) build() (*mcRun, error) {
	r := &mcRun{cc: c, short: map[string]bool{}, seen: map[string]bool{}, table: &rewriter{Kind: "redirect", Rules: c.Redirect}}
	r.table.init()
	for _, s := range c.ShortTTL {
		r.short[strings.ToLower(s)] = true
	}
	plugins := map[string]any{"c04m_upstream": mcUp{r}, "c04m_tap": mcTap{r}}
	var rules []sequence.RuleArgs
	lastSel := -1
	for i, n := range c.Nodes {
		if strings.HasPrefix(n, "prefer_") {
			lastSel = i
		}
	}
	for i, n := range c.Nodes {
		switch n {
		case "cache":
			cp := cache.NewCache(&cache.Args{Size: 4096}, cache.Opts{Logger: zap.NewNop()})
			r.cs = append(r.cs, cp)
			tag := fmt.Sprintf("c04m_cache%d", len(r.cs))
			plugins[tag] = cp
			rules = append(rules, sequence.RuleArgs{Exec: "$" + tag})
			if c.Accept {
				rules = append(rules, sequence.RuleArgs{Matches: []string{"has_resp"}, Exec: "accept"})
			}
		case "redirect":
			p, err := redirect.NewRedirect(&redirect.Args{Rules: c.Redirect})
			if err != nil {
				return nil, err
			}
			plugins["c04m_redirect"] = p
			rules = append(rules, sequence.RuleArgs{Exec: "$c04m_redirect"})
		case "prefer_ipv4", "prefer_ipv6":
			rules = append(rules, sequence.RuleArgs{Exec: n})
		default:
			return nil, fmt.Errorf("unknown plugin %q", n)
		}
		if i == lastSel {
			rules = append(rules, sequence.RuleArgs{Exec: "$c04m_tap"})
		}
	}
	rules = append(rules, sequence.RuleArgs{Matches: []string{"!has_resp"}, Exec: "$c04m_upstream"})
	c.Rules = c.Rules[:0]
	for _, ra := range rules {
		s := "exec: " + ra.Exec
		if len(ra.Matches) > 0 {
			s = "matches: " + strings.Join(ra.Matches, ",") + "; " + s
		}
		c.Rules = append(c.Rules, s)
	}
	m := coremain.NewTestMosdnsWithPlugins(plugins)
	seq, err := sequence.NewSequence(sequence.NewBQ(m, zap.NewNop()), rules)
	if err != nil {
		return nil, err
	}
	r.seq = seq
	return r, nil
}

func (r *mcRun) quiesce() bool {
	deadline := time.Now().Add(chainWatchdog)
	for r.tapActive.Load() > 0 {
		if time.Now().After(deadline) {
			return false
		}
		time.Sleep(200 * time.Microsecond)
	}
	return true
}

func (r *mcRun) close() {
	r.quiesce()
	_ = r.seq.Close()
	for _, c := range r.cs {
		_ = c.Close()
	}
}

func (r *mcRun) upName(q chainQ) string { return r.table.apply(q.Name, q.Class) }

func (r *mcRun) hasRedirect() bool {
	for _, n := range r.cc.Nodes {
		if n == "redirect" {
			return true
		}
	}
	return false
}

func (r *mcRun) ask(step int, st mcStep) {
	q := *st.Q
	a := &mcAsk{step: step, q: q, order: st.Order, gated: r.cc.forks(q), closed: map[uint16]bool{},
		done: map[uint16]chan struct{}{dns.TypeA: make(chan struct{}), dns.TypeAAAA: make(chan struct{})}}
	r.mu.Lock()
	r.cur = a
	callsBefore := len(r.calls)
	waitsNow := r.waits
	r.mu.Unlock()
	qCtx := q.msg(uint16(3000 + step))
	err := r.seq.Exec(context.Background(), qCtx)
	if !r.quiesce() {
		r.st.quietFails++
		r.incon = append(r.incon, fmt.Sprintf("multi-cache %s: step %d (%s): the walks forked by dual_selector did not return within %v", r.cc.Layout, step, q, chainWatchdog))
	}
	r.st.asks++
	r.mu.Lock()
	exits := append([]uint16(nil), a.exits...)
	newCalls := append([]mcCall(nil), r.calls[callsBefore:]...)
	r.mu.Unlock()
	for _, c := range newCalls {
		if c.Reference {
			r.st.refCalls++
		}
	}
	if a.gated && len(exits) == 2 {
		r.st.forkedAsks++
		if len(newCalls) == 2 { // both walks went to the upstream: the order in which they came back is the order of their stores
			if exits[1] != q.Type {
				r.st.forkedRefLast++
			} else {
				r.st.forkedRefFirst++
			}
		}
	}
	if err != nil {
		r.st.errs++
		return
	}
	resp := qCtx.R()
	if resp == nil {
		r.st.noResp++
		return
	}
	r.st.served++
	wit := func(extra map[string]any) map[string]any {
		w := map[string]any{"step": step, "client_question": q.String(), "served_response": resp.String(),
			"question_the_upstream_must_be_asked": fmt.Sprintf("[%q type=%d class=%d flags=%s]", r.upName(q), q.Type, q.Class, q.flagsText()),
			"order_of_forked_walks_requested":     st.Order, "walks_returned_behind_the_selector_in_type_order": exits}
		for k, v := range extra {
			w[k] = v
		}
		return w
	}
	seq, txt := mcMarkerOf(resp)
	var call *mcCall
	r.mu.Lock()
	if seq >= 0 && seq < len(r.calls) && r.calls[seq].Txt == txt {
		c := r.calls[seq]
		call = &c
	}
	r.mu.Unlock()
	if len(resp.Question) != 1 || resp.Question[0].Name != q.Name || resp.Question[0].Qtype != q.Type || resp.Question[0].Qclass != q.Class {
		extra := map[string]any{}
		if call != nil {
			extra["answer_came_from_call"] = call
		}
		r.findings = append(r.findings, mcFinding{
			key:     "multicache-foreign-question",
			what:    fmt.Sprintf("layout %s (accept behind caches: %v): client query %s (step %d) was served a response whose question section is %v", r.cc.Layout, r.cc.Accept, q, step, questionsText(resp)),
			witness: wit(extra),
		})
		return
	}
	if seq < 0 {
		if r.cc.forks(q) && onlyCNAMEs(resp.Answer) { // dual_selector's own empty reply (a redirect in front of it adds its CNAME)
			r.st.selectorEmpty++
			return
		}
		r.incon = append(r.incon, fmt.Sprintf("multi-cache %s: step %d (%s) served a response without a marker that dual_selector cannot have generated: %s", r.cc.Layout, step, q, strings.ReplaceAll(resp.String(), "\n", " | ")))
		return
	}
	if call == nil {
		r.incon = append(r.incon, fmt.Sprintf("multi-cache %s: step %d (%s) served a marker the upstream never issued: %q", r.cc.Layout, step, q, txt))
		return
	}
	if !strings.EqualFold(call.Name, r.upName(q)) || call.Type != q.Type || call.Class != q.Class || call.Flags != q.flagsText() {
		r.findings = append(r.findings, mcFinding{
			key: "multicache-foreign-answer",
			what: fmt.Sprintf("layout %s (accept behind caches: %v): client query %s (step %d) was served the answer the upstream gave to [%q type=%d class=%d flags=%s]; for this client question the upstream has to be asked [%q type=%d class=%d flags=%s]",
				r.cc.Layout, r.cc.Accept, q, step, call.Name, call.Type, call.Class, call.Flags, r.upName(q), q.Type, q.Class, q.flagsText()),
			witness: wit(map[string]any{"answer_came_from_call": call}),
		})
		return
	}
	if seq < callsBefore { // issued before this client query started: served from a cache
		r.st.fromCache++
		src := "own-walk"
		if call.Reference {
			src = "reference-query"
			r.st.hitsStoredByRef++
		}
		age := "same-epoch"
		if call.waits < waitsNow {
			age = "survived-wait-expiry"
			r.st.hitsSurvivedWait++
		}
		role := "plain"
		if r.upName(q) != q.Name {
			role = "alias"
		}
		fp := fmt.Sprintf("multi/%s/accept=%v/type%d/%s/answer-caused-by-%s/%s", r.cc.Layout, r.cc.Accept, q.Type, role, src, age)
		r.seen[fp] = true
		r.fps = append(r.fps, fp+"/"+q.flagsText()+"/"+strconv.Itoa(int(q.Class)))
	} else if waitsNow > 0 {
		r.st.reissuedAfterWait++
	}
}

func onlyCNAMEs(rrs []dns.RR) bool {
	for _, rr := range rrs {
		if rr.Header().Rrtype != dns.TypeCNAME {
			return false
		}
	}
	return true
}

func mcMarkerOf(m *dns.Msg) (seq int, txt string) {
	for _, rr := range m.Answer {
		if t, ok := rr.(*dns.TXT); ok && len(t.Txt) == 1 && strings.HasPrefix(t.Txt[0], mcMarker) {
			rest := t.Txt[0][len(mcMarker):]
			if i := strings.IndexByte(rest, ':'); i > 0 {
				if n, err := strconv.Atoi(rest[:i]); err == nil {
					return n, t.Txt[0]
				}
			}
		}
	}
	return -1, ""
}

func (r *mcRun) run() {
	for i, st := range r.cc.Steps {
		switch st.Op {
		case "ask":
			r.ask(i, st)
		case "wait-expiry":
			r.mu.Lock()
			last := r.lastShort
			r.waits++
			r.mu.Unlock()
			// the stores happen right after the answers were issued (the walks have
			// all returned); 1 s ttl + margin
			if d := time.Until(last.Add(1150 * time.Millisecond)); d > 0 {
				time.Sleep(d)
			}
		}
		if len(r.findings) > 0 || len(r.incon) > 0 {
			break
		}
	}
}

// ---- generation

func genMultiScenario(seed int64, layout string, accept bool) *mcCase {
	g := &chainGen{rng: rand.New(rand.NewSource(seed)), used: map[string]bool{}}
	c := &mcCase{Layout: layout, Nodes: strings.Split(layout, ">"), Accept: accept, Seed: seed, Addr: map[string]string{}}
	hasRedirect := strings.Contains(layout, "redirect")
	pref := c.prefer()
	if pref == 0 {
		pref = []uint16{dns.TypeA, dns.TypeAAAA}[g.rng.Intn(2)]
	}
	non := otherAddrType(pref)
	orders := []string{"reference-last", "reference-first", ""}
	tmpl := chainQ{Class: dns.ClassINET}
	g.flags(&tmpl)

	type ent struct{ client, up string }
	var ents []ent
	const nBase = 9
	perm := g.rng.Perm(nBase)
	steps := func(s mcStep) { c.Steps = append(c.Steps, s) }
	mk := func(name string, typ uint16) *chainQ { q := tmpl; q.Name, q.Type = name, typ; return &q }
	for i := 0; i < nBase; i++ {
		up := g.name(10 + g.rng.Intn(40))
		client := up
		if hasRedirect && g.rng.Intn(2) == 0 {
			client = g.name(10 + g.rng.Intn(40))
			c.Redirect = append(c.Redirect, client+" "+up)
		}
		ents = append(ents, ent{client, up})
		// which (name, type) answers are short-lived: the non-preferred type's, the preferred type's, both or none
		switch (perm[i] / 3) % 3 {
		case 0:
			c.ShortTTL = append(c.ShortTTL, up+"/"+strconv.Itoa(int(non)))
		case 1:
			c.ShortTTL = append(c.ShortTTL, up+"/"+strconv.Itoa(int(pref)))
		default:
			if g.rng.Intn(2) == 0 {
				c.ShortTTL = append(c.ShortTTL, up+"/"+strconv.Itoa(int(non)), up+"/"+strconv.Itoa(int(pref)))
			}
		}
		// address records: mostly the name lacks the preferred type (the selector passes the original answer)
		switch g.rng.Intn(6) {
		case 0:
			c.Addr[up] = "both"
		case 1:
			c.Addr[up] = map[uint16]string{dns.TypeA: "a", dns.TypeAAAA: "aaaa"}[pref]
		case 2, 3:
			c.Addr[up] = map[uint16]string{dns.TypeA: "a", dns.TypeAAAA: "aaaa"}[non]
		}
	}
	// round 1: the non-preferred type of every name, all orders of the forked walks
	for i, e := range ents {
		if g.rng.Intn(4) == 0 {
			steps(mcStep{Op: "ask", Q: mk(e.client, pref)})
		}
		steps(mcStep{Op: "ask", Q: mk(e.client, non), Order: orders[perm[i]%3]})
		if g.rng.Intn(4) == 0 {
			steps(mcStep{Op: "ask", Q: mk(e.client, pref)})
		}
	}
	steps(mcStep{Op: "wait-expiry"})
	// round 2: everything again (aliases and what is behind them), mixed types
	var clients []string
	for _, e := range ents {
		clients = append(clients, e.client)
		if e.up != e.client {
			clients = append(clients, e.up)
		}
	}
	round := func(full bool) {
		g.rng.Shuffle(len(clients), func(i, j int) { clients[i], clients[j] = clients[j], clients[i] })
		for _, n := range clients {
			steps(mcStep{Op: "ask", Q: mk(n, non), Order: orders[g.rng.Intn(3)]})
			if full || g.rng.Intn(2) == 0 {
				steps(mcStep{Op: "ask", Q: mk(n, pref)})
			}
			switch g.rng.Intn(6) {
			case 0:
				steps(mcStep{Op: "ask", Q: mk(n, dns.TypeTXT)})
			case 1:
				q := mk(n, []uint16{non, pref}[g.rng.Intn(2)])
				q.Class = dns.ClassCHAOS
				steps(mcStep{Op: "ask", Q: q})
			case 2:
				q := mk(n, []uint16{non, pref}[g.rng.Intn(2)])
				q.AD, q.CD, q.DO = !q.AD, g.rng.Intn(2) == 0, g.rng.Intn(2) == 0
				steps(mcStep{Op: "ask", Q: q, Order: orders[g.rng.Intn(3)]})
			}
		}
	}
	round(false)
	steps(mcStep{Op: "wait-expiry"})
	round(true)
	return c
}

// ---- phase

var (
	multiTot  mcStats
	multiSeen = map[string]bool{}
)

func (st *mcStats) add(o *mcStats) {
	st.scenarios += o.scenarios
	st.asks += o.asks
	st.served += o.served
	st.fromCache += o.fromCache
	st.errs += o.errs
	st.noResp += o.noResp
	st.refCalls += o.refCalls
	st.hitsStoredByRef += o.hitsStoredByRef
	st.hitsSurvivedWait += o.hitsSurvivedWait
	st.selectorEmpty += o.selectorEmpty
	st.reissuedAfterWait += o.reissuedAfterWait
	st.gateTimeouts += atomic.LoadInt64(&o.gateTimeouts)
	st.forkedRefLast += o.forkedRefLast
	st.forkedRefFirst += o.forkedRefFirst
	st.forkedAsks += o.forkedAsks
	st.quietFails += o.quietFails
}

// execMultiCase builds and runs one scenario (safe to call concurrently: it
// does not touch rep).
func execMultiCase(c *mcCase) (*mcRun, error) {
	r, err := c.build()
	if err != nil {
		return nil, err
	}
	r.st.scenarios++
	r.run()
	r.close()
	return r, nil
}

// reportMultiCase folds the results of a finished scenario into rep.
func reportMultiCase(c *mcCase, r *mcRun, err error, replayKey string) int {
	if err != nil {
		rep.Inconclusive("multi-cache %s: cannot build the sequence under test: %v", c.Layout, err)
		return 0
	}
	multiTot.add(&r.st)
	for k := range r.seen {
		multiSeen[k] = true
	}
	for _, fp := range r.fps {
		rep.Nontrivial(fp)
	}
	for _, s := range r.incon {
		rep.Inconclusive("%s", s)
	}
	seen := map[string]bool{}
	for _, f := range r.findings {
		key := pick(replayKey, f.key)
		if seen[f.key] {
			rep.Violation(key, f.what, nil)
			continue
		}
		seen[f.key] = true
		cc := *c
		calls := append([]mcCall(nil), r.calls...)
		if len(calls) > 40 {
			calls = calls[len(calls)-40:]
		}
		f.witness["answers_issued_so_far_last_40"] = calls
		cc.Witness = f.witness
		rep.Violation(key, f.what, replayCase{Key: key, Family: "multicache/" + c.Layout, Via: "sequence", Multi: &cc,
			Note: "replay re-runs multi.script through the same sequence (multi.sequence_rules; the rule `$c04m_tap` is a pass-through harness plugin that reports when a walk forked by dual_selector has returned) with the same event-enforced orders and judges every served response: question section == client question, marker issued by the upstream for exactly that question (name after redirect, type, class, AD/CD/DO)"})
	}
	return len(r.findings)
}

func runMulti(thorough bool, seed int64) {
	rng := rand.New(rand.NewSource(seed*6007 + 0x3c4c))
	rounds := 1
	if thorough {
		rounds = 6
	}
	var cases []*mcCase
	for k := 0; k < rounds; k++ {
		for _, layout := range multiLayouts {
			for _, accept := range []bool{true, false} {
				cases = append(cases, genMultiScenario(rng.Int63(), layout, accept))
			}
		}
	}
	type res struct {
		r   *mcRun
		err error
	}
	out := make([]res, len(cases))
	// the scenarios are independent sequences; they run side by side so that
	// their wait-expiry steps overlap
	const width = 16
	for lo := 0; lo < len(cases); lo += width {
		hi := lo + width
		if hi > len(cases) {
			hi = len(cases)
		}
		for _, c := range cases[lo:hi] {
			caselog.Log(map[string]any{"phase": "multicache", "layout": c.Layout, "accept": c.Accept, "seed": c.Seed, "steps": len(c.Steps)})
		}
		var wg sync.WaitGroup
		for i := lo; i < hi; i++ {
			wg.Add(1)
			go func(i int) {
				defer wg.Done()
				out[i].r, out[i].err = execMultiCase(cases[i])
			}(i)
		}
		wg.Wait()
	}
	for i, c := range cases {
		reportMultiCase(c, out[i].r, out[i].err, "")
	}
	if len(cases) > 0 {
		rep.Sample(map[string]any{"phase": "multicache", "layout": cases[0].Layout, "sequence_rules": cases[0].Rules, "first_steps": cases[0].Steps[:minInt(6, len(cases[0].Steps))]})
	}
	multiEvidence()
}

func minInt(a, b int) int {
	if a < b {
		return a
	}
	return b
}

func multiEvidence() {
	t := &multiTot
	rep.Eval(int(t.asks))
	rep.Count("multi_scenarios", t.scenarios)
	rep.Count("multi_client_queries", t.asks)
	rep.Count("multi_responses_served_and_judged", t.served)
	rep.Count("multi_served_from_a_cache", t.fromCache)
	rep.Count("multi_hits_on_answers_issued_before_a_wait_expiry_step", t.hitsSurvivedWait)
	rep.Count("multi_answers_issued_again_after_a_wait_expiry_step", t.reissuedAfterWait)
	rep.Count("multi_reference_queries_of_dual_selector_seen_at_upstream", t.refCalls)
	rep.Count("multi_hits_on_answers_caused_by_a_reference_query", t.hitsStoredByRef)
	rep.Count("multi_client_queries_forked_by_dual_selector", t.forkedAsks)
	rep.Count("multi_forked_pairs_both_at_upstream_reference_returned_last", t.forkedRefLast)
	rep.Count("multi_forked_pairs_both_at_upstream_reference_returned_first", t.forkedRefFirst)
	rep.Count("multi_empty_replies_generated_by_dual_selector", t.selectorEmpty)
	rep.Count("multi_order_gate_watchdog_expiries", t.gateTimeouts)
	cl := make([]string, 0, len(multiSeen))
	for k := range multiSeen {
		cl = append(cl, k)
	}
	sort.Strings(cl)
	rep.Extra("multi_hit_classes_observed", cl)
	if rep.ReplayFile == "" {
		if t.fromCache == 0 || t.hitsSurvivedWait == 0 || t.reissuedAfterWait == 0 || t.refCalls == 0 || t.forkedRefLast == 0 || t.forkedRefFirst == 0 {
			rep.Inconclusive("multi-cache phase observed too little: %d hits, %d hits across a wait-expiry step, %d answers issued again after one, %d reference queries, %d / %d forked pairs with the reference returning last / first",
				t.fromCache, t.hitsSurvivedWait, t.reissuedAfterWait, t.refCalls, t.forkedRefLast, t.forkedRefFirst)
		}
	}
}

// replayMulti re-executes a multi-cache witness (the orders are event-enforced;
// repeated a few times all the same).
func replayMulti(c *mcCase, key string) {
	for i := 0; i < 4; i++ {
		cc := *c
		cc.Rules = nil
		r, err := execMultiCase(&cc)
		if reportMultiCase(&cc, r, err, key) > 0 {
			break
		}
	}
	multiEvidence()
}
