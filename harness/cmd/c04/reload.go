package main

// Reload phase: the key distinctions must survive a dump -> load round trip.
//
// The live-cache passes in main.go store and look up inside ONE running cache.
// mosdns can also write the cache to a dump (dump_file at Close, GET /dump) and
// read it back into another cache instance (dump_file at start-up, POST
// /load_dump). Whatever the loader does with the dumped keys and messages, the
// property must hold across it: an answer stored for question+flags X may after
// the round trip only be served to X.
//
// Every family x order therefore also runs this script on fresh caches:
//
//	cache A   stores a seeded subset S of the family's queries (unique marker
//	          per query; the header bits / OPT of the stored RESPONSE are noise
//	          derived from the query's ID: AD, CD, AA, no OPT | OPT | OPT+DO)
//	dump      A -> bytes   (mode: dump_file written by Close | GET /dump)
//	load      bytes -> B   (mode: dump_file read by NewCache | POST /load_dump into
//	          an empty cache | POST /load_dump into a cache that already holds the
//	          answers of the queries NOT in S | dump_file twice (A -> B -> C) |
//	          a real mosdns instance built from a config (cache plugin with
//	          dump_file decoded from a map, sequence plugin from rules), shut
//	          down and started again | the same with /plugins/<tag>/dump and
//	          /plugins/<tag>/load_dump of the instance's API router)
//	ask       ALL queries of the family on the loaded cache
//
// Oracle: a query answered from the loaded cache must carry its own marker or
// the marker of a query asking the same question (name, type, class, AD, CD,
// DO); bypass messages must still bypass. A query of S that is NOT answered
// from the loaded cache is no violation (the statement does not promise that
// dumps are complete) but a job where more than 1% of them are lost is
// inconclusive, because collisions could hide behind the misses.

import (
	"bytes"
	"compress/gzip"
	"context"
	"encoding/binary"
	"fmt"
	"io"
	"net/http"
	"net/http/httptest"
	"os"
	"path/filepath"
	"sort"
	"strconv"
	"strings"
	"sync"

	"github.com/IrineSistiana/mosdns/v5/coremain"
	"github.com/IrineSistiana/mosdns/v5/mlog"
	"github.com/IrineSistiana/mosdns/v5/pkg/query_context"
	"github.com/IrineSistiana/mosdns/v5/plugin/executable/cache"
	"github.com/IrineSistiana/mosdns/v5/plugin/executable/sequence"
	"github.com/miekg/dns"
	"go.uber.org/zap"
	"google.golang.org/protobuf/proto"
)

var aggReload = &aggregator{buckets: map[string]*bucket{}, direct_: map[string]*directFinding{},
	prefix: "reload-", where: "after a dump->load round trip"}

var reloadModes = []string{
	"dump_file+restart",
	"api:/dump>/load_dump-into-empty-cache",
	"api:/dump>/load_dump-into-cache-holding-the-other-queries",
	"dump_file+restart-twice",
	"mosdns-instance-from-config:dump_file+shutdown+start",
	"mosdns-instance-from-config:api-of-the-instance",
}

func reloadModeFor(famIdx, order int) string {
	return reloadModes[(2*famIdx+order)%len(reloadModes)]
}

// reloadInfo is the part of a replay case that describes a reload witness.
type reloadInfo struct {
	Mode   string `json:"mode"`
	Stored []int  `json:"indices_of_queries_stored_before_the_dump"`
	Script string `json:"script"`
}

// ------------------------------------------------------------------- terminal

// reloadTerm is the terminal of the reload script. store=true: answer with the
// marker of the current query, response header shaped by shape.
type reloadTerm struct {
	store      bool
	cur        int
	shape      uint16
	reached    int
	nilAtReach bool
}

func (t *reloadTerm) Exec(_ context.Context, qCtx *query_context.Context) error {
	t.reached++
	if qCtx.R() != nil {
		return nil
	}
	t.nilAtReach = true
	if t.store {
		qCtx.SetResponse(shapedMarker(qCtx.Q(), t.cur, t.shape))
	}
	return nil
}

// shapedMarker is makeMarker with response header bits and an OPT record that
// are unrelated to the query's: what an upstream answers is no part of the
// question (AD = its validation result, CD echoed or not, OPT/DO present or not).
func shapedMarker(q *dns.Msg, i int, shape uint16) *dns.Msg {
	r := makeMarker(q, i)
	r.AuthenticatedData = shape&1 != 0
	r.CheckingDisabled = shape&2 != 0
	r.Authoritative = shape&16 != 0
	switch (shape >> 2) % 3 {
	case 1:
		r.SetEdns0(1232, false)
	case 2:
		r.SetEdns0(1232, true)
	}
	return r
}

func respShapeText(shape uint16) string {
	s := []string{}
	if shape&1 != 0 {
		s = append(s, "AD")
	}
	if shape&2 != 0 {
		s = append(s, "CD")
	}
	if shape&16 != 0 {
		s = append(s, "AA")
	}
	switch (shape >> 2) % 3 {
	case 1:
		s = append(s, "OPT")
	case 2:
		s = append(s, "OPT+DO")
	}
	if len(s) == 0 {
		return "plain"
	}
	return strings.Join(s, ",")
}

// ------------------------------------------------------------ cache under test

const (
	instCacheTag = "c04_cache"
	instTermTag  = "c04_term"
	instMainTag  = "c04_main"
	termType     = "c04_reload_terminal"
)

type termArgs struct{ t *reloadTerm }

var regTermOnce sync.Once

func regTermType() {
	regTermOnce.Do(func() {
		coremain.RegNewPluginFunc(termType, func(_ *coremain.BP, args any) (any, error) {
			return args.(*termArgs).t, nil
		}, func() any { return new(termArgs) })
	})
}

// box is one cache instance together with the way queries reach it.
type box struct {
	exec      func(ctx context.Context, qCtx *query_context.Context) error
	api       http.Handler
	apiPrefix string
	closeFn   func() error
	logs      *logCounter // nil for a mosdns instance (it logs to logFile)
	logFile   string
	closed    bool
}

func (b *box) close() error {
	if b == nil || b.closed {
		return nil
	}
	b.closed = true
	return b.closeFn()
}

// newBox builds a cache. kind: "direct" | "sequence" | "instance".
func newBox(kind string, size int, lazy bool, dumpFile string, term *reloadTerm, logFile string) (*box, error) {
	switch kind {
	case "instance":
		regTermType()
		cargs := map[string]any{"size": size}
		if lazy {
			cargs["lazy_cache_ttl"] = "86400" // weakly typed, as from YAML
		}
		if dumpFile != "" {
			cargs["dump_file"] = dumpFile
		}
		cfg := &coremain.Config{
			Log: mlog.LogConfig{Level: "warn", File: logFile},
			Plugins: []coremain.PluginConfig{
				{Tag: instCacheTag, Type: cache.PluginType, Args: cargs},
				{Tag: instTermTag, Type: termType, Args: &termArgs{t: term}},
				{Tag: instMainTag, Type: sequence.PluginType, Args: []any{
					map[string]any{"exec": "$" + instCacheTag},
					map[string]any{"exec": "$" + instTermTag},
				}},
			},
		}
		m, err := coremain.NewMosdns(cfg)
		if err != nil {
			return nil, err
		}
		seq, ok := m.GetPlugin(instMainTag).(*sequence.Sequence)
		if !ok {
			return nil, fmt.Errorf("plugin %s is %T", instMainTag, m.GetPlugin(instMainTag))
		}
		return &box{exec: seq.Exec, api: m.GetAPIRouter(), apiPrefix: "/plugins/" + instCacheTag, logFile: logFile,
			closeFn: func() error {
				m.GetSafeClose().SendCloseSignal(nil)
				return m.GetSafeClose().WaitClosed()
			}}, nil
	}
	logs := &logCounter{n: map[string]int{}}
	args := &cache.Args{Size: size, DumpFile: dumpFile, DumpInterval: 86400}
	if lazy {
		args.LazyCacheTTL = 86400
	}
	c := cache.NewCache(args, cache.Opts{Logger: zap.New(logs)})
	b := &box{api: c.Api(), logs: logs}
	if kind == "sequence" {
		m := coremain.NewTestMosdnsWithPlugins(map[string]any{instCacheTag: c, instTermTag: term})
		seq, err := sequence.NewSequence(sequence.NewBQ(m, zap.NewNop()), []sequence.RuleArgs{
			{Exec: "$" + instCacheTag},
			{Exec: "$" + instTermTag},
		})
		if err != nil {
			_ = c.Close()
			return nil, err
		}
		b.exec = seq.Exec
		b.closeFn = func() error { _ = seq.Close(); return c.Close() }
		return b, nil
	}
	walker := sequence.NewChainWalker([]*sequence.ChainNode{{E: term}}, nil)
	b.exec = func(ctx context.Context, qCtx *query_context.Context) error { return c.Exec(ctx, qCtx, walker) }
	b.closeFn = c.Close
	return b, nil
}

// complaints returns what the cache logged about its dump (nothing on a healthy
// run). first: this is the cache that starts without a dump file, its "failed
// to load cache dump ... no such file" is expected.
func (b *box) complaints(first bool) string {
	var out []string
	if b.logs != nil {
		b.logs.mu.Lock()
		for msg, n := range b.logs.n {
			if first && msg == "failed to load cache dump" && n == 1 {
				continue
			}
			if strings.Contains(msg, "failed") || strings.Contains(msg, "dump cache") {
				out = append(out, fmt.Sprintf("%q x%d", msg, n))
			}
		}
		b.logs.mu.Unlock()
	} else if b.logFile != "" { // mosdns instance: warnings and errors go to its log file
		lb, _ := os.ReadFile(b.logFile)
		for _, line := range strings.Split(string(lb), "\n") {
			if strings.TrimSpace(line) == "" || (first && strings.Contains(line, "failed to load cache dump") && strings.Contains(line, "no such file")) {
				continue
			}
			out = append(out, strings.TrimSpace(line))
		}
	}
	sort.Strings(out)
	return strings.Join(out, "; ")
}

func (b *box) dumpViaAPI() ([]byte, error) {
	rec := httptest.NewRecorder()
	b.api.ServeHTTP(rec, httptest.NewRequest(http.MethodGet, b.apiPrefix+"/dump", nil))
	if rec.Code != http.StatusOK {
		return nil, fmt.Errorf("GET %s/dump: status %d: %s", b.apiPrefix, rec.Code, strings.TrimSpace(rec.Body.String()))
	}
	return rec.Body.Bytes(), nil
}

func (b *box) loadViaAPI(body []byte) error {
	rec := httptest.NewRecorder()
	b.api.ServeHTTP(rec, httptest.NewRequest(http.MethodPost, b.apiPrefix+"/load_dump", bytes.NewReader(body)))
	if rec.Code != http.StatusOK {
		return fmt.Errorf("POST %s/load_dump: status %d: %s", b.apiPrefix, rec.Code, strings.TrimSpace(rec.Body.String()))
	}
	return nil
}

// inspectDump counts what a dump holds (observation only; independent reader:
// std gzip + the dump's protobuf type).
func inspectDump(b []byte) (entries, longNames int, err error) {
	gr, err := gzip.NewReader(bytes.NewReader(b))
	if err != nil {
		return 0, 0, err
	}
	if gr.Name != "mosdns_cache_v2" {
		// another dump format version: this observer only knows the v2 framing
		return 0, 0, fmt.Errorf("dump format %q is not known to this reader", gr.Name)
	}
	for {
		var h [8]byte
		if _, err := io.ReadFull(gr, h[:]); err != nil {
			if err == io.EOF {
				return entries, longNames, nil
			}
			return entries, longNames, err
		}
		n := binary.BigEndian.Uint64(h[:])
		if n > 64<<20 {
			return entries, longNames, fmt.Errorf("implausible block length %d", n)
		}
		blk := make([]byte, n)
		if _, err := io.ReadFull(gr, blk); err != nil {
			return entries, longNames, err
		}
		var block cache.CacheDumpBlock
		if err := proto.Unmarshal(blk, &block); err != nil {
			return entries, longNames, err
		}
		for _, e := range block.GetEntries() {
			entries++
			if len(e.GetKey()) >= 6+256 { // flag bits, type, class, length octet, then a name of 256+ characters
				longNames++
			}
		}
	}
}

// ------------------------------------------------------------------ execution

type reloadStats struct {
	jobs, stored, asked                            int64
	dumpEntries, dumpLongNames, dumpBytes          int64
	hitsOwn, hitsShared, hitsForeign               int64
	lostStored, missesUnstored, bypassOK, panicked int64
	expected, expectedHit                          int64
	hitsByPLen                                     [5]int64 // own/shared hits by presentation length class
	hitsLongByFlags                                [8]int64 // ... of names with 256+ characters, per AD/CD/DO combination
	hitsStoredWithForeignRespBits                  int64    // own hits whose stored response carried DNSSEC bits unlike the query's
	modes                                          map[string]int64
}

func (st *reloadStats) add(o reloadStats) {
	st.jobs += o.jobs
	st.stored += o.stored
	st.asked += o.asked
	st.dumpEntries += o.dumpEntries
	st.dumpLongNames += o.dumpLongNames
	st.dumpBytes += o.dumpBytes
	st.hitsOwn += o.hitsOwn
	st.hitsShared += o.hitsShared
	st.hitsForeign += o.hitsForeign
	st.lostStored += o.lostStored
	st.missesUnstored += o.missesUnstored
	st.bypassOK += o.bypassOK
	st.panicked += o.panicked
	st.expected += o.expected
	st.expectedHit += o.expectedHit
	st.hitsStoredWithForeignRespBits += o.hitsStoredWithForeignRespBits
	for i := range st.hitsByPLen {
		st.hitsByPLen[i] += o.hitsByPLen[i]
	}
	for i := range st.hitsLongByFlags {
		st.hitsLongByFlags[i] += o.hitsLongByFlags[i]
	}
	if st.modes == nil {
		st.modes = map[string]int64{}
	}
	for k, v := range o.modes {
		st.modes[k] += v
	}
}

var plenClasses = []string{"1..63", "64..255", "256..511", "512..767", "768.."}

func plenClass(n int) int {
	switch {
	case n < 64:
		return 0
	case n < 256:
		return 1
	case n < 512:
		return 2
	case n < 768:
		return 3
	}
	return 4
}

// storedSubset is the seeded half of the family that is stored before the dump.
func storedSubset(seed int64, order, n int) []bool {
	out := make([]bool, n)
	x := uint64(seed)*0x9E3779B97F4A7C15 + uint64(order+1)*0xBF58476D1CE4E5B9
	for i := range out {
		x ^= x << 13
		x ^= x >> 7
		x ^= x << 17
		out[i] = x>>33&1 != 0
	}
	return out
}

func (r *runner) reloadCase(mode string, stored []bool, idx []int) replayCase {
	c := r.caseFor(idx)
	info := &reloadInfo{Mode: mode,
		Script: "cache A stores the listed queries (unique marker each) -> dump -> load into cache B per mode -> every query is asked on B"}
	for k, i := range idx {
		if stored[i] {
			info.Stored = append(info.Stored, k)
		}
	}
	c.Reload = info
	c.Note = "replay runs the reload script with these queries in this mode (both orders)"
	return c
}

// runReload executes the reload script for this runner's family and order.
func (r *runner) runReload(mode string, stored []bool) (st reloadStats) {
	n := len(r.specs)
	st.jobs = 1
	st.modes = map[string]int64{mode: 1}
	size := 4 * n
	if size < 1024 {
		size = 1024
	}
	dir, err := os.MkdirTemp("", "c04-reload-")
	if err != nil {
		rep.Inconclusive("reload: cannot create a scratch directory: %v", err)
		return st
	}
	defer os.RemoveAll(dir)
	fam := r.fam.Name
	incon := func(format string, a ...any) {
		rep.Inconclusive("reload %s (%s, %s order): %s", fam, mode, []string{"insertion", "reverse"}[r.order], fmt.Sprintf(format, a...))
	}

	kind := "direct"
	if r.fam.Via == "sequence" {
		kind = "sequence"
	}
	viaFile, twice, warm := false, false, false
	switch mode {
	case reloadModes[0]:
		viaFile = true
	case reloadModes[1]:
	case reloadModes[2]:
		warm = true
	case reloadModes[3]:
		viaFile, twice = true, true
	case reloadModes[4]:
		kind, viaFile = "instance", true
	case reloadModes[5]:
		kind = "instance"
	default:
		incon("unknown mode")
		return st
	}
	dumpFile := ""
	if viaFile {
		dumpFile = filepath.Join(dir, "cache.dump")
	}
	term := &reloadTerm{}
	ctx := context.Background()
	at := func(k int) int {
		if r.order == 1 {
			return n - 1 - k
		}
		return k
	}
	one := func(b *box, i int, store bool) (o obs, plen int, ok bool) {
		s := &r.specs[i]
		qCtx, err := build(s)
		if err != nil {
			incon("cannot build query %d (%x): %v", i, s.wire(), err)
			return o, 0, false
		}
		if q := qCtx.Q(); len(q.Question) > 0 {
			plen = len(q.Question[0].Name)
		}
		term.store, term.cur, term.shape, term.reached, term.nilAtReach = store, i, s.ID, 0, false
		func() {
			defer func() {
				if p := recover(); p != nil {
					o.panicked = fmt.Sprint(p)
				}
			}()
			o.marker = -1
			o.err = b.exec(ctx, qCtx)
			o.reached, o.nilAtReach = term.reached, term.nilAtReach
			o.marker = markerOf(qCtx.R())
		}()
		if o.panicked != "" {
			st.panicked++
			aggReload.direct("panic-"+keyKind(s), fmt.Sprintf("cache.Exec panicked on a message (%s) in the reload script (%s): %s", kindText(s), mode, o.panicked),
				r.reloadCase(mode, stored, []int{i}), map[string]any{"panic": o.panicked})
			return o, plen, false
		}
		if o.err != nil {
			incon("Exec returned an error the terminal never produces: %v", o.err)
			return o, plen, false
		}
		if o.marker == -2 {
			incon("response without a marker for query %d", i)
			return o, plen, false
		}
		return o, plen, true
	}
	// judgeForeign handles "query i was answered from a cache with the marker of query m != i".
	judgeForeign := func(m, i int, phase string) (shared bool) {
		a, s := &r.specs[m], &r.specs[i]
		switch {
		case a.Kind != "":
			aggReload.direct("bypass-"+keyKind(a)+"-answer-cached",
				fmt.Sprintf("the answer given to a %s message was stored and served to an ordinary query (%s, %s)", kindText(a), phase, mode), r.reloadCase(mode, stored, []int{m, i}), nil)
		case sameQuestion(a, s):
			return true
		default:
			aggReload.collisionCase(a, s, 3, func() (replayCase, string) {
				c := r.reloadCase(mode, stored, []int{m, i})
				return c, fmt.Sprintf("%s, mode %s, %s order: queries[1] was answered from the cache with the marker the terminal had given to queries[0] (stored response header: %s)", phase, mode, c.Order, respShapeText(a.ID))
			})
		}
		return false
	}
	storeInto := func(b *box, want bool, phase string) {
		for k := 0; k < n; k++ {
			i := at(k)
			if stored[i] != want {
				continue
			}
			o, _, ok := one(b, i, true)
			if !ok {
				continue
			}
			st.stored++
			s := &r.specs[i]
			fromCache := !(o.reached > 0 && o.nilAtReach)
			if s.Kind != "" || !fromCache || o.marker == i {
				continue // bypass rules and live-cache collisions are judged when everything is asked
			}
			if o.marker >= 0 && o.marker < n {
				judgeForeign(o.marker, i, phase) // answered by an entry stored a moment ago in the same cache
			}
		}
	}

	// ---- cache A: store S, dump
	A, err := newBox(kind, size, r.fam.Lazy, dumpFile, term, filepath.Join(dir, "a.log"))
	if err != nil {
		incon("cannot build cache A: %v", err)
		return st
	}
	storeInto(A, true, "while storing before the dump")
	var dump []byte
	if viaFile {
		if err := A.close(); err != nil {
			incon("closing cache A: %v", err)
		}
		if dump, err = os.ReadFile(dumpFile); err != nil {
			incon("cache A wrote no dump file: %v (%s)", err, A.complaints(true))
			return st
		}
	} else {
		dump, err = A.dumpViaAPI()
		_ = A.close()
		if err != nil {
			incon("%v", err)
			return st
		}
	}
	if c := A.complaints(viaFile); c != "" {
		incon("cache A complained: %s", c)
	}
	en, long, err := inspectDump(dump)
	if err != nil {
		incon("the dump is unreadable for the harness: %v", err)
	}
	st.dumpEntries, st.dumpLongNames, st.dumpBytes = int64(en), int64(long), int64(len(dump))

	// ---- cache B: load
	B, err := newBox(kind, size, r.fam.Lazy, dumpFile, term, filepath.Join(dir, "b.log"))
	if err != nil {
		incon("cannot build cache B: %v", err)
		return st
	}
	if !viaFile {
		if warm {
			storeInto(B, false, "while storing the other queries in cache B before the load")
		}
		if err := B.loadViaAPI(dump); err != nil {
			incon("%v", err)
			_ = B.close()
			return st
		}
	}
	if twice {
		if err := B.close(); err != nil {
			incon("closing cache B: %v", err)
		}
		if c := B.complaints(false); c != "" {
			incon("cache B complained: %s", c)
		}
		if B, err = newBox(kind, size, r.fam.Lazy, dumpFile, term, filepath.Join(dir, "c.log")); err != nil {
			incon("cannot build cache C: %v", err)
			return st
		}
	}
	defer func() {
		_ = B.close()
		if c := B.complaints(false); c != "" {
			incon("the loading cache complained: %s", c)
		}
	}()

	// ---- ask everything on the loaded cache
	fp := make([]byte, 0, 300)
	phase := "asked after the round trip"
	var lostBy map[uint32]int64 // stored answers not found after the round trip, by type<<16|class
	for k := 0; k < n; k++ {
		i := at(k)
		s := &r.specs[i]
		o, plen, ok := one(B, i, false)
		if !ok {
			continue
		}
		st.asked++
		fromCache := !(o.reached > 0 && o.nilAtReach)
		if s.Kind != "" {
			switch {
			case o.reached == 0:
				aggReload.direct("bypass-"+keyKind(s)+"-not-forwarded",
					fmt.Sprintf("a %s message did not reach the next plugin (%s, %s)", kindText(s), phase, mode), r.reloadCase(mode, stored, []int{i}), nil)
			case fromCache:
				idx := []int{i}
				if o.marker >= 0 && o.marker < n && o.marker != i {
					idx = []int{o.marker, i}
				}
				aggReload.direct("bypass-"+keyKind(s)+"-served-from-cache",
					fmt.Sprintf("a %s message was answered from the loaded cache (marker %d, %s) instead of bypassing it", kindText(s), o.marker, mode), r.reloadCase(mode, stored, idx), nil)
			default:
				st.bypassOK++
			}
			continue
		}
		expect := stored[i] || warm
		if expect {
			st.expected++
		}
		if !fromCache {
			if expect {
				st.lostStored++
				noteCached(s, false)
				if lostBy == nil {
					lostBy = map[uint32]int64{}
				}
				lostBy[uint32(s.Type)<<16|uint32(s.Class)]++
			} else {
				st.missesUnstored++
			}
			continue
		}
		m := o.marker
		if m < 0 || m >= n {
			incon("query %d answered from the loaded cache with unknown marker %d", i, m)
			continue
		}
		hit := false
		if m == i {
			st.hitsOwn++
			hit = true
			rs := s.ID
			if (rs&1 != 0) != s.AD || (rs&2 != 0) != s.CD || ((rs>>2)%3 == 2) != s.QDO {
				st.hitsStoredWithForeignRespBits++
			}
		} else if judgeForeign(m, i, phase) {
			st.hitsShared++
			hit = true
		} else {
			st.hitsForeign++
		}
		if hit {
			if expect {
				st.expectedHit++
				noteCached(s, true)
			}
			pc := plenClass(plen)
			st.hitsByPLen[pc]++
			if pc >= 2 {
				st.hitsLongByFlags[s.flags()]++
			}
			fp = s.fingerprint(fp, r.order)
			rep.Nontrivial("reload/" + string(fp))
		}
	}
	if st.expected > 0 {
		deferGuard(fmt.Sprintf("reload %s (%s, %s order), queries whose answers were stored before the dump", fam, mode, []string{"insertion", "reverse"}[r.order]),
			fmt.Sprintf(": collisions could hide behind the lost entries (dump held %d entries)", en), st.expected, lostBy)
	}
	return st
}

// reloadEvidence writes the counters of the reload phase.
func reloadEvidence(tot *reloadStats, replay bool) {
	rep.Eval(int(tot.asked))
	rep.Count("reload_jobs_family_x_order", tot.jobs)
	rep.Count("reload_queries_stored_before_a_dump", tot.stored)
	rep.Count("reload_entries_in_dumps", tot.dumpEntries)
	rep.Count("reload_entries_in_dumps_with_name_of_256_or_more_characters", tot.dumpLongNames)
	rep.Count("reload_dump_bytes", tot.dumpBytes)
	rep.Count("reload_queries_asked_on_loaded_caches", tot.asked)
	rep.Count("reload_hits_with_own_marker", tot.hitsOwn)
	rep.Count("reload_hits_with_own_marker_whose_stored_response_had_other_AD_CD_DO_than_the_query", tot.hitsStoredWithForeignRespBits)
	rep.Count("reload_hits_shared_by_same_question", tot.hitsShared)
	rep.Count("reload_hits_with_foreign_marker", tot.hitsForeign)
	rep.Count("reload_stored_answers_not_found_after_the_round_trip", tot.lostStored)
	rep.Count("reload_misses_of_queries_never_stored", tot.missesUnstored)
	rep.Count("reload_bypass_messages_forwarded_without_response", tot.bypassOK)
	byLen := map[string]int64{}
	for i, c := range plenClasses {
		byLen[c] = tot.hitsByPLen[i]
	}
	rep.Extra("reload_hits_by_name_length_in_presentation_format", byLen)
	byFl := map[string]int64{}
	combos := 0
	for f, c := range tot.hitsLongByFlags {
		byFl["AD/CD/DO="+strconv.Itoa(f&1)+strconv.Itoa(f>>1&1)+strconv.Itoa(f>>2&1)] = c
		if c > 0 {
			combos++
		}
	}
	rep.Extra("reload_hits_on_names_of_256_or_more_characters_by_flags", byFl)
	modes := make([]string, 0, len(tot.modes))
	for k := range tot.modes {
		modes = append(modes, k)
	}
	sort.Strings(modes)
	mm := map[string]int64{}
	for _, k := range modes {
		mm[k] = tot.modes[k]
	}
	rep.Extra("reload_jobs_by_mode", mm)
	if !replay {
		switch {
		case tot.hitsOwn == 0:
			rep.Inconclusive("reload phase: no query was answered from a loaded cache: the monitor observed nothing")
		case len(tot.modes) < len(reloadModes):
			rep.Inconclusive("reload phase: only %d of %d dump/load modes ran", len(tot.modes), len(reloadModes))
		case tot.hitsByPLen[2] == 0 || tot.hitsByPLen[3] == 0 || tot.hitsByPLen[4] == 0 || combos < 8:
			rep.Inconclusive("reload phase: names of 256+ presentation characters were not observed in every length class / flag combination after a round trip: %v %v", byLen, byFl)
		}
	}
}
