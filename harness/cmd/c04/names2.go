package main

// Name families over the PRESENTATION-format dimension, crossed with flags.
//
// The plugin sees names the way miekg/dns unpacks them: a byte that is not a
// printable, unreserved character takes 4 characters (\DDD), a reserved one 2
// (\. \\ ...), so a legal name (<= 255 wire bytes) is anything from 1 to 1004
// characters long. The families in gen.go vary the wire bytes under ONE
// (type, class, flags) cell each; here names of every presentation-length class
// (around 255/256, 511/512, 767/768, the maximum, random others) are asked
// under all 8 AD/CD/DO combinations and several (type, class) cells, and long
// names that differ only far behind the 256th character are set against each
// other. Every such family also goes through the dump/load scripts (reload.go).

import (
	"fmt"

	"github.com/miekg/dns"

	"verifharness/lib/wire"
)

// byte classes by presentation cost
var (
	cost4 = []byte{0x00, 0x01, 0x07, 0x1f, 0x7f, 0x80, 0xc3, 0xff}
	cost2 = []byte{'.', '\\', '"', '(', ')', ';', '@', ' '}
)

// presentationLen is what the plugin will see (trusted base: miekg unpack of
// the harness-built query, as the server does it).
func presentationLen(raw []byte) int {
	m := new(dns.Msg)
	if err := m.Unpack(wire.NewBuilder(1, 0).Question(raw, 1, 1).Bytes()); err != nil || len(m.Question) != 1 {
		return -1
	}
	return len(m.Question[0].Name)
}

// nameWithPresentationLen builds a name whose presentation form has exactly p
// characters (3 <= p <= 1004), with a seeded label layout and byte mix.
// layout 0: few long labels, 1: random labels, 2: many short labels.
func (g *gen) nameWithPresentationLen(p, layout int) []byte {
	for try := 0; try < 200; try++ {
		// label lengths: content n, k labels; wire = n + k + 1 <= 255
		var lens []int
		n := 0
		for {
			l := 63
			switch layout {
			case 1:
				l = 1 + g.rng.Intn(63)
			case 2:
				l = 1 + g.rng.Intn(6)
			}
			if n+l+len(lens)+2 > 255 {
				l = 255 - n - len(lens) - 2
			}
			if l < 1 {
				break
			}
			// never more content than characters available
			if n+l+len(lens)+1 > p {
				l = p - n - len(lens) - 1
				if l < 1 {
					break
				}
			}
			lens = append(lens, l)
			n += l
			k := len(lens)
			if n+k >= p || (4*n+k >= p && g.rng.Intn(3) == 0) {
				break
			}
		}
		k := len(lens)
		if k == 0 || n+k > p || 4*n+k < p {
			continue
		}
		extra := p - n - k // characters to be gained by escapes
		n4 := extra / 3
		n2 := extra % 3
		if n4+n2 > n {
			continue
		}
		// when possible trade some 4-cost bytes for three 2-cost bytes (mix)
		for n4 > 0 && n4-1+n2+3 <= n && g.rng.Intn(4) == 0 {
			n4--
			n2 += 3
		}
		kinds := make([]byte, n)
		for i := 0; i < n4; i++ {
			kinds[i] = 4
		}
		for i := n4; i < n4+n2; i++ {
			kinds[i] = 2
		}
		g.rng.Shuffle(n, func(i, j int) { kinds[i], kinds[j] = kinds[j], kinds[i] })
		var labels [][]byte
		pos := 0
		for _, l := range lens {
			lab := make([]byte, l)
			for j := range lab {
				switch kinds[pos] {
				case 4:
					lab[j] = cost4[g.rng.Intn(len(cost4))]
				case 2:
					lab[j] = cost2[g.rng.Intn(len(cost2))]
				default:
					lab[j] = lower[g.rng.Intn(26)]
				}
				pos++
			}
			labels = append(labels, lab)
		}
		if !validLabels(labels) {
			continue
		}
		w := wire.EncodeLabels(labels)
		if presentationLen(w) == p {
			return w
		}
	}
	return nil
}

func presentationTargets(g *gen, extra int) []int {
	var ps []int
	for _, c := range []int{256, 512, 768} {
		for d := -6; d <= 6; d++ {
			ps = append(ps, c+d)
		}
	}
	for p := 996; p <= 1004; p++ {
		ps = append(ps, p)
	}
	ps = append(ps, 3, 4, 5, 63, 64, 65, 127, 128, 129, 300, 400, 600, 700, 900)
	for i := 0; i < extra; i++ {
		ps = append(ps, 3+g.rng.Intn(1002))
	}
	return ps
}

// names of every presentation-length class x 8 flag combinations x cells
func genNamePresentationFlags(cells func(*gen) []cell, extra int) func(*gen) []qspec {
	return func(g *gen) []qspec {
		var names [][]byte
		for _, p := range presentationTargets(g, extra) {
			for layout := 0; layout < 3; layout++ {
				if layout == 2 && p > 300 { // short labels cannot carry that many characters
					continue
				}
				if w := g.nameWithPresentationLen(p, layout); w != nil {
					names = append(names, w)
				}
			}
		}
		// the classic: one maximal label of bytes that need escaping in front of an ordinary name
		for _, b := range []byte{0x00, 0xff, 0x07} {
			names = append(names, wire.EncodeLabels([][]byte{bytesRepeat(b, 63), []byte("example"), []byte("com")}))
			names = append(names, wire.EncodeLabels([][]byte{bytesRepeat(b, 63), bytesRepeat(b, 63), bytesRepeat(b, 63), bytesRepeat(b, 61)}))
		}
		names = dedupNames(names)
		if len(names) < 100 {
			panic(fmt.Sprintf("harness: only %d presentation-length names generated", len(names)))
		}
		var out []qspec
		for _, c := range cells(g) {
			for _, n := range names {
				for f := 0; f < 8; f++ {
					out = append(out, g.q(n, c.t, c.c, f))
				}
			}
		}
		return out
	}
}

// long names (hundreds of characters) that differ only in one byte, at
// positions spread over the whole name, or only in their last labels; each
// under two flag combinations
func genLongNameVariants(g *gen) []qspec {
	var out []qspec
	for b := 0; b < 8; b++ {
		p := []int{270, 300, 513, 520, 700, 770, 900, 1004}[b]
		base := g.nameWithPresentationLen(p, b%2)
		if base == nil {
			continue
		}
		labels := labelsOf(base)
		var names [][]byte
		names = append(names, base)
		total := 0
		for _, l := range labels {
			total += len(l)
		}
		positions := []int{0, 1, total / 4, total / 2, total/2 + 1, 3 * total / 4, total - 2, total - 1}
		for k := 0; k < 6; k++ {
			positions = append(positions, g.rng.Intn(total))
		}
		for _, at := range positions {
			for _, v := range []byte{cost4[g.rng.Intn(len(cost4))], lower[g.rng.Intn(26)], cost2[g.rng.Intn(len(cost2))]} {
				mod := make([][]byte, len(labels))
				off := at
				for li, l := range labels {
					nl := append([]byte(nil), l...)
					if off >= 0 && off < len(l) {
						nl[off] = v
					}
					off -= len(l)
					mod[li] = nl
				}
				if validLabels(mod) {
					names = append(names, wire.EncodeLabels(mod))
				}
			}
		}
		// same long front, different short tails
		front := labels
		if len(front) > 1 {
			front = front[:len(front)-1]
		}
		for _, tail := range []string{"a", "b", "aa", "com", "net", "\x00", "a.b"} {
			mod := append(append([][]byte{}, front...), []byte(tail))
			if validLabels(mod) {
				names = append(names, wire.EncodeLabels(mod))
			}
		}
		names = dedupNames(names)
		t, c := g.randType(), []uint16{1, 1, 3, 255}[g.rng.Intn(4)]
		f1 := g.rng.Intn(8)
		f2 := f1 ^ (1 << g.rng.Intn(3))
		for _, n := range names {
			out = append(out, g.q(n, t, c, f1), g.q(n, t, c, f2))
		}
	}
	return out
}
