package main

import (
	"bytes"
	"compress/gzip"
	"encoding/binary"
	"fmt"
	"io"
	"math/rand"
	"net/http"
	"net/http/httptest"
	"strings"
	"time"

	"github.com/IrineSistiana/mosdns/v5/plugin/executable/cache"
	"github.com/miekg/dns"
	"google.golang.org/protobuf/proto"

	"verifharness/lib/wire"
)

func (e *env) api(method, path string, body []byte) (int, []byte) {
	var rd io.Reader
	if body != nil {
		rd = bytes.NewReader(body)
	}
	req := httptest.NewRequest(method, path, rd)
	rec := httptest.NewRecorder()
	e.c.Api().ServeHTTP(rec, req)
	return rec.Code, rec.Body.Bytes()
}

func (e *env) dump() ([]byte, error) {
	code, b := e.api(http.MethodGet, "/dump", nil)
	if code != 200 {
		return nil, fmt.Errorf("/dump returned %d: %s", code, b)
	}
	return append([]byte(nil), b...), nil
}

func (e *env) load(b []byte) error {
	code, out := e.api(http.MethodPost, "/load_dump", b)
	if code != 200 {
		return fmt.Errorf("/load_dump returned %d: %s", code, out)
	}
	return nil
}

func (e *env) flush() { e.api(http.MethodGet, "/flush", nil) }

const dumpName = "mosdns_cache_v2"

func decodeDump(b []byte) ([]*cache.CachedEntry, error) {
	gr, err := gzip.NewReader(bytes.NewReader(b))
	if err != nil {
		return nil, err
	}
	raw, err := io.ReadAll(gr)
	if err != nil {
		return nil, err
	}
	var out []*cache.CachedEntry
	for len(raw) > 0 {
		if len(raw) < 8 {
			return nil, fmt.Errorf("short block header")
		}
		n := binary.BigEndian.Uint64(raw)
		raw = raw[8:]
		if uint64(len(raw)) < n {
			return nil, fmt.Errorf("short block")
		}
		blk := new(cache.CacheDumpBlock)
		if err := proto.Unmarshal(raw[:n], blk); err != nil {
			return nil, err
		}
		out = append(out, blk.GetEntries()...)
		raw = raw[n:]
	}
	return out, nil
}

func encodeDump(entries []*cache.CachedEntry) []byte {
	var buf bytes.Buffer
	gw := gzip.NewWriter(&buf)
	gw.Name = dumpName
	for len(entries) > 0 {
		n := 50
		if n > len(entries) {
			n = len(entries)
		}
		b, err := proto.Marshal(&cache.CacheDumpBlock{Entries: entries[:n]})
		if err != nil {
			panic(err)
		}
		var l [8]byte
		binary.BigEndian.PutUint64(l[:], uint64(len(b)))
		gw.Write(l[:])
		gw.Write(b)
		entries = entries[n:]
	}
	gw.Close()
	return buf.Bytes()
}

type dumpCase struct {
	r      *seqRun
	pr     *pristine
	s0, s1 time.Time
}

// runDumpPhase: answers stored through Exec in cache A are dumped; the dump is
// loaded (1) as is into a fresh cache B, (2) with the stored-time field filled
// in into a fresh cache C, (3) back into A after /flush. Hits on loaded
// entries must be isolated from the mutation of earlier hits, from the dump
// bytes (rewritten after the load) and from the buffer pool (poisoned on
// release by poolsan).
func runDumpPhase(rng *rand.Rand, round int) {
	phaseSeed := rng.Int63n(1 << 40)
	desc := map[string]any{"dump": map[string]any{"round": round, "seed": phaseSeed}}
	caselog.Log(desc)
	prng := rand.New(rand.NewSource(phaseSeed))
	A := newEnv(0)
	defer A.close()
	// incl. record-less / OPT-only NXDOMAIN and minimal NOERROR shapes of the shape space (30 s and longer lifetimes only:
	// the restamped load makes entries two seconds older)
	dumpShapes := []string{"answer", "answer-opt", "cname-chain", "big", "nodata", "answer-2opt", "nxdomain",
		"rc3:000:o0", "rc0:100:o0", "rc3:000:o1", "rc0:010:o1", "rc3:200:o0", "rc0:001:o2"}
	M := len(mutations)
	cases := map[string]*dumpCase{}
	var order []*dumpCase
	for ti := range templates {
		mi := (ti + round*7) % M
		c := seqCase{Phase: "dump", Idx: round*1000 + ti, Type: templates[ti].T, Shape: dumpShapes[(ti+round)%len(dumpShapes)],
			Muts: []string{mutations[mi].Name, mutations[(mi+9)%M].Name, mutations[(mi+19)%M].Name},
			AD:   prng.Intn(2) == 0, CD: prng.Intn(2) == 0, Edns: prng.Intn(2) == 0, Seed: prng.Int63n(1 << 40)}
		t := &templates[ti]
		r := &seqRun{c: c, e: A, rng: rand.New(rand.NewSource(c.Seed)), t: t, name: c.name(), dirty: map[string]bool{}, extraW: desc}
		q0 := newQuery(r.name, t.typ, c, r.rng, 0)
		v0 := buildMsg(t, msgSpec{Name: r.name, Type: c.Type, Shape: c.Shape, Seed: c.Seed}, q0)
		dc := &dumpCase{r: r, pr: makePristine(v0)}
		addOPTs(v0, c.Shape, r.rng)
		stored := r.own("stored-object", "stored-object(v0)", v0)
		cl := &call{onMiss: func(bool) *dns.Msg { return v0 }}
		_, dc.s0, dc.s1 = A.exec(q0, cl)
		if hit, miss, _ := cl.saw(); hit || !miss {
			rep.Inconclusive("dump phase: store of %s did not go through the miss path", r.name)
			continue
		}
		rep.Count("stores", 1)
		stored.state = stateBytes(v0)
		r.lastID = q0.Id
		r.logf("store v0 in cache A (query id %d)", q0.Id)
		r.mutate(stored, c.Muts[0]) // the dump must come from the cache's private copy
		cases[strings.ToLower(r.name)] = dc
		order = append(order, dc)
	}
	phaseStart := time.Now()

	d1, err := A.dump()
	if err != nil {
		rep.Inconclusive("dump phase: %v", err)
		return
	}
	entries, err := decodeDump(d1)
	if err != nil {
		rep.Inconclusive("dump phase: cannot decode the dump: %v", err)
		return
	}
	storedAt := map[string]int64{}
	for _, en := range entries {
		wm, err := wire.Parse(en.GetMsg())
		if err != nil || len(wm.Questions) != 1 {
			rep.Inconclusive("dump phase: dumped message unreadable: %v", err)
			return
		}
		storedAt[strings.ToLower(dns.Fqdn(strings.TrimSuffix(wm.Questions[0].Name, ".")))] = en.GetMsgStoredTime()
	}
	rep.Count("dump_entries_decoded", int64(len(entries)))
	if len(entries) != len(order) {
		// answers this tree chose not to keep (see judgeMisses) are left out of the round; more than a few: no round
		var kept []*dumpCase
		for _, dc := range order {
			if _, ok := storedAt[strings.ToLower(dc.r.name)]; ok {
				kept = append(kept, dc)
				continue
			}
			dc.r.unexpectedMiss("dump", dc.s0, 0)
			rep.Count("dump_answers_stored_but_not_dumped", 1)
		}
		if len(entries) > len(order) || len(kept) != len(entries) || len(kept)*10 < len(order)*9 {
			rep.Inconclusive("dump phase: stored %d answers, dump has %d entries", len(order), len(entries))
			return
		}
		order = kept
	}

	noCompress := false
	hitSeq := func(e *env, dc *dumpCase, label string, rule func(h0, h1 time.Time) ttlRule, kind string, wantCompress *bool) {
		r := dc.r
		r.e = e
		var prev *owned
		for k := 0; k < 3; k++ {
			if prev != nil {
				r.mutate(prev, r.c.Muts[(k)%len(r.c.Muts)])
			}
			q := newQuery(r.name, r.t.typ, r.c, r.rng, r.lastID)
			qid := q.Id
			r.lastID = qid
			cl := &call{}
			h0 := time.Now()
			qc, _, h1 := e.exec(q, cl)
			if hit, _, _ := cl.saw(); !hit {
				r.unexpectedMiss(label, dc.s0, lifetimeOf(dc.r.objs[0].msg, minTTLOf(dc.pr)))
				return
			}
			o := r.own("earlier-hit", fmt.Sprintf("%s-hit%d", label, k+1), qc.R())
			if !r.verify(qc.R(), qid, dc.pr, rule(h0, h1), wantCompress, kind) {
				return
			}
			prev = o
		}
		r.mutate(prev, r.c.Muts[0])
	}

	// A itself after dumping: the dump must not have disturbed anything
	for _, dc := range order {
		dc := dc
		hitSeq(A, dc, "A-after-dump", func(h0, h1 time.Time) ttlRule { return agedRule(dc.s0, dc.s1, h0, h1) }, "fresh", &dc.pr.Compress)
	}

	// (1) raw dump into B
	B := newEnv(0)
	defer B.close()
	body := append([]byte(nil), d1...)
	if err := B.load(body); err != nil {
		rep.Inconclusive("dump phase: %v", err)
		return
	}
	for i := range body {
		body[i] = 0xEE // the request body stays the caller's
	}
	for _, dc := range order {
		st, ok := storedAt[strings.ToLower(dc.r.name)]
		if !ok {
			rep.Inconclusive("dump phase: no dump entry for %s", dc.r.name)
			continue
		}
		hitSeq(B, dc, "B-loaded", func(h0, h1 time.Time) ttlRule { return wallRule(st, h0, h1) }, "dump-loaded", &noCompress)
	}

	// (2) dump with the stored time filled in, into C
	stamp := phaseStart.Unix() - 2
	for _, en := range entries {
		en.MsgStoredTime = stamp
	}
	d2 := encodeDump(entries)
	C := newEnv(0)
	defer C.close()
	body2 := append([]byte(nil), d2...)
	if err := C.load(body2); err != nil {
		rep.Inconclusive("dump phase: restamped dump rejected: %v", err)
		return
	}
	for i := range body2 {
		body2[i] = 0x11
	}
	for _, en := range entries { // the decoded entries are the harness' too
		for i := range en.Msg {
			en.Msg[i] ^= 0xff
		}
	}
	for _, dc := range order {
		hitSeq(C, dc, "C-loaded-restamped", func(h0, h1 time.Time) ttlRule { return wallRule(stamp, h0, h1) }, "dump-loaded", &noCompress)
	}

	// (3) back into A after a flush, and once more on top of itself
	A.flush()
	body3 := append([]byte(nil), d1...)
	if err := A.load(body3); err != nil {
		rep.Inconclusive("dump phase: %v", err)
		return
	}
	if err := A.load(body3); err != nil {
		rep.Inconclusive("dump phase: %v", err)
		return
	}
	for i := range body3 {
		body3[i] = 0x77
	}
	for _, dc := range order {
		st := storedAt[strings.ToLower(dc.r.name)]
		hitSeq(A, dc, "A-reloaded", func(h0, h1 time.Time) ttlRule { return wallRule(st, h0, h1) }, "dump-loaded", &noCompress)
	}
	for _, dc := range order {
		for _, o := range dc.r.objs {
			dc.r.checkUntouched(o)
		}
	}
	rep.Count("dump_rounds", 1)
	if rep.WantSample() && len(order) > 0 {
		rep.Sample(map[string]any{"case": order[round%len(order)].r.c, "history": order[round%len(order)].r.log})
	}
}
