// C10 — cached answers are isolated from every caller's mutations.
//
// The real cache plugin (plugin/executable/cache) is driven through a real
// sequence chain [cache, terminal]. The terminal is the harness' "upstream" and
// "later plugin": it supplies the answers that get stored and sees every hit.
//
// Oracle: before an answer is handed to the cache the harness packs a private
// copy of it (pristine bytes). Then it does, in place and through every field
// and every underlying array reachable from a dns.Msg, what later plugins and
// the server may do to the response they own — to the originally stored object
// and to every served hit — and after each such mutation asks the cache again.
// Every hit must pack to the pristine bytes (modulo its own query's ID and TTL
// ageing, bracketed by the instants around the store and the read). A second,
// structural monitor walks the heap graph of every message handed in or out
// and demands that no two of them share a byte of mutable memory. A third one
// checks that no message the harness owns changes behind its back. The same is
// done for stale (lazy-cache) hits, for entries loaded from /dump → /load_dump,
// and in a concurrent phase under the race detector.
package main

import (
	"context"
	"fmt"
	"math/rand"
	"os"
	"runtime"
	"sort"
	"strings"
	"sync"
	"sync/atomic"
	"time"

	"github.com/IrineSistiana/mosdns/v5/pkg/query_context"
	"github.com/IrineSistiana/mosdns/v5/plugin/executable/cache"
	"github.com/IrineSistiana/mosdns/v5/plugin/executable/sequence"
	"github.com/miekg/dns"

	"verifharness/lib/evid"
	"verifharness/lib/leak"
	"verifharness/lib/poolsan"
)

var (
	rep       *evid.Reporter
	caselog   *evid.CaseLog
	templates []rrTemplate
	tmplByT   = map[string]*rrTemplate{}
)

// ---------------------------------------------------------------------------
// environment: one cache instance + terminal
// ---------------------------------------------------------------------------

var callKey = query_context.RegKey()

type fgKey struct{}

// call is what the harness attaches to one query; the terminal reads it. It is
// shared with the background refresh the cache may spawn (the plugin copies the
// context's key/value map shallowly), hence the mutex.
type call struct {
	mu     sync.Mutex
	onMiss func(bg bool) *dns.Msg            // no response set: upstream answer (nil = none)
	onHit  func(qCtx *query_context.Context) // response already set by the cache: runs inside the continuation

	fgHit, fgMiss bool
	bgCalls       int
}

type terminal struct {
	bgStarted, bgDone atomic.Int64
}

func (t *terminal) Exec(ctx context.Context, qCtx *query_context.Context) error {
	v, ok := qCtx.GetValue(callKey)
	if !ok {
		return nil
	}
	c := v.(*call)
	fg := ctx.Value(fgKey{}) != nil
	if !fg {
		t.bgStarted.Add(1)
		defer t.bgDone.Add(1)
	}
	if qCtx.R() != nil { // the continuation runs on hits too
		c.mu.Lock()
		c.fgHit = true
		h := c.onHit
		c.mu.Unlock()
		if h != nil {
			h(qCtx)
		}
		return nil
	}
	c.mu.Lock()
	if fg {
		c.fgMiss = true
	} else {
		c.bgCalls++
	}
	f := c.onMiss
	c.mu.Unlock()
	if f != nil {
		if m := f(!fg); m != nil {
			qCtx.SetResponse(m)
		}
	}
	return nil
}

type env struct {
	c     *cache.Cache
	term  *terminal
	chain []*sequence.ChainNode
	lazy  bool
}

func newEnv(lazyTTL int) *env {
	e := &env{term: &terminal{}, lazy: lazyTTL > 0}
	e.c = cache.NewCache(&cache.Args{Size: 1 << 16, LazyCacheTTL: lazyTTL}, cache.Opts{})
	e.chain = []*sequence.ChainNode{{RE: e.c}, {E: e.term}}
	return e
}

func (e *env) close() { _ = e.c.Close() }

// exec runs one query through [cache, terminal] the way a sequence does.
func (e *env) exec(q *dns.Msg, c *call) (qCtx *query_context.Context, t0, t1 time.Time) {
	qCtx = query_context.NewContext(q)
	qCtx.StoreValue(callKey, c)
	ctx, cancel := context.WithTimeout(context.WithValue(context.Background(), fgKey{}, true), 60*time.Second)
	defer cancel()
	w := sequence.NewChainWalker(e.chain, nil)
	t0 = time.Now()
	err := w.ExecNext(ctx, qCtx)
	t1 = time.Now()
	if err != nil {
		rep.Inconclusive("chain returned an error: %v", err)
	}
	return
}

func (c *call) saw() (hit, miss bool, bg int) {
	c.mu.Lock()
	defer c.mu.Unlock()
	return c.fgHit, c.fgMiss, c.bgCalls
}

// ---------------------------------------------------------------------------
// sequential cases
// ---------------------------------------------------------------------------

type seqCase struct {
	Phase  string   `json:"phase"` // plain | lazy | dump
	Idx    int      `json:"idx"`
	Type   string   `json:"type"`
	Shape  string   `json:"shape"`
	Muts   []string `json:"mutations"`
	InCont bool     `json:"mutate_inside_continuation"`
	AD     bool     `json:"ad"`
	CD     bool     `json:"cd"`
	Edns   bool     `json:"edns"`
	Seed   int64    `json:"seed"`
	TTL    uint32   `json:"fix_ttl,omitempty"` // every record gets this ttl (short-lived entries)
	N      int      `json:"callers,omitempty"` // burst phase: concurrent identical queries
	Lazy   bool     `json:"lazy,omitempty"`    // burst phase: lazy cache enabled
}

func (c seqCase) name() string {
	return fmt.Sprintf("%s%d-%s.s%d.example.net.", c.Phase[:1], c.Idx, strings.ToLower(c.Type), uint64(c.Seed)%100000)
}

func newQuery(name string, qtype uint16, c seqCase, rng *rand.Rand, avoid uint16) *dns.Msg {
	q := new(dns.Msg)
	q.SetQuestion(name, qtype)
	for q.Id == avoid || q.Id == 0 {
		q.Id = uint16(rng.Intn(65536))
	}
	q.AuthenticatedData = c.AD
	q.CheckingDisabled = c.CD
	if c.Edns {
		q.SetEdns0(1232, true)
	}
	return q
}

// owned is a message the harness legitimately owns: the object it handed to
// SetResponse (after Exec returned) or a hit it was served.
type owned struct {
	kind  string // stored-object | earlier-hit | restored-object
	what  string
	msg   *dns.Msg
	snap  *memSnap
	state string // stateBytes after the harness' last own mutation
}

type seqRun struct {
	c      seqCase
	e      *env
	rng    *rand.Rand
	t      *rrTemplate
	name   string
	objs   []*owned
	log    []string
	lastID uint16
	// what was mutated since the last verified hit
	dirty     map[string]bool
	dirtyMuts []string
	extraW    map[string]any // added to every witness (e.g. how to replay the whole dump round)
	// optional: the unchanged cache does not store this response shape; a miss is
	// bookkeeping, not a lost observation (a tree that does cache it gets the full cycle).
	optional bool
}

func newSeqRun(e *env, c seqCase) *seqRun {
	r := &seqRun{c: c, e: e, rng: rand.New(rand.NewSource(c.Seed)), t: tmplByT[c.Type], name: c.name(), dirty: map[string]bool{}}
	if sh, ok := parseShape(c.Shape); ok && !sh.cachedOnReferenceTree() {
		r.optional = true
	}
	return r
}

func (r *seqRun) logf(f string, a ...any) { r.log = append(r.log, fmt.Sprintf(f, a...)) }

func (r *seqRun) witness(extra map[string]any) map[string]any {
	w := map[string]any{"case": r.c, "question": r.name, "history": r.log}
	for k, v := range r.extraW {
		w[k] = v
	}
	for k, v := range extra {
		w[k] = v
	}
	return w
}

func (r *seqRun) dirtyTarget() string {
	if len(r.dirty) == 0 {
		return "nothing"
	}
	ks := make([]string, 0, len(r.dirty))
	for k := range r.dirty {
		ks = append(ks, k)
	}
	sort.Strings(ks)
	return strings.Join(ks, "+")
}

// own registers a message handed to / received from the cache and runs the
// structural monitor against everything registered before.
func (r *seqRun) own(kind, what string, m *dns.Msg) *owned {
	o := &owned{kind: kind, what: what, msg: m, snap: snapshotMem(what, m)}
	for _, p := range r.objs {
		if p.msg == m {
			rep.Violation("shared-memory-"+r.c.Phase+"-same-object", fmt.Sprintf("the cache handed out the very object %s again as %s", p.what, what), r.witness(nil))
			continue
		}
		rep.Count("structural_pairs_compared", 1)
		if s := overlap(p.snap, o.snap); s != "" {
			pair := p.kind + "~" + kind
			rep.Violation("shared-memory-"+r.c.Phase+"-"+pair, "two messages share mutable memory: "+s, r.witness(map[string]any{"overlap": s}))
		}
	}
	rep.Count("structural_regions_recorded", int64(len(o.snap.regions)))
	o.state = stateBytes(m)
	r.objs = append(r.objs, o)
	return o
}

// mutate applies mutation mname to an owned object.
func (r *seqRun) mutate(o *owned, mname string) {
	mu := mutationByName(mname)
	if mu == nil {
		panic("harness: unknown mutation " + mname)
	}
	// the object must still be what the harness left it as
	r.checkUntouched(o)
	changed, panicked := applyMutation(mu, o.msg, r.rng)
	o.state = stateBytes(o.msg)
	rep.Count("mutations_applied", 1)
	if panicked {
		rep.Count("mutations_panicked_on_own_object", 1)
	}
	if changed {
		rep.Count("mutations_effective", 1)
		r.dirty[o.kind] = true
		r.dirtyMuts = append(r.dirtyMuts, o.kind+":"+mname)
		rep.SetAdd("mutations_effective", mname)
	} else if mname != "none" {
		rep.Count("mutations_without_effect", 1)
	}
	r.logf("mutate %s with %s (changed=%v)", o.what, mname, changed)
}

func (r *seqRun) checkUntouched(o *owned) {
	rep.Count("owned_message_rechecks", 1)
	if s := stateBytes(o.msg); s != o.state {
		rep.Violation("handed-out-message-changed-"+r.c.Phase,
			fmt.Sprintf("%s changed although only the cache could have touched it since the harness last wrote it", o.what),
			r.witness(map[string]any{"before_hex": hexCut([]byte(o.state)), "after_hex": hexCut([]byte(s))}))
		o.state = s
	}
}

// verify checks one served hit against the pristine answer.
func (r *seqRun) verify(hit *dns.Msg, qid uint16, pr *pristine, rule ttlRule, wantCompress *bool, hitKind string) bool {
	rep.Eval(1)
	rep.Count("hits_verified", 1)
	rep.Count("hits_"+hitKind, 1)
	statOf(r.c.Type).hits.Add(1)
	target := r.dirtyTarget()
	mm := checkServed(hit, qid, pr, rule, wantCompress)
	if mm != nil {
		key := "served-differs-" + r.c.Phase + "-after-mutating-" + target
		if mm.Field == "id" {
			key = "hit-id-mismatch-" + r.c.Phase
		}
		r.logf("hit (query id %d): MISMATCH %s: %s", qid, mm.Field, mm.Detail)
		rep.Violation(key, fmt.Sprintf("%s hit for %s differs from the pristine answer in %s (%s) after in-place mutation of: %s",
			hitKind, r.name, mm.Field, mm.Detail, strings.Join(r.dirtyMuts, ", ")), r.witness(map[string]any{"mismatch": mm, "query_id": qid}))
		return false
	}
	r.logf("hit (query id %d): identical to pristine", qid)
	for _, d := range r.dirtyMuts {
		rep.Nontrivial(r.c.Phase + "|" + r.c.Type + "|" + r.c.Shape + "|" + hitKind + "|" + d)
	}
	rep.SetAdd("rr_types_verified", r.c.Type)
	rep.SetAdd("shapes_verified", r.c.Phase+"/"+r.c.Shape)
	if len(pr.ttls) == 0 {
		rep.Count("hits_on_recordless_entries", 1)
		rep.SetAdd("recordless_shapes_verified", r.c.Phase+"/"+r.c.Shape)
	}
	if r.c.TTL != 0 || pr.parsed.Flags&0xf == dns.RcodeServerFailure || pr.parsed.Flags&0xf == dns.RcodeNameError {
		rep.Count("hits_on_short_lived_entries", 1)
	}
	r.dirty = map[string]bool{}
	r.dirtyMuts = nil
	return true
}

var badMisses, plainSamples, lazySamples atomic.Int64

func (r *seqRun) unexpectedMiss(what string, since time.Time, lifetime time.Duration) {
	if r.optional {
		rep.Count("shape_probes_not_cached", 1)
		rep.SetAdd("shapes_not_cached", r.c.Shape)
		return
	}
	if lifetime > 0 && time.Since(since) > lifetime-1500*time.Millisecond {
		rep.Count("entries_expired_before_hit", 1)
		return
	}
	// Judged when the run is over (judgeMisses): a tree may decide not to cache a
	// record type at all; a miss is a lost observation only if answers of that
	// type are served from the cache elsewhere in the run.
	rep.Count("unexpected_misses", 1)
	st := statOf(r.c.Type)
	st.mu.Lock()
	st.nmiss++
	if len(st.misses) < 2 {
		st.misses = append(st.misses, fmt.Sprintf("%s: expected a cache hit for %s but the terminal saw no response (history: %s)", what, r.name, strings.Join(r.log, " | ")))
	}
	st.mu.Unlock()
}

type typeStat struct {
	hits   atomic.Int64
	mu     sync.Mutex
	nmiss  int64
	misses []string
}

var typeStats sync.Map // record type of the question -> *typeStat

func statOf(t string) *typeStat {
	if v, ok := typeStats.Load(t); ok {
		return v.(*typeStat)
	}
	v, _ := typeStats.LoadOrStore(t, &typeStat{})
	return v.(*typeStat)
}

func judgeMisses() {
	typeStats.Range(func(k, v any) bool {
		st := v.(*typeStat)
		st.mu.Lock()
		defer st.mu.Unlock()
		if st.nmiss == 0 {
			return true
		}
		if st.hits.Load() == 0 {
			rep.Count("misses_on_question_types_this_tree_never_serves_from_cache", st.nmiss)
			rep.SetAdd("question_types_never_served_from_cache", k.(string))
			return true
		}
		for _, m := range st.misses {
			if badMisses.Add(1) <= 3 {
				rep.Inconclusive("%s", m)
			}
		}
		return true
	})
}

func lifetimeOf(m *dns.Msg, minTTL uint32) time.Duration {
	switch m.Rcode {
	case dns.RcodeNameError:
		return 30 * time.Second
	case dns.RcodeServerFailure:
		return 5 * time.Second
	}
	if len(m.Answer) == 0 && minTTL > 300 {
		minTTL = 300
	}
	return time.Duration(minTTL) * time.Second
}

func minTTLOf(p *pristine) uint32 {
	min := ^uint32(0)
	for _, t := range p.ttls {
		if t < min {
			min = t
		}
	}
	return min
}

// runPlain: store -> mutate stored -> hit -> mutate hit -> hit -> ... -> re-store from
// inside a hit's continuation -> mutate -> hit.
func runPlain(e *env, c seqCase) {
	caselog.Log(c)
	t := tmplByT[c.Type]
	r := newSeqRun(e, c)
	muts := c.Muts
	for len(muts) < 4 {
		muts = append(muts, "none")
	}

	// --- store version 0
	q0 := newQuery(r.name, t.typ, c, r.rng, 0)
	id0 := q0.Id
	sp := msgSpec{Name: r.name, Type: c.Type, Shape: c.Shape, Version: 0, Seed: c.Seed, FixTTL: c.TTL}
	v0 := buildMsg(t, sp, q0)
	pr0 := makePristine(v0)
	nopt := addOPTs(v0, c.Shape, r.rng)
	stored := r.own("stored-object", "stored-object(v0)", v0)
	cl := &call{onMiss: func(bool) *dns.Msg { return v0 }}
	qc0, s0, s1 := e.exec(q0, cl)
	if hit, miss, _ := cl.saw(); hit || !miss {
		rep.Inconclusive("store of %s did not go through the miss path (name collision in the harness?)", r.name)
		return
	}
	life := lifetimeOf(v0, minTTLOf(pr0))
	r.logf("store v0 (query id %d, %d OPT records, compress=%v, %d bytes pristine)", id0, nopt, pr0.Compress, len(pr0.Bytes))
	rep.Count("stores", 1)
	stored.state = stateBytes(v0) // SetResponse legitimately popped the last OPT
	upOpt := qc0.UpstreamOpt()
	curPr, curS0, curS1 := pr0, s0, s1
	lastID := id0

	// one hit; returns the owned hit or nil
	hitOnce := func(label string, inCont bool, mutInside string, restore *dns.Msg) *owned {
		q := newQuery(r.name, t.typ, c, r.rng, lastID)
		qid := q.Id
		lastID = qid
		var got *owned
		okc := true
		cl := &call{}
		var h0 time.Time
		inside := func(qCtx *query_context.Context) {
			hit := qCtx.R()
			got = r.own("earlier-hit", label, hit)
			okc = r.verify(hit, qid, curPr, agedRule(curS0, curS1, h0, time.Now()), &curPr.Compress, "fresh-in-continuation")
			if mutInside != "" {
				r.mutate(got, mutInside)
			}
		}
		cl.onHit = func(qCtx *query_context.Context) {
			if inCont {
				inside(qCtx)
			}
			if restore != nil {
				qCtx.SetResponse(restore)
			}
		}
		cl.onMiss = func(bool) *dns.Msg { return nil }
		h0 = time.Now()
		qc, _, h1 := e.exec(q, cl)
		if hit, _, _ := cl.saw(); !hit {
			r.unexpectedMiss(label, curS0, life)
			return nil
		}
		if !inCont {
			hit := qc.R()
			if restore != nil {
				rep.Inconclusive("harness: restore without in-continuation check")
			}
			got = r.own("earlier-hit", label, hit)
			okc = r.verify(hit, qid, curPr, agedRule(curS0, curS1, h0, h1), &curPr.Compress, "fresh")
		} else if restore == nil && qc.R() != got.msg {
			rep.Inconclusive("harness: response object replaced unexpectedly")
		}
		// the query message stays the caller's as well: rewrite it
		q.Question[0].Name = "rewritten-query.invalid."
		q.Question[0].Qtype = dns.TypeANY
		q.Id = ^q.Id
		if !okc {
			return nil
		}
		return got
	}

	// --- round 1: mutate the stored object (and the OPT that was popped from it, and the query)
	r.mutate(stored, muts[0])
	scribbleOPT(upOpt)
	q0.Question[0].Name = "rewritten-query.invalid."
	q0.Id = ^q0.Id
	h1 := hitOnce("hit1", c.InCont, "", nil)
	if h1 == nil {
		return
	}
	// --- round 2: mutate hit1 (inside the continuation of hit2? no: between the calls)
	r.mutate(h1, muts[1])
	var h2 *owned
	if c.InCont {
		// hit2 is checked and mutated by the "later plugin" while Exec is still on the stack
		h2 = hitOnce("hit2", true, muts[2], nil)
	} else {
		h2 = hitOnce("hit2", false, "", nil)
		if h2 != nil {
			r.mutate(h2, muts[2])
		}
	}
	if h2 == nil {
		return
	}
	// --- round 3: stored object again with another mutation; hit3 re-stores version 1 from its continuation
	r.mutate(stored, muts[3])
	r.mutate(h1, muts[3])
	q1 := newQuery(r.name, t.typ, c, r.rng, 0)
	sp.Version = 1
	v1 := buildMsg(t, sp, q1)
	pr1 := makePristine(v1)
	addOPTs(v1, c.Shape, r.rng)
	restored := r.own("restored-object", "restored-object(v1)", v1)
	t3 := time.Now()
	h3 := hitOnce("hit3", true, "", v1)
	t3b := time.Now()
	if h3 == nil {
		return
	}
	restored.state = stateBytes(v1)
	rep.Count("re_stores", 1)
	r.logf("re-store v1 from inside the continuation of hit3")
	curPr, curS0, curS1 = pr1, t3, t3b
	life = lifetimeOf(v1, minTTLOf(pr1))
	// --- round 4: mutate the re-stored object and hit3, then hit
	r.mutate(restored, muts[0])
	r.mutate(h3, muts[1])
	h4 := hitOnce("hit4", false, "", nil)
	if h4 == nil {
		return
	}
	r.mutate(h4, muts[2])
	if h5 := hitOnce("hit5", false, "", nil); h5 == nil {
		return
	}
	// --- nothing the harness owns may have changed behind its back
	for _, o := range r.objs {
		r.checkUntouched(o)
	}
	if c.Idx%97 == 3 && plainSamples.Add(1) <= 3 {
		rep.Sample(map[string]any{"case": c, "question": r.name, "history": r.log})
	}
}

// ---------------------------------------------------------------------------
// lazy-cache (stale hit) phase
// ---------------------------------------------------------------------------

type lazyState struct {
	r          *seqRun
	v0         *dns.Msg
	pr0        *pristine
	stored     *owned
	s0, s1     time.Time
	mu         sync.Mutex
	refreshObj *dns.Msg // the object the terminal handed to the background refresh
	refreshPr  *pristine
	refreshT0  time.Time
	wantFresh  bool
}

func runLazyBatch(e *env, cases []seqCase) {
	var sts []*lazyState
	// 1. store everything with TTL 1 (the message expires after one second, the entry lives on)
	for _, c := range cases {
		caselog.Log(c)
		t := tmplByT[c.Type]
		r := &seqRun{c: c, e: e, rng: rand.New(rand.NewSource(c.Seed)), t: t, name: c.name(), dirty: map[string]bool{}}
		q0 := newQuery(r.name, t.typ, c, r.rng, 0)
		sp := msgSpec{Name: r.name, Type: c.Type, Shape: c.Shape, Version: 0, Seed: c.Seed, FixTTL: 1}
		v0 := buildMsg(t, sp, q0)
		st := &lazyState{r: r, v0: v0, pr0: makePristine(v0)}
		addOPTs(v0, c.Shape, r.rng)
		st.stored = r.own("stored-object", "stored-object(v0)", v0)
		cl := &call{onMiss: func(bool) *dns.Msg { return v0 }}
		_, st.s0, st.s1 = e.exec(q0, cl)
		if hit, miss, _ := cl.saw(); hit || !miss {
			rep.Inconclusive("lazy store of %s did not go through the miss path", r.name)
			continue
		}
		st.stored.state = stateBytes(v0)
		r.logf("store v0 with all TTLs 1 (query id %d)", q0.Id)
		rep.Count("stores", 1)
		r.lastID = q0.Id
		sts = append(sts, st)
	}
	if len(sts) == 0 {
		return
	}
	// 2. let the messages expire (the property under test is not about this second)
	last := sts[len(sts)-1].s1
	if d := time.Until(last.Add(1100 * time.Millisecond)); d > 0 {
		time.Sleep(d)
	}
	// 3. stale sequences
	for _, st := range sts {
		runLazyCase(e, st)
	}
	if left := leak.WaitNone([]string{"cache.(*Cache).doLazyUpdate"}, nil, 20*time.Second); len(left) > 0 {
		rep.Inconclusive("background refreshes still running after 20 s: %d", len(left))
	}
}

func runLazyCase(e *env, st *lazyState) {
	r := st.r
	c := r.c
	caselog.Log(c)
	t := r.t
	muts := c.Muts
	for len(muts) < 4 {
		muts = append(muts, "none")
	}
	// background refreshes: supply nothing until wantFresh, then exactly one refresh object
	onMiss := func(bg bool) *dns.Msg {
		st.mu.Lock()
		defer st.mu.Unlock()
		if !bg {
			return nil
		}
		rep.Count("background_refresh_calls", 1)
		if !st.wantFresh || st.refreshObj != nil {
			return nil
		}
		q := new(dns.Msg)
		q.SetQuestion(r.name, t.typ)
		q.Id = 4242
		sp := msgSpec{Name: r.name, Type: c.Type, Shape: c.Shape, Version: 1, Seed: c.Seed}
		m := buildMsg(t, sp, q)
		st.refreshPr = makePristine(m)
		st.refreshT0 = time.Now()
		st.refreshObj = m
		rep.Count("background_refreshes_supplied", 1)
		return m
	}
	compress0 := st.pr0.Compress
	staleHit := func(label string) (*owned, string) {
		q := newQuery(r.name, t.typ, c, r.rng, r.lastID)
		qid := q.Id
		r.lastID = qid
		cl := &call{onMiss: onMiss}
		h0 := time.Now()
		qc, _, h1 := e.exec(q, cl)
		if hit, _, _ := cl.saw(); !hit {
			r.unexpectedMiss(label, st.s0, 0)
			return nil, ""
		}
		hit := qc.R()
		o := r.own("earlier-hit", label, hit)
		// which version is this? decide by the marker record, then verify fully
		st.mu.Lock()
		rp, rt0 := st.refreshPr, st.refreshT0
		st.mu.Unlock()
		if rp != nil {
			if k, _, err := normKey(hit); err == nil && k == rp.norm {
				if r.verify(hit, qid, rp, agedRule(rt0, h1, h0, h1), &rp.Compress, "refreshed") {
					return o, "fresh"
				}
				return nil, ""
			}
		}
		if r.verify(hit, qid, st.pr0, fixedRule(5), &compress0, "stale") {
			return o, "stale"
		}
		return nil, ""
	}
	// stale hit 1 after mutating the stored object
	r.mutate(st.stored, muts[0])
	h1, k := staleHit("stale-hit1")
	if h1 == nil {
		return
	}
	if k != "stale" {
		rep.Inconclusive("harness: %s: first lazy hit was not stale", r.name)
		return
	}
	r.mutate(h1, muts[1])
	h2, _ := staleHit("stale-hit2")
	if h2 == nil {
		return
	}
	r.mutate(h2, muts[2])
	r.mutate(st.stored, muts[3])
	// now let the next background refresh deliver version 1
	st.mu.Lock()
	st.wantFresh = true
	st.mu.Unlock()
	var polled []*owned
	sawFresh := false
	deadline := time.Now().Add(20 * time.Second)
	for i := 0; time.Now().Before(deadline); i++ {
		o, k := staleHit(fmt.Sprintf("poll-hit%d", i))
		if o == nil {
			return
		}
		polled = append(polled, o)
		if k == "fresh" {
			sawFresh = true
			break
		}
		if len(polled) > 3 {
			// keep the hit list short; mutate what we drop
			r.mutate(polled[0], muts[1])
			polled = polled[1:]
		}
		if i > 2 {
			time.Sleep(time.Duration(i) * 200 * time.Microsecond)
		}
	}
	if !sawFresh {
		rep.Inconclusive("%s: the background refresh never became visible", r.name)
		return
	}
	rep.Count("background_refreshes_observed", 1)
	// a hit showed the refreshed version, hence the background store (copy) is complete:
	// the object handed to it is now the caller's to rewrite.
	st.mu.Lock()
	ro := st.refreshObj
	st.mu.Unlock()
	refreshed := r.own("restored-object", "refresh-object(v1)", ro)
	r.mutate(refreshed, muts[0])
	for _, p := range polled {
		r.mutate(p, muts[1])
	}
	o, k := staleHit("hit-after-refresh")
	if o == nil {
		return
	}
	if k != "fresh" {
		rep.Inconclusive("harness: %s: hit after refresh was stale again", r.name)
		return
	}
	r.mutate(o, muts[2])
	if o2, _ := staleHit("hit-after-refresh2"); o2 == nil {
		return
	}
	for _, o := range r.objs {
		r.checkUntouched(o)
	}
	if c.Idx%41 == 5 && lazySamples.Add(1) <= 2 {
		rep.Sample(map[string]any{"case": c, "question": r.name, "history": r.log})
	}
}

// ---------------------------------------------------------------------------
// case lists
// ---------------------------------------------------------------------------

func plainCases(rng *rand.Rand, rounds int) []seqCase {
	var out []seqCase
	M := len(mutations)
	idx := 0
	for round := 0; round < rounds; round++ {
		for ti := range templates {
			for mi := range mutations {
				c := seqCase{Phase: "plain", Idx: idx, Type: templates[ti].T,
					Shape:  shapes[(ti+mi+round*3)%len(shapes)],
					Muts:   []string{mutations[mi].Name, mutations[mi].Name, mutations[(mi+11+round)%M].Name, mutations[(mi+17+2*round)%M].Name},
					InCont: (ti+mi+round)%3 == 0,
					AD:     rng.Intn(2) == 0, CD: rng.Intn(2) == 0, Edns: rng.Intn(2) == 0,
					Seed: rng.Int63n(1 << 40)}
				out = append(out, c)
				idx++
			}
		}
	}
	return out
}

func lazyCases(rng *rand.Rand, perType int) []seqCase {
	var out []seqCase
	M := len(mutations)
	// stale hits need a NOERROR response with an answer; the shape-space members add
	// answers without authority/additional records and with 0..2 OPT records
	lazyShapes := []string{"answer", "answer-opt", "cname-chain", "answer-2opt", "big", "rc0:100:o0", "rc0:102:o1", "rc0:210:o2"}
	idx := 0
	for ti := range templates {
		for k := 0; k < perType; k++ {
			mi := (ti*perType + k) % M
			out = append(out, seqCase{Phase: "lazy", Idx: idx, Type: templates[ti].T,
				Shape: lazyShapes[(ti+k)%len(lazyShapes)],
				Muts:  []string{mutations[mi].Name, mutations[(mi+5)%M].Name, mutations[(mi+11)%M].Name, mutations[(mi+17)%M].Name},
				AD:    rng.Intn(2) == 0, CD: rng.Intn(2) == 0, Edns: rng.Intn(2) == 0,
				Seed: rng.Int63n(1 << 40)})
			idx++
		}
	}
	return out
}

// shapeCases walks the response-shape space (see shapeSpace): every fully
// enumerated shape meets every mutation of the catalogue (on the stored
// object, on hits, on the re-stored object - the runPlain cycle); RR types,
// the short fixed TTLs (5 s / 30 s entries are hit five times within their
// lifetime) and in-continuation mutation rotate. Probe shapes get one case each.
func shapeCases(rng *rand.Rand, rounds int) []seqCase {
	var out []seqCase
	M := len(mutations)
	full, probes := shapeSpace()
	idx := 0
	mk := func(sh respShape, mi, round int) {
		c := seqCase{Phase: "shape", Idx: idx, Type: templates[(idx*7+round)%len(templates)].T,
			Shape:  sh.String(),
			Muts:   []string{mutations[mi%M].Name, mutations[mi%M].Name, mutations[(mi+11+round)%M].Name, mutations[(mi+17+2*round)%M].Name},
			InCont: (idx+round)%3 == 0,
			AD:     rng.Intn(2) == 0, CD: rng.Intn(2) == 0, Edns: rng.Intn(2) == 0,
			Seed: rng.Int63n(1 << 40)}
		switch idx % 4 {
		case 1:
			c.TTL = 5
		case 3:
			c.TTL = 30
		}
		out = append(out, c)
		idx++
	}
	for round := 0; round < rounds; round++ {
		for si, sh := range full {
			for mi := range mutations {
				mk(sh, mi, round)
			}
			_ = si
		}
		for pi, sh := range probes {
			mk(sh, pi+round*5, round)
		}
	}
	return out
}

func parallel(n int, f func(w int)) {
	var wg sync.WaitGroup
	for w := 0; w < n; w++ {
		wg.Add(1)
		go func(w int) {
			defer wg.Done()
			f(w)
		}(w)
	}
	wg.Wait()
}

func main() {
	rep = evid.New("C10", "exploration")
	caselog = evid.OpenCaseLog()
	poolsan.Install(func(r poolsan.Report) {
		rep.Violation("poolsan-"+r.Kind, "buffer-pool sanitizer inside the cache plugin's dump code: "+r.Kind+": "+r.Info, map[string]any{"stack": r.Stack})
	})
	rep.SetRule("sequential cases = RR type x in-place mutation x message shape (answer/OPT/CNAME chain/NODATA/NXDOMAIN/SERVFAIL/big), generated from the seed: " +
		"store through cache.Exec, then alternately mutate an owned message (the object given to SetResponse, the popped OPT, earlier hits, the re-stored object, the query) " +
		"and hit again; every hit is packed and compared byte-wise with the pristine bytes taken before the store (ID = its own query's, TTLs within the store/read bracket); " +
		"same for stale lazy-cache hits + background refresh and for entries that went through /dump and /load_dump; concurrent phase: 16 goroutines on 8 questions under the race detector. " +
		"shape phase = the same cycle over the response-shape space rc<rcode>:<#answer><#authority><#additional>:o<#OPT> (NOERROR/SERVFAIL/NXDOMAIN x 8 section occupancies incl. zero records x 0..2 OPT, each x every mutation; every other rcode, question-less and TC responses as probes; fixed ttl 5/30 in rotation). " +
		"burst phase = N in {2,3,5,8,16} concurrent queries for one key held at a gate in the upstream (released when all N are there, or when no further caller arrives: coalesced misses); every caller's response is compared with the pristine answer, the structural monitor is applied pairwise to all callers' responses and upstream objects, then each caller's response is mutated in turn (catalogue rotates), all other callers' responses are re-checked, and a later hit is verified and mutated; then N concurrent hits of the entry are held together inside the continuation and get the same treatment. " +
		"non-trivial = a verified genuine cache hit that directly follows an EFFECTIVE mutation (packed form of the mutated object changed); fingerprint = phase|rr type|shape|hit kind|mutated object kind:mutation")
	rep.Assume("miekg/dns Pack is used to serialise served messages; the comparison itself is done on bytes with the independent lib/wire parser")
	rep.Assume("the harness only writes to messages it owns: responses it passed to SetResponse (after Exec returned, or after a hit proved the background store complete) and responses it was served")
	rep.Assume("/flush is serialised against other cache operations by the harness in the concurrent phase: concurrent_map.shard.flush replaces the map under a read lock (C11 territory); that race is not a statement about answer isolation")

	var dropped []string
	templates, dropped = validateTemplates()
	for i := range templates {
		tmplByT[templates[i].T] = &templates[i]
	}
	rep.Count("rr_types_in_workload", int64(len(templates)))
	rep.Count("mutation_catalogue_size", int64(len(mutations)))
	if len(dropped) > 0 {
		rep.Extra("templates_dropped", dropped)
	}
	if len(templates) < 40 {
		rep.Inconclusive("only %d RR type templates usable: %v", len(templates), dropped)
		rep.Finish()
	}

	if rep.ReplayFile != "" {
		replay()
		rep.Finish()
	}

	rng := rand.New(rand.NewSource(rep.Seed))
	workers := 8
	phaseT := time.Now()
	phases := map[string]float64{}
	lap := func(name string) {
		phases[name] = time.Since(phaseT).Seconds()
		phaseT = time.Now()
		rep.Extra("phase_seconds", phases)
	}

	// ---- phase 1: plain sequential cases
	pc := plainCases(rng, rep.Pick(1, 12))
	envs := make([]*env, workers)
	for i := range envs {
		envs[i] = newEnv(0)
	}
	parallel(workers, func(w int) {
		for i := w; i < len(pc); i += workers {
			runPlain(envs[w], pc[i])
		}
	})
	for _, e := range envs {
		e.close()
	}
	rep.Count("plain_cases", int64(len(pc)))
	lap("plain")

	// ---- phase 1b: the response-shape space (record-less / OPT-only / every rcode / short-lived entries)
	sc := shapeCases(rng, rep.Pick(1, 4))
	for i := range envs {
		envs[i] = newEnv(0)
	}
	parallel(workers, func(w int) {
		for i := w; i < len(sc); i += workers {
			runPlain(envs[w], sc[i])
		}
	})
	for _, e := range envs {
		e.close()
	}
	rep.Count("shape_cases", int64(len(sc)))
	lap("shape")

	// ---- phase 2: lazy cache (stale hits + background refresh)
	lc := lazyCases(rng, rep.Pick(3, 24))
	lenvs := make([]*env, workers)
	for i := range lenvs {
		lenvs[i] = newEnv(3600)
	}
	parallel(workers, func(w int) {
		var mine []seqCase
		for i := w; i < len(lc); i += workers {
			mine = append(mine, lc[i])
		}
		const batch = 60
		for len(mine) > 0 {
			n := batch
			if n > len(mine) {
				n = len(mine)
			}
			runLazyBatch(lenvs[w], mine[:n])
			mine = mine[n:]
		}
	})
	for _, e := range lenvs {
		e.close()
	}
	rep.Count("lazy_cases", int64(len(lc)))
	lap("lazy")

	// ---- phase 3: /dump -> /load_dump
	for round := 0; round < rep.Pick(1, 6); round++ {
		runDumpPhase(rng, round)
	}

	lap("dump")
	// ---- phase 3b: bursts of concurrent identical misses against a slow upstream
	bc := burstCases(rng, rep.Pick(2, 8))
	parallel(workers, func(w int) {
		for i := w; i < len(bc); i += workers {
			runBurst(bc[i])
		}
	})
	rep.Count("burst_cases", int64(len(bc)))
	lap("burst")
	// ---- phase 4: concurrent
	for _, cfg := range concConfigs(rng) {
		runConcurrent(cfg)
	}
	runtime.GOMAXPROCS(16)
	lap("concurrent")

	poolsan.Sweep()
	rep.Count("served_messages_containing_opt_ignored_by_oracle", servedOPTs.Load())
	rep.Count("poolsan_gets", poolsan.Gets.Load())
	rep.Count("poolsan_releases", poolsan.Releases.Load())
	judgeMisses()
	if rep.Get("hits_verified") == 0 || rep.Get("mutations_effective") == 0 {
		rep.Inconclusive("monitor observed no verified hits / no effective mutations")
	}
	if rep.Get("hits_stale") == 0 || rep.Get("hits_refreshed") == 0 {
		rep.Inconclusive("lazy phase observed no stale / no refreshed hits")
	}
	if rep.Get("hits_dump-loaded") == 0 {
		rep.Inconclusive("dump phase observed no hits on loaded entries")
	}
	if rep.Get("concurrent_hits_verified") == 0 {
		rep.Inconclusive("concurrent phase observed no hits")
	}
	if rep.Get("hits_on_recordless_entries") == 0 || rep.Get("hits_on_short_lived_entries") == 0 {
		rep.Inconclusive("shape phase observed no hits on record-less / short-lived entries")
	}
	if rep.Get("burst_bursts_with_overlapping_callers") == 0 || rep.Get("burst_later_hits_verified") == 0 || rep.Get("burst_rounds_with_overlapping_hits") == 0 {
		rep.Inconclusive("burst phase observed no overlapping identical queries / no later hits")
	}
	rep.Finish()
}

func replay() {
	var doc struct {
		Case *seqCase `json:"case"`
		Conc *concCfg `json:"conc"`
		Dump *struct {
			Round int   `json:"round"`
			Seed  int64 `json:"seed"`
		} `json:"dump"`
	}
	if err := rep.LoadReplay(&doc); err != nil {
		fmt.Println("cannot load replay:", err)
		os.Exit(3)
	}
	switch {
	case doc.Case != nil && (doc.Case.Phase == "plain" || doc.Case.Phase == "shape"):
		e := newEnv(0)
		runPlain(e, *doc.Case)
		e.close()
	case doc.Case != nil && doc.Case.Phase == "burst":
		for i := 0; i < 5; i++ { // which caller is first is schedule dependent
			runBurst(*doc.Case)
		}
	case doc.Case != nil && doc.Case.Phase == "lazy":
		e := newEnv(3600)
		runLazyBatch(e, []seqCase{*doc.Case})
		e.close()
	case doc.Dump != nil:
		runDumpPhase(rand.New(rand.NewSource(doc.Dump.Seed)), doc.Dump.Round)
	case doc.Conc != nil:
		for i := 0; i < 10; i++ {
			cfg := *doc.Conc
			cfg.Seed += int64(i)
			runConcurrent(cfg)
		}
	default:
		fmt.Println("replay file has no re-executable case (race-detector witnesses are re-run with: ./check C10 quick)")
		os.Exit(3)
	}
}
