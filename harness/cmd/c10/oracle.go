package main

import (
	"bytes"
	"encoding/binary"
	"encoding/hex"
	"fmt"
	"reflect"
	"sort"
	"sync"
	"sync/atomic"
	"time"
	"unsafe"

	"github.com/miekg/dns"

	"verifharness/lib/wire"
)

// packPlain packs m without name compression and without changing m for the
// caller (the Compress flag is restored). A panic inside Pack (a message the
// adversary wrecked) is turned into an error.
func packPlain(m *dns.Msg) (b []byte, err error) {
	defer func() {
		if r := recover(); r != nil {
			b, err = nil, fmt.Errorf("pack panicked: %v", r)
		}
	}()
	if m == nil {
		return nil, fmt.Errorf("nil message")
	}
	c := m.Compress
	m.Compress = false
	b, err = m.Pack()
	m.Compress = c
	return
}

// packServed packs a served message for comparison. OPT pseudo-records are left
// out: whether the cache keeps or drops EDNS0 records of a stored answer is not
// what this property is about (C15), so the oracle does not depend on it. The
// served message itself is not modified (a shallow clone with filtered section
// slices is packed).
func packServed(hit *dns.Msg) ([]byte, error) {
	if hit == nil {
		return nil, fmt.Errorf("nil message")
	}
	hasOpt := false
	for _, sec := range [][]dns.RR{hit.Answer, hit.Ns, hit.Extra} {
		for _, rr := range sec {
			if _, ok := rr.(*dns.OPT); ok {
				hasOpt = true
			}
		}
	}
	if !hasOpt {
		return packPlain(hit)
	}
	servedOPTs.Add(1)
	tmp := *hit
	filter := func(in []dns.RR) []dns.RR {
		out := make([]dns.RR, 0, len(in))
		for _, rr := range in {
			if _, ok := rr.(*dns.OPT); !ok {
				out = append(out, rr)
			}
		}
		return out
	}
	tmp.Answer, tmp.Ns, tmp.Extra = filter(hit.Answer), filter(hit.Ns), filter(hit.Extra)
	return packPlain(&tmp)
}

var servedOPTs atomic.Int64

// stateBytes is a total description of a message the harness owns (packed form
// or the pack error), used to see whether a mutation had an effect and whether
// somebody else changed the message later.
func stateBytes(m *dns.Msg) string {
	b, err := packPlain(m)
	if err != nil {
		return "ERR:" + err.Error()
	}
	c := byte(0)
	if m.Compress {
		c = 1
	}
	return string(append(b, c))
}

// pristine is the harness' private, immutable record of what the cache must
// serve for one stored answer: the packed bytes (no compression, no OPT, ID 0)
// taken BEFORE the message was handed to the cache.
type pristine struct {
	Bytes    []byte
	parsed   *wire.Msg
	ttls     []uint32
	Compress bool
	norm     string // Bytes with every TTL zeroed: identity of a version

	cmu     sync.Mutex
	hitFlag map[bool]bool // Compress flag of the first hit served from this version, per flag of the stored object (original store / dump-loaded)
}

func makePristine(noOpt *dns.Msg) *pristine {
	b, err := packPlain(noOpt)
	if err != nil {
		panic("harness: cannot pack generated answer: " + err.Error())
	}
	b = append([]byte(nil), b...)
	b[0], b[1] = 0, 0
	wm, err := wire.Parse(b)
	if err != nil || wm.Len != len(b) {
		panic(fmt.Sprintf("harness: independent parser rejects generated answer: %v", err))
	}
	p := &pristine{Bytes: b, parsed: wm, Compress: noOpt.Compress}
	z := append([]byte(nil), b...)
	for _, rr := range allRRs(wm) {
		p.ttls = append(p.ttls, rr.TTL)
		binary.BigEndian.PutUint32(z[rr.RdOff-6:], 0)
	}
	p.norm = string(z)
	return p
}

func allRRs(m *wire.Msg) []wire.RR {
	out := make([]wire.RR, 0, len(m.Answer)+len(m.Ns)+len(m.Extra))
	out = append(out, m.Answer...)
	out = append(out, m.Ns...)
	out = append(out, m.Extra...)
	return out
}

// ttlRule says which served TTL values are acceptable for a record whose
// stored TTL was ttl0.
type ttlRule func(ttl0 uint32) (lo, hi uint32)

func aged(ttl0 uint32, d uint64) uint32 {
	if uint64(ttl0) > d {
		return ttl0 - uint32(d)
	}
	return 1
}

// agedRule: the entry was stored at some instant in [s0,s1] and read at some
// instant in [h0,h1] (all on one monotonic clock); the cache subtracts the
// whole seconds elapsed and never serves less than 1.
func agedRule(s0, s1, h0, h1 time.Time) ttlRule {
	dmin := h0.Sub(s1)
	if dmin < 0 {
		dmin = 0
	}
	dmax := h1.Sub(s0)
	if dmax < 0 {
		dmax = 0
	}
	lo, hi := uint64(dmin/time.Second), uint64(dmax/time.Second)
	return func(ttl0 uint32) (uint32, uint32) { return aged(ttl0, hi), aged(ttl0, lo) }
}

// wallRule: the entry carries a stored time in whole Unix seconds (entries
// loaded from a dump); ageing is computed from the wall clock.
func wallRule(storedUnix int64, h0, h1 time.Time) ttlRule {
	st := time.Unix(storedUnix, 0)
	dmin := h0.Round(0).Sub(st)
	dmax := h1.Round(0).Sub(st)
	if dmin < 0 {
		dmin = 0
	}
	if dmax < 0 {
		dmax = 0
	}
	lo, hi := uint64(dmin/time.Second), uint64(dmax/time.Second)
	if lo > 0 {
		lo-- // wall clock vs. monotonic reading skew: be one second generous on both ends
	}
	hi++
	return func(ttl0 uint32) (uint32, uint32) { return aged(ttl0, hi), aged(ttl0, lo) }
}

func fixedRule(v uint32) ttlRule { return func(uint32) (uint32, uint32) { return v, v } }

// looseRule accepts any aged value (concurrent phase: the store instant of the
// version being served is not known exactly).
func looseRule() ttlRule {
	return func(ttl0 uint32) (uint32, uint32) { return 1, ttl0 }
}

type mismatch struct {
	Field  string `json:"field"`
	Detail string `json:"detail"`
	Served string `json:"served_hex,omitempty"`
	Want   string `json:"pristine_hex,omitempty"`
}

func hexCut(b []byte) string {
	if len(b) > 700 {
		return hex.EncodeToString(b[:700]) + "..."
	}
	return hex.EncodeToString(b)
}

// normalise packs a served message, checks every TTL with rule against the
// candidate pristine, and returns the packed bytes with ID zeroed and TTLs
// replaced by the pristine ones (byte-comparable with pristine.Bytes).
func checkServed(hit *dns.Msg, qid uint16, pr *pristine, rule ttlRule, wantCompress *bool) *mismatch {
	if hit == nil {
		return &mismatch{Field: "nil", Detail: "no response object"}
	}
	if hit.Id != qid {
		return &mismatch{Field: "id", Detail: fmt.Sprintf("hit carries ID %d, its query has ID %d", hit.Id, qid)}
	}
	if wantCompress != nil {
		// Msg.Compress is a packing hint of the Go object, not DNS content: a cache may hand
		// out hits with the flag of the stored message (the pinned tree) or with its own
		// constant (e.g. entries kept in wire form). What must not happen is that the flag of
		// later hits follows what a caller did to an earlier hit or to the stored object: all
		// hits of one stored version carry the same flag.
		pr.cmu.Lock()
		if pr.hitFlag == nil {
			pr.hitFlag = map[bool]bool{}
		}
		if _, ok := pr.hitFlag[*wantCompress]; !ok {
			pr.hitFlag[*wantCompress] = hit.Compress
		}
		base := pr.hitFlag[*wantCompress]
		pr.cmu.Unlock()
		if hit.Compress != base {
			return &mismatch{Field: "compress-flag", Detail: fmt.Sprintf("Compress=%v, the first hit served from this entry had %v (stored message: %v)", hit.Compress, base, *wantCompress)}
		}
	}
	b, err := packServed(hit)
	if err != nil {
		return &mismatch{Field: "pack-error", Detail: err.Error()}
	}
	b = append([]byte(nil), b...)
	if binary.BigEndian.Uint16(b) != qid {
		return &mismatch{Field: "id", Detail: "packed ID differs from the query ID"}
	}
	b[0], b[1] = 0, 0
	wm, err := wire.Parse(b)
	if err != nil {
		return &mismatch{Field: "pack-error", Detail: "independent parser: " + err.Error(), Served: hexCut(b)}
	}
	want := pr.parsed
	if wm.Flags != want.Flags {
		return &mismatch{Field: "header", Detail: fmt.Sprintf("flags %04x, pristine %04x", wm.Flags, want.Flags), Served: hexCut(b), Want: hexCut(pr.Bytes)}
	}
	if len(wm.Questions) != len(want.Questions) {
		return &mismatch{Field: "question", Detail: fmt.Sprintf("%d questions, pristine %d", len(wm.Questions), len(want.Questions)), Served: hexCut(b), Want: hexCut(pr.Bytes)}
	}
	for i := range wm.Questions {
		a, w := wm.Questions[i], want.Questions[i]
		if !bytes.Equal(a.RawName, w.RawName) || a.Type != w.Type || a.Class != w.Class {
			return &mismatch{Field: "question", Detail: fmt.Sprintf("question %q/%d/%d, pristine %q/%d/%d", a.Name, a.Type, a.Class, w.Name, w.Type, w.Class), Served: hexCut(b), Want: hexCut(pr.Bytes)}
		}
	}
	if len(wm.Answer) != len(want.Answer) || len(wm.Ns) != len(want.Ns) || len(wm.Extra) != len(want.Extra) {
		return &mismatch{Field: "rr-count", Detail: fmt.Sprintf("sections %d/%d/%d, pristine %d/%d/%d", len(wm.Answer), len(wm.Ns), len(wm.Extra), len(want.Answer), len(want.Ns), len(want.Extra)), Served: hexCut(b), Want: hexCut(pr.Bytes)}
	}
	got, exp := allRRs(wm), allRRs(want)
	for i := range got {
		a, w := got[i], exp[i]
		switch {
		case !bytes.Equal(a.NameRaw, w.NameRaw):
			return &mismatch{Field: "rr-name", Detail: fmt.Sprintf("record %d owner %q, pristine %q", i, a.Name, w.Name), Served: hexCut(b), Want: hexCut(pr.Bytes)}
		case a.Type != w.Type || a.Class != w.Class:
			return &mismatch{Field: "rr-type-class", Detail: fmt.Sprintf("record %d type/class %d/%d, pristine %d/%d", i, a.Type, a.Class, w.Type, w.Class), Served: hexCut(b), Want: hexCut(pr.Bytes)}
		case !bytes.Equal(a.Rdata, w.Rdata):
			return &mismatch{Field: "rdata", Detail: fmt.Sprintf("record %d (type %d) rdata %x, pristine %x", i, a.Type, a.Rdata, w.Rdata), Served: hexCut(b), Want: hexCut(pr.Bytes)}
		}
		lo, hi := rule(w.TTL)
		if a.TTL < lo || a.TTL > hi {
			return &mismatch{Field: "ttl", Detail: fmt.Sprintf("record %d (type %d) ttl %d, stored ttl %d, acceptable [%d,%d]", i, a.Type, a.TTL, w.TTL, lo, hi), Served: hexCut(b), Want: hexCut(pr.Bytes)}
		}
		binary.BigEndian.PutUint32(b[a.RdOff-6:], w.TTL)
	}
	if !bytes.Equal(b, pr.Bytes) {
		return &mismatch{Field: "bytes", Detail: "packed form differs from the pristine packed form", Served: hexCut(b), Want: hexCut(pr.Bytes)}
	}
	return nil
}

// normKey returns the version identity of a served message: packed bytes with
// ID and every TTL zeroed (and the served TTLs), or an error description.
func normKey(hit *dns.Msg) (key string, ttls []uint32, err error) {
	b, err := packServed(hit)
	if err != nil {
		return "", nil, err
	}
	b = append([]byte(nil), b...)
	b[0], b[1] = 0, 0
	wm, err := wire.Parse(b)
	if err != nil {
		return "", nil, err
	}
	for _, rr := range allRRs(wm) {
		ttls = append(ttls, rr.TTL)
		binary.BigEndian.PutUint32(b[rr.RdOff-6:], 0)
	}
	return string(b), ttls, nil
}

// ---------------------------------------------------------------------------
// structural monitor: memory reachable from two messages must be disjoint
// ---------------------------------------------------------------------------

type region struct {
	lo, hi uintptr
	keep   unsafe.Pointer // keeps the allocation alive so that its address cannot be reused
	path   string
}

type memSnap struct {
	what    string
	regions []region
}

// snapshotMem records every piece of mutable memory reachable from m: the
// message struct itself, the backing arrays of all slices (full capacity) and
// every pointed-to struct. Strings are immutable in Go and are not recorded.
func snapshotMem(what string, m *dns.Msg) *memSnap {
	s := &memSnap{what: what}
	if m == nil {
		return s
	}
	seen := map[uintptr]bool{}
	walkMem(reflect.ValueOf(m), "msg", s, seen, 0)
	sort.Slice(s.regions, func(i, j int) bool { return s.regions[i].lo < s.regions[j].lo })
	return s
}

func walkMem(v reflect.Value, path string, s *memSnap, seen map[uintptr]bool, depth int) {
	if depth > 12 {
		return
	}
	switch v.Kind() {
	case reflect.Ptr:
		if v.IsNil() {
			return
		}
		sz := v.Type().Elem().Size()
		p := v.Pointer()
		if sz > 0 {
			if seen[p] {
				return
			}
			seen[p] = true
			s.regions = append(s.regions, region{lo: p, hi: p + sz, keep: v.UnsafePointer(), path: path})
		}
		walkMem(v.Elem(), path, s, seen, depth+1)
	case reflect.Interface:
		if !v.IsNil() {
			walkMem(v.Elem(), path, s, seen, depth+1)
		}
	case reflect.Slice:
		if v.IsNil() {
			return
		}
		es := v.Type().Elem().Size()
		if v.Cap() > 0 && es > 0 {
			p := v.Pointer()
			s.regions = append(s.regions, region{lo: p, hi: p + uintptr(v.Cap())*es, keep: v.UnsafePointer(), path: path + "[]"})
		}
		switch v.Type().Elem().Kind() {
		case reflect.Ptr, reflect.Interface, reflect.Slice, reflect.Struct, reflect.Map:
			for i := 0; i < v.Len(); i++ {
				walkMem(v.Index(i), fmt.Sprintf("%s[%d]", path, i), s, seen, depth+1)
			}
		}
	case reflect.Struct:
		for i := 0; i < v.NumField(); i++ {
			walkMem(v.Field(i), path+"."+v.Type().Field(i).Name, s, seen, depth+1)
		}
	case reflect.Map:
		if v.IsNil() {
			return
		}
		p := v.Pointer()
		s.regions = append(s.regions, region{lo: p, hi: p + 8, keep: v.UnsafePointer(), path: path + "{map}"})
	}
}

// overlap returns a description of the first shared memory region, or "".
func overlap(a, b *memSnap) string {
	for _, ra := range a.regions {
		for _, rb := range b.regions {
			if rb.lo >= ra.hi {
				break // b is sorted by lo
			}
			if ra.lo < rb.hi && rb.lo < ra.hi {
				return fmt.Sprintf("%s:%s and %s:%s share memory [%#x,%#x) / [%#x,%#x)", a.what, ra.path, b.what, rb.path, ra.lo, ra.hi, rb.lo, rb.hi)
			}
		}
	}
	return ""
}
