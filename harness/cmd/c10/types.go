package main

import (
	"bytes"
	"fmt"
	"math/rand"
	"strings"

	"github.com/miekg/dns"

	"verifharness/lib/wire"
)

// rrTemplate describes one RR type the workload stores in the cache. Rd holds
// two or more rdata variants in presentation format (so that different
// "versions" of an answer differ in their record data); Build, when set,
// constructs the record directly (types without a presentation parser).
type rrTemplate struct {
	T     string
	Rd    []string
	Build func(owner string, ttl uint32, variant int) dns.RR
	typ   uint16
}

const (
	b64a = "AwEAAcUlFV1vhmqx6NSOUOq2R/dsR7Xm3upJ3TT2pCpLKwUiDmJSR7zLmuB5Fdz6rTNfVbUWlx1f8mSLVOYH3aH6l0k="
	b64b = "AQPSKmynfzW4kyBv015MUG2DeIQ3Cbl+BBZH4b/0PY1kxkmvHjcZc8nokfzj31GajIQKY+5CptLr3buXA10hWqTkF7H6RfoRqXQeogmMHfpftf6zMv1LyBUgia7za6ZEzOJBOztyvhjL742iU/TpPSEDhm2SNKLijfUppn1UaNvv4w=="
	hexA = "2bb183af5f22588179a53b0a98631fad1a292118"
	hexB = "e2d3c916f6deeac73294e8268fb5885044a833fc5459588f4a9184cfc41a5766"
)

var rrTemplates = []rrTemplate{
	{T: "A", Rd: []string{"192.0.2.1", "198.51.100.77"}},
	{T: "AAAA", Rd: []string{"2001:db8::1", "2001:db8:ffff::abcd"}},
	{T: "NS", Rd: []string{"ns1.example.net.", "ns2.example.org."}},
	{T: "CNAME", Rd: []string{"alias1.example.net.", "alias2.example.org."}},
	{T: "SOA", Rd: []string{"ns.example.net. hostmaster.example.net. 2024010101 7200 3600 1209600 300", "ns.example.org. root.example.org. 7 1 2 3 4"}},
	{T: "PTR", Rd: []string{"host1.example.net.", "host2.example.org."}},
	{T: "MX", Rd: []string{"10 mail1.example.net.", "20 mail2.example.org."}},
	{T: "TXT", Rd: []string{`"hello world" "second string"`, `"v=other" "x" "yz"`}},
	{T: "SPF", Rd: []string{`"v=spf1 -all"`, `"v=spf1 a mx" "~all"`}},
	{T: "SRV", Rd: []string{"10 20 443 target1.example.net.", "1 2 8443 target2.example.org."}},
	{T: "NAPTR", Rd: []string{`100 10 "S" "SIP+D2U" "!^.*$!sip:info@example.com!" _sip._udp.example.net.`, `1 2 "U" "E2U+sip" "" other.example.org.`}},
	{T: "DS", Rd: []string{"60485 5 1 " + hexA, "12345 8 2 " + hexB}},
	{T: "CDS", Rd: []string{"60485 5 1 " + hexA, "12345 8 2 " + hexB}},
	{T: "DLV", Rd: []string{"60485 5 1 " + hexA, "12345 8 2 " + hexB}},
	{T: "TA", Rd: []string{"60485 5 1 " + hexA, "12345 8 2 " + hexB}},
	{T: "DNSKEY", Rd: []string{"256 3 8 " + b64a, "257 3 13 " + b64b}},
	{T: "CDNSKEY", Rd: []string{"256 3 8 " + b64a, "257 3 13 " + b64b}},
	{T: "KEY", Rd: []string{"256 3 8 " + b64a, "257 3 13 " + b64b}},
	{T: "RKEY", Rd: []string{"0 3 8 " + b64a, "0 3 13 " + b64b}},
	{T: "RRSIG", Rd: []string{"A 8 2 300 20300101000000 20200101000000 12345 example.net. " + b64a, "MX 13 3 3600 20310101000000 20210101000000 54321 example.org. " + b64b}},
	{T: "NSEC", Rd: []string{"next.example.net. A MX RRSIG NSEC TYPE1234", "zzz.example.org. NS SOA AAAA TYPE65280"}},
	{T: "NSEC3", Rd: []string{"1 1 12 aabbccdd 2t7b4g4vsa5smi47k61mv5bv1a22bojr NS SOA MX RRSIG DNSKEY NSEC3PARAM", "1 0 5 - 2vptu5timamqttgl4luu9kg21e0aor3s A RRSIG"}},
	{T: "NSEC3PARAM", Rd: []string{"1 0 12 aabbccdd", "1 0 5 -"}},
	{T: "CSYNC", Rd: []string{"66 3 A NS AAAA", "1 1 NS TYPE300"}},
	{T: "TLSA", Rd: []string{"3 1 1 " + hexB, "2 0 1 " + hexA}},
	{T: "SMIMEA", Rd: []string{"3 1 1 " + hexB, "2 0 1 " + hexA}},
	{T: "SSHFP", Rd: []string{"2 1 " + hexA, "4 2 " + hexB}},
	{T: "CAA", Rd: []string{`0 issue "letsencrypt.org"`, `128 iodef "mailto:sec@example.org"`}},
	{T: "SVCB", Rd: []string{`1 svc1.example.net. mandatory="alpn,port" alpn="h2,h3" port="8443" ipv4hint="192.0.2.1,192.0.2.2" ech="AEX+DQA=" ipv6hint="2001:db8::1,2001:db8::2" key65333="abcdef"`, `2 svc2.example.org. alpn="dot" no-default-alpn port="853" dohpath="/dns-query{?dns}"`}},
	{T: "HTTPS", Rd: []string{`1 . alpn="h3,h2" ipv4hint="198.51.100.1" ipv6hint="2001:db8:1::1" key65400="zz"`, `3 cdn.example.org. port="444" ech="AEX+DQBB" mandatory="port"`}},
	{T: "HINFO", Rd: []string{`"PC" "Linux"`, `"VAX" "VMS"`}},
	{T: "MINFO", Rd: []string{"r1.example.net. e1.example.net.", "r2.example.org. e2.example.org."}},
	{T: "RP", Rd: []string{"mbox1.example.net. txt1.example.net.", "mbox2.example.org. txt2.example.org."}},
	{T: "AFSDB", Rd: []string{"1 afs1.example.net.", "2 afs2.example.org."}},
	{T: "LOC", Rd: []string{"52 22 23.000 N 4 53 32.000 E -2.00m 0.00m 10000m 10m", "31 0 0.000 S 106 28 29.000 W 10.00m 1m 10m 2m"}},
	{T: "URI", Rd: []string{`10 1 "https://example.net/path"`, `20 2 "ftp://example.org/"`}},
	{T: "DNAME", Rd: []string{"dname1.example.net.", "dname2.example.org."}},
	{T: "CERT", Rd: []string{"PKIX 12345 RSASHA256 " + b64a, "PGP 1 ECDSAP256SHA256 " + b64b}},
	{T: "DHCID", Rd: []string{"AAIBY2/AuCccgoJbsaxcQc9TUapptP69lOjxfNuVAA2kjEA=", "AAEBOSD+XR3Os/0LozeXVqcNc7FwCfQdWL3b/NaiUDlW2No="}},
	{T: "OPENPGPKEY", Rd: []string{b64a, b64b}},
	{T: "ZONEMD", Rd: []string{"2018031500 1 1 " + hexB + hexB[:32], "7 1 2 " + hexB + hexB}},
	{T: "EUI48", Rd: []string{"00-00-5e-00-53-2a", "02-11-22-33-44-55"}},
	{T: "EUI64", Rd: []string{"00-00-5e-ef-10-00-00-2a", "02-11-22-33-44-55-66-77"}},
	{T: "NID", Rd: []string{"10 0014:4fff:ff20:ee64", "20 ffee:ddcc:bbaa:9988"}},
	{T: "L32", Rd: []string{"10 10.1.2.0", "20 10.9.8.7"}},
	{T: "L64", Rd: []string{"10 2001:0db8:1140:1000", "20 2001:0db8:2140:2000"}},
	{T: "LP", Rd: []string{"10 l64-subnet1.example.net.", "20 l32-subnet2.example.org."}},
	{T: "APL", Rd: []string{"1:192.168.32.0/21 !1:192.168.38.0/28 2:2001:db8::/32", "!2:2001:db8:1::/48 1:10.0.0.0/8"}},
	{T: "IPSECKEY", Rd: []string{"10 1 2 192.0.2.38 " + b64a, "10 2 2 2001:db8::1 " + b64b, "10 3 2 gw.example.org. " + b64a}},
	{T: "AMTRELAY", Rd: []string{"10 0 1 203.0.113.15", "10 1 2 2001:db8::15", "128 0 3 amt.example.org."}},
	{T: "HIP", Rd: []string{"2 200100107B1A74DF365639CC39F1D578 " + b64a + " rvs1.example.net. rvs2.example.net.", "2 200100107B1A74DF365639CC39F1D579 " + b64b}},
	{T: "KX", Rd: []string{"10 kx1.example.net.", "20 kx2.example.org."}},
	{T: "RT", Rd: []string{"10 rt1.example.net.", "20 rt2.example.org."}},
	{T: "PX", Rd: []string{"10 map822.example.net. mapx400.example.net.", "20 a.example.org. b.example.org."}},
	{T: "X25", Rd: []string{`311061700956`, `31105060845`}},
	{T: "ISDN", Rd: []string{`"150862028003217" "004"`, `"150862028003218"`}},
	{T: "NSAP-PTR", Rd: []string{"nsap1.example.net.", "nsap2.example.org."}},
	{T: "TALINK", Rd: []string{"a1.example.net. b1.example.net.", "a2.example.org. b2.example.org."}},
	{T: "NINFO", Rd: []string{`"info one" "two"`, `"other"`}},
	{T: "AVC", Rd: []string{`"app-name:WOLFGANG|app-class:OAM"`, `"app-name:OTHER"`}},
	{T: "GPOS", Rd: []string{"-32.6882 116.8652 10.0", "40.7 -74.0 5.0"}},
	{T: "MB", Rd: []string{"mb1.example.net.", "mb2.example.org."}},
	{T: "MG", Rd: []string{"mg1.example.net.", "mg2.example.org."}},
	{T: "MR", Rd: []string{"mr1.example.net.", "mr2.example.org."}},
	{T: "MD", Rd: []string{"md1.example.net.", "md2.example.org."}},
	{T: "MF", Rd: []string{"mf1.example.net.", "mf2.example.org."}},
	{T: "UID", Rd: []string{"1001", "2002"}},
	{T: "GID", Rd: []string{"3003", "4004"}},
	{T: "UINFO", Rd: []string{`"user info"`, `"other info"`}},
	{T: "EID", Rd: []string{"e32c6f78163a9348", "0102030405"}},
	{T: "NIMLOC", Rd: []string{"e32c6f78163a9348", "0a0b0c"}},
	{T: "TKEY", Rd: nil, Build: func(owner string, ttl uint32, v int) dns.RR {
		return &dns.TKEY{Hdr: dns.RR_Header{Name: owner, Rrtype: dns.TypeTKEY, Class: dns.ClassINET, Ttl: ttl},
			Algorithm: "gss-tsig.", Inception: 1700000000 + uint32(v), Expiration: 1800000000, Mode: 3, Error: 0,
			KeySize: 4, Key: []string{"deadbeef", "0badcafe"}[v%2], OtherLen: 2, OtherData: "abcd"}
	}},
	{T: "NULL", Rd: nil, Build: func(owner string, ttl uint32, v int) dns.RR {
		return &dns.NULL{Hdr: dns.RR_Header{Name: owner, Rrtype: dns.TypeNULL, Class: dns.ClassINET, Ttl: ttl},
			Data: []string{"\x00\x01binary\xff", "other-null-data"}[v%2]}
	}},
	// unknown types, RFC 3597
	{T: "TYPE65280", Rd: []string{`\# 4 0a000001`, `\# 6 010203040506`}},
	{T: "TYPE731", Rd: []string{`\# 9 00112233445566aabb`, `\# 1 ff`}},
	{T: "TYPE4660", Rd: []string{`\# 0`, `\# 3 616263`}},
}

// validateTemplates keeps the templates that parse, pack, survive a
// pack/unpack round trip byte-for-byte (with and without compression), are
// deep-copied by dns.Copy to the same bytes and are readable by the
// independent wire parser. Anything else would make the oracle depend on
// miekg/dns quirks and is dropped (and reported in the evidence).
func validateTemplates() (ok []rrTemplate, dropped []string) {
	for _, t := range rrTemplates {
		good := true
		n := len(t.Rd)
		if t.Build != nil {
			n = 2
		}
		for v := 0; v < n && good; v++ {
			rr, err := t.make("owner.example.net.", 300, v)
			if err != nil || rr == nil {
				good = false
				dropped = append(dropped, fmt.Sprintf("%s: %v", t.T, err))
				break
			}
			t.typ = rr.Header().Rrtype
			m := new(dns.Msg)
			m.SetQuestion("owner.example.net.", rr.Header().Rrtype)
			m.Response = true
			m.Answer = []dns.RR{rr, dns.Copy(rr)}
			m.Ns = []dns.RR{dns.Copy(rr)}
			b1, err := m.Pack()
			if err != nil {
				good = false
				dropped = append(dropped, fmt.Sprintf("%s: pack: %v", t.T, err))
				break
			}
			for _, comp := range []bool{false, true} {
				mc := m.Copy()
				mc.Compress = comp
				bc, err := mc.Pack()
				if err != nil {
					good = false
					break
				}
				m2 := new(dns.Msg)
				if err := m2.Unpack(bc); err != nil {
					good = false
					dropped = append(dropped, fmt.Sprintf("%s: unpack: %v", t.T, err))
					break
				}
				m2.Compress = false
				b2, err := m2.Pack()
				if err != nil || !bytes.Equal(b1, b2) {
					good = false
					dropped = append(dropped, fmt.Sprintf("%s: round trip differs (compress=%v)", t.T, comp))
					break
				}
			}
			if !good {
				break
			}
			if wm, err := wire.Parse(b1); err != nil || len(wm.Answer) != 2 || wm.Len != len(b1) {
				good = false
				dropped = append(dropped, fmt.Sprintf("%s: independent parser: %v", t.T, err))
			}
		}
		if good {
			ok = append(ok, t)
		}
	}
	return
}

func (t *rrTemplate) make(owner string, ttl uint32, variant int) (dns.RR, error) {
	if t.Build != nil {
		return t.Build(owner, ttl, variant), nil
	}
	rd := t.Rd[variant%len(t.Rd)]
	rr, err := dns.NewRR(fmt.Sprintf("%s %d IN %s %s", owner, ttl, t.T, rd))
	if err != nil {
		return nil, err
	}
	if rr == nil {
		return nil, fmt.Errorf("empty record")
	}
	return rr, nil
}

func (t *rrTemplate) must(owner string, ttl uint32, variant int) dns.RR {
	rr, err := t.make(owner, ttl, variant)
	if err != nil {
		panic(fmt.Sprintf("harness: template %s: %v", t.T, err))
	}
	return rr
}

var shapes = []string{"answer", "answer-opt", "cname-chain", "answer-2opt", "nodata", "nxdomain", "servfail", "big"}

// respShape is one point of the systematic response-shape space: the rcode,
// how many records each section carries (0 = the section is empty), how many
// OPT pseudo-records are added to the additional section, and whether the
// response carries the question / the TC bit. Spelled "rc<rcode>:<an><ns><ex>:o<opts>[:q0][:tc]",
// e.g. "rc2:000:o0" is a bare SERVFAIL, "rc3:000:o1" an NXDOMAIN that carries
// nothing but an OPT, "rc0:100:o0" an answer without authority/additional.
// Unlike the named shapes above these messages carry NO marker record: a
// record-less shape really has zero records.
type respShape struct {
	Rcode      int
	An, Ns, Ex int
	Opts       int
	NoQ, TC    bool
}

func (s respShape) String() string {
	out := fmt.Sprintf("rc%d:%d%d%d:o%d", s.Rcode, s.An, s.Ns, s.Ex, s.Opts)
	if s.NoQ {
		out += ":q0"
	}
	if s.TC {
		out += ":tc"
	}
	return out
}

func (s respShape) records() int { return s.An + s.Ns + s.Ex }

func parseShape(str string) (respShape, bool) {
	var s respShape
	if !strings.HasPrefix(str, "rc") {
		return s, false
	}
	parts := strings.Split(str[2:], ":")
	if len(parts) < 3 || len(parts[1]) != 3 || len(parts[2]) != 2 || parts[2][0] != 'o' {
		return s, false
	}
	if _, err := fmt.Sscanf(parts[0], "%d", &s.Rcode); err != nil || s.Rcode < 0 || s.Rcode > 15 {
		return s, false
	}
	d := func(c byte) int { return int(c - '0') }
	s.An, s.Ns, s.Ex, s.Opts = d(parts[1][0]), d(parts[1][1]), d(parts[1][2]), d(parts[2][1])
	for _, v := range []int{s.An, s.Ns, s.Ex, s.Opts} {
		if v < 0 || v > 9 {
			return s, false
		}
	}
	for _, f := range parts[3:] {
		switch f {
		case "q0":
			s.NoQ = true
		case "tc":
			s.TC = true
		default:
			return s, false
		}
	}
	return s, true
}

// cachedOnReferenceTree tells whether the unchanged cache plugin stores a
// response of this shape (all generated TTLs are > 0). It is NOT part of the
// oracle: the property does not say what must be cached. It only decides
// whether a miss right after the store is bookkeeping ("this shape is not
// cached") or means the monitor lost its object of study (inconclusive).
func (s respShape) cachedOnReferenceTree() bool {
	if s.NoQ || s.TC {
		return false
	}
	switch s.Rcode {
	case dns.RcodeNameError, dns.RcodeServerFailure:
		return true
	case dns.RcodeSuccess:
		return s.records() > 0
	}
	return false
}

// shapeSpace enumerates the response-shape space: every rcode x every
// combination of empty / non-empty sections x 0..2 OPT records for the rcodes
// a cache may reasonably keep (NOERROR, SERVFAIL, NXDOMAIN: these get the full
// mutation cycle), and one probe per section combination for every other rcode,
// for question-less and for truncated responses.
func shapeSpace() (full []respShape, probes []respShape) {
	occ := [][3]int{{0, 0, 0}, {1, 0, 0}, {0, 1, 0}, {0, 0, 1}, {2, 1, 0}, {1, 0, 2}, {0, 2, 1}, {2, 2, 2}}
	for _, rc := range []int{dns.RcodeSuccess, dns.RcodeServerFailure, dns.RcodeNameError} {
		for _, o := range occ {
			for opts := 0; opts <= 2; opts++ {
				full = append(full, respShape{Rcode: rc, An: o[0], Ns: o[1], Ex: o[2], Opts: opts})
			}
		}
	}
	for rc := 0; rc <= 15; rc++ {
		for i, o := range occ {
			sh := respShape{Rcode: rc, An: o[0], Ns: o[1], Ex: o[2], Opts: (rc + i) % 3}
			switch rc {
			case dns.RcodeSuccess, dns.RcodeServerFailure, dns.RcodeNameError:
				q0, tc := sh, sh
				q0.NoQ = true
				tc.TC = true
				probes = append(probes, q0, tc)
			default:
				probes = append(probes, sh)
			}
		}
	}
	return
}

var ttlChoices = []uint32{60, 61, 299, 300, 3600, 86400, 604800, 2147483647, 4294967295}

func pickTTL(rng *rand.Rand) uint32 { return ttlChoices[rng.Intn(len(ttlChoices))] }

func mustRR(s string) dns.RR {
	rr, err := dns.NewRR(s)
	if err != nil || rr == nil {
		panic("harness: bad rr " + s)
	}
	return rr
}

// msgSpec is everything needed to rebuild a response deterministically.
type msgSpec struct {
	Name    string `json:"name"`
	Type    string `json:"type"`
	Shape   string `json:"shape"`
	Version int    `json:"version"`
	FixTTL  uint32 `json:"fix_ttl,omitempty"` // all records get this ttl (lazy phase: 1)
	Seed    int64  `json:"seed"`
}

// buildMsg builds a response to q. It returns the message WITHOUT any OPT
// record (the form the cache is expected to keep and serve); addOPTs adds the
// EDNS0 records the shape asks for afterwards.
func buildMsg(t *rrTemplate, sp msgSpec, q *dns.Msg) *dns.Msg {
	rng := rand.New(rand.NewSource(sp.Seed ^ int64(sp.Version)*7919))
	ttl := func() uint32 {
		if sp.FixTTL != 0 {
			return sp.FixTTL
		}
		return pickTTL(rng)
	}
	m := new(dns.Msg)
	m.SetReply(q)
	m.RecursionAvailable = true
	m.Authoritative = rng.Intn(2) == 0
	m.AuthenticatedData = rng.Intn(2) == 0
	m.Compress = rng.Intn(2) == 0
	name := sp.Name
	zone := "example.net."
	v := sp.Version
	if sh, ok := parseShape(sp.Shape); ok {
		// systematic shape space: no marker record. Versions of one answer differ
		// in their record data (variant v) and, so that record-less versions are
		// distinguishable too, in the AA/AD/RA header bits.
		sb := int(sp.Seed>>7) & 7
		m.Authoritative = (v^sb)&1 != 0
		m.AuthenticatedData = ((v>>1)^(sb>>1))&1 != 0
		m.RecursionAvailable = ((v>>2)^(sb>>2))&1 == 0
		m.Rcode = sh.Rcode
		m.Truncated = sh.TC
		if sh.NoQ {
			m.Question = nil
		}
		for i := 0; i < sh.An; i++ {
			m.Answer = append(m.Answer, t.must(name, ttl(), v+i))
		}
		for i := 0; i < sh.Ns; i++ {
			if i == 0 {
				m.Ns = append(m.Ns, mustRR(fmt.Sprintf("%s %d IN SOA ns.%s hostmaster.%s %d 7200 3600 1209600 300", zone, ttl(), zone, zone, 1000+v)))
			} else {
				m.Ns = append(m.Ns, t.must("ns-sec."+zone, ttl(), v+i))
			}
		}
		for i := 0; i < sh.Ex; i++ {
			m.Extra = append(m.Extra, t.must(fmt.Sprintf("extra%d.%s", i, zone), ttl(), v+i))
		}
		return m
	}
	switch sp.Shape {
	case "answer", "answer-opt", "answer-2opt":
		n := 1 + rng.Intn(3)
		for i := 0; i < n; i++ {
			m.Answer = append(m.Answer, t.must(name, ttl(), v+i))
		}
		m.Ns = append(m.Ns, mustRR(fmt.Sprintf("%s %d IN NS ns1.%s", zone, ttl(), zone)), t.must("ns-sec."+zone, ttl(), v+1))
		m.Extra = append(m.Extra, mustRR(fmt.Sprintf("ns1.%s %d IN A 192.0.2.53", zone, ttl())),
			mustRR(fmt.Sprintf("ns1.%s %d IN AAAA 2001:db8::53", zone, ttl())), t.must("extra."+zone, ttl(), v))
	case "cname-chain":
		m.Answer = append(m.Answer, mustRR(fmt.Sprintf("%s %d IN CNAME hop1.%s", name, ttl(), zone)),
			mustRR(fmt.Sprintf("hop1.%s %d IN CNAME hop2.%s", zone, ttl(), zone)),
			t.must("hop2."+zone, ttl(), v), t.must("hop2."+zone, ttl(), v+1))
		m.Extra = append(m.Extra, t.must("extra."+zone, ttl(), v+1))
	case "big":
		for i := 0; i < 12; i++ {
			m.Answer = append(m.Answer, t.must(name, ttl(), v+i))
		}
		for i := 0; i < 4; i++ {
			m.Ns = append(m.Ns, t.must(fmt.Sprintf("n%d.%s", i, zone), ttl(), v+i))
			m.Extra = append(m.Extra, t.must(fmt.Sprintf("e%d.%s", i, zone), ttl(), v+i))
		}
	case "nodata":
		m.Ns = append(m.Ns, mustRR(fmt.Sprintf("%s %d IN SOA ns.%s hostmaster.%s %d 7200 3600 1209600 300", zone, ttl(), zone, zone, 1000+v)))
		m.Extra = append(m.Extra, t.must("extra."+zone, ttl(), v))
	case "nxdomain":
		m.Rcode = dns.RcodeNameError
		m.Ns = append(m.Ns, mustRR(fmt.Sprintf("%s %d IN SOA ns.%s hostmaster.%s %d 7200 3600 1209600 300", zone, ttl(), zone, zone, 1000+v)),
			mustRR(fmt.Sprintf("a.%s %d IN NSEC z.%s A NS SOA RRSIG NSEC", zone, ttl(), zone)), t.must("ns-sec."+zone, ttl(), v))
	case "servfail":
		m.Rcode = dns.RcodeServerFailure
		if rng.Intn(2) == 0 {
			m.Extra = append(m.Extra, t.must("extra."+zone, ttl(), v))
		}
	default:
		panic("harness: unknown shape " + sp.Shape)
	}
	// version marker: makes every version of an answer distinguishable
	m.Extra = append(m.Extra, &dns.TXT{Hdr: dns.RR_Header{Name: "marker." + zone, Rrtype: dns.TypeTXT, Class: dns.ClassINET, Ttl: ttl()},
		Txt: []string{"case=" + strings.TrimSuffix(name, "."), fmt.Sprintf("v=%d", v)}})
	return m
}

func makeOPT(rng *rand.Rand) *dns.OPT {
	o := new(dns.OPT)
	o.Hdr.Name = "."
	o.Hdr.Rrtype = dns.TypeOPT
	o.SetUDPSize(uint16(512 + rng.Intn(4000)))
	if rng.Intn(2) == 0 {
		o.SetDo()
	}
	o.Option = append(o.Option,
		&dns.EDNS0_LOCAL{Code: 65001, Data: []byte{1, 2, 3, byte(rng.Intn(256))}},
		&dns.EDNS0_NSID{Code: dns.EDNS0NSID, Nsid: "6e736964"},
		&dns.EDNS0_SUBNET{Code: dns.EDNS0SUBNET, Family: 1, SourceNetmask: 24, Address: []byte{192, 0, 2, 0}},
		&dns.EDNS0_COOKIE{Code: dns.EDNS0COOKIE, Cookie: "0011223344556677"},
		&dns.EDNS0_PADDING{Padding: make([]byte, rng.Intn(16))},
		&dns.EDNS0_EDE{InfoCode: dns.ExtendedErrorCodeStaleAnswer, ExtraText: "stale"},
	)
	return o
}

// addOPTs adds the EDNS0 records the shape asks for (one OPT somewhere in the
// additional section, or two).
func addOPTs(m *dns.Msg, shape string, rng *rand.Rand) int {
	n := 0
	if sh, ok := parseShape(shape); ok {
		n = sh.Opts
	}
	switch shape {
	case "answer-opt", "nodata", "big":
		n = 1
	case "answer-2opt":
		n = 2
	case "nxdomain", "cname-chain":
		n = rng.Intn(2)
	}
	for i := 0; i < n; i++ {
		o := makeOPT(rng)
		pos := len(m.Extra)
		if rng.Intn(2) == 0 && len(m.Extra) > 0 {
			pos = rng.Intn(len(m.Extra))
		}
		m.Extra = append(m.Extra, nil)
		copy(m.Extra[pos+1:], m.Extra[pos:])
		m.Extra[pos] = o
	}
	return n
}
