package main

import (
	"math/rand"
	"reflect"
	"strings"

	"github.com/IrineSistiana/mosdns/v5/pkg/dnsutils"
	"github.com/miekg/dns"
)

// A mutation is something a later plugin or the server may do, in place, to a
// response it owns (a served hit, or the response it handed to SetResponse).
// The catalogue reaches every field reachable from a dns.Msg.
type mutation struct {
	Name string
	F    func(m *dns.Msg, rng *rand.Rand)
}

func sections(m *dns.Msg) []*[]dns.RR { return []*[]dns.RR{&m.Answer, &m.Ns, &m.Extra} }

func eachRR(m *dns.Msg, f func(rr dns.RR)) {
	for _, s := range sections(m) {
		for _, rr := range *s {
			if rr != nil {
				f(rr)
			}
		}
	}
}

func evilRR(i int) dns.RR {
	switch i % 3 {
	case 0:
		return &dns.TXT{Hdr: dns.RR_Header{Name: "evil.invalid.", Rrtype: dns.TypeTXT, Class: dns.ClassCHAOS, Ttl: 666}, Txt: []string{"pwned", "by", "adversary"}}
	case 1:
		return &dns.A{Hdr: dns.RR_Header{Name: "evil.invalid.", Rrtype: dns.TypeA, Class: dns.ClassINET, Ttl: 31337}, A: []byte{203, 0, 113, 66}}
	}
	return &dns.CNAME{Hdr: dns.RR_Header{Name: "evil.invalid.", Rrtype: dns.TypeCNAME, Class: dns.ClassINET, Ttl: 1}, Target: "gotcha.invalid."}
}

func evilString(s string) string {
	if s != "" && strings.HasSuffix(s, ".") {
		return "mutated.invalid."
	}
	if s == "" {
		return "00"
	}
	return "00" + s
}

// mutInPlace changes v (which must be addressable memory reachable through a
// slice element or a pointer, i.e. memory that an aliased copy would share).
func mutInPlace(v reflect.Value, depth int) {
	if depth > 8 || !v.CanSet() {
		return
	}
	switch v.Kind() {
	case reflect.Uint8, reflect.Uint16, reflect.Uint32, reflect.Uint64, reflect.Uint:
		v.SetUint(^v.Uint() & (1<<(8*uint(v.Type().Size())) - 1))
	case reflect.Int, reflect.Int8, reflect.Int16, reflect.Int32, reflect.Int64:
		v.SetInt(v.Int() ^ 0x55)
	case reflect.Bool:
		v.SetBool(!v.Bool())
	case reflect.String:
		v.SetString(evilString(v.String()))
	case reflect.Slice:
		for i := 0; i < v.Len(); i++ {
			mutInPlace(v.Index(i), depth+1)
		}
	case reflect.Array:
		for i := 0; i < v.Len(); i++ {
			mutInPlace(v.Index(i), depth+1)
		}
	case reflect.Struct:
		for i := 0; i < v.NumField(); i++ {
			mutInPlace(v.Field(i), depth+1)
		}
	case reflect.Interface:
		if !v.IsNil() {
			e := v.Elem()
			if e.Kind() == reflect.Ptr && !e.IsNil() {
				mutInPlace(e.Elem(), depth+1)
			}
		}
	case reflect.Ptr:
		if !v.IsNil() {
			mutInPlace(v.Elem(), depth+1)
		}
	}
}

// rdataElems writes only THROUGH the slices (and nested pointers) found in
// the rdata part of rr: A[i], Txt[i], Value[i].(*SVCBAlpn).Alpn[j],
// TypeBitMap[i], Prefixes[i].Network.IP[j] ... It never assigns a field of
// the record struct itself, so it is visible exactly to copies that duplicated
// the struct but share the underlying arrays.
func rdataElems(v reflect.Value, depth int) {
	if depth > 4 {
		return
	}
	for i := 0; i < v.NumField(); i++ {
		f := v.Field(i)
		if v.Type().Field(i).Name == "Hdr" {
			continue
		}
		switch f.Kind() {
		case reflect.Slice:
			for j := 0; j < f.Len(); j++ {
				mutInPlace(f.Index(j), 0)
			}
		case reflect.Struct:
			rdataElems(f, depth+1)
		case reflect.Ptr:
			if !f.IsNil() {
				mutInPlace(f.Elem(), 0)
			}
		}
	}
}

// rdataFields assigns every scalar / string field of the rdata part of the
// record struct (visible to copies that share the record pointer).
func rdataFields(v reflect.Value, depth int) {
	if depth > 4 {
		return
	}
	for i := 0; i < v.NumField(); i++ {
		f := v.Field(i)
		if v.Type().Field(i).Name == "Hdr" || !f.CanSet() {
			continue
		}
		switch f.Kind() {
		case reflect.Struct:
			rdataFields(f, depth+1)
		case reflect.Slice:
			// replace the slice by a fresh, different one
			n := reflect.MakeSlice(f.Type(), f.Len(), f.Len()+1)
			reflect.Copy(n, f)
			for j := 0; j < n.Len(); j++ {
				switch n.Index(j).Kind() {
				case reflect.Interface, reflect.Ptr:
				default:
					mutInPlace(n.Index(j), 0)
				}
			}
			if n.Len() > 1 {
				n = n.Slice(0, n.Len()-1)
			}
			f.Set(n)
		case reflect.Interface, reflect.Ptr:
		default:
			mutInPlace(f, 0)
		}
	}
}

func rrStruct(rr dns.RR) (reflect.Value, bool) {
	v := reflect.ValueOf(rr)
	if v.Kind() != reflect.Ptr || v.IsNil() || v.Elem().Kind() != reflect.Struct {
		return reflect.Value{}, false
	}
	return v.Elem(), true
}

// rdataKnown is a hand-written second implementation of in-place rdata
// rewriting for the types named in the design (independent of the reflect
// walkers above).
func rdataKnown(rr dns.RR) {
	svcb := func(s *dns.SVCB) {
		s.Target = "hijacked.invalid."
		s.Priority ^= 0xff
		for _, kv := range s.Value {
			switch e := kv.(type) {
			case *dns.SVCBMandatory:
				for i := range e.Code {
					e.Code[i] ^= 0x7
				}
			case *dns.SVCBAlpn:
				for i := range e.Alpn {
					e.Alpn[i] = "evil"
				}
			case *dns.SVCBPort:
				e.Port ^= 0xffff
			case *dns.SVCBIPv4Hint:
				for _, ip := range e.Hint {
					for i := range ip {
						ip[i] ^= 0xff
					}
				}
			case *dns.SVCBIPv6Hint:
				for _, ip := range e.Hint {
					for i := range ip {
						ip[i] ^= 0xff
					}
				}
			case *dns.SVCBECHConfig:
				for i := range e.ECH {
					e.ECH[i] ^= 0xff
				}
			case *dns.SVCBDoHPath:
				e.Template = "/evil{?dns}"
			case *dns.SVCBLocal:
				e.KeyCode ^= 1
				for i := range e.Data {
					e.Data[i] ^= 0xff
				}
			}
		}
		if len(s.Value) > 1 {
			s.Value[0], s.Value[len(s.Value)-1] = s.Value[len(s.Value)-1], s.Value[0]
		}
	}
	switch r := rr.(type) {
	case *dns.A:
		for i := range r.A {
			r.A[i] ^= 0xff
		}
	case *dns.AAAA:
		for i := range r.AAAA {
			r.AAAA[i] ^= 0xff
		}
	case *dns.TXT:
		for i := range r.Txt {
			r.Txt[i] = "rewritten"
		}
	case *dns.SPF:
		for i := range r.Txt {
			r.Txt[i] = "rewritten"
		}
	case *dns.SVCB:
		svcb(r)
	case *dns.HTTPS:
		svcb(&r.SVCB)
	case *dns.NSEC:
		r.NextDomain = "zz.invalid."
		for i := range r.TypeBitMap {
			r.TypeBitMap[i] ^= 0x3
		}
	case *dns.NSEC3:
		r.NextDomain = "0p9mhaveqvm6t7vbl5lop2u3t2rp3tom"
		for i := range r.TypeBitMap {
			r.TypeBitMap[i] ^= 0x3
		}
	case *dns.CSYNC:
		for i := range r.TypeBitMap {
			r.TypeBitMap[i] ^= 0x3
		}
	case *dns.RFC3597:
		r.Rdata = "deadbeef"
	case *dns.NULL:
		r.Data = "rewritten"
	case *dns.OPT:
		r.Hdr.Ttl ^= 0x8000
		r.Hdr.Class = 4096
		for _, o := range r.Option {
			switch e := o.(type) {
			case *dns.EDNS0_LOCAL:
				for i := range e.Data {
					e.Data[i] ^= 0xff
				}
			case *dns.EDNS0_SUBNET:
				for i := range e.Address {
					e.Address[i] ^= 0xff
				}
			case *dns.EDNS0_COOKIE:
				e.Cookie = "ffffffffffffffff"
			case *dns.EDNS0_PADDING:
				for i := range e.Padding {
					e.Padding[i] = 0xee
				}
			case *dns.EDNS0_NSID:
				e.Nsid = "00"
			}
		}
	case *dns.CNAME:
		r.Target = "hijacked.invalid."
	case *dns.NS:
		r.Ns = "hijacked.invalid."
	case *dns.PTR:
		r.Ptr = "hijacked.invalid."
	case *dns.MX:
		r.Mx, r.Preference = "hijacked.invalid.", 0
	case *dns.SOA:
		r.Ns, r.Mbox, r.Serial, r.Minttl = "hijacked.invalid.", "evil.invalid.", 0, 0
	case *dns.SRV:
		r.Target, r.Port = "hijacked.invalid.", 1
	case *dns.CAA:
		r.Value, r.Flag = "evil-ca.invalid", 0xff
	case *dns.DS:
		r.Digest, r.KeyTag = "00", 0
	case *dns.DNSKEY:
		r.PublicKey, r.Flags = "AAAA", 0
	case *dns.RRSIG:
		r.Signature, r.SignerName, r.KeyTag = "AAAA", "evil.invalid.", 0
	case *dns.APL:
		for i := range r.Prefixes {
			r.Prefixes[i].Negation = !r.Prefixes[i].Negation
			for j := range r.Prefixes[i].Network.IP {
				r.Prefixes[i].Network.IP[j] ^= 0xff
			}
		}
	case *dns.HIP:
		for i := range r.RendezvousServers {
			r.RendezvousServers[i] = "hijacked.invalid."
		}
		r.Hit = "00"
	case *dns.IPSECKEY:
		for i := range r.GatewayAddr {
			r.GatewayAddr[i] ^= 0xff
		}
		r.GatewayHost = "hijacked.invalid."
	case *dns.AMTRELAY:
		for i := range r.GatewayAddr {
			r.GatewayAddr[i] ^= 0xff
		}
		r.GatewayHost = "hijacked.invalid."
	case *dns.L32:
		for i := range r.Locator32 {
			r.Locator32[i] ^= 0xff
		}
	default:
		if v, ok := rrStruct(rr); ok {
			rdataElems(v, 0)
			rdataFields(v, 0)
		}
	}
}

func flipCase(s string) string {
	b := []byte(s)
	for i, c := range b {
		if c >= 'a' && c <= 'z' {
			b[i] = c - 32
		} else if c >= 'A' && c <= 'Z' {
			b[i] = c + 32
		}
	}
	return string(b)
}

var mutations = []mutation{
	{"none", func(m *dns.Msg, rng *rand.Rand) {}},
	{"hdr-bits", func(m *dns.Msg, rng *rand.Rand) {
		m.Response = !m.Response
		m.Authoritative = !m.Authoritative
		m.Truncated = !m.Truncated
		m.RecursionDesired = !m.RecursionDesired
		m.RecursionAvailable = !m.RecursionAvailable
		m.Zero = !m.Zero
		m.AuthenticatedData = !m.AuthenticatedData
		m.CheckingDisabled = !m.CheckingDisabled
	}},
	{"hdr-id-opcode-rcode", func(m *dns.Msg, rng *rand.Rand) {
		m.Id ^= 0xffff
		m.Opcode = (m.Opcode + 1 + rng.Intn(14)) & 0xf
		m.Rcode = (m.Rcode + 1 + rng.Intn(14)) & 0xf
	}},
	{"question-inplace", func(m *dns.Msg, rng *rand.Rand) {
		for i := range m.Question {
			m.Question[i].Name = "other-question.invalid."
			m.Question[i].Qtype ^= 0xffff
			m.Question[i].Qclass = dns.ClassCHAOS
		}
	}},
	{"question-reslice", func(m *dns.Msg, rng *rand.Rand) {
		q := m.Question[:0]
		q = append(q, dns.Question{Name: "appended.invalid.", Qtype: dns.TypeANY, Qclass: dns.ClassANY}) // overwrites slot 0 of the backing array
		q = append(q, dns.Question{Name: "second.invalid.", Qtype: dns.TypeTXT, Qclass: dns.ClassINET})
		m.Question = q
	}},
	{"rr-name", func(m *dns.Msg, rng *rand.Rand) {
		eachRR(m, func(rr dns.RR) { rr.Header().Name = "renamed.invalid." })
	}},
	{"rr-name-0x20", func(m *dns.Msg, rng *rand.Rand) {
		eachRR(m, func(rr dns.RR) { rr.Header().Name = flipCase(rr.Header().Name) })
		for i := range m.Question {
			m.Question[i].Name = flipCase(m.Question[i].Name)
		}
	}},
	{"rr-ttl-high", func(m *dns.Msg, rng *rand.Rand) {
		eachRR(m, func(rr dns.RR) { rr.Header().Ttl += 100000 + uint32(rng.Intn(1000)) })
	}},
	{"rr-ttl-zero", func(m *dns.Msg, rng *rand.Rand) {
		eachRR(m, func(rr dns.RR) { rr.Header().Ttl = 0 })
	}},
	{"rr-class", func(m *dns.Msg, rng *rand.Rand) {
		eachRR(m, func(rr dns.RR) { rr.Header().Class ^= 0xff })
	}},
	{"rr-rrtype", func(m *dns.Msg, rng *rand.Rand) {
		eachRR(m, func(rr dns.RR) { rr.Header().Rrtype ^= 0x0101; rr.Header().Rdlength ^= 0xffff })
	}},
	{"rdata-elems", func(m *dns.Msg, rng *rand.Rand) {
		eachRR(m, func(rr dns.RR) {
			if v, ok := rrStruct(rr); ok {
				rdataElems(v, 0)
			}
		})
	}},
	{"rdata-fields", func(m *dns.Msg, rng *rand.Rand) {
		eachRR(m, func(rr dns.RR) {
			if v, ok := rrStruct(rr); ok {
				rdataFields(v, 0)
			}
		})
	}},
	{"rdata-known", func(m *dns.Msg, rng *rand.Rand) { eachRR(m, rdataKnown) }},
	{"rr-zero-struct", func(m *dns.Msg, rng *rand.Rand) {
		eachRR(m, func(rr dns.RR) {
			if v, ok := rrStruct(rr); ok {
				v.Set(reflect.Zero(v.Type()))
			}
		})
	}},
	{"section-overwrite-slots", func(m *dns.Msg, rng *rand.Rand) {
		n := 0
		for _, s := range sections(m) {
			for i := range *s {
				(*s)[i] = evilRR(n)
				n++
			}
		}
	}},
	{"section-reslice-cap", func(m *dns.Msg, rng *rand.Rand) {
		n := 0
		for _, s := range sections(m) {
			full := (*s)[:cap(*s)]
			for i := range full {
				full[i] = evilRR(n)
				n++
			}
			*s = full
		}
	}},
	{"section-clear-append", func(m *dns.Msg, rng *rand.Rand) {
		n := 0
		for _, s := range sections(m) {
			k := len(*s)
			*s = (*s)[:0]
			for i := 0; i < k+1; i++ { // first k appends overwrite the old backing array
				*s = append(*s, evilRR(n))
				n++
			}
		}
	}},
	{"section-append-rr", func(m *dns.Msg, rng *rand.Rand) {
		for i, s := range sections(m) {
			*s = append(*s, evilRR(i), evilRR(i+1))
		}
	}},
	{"section-append-opt", func(m *dns.Msg, rng *rand.Rand) {
		m.Extra = append(m.Extra, makeOPT(rng))
		m.Answer = append(m.Answer, makeOPT(rng))
	}},
	{"section-reverse", func(m *dns.Msg, rng *rand.Rand) {
		for _, s := range sections(m) {
			for i, j := 0, len(*s)-1; i < j; i, j = i+1, j-1 {
				(*s)[i], (*s)[j] = (*s)[j], (*s)[i]
			}
		}
		// move records between sections as well
		m.Answer, m.Ns, m.Extra = m.Extra, m.Answer, m.Ns
	}},
	{"section-shift", func(m *dns.Msg, rng *rand.Rand) {
		// delete the first record of every section the way popOpt does: shift in place
		for _, s := range sections(m) {
			if len(*s) > 0 {
				*s = append((*s)[:0], (*s)[1:]...)
			}
		}
	}},
	{"section-nil", func(m *dns.Msg, rng *rand.Rand) {
		m.Answer, m.Ns, m.Extra, m.Question = nil, nil, nil, nil
	}},
	{"truncate", func(m *dns.Msg, rng *rand.Rand) {
		// what a UDP server does: add the response OPT, then truncate to the client's size
		m.Extra = append(m.Extra, makeOPT(rng))
		before := len(m.Answer) + len(m.Ns) + len(m.Extra)
		m.Truncate(dns.MinMsgSize)
		if len(m.Answer)+len(m.Ns)+len(m.Extra) == before {
			// small message: emulate a smaller budget with the same in-place steps
			opt := m.Extra[len(m.Extra)-1]
			m.Truncated = true
			m.Compress = true
			m.Answer = m.Answer[:len(m.Answer)/2]
			m.Ns = m.Ns[:0]
			m.Extra = append(m.Extra[:0], opt)
		}
	}},
	{"set-ttl", func(m *dns.Msg, rng *rand.Rand) { dnsutils.SetTTL(m, 0) }},
	{"subtract-ttl", func(m *dns.Msg, rng *rand.Rand) { dnsutils.SubtractTTL(m, 4000000000) }},
	{"apply-max-ttl", func(m *dns.Msg, rng *rand.Rand) { dnsutils.ApplyMaximumTTL(m, 0) }},
	{"apply-min-ttl", func(m *dns.Msg, rng *rand.Rand) { dnsutils.ApplyMinimalTTL(m, 4294000000) }},
	{"msg-zero", func(m *dns.Msg, rng *rand.Rand) { *m = dns.Msg{} }},
	{"msg-unpack-over", func(m *dns.Msg, rng *rand.Rand) {
		o := new(dns.Msg)
		o.SetQuestion("unpacked-over.invalid.", dns.TypeTXT)
		o.Response = true
		o.Answer = []dns.RR{evilRR(0), evilRR(1)}
		b, _ := o.Pack()
		_ = m.Unpack(b)
	}},
	{"msg-copyto-over", func(m *dns.Msg, rng *rand.Rand) {
		o := new(dns.Msg)
		o.SetQuestion("copied-over.invalid.", dns.TypeMX)
		o.Response = true
		o.Rcode = dns.RcodeRefused
		o.Ns = []dns.RR{evilRR(2)}
		o.CopyTo(m)
	}},
	{"set-rcode-reply", func(m *dns.Msg, rng *rand.Rand) {
		req := new(dns.Msg)
		req.SetQuestion("rejected.invalid.", dns.TypeAAAA)
		m.SetRcode(req, dns.RcodeRefused)
	}},
	{"dedup-sort", func(m *dns.Msg, rng *rand.Rand) {
		for _, s := range sections(m) {
			// make everything a duplicate of the first record, then dedup in place
			if len(*s) > 1 {
				for i := 1; i < len(*s); i++ {
					(*s)[i] = (*s)[0]
				}
				*s = dns.Dedup(*s, nil)
			}
		}
	}},
	{"compress-flip", func(m *dns.Msg, rng *rand.Rand) { m.Compress = !m.Compress }},
	{"everything", func(m *dns.Msg, rng *rand.Rand) {
		eachRR(m, func(rr dns.RR) {
			if v, ok := rrStruct(rr); ok {
				rdataElems(v, 0)
				rdataFields(v, 0)
				rr.Header().Name = "all.invalid."
				rr.Header().Ttl = 123456789
				rr.Header().Class = dns.ClassHESIOD
			}
		})
		for i := range m.Question {
			m.Question[i] = dns.Question{Name: "all.invalid.", Qtype: 255, Qclass: 255}
		}
		for _, s := range sections(m) {
			for i := range *s {
				if i%2 == 1 {
					(*s)[i] = evilRR(i)
				}
			}
			*s = append(*s, evilRR(7))
		}
		m.MsgHdr = dns.MsgHdr{Id: ^m.Id, Response: !m.Response, Opcode: 5, Rcode: 9, Truncated: true, Zero: true}
		m.Compress = !m.Compress
	}},
}

func mutationByName(n string) *mutation {
	for i := range mutations {
		if mutations[i].Name == n {
			return &mutations[i]
		}
	}
	return nil
}

// applyMutation runs one mutation on a message the caller owns. A panic inside
// a mutation (possible when an earlier mutation left the harness' own object in
// a strange state) is contained: the object belongs to the harness.
func applyMutation(mu *mutation, m *dns.Msg, rng *rand.Rand) (changed bool, panicked bool) {
	if m == nil {
		return false, false
	}
	before := stateBytes(m)
	func() {
		defer func() {
			if r := recover(); r != nil {
				panicked = true
			}
		}()
		mu.F(m, rng)
	}()
	return stateBytes(m) != before, panicked
}

// scribbleOPT rewrites an OPT record the harness owns (the upstream OPT popped
// from a stored response).
func scribbleOPT(o *dns.OPT) {
	if o == nil {
		return
	}
	rdataKnown(o)
	o.Option = append(o.Option[:0], &dns.EDNS0_LOCAL{Code: 65099, Data: []byte("scribbled")})
	o.Hdr.Name = "opt.invalid."
}
