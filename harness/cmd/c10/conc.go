package main

import (
	"fmt"
	"math/rand"
	"os"
	"runtime"
	"sync"
	"sync/atomic"
	"time"

	"github.com/IrineSistiana/mosdns/v5/pkg/query_context"
	"github.com/miekg/dns"

	"verifharness/lib/leak"
)

// concCfg describes one concurrent run: G goroutines hit the same Q questions,
// mutate what they got, re-store new versions, dump, load and flush.
type concCfg struct {
	Lazy       bool  `json:"lazy"`
	Procs      int   `json:"gomaxprocs"`
	Goroutines int   `json:"goroutines"`
	Questions  int   `json:"questions"`
	Ops        int   `json:"ops_per_goroutine"`
	Pause      bool  `json:"pause_for_expiry"`
	Seed       int64 `json:"seed"`
}

func concConfigs(rng *rand.Rand) []concCfg {
	var out []concCfg
	reps := rep.Pick(1, 4)
	for i := 0; i < reps; i++ {
		for _, lazy := range []bool{false, true} {
			for _, procs := range []int{1, 2, 16} {
				out = append(out, concCfg{Lazy: lazy, Procs: procs, Goroutines: 16, Questions: 8,
					Ops: rep.Pick(250, 800), Pause: procs == 16 || (rep.Thorough() && i%2 == 0), Seed: rng.Int63n(1 << 40)})
			}
		}
	}
	return out
}

// C10_UNSERIALISED_FLUSH=1 lets /flush run concurrently with everything else
// (useful once concurrent_map.shard.flush takes the write lock; before that the
// race detector reports the C11 flush defect with cache-plugin frames on both stacks).
var unserialisedFlush = os.Getenv("C10_UNSERIALISED_FLUSH") == "1"

type verInfo struct {
	ttls []uint32
	n    int
}

type concQ struct {
	name string
	t    *rrTemplate
	c    seqCase
	seed int64

	mu       sync.Mutex
	versions map[string]*verInfo
	next     int
}

// newVersion builds a new, unique version of the answer for this question and
// registers its identity BEFORE it can reach the cache.
func (cq *concQ) newVersion(q *dns.Msg, rng *rand.Rand, expiring bool) *dns.Msg {
	cq.mu.Lock()
	n := cq.next
	cq.next++
	cq.mu.Unlock()
	sp := msgSpec{Name: cq.name, Type: cq.c.Type, Shape: cq.c.Shape, Version: n, Seed: cq.seed}
	if expiring {
		sp.FixTTL = uint32(1 + n%2)
	}
	m := buildMsg(cq.t, sp, q)
	pr := makePristine(m)
	if rng.Intn(2) == 0 {
		m.Extra = append(m.Extra, makeOPT(rng))
	}
	cq.mu.Lock()
	if old := cq.versions[pr.norm]; old != nil && len(old.ttls) == len(pr.ttls) {
		// shapes without a marker record: two versions may have identical content and differ
		// only in their ttls; they are indistinguishable when served, so accept up to the larger ttl
		tt := append([]uint32(nil), pr.ttls...)
		for i := range tt {
			if old.ttls[i] > tt[i] {
				tt[i] = old.ttls[i]
			}
		}
		cq.versions[pr.norm] = &verInfo{ttls: tt, n: n}
	} else {
		cq.versions[pr.norm] = &verInfo{ttls: pr.ttls, n: n}
	}
	cq.mu.Unlock()
	rep.Count("concurrent_versions_registered", 1)
	return m
}

func (cq *concQ) count() int {
	cq.mu.Lock()
	defer cq.mu.Unlock()
	return len(cq.versions)
}

func (cq *concQ) lookup(norm string) *verInfo {
	cq.mu.Lock()
	defer cq.mu.Unlock()
	return cq.versions[norm]
}

func runConcurrent(cfg concCfg) {
	desc := map[string]any{"conc": cfg}
	caselog.Log(desc)
	runtime.GOMAXPROCS(cfg.Procs)
	defer runtime.GOMAXPROCS(16)
	lazyTTL := 0
	if cfg.Lazy {
		lazyTTL = 3600
	}
	e := newEnv(lazyTTL)
	defer e.close()
	srng := rand.New(rand.NewSource(cfg.Seed))
	concShapes := []string{"answer", "answer-opt", "cname-chain", "big", "answer-2opt", "rc2:000:o0", "rc3:000:o1", "rc0:100:o0"}
	qs := make([]*concQ, cfg.Questions)
	for i := range qs {
		t := &templates[srng.Intn(len(templates))]
		c := seqCase{Phase: "conc", Idx: i, Type: t.T, Shape: concShapes[srng.Intn(len(concShapes))],
			AD: srng.Intn(2) == 0, CD: srng.Intn(2) == 0, Edns: srng.Intn(2) == 0, Seed: srng.Int63n(1 << 40)}
		qs[i] = &concQ{name: c.name(), t: t, c: c, seed: c.Seed, versions: map[string]*verInfo{}}
	}
	var opMu sync.RWMutex // /flush is serialised against everything else (see assumptions)
	var stop atomic.Bool
	lazyTag := "nolazy"
	if cfg.Lazy {
		lazyTag = "lazy"
	}

	violate := func(key, what string, cq *concQ, hit *dns.Msg, g, op int) {
		b, _ := packPlain(hit)
		rep.Violation(key, what, map[string]any{"conc": cfg, "question": cq.name, "rr_type": cq.c.Type, "goroutine": g, "op": op,
			"served_hex": hexCut(b), "versions_registered": cq.count()})
		stop.Store(true)
	}

	// verify one served message; returns true if it is acceptable
	verify := func(cq *concQ, hit *dns.Msg, qid uint16, g, op int) bool {
		rep.Eval(1)
		if hit.Id != qid {
			violate("hit-id-mismatch-concurrent", fmt.Sprintf("hit carries ID %d, its query has ID %d", hit.Id, qid), cq, hit, g, op)
			return false
		}
		norm, ttls, err := normKey(hit)
		if err != nil {
			violate("concurrent-hit-unpackable", "served hit cannot be packed/parsed: "+err.Error(), cq, hit, g, op)
			return false
		}
		vi := cq.lookup(norm)
		if vi == nil {
			violate("concurrent-hit-matches-no-stored-version",
				fmt.Sprintf("hit for %s (type %s) equals none of the versions ever handed to the cache for this question (ID and TTLs ignored): some caller's in-place rewrite leaked into it", cq.name, cq.c.Type), cq, hit, g, op)
			return false
		}
		stale := cfg.Lazy && len(ttls) > 0
		for _, t := range ttls {
			if t != 5 {
				stale = false
			}
		}
		if stale {
			rep.Count("concurrent_stale_hits", 1)
		} else {
			for i, t := range ttls {
				if t < 1 || t > vi.ttls[i] {
					violate("concurrent-hit-ttl-out-of-range", fmt.Sprintf("record %d of version %d served with ttl %d, stored ttl %d", i, vi.n, t, vi.ttls[i]), cq, hit, g, op)
					return false
				}
			}
		}
		rep.Count("concurrent_hits_verified", 1)
		return true
	}

	var wg sync.WaitGroup
	for g := 0; g < cfg.Goroutines; g++ {
		wg.Add(1)
		go func(g int) {
			defer wg.Done()
			rng := rand.New(rand.NewSource(cfg.Seed + int64(g)*1000003))
			var myDump []byte
			lastMut := map[*concQ]string{}
			for op := 0; op < cfg.Ops && !stop.Load(); op++ {
				if cfg.Pause && op == cfg.Ops/2 {
					time.Sleep(1100 * time.Millisecond) // lets the 1-second versions expire: stale hits / misses
				}
				rep.Count("concurrent_ops", 1)
				x := rng.Intn(100)
				switch {
				case x < 3:
					if unserialisedFlush {
						opMu.RLock()
						e.flush()
						opMu.RUnlock()
					} else {
						opMu.Lock()
						e.flush()
						opMu.Unlock()
					}
					rep.Count("concurrent_flushes", 1)
					continue
				case x < 9:
					opMu.RLock()
					d, err := e.dump()
					opMu.RUnlock()
					if err != nil {
						rep.Inconclusive("concurrent /dump failed: %v", err)
						continue
					}
					myDump = d
					rep.Count("concurrent_dumps", 1)
					continue
				case x < 13 && myDump != nil:
					body := append([]byte(nil), myDump...)
					opMu.RLock()
					err := e.load(body)
					opMu.RUnlock()
					if err != nil {
						rep.Inconclusive("concurrent /load_dump failed: %v", err)
					}
					for i := range body {
						body[i] = 0xEE
					}
					rep.Count("concurrent_loads", 1)
					continue
				}
				cq := qs[rng.Intn(len(qs))]
				q := newQuery(cq.name, cq.t.typ, cq.c, rng, 0)
				qid := q.Id
				replace := rng.Intn(6) == 0
				inCont := rng.Intn(4) == 0
				expiring := rng.Intn(3) == 0
				mu := &mutations[rng.Intn(len(mutations))]
				var supplied, hitObj *dns.Msg
				verified, good := false, false
				cl := &call{}
				cl.onMiss = func(bg bool) *dns.Msg {
					if bg {
						// background refresh: runs on the cache's goroutine; the object is never touched again
						brng := rand.New(rand.NewSource(int64(qid)))
						rep.Count("concurrent_background_refreshes", 1)
						bq := new(dns.Msg)
						bq.SetQuestion(cq.name, cq.t.typ)
						return cq.newVersion(bq, brng, false)
					}
					supplied = cq.newVersion(q, rng, expiring)
					return supplied
				}
				cl.onHit = func(qCtx *query_context.Context) {
					hitObj = qCtx.R()
					if inCont {
						verified = true
						good = verify(cq, hitObj, qid, g, op)
						applyMutation(mu, hitObj, rng)
					}
					if replace {
						supplied = cq.newVersion(q, rng, expiring)
						qCtx.SetResponse(supplied)
						rep.Count("concurrent_re_stores", 1)
					}
				}
				opMu.RLock()
				e.exec(q, cl)
				opMu.RUnlock()
				if hitObj != nil {
					if !verified {
						good = verify(cq, hitObj, qid, g, op)
						changed, _ := applyMutation(mu, hitObj, rng)
						if !changed {
							mu = nil
						}
					}
					if good {
						if lm := lastMut[cq]; lm != "" {
							rep.Nontrivial("conc|" + lazyTag + "|" + cq.c.Type + "|" + lm)
						}
					}
					if mu != nil {
						lastMut[cq] = mu.Name
					}
				} else {
					rep.Count("concurrent_misses", 1)
				}
				if supplied != nil {
					// Exec has returned: the object handed to SetResponse is ours again
					rep.Count("concurrent_stores", 1)
					applyMutation(&mutations[rng.Intn(len(mutations))], supplied, rng)
				}
			}
		}(g)
	}
	wg.Wait()
	if left := leak.WaitNone([]string{"cache.(*Cache).doLazyUpdate"}, nil, 20*time.Second); len(left) > 0 {
		rep.Inconclusive("concurrent phase: background refreshes still running after 20 s: %d", len(left))
	}
	rep.Count("concurrent_runs", 1)
	if cfg.Procs == 16 {
		perQ := map[string]int{}
		for _, cq := range qs {
			perQ[cq.name+" "+cq.c.Type+"/"+cq.c.Shape] = cq.count()
		}
		rep.Sample(map[string]any{"conc": cfg, "versions_registered_per_question": perQ,
			"hits_verified_so_far": rep.Get("concurrent_hits_verified"), "stale_hits_so_far": rep.Get("concurrent_stale_hits")})
	}
}
