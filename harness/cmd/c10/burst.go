package main

import (
	"fmt"
	"math/rand"
	"sync"
	"sync/atomic"
	"time"

	"github.com/IrineSistiana/mosdns/v5/pkg/query_context"
	"github.com/miekg/dns"
)

// Burst phase: N identical queries (one cache key) are in flight at the same
// time against a slow upstream. The upstream (terminal) holds every caller
// that reaches it at a gate; the gate opens when all N callers are there or,
// should the cache let only some of them through (misses coalesced onto one
// upstream query), when no further caller arrives. Whatever each caller ends
// up with - the object its own upstream call supplied, an answer the cache
// made up for it, or a regular hit - is the caller's to rewrite. So:
//
//   - every response the cache made is compared with the pristine answer;
//   - the structural monitor is applied pairwise to all callers' responses and
//     all upstream objects (and later to every hit against all of them);
//   - then each caller's response is mutated in place in turn; after every
//     mutation all other callers' responses must be unchanged and a later hit
//     must equal the pristine answer; that hit is mutated as well.
//
// The timing of the gate only decides how many callers overlap (evidence
// counters); no verdict depends on it.

var burstSizes = []int{2, 3, 5, 8, 16}

func burstCases(rng *rand.Rand, rounds int) []seqCase {
	var out []seqCase
	M := len(mutations)
	full, _ := shapeSpace()
	var bshapes []string
	bshapes = append(bshapes, shapes...)
	for _, sh := range full {
		if sh.cachedOnReferenceTree() && sh.Opts < 2 {
			bshapes = append(bshapes, sh.String())
		}
	}
	// responses nothing is cached for: concurrent callers still must not share them
	bshapes = append(bshapes, "rc5:100:o0", "rc0:000:o1", "rc2:000:o0:tc", "rc4:011:o0")
	idx := 0
	for round := 0; round < rounds; round++ {
		n := len(templates)
		if len(bshapes) > n {
			n = len(bshapes)
		}
		for k := 0; k < 2*n; k++ {
			N := burstSizes[(idx+round)%len(burstSizes)]
			c := seqCase{Phase: "burst", Idx: idx, Type: templates[(k+round*3)%len(templates)].T,
				Shape: bshapes[(k+round*5)%len(bshapes)], N: N, Lazy: (k/3+round)%2 == 1,
				AD: rng.Intn(2) == 0, CD: rng.Intn(2) == 0, Edns: rng.Intn(2) == 0,
				Seed: rng.Int63n(1 << 40)}
			// one mutation per caller, then one per later hit; the catalogue rotates over the cases
			base := (idx * 5) % M
			for j := 0; j < 2*N; j++ {
				c.Muts = append(c.Muts, mutations[(base+j)%M].Name)
			}
			if (k+round)%4 == 2 {
				c.TTL = 30
			}
			out = append(out, c)
			idx++
		}
	}
	return out
}

// holdUntilAllIn returns when all n callers sit at the gate, or when at least one
// does, all have been started and nothing has moved for a while (the others wait
// inside the cache for the first one, or are very late). It decides nothing but
// how many callers overlap.
func holdUntilAllIn(arrived, started *atomic.Int32, n int, name string) {
	begin := time.Now()
	lastChange := begin
	lastSeen := int32(-1)
	for {
		a, s := arrived.Load(), started.Load()
		if int(a) == n {
			return
		}
		if a+s != lastSeen {
			lastSeen = a + s
			lastChange = time.Now()
		}
		if a >= 1 && int(s) == n && time.Since(lastChange) > 150*time.Millisecond {
			return
		}
		if time.Since(begin) > 60*time.Second {
			rep.Inconclusive("burst %s: no caller reached the terminal within 60 s", name)
			return
		}
		time.Sleep(500 * time.Microsecond)
	}
}

type burstCaller struct {
	q        *dns.Msg
	qid      uint16
	up       *dns.Msg // what this caller's upstream call would supply
	upOwned  *owned
	cl       *call
	supplied bool // the upstream object was handed to SetResponse
	qc       *query_context.Context
	t0, t1   time.Time
	resp     *owned // what the caller holds after Exec
	class    string // upstream | coalesced | hit | none
}

var burstSamples atomic.Int64

func runBurst(c seqCase) {
	caselog.Log(c)
	lazyTTL := 0
	if c.Lazy {
		lazyTTL = 3600
	}
	e := newEnv(lazyTTL)
	defer e.close()
	r := newSeqRun(e, c)
	t := r.t
	N := c.N
	if N < 2 {
		N = 2
	}
	muts := c.Muts
	for len(muts) < 2*N {
		muts = append(muts, "everything")
	}

	// --- N identical queries, N private upstream objects with identical content
	var pr *pristine
	callers := make([]*burstCaller, N)
	var arrived, started atomic.Int32
	gate := make(chan struct{})
	lastID := uint16(0)
	sp := msgSpec{Name: r.name, Type: c.Type, Shape: c.Shape, Version: 0, Seed: c.Seed, FixTTL: c.TTL}
	for i := range callers {
		bc := &burstCaller{}
		bc.q = newQuery(r.name, t.typ, c, r.rng, lastID)
		bc.qid = bc.q.Id
		lastID = bc.qid
		bc.up = buildMsg(t, sp, bc.q)
		p := makePristine(bc.up)
		if pr == nil {
			pr = p
		} else if string(p.Bytes) != string(pr.Bytes) {
			rep.Inconclusive("harness: burst upstream answers differ between callers")
			return
		}
		addOPTs(bc.up, c.Shape, r.rng)
		bc.upOwned = r.own("stored-object", fmt.Sprintf("upstream-answer(caller %d)", i), bc.up)
		bc.cl = &call{}
		bc.cl.onMiss = func(bg bool) *dns.Msg {
			if bg {
				return nil
			}
			arrived.Add(1)
			<-gate
			bc.supplied = true
			return bc.up
		}
		callers[i] = bc
	}
	var wg sync.WaitGroup
	for _, bc := range callers {
		wg.Add(1)
		go func(bc *burstCaller) {
			defer wg.Done()
			started.Add(1)
			bc.qc, bc.t0, bc.t1 = e.exec(bc.q, bc.cl)
		}(bc)
	}
	// --- hold the upstream until all callers are in it, or no more arrive
	holdUntilAllIn(&arrived, &started, N, r.name)
	atGate := int(arrived.Load())
	s0 := time.Now()
	close(gate)
	wg.Wait()
	s1 := time.Now()
	rep.Count("burst_bursts", 1)
	rep.Count("burst_callers", int64(N))
	rep.Max("burst_max_callers_held_in_upstream_together", int64(atGate))
	r.logf("burst of %d identical queries; %d of them were held in the upstream together", N, atGate)

	// --- classify and register what every caller holds. Nothing is mutated before
	// all of them are registered and verified.
	coalesced, lateHits := 0, 0
	for i, bc := range callers {
		hit, miss, _ := bc.cl.saw()
		m := bc.qc.R()
		switch {
		case m == nil:
			bc.class = "none"
			rep.Count("burst_callers_without_response", 1)
			r.logf("caller %d (query id %d): no response", i, bc.qid)
			continue
		case m == bc.up:
			bc.class = "upstream"
			bc.resp = bc.upOwned
			bc.upOwned.state = stateBytes(bc.up) // SetResponse popped the last OPT
			rep.Count("burst_upstream_calls", 1)
			r.logf("caller %d (query id %d): holds its own upstream object", i, bc.qid)
			continue
		case hit:
			bc.class = "hit"
			lateHits++
		case !miss:
			bc.class = "coalesced" // never reached the upstream, yet has a response
			coalesced++
		default:
			bc.class = "replaced" // went upstream, but holds another object
		}
		rep.Count("burst_responses_made_by_cache_"+bc.class, 1)
		r.logf("caller %d (query id %d): holds a response made by the cache (%s)", i, bc.qid, bc.class)
		bc.resp = r.own("burst-response", fmt.Sprintf("response(caller %d, %s)", i, bc.class), m)
		if !r.verify(m, bc.qid, pr, agedRule(s0, s1, s0, time.Now()), nil, "burst-"+bc.class) {
			return
		}
	}
	if atGate >= 2 || coalesced > 0 {
		rep.Count("burst_bursts_with_overlapping_callers", 1)
	}
	if coalesced > 0 {
		rep.Count("burst_bursts_coalesced", 1)
	}
	rep.SetAdd("burst_sizes", fmt.Sprint(N))

	life := lifetimeOf(callers[0].up, minTTLOf(pr))
	cached := true
	laterHit := func(label string) *owned {
		q := newQuery(r.name, t.typ, c, r.rng, lastID)
		qid := q.Id
		lastID = qid
		cl := &call{onMiss: func(bool) *dns.Msg { return nil }}
		h0 := time.Now()
		qc, _, h1 := e.exec(q, cl)
		if hit, _, _ := cl.saw(); !hit {
			cached = false
			r.logf("%s: miss", label)
			r.unexpectedMiss(label, s0, life)
			return nil
		}
		m := qc.R()
		o := r.own("earlier-hit", label, m)
		if !r.verify(m, qid, pr, agedRule(s0, s1, h0, h1), &pr.Compress, "after-burst") {
			return nil
		}
		rep.Count("burst_later_hits_verified", 1)
		return o
	}
	crossCheck := func() {
		for _, bc := range callers {
			if bc.resp != nil {
				r.checkUntouched(bc.resp)
			}
			if bc.upOwned != bc.resp {
				r.checkUntouched(bc.upOwned)
			}
		}
	}

	// --- a hit before anything was rewritten, then the mutation rounds
	first := laterHit("hit-after-burst")
	if first == nil && cached {
		return // mismatch reported
	}
	var prevHit *owned = first
	k := 0
	for i, bc := range callers {
		if bc.resp == nil {
			continue
		}
		r.mutate(bc.resp, muts[k])
		k++
		if bc.upOwned != bc.resp {
			// an upstream object that never became the response is still the harness'
			r.mutate(bc.upOwned, muts[k%len(muts)])
		}
		crossCheck()
		if !cached {
			continue
		}
		if prevHit != nil {
			r.mutate(prevHit, muts[N+i])
			crossCheck()
		}
		prevHit = laterHit(fmt.Sprintf("hit-after-mutating-caller-%d", i))
		if prevHit == nil && cached {
			return
		}
	}
	// --- stage 2: N concurrent HITS of the entry, held together inside the continuation
	// (in case hits of one key are ever served from one shared copy), same treatment
	if cached {
		hc := make([]*burstCaller, N)
		var arrived2, started2 atomic.Int32
		gate2 := make(chan struct{})
		for i := range hc {
			bc := &burstCaller{}
			bc.q = newQuery(r.name, t.typ, c, r.rng, lastID)
			bc.qid = bc.q.Id
			lastID = bc.qid
			bc.cl = &call{}
			bc.cl.onHit = func(*query_context.Context) { arrived2.Add(1); <-gate2 }
			bc.cl.onMiss = func(bg bool) *dns.Msg {
				if !bg {
					arrived2.Add(1)
					<-gate2
				}
				return nil
			}
			hc[i] = bc
		}
		h0 := time.Now()
		var wg2 sync.WaitGroup
		for _, bc := range hc {
			wg2.Add(1)
			go func(bc *burstCaller) {
				defer wg2.Done()
				started2.Add(1)
				bc.qc, bc.t0, bc.t1 = e.exec(bc.q, bc.cl)
			}(bc)
		}
		holdUntilAllIn(&arrived2, &started2, N, r.name)
		together := int(arrived2.Load())
		close(gate2)
		wg2.Wait()
		h1 := time.Now()
		rep.Max("burst_max_hits_held_in_continuation_together", int64(together))
		r.logf("%d concurrent queries for the cached entry; %d of them were held in the continuation together", N, together)
		nh := 0
		for i, bc := range hc {
			m := bc.qc.R()
			if hit, _, _ := bc.cl.saw(); !hit && m == nil {
				r.logf("concurrent hit %d: miss", i)
				r.unexpectedMiss(fmt.Sprintf("concurrent-hit-%d", i), s0, life)
				continue
			}
			bc.resp = r.own("concurrent-hit", fmt.Sprintf("concurrent-hit(caller %d)", i), m)
			if !r.verify(m, bc.qid, pr, agedRule(s0, s1, h0, h1), &pr.Compress, "concurrent-after-burst") {
				return
			}
			nh++
		}
		if nh >= 2 && together >= 2 {
			rep.Count("burst_rounds_with_overlapping_hits", 1)
		}
		rep.Count("burst_concurrent_hits_verified", int64(nh))
		for i, bc := range hc {
			if bc.resp == nil {
				continue
			}
			r.mutate(bc.resp, muts[(k+i)%len(muts)])
			for _, o := range hc {
				if o.resp != nil {
					r.checkUntouched(o.resp)
				}
			}
			if i%4 == 0 || i == len(hc)-1 {
				if laterHit(fmt.Sprintf("hit-after-mutating-concurrent-hit-%d", i)) == nil {
					if cached {
						return
					}
					break
				}
			}
		}
	}
	for _, o := range r.objs {
		r.checkUntouched(o)
	}
	if !cached {
		rep.Count("burst_bursts_nothing_cached", 1)
	}
	if (coalesced > 0 || c.Idx%53 == 7) && burstSamples.Add(1) <= 2 {
		rep.Sample(map[string]any{"case": c, "question": r.name, "history": r.log})
	}
}
