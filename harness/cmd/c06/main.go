// C06 — sequences execute exactly as their rules say.
//
// Differential runtime monitor: seeded random sequence programs and systematic
// corner-case grids are rendered to rule TEXT, built through the real loader
// (sequence.NewSequence / the plugin type registry / yaml -> WeakDecode) on a
// test mosdns instance, and executed with harness plugins that record an ordered
// trace. The same text is run by an independent reference interpreter (ref.go);
// trace, final response marker and returned error must be equal. Wrapping
// plugins re-run their continuation zero, one or two times, concurrently on
// two qCtx.Copy()s, on the original and a qCtx.Copy() (sequentially in both
// orders and concurrently), and keep it to run it later (after the wrapper returned;
// after the whole top-level execution returned and other programs ran), each
// run with its own trace buffer; the process runs under -race. Rules read and
// write per-query state (marks through the real plugin/mark and harness
// plugins, stored values, the query message, the response in place) so that
// what one context does after a copy was taken must not change which rules
// the continuation executes on the other. Rule arguments and state values are
// also taken from the ends of their ranges, queries carry up to 40 marks / values,
// and long programs (hundreds of jumps / gotos / rules on one path) are part of
// the template list (boundary.go).
package main

import (
	"encoding/json"
	"fmt"
	"math/rand"
	"os"
	"runtime"
	"runtime/debug"
	"sort"
	"strings"
	"sync"
	"sync/atomic"
	"time"

	"verifharness/lib/evid"
)

var (
	rep     *evid.Reporter
	caselog *evid.CaseLog
)

const refLimit = 1500 // reference trace entries (nested ones included) above which a program is discarded

type replayCase struct {
	Program   *Program `json:"program"`
	Entry     int      `json:"entry"`
	Preset    bool     `json:"response_preset"` // the query context already carried a response (id 1) when the sequence started
	Expected  *result  `json:"expected_by_reference,omitempty"`
	Observed  *result  `json:"observed_from_mosdns,omitempty"`
	Minimized *Program `json:"minimized_program,omitempty"`
	MinEntry  int      `json:"minimized_entry,omitempty"`
	MinExp    *result  `json:"minimized_expected,omitempty"`
	MinObs    *result  `json:"minimized_observed,omitempty"`
	Note      string   `json:"note,omitempty"`
}

// local (per worker) statistics, merged at the end
type stats struct {
	ft                                 *feats
	evals                              int64
	programs                           int64
	discarded                          int64
	nontrivial                         int64
	traceTotal                         int64
	maxTrace                           int
	loaders                            map[string]int64
	origins                            map[string]int64
	nonTrivBy                          map[string]int64
	withErr                            int64
	withResp                           int64
	emptyTraces                        int64
	presetRuns                         int64
	lateRuns, lateRunsNewG, lateReRuns int64
}

func newStats() *stats {
	return &stats{ft: newFeats(), loaders: map[string]int64{}, origins: map[string]int64{}, nonTrivBy: map[string]int64{}}
}

var (
	seenKeysMu sync.Mutex
	seenKeys   = map[string]chan struct{}{}
	sampleMu   sync.Mutex
	sampled    = map[string]bool{}
)

// compare returns "" if equal, else (key, description)
func compare(exp, obs *result, runaway bool, panicked any) (string, string) {
	if panicked != nil {
		return "panic-in-exec", fmt.Sprintf("executing the sequence panicked: %v", panicked)
	}
	if runaway {
		return "runaway-execution", fmt.Sprintf("mosdns invoked harness plugins more than 4x as often as the rules allow (reference trace %d entries, observed > %d): the walker does not advance / terminate", len(exp.Trace), len(obs.Trace))
	}
	n := len(exp.Trace)
	if len(obs.Trace) < n {
		n = len(obs.Trace)
	}
	for i := 0; i < n; i++ {
		if exp.Trace[i] != obs.Trace[i] {
			key := "trace-differs"
			if strings.Contains(exp.Trace[i], " join ") && strings.Contains(obs.Trace[i], " join ") {
				key = "conc-branch-mismatch"
			} else if strings.Contains(exp.Trace[i], " copy [") && strings.Contains(obs.Trace[i], " copy [") {
				key = "copy-run-mismatch" // the continuation run on a Copy of the query (while the original ran it too) took different rules
			} else if strings.HasPrefix(exp.Trace[i], "W ") && strings.HasPrefix(obs.Trace[i], "W ") && strings.Fields(exp.Trace[i])[1] == strings.Fields(obs.Trace[i])[1] {
				key = "wrapper-observation-differs"
			}
			return key, fmt.Sprintf("trace entry #%d: rules say %q, mosdns did %q", i, exp.Trace[i], obs.Trace[i])
		}
	}
	if len(obs.Trace) > len(exp.Trace) {
		return "trace-extra-invocations", fmt.Sprintf("mosdns invoked %q (entry #%d) although by the rules processing had ended after %d invocations", obs.Trace[n], n, n)
	}
	if len(obs.Trace) < len(exp.Trace) {
		how := ""
		if obs.Err != exp.Err {
			how = " (mosdns returned error " + obs.Err + ", the rules say " + exp.Err + ")"
		}
		return "trace-missing-invocations", fmt.Sprintf("mosdns stopped after %d invocations%s; by the rules %q (entry #%d) must run next", n, how, exp.Trace[n], n)
	}
	if exp.Err != obs.Err {
		return "error-mismatch", fmt.Sprintf("returned error: rules say %s, mosdns returned %s", exp.Err, obs.Err)
	}
	if exp.Resp != obs.Resp {
		return "response-mismatch", fmt.Sprintf("final response marker (id/rcode/questions): rules say %s, mosdns left %s", exp.Resp, obs.Resp)
	}
	// continuations kept by late-running wrappers: those already run (by a
	// goroutine joined before the verdict) must have executed the same remaining rules
	if len(exp.Deferred) != len(obs.Deferred) {
		return keptKey, fmt.Sprintf("%d continuations were kept by wrappers, the rules say %d", len(obs.Deferred), len(exp.Deferred))
	}
	for i := range exp.Deferred {
		e, o := &exp.Deferred[i], &obs.Deferred[i]
		if e.Label != o.Label || e.Kind != o.Kind {
			return keptKey, fmt.Sprintf("kept continuation #%d belongs to wrapper %s/%s, the rules say %s/%s", i, o.Label, o.Kind, e.Label, e.Kind)
		}
		if o.Res != nil {
			if k, w := compare(e.Res, o.Res, false, nil); k != "" {
				return keptKey, fmt.Sprintf("continuation kept by wrapper %s (%s) and run after the wrapper's Exec had returned did not execute the same remaining rules as an immediate run: %s", e.Label, e.Kind, w)
			}
		}
	}
	return "", ""
}

const keptKey = "kept-continuation-mismatch"

// ---- continuations run after their top-level execution returned -----------------------

type laterItem struct {
	p         *Program
	entry     int
	preset    bool
	pend      *pending
	exp       *result
	remaining int
	runIdx    int
}

type deferQueue struct {
	old, cur []laterItem
	programs int
}

// collectLater pairs the kept continuations that still have to run (kinds later*)
// with their reference results; lateg kinds have run already, their nested ones are visited.
func collectLater(exp []dres, pend []*pending, p *Program, entry int, preset bool, out *[]laterItem) {
	for i := range exp {
		if i >= len(pend) {
			return
		}
		pd := pend[i]
		if pd.grun != nil {
			collectLater(exp[i].Res.Deferred, pd.grun.pend, p, entry, preset, out)
			continue
		}
		*out = append(*out, laterItem{p: p, entry: entry, preset: preset, pend: pd, exp: exp[i].Res, remaining: lateRuns(pd.kind)})
	}
}

// runLater performs one late run of it: an unrelated program that jumps runs
// first on this goroutine; then the kept continuation runs, on this goroutine
// or on a new one. nested receives continuations kept during the late run.
func runLater(w *world, it *laterItem, st *stats, nested *[]laterItem) *failure {
	w.runNoise()
	newG := it.runIdx%2 == 1 || it.pend.kind == "laterc"
	o := runKeptLater(it.pend, 4*refLimit+64, newG)
	it.runIdx++
	it.remaining--
	if st != nil {
		st.lateRuns++
		if newG {
			st.lateRunsNewG++
		}
		if it.runIdx > 1 {
			st.lateReRuns++
		}
	}
	if k, what := compare(it.exp, &o.res, o.runaway, o.panicked); k != "" {
		ob := o.res
		return &failure{key: keptKey, entry: it.entry, preset: it.preset, exp: it.exp, obs: &ob,
			what: fmt.Sprintf("continuation kept by wrapper %s (%s), late run #%d after the top-level execution had returned and other executions had run, did not execute the same remaining rules as an immediate run: %s", it.pend.label, it.pend.kind, it.runIdx, what)}
	}
	if it.runIdx == 1 {
		// continuations kept during the first late run are followed up; those of the
		// repeated runs are only compared by registration (else 3^depth late runs)
		collectLater(it.exp.Deferred, o.pend, it.p, it.entry, it.preset, nested)
	}
	return nil
}

// tick is called after every program; items wait for at least two further
// programs (all their entries) executed on this goroutine before they run.
func (dq *deferQueue) tick(w *world, st *stats, drain bool) {
	dq.programs++
	if !drain && dq.programs%2 != 0 {
		return
	}
	for {
		items := dq.old
		dq.old, dq.cur = dq.cur, nil
		for i := range items {
			it := items[i]
			if f := runLater(w, &it, st, &dq.cur); f != nil {
				report(w, it.p, f)
				continue
			}
			if it.remaining > 0 {
				dq.cur = append(dq.cur, it)
			}
		}
		if !drain || (len(dq.old) == 0 && len(dq.cur) == 0) {
			return
		}
	}
}

// check builds p and runs entry (or all entries if entry < 0). It returns the
// first failing (key, what, entry, expected, observed).
type failure struct {
	key, what string
	entry     int
	preset    bool
	exp, obs  *result
}

func checkProgram(w *world, p *Program, onlyEntry, onlyPreset int, st *stats, dq *deferQueue) *failure {
	rp, err := refCompile(p)
	if err != nil {
		rep.Inconclusive("harness bug: reference cannot parse generated program %s: %v", p.Origin, err)
		return nil
	}
	seqs, err := w.build(p)
	if err != nil {
		return &failure{key: "valid-program-rejected", what: "the loader rejected a valid program: " + err.Error(), entry: len(p.Seqs) - 1}
	}
	if st != nil {
		st.programs++
		for i := range p.Seqs {
			st.loaders[p.Seqs[i].Loader]++
		}
		if o := strings.Fields(p.Origin)[0]; o[0] == 'G' {
			st.origins[o]++
		} else {
			st.origins[o[:2]]++
		}
	}
	for e := range p.Seqs {
		if onlyEntry >= 0 && e != onlyEntry {
			continue
		}
		stateMatters := false
		for _, preset := range []bool{false, true} {
			if onlyPreset >= 0 && preset != (onlyPreset == 1) {
				continue
			}
			if preset && onlyPreset < 0 && !stateMatters {
				continue // nothing in the execution looked at the response: the variant adds nothing
			}
			ft := newFeats()
			exp, steps, ok := rp.exec(e, preset, refLimit, ft)
			if !ok {
				if st != nil {
					st.discarded++
				}
				continue
			}
			wrapN := 0
			for _, n := range ft.wrapKinds {
				wrapN += n
			}
			stateMatters = ft.hEval > 0 || wrapN > 0 || ft.stateReads["rcode"] > 0
			obs, pend, runaway, panicked := realExec(seqs[e], preset, 4*steps+64)
			if st != nil {
				st.evals++
				if preset {
					st.presetRuns++
				}
				st.traceTotal += int64(steps)
				if steps > st.maxTrace {
					st.maxTrace = steps
				}
				if steps == 0 {
					st.emptyTraces++
				}
				if exp.Err != "-" {
					st.withErr++
				}
				if exp.Resp != "-" {
					st.withResp++
				}
				mergeFeats(st.ft, ft)
				if steps >= 3 && (ft.jump+ft.gotoN+ft.retPending+ft.retTop+wrapN+ft.negEval) > 0 {
					st.nontrivial++
					fp := rp.fingerprint(e)
					if preset {
						fp += "|preset"
					}
					rep.Nontrivial(fp)
					isoN := 0
					for _, n := range ft.isoReads {
						isoN += n
					}
					for name, n := range map[string]int{"jump": ft.jump, "goto": ft.gotoN, "return": ft.retPending + ft.retTop, "wrapper": wrapN, "negation": ft.negEval, "state_read_isolated_from_a_related_context": isoN} {
						if n > 0 {
							st.nonTrivBy[name]++
						}
					}
					maybeSample(p, e, &exp, ft)
				}
			}
			if key, what := compare(&exp, &obs, runaway, panicked); key != "" {
				ex, ob := exp, obs
				return &failure{key: key, what: what, entry: e, preset: preset, exp: &ex, obs: &ob}
			}
			if len(pend) > 0 {
				if dq != nil {
					collectLater(exp.Deferred, pend, p, e, preset, &dq.cur)
				} else {
					// self-contained (replay / shrinking): all late runs now
					var items []laterItem
					collectLater(exp.Deferred, pend, p, e, preset, &items)
					for len(items) > 0 {
						it := items[0]
						items = items[1:]
						for it.remaining > 0 {
							if f := runLater(w, &it, st, &items); f != nil {
								return f
							}
						}
					}
				}
			}
		}
	}
	return nil
}

func mergeFeats(d, s *feats) {
	d.jump += s.jump
	d.gotoN += s.gotoN
	d.gotoPending += s.gotoPending
	d.retPending += s.retPending
	d.retTop += s.retTop
	d.endPending += s.endPending
	d.accept += s.accept
	d.reject += s.reject
	d.negEval += s.negEval
	d.errAction += s.errAction
	for i := range d.errMatcherAt {
		d.errMatcherAt[i] += s.errMatcherAt[i]
	}
	for k, v := range s.wrapKinds {
		d.wrapKinds[k] += v
	}
	for k, v := range s.wrapPending {
		d.wrapPending[k] += v
	}
	d.acceptUnderPostNested += s.acceptUnderPostNested
	d.rerunAfterPendingReturn += s.rerunAfterPendingReturn
	d.hEval += s.hEval
	d.concBranch += s.concBranch
	if s.maxDepth > d.maxDepth {
		d.maxDepth = s.maxDepth
	}
	d.skipped += s.skipped
	d.matched += s.matched
	d.copyRuns += s.copyRuns
	for k, v := range s.stateReads {
		d.stateReads[k] += v
	}
	for k, v := range s.stateWrites {
		d.stateWrites[k] += v
	}
	for k, v := range s.isoReads {
		d.isoReads[k] += v
	}
	for k, v := range s.isoReadsByWrap {
		d.isoReadsByWrap[k] += v
	}
	for k, v := range s.deferredReg {
		d.deferredReg[k] += v
	}
	d.deferredPending += s.deferredPending
	for _, m := range []struct{ d, s *int }{{&d.maxJumpsOnPath, &s.maxJumpsOnPath}, {&d.maxGotosOnPath, &s.maxGotosOnPath}, {&d.maxMarks, &s.maxMarks}, {&d.maxValues, &s.maxValues}, {&d.maxRulesVisited, &s.maxRulesVisited}} {
		if *m.s > *m.d {
			*m.d = *m.s
		}
	}
	for k, v := range s.markReadsByValue {
		d.markReadsByValue[k] += v
	}
	for k, v := range s.markReadsByCount {
		d.markReadsByCount[k] += v
	}
	for k, v := range s.realMatcherReads {
		d.realMatcherReads[k] += v
	}
	for k, v := range s.pathBuckets {
		d.pathBuckets[k] += v
	}
}

// samples: one per interesting class
func maybeSample(p *Program, entry int, exp *result, ft *feats) {
	class := ""
	switch {
	case ft.isoReads["mark-real"] > 0 && ft.copyRuns > 0 && ft.maxDepth >= 1:
		class = "copy-run+marks-isolated"
	case ft.rerunAfterPendingReturn > 0 && ft.gotoPending > 0:
		class = "twice-wrapper+goto-inside-jump"
	case ft.acceptUnderPostNested > 0:
		class = "accept-in-nested-jump-under-post-wrapper"
	case ft.concBranch > 0 && ft.maxDepth >= 2:
		class = "concurrent-continuation-nested"
	case ft.errMatcherAt[2] > 0:
		class = "error-in-3rd-matcher"
	case ft.maxDepth >= 5:
		class = "depth>=5"
	case ft.retTop > 0 && ft.negEval > 0 && len(exp.Trace) >= 4:
		class = "return-at-top+negation"
	default:
		return
	}
	sampleMu.Lock()
	defer sampleMu.Unlock()
	if sampled[class] || !rep.WantSample() {
		return
	}
	sampled[class] = true
	rep.Sample(map[string]any{"class": class, "program": p, "entry": p.Seqs[entry].Tag, "reference_result": exp})
}

// ---- shrinking a failing program ----------------------------------------------------

func cloneProgram(p *Program) *Program {
	b, _ := json.Marshal(p)
	var q Program
	_ = json.Unmarshal(b, &q)
	return &q
}

func referenced(p *Program, tag string) bool {
	for _, s := range p.Seqs {
		for _, r := range s.Rules {
			f := strings.Fields(r.Exec)
			if len(f) == 2 && (f[0] == "jump" || f[0] == "goto") && f[1] == tag {
				return true
			}
		}
	}
	return false
}

func shrink(w *world, p *Program, entry int, preset bool, key string) (*Program, int, *failure) {
	cur := cloneProgram(p)
	entryTag := cur.Seqs[entry].Tag
	entryOf := func(q *Program) int {
		for i := range q.Seqs {
			if q.Seqs[i].Tag == entryTag {
				return i
			}
		}
		return -1
	}
	fails := func(q *Program) *failure {
		e := entryOf(q)
		if e < 0 {
			return nil
		}
		f := checkProgram(w, q, e, boolInt(preset), nil, nil)
		if f != nil && f.key == key {
			return f
		}
		return nil
	}
	last := fails(cur)
	if last == nil {
		return nil, 0, nil
	}
	for changed, rounds := true, 0; changed && rounds < 30; rounds++ {
		changed = false
		// drop unreferenced sequences (other than the entry)
		for i := len(cur.Seqs) - 1; i >= 0; i-- {
			if cur.Seqs[i].Tag == entryTag || referenced(cur, cur.Seqs[i].Tag) {
				continue
			}
			q := cloneProgram(cur)
			q.Seqs = append(q.Seqs[:i], q.Seqs[i+1:]...)
			if f := fails(q); f != nil {
				cur, last, changed = q, f, true
			}
		}
		for si := range cur.Seqs {
			for ri := len(cur.Seqs[si].Rules) - 1; ri >= 0; ri-- {
				q := cloneProgram(cur)
				rs := q.Seqs[si].Rules
				q.Seqs[si].Rules = append(rs[:ri:ri], rs[ri+1:]...)
				if f := fails(q); f != nil {
					cur, last, changed = q, f, true
					continue
				}
				for mi := len(cur.Seqs[si].Rules[ri].Matches) - 1; mi >= 0; mi-- {
					q := cloneProgram(cur)
					ms := q.Seqs[si].Rules[ri].Matches
					q.Seqs[si].Rules[ri].Matches = append(ms[:mi:mi], ms[mi+1:]...)
					if f := fails(q); f != nil {
						cur, last, changed = q, f, true
					}
				}
			}
		}
	}
	// drop unused plugin table entries
	used := map[string]bool{}
	for _, s := range cur.Seqs {
		for _, r := range s.Rules {
			for _, t := range append(append([]string{}, r.Matches...), r.Exec) {
				t = strings.TrimSpace(strings.TrimPrefix(strings.TrimSpace(t), "!"))
				if f := strings.Fields(t); len(f) > 0 && strings.HasPrefix(f[0], "$") {
					used[f[0][1:]] = true
				}
			}
		}
	}
	for tag := range cur.Plugins {
		if !used[tag] {
			delete(cur.Plugins, tag)
		}
	}
	return cur, entryOf(cur), last
}

func report(w *world, p *Program, f *failure) {
	seenKeysMu.Lock()
	ch, seen := seenKeys[f.key]
	if !seen {
		ch = make(chan struct{})
		seenKeys[f.key] = ch
	}
	seenKeysMu.Unlock()
	rc := replayCase{Program: p, Entry: f.entry, Preset: f.preset, Expected: f.exp, Observed: f.obs}
	what := f.what + " [program " + p.Origin + ", entry " + p.Seqs[f.entry].Tag + presetNote(f.preset) + "]"
	if seen {
		<-ch // the first reporter of this key writes the (minimized) witness
		rep.Violation(f.key, what, rc)
		return
	}
	defer close(ch)
	if f.exp != nil {
		if mp, me, mf := shrink(w, p, f.entry, f.preset, f.key); mp != nil {
			rc.Minimized, rc.MinEntry, rc.MinExp, rc.MinObs = mp, me, mf.exp, mf.obs
			what += "; minimized witness (entry " + mp.Seqs[me].Tag + "): " + describe(mp) + " -> " + mf.what
		}
	}
	rep.Violation(f.key, what, rc)
}

func describe(p *Program) string {
	var sb strings.Builder
	for _, s := range p.Seqs {
		sb.WriteString(s.Tag + "{")
		for i, r := range s.Rules {
			if i > 0 {
				sb.WriteString("; ")
			}
			if len(r.Matches) > 0 {
				sb.WriteString("[" + strings.Join(r.Matches, ",") + "] ")
			}
			sb.WriteString(strings.TrimSpace(r.Exec))
		}
		sb.WriteString("} ")
	}
	return strings.ReplaceAll(sb.String(), "\t", "\\t")
}

// ---- program list ----------------------------------------------------------------------

func mix(seed, i int64) int64 {
	z := uint64(seed)*0x9E3779B97F4A7C15 + uint64(i)*0xBF58476D1CE4E5B9 + 0x94D049BB133111EB
	z ^= z >> 30
	z *= 0xBF58476D1CE4E5B9
	z ^= z >> 27
	z *= 0x94D049BB133111EB
	z ^= z >> 31
	return int64(z >> 1)
}

func main() {
	rep = evid.New("C06", "exploration")
	caselog = evid.OpenCaseLog()
	registerQuickSetups()
	debug.SetMaxStack(256 << 20) // a walker that recurses forever must die quickly, not eat 16 x 1 GB
	rep.SetRule("programs = corner-case grids (G1 control grid {terminator in callee} x {jump,goto} x {terminator in caller} x {no wrapper, 14 wrapper kinds} x {jump,goto}; G2 wrapper inside a jumped sequence; G3 every matcher tuple of length 0..3 over {T,F,E,has-response,_true,_false} x {plain,!}; G4 nesting depth 1..6 with a wrapper at every level; G5 top-level return/accept/reject; G6 stacked wrappers; G7 per-query state {marks via the real plugin/mark, marks via harness plugins, mixed, stored values, the query message id, the response modified in place} x {12 wrapper kinds, 9 of which run the continuation on Copy()s of the query} x {state pre-seeded: none / another key / the key under test / both} x {key set or cleared by the continuation} x {continuation inline or inside a jumped sequence}; G8 mark VALUE {0, 1, 7, 2^31, max uint32} x NUMBER of other marks on the query {0..9, 15..17, 31..33, 40} x which others {1000.., 0.., both ends of the range first} x how they were set {one real 'mark' rule with all arguments (also none), one harness rule each, mixed} x {inline, on the original and a copy at once, kept continuation}: the value is read by the real matcher (plain, negated, in a two-argument list) and by a harness matcher while absent / set / set twice and deleted once / after other marks were deleted / set again after deletions elsewhere, and every other mark is read back after every step, once by a single rule with one matcher per mark (up to 40 matchers); G9 LONG programs: one sequence executing N jumps that come back, N in {1..300 around 16/32/64/128/256} x callee {action, return in the middle, empty, skipped rule} x {no wrapper, one of 9 wrappers at the first / middle / last jump}, two to five levels of such loops (up to 272 jumps on one path), nesting with 7..200 pending jump returns x bottom terminator x wrapper level, chains of 2..200 gotos (plain, with a returning jump before every goto, entered through a jump), rule lists of 100..2000 rules with a wrapper at the start / middle / end, single rules with 4..300 matchers; G10 the real matcher plugins 'rcode' / 'qtype' / 'qclass' / 'has_resp' with 0..n arguments over {0, 1, .., 4095 resp. 65535} against the response rcode (changed in place; no response) and the question type / class (changed by harness actions) at each of these values x {inline, twice, on original and copy, kept continuation}; G11 queries carrying 0..40 stored values, each read back after stores / deletes / overwrites) + seeded random programs (1-6 sequences x 0-7 rules x 0-3 matchers, DAG references in build order); each rendered to rule text with random white space / '!' spelling / '$tag' vs '$tag args' (quick-configure) vs 'type args' (quick-setup) and loaded via NewSequence, the plugin-type registry or yaml->WeakDecode; every sequence of a program is executed as a top-level entry = one evaluation (again with a response already present if the execution looks at the response). Wrapper kinds: continue once / stop / zero times + own response / post-process / post-process + set / swallow error / twice / twice with drop / concurrently on two copies / KEEP the continuation and run it later on a copy of the query: by a goroutine released when the wrapper Exec returns (lateg, lategc) or after the top-level Exec returned and >= 2 other programs plus an unrelated jumping program ran on the same goroutine, alternately on the same and on a new goroutine, once (later, laterc) or three times (later3); each late run is compared on its own with the reference trace of the same remaining rules; or run it on the original AND on a Copy() taken before (cpa: original first, as fallback does; cpb: copy first; cpc: at the same time, the copy on a new goroutine, as lazy cache update / dual_selector do). Rules also read and write per-query state (matchers: real 'mark N..', harness has-mark / has-value / query-id / response-rcode, all but the real one traced with the value seen; actions: real 'mark N..', set/delete mark, store/delete value, change the query id, change the response rcode in place): the reference gives every context the state as it was when it was copied plus its own writes, so a read on one context after (or while) a related context wrote the same key must still see its own value; a further 20000 (thorough 500000) 'stateful' random programs are biased to such rules and copying wrappers, and 8000 (thorough 200000) 'boundary' random programs draw every rule argument and state value from the ends of its range (marks 0 / 1 / 2^31 / max uint32 and the marks the query was seeded with around positions 4 / 8 / 16 / 32, real 'mark' with 0..5 arguments, real rcode / qtype / qclass / has_resp matchers, 40 value keys), seed the query with 0..40 marks or values and, in a quarter of them, have one sequence of 30..150 rules a third of which are jumps. Non-trivial = the reference trace has >= 3 entries and the execution actually performed at least one jump/goto/return/wrapper/negated-matcher evaluation; distinct = canonical text (labels, ids, white space, text form removed) of the sequences reachable from the entry.")
	rep.Assume("the reference interpreter (cmd/c06/ref.go: own text parser, explicit continuation stack) encodes the property statement; 'goto never comes back' is read as: all pending jump returns are dropped (goto = jump + accept), as DESIGN.md C06 states")
	rep.Assume("harness plugin behaviour (what each test matcher/action/wrapper does with the response and with the errors it sees) is specified twice, in plugins.go and in ref.go; a discrepancy there would show as a false alarm on the unchanged tree, not as a missed violation")
	rep.Assume("query_context.Context.Copy() yields an independent context (plugin/mark, fallback, dual_selector and the lazy cache rely on it): what a rule does on the original after the copy was taken is invisible to the rules run on the copy and vice versa; only matcher verdicts / rules executed are compared, not the final state")
	rep.Assume("programs whose reference trace exceeds 1500 entries (exponential blow-up of nested twice/conc wrappers) are discarded before they reach mosdns and are not counted")
	rep.Assume("an error is 'reported to the caller' if errors.As finds the plugin's error in the returned error (wrapping is allowed)")

	if rep.ReplayFile != "" {
		var rc replayCase
		if err := rep.LoadReplay(&rc); err != nil || rc.Program == nil {
			fmt.Println("cannot load replay:", err)
			os.Exit(3)
		}
		w := newWorld()
		for i := 0; i < 20; i++ { // repeated: the conc wrapper is schedule dependent
			st := newStats()
			if f := checkProgram(w, rc.Program, rc.Entry, boolInt(rc.Preset), st, nil); f != nil {
				report(w, rc.Program, f)
				break
			}
			rep.Eval(int(st.evals))
		}
		rep.Finish()
	}

	tmpl := append(templates(), boundaryTemplates()...)
	nRandom := int64(rep.Pick(30000, 1000000))
	nStateful := int64(rep.Pick(20000, 500000))
	nBoundary := int64(rep.Pick(8000, 200000))
	total := int64(len(tmpl)) + nRandom + nStateful + nBoundary
	workers := runtime.GOMAXPROCS(0)
	if workers > 16 {
		workers = 16
	}
	if workers < 2 {
		workers = 2
	}
	const chunk = 256
	var nextChunk atomic.Int64
	var stop atomic.Bool
	var evalsPublished atomic.Int64 // for the watchdog path only
	allStats := make([]*stats, workers)
	current := make([]atomic.Pointer[Program], workers)
	beat := make([]atomic.Int64, workers)
	var wg sync.WaitGroup
	for wi := 0; wi < workers; wi++ {
		wg.Add(1)
		st := newStats()
		allStats[wi] = st
		go func(wi int) {
			defer wg.Done()
			w := newWorld()
			dq := &deferQueue{}
			defer func() { dq.tick(w, st, true) }()
			defer current[wi].Store(nil) // no more programs: nothing for the watchdog to judge
			published := int64(0)
			for !stop.Load() {
				evalsPublished.Add(st.evals - published)
				published = st.evals
				start := nextChunk.Add(chunk) - chunk
				if start >= total {
					return
				}
				end := start + chunk
				if end > total {
					end = total
				}
				caselog.Log(map[string]any{"seed": rep.Seed, "tier": rep.Tier, "program_index_from": start, "program_index_to": end, "note": "program i < " + fmt.Sprint(len(tmpl)) + " is template i, the next " + fmt.Sprint(nRandom) + " are random programs, the next " + fmt.Sprint(nStateful) + " stateful random programs, the rest boundary random programs, regenerated from mix(seed,i)"})
				for i := start; i < end; i++ {
					rng := rand.New(rand.NewSource(mix(rep.Seed, i)))
					var lp *lprog
					if i < int64(len(tmpl)) {
						lp = tmpl[i]
					} else if i < int64(len(tmpl))+nRandom {
						lp = genRandom(rng, i)
					} else if i < int64(len(tmpl))+nRandom+nStateful {
						lp = genStateful(rng, i)
					} else {
						lp = genBoundary(rng, i)
					}
					p := render(lp, rng)
					current[wi].Store(p)
					beat[wi].Add(1)
					if f := checkProgram(w, p, -1, -1, st, dq); f != nil {
						report(w, p, f)
					}
					dq.tick(w, st, false)
					if rep.Violations() >= 12 {
						stop.Store(true)
					}
				}
			}
		}(wi)
	}
	// watchdog: a single program that does not finish within 120 s (mosdns looping
	// without ever calling a harness plugin) -> inconclusive with the program named
	done := make(chan struct{})
	go func() {
		last := make([]int64, workers)
		stuck := make([]int, workers)
		t := time.NewTicker(5 * time.Second)
		defer t.Stop()
		for {
			select {
			case <-done:
				return
			case <-t.C:
				for i := range last {
					b := beat[i].Load()
					if p := current[i].Load(); b == last[i] && p != nil && b > 0 {
						stuck[i]++
						if stuck[i] >= 24 {
							rep.Inconclusive("watchdog: program %s did not finish within 120 s (sequence execution neither ends nor reaches a harness plugin): %s", p.Origin, describe(p))
							rep.Eval(int(evalsPublished.Load()))
							rep.Finish()
						}
					} else {
						stuck[i] = 0
					}
					last[i] = b
				}
			}
		}
	}()
	wg.Wait()
	close(done)

	// ---- merge statistics ----
	tot := newStats()
	for _, s := range allStats {
		tot.evals += s.evals
		tot.programs += s.programs
		tot.discarded += s.discarded
		tot.nontrivial += s.nontrivial
		tot.traceTotal += s.traceTotal
		tot.withErr += s.withErr
		tot.withResp += s.withResp
		tot.emptyTraces += s.emptyTraces
		tot.presetRuns += s.presetRuns
		tot.lateRuns += s.lateRuns
		tot.lateRunsNewG += s.lateRunsNewG
		tot.lateReRuns += s.lateReRuns
		if s.maxTrace > tot.maxTrace {
			tot.maxTrace = s.maxTrace
		}
		for k, v := range s.loaders {
			tot.loaders[k] += v
		}
		for k, v := range s.origins {
			tot.origins[k] += v
		}
		for k, v := range s.nonTrivBy {
			tot.nonTrivBy[k] += v
		}
		mergeFeats(tot.ft, s.ft)
	}
	rep.Eval(int(tot.evals))
	ft := tot.ft
	c := func(name string, n int) { rep.Count(name, int64(n)) }
	rep.Count("programs_built_through_the_real_loader", tot.programs)
	rep.Count("template_programs", int64(len(tmpl)))
	rep.Count("executions_discarded_reference_trace_too_long", tot.discarded)
	rep.Count("executions_nontrivial(total,not_distinct)", tot.nontrivial)
	rep.Count("executions_ending_in_error", tot.withErr)
	rep.Count("executions_ending_with_response", tot.withResp)
	rep.Count("executions_with_empty_trace", tot.emptyTraces)
	rep.Count("executions_started_with_a_response_already_present", tot.presetRuns)
	rep.Count("trace_entries_compared", tot.traceTotal)
	rep.Max("max_trace_entries", int64(tot.maxTrace))
	rep.Max("max_pending_jump_returns(nesting depth)", int64(ft.maxDepth))
	c("ref:jump_executed", ft.jump)
	c("ref:goto_executed", ft.gotoN)
	c("ref:goto_inside_jumped_sequence(pending return dropped)", ft.gotoPending)
	c("ref:return_resuming_after_jump", ft.retPending)
	c("ref:return_at_top_level", ft.retTop)
	c("ref:end_of_sequence_resuming_after_jump", ft.endPending)
	c("ref:accept", ft.accept)
	c("ref:accept_in_nested_jump_under_post_processing_wrapper", ft.acceptUnderPostNested)
	c("ref:reject", ft.reject)
	c("ref:negated_matcher_evaluations", ft.negEval)
	c("ref:rules_skipped_by_false_matcher", ft.skipped)
	c("ref:rules_matched", ft.matched)
	c("ref:error_from_action", ft.errAction)
	c("ref:error_in_matcher_1st", ft.errMatcherAt[0])
	c("ref:error_in_matcher_2nd", ft.errMatcherAt[1])
	c("ref:error_in_matcher_3rd", ft.errMatcherAt[2])
	c("ref:has_response_matcher_evaluations", ft.hEval)
	c("ref:continuation_rerun_with_pending_jump_return", ft.rerunAfterPendingReturn)
	c("ref:concurrent_continuation_branches", ft.concBranch)
	c("ref:continuation_run_on_original_and_on_a_copy(cpa/cpb/cpc)", ft.copyRuns)
	isoTotal := 0
	for k, v := range ft.stateReads {
		c("ref:state_reads_"+k, v)
	}
	for k, v := range ft.stateWrites {
		c("ref:state_writes_"+k, v)
	}
	for k, v := range ft.isoReads {
		c("ref:state_reads_isolated_from_a_related_context_"+k, v)
		isoTotal += v
	}
	for k, v := range ft.isoReadsByWrap {
		c("ref:state_reads_isolated,copy_made_by_"+k, v)
	}
	c("ref:state_reads_isolated_from_a_related_context(total)", isoTotal)
	for k, v := range ft.wrapKinds {
		c("ref:wrapper_"+k, v)
	}
	defReg := 0
	for k, v := range ft.deferredReg {
		c("ref:continuations_kept_by_"+k, v)
		defReg += v
	}
	c("ref:continuations_kept_with_pending_jump_return", ft.deferredPending)
	rep.Max("max_jumps_executed_on_one_path", int64(ft.maxJumpsOnPath))
	rep.Max("max_gotos_executed_on_one_path", int64(ft.maxGotosOnPath))
	rep.Max("max_rules_visited_on_one_path", int64(ft.maxRulesVisited))
	rep.Max("max_marks_on_one_query", int64(ft.maxMarks))
	rep.Max("max_stored_values_on_one_query", int64(ft.maxValues))
	for k, v := range ft.markReadsByValue {
		c("ref:mark_reads,"+strings.ReplaceAll(k, " ", "_"), v)
	}
	for k, v := range ft.markReadsByCount {
		c("ref:mark_reads_while_the_query_carried_"+k+"_marks", v)
	}
	for k, v := range ft.realMatcherReads {
		c("ref:real_matcher_"+strings.ReplaceAll(k, " ", ","), v)
	}
	for k, v := range ft.pathBuckets {
		c("executions_with_"+strings.ReplaceAll(k, " ", "_"), v)
	}
	rep.Count("late_runs_after_toplevel_returned_compared", tot.lateRuns)
	rep.Count("late_runs_on_a_new_goroutine", tot.lateRunsNewG)
	rep.Count("late_runs_repeated(2nd/3rd run of the same kept continuation)", tot.lateReRuns)
	for k, v := range ft.wrapPending {
		c("ref:wrapper_"+k+"_with_pending_jump_return", v)
	}
	for k, v := range tot.loaders {
		rep.Count("sequences_loaded_via_"+k, v)
	}
	for k, v := range tot.origins {
		rep.Count("programs_from_"+k, v)
	}
	for k, v := range tot.nonTrivBy {
		rep.Count("nontrivial_executions_with_"+k, v)
	}

	// the monitor must have seen every corner the statement names
	if rep.Violations() == 0 {
		need := map[string]int{
			"goto inside a jumped sequence":                       ft.gotoPending,
			"return at top level":                                 ft.retTop,
			"return after jump":                                   ft.retPending,
			"accept in nested jump under post-processing wrapper": ft.acceptUnderPostNested,
			"error in 1st matcher":                                ft.errMatcherAt[0],
			"error in 2nd matcher":                                ft.errMatcherAt[1],
			"error in 3rd matcher":                                ft.errMatcherAt[2],
			"continuation re-run with pending jump return":        ft.rerunAfterPendingReturn,
			"concurrent continuation":                             ft.concBranch,
			"negation":                                            ft.negEval,
			"zero-times wrapper":                                  ft.wrapKinds["stop"] + ft.wrapKinds["zero"],
			"nesting depth 6":                                     boolInt(ft.maxDepth >= 6),
			"yaml loader":                                         int(tot.loaders["yaml"]),
			"continuation on original and copy":                   ft.copyRuns,
			"mark (real plugin) read isolated from a related context's write": ft.isoReads["mark-real"],
			"mark read isolated from a related context's write":               ft.isoReads["mark"],
			"stored value read isolated":                                      ft.isoReads["value"],
			"query message read isolated":                                     ft.isoReads["query-id"],
			"response rcode read isolated":                                    ft.isoReads["rcode"],
			"response presence read isolated":                                 ft.isoReads["response"],
			"isolated read with the copy made by cpa (original ran first)":    ft.isoReadsByWrap["cpa"],
			"isolated read with the copy made by cpc (concurrent)":            ft.isoReadsByWrap["cpc"],
			"isolated read with the copy kept for a late run":                 ft.isoReadsByWrap["laterc"] + ft.isoReadsByWrap["lategc"],
			// boundary values and sizes
			"mark 0 read while absent":                       ft.markReadsByValue["value 0 absent"],
			"mark 0 read while present":                      ft.markReadsByValue["value 0 present"],
			"mark 1 read while absent":                       ft.markReadsByValue["value 1 absent"],
			"mark max uint32 read while absent":              ft.markReadsByValue["value max absent"],
			"mark max uint32 read while present":             ft.markReadsByValue["value max present"],
			"mark read on a query without marks":             ft.markReadsByCount["0"],
			"mark read on a query with 4 marks":              ft.markReadsByCount["4"],
			"mark read on a query with 5 marks":              ft.markReadsByCount["5"],
			"mark read on a query with 16 marks":             ft.markReadsByCount["16"],
			"mark read on a query with 17 marks":             ft.markReadsByCount["17"],
			"mark read on a query with 33 marks":             ft.markReadsByCount["33"],
			"mark read on a query with > 33 marks":           ft.markReadsByCount["34+"],
			"real rcode matcher on rcode 0, true":            ft.realMatcherReads["rcode current=0 verdict=1"],
			"real rcode matcher on rcode 0, false":           ft.realMatcherReads["rcode current=0 verdict=0"],
			"real rcode matcher on rcode 4095, true":         ft.realMatcherReads["rcode current=max verdict=1"],
			"real rcode matcher without a response":          ft.realMatcherReads["rcode current=no-response verdict=0"],
			"real qtype matcher on type 0, true":             ft.realMatcherReads["qtype current=0 verdict=1"],
			"real qtype matcher on type 0, false":            ft.realMatcherReads["qtype current=0 verdict=0"],
			"real qtype matcher on type 65535, true":         ft.realMatcherReads["qtype current=max verdict=1"],
			"real qclass matcher on class 0, true":           ft.realMatcherReads["qclass current=0 verdict=1"],
			"real qclass matcher on class 65535, true":       ft.realMatcherReads["qclass current=max verdict=1"],
			"real has_resp matcher true":                     ft.realMatcherReads["has_resp verdict=1"],
			"real has_resp matcher false":                    ft.realMatcherReads["has_resp verdict=0"],
			"execution with > 16 jumps on one path":          ft.pathBuckets["more than 16 jumps on one path"],
			"execution with > 64 jumps on one path":          ft.pathBuckets["more than 64 jumps on one path"],
			"execution with > 256 jumps on one path":         ft.pathBuckets["more than 256 jumps on one path"],
			"execution with > 64 gotos on one path":          ft.pathBuckets["more than 64 gotos on one path"],
			"execution with > 64 pending jump returns":       ft.pathBuckets["more than 64 pending jump returns (nesting)"],
			"execution that visits > 1000 rules on one path": ft.pathBuckets["more than 1000 rules visited on one path"],
			"query with > 32 marks":                          ft.pathBuckets["more than 32 marks on one query"],
			"query with > 32 stored values":                  ft.pathBuckets["more than 32 stored values on one query"],
		}
		var missing []string
		for k, v := range need {
			if v == 0 {
				missing = append(missing, k)
			}
		}
		sort.Strings(missing)
		if len(missing) > 0 {
			rep.Inconclusive("monitor never observed: %s", strings.Join(missing, ", "))
		}
	}
	rep.Finish()
}

func presetNote(b bool) string {
	if b {
		return ", response 1/0/0 present at start"
	}
	return ""
}

func boolInt(b bool) int {
	if b {
		return 1
	}
	return 0
}
