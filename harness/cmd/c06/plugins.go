package main

// Harness plugins that run inside the real mosdns sequence engine, and the
// loader that builds sequences from rule text through the real code path.

import (
	"context"
	"errors"
	"fmt"
	"strconv"
	"strings"
	"sync"
	"sync/atomic"

	"github.com/IrineSistiana/mosdns/v5/coremain"
	"github.com/IrineSistiana/mosdns/v5/pkg/query_context"
	"github.com/IrineSistiana/mosdns/v5/pkg/utils"
	"github.com/IrineSistiana/mosdns/v5/plugin/executable/sequence"
	_ "github.com/IrineSistiana/mosdns/v5/plugin/mark" // the real "mark" matcher / executable (quick setup type "mark")
	_ "github.com/IrineSistiana/mosdns/v5/plugin/matcher/has_resp"
	_ "github.com/IrineSistiana/mosdns/v5/plugin/matcher/qclass"
	_ "github.com/IrineSistiana/mosdns/v5/plugin/matcher/qtype"
	_ "github.com/IrineSistiana/mosdns/v5/plugin/matcher/rcode" // the real int matchers "rcode N..", "qtype N..", "qclass N.." and "has_resp"
	"github.com/miekg/dns"
	"go.uber.org/zap"
	"gopkg.in/yaml.v3"
)

var traceKey = query_context.RegKey()

// keys of the values stored / deleted by the sv / dv actions and read by the V matcher
// (nStateKeys keys, all from RegKey as StoreValue demands: a query can carry many values)
const nStateKeys = 40

var stateKeys = func() (ks [nStateKeys]uint32) {
	for i := range ks {
		ks[i] = query_context.RegKey()
	}
	return
}()

// shared by all copies of one top-level execution
type sharedExec struct {
	steps atomic.Int64
	limit int64
	wg    sync.WaitGroup // late-run goroutines started by lateg wrappers; joined by the harness
}

// one per query context (the original and every Copy made by a conc wrapper)
type tctx struct {
	buf      []string
	sh       *sharedExec
	deferred []*pending // continuations kept by late-running wrappers on this context, in order
}

// pending: a continuation kept by a wrapper beyond the return of its Exec,
// together with a private copy of the query as it was at that moment.
type pending struct {
	label, kind string
	next        sequence.ChainWalker
	q           *query_context.Context
	// lateg kinds: run by a goroutine of the same top-level execution
	grun *obsRun
}

type obsRun struct {
	res      result
	pend     []*pending
	runaway  bool
	panicked any
}

// runKept runs a kept continuation once on a fresh copy of the kept query with
// a trace buffer of its own.
func runKept(p *pending, sh *sharedExec) *obsRun {
	c := p.q.Copy()
	t := &tctx{sh: sh}
	c.StoreValue(traceKey, t)
	o := &obsRun{}
	var err error
	func() {
		defer func() {
			if r := recover(); r != nil {
				o.panicked = r
			}
		}()
		err = p.next.ExecNext(context.Background(), c)
	}()
	o.runaway = errors.Is(err, errRunaway)
	o.res = result{Trace: t.buf, Resp: realMarker(c), Err: errLabel(err)}
	o.pend = t.deferred
	return o
}

// obsDeferred converts the kept continuations registered on one context into
// the comparable form; call only after sh.wg.Wait().
func obsDeferred(pend []*pending) []dres {
	var out []dres
	for _, p := range pend {
		d := dres{Label: p.label, Kind: p.kind}
		if p.grun != nil {
			r := p.grun.res
			r.Deferred = obsDeferred(p.grun.pend)
			d.Res = &r
		}
		out = append(out, d)
	}
	return out
}

func getT(q *query_context.Context) *tctx {
	v, _ := q.GetValue(traceKey)
	t, _ := v.(*tctx)
	if t == nil {
		panic("c06 harness: query context without trace buffer")
	}
	return t
}

type hErr struct{ label string }

func (e *hErr) Error() string { return "harness plugin error " + e.label }

var errRunaway = &hErr{label: "RUNAWAY"}

func (t *tctx) add(s string) error {
	t.buf = append(t.buf, s)
	if t.sh.steps.Add(1) > t.sh.limit {
		return errRunaway
	}
	return nil
}

func errLabel(err error) string {
	if err == nil {
		return "-"
	}
	var he *hErr
	if errors.As(err, &he) {
		return "E:" + he.label
	}
	return "other(" + err.Error() + ")"
}

func realMarker(q *query_context.Context) string {
	r := q.R()
	if r == nil {
		return "-"
	}
	return strconv.Itoa(int(r.Id)) + "/" + strconv.Itoa(r.Rcode) + "/" + strconv.Itoa(len(r.Question))
}

func mkResp(id int) *dns.Msg {
	m := new(dns.Msg)
	m.Id = uint16(id)
	m.Response = true
	return m
}

// ---- matcher ---------------------------------------------------------------

type hMatch struct {
	kind, label string
	n           int // K: mark, V: value key index, Q: query id, R: rcode
}

func (m *hMatch) Match(_ context.Context, q *query_context.Context) (bool, error) {
	t := getT(q)
	switch m.kind {
	case "T":
		return true, t.add("M " + m.label)
	case "F":
		return false, t.add("M " + m.label)
	case "E":
		if err := t.add("M " + m.label); err != nil {
			return false, err
		}
		return true, &hErr{label: m.label}
	case "H":
		v := q.R() != nil
		s := "=0"
		if v {
			s = "=1"
		}
		return v, t.add("M " + m.label + s)
	case "K": // has mark n
		v := q.HasMark(uint32(m.n))
		s := "=0"
		if v {
			s = "=1"
		}
		return v, t.add("M " + m.label + s)
	case "V": // a value is stored under key n
		if m.n < 0 || m.n >= len(stateKeys) {
			return false, fmt.Errorf("c06 harness: value key %d", m.n)
		}
		x, ok := q.GetValue(stateKeys[m.n])
		s := "=-"
		if ok {
			s = "=" + fmt.Sprint(x)
		}
		return ok, t.add("M " + m.label + s)
	case "Q": // the query message id is n
		id := int(q.Q().Id)
		return id == m.n, t.add("M " + m.label + "=" + strconv.Itoa(id))
	case "Y": // the question's type is n
		x := int(q.QQuestion().Qtype)
		return x == m.n, t.add("M " + m.label + "=" + strconv.Itoa(x))
	case "C": // the question's class is n
		x := int(q.QQuestion().Qclass)
		return x == m.n, t.add("M " + m.label + "=" + strconv.Itoa(x))
	case "R": // a response is present and its rcode is n
		r := q.R()
		if r == nil {
			return false, t.add("M " + m.label + "=-")
		}
		return r.Rcode == m.n, t.add("M " + m.label + "=" + strconv.Itoa(r.Rcode))
	}
	return false, fmt.Errorf("c06 harness: matcher kind %q", m.kind)
}

// quick-configurable tagged matcher: "$tag KIND LABEL"
type hMatchQ struct{}

func (hMatchQ) Match(context.Context, *query_context.Context) (bool, error) {
	return false, errors.New("c06 harness: unconfigured quick-configurable matcher was used")
}

func (hMatchQ) QuickConfigureMatch(args string) (sequence.Matcher, error) {
	return newHMatch(args)
}

func newHMatch(args string) (sequence.Matcher, error) {
	f := strings.Fields(args)
	if len(f) != 2 {
		return nil, fmt.Errorf("c06 harness: matcher args %q", args)
	}
	k, n := splitKind(f[0])
	return &hMatch{kind: k, n: n, label: f[1]}, nil
}

// ---- plain action ----------------------------------------------------------

type hAct struct {
	kind  string
	id    int
	label string
}

func (a *hAct) Exec(_ context.Context, q *query_context.Context) error {
	t := getT(q)
	if err := t.add("A " + a.label); err != nil {
		return err
	}
	switch a.kind {
	case "ok":
	case "err":
		return &hErr{label: a.label}
	case "set":
		q.SetResponse(mkResp(a.id))
	case "drop":
		q.SetResponse(nil)
	case "mk":
		q.SetMark(uint32(a.id))
	case "um":
		q.DeleteMark(uint32(a.id))
	case "sv", "dv":
		if a.id < 0 || a.id >= len(stateKeys) {
			return fmt.Errorf("c06 harness: value key %d", a.id)
		}
		if a.kind == "sv" {
			q.StoreValue(stateKeys[a.id], a.label)
		} else {
			q.DeleteValue(stateKeys[a.id])
		}
	case "qi":
		q.Q().Id = uint16(a.id)
	case "qt":
		q.Q().Question[0].Qtype = uint16(a.id)
	case "qc":
		q.Q().Question[0].Qclass = uint16(a.id)
	case "rm": // modifies the response in place (as ttl / redirect style plugins do)
		if r := q.R(); r != nil {
			r.Rcode = a.id
		}
	default:
		return fmt.Errorf("c06 harness: action kind %q", a.kind)
	}
	return nil
}

type hExecQ struct{ wrap bool }

func (h hExecQ) QuickConfigureExec(args string) (any, error) { return newHExec(h.wrap, args) }

func (h hExecQ) Exec(context.Context, *query_context.Context) error {
	return errors.New("c06 harness: unconfigured quick-configurable executable was used")
}

func splitKind(s string) (string, int) {
	if i := strings.IndexByte(s, ':'); i >= 0 {
		n, _ := strconv.Atoi(s[i+1:])
		return s[:i], n
	}
	return s, 0
}

func newHExec(wrap bool, args string) (any, error) {
	f := strings.Fields(args)
	if len(f) != 2 {
		return nil, fmt.Errorf("c06 harness: exec args %q", args)
	}
	k, id := splitKind(f[0])
	if wrap {
		return &hWrap{kind: k, id: id, label: f[1]}, nil
	}
	return &hAct{kind: k, id: id, label: f[1]}, nil
}

// ---- wrapping action -------------------------------------------------------

type hWrap struct {
	kind  string
	id    int
	label string
}

func (w *hWrap) Exec(ctx context.Context, q *query_context.Context, next sequence.ChainWalker) error {
	t := getT(q)
	if err := t.add("W " + w.label + " pre"); err != nil {
		return err
	}
	obs := func(tag string, e error) error {
		return t.add("W " + w.label + " " + tag + " e=" + errLabel(e) + " r=" + realMarker(q))
	}
	switch w.kind {
	case "once":
		return next.ExecNext(ctx, q)
	case "stop":
		return nil
	case "zero":
		q.SetResponse(mkResp(w.id))
		return nil
	case "post", "postset", "swallow":
		e := next.ExecNext(ctx, q)
		if errors.Is(e, errRunaway) {
			return e
		}
		if oe := obs("post", e); oe != nil {
			return oe
		}
		switch w.kind {
		case "postset":
			if e == nil {
				q.SetResponse(mkResp(w.id))
			}
		case "swallow":
			return nil
		}
		return e
	case "twice", "twicedrop":
		e1 := next.ExecNext(ctx, q)
		if errors.Is(e1, errRunaway) {
			return e1
		}
		if oe := obs("mid", e1); oe != nil {
			return oe
		}
		if w.kind == "twicedrop" {
			q.SetResponse(nil)
		}
		e2 := next.ExecNext(ctx, q)
		if errors.Is(e2, errRunaway) {
			return e2
		}
		if oe := obs("post", e2); oe != nil {
			return oe
		}
		if e1 != nil {
			return e1
		}
		return e2
	case "lateg", "lategc", "later", "laterc", "later3":
		p := &pending{label: w.label, kind: w.kind, next: next, q: q.Copy()}
		t.deferred = append(t.deferred, p)
		if w.kind == "lateg" || w.kind == "lategc" {
			// (a) run it after this Exec has returned, before the top-level Exec is
			// judged: the goroutine is released by the deferred close below
			returned := make(chan struct{})
			sh := t.sh
			sh.wg.Add(1)
			go func() {
				defer sh.wg.Done()
				<-returned
				p.grun = runKept(p, sh)
			}()
			defer close(returned)
		}
		if w.kind == "lategc" || w.kind == "laterc" {
			return next.ExecNext(ctx, q)
		}
		return nil
	case "cpa", "cpb", "cpc":
		// fallback / lazy cache update / dual_selector style: take a Copy of the query
		// and run the rest of the chain on the original AND on the copy: original first
		// (cpa), copy first (cpb), or both at the same time, the copy on a new goroutine (cpc)
		c := q.Copy()
		ct := &tctx{sh: t.sh}
		c.StoreValue(traceKey, ct)
		var eo, ec error
		var cpanic any
		runCopy := func() {
			defer func() {
				if r := recover(); r != nil {
					cpanic = r
				}
			}()
			ec = next.ExecNext(ctx, c)
		}
		switch w.kind {
		case "cpa":
			eo = next.ExecNext(ctx, q)
			runCopy()
		case "cpb":
			runCopy()
			eo = next.ExecNext(ctx, q)
		default:
			done := make(chan struct{})
			go func() {
				defer close(done)
				runCopy()
			}()
			func() {
				defer func() { <-done }() // also when the original's run panics
				eo = next.ExecNext(ctx, q)
			}()
		}
		if cpanic != nil {
			panic(cpanic)
		}
		if errors.Is(eo, errRunaway) {
			return eo
		}
		if errors.Is(ec, errRunaway) {
			return ec
		}
		t.deferred = append(t.deferred, ct.deferred...)
		if err := t.add("W " + w.label + " copy [" + strings.Join(ct.buf, ";") + "]e=" + errLabel(ec) + ",r=" + realMarker(c) + " orig e=" + errLabel(eo) + " r=" + realMarker(q)); err != nil {
			return err
		}
		if eo != nil {
			return eo
		}
		return ec
	case "conc":
		type br struct {
			q     *query_context.Context
			t     *tctx
			err   error
			panic any
		}
		var bs [2]br
		for i := range bs {
			c := q.Copy()
			bt := &tctx{sh: t.sh}
			c.StoreValue(traceKey, bt)
			bs[i].q, bs[i].t = c, bt
		}
		var wg sync.WaitGroup
		for i := range bs {
			wg.Add(1)
			go func(b *br) {
				defer wg.Done()
				defer func() {
					if r := recover(); r != nil {
						b.panic = r
					}
				}()
				b.err = next.ExecNext(ctx, b.q)
			}(&bs[i])
		}
		wg.Wait()
		var sb strings.Builder
		sb.WriteString("W " + w.label + " join ")
		var first error
		for i := range bs {
			b := &bs[i]
			if b.panic != nil {
				panic(b.panic)
			}
			if errors.Is(b.err, errRunaway) {
				return b.err
			}
			if i > 0 {
				sb.WriteString("|")
			}
			sb.WriteString("b" + strconv.Itoa(i) + "[" + strings.Join(b.t.buf, ";") + "]e=" + errLabel(b.err) + ",r=" + realMarker(b.q))
			if first == nil {
				first = b.err
			}
			t.deferred = append(t.deferred, b.t.deferred...)
		}
		if err := t.add(sb.String()); err != nil {
			return err
		}
		q.SetResponse(bs[0].q.R())
		return first
	}
	return fmt.Errorf("c06 harness: wrapper kind %q", w.kind)
}

func registerQuickSetups() {
	sequence.MustRegMatchQuickSetup("hm", func(_ sequence.BQ, args string) (sequence.Matcher, error) { return newHMatch(args) })
	sequence.MustRegExecQuickSetup("ha", func(_ sequence.BQ, args string) (any, error) { return newHExec(false, args) })
	sequence.MustRegExecQuickSetup("hw", func(_ sequence.BQ, args string) (any, error) { return newHExec(true, args) })
}

// ---- world: one mosdns instance per worker goroutine ---------------------------

type world struct {
	m       *coremain.Mosdns
	plugins map[string]any
	noise   *sequence.Sequence
}

func newWorld() *world {
	ps := map[string]any{}
	w := &world{m: coremain.NewTestMosdnsWithPlugins(ps), plugins: ps}
	w.buildNoise()
	return w
}

func makePlugin(s PluginSpec) (any, error) {
	switch s.Class {
	case "m":
		k, n := splitKind(s.Kind)
		return &hMatch{kind: k, n: n, label: s.Label}, nil
	case "a":
		k, id := splitKind(s.Kind)
		return &hAct{kind: k, id: id, label: s.Label}, nil
	case "w":
		k, id := splitKind(s.Kind)
		return &hWrap{kind: k, id: id, label: s.Label}, nil
	case "mq":
		return hMatchQ{}, nil
	case "aq":
		return hExecQ{wrap: false}, nil
	case "wq":
		return hExecQ{wrap: true}, nil
	}
	return nil, fmt.Errorf("plugin class %q", s.Class)
}

func yamlQuote(s string) string {
	if !strings.ContainsAny(s, "\t'") && len(s)%2 == 0 {
		return "'" + s + "'"
	}
	s = strings.ReplaceAll(s, `\`, `\\`)
	s = strings.ReplaceAll(s, `"`, `\"`)
	s = strings.ReplaceAll(s, "\t", `\t`)
	return `"` + s + `"`
}

// yamlText renders the rule list the way a user writes it in a config file.
func yamlText(st *SeqText) string {
	var sb strings.Builder
	if len(st.Rules) == 0 {
		return "[]\n"
	}
	for i, r := range st.Rules {
		first := true
		key := func(k string) {
			if first {
				sb.WriteString("- ")
				first = false
			} else {
				sb.WriteString("  ")
			}
			sb.WriteString(k)
		}
		switch {
		case len(r.Matches) == 1 && i%2 == 0:
			key("matches: " + yamlQuote(r.Matches[0]) + "\n") // scalar form, weakly decoded into a list
		case len(r.Matches) > 0:
			key("matches:\n")
			for _, m := range r.Matches {
				sb.WriteString("    - " + yamlQuote(m) + "\n")
			}
		}
		key("exec: " + yamlQuote(r.Exec) + "\n")
	}
	return sb.String()
}

func (w *world) build(p *Program) ([]*sequence.Sequence, error) {
	clear(w.plugins)
	for tag, spec := range p.Plugins {
		pl, err := makePlugin(spec)
		if err != nil {
			return nil, err
		}
		w.plugins[tag] = pl
	}
	out := make([]*sequence.Sequence, 0, len(p.Seqs))
	for i := range p.Seqs {
		st := &p.Seqs[i]
		ra := make([]sequence.RuleArgs, 0, len(st.Rules))
		for _, r := range st.Rules {
			ra = append(ra, sequence.RuleArgs{Matches: r.Matches, Exec: r.Exec})
		}
		var s *sequence.Sequence
		var err error
		switch st.Loader {
		case "", "direct":
			s, err = sequence.NewSequence(sequence.NewBQ(w.m, zap.NewNop()), ra)
		case "init", "yaml":
			info, ok := coremain.GetPluginType(sequence.PluginType)
			if !ok {
				return nil, errors.New("sequence plugin type not registered")
			}
			args := info.NewArgs()
			if st.Loader == "init" {
				*(args.(*sequence.Args)) = ra
			} else {
				var raw any
				if err := yaml.Unmarshal([]byte(yamlText(st)), &raw); err != nil {
					return nil, fmt.Errorf("harness yaml: %w", err)
				}
				if err := utils.WeakDecode(raw, args); err != nil {
					return nil, fmt.Errorf("seq %s: decoding yaml args: %w", st.Tag, err)
				}
			}
			var pl any
			pl, err = info.NewPlugin(coremain.NewBP(st.Tag, w.m), args)
			if err == nil {
				s, _ = pl.(*sequence.Sequence)
				if s == nil {
					err = fmt.Errorf("plugin is %T", pl)
				}
			}
		default:
			return nil, fmt.Errorf("loader %q", st.Loader)
		}
		if err != nil {
			return nil, fmt.Errorf("seq %s (#%d): %w", st.Tag, i, err)
		}
		w.plugins[st.Tag] = s
		out = append(out, s)
	}
	return out, nil
}

// exec runs one built sequence at top level on a fresh query. pend are the
// continuations kept by wrappers (those of the lateg kinds have already run).
func realExec(s *sequence.Sequence, preset bool, limit int) (res result, pend []*pending, runaway bool, panicked any) {
	q := new(dns.Msg)
	q.SetQuestion("c06.test.", dns.TypeA)
	q.Id = queryID
	qc := query_context.NewContext(q)
	t := &tctx{sh: &sharedExec{limit: int64(limit)}}
	qc.StoreValue(traceKey, t)
	if preset {
		qc.SetResponse(mkResp(1))
	}
	var err error
	func() {
		defer func() {
			if r := recover(); r != nil {
				panicked = r
			}
		}()
		err = s.Exec(context.Background(), qc)
	}()
	t.sh.wg.Wait()
	if errors.Is(err, errRunaway) || t.sh.steps.Load() > int64(limit) {
		runaway = true
	}
	if p := firstPanic(t.deferred); p != nil && panicked == nil {
		panicked = p
	}
	return result{Trace: t.buf, Resp: realMarker(qc), Err: errLabel(err), Deferred: obsDeferred(t.deferred)}, t.deferred, runaway, panicked
}

func firstPanic(pend []*pending) any {
	for _, p := range pend {
		if p.grun != nil {
			if p.grun.panicked != nil {
				return p.grun.panicked
			}
			if r := firstPanic(p.grun.pend); r != nil {
				return r
			}
		}
	}
	return nil
}

// runKeptLater runs a kept continuation after its top-level execution is over
// (kinds later / laterc / later3), on this goroutine or on a new one.
func runKeptLater(p *pending, limit int, newGoroutine bool) *obsRun {
	sh := &sharedExec{limit: int64(limit)}
	var o *obsRun
	if newGoroutine {
		done := make(chan struct{})
		go func() {
			defer close(done)
			o = runKept(p, sh)
		}()
		<-done
	} else {
		o = runKept(p, sh)
	}
	sh.wg.Wait()
	if sh.steps.Load() > int64(limit) {
		o.runaway = true
	}
	if r := firstPanic(o.pend); r != nil && o.panicked == nil {
		o.panicked = r
	}
	o.res.Deferred = obsDeferred(o.pend)
	return o
}

// noise: an unrelated program with a jump whose return point differs from
// everything the generators produce; executed between a top-level execution
// and the late runs of its kept continuations.
func (w *world) buildNoise() {
	clear(w.plugins)
	sub, err := sequence.NewSequence(sequence.NewBQ(w.m, zap.NewNop()), []sequence.RuleArgs{{Exec: "ha ok noise_s0"}})
	if err != nil {
		panic(err)
	}
	w.plugins["noise_sub"] = sub
	main, err := sequence.NewSequence(sequence.NewBQ(w.m, zap.NewNop()), []sequence.RuleArgs{
		{Exec: "ha ok noise_m0"}, {Exec: "jump noise_sub"}, {Exec: "ha ok noise_m2"}, {Exec: "jump noise_sub"}, {Exec: "ha ok noise_m4"}})
	if err != nil {
		panic(err)
	}
	w.noise = main
	clear(w.plugins)
}

func (w *world) runNoise() {
	realExec(w.noise, false, 100)
}
