package main

// Boundary VALUES and SIZES: rule arguments and per-query state at the ends of their
// ranges (mark 0 / 1 / max uint32, rcode 0 / 4095, question type and class 0 / 65535, the
// real matcher plugins with 0..n arguments), queries that carry many marks / stored values
// (0..40, around every plausible inline-capacity boundary 4 / 8 / 16 / 32), rules with
// many matchers, and LONG programs: hundreds / thousands of rules in one sequence, dozens
// to hundreds of jumps and gotos executed on one path (flat, two and three levels),
// nesting up to 200 pending jump returns. Everything is rendered to rule text, loaded
// through the real loader and compared with the reference interpreter like all other
// programs.

import (
	"fmt"
	"math/rand"
	"strconv"
)

var (
	markBoundary  = []int{0, 1, 2, 3, 4, 5, 7, 8, 9, 15, 16, 17, 31, 32, 33, 40, 255, 256, 65535, 65536, 2147483647, 2147483648, 4294967294, 4294967295}
	rcodeBoundary = []int{0, 1, 2, 3, 5, 15, 16, 255, 4095}
	u16Boundary   = []int{0, 1, 28, 255, 256, 65535}
	// how many marks / values a query carries: around 4, 8, 16, 32
	countBoundary = []int{0, 1, 2, 3, 4, 5, 6, 7, 8, 9, 15, 16, 17, 31, 32, 33, 40}
)

// manyMarks returns k distinct marks, none equal to v. flavour 0: 1000, 1001, ..;
// 1: 0, 1, 2, ..; 2: both ends of the range first.
func manyMarks(k, flavour, v int) []int {
	var pool []int
	switch flavour {
	case 0:
		for i := 0; i < k+1; i++ {
			pool = append(pool, 1000+i)
		}
	case 1:
		for i := 0; i < k+1; i++ {
			pool = append(pool, i)
		}
	default:
		pool = []int{0, 4294967295, 1, 2147483648, 4294967294, 2147483647, 65536, 65535}
		for i := 2; len(pool) < k+1; i++ {
			pool = append(pool, i)
		}
	}
	out := make([]int, 0, k)
	for _, m := range pool {
		if m != v && len(out) < k {
			out = append(out, m)
		}
	}
	return out
}

func plainN(k string, n int) laction { return laction{op: "plain", kind: kindN(k, n)} }
func okIf(ms ...lmatch) lrule        { return lrule{ms: ms, act: laction{op: "plain", kind: "ok"}} }
func realMark(ns ...int) lmatch      { return lmatch{kind: "mark", args: ns} }
func notM(m lmatch) lmatch           { m.neg = true; return m }
func hasMarkK(n int) lmatch          { return lmatch{kind: kindN("K", n)} }
func wrapRule(kind string) lrule     { return actRule(laction{op: "wrap", kind: kind}) }
func jumpRule(t int) lrule           { return actRule(laction{op: "jump", target: t}) }
func gotoRule(t int) lrule           { return actRule(laction{op: "goto", target: t}) }

// seedMarks: rules that put the marks on the query. how 0: one real 'mark' rule with all of
// them as arguments (also with none: 'mark' without arguments does nothing); 1: one harness
// rule per mark; 2: alternately real rules with 1..3 arguments and harness rules.
func seedMarks(marks []int, how int) []lrule {
	var out []lrule
	switch how {
	case 0:
		out = append(out, actRule(laction{op: "mark", args: append([]int{}, marks...)}))
	case 1:
		for _, m := range marks {
			out = append(out, actRule(plainN("mk", m)))
		}
	default:
		for i := 0; i < len(marks); {
			n := 1 + (i % 3)
			if i+n > len(marks) {
				n = len(marks) - i
			}
			out = append(out, actRule(laction{op: "mark", args: append([]int{}, marks[i:i+n]...)}))
			i += n
			if i < len(marks) {
				out = append(out, actRule(plainN("mk", marks[i])))
				i++
			}
		}
	}
	return out
}

// probeMarks: reads every mark of the list. how 0: one rule with one matcher per mark
// (all evaluated left to right as long as they are true); else one rule per mark.
func probeMarks(marks []int, how int) []lrule {
	if len(marks) == 0 {
		return nil
	}
	if how == 0 {
		var ms []lmatch
		for _, m := range marks {
			ms = append(ms, hasMarkK(m))
		}
		return []lrule{okIf(ms...)}
	}
	var out []lrule
	for i, m := range marks {
		if i%4 == 3 {
			out = append(out, okIf(realMark(m)))
		} else {
			out = append(out, okIf(hasMarkK(m)))
		}
	}
	return out
}

// boundaryTemplates: the deterministic grids G8 (marks), G9 (long programs), G10 (real int matchers), G11 (stored values).
func boundaryTemplates() []*lprog {
	var out []*lprog

	// G8: mark value v x number of other marks on the query x which other marks x how they
	// were set x copying wrapper. v is read (real matcher plain / negated / two arguments,
	// harness matcher with the value seen) while absent, after it was set, after it was set
	// again and deleted once, after other marks were deleted, after it was set again; all
	// other marks are read back after every step.
	for _, v := range []int{0, 1, 7, 2147483648, 4294967295} {
		for _, k := range countBoundary {
			for fl := 0; fl < 3; fl++ {
				for how := 0; how < 3; how++ {
					for _, w := range []string{"", "cpc", "laterc"} {
						o := manyMarks(k, fl, v)
						readV := func() []lrule {
							rs := []lrule{okIf(realMark(v)), okIf(notM(realMark(v))), okIf(hasMarkK(v))}
							if k > 0 {
								rs = append(rs, okIf(realMark(v, o[0])), okIf(notM(realMark(o[k-1], v))))
							}
							return rs
						}
						setV := actRule(laction{op: "mark", args: []int{v}})
						if how == 1 {
							setV = actRule(plainN("mk", v))
						}
						s := seedMarks(o, how)
						if w != "" {
							s = append(s, wrapRule(w))
						}
						s = cat(s, readV(), []lrule{setV}, readV(), probeMarks(o, how),
							[]lrule{setV, actRule(plainN("um", v))}, readV(), probeMarks(o, how))
						if k >= 2 {
							s = cat(s, []lrule{actRule(plainN("um", o[0])), actRule(plainN("um", o[k/2]))}, probeMarks(o, 1),
								[]lrule{okIf(realMark(o[0], o[k/2])), okIf(realMark(o[0], o[k-1])), okIf(notM(realMark(o[k/2])))})
						}
						if k >= 1 {
							s = cat(s, []lrule{actRule(laction{op: "mark", args: []int{v, o[0]}})}, readV(), probeMarks(o, how))
							// set again what is already set after marks set earlier were deleted, then delete it once
							s = cat(s, []lrule{actRule(plainN("um", o[1%k])), setV, actRule(laction{op: "mark", args: []int{o[k-1], o[k/2]}}), setV,
								actRule(plainN("um", v)), actRule(plainN("um", o[k-1]))}, readV(), probeMarks(o, 1))
						}
						out = append(out, &lprog{origin: fmt.Sprintf("G8 mark=%d others=%d which=%d set=%d w=%s", v, k, fl, how, w), seqs: [][]lrule{s}})
					}
				}
			}
		}
	}

	// G9: long programs.
	wr := []string{"once", "post", "twice", "cpc", "conc", "later", "laterc", "lateg", "cpa"}
	subs := map[string][]lrule{
		"ok":      {okRule()},
		"return":  {okRule(), actRule(laction{op: "return"}), okRule()},
		"empty":   {},
		"skipped": {okIf(lmatch{kind: "F"})},
	}
	subNames := []string{"ok", "return", "empty", "skipped"}
	// (a) flat: one sequence executes N jumps whose targets come back
	for ni, n := range []int{1, 2, 8, 15, 16, 17, 18, 31, 32, 33, 63, 64, 65, 66, 100, 128, 129, 200, 256, 257, 300} {
		for si, sn := range subNames {
			for wi := 0; wi < 2; wi++ {
				w, at := "", -1
				if wi == 1 {
					w = wr[(ni+si)%len(wr)]
					at = []int{0, n / 2, n - 1}[(ni+si)%3]
				}
				main := []lrule{okRule()}
				for j := 0; j < n; j++ {
					if j == at {
						main = append(main, wrapRule(w))
					}
					main = append(main, jumpRule(0))
					if j%16 == 15 {
						main = append(main, okRule())
					}
				}
				main = append(main, okRule())
				out = append(out, &lprog{origin: fmt.Sprintf("G9 flat jumps=%d sub=%s w=%s at=%d", n, sn, w, at), seqs: [][]lrule{subs[sn], main}})
			}
		}
	}
	// (b) two / three levels: a jumps to A, which does b jumps to B (which does c jumps to C)
	for _, d := range [][]int{{5, 4}, {4, 4}, {17, 1}, {1, 17}, {8, 8}, {16, 16}, {3, 30}, {30, 3}, {4, 4, 4}, {3, 3, 8}, {2, 2, 2, 2, 2}} {
		for _, sn := range []string{"ok", "return"} {
			seqs := [][]lrule{subs[sn]}
			for lvl := len(d) - 1; lvl >= 0; lvl-- {
				s := []lrule{}
				for j := 0; j < d[lvl]; j++ {
					s = append(s, jumpRule(len(seqs)-1))
				}
				s = append(s, okRule())
				if sn == "return" && lvl > 0 {
					s = append(s, actRule(laction{op: "return"}), okRule())
				}
				seqs = append(seqs, s)
			}
			out = append(out, &lprog{origin: fmt.Sprintf("G9 levels=%v sub=%s", d, sn), seqs: seqs})
		}
	}
	// (c) nesting: d pending jump returns, a wrapper at one level, a terminator at the bottom
	ts := terms()
	for di, d := range []int{7, 8, 15, 16, 17, 31, 32, 33, 64, 65, 100, 200} {
		for zi, z := range ts[:5] {
			w, at := "", -1
			if zi%2 == 1 || di%2 == 1 {
				w = []string{"post", "twice", "laterc", "cpc", "postset"}[(di+zi)%5]
				at = []int{0, d / 2, d}[(di+zi)%3]
			}
			var seqs [][]lrule
			for lvl := 0; lvl <= d; lvl++ {
				s := []lrule{okRule()}
				if lvl == at {
					s = append(s, wrapRule(w))
				}
				if lvl == 0 {
					s = cat(s, z.rules, []lrule{okRule()})
				} else {
					s = append(s, jumpRule(lvl-1), okRule())
				}
				seqs = append(seqs, s)
			}
			out = append(out, &lprog{origin: fmt.Sprintf("G9 nesting=%d z=%s w=%s at=%d", d, z.name, w, at), seqs: seqs})
		}
	}
	// (d) goto chains: L gotos on one path, plain / with a jump that returns before every
	// goto / entered through a jump (whose return is dropped by the first goto)
	for _, l := range []int{2, 15, 16, 17, 33, 64, 65, 100, 200} {
		for variant := 0; variant < 3; variant++ {
			seqs := [][]lrule{{okRule()}, {okRule(), okRule()}} // 0: helper, 1: end of the chain
			for i := 0; i < l; i++ {
				s := []lrule{okRule()}
				if variant == 1 {
					s = append(s, jumpRule(0))
				}
				s = append(s, gotoRule(len(seqs)-1), okRule())
				seqs = append(seqs, s)
			}
			if variant == 2 {
				seqs = append(seqs, []lrule{okRule(), jumpRule(len(seqs) - 1), okRule()})
			}
			out = append(out, &lprog{origin: fmt.Sprintf("G9 gotos=%d variant=%d", l, variant), seqs: seqs})
		}
	}
	// (e) long rule lists: R rules in one sequence, every 5th skipped, matchers silent or
	// traced, a wrapper / terminator somewhere; "sparse": three of four rules are skipped
	for ri, r := range []int{100, 300, 500, 700, 1000, 2000} {
		for variant := 0; variant < 4; variant++ {
			sparse := r >= 1000
			w, at := "", -1
			switch variant {
			case 1:
				w, at = wr[ri%len(wr)], r/2
			case 2:
				w, at = "post", 0
			case 3:
				w, at = "later3", r-1
			}
			var s []lrule
			for i := 0; i < r; i++ {
				if i == at {
					s = append(s, wrapRule(w))
				}
				switch {
				case sparse && i%4 != 0:
					s = append(s, okIf(lmatch{kind: "_false"}))
				case i%5 == 0:
					s = append(s, okRule())
				case i%5 == 1:
					s = append(s, okIf(lmatch{kind: "_true"}))
				case i%5 == 2:
					s = append(s, okIf(lmatch{kind: "_true"}, lmatch{kind: "_false"}))
				case i%5 == 3:
					s = append(s, okIf(notM(lmatch{kind: "_false"}), lmatch{kind: "T"}))
				default:
					s = append(s, okIf(notM(realMark(0, 4294967295))))
				}
				if variant == 0 && i == r-r/4 {
					s = append(s, okIf(realMark(3)), actRule(laction{op: "mark", args: []int{3}}))
				}
			}
			s = append(s, okIf(realMark(3)), okRule())
			out = append(out, &lprog{origin: fmt.Sprintf("G9 rules=%d w=%s at=%d", r, w, at), seqs: [][]lrule{s}})
		}
	}
	// (f) one rule with many matchers: all true but the last / all true / an error at the end
	for _, n := range []int{4, 8, 16, 33, 100, 300} {
		for variant, last := range []lmatch{{kind: "T"}, {kind: "F"}, {kind: "E"}, {neg: true, kind: "_true"}} {
			var ms []lmatch
			for i := 0; i < n-1; i++ {
				ms = append(ms, []lmatch{{kind: "T"}, {kind: "_true"}, {neg: true, kind: "F"}, {neg: true, kind: "_false"}}[i%4])
			}
			ms = append(ms, last)
			out = append(out, &lprog{origin: fmt.Sprintf("G9 matchers=%d last=%d", n, variant), seqs: [][]lrule{{okRule(), {ms: ms, act: laction{op: "plain", kind: "set"}}, okRule()}}})
		}
	}

	// G10: the real int matchers (rcode, qtype, qclass) and has_resp on every boundary value of
	// the state they read x every boundary value as their argument, alone, negated, in a list,
	// with no argument; then the state moves to the next value and everything is read again -
	// inline, or on the original and a copy at the same time, or by a kept continuation.
	type idim struct {
		typ, rd, wr string
		vals        []int
	}
	for _, d := range []idim{{"rcode", "R", "rm", rcodeBoundary}, {"qtype", "Y", "qt", u16Boundary}, {"qclass", "C", "qc", u16Boundary}} {
		for ci, c := range d.vals {
			for _, w := range []string{"", "cpc", "laterc", "twice"} {
				probe := func() []lrule {
					rs := []lrule{okIf(lmatch{kind: kindN(d.rd, c)}), okIf(lmatch{kind: "has_resp"}), okIf(notM(lmatch{kind: "has_resp"})), okIf(lmatch{kind: d.typ})}
					for _, a := range d.vals {
						rs = append(rs, okIf(lmatch{kind: d.typ, args: []int{a}}), okIf(notM(lmatch{kind: d.typ, args: []int{a}})))
					}
					rs = append(rs, okIf(lmatch{kind: d.typ, args: d.vals}), okIf(lmatch{kind: d.typ, args: append(append([]int{}, d.vals[:ci]...), d.vals[ci+1:]...)}))
					return rs
				}
				next := d.vals[(ci+1)%len(d.vals)]
				var s []lrule
				if d.typ != "rcode" || ci%2 == 0 {
					s = append(s, actRule(laction{op: "plain", kind: "set"}))
				}
				s = append(s, actRule(plainN(d.wr, c)))
				if w != "" {
					s = append(s, wrapRule(w))
				}
				s = cat(s, probe(), []lrule{actRule(plainN(d.wr, next))}, probe())
				if d.typ == "rcode" {
					s = cat(s, []lrule{actRule(laction{op: "plain", kind: "drop"})}, probe(), []lrule{actRule(laction{op: "reject", rcode: strconv.Itoa(c % 4096)})})
				}
				out = append(out, &lprog{origin: fmt.Sprintf("G10 %s=%d w=%s", d.typ, c, w), seqs: [][]lrule{s}})
			}
		}
	}

	// G11: a query that carries k stored values (k around 4 / 8 / 16 / 32): every key is read
	// back after the others were stored, after one was deleted, after it was overwritten, on
	// the original and on copies.
	for _, k := range countBoundary {
		for _, w := range []string{"", "cpc", "laterc", "conc"} {
			var s []lrule
			probe := func() {
				for i := 0; i < k; i++ {
					s = append(s, okIf(lmatch{kind: kindN("V", i)}))
				}
				s = append(s, okIf(notM(lmatch{kind: kindN("V", k%nStateKeys)})))
			}
			for i := 0; i < k; i++ {
				s = append(s, actRule(plainN("sv", i)))
			}
			if w != "" {
				s = append(s, wrapRule(w))
			}
			probe()
			if k >= 2 {
				s = append(s, actRule(plainN("dv", 0)), actRule(plainN("dv", k/2)), actRule(plainN("sv", k-1)))
				probe()
				s = append(s, actRule(plainN("sv", 0)))
				probe()
			}
			out = append(out, &lprog{origin: fmt.Sprintf("G11 values=%d w=%s", k, w), seqs: [][]lrule{s}})
		}
	}
	return out
}

// ---- random programs over the boundary universe ---------------------------------------

func genBoundaryMatcher(rng *rand.Rand, marks []int) lmatch {
	neg := rng.Intn(3) == 0
	switch x := rng.Intn(100); {
	case x < 30: // real mark matcher, 0..4 arguments
		n := []int{0, 1, 1, 1, 1, 2, 2, 3, 4}[rng.Intn(9)]
		var args []int
		for i := 0; i < n; i++ {
			args = append(args, pickInt(rng, marks))
		}
		return lmatch{neg: neg, kind: "mark", args: args}
	case x < 50:
		return lmatch{neg: neg, kind: kindN("K", pickInt(rng, marks))}
	case x < 60:
		return lmatch{neg: neg, kind: kindN("V", rng.Intn(nStateKeys))}
	case x < 84:
		typ, vals := "rcode", rcodeBoundary
		switch rng.Intn(3) {
		case 1:
			typ, vals = "qtype", u16Boundary
		case 2:
			typ, vals = "qclass", u16Boundary
		}
		n := []int{0, 1, 1, 1, 2, 3}[rng.Intn(6)]
		var args []int
		for i := 0; i < n; i++ {
			args = append(args, pickInt(rng, vals))
		}
		return lmatch{neg: neg, kind: typ, args: args}
	case x < 90:
		return lmatch{neg: neg, kind: "has_resp"}
	case x < 94:
		return lmatch{neg: neg, kind: kindN("Y", pickInt(rng, u16Boundary))}
	case x < 97:
		return lmatch{neg: neg, kind: kindN("C", pickInt(rng, u16Boundary))}
	default:
		return lmatch{neg: neg, kind: kindN("R", pickInt(rng, rcodeBoundary))}
	}
}

func genBoundaryAction(rng *rand.Rand, marks []int) laction {
	switch x := rng.Intn(100); {
	case x < 22:
		n := []int{0, 1, 1, 1, 2, 3, 5}[rng.Intn(7)]
		var args []int
		for i := 0; i < n; i++ {
			args = append(args, pickInt(rng, marks))
		}
		return laction{op: "mark", args: args}
	case x < 34:
		return plainN("mk", pickInt(rng, marks))
	case x < 56:
		return plainN("um", pickInt(rng, marks))
	case x < 64:
		return plainN("sv", rng.Intn(nStateKeys))
	case x < 70:
		return plainN("dv", rng.Intn(nStateKeys))
	case x < 78:
		return plainN("rm", pickInt(rng, rcodeBoundary))
	case x < 84:
		return plainN("qt", pickInt(rng, u16Boundary))
	case x < 90:
		return plainN("qc", pickInt(rng, u16Boundary))
	case x < 93:
		return laction{op: "plain", kind: "drop"}
	default:
		return laction{op: "plain", kind: "set"}
	}
}

// genBoundary: random programs whose rules read and write per-query state at the ends of
// the value ranges on queries that carry a random number (0..40) of marks and values, with
// many jumps per sequence (long mode: 30..150 rules, a third of them jumps) and copying
// wrappers. The marks the rules set, delete and read are drawn from the ends of the range,
// from the marks the query was seeded with (at the positions around 4 / 8 / 16 / 32) and
// from the boundary list.
func genBoundary(rng *rand.Rand, idx int64) *lprog {
	lp := &lprog{origin: "boundary#" + strconv.FormatInt(idx, 10)}
	// the marks this program talks about
	k := countBoundary[rng.Intn(len(countBoundary))]
	seeded := manyMarks(k, rng.Intn(3), -1)
	seedHow := rng.Intn(3)
	marks := []int{0, 0, 4294967295, 1}
	for _, i := range []int{0, 1, 3, 4, 5, 7, 8, 9, 15, 16, 17, 31, 32, 33, k - 1} {
		if i >= 0 && i < k {
			marks = append(marks, seeded[i])
		}
	}
	for _, m := range markBoundary {
		if rng.Intn(4) == 0 {
			marks = append(marks, m)
		}
	}
	n := 1 + rng.Intn(4)
	long := rng.Intn(4) == 0
	multipliers := 0
	for s := 0; s < n; s++ {
		nr := 1 + rng.Intn(10)
		if long && s == n-1 {
			nr = 30 + rng.Intn(120)
		}
		var rules []lrule
		if rng.Intn(2) == 0 {
			// the query carries k marks / values before anything is read
			if rng.Intn(4) == 0 {
				for i := 0; i < k; i++ {
					rules = append(rules, actRule(plainN("sv", i)))
				}
			} else {
				rules = append(rules, seedMarks(seeded, seedHow)...)
			}
		}
		for r := 0; r < nr; r++ {
			var lr lrule
			nm := []int{0, 0, 0, 1, 1, 1, 1, 1, 2, 3}[rng.Intn(10)]
			for i := 0; i < nm; i++ {
				if rng.Intn(10) < 8 {
					lr.ms = append(lr.ms, genBoundaryMatcher(rng, marks))
				} else {
					lr.ms = append(lr.ms, genMatcher(rng))
				}
			}
			x := rng.Intn(100)
			jumpP := 12
			if long {
				jumpP = 30
			}
			switch {
			case x < jumpP && s > 0:
				lr.act = jumpRule(rng.Intn(s)).act
			case x < jumpP+2 && s > 0:
				lr.act = gotoRule(rng.Intn(s)).act
			case x < 50:
				lr.act = genBoundaryAction(rng, marks)
			case x < 72:
				lr.act = laction{op: "plain", kind: "ok"}
			case x < 74:
				lr.act = laction{op: "plain", kind: "err"}
			case x < 77:
				lr.act = laction{op: pick(rng, "accept", "return", "return")}
			case x < 80:
				lr.act = laction{op: "reject", rcode: pick(rng, "", "0", "1", "15", "16", "4095")}
			case x < 88 || (long && s == n-1 && r > 20):
				lr.act = laction{op: "plain", kind: "ok"}
			default:
				k := copyingKinds[rng.Intn(len(copyingKinds))]
				if rng.Intn(4) == 0 {
					k = pick(rng, "twice", "post", "once", "twicedrop")
				}
				if isMultiplier(k) {
					if multipliers >= 2 {
						k = pick(rng, "later", "lateg", "later3", "post")
					} else {
						multipliers++
					}
				}
				lr.act = laction{op: "wrap", kind: k}
			}
			rules = append(rules, lr)
		}
		lp.seqs = append(lp.seqs, rules)
	}
	return lp
}
