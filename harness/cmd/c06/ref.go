package main

// Reference interpreter for sequence programs, written from the property
// statement only. It has its own rule-text parser (whitespace-field based) and
// an explicit continuation stack (a persistent linked list of "resume here"
// frames). It shares no code with plugin/executable/sequence.
//
// Semantics implemented (C06 statement):
//   - rules are visited in order; matchers left to right, stop at the first
//     that is false after '!' negation; action runs only if all matched
//   - accept / reject end all processing
//   - return resumes after the calling jump, or ends at top level
//   - jump runs the target, then continues; goto runs the target and never
//     comes back (all pending jump returns are dropped)
//   - an error from a matcher or action aborts everything, reported to the caller
//   - a wrapping plugin receives the rest of the chain including pending jump
//     returns as a reusable continuation
//
// Harness plugin behaviour (what the test plugins in plugins.go do) is modelled
// here as well: that part is a specification of the harness, not of mosdns.

import (
	"errors"
	"fmt"
	"strconv"
	"strings"
)

const queryID = 60000

type refMatcher struct {
	neg     bool
	builtin int // 0 harness plugin, 1 _true, 2 _false, 3 mark (real plugin: true if any of args is set), 4 rcode 5 qtype 6 qclass (real plugins: true if the value is one of args; rcode false without a response), 7 has_resp (real plugin)
	kind    string
	label   string
	n       int   // harness state matchers K V Q R Y C
	args    []int // mark rcode qtype qclass
}

const (
	bMark = 3 + iota
	bRcode
	bQtype
	bQclass
	bHasResp
)

var realIntMatchers = map[string]int{"rcode": bRcode, "qtype": bQtype, "qclass": bQclass}

// the real int matchers take decimal ints (strconv.Atoi)
func parseInts(args string) ([]int, error) {
	var out []int
	for _, f := range strings.Fields(args) {
		n, err := strconv.Atoi(f)
		if err != nil {
			return nil, err
		}
		out = append(out, n)
	}
	return out, nil
}

type refAction struct {
	op     string // plain | wrap | accept | reject | return | jump | goto | mark (real plugin: sets all of args)
	kind   string
	id     int
	label  string
	rcode  int
	target int
	args   []int
}

func parseMarks(args string) ([]int, error) {
	var out []int
	for _, f := range strings.Fields(args) {
		n, err := strconv.ParseUint(f, 10, 32)
		if err != nil {
			return nil, err
		}
		out = append(out, int(n))
	}
	return out, nil
}

type refRule struct {
	ms  []refMatcher
	act refAction
}

type refProg struct {
	seqs  [][]refRule
	names map[string]int
	canon []string // canonical text per sequence (labels, ids, whitespace and text forms removed)
	refs  [][]int
}

// ---- parsing --------------------------------------------------------------

func splitHead(s string) (head, rest string) {
	f := strings.Fields(s)
	if len(f) == 0 {
		return "", ""
	}
	return f[0], strings.Join(f[1:], " ")
}

func parseKind(s string) (kind string, id int, err error) {
	kind = s
	if i := strings.IndexByte(s, ':'); i >= 0 {
		kind = s[:i]
		id, err = strconv.Atoi(s[i+1:])
	}
	return
}

func parseKindLabel(args string) (kind string, id int, label string, err error) {
	f := strings.Fields(args)
	if len(f) != 2 {
		return "", 0, "", fmt.Errorf("bad harness plugin args %q", args)
	}
	kind, id, err = parseKind(f[0])
	return kind, id, f[1], err
}

func refParseMatcher(p *Program, text string) (refMatcher, error) {
	var m refMatcher
	s := strings.TrimSpace(text)
	if strings.HasPrefix(s, "!") {
		m.neg = true
		s = strings.TrimSpace(s[1:])
	}
	head, args := splitHead(s)
	switch {
	case head == "":
		return m, errors.New("empty matcher")
	case head[0] == '$':
		spec, ok := p.Plugins[head[1:]]
		if !ok {
			return m, fmt.Errorf("unknown tag %q", head)
		}
		switch spec.Class {
		case "m":
			k, n, err := parseKind(spec.Kind)
			m.kind, m.n, m.label = k, n, spec.Label
			return m, err
		case "mq":
			k, n, l, err := parseKindLabel(args)
			m.kind, m.n, m.label = k, n, l
			return m, err
		}
		return m, fmt.Errorf("tag %q is not a matcher", head)
	case head == "_true":
		m.builtin = 1
	case head == "_false":
		m.builtin = 2
	case head == "hm":
		k, n, l, err := parseKindLabel(args)
		m.kind, m.n, m.label = k, n, l
		return m, err
	case head == "mark":
		m.builtin = bMark
		var err error
		m.args, err = parseMarks(args)
		return m, err
	case realIntMatchers[head] != 0:
		m.builtin = realIntMatchers[head]
		m.kind = head
		var err error
		m.args, err = parseInts(args)
		return m, err
	case head == "has_resp":
		m.builtin = bHasResp
	default:
		return m, fmt.Errorf("unknown matcher type %q", head)
	}
	return m, nil
}

func refParseExec(p *Program, names map[string]int, text string) (refAction, error) {
	var a refAction
	head, args := splitHead(text)
	harness := func(op string, kindS, label string) (refAction, error) {
		k, id, err := parseKind(kindS)
		return refAction{op: op, kind: k, id: id, label: label}, err
	}
	switch {
	case head == "":
		return a, errors.New("empty exec")
	case head[0] == '$':
		spec, ok := p.Plugins[head[1:]]
		if !ok {
			return a, fmt.Errorf("unknown tag %q", head)
		}
		switch spec.Class {
		case "a":
			return harness("plain", spec.Kind, spec.Label)
		case "w":
			return harness("wrap", spec.Kind, spec.Label)
		case "aq", "wq":
			f := strings.Fields(args)
			if len(f) != 2 {
				return a, fmt.Errorf("bad args %q", args)
			}
			op := "plain"
			if spec.Class == "wq" {
				op = "wrap"
			}
			return harness(op, f[0], f[1])
		}
		return a, fmt.Errorf("tag %q is not executable", head)
	case head == "ha" || head == "hw":
		f := strings.Fields(args)
		if len(f) != 2 {
			return a, fmt.Errorf("bad args %q", args)
		}
		op := "plain"
		if head == "hw" {
			op = "wrap"
		}
		return harness(op, f[0], f[1])
	case head == "accept":
		a.op = "accept"
	case head == "return":
		a.op = "return"
	case head == "mark":
		a.op = "mark"
		var err error
		a.args, err = parseMarks(args)
		return a, err
	case head == "reject":
		a.op = "reject"
		a.rcode = 5 // REFUSED
		if args != "" {
			n, err := strconv.Atoi(args)
			if err != nil {
				return a, err
			}
			a.rcode = n
		}
	case head == "jump" || head == "goto":
		a.op = head
		t, ok := names[args]
		if !ok {
			return a, fmt.Errorf("%s target %q not built yet", head, args)
		}
		a.target = t
	default:
		return a, fmt.Errorf("unknown exec type %q", head)
	}
	return a, nil
}

func refCompile(p *Program) (*refProg, error) {
	rp := &refProg{names: map[string]int{}}
	for si, st := range p.Seqs {
		var rules []refRule
		var cb strings.Builder
		var refs []int
		for ri, rt := range st.Rules {
			var r refRule
			for mi, mt := range rt.Matches {
				m, err := refParseMatcher(p, mt)
				if err != nil {
					return nil, fmt.Errorf("seq %d rule %d matcher %d: %w", si, ri, mi, err)
				}
				r.ms = append(r.ms, m)
				if m.neg {
					cb.WriteByte('!')
				}
				switch m.builtin {
				case 1:
					cb.WriteString("_t ")
				case 2:
					cb.WriteString("_f ")
				case bMark:
					cb.WriteString("mark" + fmt.Sprint(m.args) + " ")
				case bRcode, bQtype, bQclass:
					cb.WriteString(m.kind + fmt.Sprint(m.args) + " ")
				case bHasResp:
					cb.WriteString("has_resp ")
				default:
					cb.WriteString(m.kind + " ")
					if isStateMatcher(m.kind) {
						cb.WriteString(strconv.Itoa(m.n) + " ")
					}
				}
			}
			a, err := refParseExec(p, rp.names, rt.Exec)
			if err != nil {
				return nil, fmt.Errorf("seq %d rule %d exec: %w", si, ri, err)
			}
			r.act = a
			cb.WriteString("> " + a.op + " " + a.kind)
			switch a.op {
			case "jump", "goto":
				cb.WriteString("#" + strconv.Itoa(a.target))
				refs = append(refs, a.target)
			case "reject":
				cb.WriteString(strconv.Itoa(a.rcode))
			case "mark":
				cb.WriteString(fmt.Sprint(a.args))
			case "plain":
				if isStateAction(a.kind) {
					cb.WriteString(strconv.Itoa(a.id))
				}
			}
			cb.WriteString("; ")
			rules = append(rules, r)
		}
		rp.seqs = append(rp.seqs, rules)
		rp.canon = append(rp.canon, cb.String())
		rp.refs = append(rp.refs, refs)
		if _, dup := rp.names[st.Tag]; dup {
			return nil, fmt.Errorf("duplicate sequence tag %q", st.Tag)
		}
		rp.names[st.Tag] = si
	}
	return rp, nil
}

// fingerprint of (entry, sequences reachable from it)
func (rp *refProg) fingerprint(entry int) string {
	seen := make([]bool, len(rp.seqs))
	var sb strings.Builder
	var visit func(i int)
	visit = func(i int) {
		if seen[i] {
			return
		}
		seen[i] = true
		for _, t := range rp.refs[i] {
			visit(t)
		}
	}
	visit(entry)
	// renumber reachable sequences so that unreachable ones do not matter
	renum := map[int]int{}
	for i := range rp.seqs {
		if seen[i] {
			renum[i] = len(renum)
		}
	}
	for i := range rp.seqs {
		if !seen[i] {
			continue
		}
		c := rp.canon[i]
		// rewrite #target numbers
		var out strings.Builder
		for j := 0; j < len(c); j++ {
			if c[j] == '#' {
				k := j + 1
				for k < len(c) && c[k] >= '0' && c[k] <= '9' {
					k++
				}
				n, _ := strconv.Atoi(c[j+1 : k])
				out.WriteString("#" + strconv.Itoa(renum[n]))
				j = k - 1
				continue
			}
			out.WriteByte(c[j])
		}
		sb.WriteString(out.String())
		sb.WriteString(" || ")
	}
	return sb.String()
}

// ---- execution ------------------------------------------------------------

// kframe: "resume sequence seq at rule pc; when it ends, resume up".
type kframe struct {
	seq, pc int
	up      *kframe
	depth   int // number of pending jump returns below this frame
}

type feats struct {
	jump, gotoN, gotoPending, retPending, retTop, endPending          int
	accept, reject, negEval, errAction                                int
	errMatcherAt                                                      [4]int
	wrapKinds                                                         map[string]int
	wrapPending                                                       map[string]int // wrapper ran with >=1 pending jump return in its continuation
	acceptUnderPostNested, rerunAfterPendingReturn, hEval, concBranch int
	maxDepth                                                          int
	skipped, matched, copyRuns                                        int
	deferredReg                                                       map[string]int // kept continuations registered, by wrapper kind
	deferredPending                                                   int            // ... whose continuation contains a pending jump return
	// per-query state (dimension = mark-real, mark, value, query-id, rcode, response)
	stateReads, stateWrites map[string]int
	// reads of a state key for which ANOTHER context of the same execution (related by
	// Copy) was written to a different value: the read only gives the right answer if
	// the contexts do not share that state
	isoReads map[string]int
	// ... by the wrapper kind that made the copy the reading or the writing context descends from
	isoReadsByWrap map[string]int

	// boundary values / sizes (the maxima are per execution; merged with max)
	maxJumpsOnPath, maxGotosOnPath int // jump / goto actions executed on one path from the top-level start to its end
	maxMarks, maxValues            int // distinct marks / stored values one query context carried
	maxRulesVisited                int // rules visited (matched or skipped) on one path
	// reads of a mark (real matcher and harness matcher) by value class and outcome, and by
	// the number of marks the query carried at that moment; reads by the real int matchers
	// rcode / qtype / qclass / has_resp by "<type> <current value class> <verdict>"
	markReadsByValue, markReadsByCount, realMatcherReads map[string]int
	pathBuckets                                          map[string]int // executions by size class, filled by exec()
}

type refOverflow struct{}

type refState struct {
	resp      string
	marks     map[int]bool
	kv        map[int]string
	qid       int
	qtype     int
	qclass    int
	jumps     int // jump / goto actions executed and rules visited on the path that led here
	gotos     int
	visited   int
	fam       *family
	via       string // wrapper kind that created this context ("" = the original query)
	trace     []string
	steps     *int
	limit     int
	ft        *feats
	postDepth int    // dynamic nesting inside wrappers that act after their continuation
	deferred  []dres // continuations kept by late-running wrappers, in registration order
}

// family: all query contexts of one top-level execution with the state reads and writes they performed
type family struct {
	reads  []stateEv
	writes map[string][]stateEv
}

type stateEv struct {
	st       *refState
	dim, key string
	val      string
}

// child returns what Copy() of the query context must be: the same state now, independent afterwards.
func (st *refState) child(via string) *refState {
	c := &refState{resp: st.resp, qid: st.qid, qtype: st.qtype, qclass: st.qclass, jumps: st.jumps, gotos: st.gotos, visited: st.visited,
		fam: st.fam, via: via, steps: st.steps, limit: st.limit, ft: st.ft, postDepth: st.postDepth}
	if st.marks != nil {
		c.marks = make(map[int]bool, len(st.marks))
		for k, v := range st.marks {
			c.marks[k] = v
		}
	}
	if st.kv != nil {
		c.kv = make(map[int]string, len(st.kv))
		for k, v := range st.kv {
			c.kv[k] = v
		}
	}
	return c
}

func (st *refState) noteRead(dim, key, val string) {
	st.ft.stateReads[dim]++
	if st.fam != nil {
		st.fam.reads = append(st.fam.reads, stateEv{st, dim, key, val})
	}
}

func (st *refState) noteWrite(dim, key, val string) {
	st.ft.stateWrites[dim]++
	if st.fam != nil {
		st.fam.writes[key] = append(st.fam.writes[key], stateEv{st, dim, key, val})
	}
}

func bit(b bool) string {
	if b {
		return "1"
	}
	return "0"
}

func respRcode(resp string) string {
	f := strings.Split(resp, "/")
	if len(f) != 3 {
		return "-"
	}
	return f[1]
}

// setResp: every change of the response (presence and rcode are both readable by matchers)
func (st *refState) setResp(v string) {
	st.resp = v
	st.noteWrite("response", "resp", bit(v != "-"))
	st.noteWrite("rcode", "rc", respRcode(v))
}

func (st *refState) setMark(dim string, n int, on bool) {
	if on {
		if st.marks == nil {
			st.marks = map[int]bool{}
		}
		st.marks[n] = true
		if len(st.marks) > st.ft.maxMarks {
			st.ft.maxMarks = len(st.marks)
		}
	} else {
		delete(st.marks, n)
	}
	st.noteWrite(dim, "m"+strconv.Itoa(n), bit(on))
}

func valueClass(n, max int) string {
	switch {
	case n == 0:
		return "0"
	case n == max:
		return "max"
	case n == 1:
		return "1"
	case n <= 40:
		return "2..40"
	}
	return "large"
}

func countClass(n int) string {
	switch {
	case n <= 5:
		return strconv.Itoa(n)
	case n <= 8:
		return "6..8"
	case n <= 15:
		return "9..15"
	case n <= 17:
		return strconv.Itoa(n)
	case n <= 31:
		return "18..31"
	case n <= 33:
		return strconv.Itoa(n)
	}
	return "34+"
}

const maxUint32 = 1<<32 - 1

// readMark: one HasMark the rules ask for (real 'mark' matcher or the harness K matcher)
func (st *refState) readMark(dim string, n int) bool {
	has := st.marks[n]
	st.noteRead(dim, "m"+strconv.Itoa(n), bit(has))
	o := " absent"
	if has {
		o = " present"
	}
	st.ft.markReadsByValue["value "+valueClass(n, maxUint32)+o]++
	st.ft.markReadsByCount[countClass(len(st.marks))]++
	return has
}

func (st *refState) noteRealMatcher(typ string, cur, max int, v bool) {
	c := "no-response"
	if cur >= 0 {
		c = valueClass(cur, max)
	}
	st.ft.realMatcherReads[typ+" current="+c+" verdict="+bit(v)]++
}

// tally counts, after the execution, the reads whose answer depends on contexts not sharing state.
func (fam *family) tally(ft *feats) {
	for _, r := range fam.reads {
		for _, w := range fam.writes[r.key] {
			if w.st != r.st && w.val != r.val {
				ft.isoReads[r.dim]++
				via := r.st.via
				if via == "" {
					via = w.st.via
				}
				ft.isoReadsByWrap[via]++
				break
			}
		}
	}
}

func isStateMatcher(k string) bool {
	switch k {
	case "K", "V", "Q", "R", "Y", "C":
		return true
	}
	return false
}

func isStateAction(k string) bool {
	switch k {
	case "mk", "um", "sv", "dv", "qi", "rm", "qt", "qc":
		return true
	}
	return false
}

func (st *refState) emit(s string) {
	st.trace = append(st.trace, s)
	*st.steps++
	if *st.steps > st.limit {
		panic(refOverflow{})
	}
}

func respMarker(id, rcode, nq int) string {
	return strconv.Itoa(id) + "/" + strconv.Itoa(rcode) + "/" + strconv.Itoa(nq)
}

func errStr(e string) string {
	if e == "" {
		return "-"
	}
	return e
}

func (rp *refProg) run(k *kframe, st *refState) string {
	for {
		if k == nil {
			return "" // nothing left: processing ends normally
		}
		rules := rp.seqs[k.seq]
		if k.pc >= len(rules) {
			if k.up != nil {
				st.ft.endPending++
			}
			k = k.up // end of sequence: resume after the calling jump, if any
			continue
		}
		if k.depth > st.ft.maxDepth {
			st.ft.maxDepth = k.depth
		}
		r := &rules[k.pc]
		rest := &kframe{seq: k.seq, pc: k.pc + 1, up: k.up, depth: k.depth}
		st.visited++
		if st.visited > st.ft.maxRulesVisited {
			st.ft.maxRulesVisited = st.visited
		}

		all := true
		for i := range r.ms {
			m := &r.ms[i]
			var v bool
			switch m.builtin {
			case 1:
				v = true
			case 2:
				v = false
			case bMark: // real mark matcher: silent
				for _, n := range m.args {
					if st.readMark("mark-real", n) {
						v = true
						break
					}
				}
			case bRcode: // real rcode matcher: silent; false without a response
				cur := -1
				if rc := respRcode(st.resp); rc != "-" {
					cur, _ = strconv.Atoi(rc)
				}
				st.noteRead("rcode", "rc", respRcode(st.resp))
				for _, n := range m.args {
					if cur >= 0 && n == cur {
						v = true
					}
				}
				st.noteRealMatcher("rcode", cur, 4095, v)
			case bQtype, bQclass:
				cur, dim := st.qtype, "qtype"
				if m.builtin == bQclass {
					cur, dim = st.qclass, "qclass"
				}
				st.noteRead(dim, dim, strconv.Itoa(cur))
				for _, n := range m.args {
					if n == cur {
						v = true
					}
				}
				st.noteRealMatcher(dim, cur, 65535, v)
			case bHasResp:
				v = st.resp != "-"
				st.ft.hEval++
				st.noteRead("response", "resp", bit(v))
				st.ft.realMatcherReads["has_resp verdict="+bit(v)]++
			default:
				switch m.kind {
				case "T":
					st.emit("M " + m.label)
					v = true
				case "F":
					st.emit("M " + m.label)
					v = false
				case "E":
					st.emit("M " + m.label)
					if i < len(st.ft.errMatcherAt) {
						st.ft.errMatcherAt[i]++
					}
					return "E:" + m.label
				case "K":
					v = st.readMark("mark", m.n)
					st.emit("M " + m.label + "=" + bit(v))
				case "Y", "C":
					cur, dim := st.qtype, "qtype"
					if m.kind == "C" {
						cur, dim = st.qclass, "qclass"
					}
					v = cur == m.n
					st.noteRead(dim, dim, strconv.Itoa(cur))
					st.emit("M " + m.label + "=" + strconv.Itoa(cur))
				case "V":
					var x string
					x, v = st.kv[m.n]
					if !v {
						x = "-"
					}
					st.noteRead("value", "v"+strconv.Itoa(m.n), x)
					st.emit("M " + m.label + "=" + x)
				case "Q":
					v = st.qid == m.n
					st.noteRead("query-id", "q", strconv.Itoa(st.qid))
					st.emit("M " + m.label + "=" + strconv.Itoa(st.qid))
				case "R":
					rc := respRcode(st.resp)
					v = rc == strconv.Itoa(m.n)
					st.noteRead("rcode", "rc", rc)
					st.emit("M " + m.label + "=" + rc)
				case "H":
					v = st.resp != "-"
					st.ft.hEval++
					st.noteRead("response", "resp", bit(v))
					if v {
						st.emit("M " + m.label + "=1")
					} else {
						st.emit("M " + m.label + "=0")
					}
				default:
					panic("reference: unknown matcher kind " + m.kind)
				}
			}
			if m.neg {
				v = !v
				st.ft.negEval++
			}
			if !v {
				all = false
				break
			}
		}
		if !all {
			st.ft.skipped++
			k = rest
			continue
		}
		st.ft.matched++

		a := &r.act
		switch a.op {
		case "plain":
			st.emit("A " + a.label)
			switch a.kind {
			case "ok":
			case "err":
				st.ft.errAction++
				return "E:" + a.label
			case "set":
				st.setResp(respMarker(a.id, 0, 0))
			case "drop":
				st.setResp("-")
			case "mk":
				st.setMark("mark", a.id, true)
			case "um":
				st.setMark("mark", a.id, false)
			case "sv":
				if st.kv == nil {
					st.kv = map[int]string{}
				}
				st.kv[a.id] = a.label
				if len(st.kv) > st.ft.maxValues {
					st.ft.maxValues = len(st.kv)
				}
				st.noteWrite("value", "v"+strconv.Itoa(a.id), a.label)
			case "dv":
				delete(st.kv, a.id)
				st.noteWrite("value", "v"+strconv.Itoa(a.id), "-")
			case "qi":
				st.qid = a.id
				st.noteWrite("query-id", "q", strconv.Itoa(a.id))
			case "qt":
				st.qtype = a.id
				st.noteWrite("qtype", "qtype", strconv.Itoa(a.id))
			case "qc":
				st.qclass = a.id
				st.noteWrite("qclass", "qclass", strconv.Itoa(a.id))
			case "rm":
				if f := strings.Split(st.resp, "/"); len(f) == 3 {
					st.setResp(f[0] + "/" + strconv.Itoa(a.id) + "/" + f[2])
				}
			default:
				panic("reference: unknown action kind " + a.kind)
			}
			k = rest
		case "mark": // real mark executable: silent
			for _, n := range a.args {
				st.setMark("mark-real", n, true)
			}
			k = rest
		case "accept":
			st.ft.accept++
			if st.postDepth > 0 && k.depth >= 2 {
				st.ft.acceptUnderPostNested++
			}
			return ""
		case "reject":
			st.ft.reject++
			st.setResp(respMarker(st.qid, a.rcode, 1)) // the reply carries the id of the query message as it is now
			return ""
		case "return":
			if k.up != nil {
				st.ft.retPending++
			} else {
				st.ft.retTop++
			}
			k = k.up
		case "jump":
			st.ft.jump++
			st.jumps++
			if st.jumps > st.ft.maxJumpsOnPath {
				st.ft.maxJumpsOnPath = st.jumps
			}
			k = &kframe{seq: a.target, pc: 0, up: rest, depth: k.depth + 1}
		case "goto":
			st.ft.gotoN++
			st.gotos++
			if st.gotos > st.ft.maxGotosOnPath {
				st.ft.maxGotosOnPath = st.gotos
			}
			if k.up != nil {
				st.ft.gotoPending++
			}
			k = &kframe{seq: a.target, pc: 0, up: nil, depth: 0}
		case "wrap":
			return rp.wrap(a, rest, st)
		default:
			panic("reference: unknown op " + a.op)
		}
	}
}

func (rp *refProg) wrap(a *refAction, rest *kframe, st *refState) string {
	st.ft.wrapKinds[a.kind]++
	if rest.up != nil {
		st.ft.wrapPending[a.kind]++
	}
	pre := "W " + a.label + " pre"
	obs := func(tag, e string) {
		st.emit("W " + a.label + " " + tag + " e=" + errStr(e) + " r=" + st.resp)
	}
	switch a.kind {
	case "once":
		st.emit(pre)
		return rp.run(rest, st)
	case "stop":
		st.emit(pre)
		return ""
	case "zero":
		st.emit(pre)
		st.setResp(respMarker(a.id, 0, 0))
		return ""
	case "post", "postset", "swallow":
		st.emit(pre)
		st.postDepth++
		e := rp.run(rest, st)
		st.postDepth--
		obs("post", e)
		switch a.kind {
		case "postset":
			if e == "" {
				st.setResp(respMarker(a.id, 0, 0))
			}
		case "swallow":
			return ""
		}
		return e
	case "twice", "twicedrop":
		st.emit(pre)
		st.postDepth++
		j0, g0, v0 := st.jumps, st.gotos, st.visited
		e1 := rp.run(rest, st)
		st.jumps, st.gotos, st.visited = j0, g0, v0 // the second run is another path with the same prefix
		obs("mid", e1)
		if a.kind == "twicedrop" {
			st.setResp("-")
		}
		if rest.up != nil {
			st.ft.rerunAfterPendingReturn++
		}
		e2 := rp.run(rest, st)
		st.postDepth--
		obs("post", e2)
		if e1 != "" {
			return e1
		}
		return e2
	case "lateg", "lategc", "later", "laterc", "later3":
		// the wrapper copies the query, keeps (copy, continuation) for later and
		// either stops (like a cache answering from a stale entry) or continues.
		st.emit(pre)
		ds := st.child(a.kind)
		e := rp.run(rest, ds)
		st.ft.deferredReg[a.kind]++
		if rest.up != nil {
			st.ft.deferredPending++
		}
		st.deferred = append(st.deferred, dres{Label: a.label, Kind: a.kind,
			Res: &result{Trace: ds.trace, Resp: ds.resp, Err: errStr(e), Deferred: ds.deferred}})
		if a.kind == "lategc" || a.kind == "laterc" {
			return rp.run(rest, st)
		}
		return ""
	case "conc":
		st.emit(pre)
		var sb strings.Builder
		sb.WriteString("W " + a.label + " join ")
		first, b0resp := "", ""
		for b := 0; b < 2; b++ {
			bs := st.child(a.kind)
			bs.postDepth++
			e := rp.run(rest, bs)
			st.ft.concBranch++
			if b > 0 {
				sb.WriteString("|")
			}
			sb.WriteString("b" + strconv.Itoa(b) + "[" + strings.Join(bs.trace, ";") + "]e=" + errStr(e) + ",r=" + bs.resp)
			if first == "" {
				first = e
			}
			if b == 0 {
				b0resp = bs.resp
			}
			st.deferred = append(st.deferred, bs.deferred...)
		}
		st.emit(sb.String())
		st.setResp(b0resp) // the harness wrapper adopts branch 0's response
		return first
	case "cpa", "cpb", "cpc":
		// the continuation runs on the original and on a Copy taken before either run;
		// whatever the order (or concurrently) both execute the same remaining rules on
		// the state as it was at the copy
		st.emit(pre)
		cs := st.child(a.kind)
		st.postDepth++
		cs.postDepth++
		eo := rp.run(rest, st)
		ec := rp.run(rest, cs)
		st.postDepth--
		st.ft.copyRuns++
		if rest.up != nil {
			st.ft.rerunAfterPendingReturn++
		}
		st.deferred = append(st.deferred, cs.deferred...)
		st.emit("W " + a.label + " copy [" + strings.Join(cs.trace, ";") + "]e=" + errStr(ec) + ",r=" + cs.resp + " orig e=" + errStr(eo) + " r=" + st.resp)
		if eo != "" {
			return eo
		}
		return ec
	}
	panic("reference: unknown wrapper kind " + a.kind)
}

type result struct {
	Trace    []string `json:"trace"`
	Resp     string   `json:"final_response"`
	Err      string   `json:"error"`
	Deferred []dres   `json:"kept_continuations,omitempty"`
}

// dres: a continuation kept by a late-running wrapper. Res is what every later
// run of it (on a fresh copy of the query as it was when the wrapper ran) must
// produce: the same remaining rules as an immediate run. On the observed side
// Res is nil while the run has not happened yet.
type dres struct {
	Label string  `json:"wrapper"`
	Kind  string  `json:"kind"`
	Res   *result `json:"run,omitempty"`
}

func isLateKind(k string) bool {
	switch k {
	case "lateg", "lategc", "later", "laterc", "later3":
		return true
	}
	return false
}

// how often the kept continuation is run later
func lateRuns(k string) int {
	if k == "later3" {
		return 3
	}
	return 1
}

// exec runs entry sequence at top level. ok=false: the trace exceeds the step
// limit (program discarded, never handed to mosdns).
func (rp *refProg) exec(entry int, preset bool, limit int, ft *feats) (res result, steps int, ok bool) {
	fam := &family{writes: map[string][]stateEv{}}
	st := &refState{resp: "-", qid: queryID, qtype: 1, qclass: 1, fam: fam, steps: &steps, limit: limit, ft: ft}
	if preset {
		st.resp = respMarker(1, 0, 0)
	}
	defer func() {
		if r := recover(); r != nil {
			if _, is := r.(refOverflow); is {
				ok = false
				return
			}
			panic(r)
		}
	}()
	e := rp.run(&kframe{seq: entry}, st)
	fam.tally(ft)
	for _, b := range []int{16, 64, 256} {
		if ft.maxJumpsOnPath > b {
			ft.pathBuckets["more than "+strconv.Itoa(b)+" jumps on one path"]++
		}
		if ft.maxGotosOnPath > b {
			ft.pathBuckets["more than "+strconv.Itoa(b)+" gotos on one path"]++
		}
		if ft.maxDepth > b {
			ft.pathBuckets["more than "+strconv.Itoa(b)+" pending jump returns (nesting)"]++
		}
	}
	for _, b := range []int{100, 300, 1000} {
		if ft.maxRulesVisited > b {
			ft.pathBuckets["more than "+strconv.Itoa(b)+" rules visited on one path"]++
		}
	}
	for _, b := range []int{4, 8, 16, 32} {
		if ft.maxMarks > b {
			ft.pathBuckets["more than "+strconv.Itoa(b)+" marks on one query"]++
		}
		if ft.maxValues > b {
			ft.pathBuckets["more than "+strconv.Itoa(b)+" stored values on one query"]++
		}
	}
	return result{Trace: st.trace, Resp: st.resp, Err: errStr(e), Deferred: st.deferred}, steps, true
}

func newFeats() *feats {
	return &feats{wrapKinds: map[string]int{}, wrapPending: map[string]int{}, deferredReg: map[string]int{},
		stateReads: map[string]int{}, stateWrites: map[string]int{}, isoReads: map[string]int{}, isoReadsByWrap: map[string]int{},
		markReadsByValue: map[string]int{}, markReadsByCount: map[string]int{}, realMatcherReads: map[string]int{}, pathBuckets: map[string]int{}}
}
