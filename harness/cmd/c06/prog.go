package main

// Program model (rule TEXT + plugin table, JSON-serialisable for replay) and the
// seeded generators: random programs and the corner-case template grids.

import (
	"fmt"
	"math/rand"
	"strconv"
)

type PluginSpec struct {
	// m / a / w: tagged matcher / plain action / wrapper with fixed behaviour (Kind, Label).
	// mq / aq / wq: tagged quick-configurable plugin, behaviour comes from the rule's args "KIND LABEL".
	Class string `json:"class"`
	Kind  string `json:"kind,omitempty"`
	Label string `json:"label,omitempty"`
}

type RuleText struct {
	Matches []string `json:"matches,omitempty"`
	Exec    string   `json:"exec"`
}

type SeqText struct {
	Tag    string     `json:"tag"`
	Loader string     `json:"loader"` // direct (NewSequence) | init (plugin type registry) | yaml (yaml text -> WeakDecode -> registry)
	Rules  []RuleText `json:"rules"`
}

type Program struct {
	Origin  string                `json:"origin"`
	Plugins map[string]PluginSpec `json:"plugins"`
	Seqs    []SeqText             `json:"sequences"` // in build (dependency) order
}

// ---- logical programs (generator side only) ------------------------------------

type lmatch struct {
	neg  bool
	kind string // T F E H _true _false | per-query state: K:n (has mark n) V:k (value k stored) Q:n (query id is n) R:n (response rcode is n) Y:n (question type is n) C:n (question class is n) | mark (the real plugin/mark matcher, args = marks) | rcode qtype qclass has_resp (the real matcher plugins, args = ints)
	args []int
}

type laction struct {
	op     string // plain wrap accept reject return jump goto | mark (the real plugin/mark executable, args = marks)
	kind   string // plain: ok err set drop | per-query state: mk:n um:n (set/delete mark n) sv:k dv:k (store/delete value k) qi:n (query id := n) rm:n (response rcode := n, in place) qt:n qc:n (question type / class := n); wrap: see wrapKinds
	target int
	rcode  string // reject argument text ("" = none)
	args   []int
}

type lrule struct {
	ms  []lmatch
	act laction
}

type lprog struct {
	origin string
	seqs   [][]lrule
}

func pick(rng *rand.Rand, xs ...string) string { return xs[rng.Intn(len(xs))] }

var seqNameStyles = []string{"seq%d", "s_%d", "chain-%d", "Q%d.sub"}

// render turns a logical program into rule text + plugin table. The rng decides
// text forms (tagged plugin / quick-configured tagged plugin / quick-setup
// type), white space, tag spelling, loader path.
func render(lp *lprog, rng *rand.Rand) *Program {
	p := &Program{Origin: lp.origin, Plugins: map[string]PluginSpec{}}
	nameStyle := seqNameStyles[rng.Intn(len(seqNameStyles))]
	tagOf := func(i int) string { return fmt.Sprintf(nameStyle, i) }
	lead := func() string { return pick(rng, "", "", "", " ", "  ", "\t", " \t") }
	trail := func() string { return pick(rng, "", "", "", " ", "  ", "\t") }
	sep := func() string { return " " + pick(rng, "", "", "", " ", "\t", "  ") }
	nextID := 1
	harness := func(class byte, kind, label string) string {
		// class: 'm' 'a' 'w'
		switch rng.Intn(3) {
		case 0:
			tag := string(class) + pick(rng, "_", "-", ".", "") + label
			p.Plugins[tag] = PluginSpec{Class: string(class), Kind: kind, Label: label}
			return "$" + tag
		case 1:
			tag := string(class) + "q"
			p.Plugins[tag] = PluginSpec{Class: string(class) + "q"}
			return "$" + tag + sep() + kind + sep() + label
		default:
			return "h" + string(class) + sep() + kind + sep() + label
		}
	}
	withID := func(kind string) string {
		switch kind {
		case "set", "zero", "postset":
			nextID++
			return kind + ":" + strconv.Itoa(nextID)
		}
		return kind
	}
	for si, rules := range lp.seqs {
		st := SeqText{Tag: tagOf(si), Loader: pick(rng, "direct", "direct", "direct", "direct", "init", "init", "init", "yaml")}
		st.Rules = []RuleText{}
		for ri, r := range rules {
			var rt RuleText
			for mi, m := range r.ms {
				s := lead()
				if m.neg {
					s += "!" + pick(rng, "", "", " ", "  ", "\t")
				}
				switch m.kind {
				case "_true", "_false":
					s += m.kind
				case "mark", "rcode", "qtype", "qclass", "has_resp":
					s += m.kind
					for _, a := range m.args {
						s += sep() + strconv.Itoa(a)
					}
				default:
					s += harness('m', m.kind, fmt.Sprintf("s%dr%dm%d", si, ri, mi))
				}
				rt.Matches = append(rt.Matches, s+trail())
			}
			label := fmt.Sprintf("s%dr%d", si, ri)
			s := lead()
			switch r.act.op {
			case "plain":
				s += harness('a', withID(r.act.kind), label)
			case "wrap":
				s += harness('w', withID(r.act.kind), label)
			case "accept", "return":
				s += r.act.op
			case "mark":
				s += "mark"
				for _, a := range r.act.args {
					s += sep() + strconv.Itoa(a)
				}
			case "reject":
				s += "reject"
				if r.act.rcode != "" {
					s += sep() + r.act.rcode
				}
			case "jump", "goto":
				s += r.act.op + sep() + tagOf(r.act.target)
			default:
				panic("render: op " + r.act.op)
			}
			rt.Exec = s + trail()
			st.Rules = append(st.Rules, rt)
		}
		p.Seqs = append(p.Seqs, st)
	}
	return p
}

// ---- random programs -------------------------------------------------------------

var rejectArgs = []string{"", "", "0", "2", "3", "5", "23", "4095"}

func genMatcher(rng *rand.Rand) lmatch {
	x := rng.Intn(100)
	switch {
	case x < 13: // depends on whether a response is present
		return lmatch{neg: rng.Intn(3) == 0, kind: "H"}
	case x < 17:
		return lmatch{neg: rng.Intn(2) == 0, kind: "E"}
	case x < 80: // passes
		switch rng.Intn(6) {
		case 0:
			return lmatch{neg: true, kind: "F"}
		case 1:
			return lmatch{kind: "_true"}
		case 2:
			return lmatch{neg: true, kind: "_false"}
		default:
			return lmatch{kind: "T"}
		}
	default: // fails
		switch rng.Intn(6) {
		case 0, 1:
			return lmatch{neg: true, kind: "T"}
		case 2:
			return lmatch{kind: "_false"}
		case 3:
			return lmatch{neg: true, kind: "_true"}
		default:
			return lmatch{kind: "F"}
		}
	}
}

// cpa / cpb / cpc: the wrapper takes a Copy of the query and runs the continuation on
// BOTH the original and the copy: original first (fallback style), copy first, or
// concurrently (copy on a new goroutine: lazy cache update / dual_selector style).
var wrapKinds = []string{"once", "stop", "zero", "post", "postset", "swallow", "twice", "twicedrop", "conc", "lateg", "lategc", "later", "laterc", "later3", "cpa", "cpb", "cpc"}

// wrappers after which two query contexts related by Copy both exist and at least one keeps executing rules
var copyingKinds = []string{"conc", "lateg", "lategc", "later", "laterc", "later3", "cpa", "cpb", "cpc"}

func isMultiplier(k string) bool {
	switch k {
	case "twice", "twicedrop", "conc", "lategc", "laterc", "cpa", "cpb", "cpc":
		return true
	}
	return false
}

// per-query state universe used by the generators: marks 1..3 (+ one large), value keys 0..2,
// query ids {7, 8, queryID}, response rcodes {0, 3, 9}
var (
	markUniverse  = []int{1, 2, 3, 1, 2, 4000000000}
	qidUniverse   = []int{7, 8, queryID}
	rcodeUniverse = []int{0, 3, 9}
)

func kindN(k string, n int) string { return k + ":" + strconv.Itoa(n) }

func pickInt(rng *rand.Rand, xs []int) int { return xs[rng.Intn(len(xs))] }

// genStateMatcher: a matcher whose verdict depends on per-query state other than "has a response"
func genStateMatcher(rng *rand.Rand) lmatch {
	neg := rng.Intn(3) == 0
	switch x := rng.Intn(100); {
	case x < 35: // real plugin/mark matcher, one or two marks (true if any is set)
		args := []int{pickInt(rng, markUniverse)}
		if rng.Intn(4) == 0 {
			args = append(args, pickInt(rng, markUniverse))
		}
		return lmatch{neg: neg, kind: "mark", args: args}
	case x < 60:
		return lmatch{neg: neg, kind: kindN("K", pickInt(rng, markUniverse))}
	case x < 78:
		return lmatch{neg: neg, kind: kindN("V", rng.Intn(3))}
	case x < 89:
		return lmatch{neg: neg, kind: kindN("Q", pickInt(rng, qidUniverse))}
	default:
		return lmatch{neg: neg, kind: kindN("R", pickInt(rng, rcodeUniverse))}
	}
}

// genStateAction: a plain action that writes per-query state
func genStateAction(rng *rand.Rand) laction {
	switch x := rng.Intn(100); {
	case x < 30:
		args := []int{pickInt(rng, markUniverse)}
		if rng.Intn(5) == 0 {
			args = append(args, pickInt(rng, markUniverse))
		}
		return laction{op: "mark", args: args}
	case x < 45:
		return laction{op: "plain", kind: kindN("mk", pickInt(rng, markUniverse))}
	case x < 60:
		return laction{op: "plain", kind: kindN("um", pickInt(rng, markUniverse))}
	case x < 72:
		return laction{op: "plain", kind: kindN("sv", rng.Intn(3))}
	case x < 80:
		return laction{op: "plain", kind: kindN("dv", rng.Intn(3))}
	case x < 88:
		return laction{op: "plain", kind: kindN("qi", pickInt(rng, qidUniverse))}
	case x < 94:
		return laction{op: "plain", kind: kindN("rm", pickInt(rng, rcodeUniverse))}
	default:
		return laction{op: "plain", kind: "set"}
	}
}

// genStateful: random programs whose rules read and write per-query state (marks via the
// real plugin/mark and via harness plugins, stored values, the query message, the response
// in place) around wrappers that run the continuation on copies of the query.
func genStateful(rng *rand.Rand, idx int64) *lprog {
	lp := &lprog{origin: "stateful#" + strconv.FormatInt(idx, 10)}
	n := 1 + rng.Intn(4)
	multipliers := 0
	for s := 0; s < n; s++ {
		nr := 1 + rng.Intn(8)
		rules := make([]lrule, 0, nr+1)
		if rng.Intn(2) == 0 {
			// the query already carries some state when the first wrapper copies it
			rules = append(rules, lrule{act: genStateAction(rng)})
		}
		for r := 0; r < nr; r++ {
			var lr lrule
			nm := 0
			switch x := rng.Intn(10); {
			case x < 3:
			case x < 8:
				nm = 1
			case x < 9:
				nm = 2
			default:
				nm = 3
			}
			for i := 0; i < nm; i++ {
				if rng.Intn(10) < 7 {
					lr.ms = append(lr.ms, genStateMatcher(rng))
				} else {
					lr.ms = append(lr.ms, genMatcher(rng))
				}
			}
			x := rng.Intn(100)
			switch {
			case x < 38:
				lr.act = genStateAction(rng)
			case x < 50:
				lr.act = laction{op: "plain", kind: "ok"}
			case x < 54:
				lr.act = laction{op: "plain", kind: pick(rng, "set", "drop", "err")}
			case x < 57:
				lr.act = laction{op: pick(rng, "accept", "return", "return")}
			case x < 59:
				lr.act = laction{op: "reject", rcode: rejectArgs[rng.Intn(len(rejectArgs))]}
			case x < 72 && s > 0:
				lr.act = laction{op: "jump", target: rng.Intn(s)}
			case x < 75 && s > 0:
				lr.act = laction{op: "goto", target: rng.Intn(s)}
			case x < 75:
				lr.act = genStateAction(rng)
			default:
				k := copyingKinds[rng.Intn(len(copyingKinds))]
				if rng.Intn(5) == 0 {
					k = pick(rng, "twice", "post", "once", "twicedrop")
				}
				if isMultiplier(k) {
					if multipliers >= 3 {
						k = pick(rng, "later", "lateg", "later3", "post")
					} else {
						multipliers++
					}
				}
				lr.act = laction{op: "wrap", kind: k}
			}
			rules = append(rules, lr)
		}
		lp.seqs = append(lp.seqs, rules)
	}
	return lp
}

func genRandom(rng *rand.Rand, idx int64) *lprog {
	lp := &lprog{origin: "random#" + strconv.FormatInt(idx, 10)}
	n := 1 + rng.Intn(6)
	if rng.Intn(4) == 0 {
		n = 6
	}
	multipliers := 0
	chainy := rng.Intn(3) == 0 // bias towards deep nesting
	for s := 0; s < n; s++ {
		nr := rng.Intn(8)
		rules := make([]lrule, 0, nr)
		for r := 0; r < nr; r++ {
			var lr lrule
			switch x := rng.Intn(10); {
			case x < 4:
			case x < 7:
				lr.ms = []lmatch{genMatcher(rng)}
			case x < 9:
				lr.ms = []lmatch{genMatcher(rng), genMatcher(rng)}
			default:
				lr.ms = []lmatch{genMatcher(rng), genMatcher(rng), genMatcher(rng)}
			}
			x := rng.Intn(100)
			target := func() int {
				if chainy || rng.Intn(10) < 6 {
					return s - 1
				}
				return rng.Intn(s)
			}
			switch {
			case x < 28:
				lr.act = laction{op: "plain", kind: "ok"}
			case x < 38:
				lr.act = laction{op: "plain", kind: "set"}
			case x < 43:
				lr.act = laction{op: "plain", kind: "drop"}
			case x < 46:
				lr.act = laction{op: "plain", kind: "err"}
			case x < 49:
				lr.act = laction{op: "accept"}
			case x < 52:
				lr.act = laction{op: "reject", rcode: rejectArgs[rng.Intn(len(rejectArgs))]}
			case x < 58:
				lr.act = laction{op: "return"}
			case x < 74 && s > 0:
				lr.act = laction{op: "jump", target: target()}
			case x < 80 && s > 0:
				lr.act = laction{op: "goto", target: target()}
			case x < 80:
				lr.act = laction{op: "plain", kind: "ok"}
			default:
				k := wrapKinds[rng.Intn(len(wrapKinds))]
				if isMultiplier(k) {
					if multipliers >= 3 {
						k = pick(rng, "once", "post", "postset", "swallow")
					} else {
						multipliers++
					}
				}
				lr.act = laction{op: "wrap", kind: k}
			}
			rules = append(rules, lr)
		}
		if chainy && s > 0 && len(rules) < 7 {
			// make sure the chain s -> s-1 exists somewhere in the sequence
			at := rng.Intn(len(rules) + 1)
			rules = append(rules, lrule{})
			copy(rules[at+1:], rules[at:])
			rules[at] = lrule{act: laction{op: "jump", target: s - 1}}
		}
		lp.seqs = append(lp.seqs, rules)
	}
	return lp
}

// ---- templates --------------------------------------------------------------------

func okRule() lrule           { return lrule{act: laction{op: "plain", kind: "ok"}} }
func actRule(a laction) lrule { return lrule{act: a} }

// terminators used in the control grid
type term struct {
	name  string
	rules []lrule
}

func terms() []term {
	return []term{
		{"none", nil},
		{"return", []lrule{actRule(laction{op: "return"})}},
		{"accept", []lrule{actRule(laction{op: "accept"})}},
		{"reject", []lrule{actRule(laction{op: "reject", rcode: "3"})}},
		{"erraction", []lrule{actRule(laction{op: "plain", kind: "err"})}},
		{"errmatcher", []lrule{{ms: []lmatch{{kind: "T"}, {kind: "E"}}, act: laction{op: "plain", kind: "ok"}}}},
		{"stop", []lrule{actRule(laction{op: "wrap", kind: "stop"})}},
		{"set", []lrule{actRule(laction{op: "plain", kind: "set"})}},
		{"skipped-return", []lrule{{ms: []lmatch{{neg: true, kind: "T"}}, act: laction{op: "return"}}}},
		{"neg-accept", []lrule{{ms: []lmatch{{neg: true, kind: "F"}}, act: laction{op: "accept"}}}},
	}
}

func cat(parts ...[]lrule) []lrule {
	var out []lrule
	for _, p := range parts {
		out = append(out, p...)
	}
	return out
}

var matcherForms = []lmatch{
	{neg: false, kind: "T"}, {neg: true, kind: "T"}, {neg: false, kind: "F"}, {neg: true, kind: "F"}, {neg: false, kind: "E"}, {neg: true, kind: "E"},
	{neg: false, kind: "H"}, {neg: true, kind: "H"}, {neg: false, kind: "_true"}, {neg: true, kind: "_true"}, {neg: false, kind: "_false"}, {neg: true, kind: "_false"},
}

// templates returns the deterministic corner-case families.
func templates() []*lprog {
	var out []*lprog
	ok := []lrule{okRule()}
	ts := terms()
	wraps := append([]string{""}, wrapKinds...)

	// G1: control grid. S0 = [ok X ok]; S1 = [ok L1(S0) ok Y ok]; S2 = [W? L2(S1) ok]
	// covers goto inside a jumped sequence, accept/return/reject/error inside nested
	// jumps under every wrapper kind.
	for _, x := range ts {
		for _, l1 := range []string{"jump", "goto"} {
			for _, y := range ts {
				for _, w := range wraps {
					for _, l2 := range []string{"jump", "goto"} {
						s0 := cat(ok, x.rules, ok)
						s1 := cat(ok, []lrule{actRule(laction{op: l1, target: 0})}, ok, y.rules, ok)
						var s2 []lrule
						if w != "" {
							s2 = append(s2, actRule(laction{op: "wrap", kind: w}))
						}
						s2 = append(s2, actRule(laction{op: l2, target: 1}), okRule())
						out = append(out, &lprog{
							origin: fmt.Sprintf("G1 x=%s l1=%s y=%s w=%s l2=%s", x.name, l1, y.name, w, l2),
							seqs:   [][]lrule{s0, s1, s2},
						})
					}
				}
			}
		}
	}

	// G2: wrapper inside the callee: its continuation contains pending jump returns
	// (one or two levels). S0 = [ok W ok X ok]; S1 = [L1(S0) ok Y]; S2 = [jump S1, ok]
	for _, w := range wrapKinds {
		for _, x := range ts {
			for _, l1 := range []string{"jump", "goto"} {
				for _, y := range ts[:4] {
					s0 := cat(ok, []lrule{actRule(laction{op: "wrap", kind: w})}, ok, x.rules, ok)
					s1 := cat([]lrule{actRule(laction{op: l1, target: 0})}, ok, y.rules)
					s2 := []lrule{actRule(laction{op: "jump", target: 1}), okRule()}
					out = append(out, &lprog{
						origin: fmt.Sprintf("G2 w=%s x=%s l1=%s y=%s", w, x.name, l1, y.name),
						seqs:   [][]lrule{s0, s1, s2},
					})
				}
			}
		}
	}

	// G3: every matcher tuple of length 0..3 over 12 forms (error in the k-th
	// matcher, short-circuit, negation of true/false/error/builtin).
	var tuples [][]lmatch
	tuples = append(tuples, nil)
	for _, a := range matcherForms {
		tuples = append(tuples, []lmatch{a})
		for _, b := range matcherForms {
			tuples = append(tuples, []lmatch{a, b})
			for _, c := range matcherForms {
				tuples = append(tuples, []lmatch{a, b, c})
			}
		}
	}
	for i, tu := range tuples {
		s0 := []lrule{
			{ms: tu, act: laction{op: "plain", kind: "set"}},
			{ms: tu, act: laction{op: "plain", kind: "ok"}},
			okRule(),
		}
		out = append(out, &lprog{origin: fmt.Sprintf("G3 tuple#%d", i), seqs: [][]lrule{s0}})
	}

	// G4: nesting depth 1..6, wrapper at level k, bottom terminator.
	for d := 1; d <= 6; d++ {
		for _, z := range ts[:6] {
			for _, w := range []string{"post", "twice", "conc", "postset", "later3", "lategc"} {
				for k := 0; k <= d; k++ {
					var seqs [][]lrule
					for lvl := 0; lvl <= d; lvl++ {
						var s []lrule
						s = append(s, okRule())
						if lvl == k {
							s = append(s, actRule(laction{op: "wrap", kind: w}))
						}
						if lvl == 0 {
							s = append(s, z.rules...)
							s = append(s, okRule())
						} else {
							s = append(s, actRule(laction{op: "jump", target: lvl - 1}), okRule())
						}
						seqs = append(seqs, s)
					}
					out = append(out, &lprog{origin: fmt.Sprintf("G4 depth=%d z=%s w=%s k=%d", d, z.name, w, k), seqs: seqs})
				}
			}
		}
	}

	// G5: top-level return / accept / reject at every position, taken or skipped.
	for _, op := range []laction{{op: "return"}, {op: "accept"}, {op: "reject"}, {op: "reject", rcode: "2"}, {op: "wrap", kind: "stop"}, {op: "wrap", kind: "zero"}} {
		for before := 0; before <= 2; before++ {
			for after := 0; after <= 2; after++ {
				for _, ms := range [][]lmatch{nil, {{kind: "T"}}, {{kind: "F"}}, {{neg: true, kind: "F"}}, {{neg: true, kind: "T"}}, {{kind: "_true"}, {neg: true, kind: "_false"}}} {
					var s []lrule
					for i := 0; i < before; i++ {
						s = append(s, okRule())
					}
					s = append(s, lrule{ms: ms, act: op})
					for i := 0; i < after; i++ {
						s = append(s, okRule())
					}
					out = append(out, &lprog{origin: fmt.Sprintf("G5 %s%s b=%d a=%d m=%d", op.op, op.kind, before, after, len(ms)), seqs: [][]lrule{s}})
				}
			}
		}
	}

	// G6: two wrappers stacked (outer x inner) around a jump that returns.
	for _, wo := range wrapKinds {
		for _, wi := range wrapKinds {
			for _, z := range ts[:5] {
				s0 := cat(ok, z.rules, ok)
				s1 := []lrule{actRule(laction{op: "wrap", kind: wi}), actRule(laction{op: "jump", target: 0}), okRule()}
				s2 := []lrule{actRule(laction{op: "wrap", kind: wo}), actRule(laction{op: "jump", target: 1}), {ms: []lmatch{{kind: "H"}}, act: laction{op: "plain", kind: "ok"}}}
				out = append(out, &lprog{origin: fmt.Sprintf("G6 outer=%s inner=%s z=%s", wo, wi, z.name), seqs: [][]lrule{s0, s1, s2}})
			}
		}
	}
	// G7: per-query state around copying wrappers. The entry pre-seeds state (none / the
	// key under test / another key / both), a wrapper W runs the continuation on the
	// original and/or on copies, and the continuation reads key X (plain and negated),
	// writes X (set or clear), reads X again, writes another key Y and reads it - inline or
	// inside a jumped sequence (so that the pending return is part of the continuation),
	// followed by a read after the jump returned. Every context must see the state as it
	// was when it was copied plus its own writes.
	type dim struct {
		name                   string
		rdX, rdY               lmatch
		setX, clrX, setY, seed laction
	}
	plain := func(k string, n int) laction { return laction{op: "plain", kind: kindN(k, n)} }
	dims := []dim{
		{name: "mark-real", rdX: lmatch{kind: "mark", args: []int{2}}, rdY: lmatch{kind: "mark", args: []int{3}},
			setX: laction{op: "mark", args: []int{2}}, clrX: plain("um", 2), setY: laction{op: "mark", args: []int{3}}, seed: laction{op: "mark", args: []int{1}}},
		{name: "mark-harness", rdX: lmatch{kind: "K:2"}, rdY: lmatch{kind: "K:3"},
			setX: plain("mk", 2), clrX: plain("um", 2), setY: plain("mk", 3), seed: plain("mk", 1)},
		{name: "mark-mixed", rdX: lmatch{kind: "mark", args: []int{2, 4000000000}}, rdY: lmatch{kind: "K:4000000000"},
			setX: plain("mk", 2), clrX: plain("um", 2), setY: laction{op: "mark", args: []int{4000000000, 3}}, seed: laction{op: "mark", args: []int{1}}},
		{name: "value", rdX: lmatch{kind: "V:1"}, rdY: lmatch{kind: "V:2"},
			setX: plain("sv", 1), clrX: plain("dv", 1), setY: plain("sv", 2), seed: plain("sv", 0)},
		{name: "query-id", rdX: lmatch{kind: "Q:7"}, rdY: lmatch{kind: "Q:8"},
			setX: plain("qi", 7), clrX: plain("qi", queryID), setY: plain("qi", 8), seed: plain("qi", 9)},
		{name: "response-in-place", rdX: lmatch{kind: "R:3"}, rdY: lmatch{kind: "R:9"},
			setX: plain("rm", 3), clrX: plain("rm", 0), setY: plain("rm", 9), seed: laction{op: "plain", kind: "set"}},
	}
	g7wraps := append(append([]string{}, copyingKinds...), "twice", "post", "once")
	for _, d := range dims {
		for _, w := range g7wraps {
			for pre := 0; pre < 4; pre++ { // bit 0: another key / the response is present; bit 1: X itself is set
				for _, clear := range []bool{false, true} {
					for _, nested := range []bool{false, true} {
						neg := func(m lmatch) lmatch { m.neg = true; return m }
						wr := d.setX
						if clear {
							wr = d.clrX
						}
						body := []lrule{
							{ms: []lmatch{d.rdX}, act: laction{op: "plain", kind: "ok"}},
							{ms: []lmatch{neg(d.rdX)}, act: laction{op: "plain", kind: "ok"}},
							actRule(wr),
							{ms: []lmatch{d.rdX}, act: laction{op: "plain", kind: "ok"}},
							{ms: []lmatch{neg(d.rdX)}, act: laction{op: "plain", kind: "ok"}},
							actRule(d.setY),
							{ms: []lmatch{d.rdY, neg(d.rdX)}, act: laction{op: "plain", kind: "ok"}},
						}
						var entry []lrule
						if pre&1 != 0 || d.name == "response-in-place" {
							entry = append(entry, actRule(d.seed))
						}
						if pre&2 != 0 {
							entry = append(entry, actRule(d.setX))
						}
						entry = append(entry, actRule(laction{op: "wrap", kind: w}))
						var seqs [][]lrule
						if nested {
							seqs = append(seqs, body)
							entry = append(entry, actRule(laction{op: "jump", target: 0}),
								lrule{ms: []lmatch{d.rdX}, act: laction{op: "plain", kind: "ok"}},
								lrule{ms: []lmatch{d.rdY}, act: laction{op: "plain", kind: "ok"}})
						} else {
							entry = append(entry, body...)
						}
						seqs = append(seqs, entry)
						out = append(out, &lprog{origin: fmt.Sprintf("G7 state=%s w=%s pre=%d clear=%v nested=%v", d.name, w, pre, clear, nested), seqs: seqs})
					}
				}
			}
		}
	}
	return out
}
