package main

// Program model (rule TEXT + plugin table, JSON-serialisable for replay) and the
// seeded generators: random programs and the corner-case template grids.

import (
	"fmt"
	"math/rand"
	"strconv"
)

type PluginSpec struct {
	// m / a / w: tagged matcher / plain action / wrapper with fixed behaviour (Kind, Label).
	// mq / aq / wq: tagged quick-configurable plugin, behaviour comes from the rule's args "KIND LABEL".
	Class string `json:"class"`
	Kind  string `json:"kind,omitempty"`
	Label string `json:"label,omitempty"`
}

type RuleText struct {
	Matches []string `json:"matches,omitempty"`
	Exec    string   `json:"exec"`
}

type SeqText struct {
	Tag    string     `json:"tag"`
	Loader string     `json:"loader"` // direct (NewSequence) | init (plugin type registry) | yaml (yaml text -> WeakDecode -> registry)
	Rules  []RuleText `json:"rules"`
}

type Program struct {
	Origin  string                `json:"origin"`
	Plugins map[string]PluginSpec `json:"plugins"`
	Seqs    []SeqText             `json:"sequences"` // in build (dependency) order
}

// ---- logical programs (generator side only) ------------------------------------

type lmatch struct {
	neg  bool
	kind string // T F E H _true _false
}

type laction struct {
	op     string // plain wrap accept reject return jump goto
	kind   string // plain: ok err set drop; wrap: once stop zero post postset swallow twice twicedrop conc
	target int
	rcode  string // reject argument text ("" = none)
}

type lrule struct {
	ms  []lmatch
	act laction
}

type lprog struct {
	origin string
	seqs   [][]lrule
}

func pick(rng *rand.Rand, xs ...string) string { return xs[rng.Intn(len(xs))] }

var seqNameStyles = []string{"seq%d", "s_%d", "chain-%d", "Q%d.sub"}

// render turns a logical program into rule text + plugin table. The rng decides
// text forms (tagged plugin / quick-configured tagged plugin / quick-setup
// type), white space, tag spelling, loader path.
func render(lp *lprog, rng *rand.Rand) *Program {
	p := &Program{Origin: lp.origin, Plugins: map[string]PluginSpec{}}
	nameStyle := seqNameStyles[rng.Intn(len(seqNameStyles))]
	tagOf := func(i int) string { return fmt.Sprintf(nameStyle, i) }
	lead := func() string { return pick(rng, "", "", "", " ", "  ", "\t", " \t") }
	trail := func() string { return pick(rng, "", "", "", " ", "  ", "\t") }
	sep := func() string { return " " + pick(rng, "", "", "", " ", "\t", "  ") }
	nextID := 1
	harness := func(class byte, kind, label string) string {
		// class: 'm' 'a' 'w'
		switch rng.Intn(3) {
		case 0:
			tag := string(class) + pick(rng, "_", "-", ".", "") + label
			p.Plugins[tag] = PluginSpec{Class: string(class), Kind: kind, Label: label}
			return "$" + tag
		case 1:
			tag := string(class) + "q"
			p.Plugins[tag] = PluginSpec{Class: string(class) + "q"}
			return "$" + tag + sep() + kind + sep() + label
		default:
			return "h" + string(class) + sep() + kind + sep() + label
		}
	}
	withID := func(kind string) string {
		switch kind {
		case "set", "zero", "postset":
			nextID++
			return kind + ":" + strconv.Itoa(nextID)
		}
		return kind
	}
	for si, rules := range lp.seqs {
		st := SeqText{Tag: tagOf(si), Loader: pick(rng, "direct", "direct", "direct", "direct", "init", "init", "init", "yaml")}
		st.Rules = []RuleText{}
		for ri, r := range rules {
			var rt RuleText
			for mi, m := range r.ms {
				s := lead()
				if m.neg {
					s += "!" + pick(rng, "", "", " ", "  ", "\t")
				}
				switch m.kind {
				case "_true", "_false":
					s += m.kind
				default:
					s += harness('m', m.kind, fmt.Sprintf("s%dr%dm%d", si, ri, mi))
				}
				rt.Matches = append(rt.Matches, s+trail())
			}
			label := fmt.Sprintf("s%dr%d", si, ri)
			s := lead()
			switch r.act.op {
			case "plain":
				s += harness('a', withID(r.act.kind), label)
			case "wrap":
				s += harness('w', withID(r.act.kind), label)
			case "accept", "return":
				s += r.act.op
			case "reject":
				s += "reject"
				if r.act.rcode != "" {
					s += sep() + r.act.rcode
				}
			case "jump", "goto":
				s += r.act.op + sep() + tagOf(r.act.target)
			default:
				panic("render: op " + r.act.op)
			}
			rt.Exec = s + trail()
			st.Rules = append(st.Rules, rt)
		}
		p.Seqs = append(p.Seqs, st)
	}
	return p
}

// ---- random programs -------------------------------------------------------------

var rejectArgs = []string{"", "", "0", "2", "3", "5", "23", "4095"}

func genMatcher(rng *rand.Rand) lmatch {
	x := rng.Intn(100)
	switch {
	case x < 13: // depends on whether a response is present
		return lmatch{neg: rng.Intn(3) == 0, kind: "H"}
	case x < 17:
		return lmatch{neg: rng.Intn(2) == 0, kind: "E"}
	case x < 80: // passes
		switch rng.Intn(6) {
		case 0:
			return lmatch{neg: true, kind: "F"}
		case 1:
			return lmatch{kind: "_true"}
		case 2:
			return lmatch{neg: true, kind: "_false"}
		default:
			return lmatch{kind: "T"}
		}
	default: // fails
		switch rng.Intn(6) {
		case 0, 1:
			return lmatch{neg: true, kind: "T"}
		case 2:
			return lmatch{kind: "_false"}
		case 3:
			return lmatch{neg: true, kind: "_true"}
		default:
			return lmatch{kind: "F"}
		}
	}
}

var wrapKinds = []string{"once", "stop", "zero", "post", "postset", "swallow", "twice", "twicedrop", "conc", "lateg", "lategc", "later", "laterc", "later3"}

func genRandom(rng *rand.Rand, idx int64) *lprog {
	lp := &lprog{origin: "random#" + strconv.FormatInt(idx, 10)}
	n := 1 + rng.Intn(6)
	if rng.Intn(4) == 0 {
		n = 6
	}
	multipliers := 0
	chainy := rng.Intn(3) == 0 // bias towards deep nesting
	for s := 0; s < n; s++ {
		nr := rng.Intn(8)
		rules := make([]lrule, 0, nr)
		for r := 0; r < nr; r++ {
			var lr lrule
			switch x := rng.Intn(10); {
			case x < 4:
			case x < 7:
				lr.ms = []lmatch{genMatcher(rng)}
			case x < 9:
				lr.ms = []lmatch{genMatcher(rng), genMatcher(rng)}
			default:
				lr.ms = []lmatch{genMatcher(rng), genMatcher(rng), genMatcher(rng)}
			}
			x := rng.Intn(100)
			target := func() int {
				if chainy || rng.Intn(10) < 6 {
					return s - 1
				}
				return rng.Intn(s)
			}
			switch {
			case x < 28:
				lr.act = laction{op: "plain", kind: "ok"}
			case x < 38:
				lr.act = laction{op: "plain", kind: "set"}
			case x < 43:
				lr.act = laction{op: "plain", kind: "drop"}
			case x < 46:
				lr.act = laction{op: "plain", kind: "err"}
			case x < 49:
				lr.act = laction{op: "accept"}
			case x < 52:
				lr.act = laction{op: "reject", rcode: rejectArgs[rng.Intn(len(rejectArgs))]}
			case x < 58:
				lr.act = laction{op: "return"}
			case x < 74 && s > 0:
				lr.act = laction{op: "jump", target: target()}
			case x < 80 && s > 0:
				lr.act = laction{op: "goto", target: target()}
			case x < 80:
				lr.act = laction{op: "plain", kind: "ok"}
			default:
				k := wrapKinds[rng.Intn(len(wrapKinds))]
				if k == "twice" || k == "twicedrop" || k == "conc" || k == "lategc" || k == "laterc" {
					if multipliers >= 3 {
						k = pick(rng, "once", "post", "postset", "swallow")
					} else {
						multipliers++
					}
				}
				lr.act = laction{op: "wrap", kind: k}
			}
			rules = append(rules, lr)
		}
		if chainy && s > 0 && len(rules) < 7 {
			// make sure the chain s -> s-1 exists somewhere in the sequence
			at := rng.Intn(len(rules) + 1)
			rules = append(rules, lrule{})
			copy(rules[at+1:], rules[at:])
			rules[at] = lrule{act: laction{op: "jump", target: s - 1}}
		}
		lp.seqs = append(lp.seqs, rules)
	}
	return lp
}

// ---- templates --------------------------------------------------------------------

func okRule() lrule           { return lrule{act: laction{op: "plain", kind: "ok"}} }
func actRule(a laction) lrule { return lrule{act: a} }

// terminators used in the control grid
type term struct {
	name  string
	rules []lrule
}

func terms() []term {
	return []term{
		{"none", nil},
		{"return", []lrule{actRule(laction{op: "return"})}},
		{"accept", []lrule{actRule(laction{op: "accept"})}},
		{"reject", []lrule{actRule(laction{op: "reject", rcode: "3"})}},
		{"erraction", []lrule{actRule(laction{op: "plain", kind: "err"})}},
		{"errmatcher", []lrule{{ms: []lmatch{{kind: "T"}, {kind: "E"}}, act: laction{op: "plain", kind: "ok"}}}},
		{"stop", []lrule{actRule(laction{op: "wrap", kind: "stop"})}},
		{"set", []lrule{actRule(laction{op: "plain", kind: "set"})}},
		{"skipped-return", []lrule{{ms: []lmatch{{neg: true, kind: "T"}}, act: laction{op: "return"}}}},
		{"neg-accept", []lrule{{ms: []lmatch{{neg: true, kind: "F"}}, act: laction{op: "accept"}}}},
	}
}

func cat(parts ...[]lrule) []lrule {
	var out []lrule
	for _, p := range parts {
		out = append(out, p...)
	}
	return out
}

var matcherForms = []lmatch{
	{false, "T"}, {true, "T"}, {false, "F"}, {true, "F"}, {false, "E"}, {true, "E"},
	{false, "H"}, {true, "H"}, {false, "_true"}, {true, "_true"}, {false, "_false"}, {true, "_false"},
}

// templates returns the deterministic corner-case families.
func templates() []*lprog {
	var out []*lprog
	ok := []lrule{okRule()}
	ts := terms()
	wraps := append([]string{""}, wrapKinds...)

	// G1: control grid. S0 = [ok X ok]; S1 = [ok L1(S0) ok Y ok]; S2 = [W? L2(S1) ok]
	// covers goto inside a jumped sequence, accept/return/reject/error inside nested
	// jumps under every wrapper kind.
	for _, x := range ts {
		for _, l1 := range []string{"jump", "goto"} {
			for _, y := range ts {
				for _, w := range wraps {
					for _, l2 := range []string{"jump", "goto"} {
						s0 := cat(ok, x.rules, ok)
						s1 := cat(ok, []lrule{actRule(laction{op: l1, target: 0})}, ok, y.rules, ok)
						var s2 []lrule
						if w != "" {
							s2 = append(s2, actRule(laction{op: "wrap", kind: w}))
						}
						s2 = append(s2, actRule(laction{op: l2, target: 1}), okRule())
						out = append(out, &lprog{
							origin: fmt.Sprintf("G1 x=%s l1=%s y=%s w=%s l2=%s", x.name, l1, y.name, w, l2),
							seqs:   [][]lrule{s0, s1, s2},
						})
					}
				}
			}
		}
	}

	// G2: wrapper inside the callee: its continuation contains pending jump returns
	// (one or two levels). S0 = [ok W ok X ok]; S1 = [L1(S0) ok Y]; S2 = [jump S1, ok]
	for _, w := range wrapKinds {
		for _, x := range ts {
			for _, l1 := range []string{"jump", "goto"} {
				for _, y := range ts[:4] {
					s0 := cat(ok, []lrule{actRule(laction{op: "wrap", kind: w})}, ok, x.rules, ok)
					s1 := cat([]lrule{actRule(laction{op: l1, target: 0})}, ok, y.rules)
					s2 := []lrule{actRule(laction{op: "jump", target: 1}), okRule()}
					out = append(out, &lprog{
						origin: fmt.Sprintf("G2 w=%s x=%s l1=%s y=%s", w, x.name, l1, y.name),
						seqs:   [][]lrule{s0, s1, s2},
					})
				}
			}
		}
	}

	// G3: every matcher tuple of length 0..3 over 12 forms (error in the k-th
	// matcher, short-circuit, negation of true/false/error/builtin).
	var tuples [][]lmatch
	tuples = append(tuples, nil)
	for _, a := range matcherForms {
		tuples = append(tuples, []lmatch{a})
		for _, b := range matcherForms {
			tuples = append(tuples, []lmatch{a, b})
			for _, c := range matcherForms {
				tuples = append(tuples, []lmatch{a, b, c})
			}
		}
	}
	for i, tu := range tuples {
		s0 := []lrule{
			{ms: tu, act: laction{op: "plain", kind: "set"}},
			{ms: tu, act: laction{op: "plain", kind: "ok"}},
			okRule(),
		}
		out = append(out, &lprog{origin: fmt.Sprintf("G3 tuple#%d", i), seqs: [][]lrule{s0}})
	}

	// G4: nesting depth 1..6, wrapper at level k, bottom terminator.
	for d := 1; d <= 6; d++ {
		for _, z := range ts[:6] {
			for _, w := range []string{"post", "twice", "conc", "postset", "later3", "lategc"} {
				for k := 0; k <= d; k++ {
					var seqs [][]lrule
					for lvl := 0; lvl <= d; lvl++ {
						var s []lrule
						s = append(s, okRule())
						if lvl == k {
							s = append(s, actRule(laction{op: "wrap", kind: w}))
						}
						if lvl == 0 {
							s = append(s, z.rules...)
							s = append(s, okRule())
						} else {
							s = append(s, actRule(laction{op: "jump", target: lvl - 1}), okRule())
						}
						seqs = append(seqs, s)
					}
					out = append(out, &lprog{origin: fmt.Sprintf("G4 depth=%d z=%s w=%s k=%d", d, z.name, w, k), seqs: seqs})
				}
			}
		}
	}

	// G5: top-level return / accept / reject at every position, taken or skipped.
	for _, op := range []laction{{op: "return"}, {op: "accept"}, {op: "reject"}, {op: "reject", rcode: "2"}, {op: "wrap", kind: "stop"}, {op: "wrap", kind: "zero"}} {
		for before := 0; before <= 2; before++ {
			for after := 0; after <= 2; after++ {
				for _, ms := range [][]lmatch{nil, {{kind: "T"}}, {{kind: "F"}}, {{neg: true, kind: "F"}}, {{neg: true, kind: "T"}}, {{kind: "_true"}, {neg: true, kind: "_false"}}} {
					var s []lrule
					for i := 0; i < before; i++ {
						s = append(s, okRule())
					}
					s = append(s, lrule{ms: ms, act: op})
					for i := 0; i < after; i++ {
						s = append(s, okRule())
					}
					out = append(out, &lprog{origin: fmt.Sprintf("G5 %s%s b=%d a=%d m=%d", op.op, op.kind, before, after, len(ms)), seqs: [][]lrule{s}})
				}
			}
		}
	}

	// G6: two wrappers stacked (outer x inner) around a jump that returns.
	for _, wo := range wrapKinds {
		for _, wi := range wrapKinds {
			for _, z := range ts[:5] {
				s0 := cat(ok, z.rules, ok)
				s1 := []lrule{actRule(laction{op: "wrap", kind: wi}), actRule(laction{op: "jump", target: 0}), okRule()}
				s2 := []lrule{actRule(laction{op: "wrap", kind: wo}), actRule(laction{op: "jump", target: 1}), {ms: []lmatch{{kind: "H"}}, act: laction{op: "plain", kind: "ok"}}}
				out = append(out, &lprog{origin: fmt.Sprintf("G6 outer=%s inner=%s z=%s", wo, wi, z.name), seqs: [][]lrule{s0, s1, s2}})
			}
		}
	}
	return out
}
