package main

// Replace family: several responders run one after the other on ONE query
// context, so that the response is set, replaced and dropped several times
// before the reply goes out:
//   - harness upstreams up0..up3 that always query (like forward does, whatever
//     R() holds) and answer per script: reply with an OPT holding origin-tagged
//     options / reply without OPT / error / no response,
//   - mosdns' own local responders: black_hole, reject, arbitrary, hosts,
//   - drop_resp, and a cache wrapped around the remaining steps (a hit replaces
//     what an earlier upstream set),
// each optionally guarded by a matcher (has_resp, !has_resp, qtype ...). The
// option forwarders (forward_edns0opt, ecs_handler forward) sit in front of all
// of them, a second forward_edns0opt optionally between two steps.
// Oracle = the branch family's: the reply names the exchange it relays in its
// origin TXT record (none: local / handler-made; other case: cached); every
// option in the client reply must be an option of exactly that exchange of this
// very case, named by a forwarder. Options of an upstream reply that was
// replaced or dropped belong to no answer the client gets.

import (
	"fmt"
	"math/rand"
	"sort"
	"strings"

	"github.com/IrineSistiana/mosdns/v5/plugin/executable/arbitrary"
	_ "github.com/IrineSistiana/mosdns/v5/plugin/executable/black_hole"
	"github.com/IrineSistiana/mosdns/v5/plugin/executable/cache"
	"github.com/IrineSistiana/mosdns/v5/plugin/executable/hosts"
	"github.com/IrineSistiana/mosdns/v5/plugin/executable/sequence"

	"verifharness/lib/wire"
)

const replaceIdxBase = 300000

// rstep is one responder of a replace chain.
type rstep struct {
	Kind  string `json:"kind"`            // up | black_hole | reject | arbitrary | hosts | drop_resp | cache
	Up    int    `json:"up"`              // Kind up: which harness upstream
	Guard string `json:"guard,omitempty"` // matcher text in front of the step
}

func (s *rstep) sig() string {
	k := s.Kind
	if k == "up" {
		k = fmt.Sprintf("up%d", s.Up)
	}
	if s.Guard != "" {
		return "[" + s.Guard + "]" + k
	}
	return k
}

func (b *branchDesc) replaceSig() string {
	var ss []string
	for i := range b.Steps {
		if b.OuterFwd && b.SecondFwdAt == i {
			ss = append(ss, "fo")
		}
		ss = append(ss, b.Steps[i].sig())
	}
	s := fmt.Sprintf("replace:fo%v", b.FwdCodes)
	if b.EcsForward {
		s += ">ehF"
	}
	s += ">" + strings.Join(ss, ">")
	if b.PostTTL != "" {
		s += ">ttl" + b.PostTTL
	}
	return s
}

func replaceNames(idx int) []string {
	names := make([]string, 8)
	for i := range names {
		names[i] = fmt.Sprintf("b%d.c%d.c15.test.", i, idx)
	}
	return names
}

func genReplaceChain(r *rand.Rand, seed int64, idx, ncases int) *chainDesc {
	b := &branchDesc{Kind: "replace"}
	n := 1 + r.Intn(2)
	seen := map[uint16]bool{}
	for i := 0; i < n; i++ {
		k := branchCodes[r.Intn(len(branchCodes))]
		if !seen[k] {
			seen[k] = true
			b.FwdCodes = append(b.FwdCodes, k)
		}
	}
	sort.Slice(b.FwdCodes, func(i, j int) bool { return b.FwdCodes[i] < b.FwdCodes[j] })
	b.EcsForward = r.Intn(3) == 0
	if r.Intn(4) == 0 {
		b.PostTTL = []string{"17", "5-10", "0-20"}[r.Intn(3)]
	}
	guards := []string{"", "", "", "", "", "!has_resp", "!has_resp", "has_resp", "qtype 1", "!qtype 16", "qtype 28 16"}
	nSteps := 2 + r.Intn(3)
	nUp, haveCache := 0, false
	for i := 0; i < nSteps; i++ {
		st := rstep{Guard: guards[r.Intn(len(guards))]}
		k := r.Intn(100)
		switch {
		case i == 0 && k < 70, k < 40:
			st.Kind = "up"
		case k < 54:
			st.Kind = "black_hole"
		case k < 62:
			st.Kind = "reject"
			if r.Intn(4) != 0 { // an unguarded reject ends every case there
				st.Guard = []string{"has_resp", "qtype 16", "qtype 28", "!has_resp"}[r.Intn(4)]
			}
		case k < 71:
			st.Kind = "arbitrary"
		case k < 80:
			st.Kind = "hosts"
		case k < 88:
			st.Kind = "drop_resp"
		default:
			st.Kind = "cache"
			if haveCache || i == nSteps-1 {
				st.Kind = "up"
			}
		}
		if st.Kind == "up" {
			if nUp == 4 {
				st.Kind = "black_hole"
			} else {
				st.Up = nUp
				nUp++
			}
		}
		if st.Kind == "cache" {
			haveCache = true
			st.Guard = "" // a guarded recursive plugin would skip the rest with it
		}
		b.Steps = append(b.Steps, st)
	}
	if nUp == 0 {
		b.Steps[0] = rstep{Kind: "up", Up: 0}
	}
	haveCache = false
	for _, st := range b.Steps {
		if st.Kind == "cache" {
			haveCache = true
		}
	}
	if r.Intn(3) == 0 {
		b.OuterFwd = true
		b.SecondFwdAt = 1 + r.Intn(len(b.Steps)-1)
	}
	ch := &chainDesc{Idx: idx, Seed: seed, NCases: ncases, Branch: b, TermMode: "always"}
	if haveCache {
		ch.Pre = []elem{{Kind: "cache", Tag: "cacher", Rule: "$cacher"}} // for the dump oracle
	}
	return ch
}

// genReplaceScript scripts every harness upstream of the chain for this case.
func genReplaceScript(r *rand.Rand, b *branchDesc, c *clientCase, ok func() bScript, fail func() bScript) {
	for _, st := range b.Steps {
		if st.Kind != "up" {
			continue
		}
		s := ok()
		s.NoOpt = r.Intn(3) == 0 // upstreams that do not speak EDNS0 are common here
		if s.NoOpt {
			s.Codes = nil
		}
		switch v := r.Intn(20); {
		case v == 0:
			s = fail()
			s.Fail = "error"
		case v < 3:
			s = fail()
			s.Fail = "noresp"
		}
		c.Script[fmt.Sprintf("up%d/%d", st.Up, c.Qtype)] = s
	}
}

// buildReplaceRules builds the rule list of a replace chain.
func (cr *chainRun) buildReplaceRules(plugins map[string]any, newPlugin func(typ, tag string, fill func(args any)) error, fwdRule string) ([]sequence.RuleArgs, error) {
	b := cr.desc.Branch
	names := replaceNames(cr.desc.Idx)
	rules := []sequence.RuleArgs{{Exec: "$probe"}, {Exec: fwdRule}}
	if b.EcsForward {
		rules = append(rules, sequence.RuleArgs{Exec: "$becs"})
	}
	for i := range b.Steps {
		st := &b.Steps[i]
		if b.OuterFwd && b.SecondFwdAt == i {
			rules = append(rules, sequence.RuleArgs{Exec: fwdRule})
		}
		ra := sequence.RuleArgs{}
		if st.Guard != "" {
			ra.Matches = []string{st.Guard}
		}
		switch st.Kind {
		case "up":
			tag := fmt.Sprintf("bterm_up%d", st.Up)
			plugins[tag] = &bterm{cr: cr, branch: fmt.Sprintf("up%d", st.Up), always: true}
			ra.Exec = "$" + tag
		case "black_hole":
			ra.Exec = "black_hole 192.0.2.66 2001:db8::66"
		case "reject":
			ra.Exec = "reject 3"
		case "drop_resp":
			ra.Exec = "drop_resp"
		case "arbitrary":
			tag := fmt.Sprintf("arb%d", i)
			if err := newPlugin("arbitrary", tag, func(a any) {
				aa := a.(*arbitrary.Args)
				for _, n := range []string{names[0], names[1], names[4]} {
					aa.Rules = append(aa.Rules, n+" 300 IN A 192.0.2.55", n+" 300 IN TXT \"local arbitrary\"")
				}
				aa.Rules = append(aa.Rules, names[5]+" 300 IN AAAA 2001:db8::55")
			}); err != nil {
				return nil, err
			}
			ra.Exec = "$" + tag
		case "hosts":
			tag := fmt.Sprintf("hosts%d", i)
			if err := newPlugin("hosts", tag, func(a any) {
				ha := a.(*hosts.Args)
				for _, n := range []string{names[2], names[3], names[4]} {
					ha.Entries = append(ha.Entries, "full:"+strings.TrimSuffix(n, ".")+" 192.0.2.33 2001:db8::33")
				}
				ha.Entries = append(ha.Entries, "full:"+strings.TrimSuffix(names[6], ".")+" 192.0.2.34")
			}); err != nil {
				return nil, err
			}
			ra.Exec = "$" + tag
		case "cache":
			if err := newPlugin("cache", "cacher", func(a any) { a.(*cache.Args).Size = 4096 }); err != nil {
				return nil, err
			}
			ra.Exec = "$cacher"
		default:
			return nil, fmt.Errorf("unknown replace step %q", st.Kind)
		}
		rules = append(rules, ra)
	}
	return rules, nil
}

// replaceEvidence records what the replace chain actually went through for
// this case: which kind of answer went out, and whether an upstream reply whose
// options a forwarder names had been set on the context and then replaced.
func (cr *chainRun) replaceEvidence(run *caseRun, reply []byte) {
	c := run.c
	rep.Count("replace_cases", 1)
	if reply == nil {
		return
	}
	m, err := wire.Parse(reply)
	if err != nil {
		return
	}
	run.mu.Lock()
	exch := append([]exchange(nil), run.exch...)
	failSeen := run.failSeen
	run.mu.Unlock()
	rseq, rcase, _, _, haveOrigin := relayedOrigin(m)
	final := "local"
	switch {
	case haveOrigin && rcase != c.Idx:
		final = "cached"
	case haveOrigin:
		final = "upstream-without-opt"
		for _, e := range exch {
			if e.Seq == rseq && len(e.Options) > 0 {
				final = "upstream-with-options"
			}
		}
	case failSeen == "error" && m.Rcode() == 2:
		final = "handler-servfail"
	case m.Rcode() == 5:
		final = "handler-refused"
	}
	rep.Count("replace_final:"+final, 1)
	rep.Count(fmt.Sprintf("replace_upstream_replies_set_on_one_context:%d", len(exch)), 1)
	if c.Opt == nil {
		return
	}
	named := cr.desc.namedDown(codeSet(c.Opt.Options)[8])
	discarded := false
	for _, e := range exch {
		if haveOrigin && rcase == c.Idx && e.Seq == rseq {
			continue
		}
		for _, x := range e.Options {
			if named[x.Code] {
				discarded = true
			}
		}
	}
	if discarded {
		rep.Count("replace_discarded_reply_had_forwardable_options:then-"+final, 1)
	}
}
