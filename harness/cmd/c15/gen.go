package main

import (
	"encoding/binary"
	"fmt"
	"math/rand"
	"net/netip"
	"sort"
	"strings"

	"verifharness/lib/wire"
)

// ---- descriptors (all JSON-able: they are the replay case) ----

// optSpec describes one OPT pseudo-record as it is put on the wire.
type optSpec struct {
	NonRootOwner bool          `json:"non_root_owner,omitempty"`
	Size         uint16        `json:"size"`
	ExtRcode     uint8         `json:"ext_rcode"`
	Version      uint8         `json:"version"`
	DO           bool          `json:"do"`
	Z            uint16        `json:"z"`
	Options      []wire.Option `json:"options"`
}

func (o *optSpec) ttl() uint32 {
	t := uint32(o.ExtRcode)<<24 | uint32(o.Version)<<16 | uint32(o.Z&0x7FFF)
	if o.DO {
		t |= 0x8000
	}
	return t
}

func (o *optSpec) codes() []uint16 {
	var c []uint16
	for _, x := range o.Options {
		c = append(c, x.Code)
	}
	return c
}

func (o *optSpec) rdata() []byte {
	var rd []byte
	for _, x := range o.Options {
		rd = binary.BigEndian.AppendUint16(rd, x.Code)
		rd = binary.BigEndian.AppendUint16(rd, uint16(len(x.Data)))
		rd = append(rd, x.Data...)
	}
	return rd
}

func (o *optSpec) appendTo(b *wire.Builder) {
	owner := []byte{0}
	if o.NonRootOwner {
		owner = wire.EncodeName("opt.invalid.")
	}
	b.RR(2, owner, 41, o.Size, o.ttl(), o.rdata())
}

// upSpec describes the reply the harness upstream gives for a case.
type upSpec struct {
	Rcode  int       `json:"rcode"` // low 4 bits
	NAns   int       `json:"n_answers"`
	TTL    uint32    `json:"ttl"`
	SOA    bool      `json:"soa_in_authority"`
	Glue   int       `json:"glue_rrs"` // non-OPT additional records
	OptPos int       `json:"opt_pos"`  // index among the additional records where the OPT(s) go
	Opts   []optSpec `json:"opts"`     // 0, 1 or (hostile class) 2 OPT records
	TC     bool      `json:"tc,omitempty"`
	// Fail: the upstream exchange does not produce a response: "error" (the
	// terminal returns an error), "noresp" (returns nil without a response),
	// "timeout" (blocks until the client's context is cancelled).
	Fail string `json:"fail,omitempty"`
	// EchoECS: the upstream echoes the ECS option(s) of the query it received
	// (scope = source mask) in its OPT, like an ECS-aware resolver.
	EchoECS bool   `json:"echo_ecs,omitempty"`
	GlueTTL uint32 `json:"glue_ttl"`
}

func (u *upSpec) extRcode() uint8 {
	// miekg/dns folds the extended rcode of the *last* OPT of the additional
	// section into Msg.Rcode; the oracle only needs "which values may appear".
	if len(u.Opts) == 0 {
		return 0
	}
	return u.Opts[len(u.Opts)-1].ExtRcode
}

// clientCase is one client query plus the upstream behaviour scripted for it.
type clientCase struct {
	Idx        int      `json:"idx"`
	Phase      int      `json:"phase"`
	Name       string   `json:"name"`
	Qtype      uint16   `json:"qtype"`
	Qclass     uint16   `json:"qclass"`
	ID         uint16   `json:"id"`
	Flags      uint16   `json:"flags"`
	Opt        *optSpec `json:"client_opt"` // nil = no OPT
	ExtraRR    bool     `json:"extra_non_opt_rr,omitempty"`
	FromUDP    bool     `json:"from_udp"`
	ClientAddr string   `json:"client_addr"` // "" = invalid
	Up         upSpec   `json:"upstream"`
	// Inject: OPT record the harness plugin $inject appends in place to
	// qCtx.R().Extra right after the terminal (nil = nothing injected).
	Inject *optSpec `json:"harness_injected_opt,omitempty"`
	// Script: branch family only - what each branch's upstream does per qtype.
	Script map[string]bScript `json:"branch_script,omitempty"`
	// Additional: when non-nil, the client's additional section is exactly this
	// record list (0..4 records: OPTs in any position mixed with other RRs).
	// Opt then points at the single OPT of the list, or is nil when the list
	// holds none or several (see clientOpts).
	Additional []extraRec `json:"client_additional,omitempty"`
}

// extraRec is one record of a generated client additional section.
type extraRec struct {
	Opt  *optSpec `json:"opt,omitempty"`
	Kind string   `json:"kind,omitempty"` // non-OPT record: a | txt | unknown
}

// clientOpts returns every OPT record the client put into its query.
func (c *clientCase) clientOpts() []*optSpec {
	if c.Additional != nil {
		var out []*optSpec
		for _, e := range c.Additional {
			if e.Opt != nil {
				out = append(out, e.Opt)
			}
		}
		return out
	}
	if c.Opt != nil {
		return []*optSpec{c.Opt}
	}
	return nil
}

// additionalShape renders the additional section as a string: O = OPT,
// A / T / U = other record, "-" = empty.
func (c *clientCase) additionalShape() string {
	if c.Additional == nil {
		switch {
		case c.Opt != nil:
			return "O"
		case c.ExtraRR:
			return "A"
		}
		return "-"
	}
	s := ""
	for _, e := range c.Additional {
		switch {
		case e.Opt != nil:
			s += "O"
		case e.Kind == "txt":
			s += "T"
		case e.Kind == "unknown":
			s += "U"
		default:
			s += "A"
		}
	}
	if s == "" {
		return "-"
	}
	return s
}

func (c *clientCase) queryBytes() []byte {
	b := wire.NewBuilder(c.ID, c.Flags)
	b.Question(wire.EncodeName(c.Name), c.Qtype, c.Qclass)
	if c.Additional != nil {
		for i, e := range c.Additional {
			switch {
			case e.Opt != nil:
				e.Opt.appendTo(b)
			case e.Kind == "txt":
				b.RR(2, wire.EncodeName(fmt.Sprintf("extra%d.%s", i, c.Name)), 16, 1, 55, wire.TXTRdata("client additional"))
			case e.Kind == "unknown":
				b.RR(2, wire.EncodeName(fmt.Sprintf("extra%d.%s", i, c.Name)), 65280, 1, 55, []byte{1, 2, 3, byte(i)})
			default:
				b.RR(2, wire.EncodeName(fmt.Sprintf("extra%d.%s", i, c.Name)), 1, 1, 77, []byte{192, 0, 2, byte(70 + i)})
			}
		}
		return b.Bytes()
	}
	if c.Opt != nil {
		c.Opt.appendTo(b)
	} else if c.ExtraRR {
		b.RR(2, wire.EncodeName("extra."+c.Name), 1, 1, 77, []byte{192, 0, 2, 77})
	}
	return b.Bytes()
}

// replyBytes builds the scripted upstream reply for the query the upstream saw.
func (c *clientCase) replyBytes(upQuery *wire.Msg) []byte {
	u := &c.Up
	flags := uint16(0x8000) | (upQuery.Flags & 0x0100) | 0x0080 | uint16(u.Rcode&0xF)
	if u.TC {
		flags |= 0x0200
	}
	b := wire.NewBuilder(upQuery.ID, flags)
	var qn []byte
	qt, qc := uint16(1), uint16(1)
	if len(upQuery.Questions) > 0 {
		q := upQuery.Questions[0]
		qn, qt, qc = q.RawName, q.Type, q.Class
	} else {
		qn = []byte{0}
	}
	b.Question(qn, qt, qc)
	for i := 0; i < u.NAns; i++ {
		switch qt {
		case 28:
			rd := make([]byte, 16)
			rd[0], rd[1], rd[15] = 0x20, 0x01, byte(i)
			rd[14] = byte(i >> 8)
			b.RR(0, qn, 28, qc, u.TTL, rd)
		case 16:
			b.RR(0, qn, 16, qc, u.TTL, wire.TXTRdata(fmt.Sprintf("txt-%d-%s", i, strings.Repeat("x", 40))))
		default:
			b.RR(0, qn, 1, qc, u.TTL, []byte{203, 0, byte(113 + i>>8), byte(i)})
		}
	}
	if u.SOA {
		rd := append([]byte{}, wire.EncodeName("ns.invalid.")...)
		rd = append(rd, wire.EncodeName("mbox.invalid.")...)
		for _, v := range []uint32{1, 1800, 900, 604800, 60} {
			rd = binary.BigEndian.AppendUint32(rd, v)
		}
		b.RR(1, qn, 6, qc, u.TTL, rd)
	}
	opts := u.Opts
	if u.EchoECS && len(opts) > 0 {
		// like a real ECS-aware upstream: echo the ECS option of the query it
		// received, with the scope filled in, in its (last) OPT
		opts = append([]optSpec(nil), u.Opts...)
		last := opts[len(opts)-1]
		last.Options = append([]wire.Option(nil), last.Options...)
		for _, qo := range upQuery.OPTs() {
			for _, x := range qo.Options {
				if x.Code == 8 && len(x.Data) >= 4 {
					d := append([]byte(nil), x.Data...)
					d[3] = d[2]
					last.Options = append(last.Options, wire.Option{Code: 8, Data: d})
				}
			}
		}
		opts[len(opts)-1] = last
	}
	placed := false
	for i := 0; i <= u.Glue; i++ {
		if i == u.OptPos {
			for k := range opts {
				opts[k].appendTo(b)
			}
			placed = true
		}
		if i < u.Glue {
			b.RR(2, wire.EncodeName(fmt.Sprintf("glue%d.invalid.", i)), 1, 1, u.GlueTTL, []byte{198, 51, 100, byte(i)})
		}
	}
	if !placed {
		for k := range opts {
			opts[k].appendTo(b)
		}
	}
	return b.Bytes()
}

// ---- chain descriptors ----

type elem struct {
	Kind    string   `json:"kind"` // fwd_opt cache cache_quick accept_if_resp ttl ecs ecs_handler reject_txt term fwd
	Tag     string   `json:"tag,omitempty"`
	Codes   []uint16 `json:"codes,omitempty"`
	Lazy    int      `json:"lazy_cache_ttl,omitempty"`
	TTLSpec string   `json:"ttl,omitempty"`
	Preset  string   `json:"preset,omitempty"`
	Forward bool     `json:"forward,omitempty"`
	Send    bool     `json:"send,omitempty"`
	Mask4   int      `json:"mask4,omitempty"`
	Mask6   int      `json:"mask6,omitempty"`
	OldMask bool     `json:"old_mask_syntax,omitempty"`
	Rule    string   `json:"rule"` // the sequence rule text handed to mosdns
}

type chainDesc struct {
	Idx         int    `json:"idx"`
	Seed        int64  `json:"seed"`
	NCases      int    `json:"n_cases"`
	Pre         []elem `json:"pre"`
	Post        []elem `json:"post"`
	TermMode    string `json:"term_mode"` // guard | always
	RealForward bool   `json:"real_forward"`
	FwdQuick    bool   `json:"fwd_quick_setup,omitempty"`
	MultiOpt    bool   `json:"upstream_multi_opt_class"` // hostile upstream: replies may carry two OPT records
	Inject      bool   `json:"inject_plugin_after_terminal"`
	// Branch != nil: chain of the branch family (see branch.go); Pre/Post unused.
	Branch *branchDesc `json:"branch,omitempty"`
}

func (c *chainDesc) hasCache() bool {
	for _, e := range c.Pre {
		if e.Kind == "cache" || e.Kind == "cache_quick" {
			return true
		}
	}
	return false
}

func (c *chainDesc) hasLazy() bool {
	for _, e := range c.Pre {
		if e.Kind == "cache" && e.Lazy > 0 {
			return true
		}
	}
	return false
}

// shape is a short signature of the chain used in fingerprints.
func (c *chainDesc) shape() string {
	var s []string
	for _, e := range c.Pre {
		s = append(s, e.sig())
	}
	if c.RealForward {
		s = append(s, "FWD")
	} else {
		s = append(s, "TERM:"+c.TermMode)
	}
	if c.Inject {
		s = append(s, "INJ")
	}
	for _, e := range c.Post {
		s = append(s, e.sig())
	}
	return strings.Join(s, ">")
}

func (e *elem) sig() string {
	switch e.Kind {
	case "fwd_opt":
		return fmt.Sprintf("fo%v", e.Codes)
	case "cache":
		if e.Lazy > 0 {
			return "cacheL"
		}
		return "cache"
	case "ecs_handler":
		s := "eh"
		if e.Forward {
			s += "F"
		}
		if e.Send {
			s += "S"
		}
		if e.Preset != "" {
			s += "P"
		}
		return s
	case "ttl":
		return "ttl" + e.TTLSpec
	}
	return e.Kind
}

// ---- structured "allowed" sets, derived from the description we generated ----

// namedUp returns the option codes that a forwarding plugin positioned before
// the terminal names for the client->upstream direction.
func (c *chainDesc) namedUp() map[uint16]bool {
	if c.Branch != nil {
		return c.Branch.named()
	}
	m := map[uint16]bool{}
	for _, e := range c.Pre {
		switch e.Kind {
		case "fwd_opt":
			for _, k := range e.Codes {
				m[k] = true
			}
		case "ecs_handler":
			if e.Forward {
				m[8] = true
			}
		}
	}
	return m
}

// namedDown: codes that a forwarding plugin anywhere in the chain names for the
// upstream->client direction (forward_edns0opt copies on the way back even when
// it sits after the terminal; ecs_handler forward copies the upstream's ECS).
//
// ecs_handler hands the upstream's ECS back only for a client whose own ECS it
// forwarded: code 8 is named by it only when the client sent an ECS
// (generating one from preset / send is not forwarding).
func (c *chainDesc) namedDown(clientHasECS bool) map[uint16]bool {
	if c.Branch != nil {
		m := c.Branch.named()
		if !clientHasECS && c.Branch.EcsForward {
			delete(m, 8)
		}
		return m
	}
	m := map[uint16]bool{}
	for _, l := range [][]elem{c.Pre, c.Post} {
		for _, e := range l {
			switch e.Kind {
			case "fwd_opt":
				for _, k := range e.Codes {
					m[k] = true
				}
			case "ecs_handler":
				if e.Forward && clientHasECS {
					m[8] = true
				}
			}
		}
	}
	return m
}

// ecsNorm is an ECS option reduced to what survives a decode/encode cycle.
type ecsNorm struct {
	Family uint16
	Mask   uint8
	Scope  uint8
	Prefix string // hex of the masked address bytes, ceil(mask/8) of them
}

func normECS(d []byte) (ecsNorm, bool) {
	if len(d) < 4 {
		return ecsNorm{}, false
	}
	n := ecsNorm{Family: binary.BigEndian.Uint16(d), Mask: d[2], Scope: d[3]}
	full := 0
	switch n.Family {
	case 1:
		full = 4
	case 2:
		full = 16
	case 0:
		return n, true
	default:
		return n, false
	}
	addr := make([]byte, full)
	copy(addr, d[4:])
	need := (int(n.Mask) + 7) / 8
	if need > full {
		return n, false
	}
	for i := 0; i < full; i++ {
		bits := int(n.Mask) - i*8
		switch {
		case bits >= 8:
		case bits <= 0:
			addr[i] = 0
		default:
			addr[i] &= ^byte(0xFF >> bits)
		}
	}
	n.Prefix = fmt.Sprintf("%x", addr[:need])
	return n, true
}

func genECSFor(addr netip.Addr, mask4, mask6 int) ecsNorm {
	addr = addr.Unmap()
	if mask4 == 0 {
		mask4 = 24
	}
	if mask6 == 0 {
		mask6 = 48
	}
	var d []byte
	if addr.Is4() {
		d = []byte{0, 1, byte(mask4), 0}
	} else {
		d = []byte{0, 2, byte(mask6), 0}
	}
	d = append(d, addr.AsSlice()...)
	n, _ := normECS(d)
	return n
}

// generatedECS lists every ECS option an ECS-generating plugin before the
// terminal may legitimately add for this client.
func (c *chainDesc) generatedECS(clientAddr string) []ecsNorm {
	var out []ecsNorm
	if c.Branch != nil {
		return nil // no ECS generator in branch chains
	}
	for _, e := range c.Pre {
		if e.Kind != "ecs" && e.Kind != "ecs_handler" {
			continue
		}
		if e.Preset != "" {
			if a, err := netip.ParseAddr(e.Preset); err == nil {
				out = append(out, genECSFor(a, e.Mask4, e.Mask6))
			}
		}
		if e.Send && clientAddr != "" {
			if a, err := netip.ParseAddr(clientAddr); err == nil {
				out = append(out, genECSFor(a, e.Mask4, e.Mask6))
			}
		}
	}
	return out
}

// ---- generators ----

var interestingCodes = []uint16{8, 10, 12, 3, 15, 11, 65001, 65002, 20000, 5}

func genOption(r *rand.Rand, code uint16, fromUpstream bool) wire.Option {
	switch code {
	case 8:
		var d []byte
		scope := byte(0)
		if fromUpstream || r.Intn(6) == 0 {
			scope = byte(r.Intn(25))
		}
		if r.Intn(2) == 0 { // v4; first byte 10 => never equal to a generated ECS
			mask := []int{0, 8, 16, 24, 32, 17, 25}[r.Intn(7)]
			d = []byte{0, 1, byte(mask), scope}
			a := []byte{10, byte(r.Intn(256)), byte(r.Intn(256)), byte(1 + r.Intn(250))}
			d = append(d, a[:(mask+7)/8]...)
			if r.Intn(8) == 0 { // un-normalised: full address although the mask is short
				d = append(d[:4], a...)
			}
		} else {
			mask := []int{0, 32, 48, 56, 64, 128, 61}[r.Intn(7)]
			if scope > 0 {
				scope = byte(r.Intn(65))
			}
			d = []byte{0, 2, byte(mask), scope}
			a := make([]byte, 16)
			a[0], a[1] = 0xfd, byte(r.Intn(256))
			for i := 2; i < 16; i++ {
				a[i] = byte(r.Intn(256))
			}
			d = append(d, a[:(mask+7)/8]...)
		}
		return wire.Option{Code: 8, Data: d}
	case 10:
		n := 8
		if fromUpstream || r.Intn(3) == 0 {
			n = 16 + r.Intn(17)
		}
		d := make([]byte, n)
		r.Read(d)
		return wire.Option{Code: 10, Data: d}
	case 12:
		return wire.Option{Code: 12, Data: make([]byte, r.Intn(48))}
	case 3:
		if !fromUpstream || r.Intn(4) == 0 {
			return wire.Option{Code: 3, Data: []byte{}}
		}
		return wire.Option{Code: 3, Data: []byte("ns-" + fmt.Sprint(r.Intn(100)))}
	case 15:
		return wire.Option{Code: 15, Data: append([]byte{0, byte(r.Intn(25))}, []byte("ede text")[:r.Intn(9)]...)}
	case 11:
		if r.Intn(2) == 0 {
			return wire.Option{Code: 11, Data: []byte{}}
		}
		return wire.Option{Code: 11, Data: []byte{0, byte(r.Intn(200))}}
	case 5:
		d := make([]byte, r.Intn(4))
		r.Read(d)
		return wire.Option{Code: 5, Data: d}
	default:
		d := make([]byte, r.Intn(12))
		r.Read(d)
		return wire.Option{Code: code, Data: d}
	}
}

func genOptions(r *rand.Rand, fromUpstream bool) []wire.Option {
	var out []wire.Option
	switch r.Intn(10) {
	case 0, 1: // empty list
		return []wire.Option{}
	case 2: // many, with duplicates
		n := 3 + r.Intn(5)
		for i := 0; i < n; i++ {
			out = append(out, genOption(r, interestingCodes[r.Intn(len(interestingCodes))], fromUpstream))
		}
		out = append(out, out[r.Intn(len(out))]) // exact duplicate
	default:
		n := 1 + r.Intn(3)
		for i := 0; i < n; i++ {
			code := interestingCodes[r.Intn(len(interestingCodes))]
			if r.Intn(12) == 0 {
				code = uint16(16 + r.Intn(60000))
			}
			out = append(out, genOption(r, code, fromUpstream))
		}
	}
	return out
}

var clientSizes = []uint16{0, 100, 511, 512, 513, 1232, 1452, 4096, 65535}

func genClientOpt(r *rand.Rand) *optSpec {
	if r.Intn(4) == 0 {
		return nil
	}
	o := &optSpec{Size: clientSizes[r.Intn(len(clientSizes))], DO: r.Intn(2) == 0}
	if r.Intn(5) == 0 {
		o.Size = uint16(513 + r.Intn(3000))
		if o.Size == 1200 {
			o.Size = 1201
		}
	}
	if r.Intn(4) == 0 {
		o.Version = uint8(1 + r.Intn(255))
	}
	if r.Intn(4) == 0 {
		o.Z = uint16(1 + r.Intn(0x7FFF))
	}
	if r.Intn(6) == 0 {
		o.ExtRcode = uint8(1 + r.Intn(255))
	}
	if r.Intn(20) == 0 {
		o.NonRootOwner = true
	}
	o.Options = genOptions(r, false)
	return o
}

func genUpOpt(r *rand.Rand, distinctive bool) optSpec {
	o := optSpec{Size: []uint16{512, 1232, 4096, 0, 65535}[r.Intn(5)], DO: r.Intn(3) == 0}
	if r.Intn(5) == 0 {
		o.Version = uint8(1 + r.Intn(255))
	}
	if r.Intn(5) == 0 {
		o.Z = uint16(1 + r.Intn(0x7FFF))
	}
	if r.Intn(8) == 0 {
		o.ExtRcode = uint8(1 + r.Intn(3)) // BADVERS.. style extended rcodes
	}
	if distinctive {
		// a TTL field no TTL rewrite can produce by accident
		o.Version = uint8(0x20 + r.Intn(0x40))
		o.Z = uint16(0x1000 + r.Intn(0x6000))
	}
	o.Options = genOptions(r, true)
	return o
}

var clientAddrs = []string{"198.51.100.23", "198.51.100.200", "2001:db8:aa:bb::17", "::ffff:203.0.113.5", ""}
var presets = []string{"203.0.113.77", "2001:db8:5:6:7::1", "::ffff:192.0.2.9", "192.0.2.130"}

func genCase(r *rand.Rand, ch *chainDesc, idx, phase int, names []string) *clientCase {
	c := &clientCase{Idx: idx, Phase: phase, Qclass: 1, ID: uint16(r.Intn(65536))}
	c.Name = names[r.Intn(len(names))]
	c.Qtype = []uint16{1, 1, 1, 28, 16}[r.Intn(5)]
	if r.Intn(25) == 0 {
		c.Qclass = 3 // CH: ecs_handler must not add ECS
	}
	c.Flags = 0x0100
	if r.Intn(6) == 0 {
		c.Flags |= 0x0020 // AD
	}
	if r.Intn(8) == 0 {
		c.Flags |= 0x0010 // CD
	}
	c.Opt = genClientOpt(r)
	if c.Opt == nil && r.Intn(5) == 0 {
		c.ExtraRR = true
	}
	c.FromUDP = r.Intn(10) < 7
	c.ClientAddr = clientAddrs[r.Intn(len(clientAddrs))]

	u := &c.Up
	switch r.Intn(12) {
	case 0:
		u.Rcode, u.SOA = 3, true
	case 1:
		u.Rcode = 2
	case 2:
		u.Rcode, u.SOA = 0, true // NODATA
	default:
		u.NAns = 1 + r.Intn(3)
	}
	u.TTL = []uint32{1, 1, 300, 300, 86400, 2, 0, 30}[r.Intn(8)]
	if phase == 0 && ch.hasLazy() && r.Intn(2) == 0 {
		u.TTL = 1
	}
	if u.NAns > 0 && r.Intn(6) == 0 && !ch.RealForward {
		u.NAns = 40 + r.Intn(60) // large answer: truncated for small advertised sizes
	}
	if r.Intn(4) == 0 {
		u.Glue = 1 + r.Intn(3)
	}
	u.GlueTTL = []uint32{1, 300, 3600, 0x01020304}[r.Intn(4)]
	u.OptPos = r.Intn(u.Glue + 1)
	switch {
	case ch.MultiOpt && r.Intn(3) == 0:
		u.Opts = []optSpec{genUpOpt(r, true), genUpOpt(r, true)}
	case r.Intn(4) == 0:
		// no OPT in the reply
	default:
		u.Opts = []optSpec{genUpOpt(r, false)}
	}
	if !ch.RealForward && r.Intn(40) == 0 {
		u.TC = true
	}
	if len(u.Opts) > 0 && r.Intn(3) == 0 {
		u.EchoECS = true
		if r.Intn(2) == 0 { // echo only: no other ("different") ECS in the reply
			last := &u.Opts[len(u.Opts)-1]
			keep := []wire.Option{}
			for _, x := range last.Options {
				if x.Code != 8 {
					keep = append(keep, x)
				}
			}
			last.Options = keep
		}
	}
	if ch.Inject && r.Intn(3) == 0 {
		o := genUpOpt(r, true)
		c.Inject = &o
	}
	if !ch.RealForward && r.Intn(14) == 0 {
		u.Fail = []string{"error", "noresp", "timeout"}[r.Intn(3)]
	}
	return c
}

// genClientAdditional replaces the additional section of c by a generated
// record list: 0..4 records, each an OPT (own size / DO / option list, so the
// options of every OPT are distinguishable) or another RR, in any order.
func genClientAdditional(r *rand.Rand, c *clientCase) {
	n := []int{0, 1, 1, 2, 2, 2, 2, 3, 3, 3, 4}[r.Intn(11)]
	c.Additional = []extraRec{}
	c.ExtraRR = false
	pOpt := []int{3, 5, 7, 10}[r.Intn(4)] // out of 10: from mostly other RRs to OPTs only
	for i := 0; i < n; i++ {
		if r.Intn(10) < pOpt {
			o := genClientOpt(r)
			for o == nil {
				o = genClientOpt(r)
			}
			if len(o.Options) == 0 || r.Intn(2) == 0 {
				// make sure most OPTs carry something recognisable
				o.Options = append(o.Options, genOption(r, []uint16{10, 8, 12, 65001, 3}[r.Intn(5)], false))
			}
			c.Additional = append(c.Additional, extraRec{Opt: o})
		} else {
			c.Additional = append(c.Additional, extraRec{Kind: []string{"a", "a", "txt", "unknown"}[r.Intn(4)]})
		}
	}
	c.Opt = nil
	if o := c.clientOpts(); len(o) == 1 {
		c.Opt = o[0]
	}
}

func pickCodes(r *rand.Rand) []uint16 {
	n := 1 + r.Intn(4)
	seen := map[uint16]bool{}
	var out []uint16
	for i := 0; i < n; i++ {
		k := interestingCodes[r.Intn(len(interestingCodes))]
		if !seen[k] {
			seen[k] = true
			out = append(out, k)
		}
	}
	sort.Slice(out, func(i, j int) bool { return out[i] < out[j] })
	return out
}

func genChain(seed int64, idx, ncases int, realForward bool, multiOpt bool) *chainDesc {
	r := rand.New(rand.NewSource(seed*1000003 + int64(idx)*7919 + 11))
	ch := &chainDesc{Idx: idx, Seed: seed, NCases: ncases, RealForward: realForward, MultiOpt: multiOpt}
	ch.TermMode = []string{"guard", "guard", "always"}[r.Intn(3)]
	if realForward {
		ch.TermMode = "always"
		ch.FwdQuick = r.Intn(2) == 0
	}
	var pool []elem
	nCache, nEH := 0, 0
	add := func(e elem) { pool = append(pool, e) }
	if r.Intn(10) < 7 {
		add(elem{Kind: "fwd_opt", Codes: pickCodes(r)})
	}
	if r.Intn(5) == 0 {
		add(elem{Kind: "fwd_opt", Codes: pickCodes(r)})
	}
	if r.Intn(10) < 8 {
		e := elem{Kind: "cache", Tag: fmt.Sprintf("cache%d", nCache)}
		nCache++
		if !realForward && r.Intn(2) == 0 {
			e.Lazy = 3600
		}
		add(e)
	}
	if r.Intn(6) == 0 {
		add(elem{Kind: "cache_quick"})
	}
	if r.Intn(10) < 6 {
		add(elem{Kind: "ttl", TTLSpec: []string{"17", "5-10", "600-0", "0-20", "3000-4000"}[r.Intn(5)]})
	}
	if r.Intn(3) == 0 {
		e := elem{Kind: "ecs", Preset: []string{"", presets[0], presets[1], presets[2]}[r.Intn(4)]}
		e.OldMask = e.Preset != "" && r.Intn(3) == 0
		add(e)
	}
	for k := 0; k < 2; k++ {
		if r.Intn(10) < 5 {
			e := elem{Kind: "ecs_handler", Tag: fmt.Sprintf("ecsh%d", nEH)}
			nEH++
			// all combinations forward x send x preset{none, v4, v6 (incl. v4-mapped)}
			combo := r.Intn(12)
			e.Forward = combo&1 != 0
			e.Send = combo&2 != 0
			switch combo >> 2 {
			case 1:
				e.Preset = []string{presets[0], presets[3]}[r.Intn(2)]
			case 2:
				e.Preset = []string{presets[1], presets[2]}[r.Intn(2)]
			}
			e.Mask4 = []int{0, 8, 24, 32, 17}[r.Intn(5)]
			e.Mask6 = []int{0, 32, 56, 128, 61}[r.Intn(5)]
			add(e)
		}
	}
	if r.Intn(5) == 0 {
		add(elem{Kind: "reject_txt"})
	}
	r.Shuffle(len(pool), func(i, j int) { pool[i], pool[j] = pool[j], pool[i] })
	// a few forwarding / ttl elements may sit after the terminal
	for _, e := range pool {
		if (e.Kind == "ttl" || e.Kind == "fwd_opt") && r.Intn(4) == 0 {
			ch.Post = append(ch.Post, e)
			continue
		}
		ch.Pre = append(ch.Pre, e)
		if (e.Kind == "cache" || e.Kind == "cache_quick") && r.Intn(2) == 0 {
			ch.Pre = append(ch.Pre, elem{Kind: "accept_if_resp"})
		}
	}
	if r.Intn(3) == 0 {
		ch.Post = append(ch.Post, elem{Kind: "ttl", TTLSpec: []string{"9", "60-120", "0-3"}[r.Intn(3)]})
	}
	if r.Intn(6) == 0 {
		// AAAA queries end without any response: the handler answers REFUSED itself
		ch.Post = append(ch.Post, elem{Kind: "drop_resp_aaaa"})
		r.Shuffle(len(ch.Post), func(i, j int) { ch.Post[i], ch.Post[j] = ch.Post[j], ch.Post[i] })
	}
	ch.Inject = r.Intn(4) == 0
	if ch.Inject && len(ch.Post) == 0 && r.Intn(3) != 0 {
		// give the TTL helpers something to meet
		ch.Post = append(ch.Post, elem{Kind: "ttl", TTLSpec: []string{"9", "60-120", "0-3", "3000-4000"}[r.Intn(4)]})
	}
	return ch
}
