package main

import (
	"context"
	"errors"
	"fmt"
	"io"
	"net"
	"strings"
	"sync"
	"sync/atomic"

	"github.com/IrineSistiana/mosdns/v5/coremain"
	"github.com/IrineSistiana/mosdns/v5/pkg/pool"
	"github.com/IrineSistiana/mosdns/v5/pkg/query_context"
	"github.com/IrineSistiana/mosdns/v5/pkg/server_handler"
	"github.com/IrineSistiana/mosdns/v5/plugin/executable/cache"
	_ "github.com/IrineSistiana/mosdns/v5/plugin/executable/drop_resp"
	_ "github.com/IrineSistiana/mosdns/v5/plugin/executable/dual_selector"
	"github.com/IrineSistiana/mosdns/v5/plugin/executable/ecs_handler"
	fastforward "github.com/IrineSistiana/mosdns/v5/plugin/executable/forward"
	_ "github.com/IrineSistiana/mosdns/v5/plugin/executable/forward_edns0opt"
	"github.com/IrineSistiana/mosdns/v5/plugin/executable/sequence"
	_ "github.com/IrineSistiana/mosdns/v5/plugin/executable/ttl"
	_ "github.com/IrineSistiana/mosdns/v5/plugin/matcher/has_resp"
	_ "github.com/IrineSistiana/mosdns/v5/plugin/matcher/qtype"
	"github.com/miekg/dns"
	"go.uber.org/zap"

	"verifharness/lib/wire"
)

type ctxKey struct{}

// upEvent is one message the (harness) upstream received.
type upEvent struct {
	Background bool   `json:"background"`
	Via        string `json:"via"` // term | udp
	Query      []byte `json:"query"`
	Reply      []byte `json:"reply,omitempty"`
	Delivered  bool   `json:"delivered"` // the reply was parsed and handed to SetResponse
}

// caseRun is the mutable observation record of one case.
type caseRun struct {
	c  *clientCase
	mu sync.Mutex
	// terminal observations
	up             []upEvent
	hitAtTerm      bool   // terminal found a response already set (cache hit / local answer)
	hitRBytes      []byte // that response packed as it stood
	hitUpOptNonNil bool   // UpstreamOpt() != nil while a cached response was installed
	termErr        string
	injectedFg     bool   // $inject appended an OPT to R() in the foreground execution
	cancel         func() // cancels the context handed to Handle ("client gave up")
	failSeen       string // scripted failure mode the foreground terminal went through
	events         map[string]chan struct{}
	exch           []exchange // branch family: every upstream exchange of this case
}

// signal / wait: logical events inside one case (no wall clock involved).
func (cr *caseRun) ev(name string) chan struct{} {
	cr.mu.Lock()
	defer cr.mu.Unlock()
	if cr.events == nil {
		cr.events = map[string]chan struct{}{}
	}
	ch := cr.events[name]
	if ch == nil {
		ch = make(chan struct{})
		cr.events[name] = ch
	}
	return ch
}

func (cr *caseRun) signal(name string) {
	ch := cr.ev(name)
	cr.mu.Lock()
	select {
	case <-ch:
	default:
		close(ch)
	}
	cr.mu.Unlock()
}

// wait returns false if ctx ended first (watchdog; counted, never a verdict).
func (cr *caseRun) wait(ctx context.Context, name string) bool {
	select {
	case <-cr.ev(name):
		return true
	case <-ctx.Done():
		return false
	}
}

var errScripted = errors.New("harness: scripted upstream failure")

func (cr *caseRun) addUp(e upEvent) {
	cr.mu.Lock()
	cr.up = append(cr.up, e)
	cr.mu.Unlock()
}

// chainRun is a built chain plus its observation state.
type chainRun struct {
	desc    *chainDesc
	m       *coremain.Mosdns
	seq     *sequence.Sequence
	h       *server_handler.EntryHandler
	closers []io.Closer
	rules   []sequence.RuleArgs

	idmu  sync.Mutex
	byCtx map[uint32]*caseRun

	byName sync.Map // lower-case qname -> *caseRun, for the loopback UDP server (real-forward chains use one name per case)
	udp    *net.UDPConn
	wg     sync.WaitGroup

	bgEvents atomic.Int64
	xseq     atomic.Int64 // branch family: upstream exchange counter
}

// probe is the first element of every chain: it ties the query context id to
// the case (the lazy-update goroutine runs on a copy with the same id and a
// fresh context.Background()).
type probe struct{ cr *chainRun }

func (p *probe) Exec(ctx context.Context, qCtx *query_context.Context) error {
	if run, _ := ctx.Value(ctxKey{}).(*caseRun); run != nil {
		p.cr.idmu.Lock()
		p.cr.byCtx[qCtx.Id()] = run
		p.cr.idmu.Unlock()
	}
	return nil
}

// term is the terminal "upstream": it packs Q() exactly as the forward plugin
// does, records the bytes, and installs the scripted reply after decoding it
// the way forward does.
type term struct {
	cr   *chainRun
	mode string
}

func (t *term) Exec(ctx context.Context, qCtx *query_context.Context) error {
	run, _ := ctx.Value(ctxKey{}).(*caseRun)
	bg := false
	if run == nil {
		bg = true
		t.cr.idmu.Lock()
		run = t.cr.byCtx[qCtx.Id()]
		t.cr.idmu.Unlock()
		if run == nil {
			return errors.New("harness: unknown query context")
		}
		t.cr.bgEvents.Add(1)
	}
	if r := qCtx.R(); r != nil && !bg {
		run.mu.Lock()
		run.hitAtTerm = true
		if b, err := r.Pack(); err == nil {
			run.hitRBytes = b
		}
		run.hitUpOptNonNil = qCtx.UpstreamOpt() != nil
		run.mu.Unlock()
		if t.mode == "guard" {
			return nil
		}
	}
	payload, err := pool.PackBuffer(qCtx.Q())
	if err != nil {
		run.mu.Lock()
		run.termErr = "pack Q(): " + err.Error()
		run.mu.Unlock()
		return err
	}
	qb := append([]byte(nil), (*payload)...)
	pool.ReleaseBuf(payload)
	ev := upEvent{Background: bg, Via: "term", Query: qb}
	uq, perr := wire.Parse(qb)
	if perr != nil {
		run.addUp(ev)
		t.cr.checkUp(run, &ev)
		return fmt.Errorf("harness upstream cannot parse query: %w", perr)
	}
	if f := run.c.Up.Fail; f != "" {
		run.addUp(ev)
		t.cr.checkUp(run, &ev)
		if !bg {
			run.mu.Lock()
			run.failSeen = f
			run.mu.Unlock()
		}
		switch {
		case f == "noresp":
			return nil
		case f == "timeout" && !bg && run.cancel != nil:
			run.cancel() // the client's context ends while the upstream is silent
			<-ctx.Done()
			return context.Cause(ctx)
		default:
			return errScripted
		}
	}
	ev.Reply = run.c.replyBytes(uq)
	r := new(dns.Msg)
	if err := r.Unpack(ev.Reply); err != nil {
		run.addUp(ev)
		t.cr.checkUp(run, &ev)
		run.mu.Lock()
		run.termErr = "unpack scripted reply: " + err.Error()
		run.mu.Unlock()
		return errors.New("all upstream servers failed")
	}
	ev.Delivered = true
	run.addUp(ev)
	t.cr.checkUp(run, &ev)
	qCtx.SetResponse(r)
	return nil
}

// inject sits right after the terminal. Plugins may edit R() in place; this one
// appends an OPT record with a distinctive TTL field and options to
// R().Extra, so that everything that runs afterwards (post-terminal ttl, the
// cache's store on the way back, the lazy-update store) meets an OPT inside
// R() without any malformed upstream being involved.
type inject struct{ cr *chainRun }

func (p *inject) Exec(ctx context.Context, qCtx *query_context.Context) error {
	run, _ := ctx.Value(ctxKey{}).(*caseRun)
	fg := run != nil
	if run == nil {
		p.cr.idmu.Lock()
		run = p.cr.byCtx[qCtx.Id()]
		p.cr.idmu.Unlock()
	}
	r := qCtx.R()
	if run == nil || run.c.Inject == nil || r == nil {
		return nil
	}
	spec := run.c.Inject
	opt := new(dns.OPT)
	opt.Hdr.Name = "."
	opt.Hdr.Rrtype = dns.TypeOPT
	opt.Hdr.Class = spec.Size
	opt.Hdr.Ttl = spec.ttl()
	for _, o := range spec.Options {
		opt.Option = append(opt.Option, &dns.EDNS0_LOCAL{Code: o.Code, Data: append([]byte(nil), o.Data...)})
	}
	r.Extra = append(r.Extra, opt)
	rep.Count("harness_injected_opts", 1)
	if fg {
		run.mu.Lock()
		run.injectedFg = true
		run.mu.Unlock()
	} else {
		rep.Count("harness_injected_opts_in_lazy_update", 1)
	}
	return nil
}

func (cr *chainRun) serveUDP() {
	defer cr.wg.Done()
	buf := make([]byte, 65535)
	for {
		n, addr, err := cr.udp.ReadFromUDP(buf)
		if err != nil {
			return
		}
		qb := append([]byte(nil), buf[:n]...)
		ev := upEvent{Via: "udp", Query: qb}
		uq, perr := wire.Parse(qb)
		if perr != nil || len(uq.Questions) != 1 {
			rep.Count("udp_upstream_unattributable_packets", 1)
			continue
		}
		// forward may send the same query several times and late copies can
		// arrive after Handle returned: attribute by the (per-case unique) name
		v, _ := cr.byName.Load(strings.ToLower(uq.Questions[0].Name))
		run, _ := v.(*caseRun)
		if run == nil {
			rep.Count("udp_upstream_unattributable_packets", 1)
			continue
		}
		if perr == nil {
			ev.Reply = run.c.replyBytes(uq)
			ev.Delivered = true
		}
		run.addUp(ev)
		cr.checkUp(run, &ev)
		if ev.Reply != nil {
			_, _ = cr.udp.WriteToUDP(ev.Reply, addr)
		}
	}
}

func codesText(c []uint16) string {
	var s []string
	for _, k := range c {
		s = append(s, fmt.Sprint(k))
	}
	return strings.Join(s, " ")
}

// buildChain instantiates the chain through mosdns' own plugin registry and
// sequence rule parser.
func buildChain(desc *chainDesc) (*chainRun, error) {
	cr := &chainRun{desc: desc, byCtx: map[uint32]*caseRun{}}
	plugins := map[string]any{}
	cr.m = coremain.NewTestMosdnsWithPlugins(plugins)
	plugins["probe"] = &probe{cr: cr}
	plugins["term"] = &term{cr: cr, mode: desc.TermMode}
	plugins["inject"] = &inject{cr: cr}

	newPlugin := func(typ, tag string, fill func(args any)) (any, error) {
		info, ok := coremain.GetPluginType(typ)
		if !ok {
			return nil, fmt.Errorf("plugin type %s not registered", typ)
		}
		args := info.NewArgs()
		fill(args)
		p, err := info.NewPlugin(coremain.NewBP(tag, cr.m), args)
		if err != nil {
			return nil, err
		}
		plugins[tag] = p
		if c, ok := p.(io.Closer); ok {
			cr.closers = append(cr.closers, c)
		}
		return p, nil
	}

	rules := []sequence.RuleArgs{{Exec: "$probe"}}
	doElem := func(e *elem) error {
		switch e.Kind {
		case "fwd_opt":
			e.Rule = "forward_edns0opt " + codesText(e.Codes)
		case "cache":
			_, err := newPlugin("cache", e.Tag, func(a any) {
				ca := a.(*cache.Args)
				ca.Size = 4096
				ca.LazyCacheTTL = e.Lazy
			})
			if err != nil {
				return err
			}
			e.Rule = "$" + e.Tag
		case "cache_quick":
			e.Rule = "cache 2048"
		case "accept_if_resp":
			e.Rule = "[has_resp] accept"
			rules = append(rules, sequence.RuleArgs{Matches: []string{"has_resp"}, Exec: "accept"})
			return nil
		case "ttl":
			e.Rule = "ttl " + e.TTLSpec
		case "ecs":
			e.Rule = "ecs"
			if e.Preset != "" {
				e.Rule += " " + e.Preset
				if e.OldMask {
					e.Rule += "/24"
				}
			}
		case "ecs_handler":
			_, err := newPlugin("ecs_handler", e.Tag, func(a any) {
				ea := a.(*ecs_handler.Args)
				ea.Forward, ea.Send, ea.Preset, ea.Mask4, ea.Mask6 = e.Forward, e.Send, e.Preset, e.Mask4, e.Mask6
			})
			if err != nil {
				return err
			}
			e.Rule = "$" + e.Tag
		case "drop_resp_aaaa":
			e.Rule = "[qtype 28] drop_resp"
			rules = append(rules, sequence.RuleArgs{Matches: []string{"qtype 28"}, Exec: "drop_resp"})
			return nil
		case "reject_txt":
			e.Rule = "[qtype 16] reject 5"
			rules = append(rules, sequence.RuleArgs{Matches: []string{"qtype 16"}, Exec: "reject 5"})
			return nil
		default:
			return fmt.Errorf("unknown element kind %q", e.Kind)
		}
		rules = append(rules, sequence.RuleArgs{Exec: e.Rule})
		return nil
	}
	for i := range desc.Pre {
		if err := doElem(&desc.Pre[i]); err != nil {
			return nil, err
		}
	}
	if desc.RealForward {
		c, err := net.ListenUDP("udp", &net.UDPAddr{IP: net.IPv4(127, 0, 0, 1)})
		if err != nil {
			return nil, fmt.Errorf("loopback udp: %w", err)
		}
		cr.udp = c
		cr.wg.Add(1)
		go cr.serveUDP()
		addr := c.LocalAddr().String()
		if desc.FwdQuick {
			rules = append(rules, sequence.RuleArgs{Exec: "forward " + addr})
		} else {
			_, err := newPlugin("forward", "fwd", func(a any) {
				fa := a.(*fastforward.Args)
				fa.Upstreams = []fastforward.UpstreamConfig{{Addr: "udp://" + addr}}
				fa.Concurrent = 1
			})
			if err != nil {
				return nil, err
			}
			rules = append(rules, sequence.RuleArgs{Exec: "$fwd"})
		}
	} else {
		rules = append(rules, sequence.RuleArgs{Exec: "$term"})
	}
	if desc.Inject {
		rules = append(rules, sequence.RuleArgs{Exec: "$inject"})
	}
	for i := range desc.Post {
		if err := doElem(&desc.Post[i]); err != nil {
			return nil, err
		}
	}
	cr.rules = rules
	seq, err := sequence.NewSequence(sequence.NewBQ(cr.m, zap.NewNop()), rules)
	if err != nil {
		return nil, err
	}
	cr.seq = seq
	cr.h = server_handler.NewEntryHandler(server_handler.EntryHandlerOpts{Entry: seq})
	return cr, nil
}

func (cr *chainRun) close() {
	if cr.seq != nil {
		_ = cr.seq.Close()
	}
	for _, c := range cr.closers {
		_ = c.Close()
	}
	if cr.udp != nil {
		_ = cr.udp.Close()
		cr.wg.Wait()
	}
}
