package main

import (
	"bytes"
	"compress/gzip"
	"encoding/binary"
	"errors"
	"fmt"
	"io"
	"net/http"
	"net/http/httptest"

	"google.golang.org/protobuf/encoding/protowire"
)

// dumpEntry is one cache entry decoded without mosdns' generated protobuf code.
type dumpEntry struct {
	Key []byte
	Msg []byte
}

// fetchDump asks the cache plugin's own HTTP API for a dump.
func (cr *chainRun) fetchDump(tag string) ([]byte, error) {
	rec := httptest.NewRecorder()
	req := httptest.NewRequest(http.MethodGet, "/plugins/"+tag+"/dump", nil)
	cr.m.GetAPIRouter().ServeHTTP(rec, req)
	if rec.Code != 200 {
		return nil, fmt.Errorf("dump status %d: %s", rec.Code, rec.Body.String())
	}
	return rec.Body.Bytes(), nil
}

// decodeDump: gzip stream (name "mosdns_cache_v2") of blocks, each an 8-byte
// big-endian length followed by a protobuf CacheDumpBlock{repeated CachedEntry
// entries = 1}; CachedEntry{bytes key = 1; bytes msg = 2; ...}.
func decodeDump(b []byte) ([]dumpEntry, error) {
	gr, err := gzip.NewReader(bytes.NewReader(b))
	if err != nil {
		return nil, err
	}
	if gr.Name != "mosdns_cache_v2" {
		return nil, fmt.Errorf("unexpected gzip name %q", gr.Name)
	}
	raw, err := io.ReadAll(gr)
	if err != nil {
		return nil, err
	}
	var out []dumpEntry
	for len(raw) > 0 {
		if len(raw) < 8 {
			return out, errors.New("short block header")
		}
		l := binary.BigEndian.Uint64(raw)
		raw = raw[8:]
		if uint64(len(raw)) < l {
			return out, errors.New("short block")
		}
		blk := raw[:l]
		raw = raw[l:]
		for len(blk) > 0 {
			num, typ, n := protowire.ConsumeTag(blk)
			if n < 0 {
				return out, protowire.ParseError(n)
			}
			blk = blk[n:]
			if num == 1 && typ == protowire.BytesType {
				eb, n := protowire.ConsumeBytes(blk)
				if n < 0 {
					return out, protowire.ParseError(n)
				}
				blk = blk[n:]
				var e dumpEntry
				for len(eb) > 0 {
					fn, ft, n := protowire.ConsumeTag(eb)
					if n < 0 {
						return out, protowire.ParseError(n)
					}
					eb = eb[n:]
					if ft == protowire.BytesType {
						v, n := protowire.ConsumeBytes(eb)
						if n < 0 {
							return out, protowire.ParseError(n)
						}
						eb = eb[n:]
						switch fn {
						case 1:
							e.Key = append([]byte(nil), v...)
						case 2:
							e.Msg = append([]byte(nil), v...)
						}
						continue
					}
					n = protowire.ConsumeFieldValue(fn, ft, eb)
					if n < 0 {
						return out, protowire.ParseError(n)
					}
					eb = eb[n:]
				}
				out = append(out, e)
				continue
			}
			n = protowire.ConsumeFieldValue(num, typ, blk)
			if n < 0 {
				return out, protowire.ParseError(n)
			}
			blk = blk[n:]
		}
	}
	return out, nil
}
