// C15 — EDNS0 is terminated, not leaked, between client and upstream.
//
// Generated client queries (no OPT / OPT with any size, DO, version, Z bits,
// extended-rcode bits and option list) are pushed through
// server_handler.EntryHandler.Handle into chains built from mosdns' own plugin
// registry and sequence rule text (cache, lazy cache, ttl, ecs, ecs_handler
// {forward,send,preset}, forward_edns0opt, has_resp/accept, reject) ending in
// a harness upstream (terminal plugin packing Q() exactly like forward does,
// or the real forward plugin talking to a loopback UDP server). The upstream
// answers with generated replies (no OPT / OPT with options, extended rcode,
// odd version / Z bits / position; hostile class: two OPT records).
// Two observation points, both decoded with lib/wire (no miekg/dns in the
// oracle): the bytes the upstream receives and the bytes Handle returns; plus
// the cache's own /dump decoded by hand (gzip + length-prefixed protobuf).
// Further dimensions: branch.go (context-copying plugins in front of option
// forwarders), replace.go (several responses set on one context one after the
// other), gen.go genClientAdditional (client additional sections with 0..4
// records: OPTs in any position mixed with other RRs), conftext.go (the
// configuration TEXT of forward_edns0opt / ecs_handler / ecs in every spelling
// of a number, boolean and address through the real args paths: rule text,
// plugin args decoder, YAML document read by coremain).
package main

import (
	"context"
	"errors"
	"fmt"
	"math/rand"
	"net/netip"
	"os"
	"sync"
	"time"

	"github.com/IrineSistiana/mosdns/v5/pkg/pool"
	"github.com/IrineSistiana/mosdns/v5/pkg/server"
	"github.com/miekg/dns"

	"verifharness/lib/evid"
	"verifharness/lib/leak"
)

var (
	rep     *evid.Reporter
	caselog *evid.CaseLog
)

func runChain(desc *chainDesc) {
	caselog.Log(map[string]any{"chain": desc})
	cr, err := buildChain(desc)
	if err != nil {
		rep.Inconclusive("chain %d could not be built: %v", desc.Idx, err)
		return
	}
	defer cr.close()
	rep.Count("chains", 1)
	rep.SetAdd("chain_shapes", desc.shape())
	if desc.RealForward {
		rep.Count("chains_with_real_forward_plugin", 1)
	}
	r := rand.New(rand.NewSource(desc.Seed*7000003 + int64(desc.Idx)*104729 + 5))
	names := make([]string, 10)
	for i := range names {
		names[i] = fmt.Sprintf("n%d.c%d.c15.test.", i, desc.Idx)
	}
	half := desc.NCases / 2
	var sampleRun *caseRun
	var sampleReply []byte
	for i := 0; i < desc.NCases; i++ {
		phase := 0
		if i >= half {
			phase = 1
		}
		if i == half {
			cr.checkDumps("after phase 0")
			if desc.hasCache() {
				// let TTL-1 answers expire (lazy hits) and the others age by >= 1 s
				time.Sleep(1100 * time.Millisecond)
			}
		}
		c := genCase(r, desc, i, phase, names)
		if desc.RealForward {
			c.Name = fmt.Sprintf("q%d.c%d.c15.test.", i, desc.Idx)
		}
		// additional-section dimension: every tenth case (own generator stream, so
		// the other cases of the chain stay what they were) the client sends a
		// generated record list instead of "at most one OPT"
		if ar := rand.New(rand.NewSource(desc.Seed*9000011 + int64(desc.Idx)*15485863 + int64(i)*31 + 77)); ar.Intn(10) == 0 {
			genClientAdditional(ar, c)
		}
		run := &caseRun{c: c}
		qb := c.queryBytes()
		q := new(dns.Msg)
		if err := q.Unpack(qb); err != nil {
			rep.Count("client_queries_rejected_by_unpack", 1)
			continue
		}
		rep.Eval(1)
		meta := server.QueryMeta{FromUDP: c.FromUDP}
		if c.ClientAddr != "" {
			meta.ClientAddr = netip.MustParseAddr(c.ClientAddr)
		}
		cr.byName.Store(c.Name, run)
		cctx, cancel := context.WithCancelCause(context.Background())
		run.cancel = func() { cancel(errors.New("harness: client context cancelled")) }
		ctx := context.WithValue(cctx, ctxKey{}, run)
		payload := cr.h.Handle(ctx, q, meta, pool.PackBuffer)
		cancel(nil)
		var reply []byte
		if payload != nil {
			reply = append([]byte(nil), (*payload)...)
			pool.ReleaseBuf(payload)
		}
		info := cr.checkReply(run, reply)

		// bookkeeping / coverage
		rep.Count("path:"+info.path, 1)
		if c.Opt != nil {
			rep.Count("client_opt_present", 1)
			rep.Count("client_options_sent", int64(len(c.Opt.Options)))
		} else {
			rep.Count("client_opt_absent", 1)
		}
		if len(c.Up.Opts) > 1 {
			rep.Count("upstream_replies_scripted_with_two_opts", 1)
		}
		if c.Inject != nil {
			rep.Count("cases_scripted_with_injected_opt", 1)
		}
		if c.Additional != nil {
			shape := c.additionalShape()
			nOpt := len(c.clientOpts())
			rep.Count("client_additional_cases", 1)
			rep.Count(fmt.Sprintf("client_additional_cases:%d_opt", nOpt), 1)
			rep.SetAdd("client_additional_shapes", shape)
			run.mu.Lock()
			nUp := len(run.up)
			run.mu.Unlock()
			outcome := "answered"
			switch {
			case reply == nil && nUp == 0:
				outcome = "dropped-before-upstream"
			case reply == nil:
				outcome = "no-reply"
			}
			if len(c.Additional) > 1 {
				rep.Count("client_additional_multi_record:"+outcome, 1)
				if nOpt > 1 && nUp > 0 {
					rep.Count("client_additional_multi_opt_reached_upstream", 1)
				}
			} else {
				rep.Count("client_additional_single_or_empty:"+outcome, 1)
			}
			fwd := len(desc.namedUp()) > 0
			rep.Nontrivial(fmt.Sprintf("ADDL|%s|%s|fwd=%v|udp=%v", shape, outcome, fwd, c.FromUDP))
		}
		// coverage grid for ecs_handler: configuration x client ECS class x upstream ECS class
		for _, e := range desc.Pre {
			if e.Kind != "ecs_handler" || info.path == "no-upstream" {
				continue
			}
			cl := "no-opt"
			if c.Opt != nil {
				cl = "opt-without-ecs"
				for _, x := range c.Opt.Options {
					if x.Code == 8 && len(x.Data) >= 2 {
						cl = fmt.Sprintf("ecs-family%d", x.Data[1])
					}
				}
			}
			up := "no-ecs"
			if len(c.Up.Opts) > 0 {
				if codeSet(c.Up.Opts[len(c.Up.Opts)-1].Options)[8] {
					up = "different-ecs"
				}
				if c.Up.EchoECS {
					up = "echo+" + up
				}
			}
			pre := "none"
			if e.Preset != "" {
				pre = "v6"
				if a, err := netip.ParseAddr(e.Preset); err == nil && a.Unmap().Is4() {
					pre = "v4"
				}
			}
			rep.SetAdd("ecs_handler_grid", fmt.Sprintf("fwd=%v,send=%v,preset=%s|client=%s|upstream=%s", e.Forward, e.Send, pre, cl, up))
		}
		if reply != nil && (c.Opt != nil || len(c.Up.Opts) > 0) {
			upc := "-"
			if len(c.Up.Opts) > 0 {
				upc = fmt.Sprintf("%d:%s", len(c.Up.Opts), optClass(&c.Up.Opts[len(c.Up.Opts)-1]))
			}
			rep.Nontrivial(fmt.Sprintf("%s|%s|%s|%s|tc=%v|udp=%v|inj=%v", desc.shape(), optClass(c.Opt), upc, info.path, info.truncated, c.FromUDP, c.Inject != nil))
			rep.SetAdd("client_opt_classes", optClass(c.Opt))
		}
		if sampleRun == nil && c.Opt != nil && len(c.Opt.Options) > 0 && len(c.Up.Opts) == 1 && c.Up.NAns <= 3 && info.path != "no-upstream" && reply != nil {
			sampleRun, sampleReply = run, reply
		}
	}
	cr.checkDumps("end of chain")
	if n := cr.bgEvents.Load(); n > 0 {
		rep.Count("chains_with_lazy_updates", 1)
	}
	if sampleRun != nil && rep.WantSample() && desc.Idx%5 == 0 {
		rep.Sample(cr.witness(sampleRun, map[string]any{"reply_to_client": fmt.Sprintf("%x", sampleReply)}))
	}
}

func main() {
	rep = evid.New("C15", "exploration")
	caselog = evid.OpenCaseLog()
	rep.SetRule("one case = one client query pushed through EntryHandler.Handle into a generated chain (random order/subset of forward_edns0opt{codes}, cache, lazy cache, has_resp->accept, ttl{fix|min-max}, ecs{preset}, ecs_handler{forward,send,preset,masks}, [qtype 16]->reject, terminal{guard|always}|real forward->loopback UDP, post-terminal ttl/forward_edns0opt/[qtype 28]->drop_resp; scripted upstream outcomes incl. error / no response / silence until the client context is cancelled, so the handler-made SERVFAIL and REFUSED replies are judged too) or of the branch family (prefer_ipv4|prefer_ipv6, fallback{always_standby on/off} over primary/secondary sub-sequences, lazy cache - each in front of forward_edns0opt / ecs_handler forward and a per-branch upstream whose reply names its origin (exchange, case, branch, qtype) in a TXT record and in every EDNS option, so the relayed reply is read off the client reply and every option in it is attributed; allowed-down = options of the relayed exchange of this very case), built through coremain's plugin registry + sequence.NewSequence rule text; client OPT generator: absent / sizes 0..65535 / DO / version 0-255 / Z bits / ext-rcode bits / option lists (ECS v4+v6, cookie, padding, NSID, EDE, keepalive, unknown codes, duplicates, empty); upstream reply generator: no OPT / OPT anywhere in the additional section with options, ext-rcode, version, Z / two OPTs (out-of-quantifier class: only cache-store, TTL-field and upstream-side assertions are judged for it); in a quarter of the chains a harness plugin appends an OPT with a distinctive TTL field in place to R().Extra right after the terminal (same in-scope assertions); every tenth case of the generated chains replaces the client's additional section by a generated record list (0..4 records, each an OPT with its own size/DO/options or an A/TXT/unknown-type RR, any order): all OPTs of the list count as the client's EDNS0 for the upstream-side assertions, the reply-side assertions apply when the list holds at most one OPT (several OPTs: out of the quantifier, only what an upstream receives is judged); replace family: 2-4 responders run one after the other on ONE context (harness upstreams that always query and reply with origin-tagged options / without OPT / error / no response, black_hole, reject, arbitrary, hosts, drop_resp, a cache around the remaining steps; each optionally behind has_resp / !has_resp / qtype matchers) behind forward_edns0opt [+ ecs_handler forward] and optionally a second forward_edns0opt between two steps, same attribution oracle as the branch family (allowed-down = options of the exchange the reply relays, read off its origin record; a replaced or dropped upstream reply contributes nothing); configuration-text family: one configuration = forward_edns0opt code list and/or ecs_handler / ecs arguments written as TEXT generated from (value, spelling) pairs - every code in {ordinary codes, 65535, 65536.., 2^32.., 2^64.., negative} x {plain, zero-padded, +signed, 0x, 0o, 0b, underscore, float, trailing junk, full-width digits} x route {sequence rule text -> QuickSetup, PluginConfig -> plugin args decoder, YAML document (exec as plain / quoted / literal scalar) -> coremain.NewMosdns include path}, alone or in lists (1-9 numbers, duplicates, empty list; blanks / tabs / newlines / commas / semicolons between them), ecs_handler forward / send in 46 spellings of a boolean, mask4 / mask6 in the same spellings of a number, preset / old ecs quick setup in 22 spellings of an address - loaded by mosdns itself; outcome refused-at-load is always fine, a loaded configuration gets 3 queries whose client OPT and upstream OPT carry one option per probe code {codes the text denotes, 8, 10, and every neighbour / 8-16-32-bit wrap / other-base reading of every number written}: each option that crosses must have a code the text denotes by construction (plain decimal reading; prefixed spellings by their prefix; at YAML scalar positions also the YAML 1.1 octal reading), each ECS sent upstream must be the client's (forward denoted true or code 8 denoted) or the one preset / send / masks denote; names are reused inside a chain and the chain sleeps 1.1 s half-way so cache hits, aged hits, lazy hits and truncated replies occur. Non-trivial = a reply was produced and the client or the upstream had an OPT; distinct = chain shape x client OPT class x upstream OPT class x path(miss/hit/refetch/no-upstream) x truncated x transport")
	rep.Assume("oracle decodes all observed bytes with lib/wire and the dump with compress/gzip + protowire; miekg/dns is used only where mosdns' own servers/forward use it (Unpack of the client query / upstream reply)")
	rep.Assume("'explicitly forwarded' is derived from the generated chain description: codes named by forward_edns0opt / ecs_handler forward before the terminal (upwards) or anywhere in the chain (downwards); ECS generated by ecs / ecs_handler preset|send is recomputed independently from preset, masks and client address")
	rep.Assume("replies produced while a surplus OPT sat in R() (two-OPT upstream reply, or the harness $inject plugin) are not judged for OPT count / DO mirror / option sets: query_context documents that R() carries no OPT and pops exactly one; they are judged for: nothing stored in the cache contains an OPT, no OPT TTL field is rewritten by ttl / cache ageing / truncation")
	rep.Assume("a client query with several OPT records is outside 'exactly one OPT iff the client's query had one': its reply (if any) is not judged; 'the query sent upstream always carries exactly one fresh OPT and none of the client's EDNS options unless forwarded' is judged for it like for any other query (HEAD drops such queries in the entry handler, so no upstream sees them)")
	rep.Assume("configuration-text family: what a text denotes is fixed by the generator that spelled it (value + spelling), never computed with strconv / yaml; only leaks are verdicts (an option crossing whose code the text does not denote) - refusing a configuration and not forwarding a denoted code are counted, not judged")
	rep.Assume("DO on the upstream OPT and the UDP size in the reply OPT are not judged (the statement does not fix them); an upstream extended rcode may appear in the reply OPT (it is the rcode, not an option)")

	workers := 32
	type job struct{ d *chainDesc }
	var descs []*chainDesc

	if rep.ReplayFile != "" {
		var w struct {
			Chain chainDesc `json:"chain"`
			Conf  *confDesc `json:"conf"`
		}
		if err := rep.LoadReplay(&w); err != nil {
			fmt.Println("cannot load replay:", err)
			os.Exit(3)
		}
		if w.Conf != nil {
			// the recorded descriptor holds the configuration text, the route and the
			// document: it is re-loaded and its cases re-sent as they are
			dir, err := os.MkdirTemp("", "c15conf-")
			if err != nil {
				fmt.Println("cannot create a directory for the configuration document:", err)
				os.Exit(3)
			}
			runConf(w.Conf, dir)
			_ = os.RemoveAll(dir)
			rep.Finish()
		}
		if w.Chain.Branch != nil {
			d := genBranchChain(w.Chain.Seed, w.Chain.Idx, w.Chain.NCases)
			if d.Branch.sig() != w.Chain.Branch.sig() {
				fmt.Println("replay: regenerated chain differs from the recorded one (generator changed?)")
				os.Exit(3)
			}
			for i := 0; i < 5 && rep.Violations() == 0; i++ { // goroutine-schedule dependent: repeat
				runBranchChain(d)
			}
			leak.WaitNone([]string{"cache.(*Cache).doLazyUpdate"}, nil, 10*time.Second)
			rep.Finish()
		}
		d := genChain(w.Chain.Seed, w.Chain.Idx, w.Chain.NCases, w.Chain.RealForward, w.Chain.MultiOpt)
		if d.Inject != w.Chain.Inject || d.shape() != w.Chain.shape() {
			fmt.Println("replay: regenerated chain differs from the recorded one (generator changed?)")
			os.Exit(3)
		}
		runChain(d)
		leak.WaitNone([]string{"cache.(*Cache).doLazyUpdate"}, nil, 10*time.Second)
		rep.Finish()
	}

	nChains := rep.Pick(240, 5000)
	nCases := rep.Pick(300, 600)
	nFwd := rep.Pick(16, 200)
	nFwdCases := rep.Pick(80, 200)
	for i := 0; i < nChains; i++ {
		descs = append(descs, genChain(rep.Seed, i, nCases, false, i%4 == 3))
	}
	for i := 0; i < nFwd; i++ {
		descs = append(descs, genChain(rep.Seed, 100000+i, nFwdCases, true, i%4 == 3))
	}

	nBranch := rep.Pick(64, 1200)
	nBranchCases := rep.Pick(120, 200)
	for i := 0; i < nBranch; i++ {
		descs = append(descs, genBranchChain(rep.Seed, 200000+i, nBranchCases))
	}

	// replace family: several responders on one context (replace.go)
	nReplace := rep.Pick(96, 1600)
	nReplaceCases := rep.Pick(120, 200)
	for i := 0; i < nReplace; i++ {
		descs = append(descs, genBranchChain(rep.Seed, replaceIdxBase+i, nReplaceCases))
	}

	jobs := make(chan *chainDesc)
	var wg sync.WaitGroup
	for w := 0; w < workers; w++ {
		wg.Add(1)
		go func() {
			defer wg.Done()
			for d := range jobs {
				if d.Branch != nil {
					runBranchChain(d)
				} else {
					runChain(d)
				}
			}
		}()
	}
	for _, d := range descs {
		jobs <- d
	}
	close(jobs)
	wg.Wait()
	// configuration-text family (conftext.go)
	runConfFamily()
	if left := leak.WaitNone([]string{"cache.(*Cache).doLazyUpdate"}, nil, 15*time.Second); len(left) > 0 {
		rep.Inconclusive("%d lazy-update goroutines still running at the end", len(left))
	}

	// the monitors must have seen what they are meant to judge
	need := []string{"up_queries_observed", "up_queries_via_real_forward_udp", "up_queries_from_lazy_update",
		"up_options_forwarded_explicitly", "up_ecs_generated", "reply_options_forwarded_explicitly",
		"truncated_replies_with_opt_intact", "cached_answers_inspected_at_terminal", "path:no-upstream",
		"dump_entries_checked", "client_opt_absent", "client_opt_present", "upstream_replies_scripted_with_two_opts",
		"out_of_quantifier_multi_opt_reply_not_judged", "harness_injected_opts", "injected_opt_reached_client_with_ttl_field_intact",
		"outcome:upstream_error", "outcome:upstream_noresp", "outcome:upstream_timeout", "handler_made_replies_judged_with_client_opt",
		"handler_made_replies_judged:rcode2", "handler_made_replies_judged:rcode5",
		"branch_exchanges:main", "branch_exchanges:primary", "branch_exchanges:secondary", "branch_exchanges_in_lazy_refresh",
		"lazy_hits_with_refresh_awaited", "branch_reply_options_attributed_to_relayed_exchange",
		"client_additional_cases:0_opt", "client_additional_cases:1_opt", "client_additional_cases:2_opt", "client_additional_cases:3_opt",
		"up_queries_for_generated_client_additional",
		"replace_final:local", "replace_final:cached", "replace_final:upstream-without-opt", "replace_final:upstream-with-options",
		"replace_final:handler-servfail", "replace_final:handler-refused",
		"replace_discarded_reply_had_forwardable_options:then-local", "replace_discarded_reply_had_forwardable_options:then-cached",
		"replace_discarded_reply_had_forwardable_options:then-upstream-without-opt", "replace_discarded_reply_had_forwardable_options:then-upstream-with-options",
		"conf_loaded:rule-text", "conf_loaded:decoded-map", "conf_loaded:yaml-file",
		"conf_refused_at_load:rule-text", "conf_refused_at_load:decoded-map", "conf_refused_at_load:yaml-file",
		"conf_loaded_with_number_class:plain", "conf_loaded_with_number_class:zero-padded", "conf_refused_with_number_class:out-of-range", "conf_refused_with_number_class:negative",
		"conf_up_options_forwarded_as_denoted", "conf_down_options_forwarded_as_denoted", "conf_client_probe_options_terminated", "conf_upstream_probe_options_terminated",
		"conf_loaded_with_ecs_handler", "conf_loaded_with_ecs", "conf_ecs_generated_as_denoted", "conf_up_ecs_forwarded_as_denoted", "conf_down_ecs_forwarded_as_denoted"}
	// 12 ecs_handler configurations x 4 client classes x 4 upstream classes = 192 cells
	rep.Count("ecs_handler_grid_cells_seen", int64(rep.SetLen("ecs_handler_grid")))
	if rep.SetLen("ecs_handler_grid") < 150 {
		rep.Inconclusive("only %d of 192 ecs_handler configuration x client x upstream cells were exercised", rep.SetLen("ecs_handler_grid"))
	}
	for _, k := range need {
		if k == "injected_opt_reached_client_with_ttl_field_intact" && rep.Get(k) == 0 && rep.Get("injected_opt_absent_from_client_reply") > 0 {
			continue // this tree never lets a plugin's surplus OPT through to the client: that part holds trivially
		}
		if rep.Get(k) == 0 {
			rep.Inconclusive("monitor counter %s stayed 0: that part of the property was not exercised", k)
		}
	}
	rep.Finish()
}
